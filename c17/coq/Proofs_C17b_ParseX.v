(** C17b, extended printing/re-parsing round trip, stage 3b: [type_parse_x] inverts [type_tostring] on
    [printable_x] (parameters on every class, categorical[type=T]). *)
From Coq Require Import ZArith List Bool Lia ZifyBool DecimalZ DecimalPos.
From AwkV Require Import Base Layout.
From AwkTypes Require Import Json Forms TypeStr Proofs_Json Proofs_Parse
  Proofs_C17b_ParseX_Json Proofs_C17b_ParseX_Defs Proofs_C17b_ParseX_Ty.
Import ListNotations.
Open Scope Z_scope.
Ltac Zify.zify_post_hook ::= Z.to_euclidean_division_equations.

(* ---------------------------------------------------------------- parameters of a node *)
Lemma rty_params_set q t : rty_params (rty_set_params q t) = q.
Proof. destruct t; reflexivity. Qed.
Lemma rty_set_set a b t : rty_set_params a (rty_set_params b t) = rty_set_params a t.
Proof. destruct t; reflexivity. Qed.
Lemma rty_set_same t : rty_set_params (rty_params t) t = t.
Proof. destruct t; reflexivity. Qed.
Lemma rty_ts_set q t : rty_ts (rty_set_params q t) = rty_ts t.
Proof. destruct t; reflexivity. Qed.

(* ---------------------------------------------------------------- the printer: wrapper and body *)
Definition tbody (t : rty) : bytes :=
  match rty_ts t with
  | _ :: _ => rty_ts t
  | [] =>
      match t with
      | RNum p _ dt =>
          if parameters_empty p then dtype_to_name dt else dtype_to_name dt ++ [91] ++ string_parameters p ++ [93]
      | RUnk p _ =>
          if parameters_empty p then n_unknown else n_unknown ++ [91] ++ string_parameters p ++ [93]
      | RList p _ t' =>
          if parameters_empty p then p_var_star ++ type_tostring t'
          else p_lvar_star ++ type_tostring t' ++ p_comma ++ string_parameters p ++ [93]
      | RReg p _ n t' =>
          if parameters_empty p then dec_of_Z n ++ p_star ++ type_tostring t'
          else [91] ++ dec_of_Z n ++ p_star ++ type_tostring t' ++ p_comma ++ string_parameters p ++ [93]
      | ROpt p _ t' =>
          if parameters_empty p
          then (if is_listlike t' then p_option_open ++ type_tostring t' ++ [93] else [63] ++ type_tostring t')
          else p_option_open ++ type_tostring t' ++ p_comma ++ string_parameters p ++ [93]
      | RUnion p _ l =>
          p_union_open ++ sep_concat p_comma (map type_tostring l)
          ++ (if parameters_empty p then [] else p_comma ++ string_parameters p) ++ [93]
      | RRec p _ ks l =>
          let types := map type_tostring l in
          match record_name p with
          | Some name =>
              name ++ [91] ++ sep_concat p_comma (match ks with Some ks => keyed ks types | None => types end) ++ [93]
          | None =>
              if parameters_empty p then
                match ks with
                | Some ks => [123] ++ sep_concat p_comma (keyed ks types) ++ [125]
                | None => [40] ++ sep_concat p_comma types ++ [41]
                end
              else
                match ks with
                | Some ks =>
                    p_struct_open ++ sep_concat p_comma (map quote ks) ++ p_mid ++ sep_concat p_comma types
                    ++ p_close_comma ++ string_parameters p ++ [93]
                | None =>
                    p_tuple_open ++ sep_concat p_comma types ++ p_close_comma ++ string_parameters p ++ [93]
                end
          end
      end
  end.

Lemma type_tostring_body t : type_tostring t = wrap_categorical (rty_params t) (tbody t).
Proof. destruct t as [p [|c s] dt|p [|c s]|p [|c s] t'|p [|c s] n t'|p [|c s] t'|p [|c s] ks l|p [|c s] l]; reflexivity. Qed.

Lemma tbody_nocat t : is_categorical (rty_params t) = false -> tbody t = type_tostring t.
Proof. intros H. rewrite type_tostring_body. unfold wrap_categorical. rewrite H. reflexivity. Qed.

(* ---------------------------------------------------------------- one step of the parser *)
Lemma alpha_not_91 c : is_alpha_ c = true -> (c =? 91) = false.
Proof. intros H. apply Z.eqb_neq. intros ->. discriminate H. Qed.

Lemma parse_tyx_word fuel w rest :
  (exists c w', w = c :: w' /\ is_alpha_ c = true) -> forallb is_alnum_ w = true ->
  match rest with [] => True | c :: _ => is_alnum_ c = false end ->
  parse_tyx (S fuel) (w ++ rest) = word_branchx (parse_tyx fuel) fuel w rest.
Proof.
  intros (c & w' & -> & Hc) Hall Hrest.
  destruct (alpha_tests c Hc) as (H63 & H123 & H40 & Hd & _). pose proof (alpha_not_91 c Hc) as H91.
  change ((c :: w') ++ rest) with (c :: (w' ++ rest)). cbn [parse_tyx].
  rewrite H63, H123, H40, H91, Hd, Hc.
  change (c :: w' ++ rest) with ((c :: w') ++ rest). rewrite (span_word is_alnum_ _ _ Hall Hrest). reflexivity.
Qed.

Lemma word_branchx_plain sub fuel w rest :
  match rest with [] => True | c :: _ => (c =? 91) = false end ->
  word_branchx sub fuel w rest = plain_word sub w rest.
Proof. unfold word_branchx. destruct rest as [|c r]; [reflexivity|]. intros ->. reflexivity. Qed.

Lemma word_branchx_bracket sub fuel w rest1 : word_branchx sub fuel w (91 :: rest1) = bracket_branchx sub fuel w rest1.
Proof. reflexivity. Qed.

Lemma parse_tyx_num fuel ds rest :
  (exists c ds', ds = c :: ds' /\ is_digit c = true) ->
  parse_tyx (S fuel) (ds ++ rest) = num_branch (parse_tyx fuel) (ds ++ rest).
Proof.
  intros (c & ds' & -> & Hc). destruct (digit_tests c Hc) as (H63 & H123 & H40).
  destruct (digit_tests_json c Hc) as (_ & _ & _ & _ & H91 & _).
  change ((c :: ds') ++ rest) with (c :: (ds' ++ rest)). cbn [parse_tyx]. rewrite H63, H123, H40, H91, Hc. reflexivity.
Qed.

Lemma parse_tyx_lbr fuel r : parse_tyx (S fuel) (91 :: r) = lbracket_branch (parse_tyx fuel) r.
Proof. reflexivity. Qed.
Lemma parse_tyx_opt fuel r : parse_tyx (S fuel) (63 :: r) = opt_branch (parse_tyx fuel) r.
Proof. reflexivity. Qed.
Lemma parse_tyx_brace fuel r : parse_tyx (S fuel) (123 :: r) = brace_branch (parse_tyx fuel) fuel r.
Proof. reflexivity. Qed.
Lemma parse_tyx_paren fuel r : parse_tyx (S fuel) (40 :: r) = paren_branch (parse_tyx fuel) fuel r.
Proof. reflexivity. Qed.

Lemma literal_word_plainx fuel w rest :
  (exists c w', w = c :: w' /\ is_alpha_ c = true) -> forallb is_alnum_ w = true -> follow_ok rest ->
  parse_tyx (S fuel) (w ++ rest) = plain_word (parse_tyx fuel) w rest.
Proof.
  intros Hw Hall Hf. rewrite (parse_tyx_word fuel w rest Hw Hall (follow_not_alnum rest Hf)).
  apply word_branchx_plain, follow_not_bracket, Hf.
Qed.

(* the keyword productions of w[ *)
Lemma bracket_option sub fuel rest1 : bracket_branchx sub fuel w_option rest1 =
  do tr <- sub rest1;
  match snd tr with
  | c :: rest2 =>
      if c =? 93 then (if is_listlike (fst tr) then Ok (ROpt [] [] (fst tr), rest2) else Err EValue)
      else do pr <- comma_params_close (snd tr); Ok (ROpt (fst pr) [] (fst tr), snd pr)
  | [] => Err EValue
  end.
Proof. reflexivity. Qed.
Lemma bracket_union sub fuel rest1 : bracket_branchx sub fuel w_union rest1 =
  do lr <- parse_itemsp sub fuel rest1; Ok (RUnion (snd (fst lr)) [] (fst (fst lr)), snd lr).
Proof. reflexivity. Qed.
Lemma bracket_categorical sub fuel r1 : bracket_branchx sub fuel w_categorical (p_type_eq ++ r1) =
  do tr <- sub r1;
  match snd tr with
  | c :: r2 =>
      if c =? 93
      then Ok (rty_set_params (pset k_categorical (JBool true) (rty_params (fst tr))) (fst tr), r2)
      else Err EValue
  | [] => Err EValue
  end.
Proof. reflexivity. Qed.
Lemma bracket_struct sub fuel r1 : bracket_branchx sub fuel w_struct (91 :: r1) =
  do kr <- parse_keyitems fuel r1;
  match strip_prefix p_comma_lbr (snd kr) with
  | Some r2 =>
      do lr <- parse_items sub fuel 93 r2; do pr <- comma_params_close (snd lr);
      Ok (RRec (fst pr) [] (Some (fst kr)) (fst lr), snd pr)
  | None => Err EValue
  end.
Proof. reflexivity. Qed.
Lemma bracket_tuple sub fuel r1 : bracket_branchx sub fuel w_tuple (91 :: r1) =
  do lr <- parse_items sub fuel 93 r1; do pr <- comma_params_close (snd lr);
  Ok (RRec (fst pr) [] None (fst lr), snd pr).
Proof. reflexivity. Qed.
Lemma bracket_unknown sub fuel rest1 : bracket_branchx sub fuel n_unknown rest1 =
  do pr <- params_close rest1; Ok (RUnk (fst pr) [], snd pr).
Proof. reflexivity. Qed.
Lemma bracket_prim sub fuel dt rest1 : fdtype_eqb dt FNotPrimitive = false ->
  bracket_branchx sub fuel (dtype_to_name dt) rest1 = do pr <- params_close rest1; Ok (RNum (fst pr) [] dt, snd pr).
Proof. destruct dt as [[]| | | | | | | |]; intros H; try discriminate H; reflexivity. Qed.
Lemma prim_word dt : fdtype_eqb dt FNotPrimitive = false ->
  (exists c w', dtype_to_name dt = c :: w' /\ is_alpha_ c = true) /\ forallb is_alnum_ (dtype_to_name dt) = true /\
  prim_of_name (dtype_to_name dt) = Some dt.
Proof.
  destruct dt as [[]| | | | | | | |]; intros H; try discriminate H;
    (split; [eexists; eexists; split; reflexivity|split; reflexivity]).
Qed.

(* ---------------------------------------------------------------- parameters, closing bracket *)
Lemma params_close_ok q rest : params_ok q = true -> params_close (sp_text q ++ 93 :: rest) = Ok (q, rest).
Proof. intros H. unfold params_close. rewrite (sp_text_parse q _ H). reflexivity. Qed.
Lemma comma_params_close_ok q rest : params_ok q = true ->
  comma_params_close (p_comma ++ sp_text q ++ 93 :: rest) = Ok (q, rest).
Proof. intros H. unfold comma_params_close. rewrite strip_prefix_app. apply params_close_ok, H. Qed.
Lemma starts_params_sp q rest : starts_params (sp_text q ++ rest) = true.
Proof. unfold starts_params, sp_text. rewrite <- app_assoc, strip_prefix_app. reflexivity. Qed.

(* ---------------------------------------------------------------- keys of struct[[...] *)
Lemma parse_keys_ok : forall ks fuel rest, ks <> [] -> forallb key_ok ks = true -> (length ks <= fuel)%nat ->
  parse_keys fuel (sep_concat p_comma (map quote ks) ++ 93 :: rest) = Ok (ks, rest).
Proof.
  induction ks as [|k ks IH]; intros fuel rest Hne Hk Hf; [congruence|].
  simpl in Hk. apply andb_true_iff in Hk as [Hk1 Hk2].
  destruct fuel as [|fuel]; [simpl in Hf; lia|].
  destruct ks as [|k2 ks].
  - cbn [map sep_concat parse_keys]. rewrite (unquote_quote k _ Hk1). cbn [bind snd fst].
    change (93 =? 93) with true. reflexivity.
  - cbn [map]. rewrite sep_concat_cons2. rewrite <- !app_assoc. cbn [parse_keys].
    rewrite (unquote_quote k _ Hk1). cbn [bind snd fst]. change (p_comma ++ ?x) with (44 :: 32 :: x). cbv iota beta.
    change (44 =? 93) with false. cbv iota. change (44 :: 32 :: ?x) with (p_comma ++ x). rewrite strip_prefix_app.
    change (quote k2 :: map quote ks) with (map quote (k2 :: ks)).
    rewrite (IH fuel rest); [reflexivity|discriminate|exact Hk2|simpl in *; lia].
Qed.

Lemma parse_keyitems_ok ks fuel rest : forallb key_ok ks = true -> (length ks <= fuel)%nat ->
  parse_keyitems fuel (sep_concat p_comma (map quote ks) ++ 93 :: rest) = Ok (ks, rest).
Proof.
  intros Hk Hf. destruct ks as [|k ks]; [reflexivity|].
  unfold parse_keyitems.
  assert (Hhead : exists r', sep_concat p_comma (map quote (k :: ks)) ++ 93 :: rest = 34 :: r').
  { cbn [map]. destruct (map quote ks); cbn [sep_concat]; unfold quote; cbn [app]; eexists; reflexivity. }
  destruct Hhead as (r' & Hr'). rewrite Hr'. change (34 =? 93) with false. cbv iota. rewrite <- Hr'.
  apply parse_keys_ok; [discriminate|exact Hk|exact Hf].
Qed.

(* ---------------------------------------------------------------- union contents with optional parameters *)
Definition no_params_head (t : rty) : Prop := forall r, starts_params (type_tostring t ++ r) = false.

Lemma sep_concat_head_app (sep p : bytes) parts X : exists r, sep_concat sep (p :: parts) ++ X = p ++ r.
Proof.
  destruct parts as [|q parts]; [exists X; reflexivity|].
  rewrite sep_concat_cons2. rewrite <- app_assoc. eexists. reflexivity.
Qed.

Lemma parse_listp_ok sub : forall l fuel q tail rest, l <> [] -> Forall (parses sub) l -> Forall no_params_head l ->
  (length l <= fuel)%nat ->
  (q = [] /\ tail = []) \/ (params_ok q = true /\ tail = p_comma ++ sp_text q) ->
  parse_listp sub fuel (sep_concat p_comma (map type_tostring l) ++ tail ++ 93 :: rest) = Ok ((l, q), rest).
Proof.
  induction l as [|t l IH]; intros fuel q tail rest Hne HF HN Hf Hq; [congruence|].
  inversion HF as [|? ? Ht HF']; subst. inversion HN as [|? ? Hnt HN']; subst.
  destruct fuel as [|fuel]; [simpl in Hf; lia|].
  destruct l as [|t2 l].
  - cbn [map sep_concat parse_listp]. destruct Hq as [[-> ->]|[Hq ->]].
    + cbn [app]. rewrite (Ht (93 :: rest)) by (simpl; auto). cbn [bind snd fst]. change (93 =? 93) with true. reflexivity.
    + rewrite <- app_assoc. rewrite (Ht (p_comma ++ sp_text q ++ 93 :: rest)) by (simpl; auto).
      cbn [bind snd fst]. change (p_comma ++ ?x) with (44 :: 32 :: x). cbv iota beta.
      change (44 =? 93) with false. cbv iota. change (44 :: 32 :: ?x) with (p_comma ++ x). rewrite strip_prefix_app.
      rewrite starts_params_sp. rewrite (params_close_ok q rest Hq). reflexivity.
  - cbn [map]. rewrite sep_concat_cons2.
    change (map type_tostring (t2 :: l)) with (type_tostring t2 :: map type_tostring l) in IH.
    rewrite <- !app_assoc. cbn [parse_listp].
    rewrite (Ht (p_comma ++ sep_concat p_comma (type_tostring t2 :: map type_tostring l) ++ tail ++ 93 :: rest)) by (simpl; auto).
    cbn [bind snd fst]. change (p_comma ++ ?x) with (44 :: 32 :: x). cbv iota beta.
    change (44 =? 93) with false. cbv iota. change (44 :: 32 :: ?x) with (p_comma ++ x). rewrite strip_prefix_app.
    destruct (sep_concat_head_app p_comma (type_tostring t2) (map type_tostring l) (tail ++ 93 :: rest)) as (r & Hr).
    inversion HN' as [|? ? Hnt2 _]; subst.
    assert (Hsp : starts_params (sep_concat p_comma (type_tostring t2 :: map type_tostring l) ++ tail ++ 93 :: rest) = false)
      by (rewrite Hr; apply Hnt2).
    rewrite Hsp.
    rewrite (IH fuel q tail rest); [reflexivity|discriminate|exact HF'|exact HN'|simpl in *; lia|exact Hq].
Qed.

Lemma parse_itemsp_ok sub l fuel q tail rest : Forall (parses sub) l -> Forall no_params_head l ->
  Forall (fun t => head_ok (type_tostring t)) l -> (length l <= fuel)%nat ->
  (q = [] /\ tail = []) \/ (l <> [] /\ params_ok q = true /\ tail = p_comma ++ sp_text q) ->
  parse_itemsp sub fuel (sep_concat p_comma (map type_tostring l) ++ tail ++ 93 :: rest) = Ok ((l, q), rest).
Proof.
  intros HF HN HH Hf Hq. destruct l as [|t l].
  - destruct Hq as [[-> ->]|[Hne _]]; [reflexivity|congruence].
  - unfold parse_itemsp.
    inversion HH as [|? ? (c & r & Hs & H93 & H41 & H125 & H34) _]; subst.
    destruct (sep_concat_head_app p_comma (type_tostring t) (map type_tostring l) (tail ++ 93 :: rest)) as (r' & Hr').
    change (map type_tostring (t :: l)) with (type_tostring t :: map type_tostring l).
    rewrite Hr', Hs. cbn [app]. rewrite H93. change (c :: r ++ r') with ((c :: r) ++ r'). rewrite <- Hs, <- Hr'.
    apply (parse_listp_ok sub (t :: l)); [discriminate|exact HF|exact HN|exact Hf|].
    destruct Hq as [Hq|[_ Hq]]; [left; exact Hq|right; exact Hq].
Qed.

(* ---------------------------------------------------------------- first bytes of a printed type *)
Definition good_head (s : bytes) : Prop := head_ok s /\ forall r, starts_params (s ++ r) = false.
Definition ok_head (c : Z) : bool :=
  negb (c =? 93) && negb (c =? 41) && negb (c =? 125) && negb (c =? 34) && negb (c =? 112).

Lemma good_head_cons c x : ok_head c = true -> good_head (c :: x).
Proof.
  unfold ok_head. intros H. apply andb_true_iff in H as [H H5]. apply andb_true_iff in H as [H H4].
  apply andb_true_iff in H as [H H3]. apply andb_true_iff in H as [H1 H2].
  apply negb_true_iff in H1, H2, H3, H4, H5. split.
  - exists c, x. auto.
  - intros r. unfold starts_params. cbn [app]. unfold p_parameters_eq. cbn [strip_prefix].
    rewrite (Z.eqb_sym 112 c), H5. reflexivity.
Qed.
Lemma good_head_eq s c x : s = c :: x -> ok_head c = true -> good_head s.
Proof. intros ->. apply good_head_cons. Qed.

Lemma alnum_not c : is_alnum_ c = true -> (c =? 61) = false /\ (c =? 91) = false.
Proof. intros H. split; apply Z.eqb_neq; intros ->; discriminate H. Qed.

Lemma strip_prefix_word a b : forall w x, forallb is_alnum_ a = true -> forallb is_alnum_ w = true ->
  strip_prefix (a ++ 61 :: b) (w ++ 91 :: x) = None.
Proof.
  induction a as [|y a IH]; intros w x Ha Hw.
  - destruct w as [|c w]; [reflexivity|]. simpl in Hw. apply andb_true_iff in Hw as [Hc _].
    destruct (alnum_not c Hc) as [H61 _]. cbn [app strip_prefix]. rewrite (Z.eqb_sym 61 c), H61. reflexivity.
  - simpl in Ha. apply andb_true_iff in Ha as [Hy Ha]. destruct (alnum_not y Hy) as [_ H91].
    destruct w as [|c w].
    + cbn [app strip_prefix]. rewrite H91. reflexivity.
    + simpl in Hw. apply andb_true_iff in Hw as [_ Hw]. cbn [app strip_prefix].
      destruct (y =? c); [apply IH; assumption|reflexivity].
Qed.

Lemma good_head_word w x : (exists c w', w = c :: w' /\ is_alpha_ c = true) -> forallb is_alnum_ w = true ->
  good_head (w ++ 91 :: x).
Proof.
  intros (c & w' & -> & Hc) Hall. split; [apply head_ok_alpha, Hc|].
  intros r. unfold starts_params.
  change p_parameters_eq with (k_parameters ++ 61 :: [123]).
  replace (((c :: w') ++ 91 :: x) ++ r) with ((c :: w') ++ 91 :: (x ++ r)) by (simpl; rewrite <- app_assoc; reflexivity).
  rewrite strip_prefix_word; [reflexivity|reflexivity|exact Hall].
Qed.

Lemma digit_ok_head c : is_digit c = true -> ok_head c = true.
Proof.
  unfold is_digit, ok_head. intros H. apply andb_true_iff in H as [H1 H2]. apply Z.leb_le in H1, H2.
  repeat (apply andb_true_iff; split); apply negb_true_iff, Z.eqb_neq; lia.
Qed.

Lemma hardcoded_tbody t q : hardcoded (rty_set_params q t) = true ->
  (rty_set_params q t = t_string /\ tbody t = p_string) \/ (rty_set_params q t = t_bytes /\ tbody t = p_bytes) \/
  (rty_set_params q t = t_char /\ tbody t = p_char) \/ (rty_set_params q t = t_byte /\ tbody t = p_byte).
Proof.
  intros H. destruct (hardcoded_cases _ H) as [E|[E|[E|E]]]; pose proof (f_equal rty_ts E) as Hts;
    rewrite rty_ts_set in Hts; [left|right; left|right; right; left|right; right; right];
    (split; [exact E|unfold tbody; rewrite Hts; reflexivity]).
Qed.

Lemma named_ok_inv p ks l : named_ok p ks l = true ->
  exists w, p = [(k_record, JStr w)] /\ is_name w = true /\ existsb (bytes_eqb w) reserved_words = false /\
            match ks, l with None, [] => false | _, _ => true end = true.
Proof.
  unfold named_ok. destruct p as [|[k v] p']; [discriminate|]. destruct v as [| | | |w| |]; try discriminate.
  destruct p'; [|discriminate]. intros H. apply andb_true_iff in H as [H Hks]. apply andb_true_iff in H as [H Hres].
  apply andb_true_iff in H as [Hk Hn]. apply bytes_eqb_eq in Hk. subst k. apply negb_true_iff in Hres.
  exists w. auto.
Qed.

Ltac head_const := eapply good_head_eq; [reflexivity|reflexivity].

Lemma good_head_printable t : printable_x t = true -> good_head (type_tostring t).
Proof.
  intros H. rewrite type_tostring_body. unfold wrap_categorical.
  destruct (is_categorical (rty_params t)); [head_const|].
  destruct t as [p s dt|p s|p s t'|p s n t'|p s t'|p s ks l|p s l]; cbn [printable_x rty_params] in H;
    apply andb_true_iff in H as [Hpv H]; apply orb_true_iff in H as [H|H];
    try (destruct (hardcoded_tbody _ _ H) as [[_ E]|[[_ E]|[[_ E]|[_ E]]]]; rewrite E; head_const);
    (destruct s; [|discriminate H]); unfold tbody; cbn [rty_ts].
  - apply negb_true_iff in H. destruct (prim_word dt H) as ((c & w' & Hw & Hc) & _ & _).
    destruct (parameters_empty p); rewrite Hw; apply good_head_cons;
      (destruct (head_ok_alpha c w' Hc) as (c0 & r0 & E0 & G1 & G2 & G3 & G4); injection E0 as <- <-;
       unfold ok_head; rewrite G1, G2, G3, G4; cbn [negb andb]; apply negb_true_iff, Z.eqb_neq; intros ->;
       destruct dt as [[]| | | | | | | |]; discriminate Hw).
  - destruct (parameters_empty p); head_const.
  - destruct (parameters_empty p); head_const.
  - destruct (parameters_empty p); [|head_const].
    apply andb_true_iff in H as [Hn _]. apply Z.leb_le in Hn.
    destruct (Z_of_digits_dec n Hn) as (u & Hu & Hnil & _). rewrite Hu.
    destruct (uint_digits_head u Hnil) as (c & r & Hcr & Hd). rewrite Hcr. apply good_head_cons, digit_ok_head, Hd.
  - destruct (parameters_empty p); [destruct (is_listlike t')|]; head_const.
  - apply andb_true_iff in H as [_ Hn]. destruct (record_name p) as [name|] eqn:En.
    + destruct (named_ok_inv p ks l Hn) as (w & -> & Hname & Hres & _).
      destruct (is_name_alnum w Hname) as (c & w' & Hw & Hc & Hall & Hnul).
      assert (name = w).
      { unfold record_name in En. rewrite (cstr_nonul w Hnul) in En.
        destruct (bytes_eqb k_record k_record && is_name w && negb (existsb (bytes_eqb w) datashape_keywords)); congruence. }
      subst name. apply good_head_word; [exists c, w'; auto|exact Hall].
    + destruct (parameters_empty p); destruct ks; head_const.
  - head_const.
Qed.

(* ---------------------------------------------------------------- the hardcoded four *)
Lemma hardcoded_bodyx t q : hardcoded (rty_set_params q t) = true -> forall fuel rest, (1 <= fuel)%nat -> follow_ok rest ->
  parse_tyx fuel (tbody t ++ rest) = Ok (rty_set_params q t, rest).
Proof.
  intros H fuel rest Hf Hr. destruct fuel as [|fuel]; [lia|].
  destruct (hardcoded_tbody t q H) as [[-> ->]|[[-> ->]|[[-> ->]| [-> ->]]]];
    (rewrite literal_word_plainx; [reflexivity|eexists; eexists; split; reflexivity|reflexivity|exact Hr]).
Qed.

(* ---------------------------------------------------------------- the categorical wrapper *)
Lemma wrap_ok t : pvals_ok (rty_params t) = true ->
  (forall fuel rest, (2 * rty_size t - 1 <= fuel)%nat -> follow_ok rest ->
     parse_tyx fuel (tbody t ++ rest) = Ok (rty_set_params (shown (rty_params t)) t, rest)) ->
  forall fuel rest, (2 * rty_size t <= fuel)%nat -> follow_ok rest ->
  parse_tyx fuel (type_tostring t ++ rest) = Ok (t, rest).
Proof.
  intros Hp Hb fuel rest Hf Hr. rewrite type_tostring_body. unfold wrap_categorical.
  pose proof (rebuild_shown _ Hp) as Hre. unfold rebuild in Hre.
  destruct (is_categorical (rty_params t)) eqn:Ec.
  - destruct fuel as [|fuel]; [pose proof (rty_size_pos t); lia|].
    change p_categorical_open with (w_categorical ++ 91 :: p_type_eq). rewrite <- !app_assoc.
    rewrite parse_tyx_word; [|eexists; eexists; split; reflexivity|reflexivity|reflexivity].
    cbn [app]. rewrite word_branchx_bracket, bracket_categorical.
    rewrite (Hb fuel (93 :: rest)) by (try lia; simpl; auto).
    cbn [bind fst snd]. change (93 =? 93) with true. cbv iota.
    rewrite rty_params_set, rty_set_set, Hre, rty_set_same. reflexivity.
  - rewrite Hb; [rewrite Hre, rty_set_same; reflexivity|lia|exact Hr].
Qed.

(* ---------------------------------------------------------------- the round trip *)
Definition ppx (t : rty) : Prop :=
  printable_x t = true -> forall fuel rest, (2 * rty_size t <= fuel)%nat -> follow_ok rest ->
  parse_tyx fuel (type_tostring t ++ rest) = Ok (t, rest).

Lemma parses_of_ppx fuel l :
  Forall ppx l -> forallb printable_x l = true ->
  (2 * fold_right (fun t n => (rty_size t + n)%nat) O l <= fuel)%nat ->
  Forall (parses (parse_tyx fuel)) l /\ Forall (fun t => head_ok (type_tostring t)) l /\
  Forall no_params_head l /\ (length l <= fuel)%nat.
Proof.
  intros HF Hp Hs. destruct (size_sum_ge l) as [Hlen Hsz]. rewrite forallb_forall in Hp.
  split; [|split; [|split; [|lia]]].
  - apply Forall_forall. intros t Ht rest Hr. rewrite Forall_forall in HF.
    apply (HF t Ht (Hp t Ht)); [specialize (Hsz t Ht); lia|exact Hr].
  - apply Forall_forall. intros t Ht. exact (proj1 (good_head_printable t (Hp t Ht))).
  - apply Forall_forall. intros t Ht. exact (proj2 (good_head_printable t (Hp t Ht))).
Qed.

Lemma strip_var_digits u X : u <> Decimal.Nil -> strip_prefix p_var_star (uint_digits u ++ X) = None.
Proof.
  intros Hnil. destruct (uint_digits_head u Hnil) as (c & r & -> & Hd). cbn [app]. unfold p_var_star. cbn [strip_prefix].
  unfold is_digit in Hd. apply andb_true_iff in Hd as [H1 H2]. apply Z.leb_le in H1, H2.
  replace (118 =? c) with false by (symmetry; apply Z.eqb_neq; lia). reflexivity.
Qed.

Lemma reserved_neq w : existsb (bytes_eqb w) reserved_words = false ->
  forall x, existsb (bytes_eqb x) reserved_words = true -> bytes_eqb w x = false.
Proof.
  intros Hres x Hx. destruct (bytes_eqb w x) eqn:E; [|reflexivity].
  apply bytes_eqb_eq in E. subst x. congruence.
Qed.

Lemma bracket_named sub fuel w rest1 : existsb (bytes_eqb w) reserved_words = false ->
  bracket_branchx sub fuel w rest1 = bracket_branch sub fuel w rest1.
Proof.
  intros Hres. pose proof (reserved_neq w Hres) as Hn. unfold bracket_branchx.
  rewrite (Hn w_option eq_refl), (Hn w_union eq_refl), (Hn w_categorical eq_refl), (Hn w_struct eq_refl),
    (Hn w_tuple eq_refl), (Hn n_unknown eq_refl).
  destruct (prim_of_name w) as [d|] eqn:Ep; [exfalso|].
  - unfold prim_of_name in Ep. apply find_some in Ep as [Hin Heq]. apply bytes_eqb_eq in Heq. subst w.
    simpl in Hin. repeat (destruct Hin as [<-|Hin]; [discriminate Hres|]). exact Hin.
  - unfold bracket_branch. rewrite (Hn w_option eq_refl), (Hn w_union eq_refl). reflexivity.
Qed.

Ltac comma_step :=
  change (p_comma ++ ?x) with (44 :: 32 :: x); cbv iota beta; change (44 =? 93) with false; cbv iota;
  change (44 :: 32 :: ?x) with (p_comma ++ x).

Theorem parse_print_allx t : ppx t.
Proof.
  induction t as [p s dt|p s|p s t' IH|p s n t' IH|p s t' IH|p s ks l IH|p s l IH] using rty_ind';
    intros Hpx; cbn [printable_x rty_params] in Hpx; apply andb_true_iff in Hpx as [Hpv Hm];
    match goal with |- forall fuel rest, _ -> _ -> parse_tyx _ (type_tostring ?t ++ _) = _ => apply (wrap_ok t Hpv) end;
    intros fuel rest Hf Hr; cbn [rty_params] in *;
    apply orb_true_iff in Hm as [Hm|Hm];
    try (apply hardcoded_bodyx; [exact Hm| |exact Hr];
         match goal with H : (2 * rty_size ?t - 1 <= _)%nat |- _ => pose proof (rty_size_pos t); lia end);
    (destruct s; [|discriminate Hm]);
    (destruct fuel as [|fuel]; [match goal with H : (2 * rty_size ?t - 1 <= _)%nat |- _ => pose proof (rty_size_pos t); lia end|]);
    simpl rty_size in Hf; unfold tbody; cbn [rty_ts rty_set_params].
  - (* primitive *)
    apply negb_true_iff in Hm. destruct (prim_word dt Hm) as (Hw & Hall & _).
    rewrite (parameters_empty_shown p Hpv), string_parameters_shown. pose proof (pvals_shown p Hpv) as Hq.
    destruct (shown p) as [|x q'].
    + destruct dt as [[]| | | | | | | |]; try discriminate Hm;
        (rewrite literal_word_plainx; [reflexivity|eexists; eexists; split; reflexivity|reflexivity|exact Hr]).
    + specialize (Hq ltac:(discriminate)). remember (x :: q') as q. rewrite <- !app_assoc. cbn [app].
      rewrite parse_tyx_word; [|exact Hw|exact Hall|reflexivity].
      rewrite word_branchx_bracket, (bracket_prim _ _ dt _ Hm), (params_close_ok q rest Hq). reflexivity.
  - (* unknown *)
    rewrite (parameters_empty_shown p Hpv), string_parameters_shown. pose proof (pvals_shown p Hpv) as Hq.
    destruct (shown p) as [|x q'].
    + rewrite literal_word_plainx; [reflexivity|eexists; eexists; split; reflexivity|reflexivity|exact Hr].
    + specialize (Hq ltac:(discriminate)). remember (x :: q') as q. rewrite <- !app_assoc. cbn [app].
      rewrite parse_tyx_word; [|eexists; eexists; split; reflexivity|reflexivity|reflexivity].
      rewrite word_branchx_bracket, bracket_unknown, (params_close_ok q rest Hq). reflexivity.
  - (* var * T *)
    rewrite (parameters_empty_shown p Hpv), string_parameters_shown. pose proof (pvals_shown p Hpv) as Hq.
    destruct (shown p) as [|x q'].
    + change p_var_star with (w_var ++ p_star). rewrite <- !app_assoc.
      rewrite parse_tyx_word; [|eexists; eexists; split; reflexivity|reflexivity|reflexivity].
      rewrite word_branchx_plain by reflexivity.
      unfold plain_word. change (bytes_eqb w_var w_var) with true. cbv iota. rewrite strip_prefix_app.
      rewrite (IH Hm fuel rest) by (try lia; exact Hr). reflexivity.
    + specialize (Hq ltac:(discriminate)). remember (x :: q') as q.
      change p_lvar_star with (91 :: p_var_star). rewrite <- !app_assoc. cbn [app].
      rewrite parse_tyx_lbr. unfold lbracket_branch. rewrite strip_prefix_app.
      rewrite (IH Hm fuel (p_comma ++ sp_text q ++ 93 :: rest)) by (try lia; simpl; auto).
      cbn [bind fst snd]. rewrite (comma_params_close_ok q rest Hq). reflexivity.
  - (* N * T *)
    apply andb_true_iff in Hm as [Hn Hm]. apply Z.leb_le in Hn.
    destruct (Z_of_digits_dec n Hn) as (u & Hu & Hnil & Hval). rewrite Hu.
    destruct (uint_digits_head u Hnil) as (c & r & Hcr & Hd).
    rewrite (parameters_empty_shown p Hpv), string_parameters_shown. pose proof (pvals_shown p Hpv) as Hq.
    destruct (shown p) as [|x q'].
    + rewrite <- !app_assoc.
      rewrite parse_tyx_num by (exists c, r; split; [exact Hcr|exact Hd]).
      unfold num_branch. rewrite (span_word is_digit _ _ (uint_digits_digits u)) by reflexivity.
      rewrite strip_prefix_app. rewrite (IH Hm fuel rest) by (try lia; exact Hr).
      cbn [bind fst snd]. rewrite Hval. reflexivity.
    + specialize (Hq ltac:(discriminate)). remember (x :: q') as q. rewrite <- !app_assoc. cbn [app].
      rewrite parse_tyx_lbr. unfold lbracket_branch. rewrite (strip_var_digits u _ Hnil).
      rewrite (span_word is_digit _ _ (uint_digits_digits u)) by reflexivity.
      rewrite Hval. rewrite Hcr. rewrite strip_prefix_app.
      rewrite (IH Hm fuel (p_comma ++ sp_text q ++ 93 :: rest)) by (try lia; simpl; auto).
      cbn [bind fst snd]. rewrite (comma_params_close_ok q rest Hq). reflexivity.
  - (* option *)
    rewrite (parameters_empty_shown p Hpv), string_parameters_shown. pose proof (pvals_shown p Hpv) as Hq.
    destruct (shown p) as [|x q'].
    + destruct (is_listlike t') eqn:El.
      * change p_option_open with (w_option ++ [91]). rewrite <- !app_assoc. cbn [app].
        rewrite parse_tyx_word; [|eexists; eexists; split; reflexivity|reflexivity|reflexivity].
        rewrite word_branchx_bracket, bracket_option.
        rewrite (IH Hm fuel (93 :: rest)) by (try lia; simpl; auto).
        cbn [bind fst snd]. change (93 =? 93) with true. cbv iota. rewrite El. reflexivity.
      * cbn [app]. rewrite parse_tyx_opt. unfold opt_branch. rewrite (IH Hm fuel rest) by (try lia; exact Hr).
        cbn [bind fst snd]. rewrite El. reflexivity.
    + specialize (Hq ltac:(discriminate)). remember (x :: q') as q.
      change p_option_open with (w_option ++ [91]). rewrite <- !app_assoc. cbn [app].
      rewrite parse_tyx_word; [|eexists; eexists; split; reflexivity|reflexivity|reflexivity].
      rewrite word_branchx_bracket, bracket_option.
      rewrite (IH Hm fuel (p_comma ++ sp_text q ++ 93 :: rest)) by (try lia; simpl; auto).
      cbn [bind fst snd]. comma_step. rewrite (comma_params_close_ok q rest Hq). reflexivity.
  - (* records and tuples *)
    apply andb_true_iff in Hm as [Hm Hname]. apply andb_true_iff in Hm as [Hpl Hks].
    destruct (parses_of_ppx fuel l IH Hpl ltac:(lia)) as (Hparses & Hheads & _ & Hlen).
    destruct (record_name p) as [name|] eqn:En.
    + (* Name[...] *)
      destruct (named_ok_inv p ks l Hname) as (w & -> & Hn & Hres & Hempty).
      destruct (is_name_alnum w Hn) as (c & w' & Hw & Hc & Hall & Hnul).
      assert (name = w).
      { unfold record_name in En. rewrite (cstr_nonul w Hnul) in En.
        destruct (bytes_eqb k_record k_record && is_name w && negb (existsb (bytes_eqb w) datashape_keywords)); congruence. }
      subst name. clear En.
      change (shown [(k_record, JStr w)]) with (@cons (bytes * json) (k_record, JStr w) nil).
      rewrite <- !app_assoc. cbn [app]. rewrite <- ?app_assoc. cbn [app].
      rewrite parse_tyx_word; [|exists c, w'; split; [exact Hw|exact Hc]|exact Hall|reflexivity].
      rewrite word_branchx_bracket, (bracket_named _ _ w _ Hres).
      pose proof (reserved_neq w Hres) as Hneq.
      unfold bracket_branch. rewrite (Hneq w_option eq_refl), (Hneq w_union eq_refl), Hres.
      destruct ks as [ks|].
      * apply andb_true_iff in Hks as [Hl Hkeys]. apply Nat.eqb_eq in Hl.
        rewrite (keyed_map ks l Hl). destruct (zip_fst_snd ks l Hl) as [E1 E2].
        destruct (zip ks l) as [|[k0 t0] kts] eqn:Ez.
        -- simpl in E1, E2. subst ks l. cbn [map sep_concat app]. change (93 =? 34) with false. change (93 =? 93) with true. reflexivity.
        -- assert (Hhead : exists r', sep_concat p_comma (map (fun kt : bytes * rty => quote (fst kt) ++ p_colon ++ type_tostring (snd kt)) ((k0, t0) :: kts)) ++ 93 :: rest = 34 :: r').
           { cbn [map fst snd]. destruct (map _ kts); cbn [sep_concat]; unfold quote; cbn [app]; eexists; reflexivity. }
           destruct Hhead as (r' & Hr'). rewrite Hr'. change (34 =? 34) with true. cbv iota. rewrite <- Hr'.
           rewrite (parse_fields_ok (parse_tyx fuel) 93 (or_introl eq_refl) ((k0, t0) :: kts) fuel rest).
           ++ cbn [bind fst snd]. rewrite E1, E2. reflexivity.
           ++ discriminate.
           ++ apply Forall_forall. intros [k1 t1] Hin. simpl. rewrite Forall_forall in Hparses. apply Hparses.
              rewrite <- E2. apply (in_map snd _ _ Hin).
           ++ rewrite E1. exact Hkeys.
           ++ assert (length ((k0, t0) :: kts) = length l) by (rewrite <- E2; rewrite map_length; reflexivity). lia.
      * destruct l as [|t0 l0]; [discriminate Hempty|].
        inversion Hheads as [|? ? (c0 & r0 & Hs0 & H93 & H41 & H125 & H34) _]; subst.
        assert (Hhead : exists r', sep_concat p_comma (map type_tostring (t0 :: l0)) ++ 93 :: rest = c0 :: r').
        { cbn [map]. destruct (map type_tostring l0); cbn [sep_concat]; rewrite Hs0; eexists; reflexivity. }
        destruct Hhead as (r' & Hr'). rewrite Hr'. rewrite H34, H93. rewrite <- Hr'.
        rewrite (parse_list_ok (parse_tyx fuel) 93 (or_introl eq_refl) (t0 :: l0) fuel rest); [reflexivity|discriminate|exact Hparses|exact Hlen].
    + rewrite (parameters_empty_shown p Hpv), string_parameters_shown. pose proof (pvals_shown p Hpv) as Hq.
      destruct (shown p) as [|x q'].
      * destruct ks as [ks|].
        -- apply andb_true_iff in Hks as [Hl Hkeys]. apply Nat.eqb_eq in Hl.
           rewrite (keyed_map ks l Hl). cbn [app]. rewrite parse_tyx_brace.
           unfold brace_branch. rewrite <- app_assoc. cbn [app].
           destruct (zip_fst_snd ks l Hl) as [E1 E2].
           rewrite (parse_fielditems_ok (parse_tyx fuel) 125 (or_intror eq_refl) (zip ks l) fuel rest).
           ++ cbn [bind fst snd]. rewrite E1, E2. reflexivity.
           ++ apply Forall_forall. intros [k0 t0] Hin. simpl. rewrite Forall_forall in Hparses. apply Hparses.
              rewrite <- E2. apply (in_map snd _ _ Hin).
           ++ rewrite E1. exact Hkeys.
           ++ assert (length (zip ks l) = length l) by (rewrite <- E2 at 2; rewrite map_length; reflexivity). lia.
        -- cbn [app]. rewrite parse_tyx_paren. unfold paren_branch. rewrite <- app_assoc. cbn [app].
           rewrite (parse_items_ok (parse_tyx fuel) 41 (or_intror (or_introl eq_refl)) l fuel rest Hparses Hheads Hlen).
           reflexivity.
      * specialize (Hq ltac:(discriminate)). remember (x :: q') as q.
        destruct ks as [ks|].
        -- apply andb_true_iff in Hks as [Hl Hkeys]. apply Nat.eqb_eq in Hl.
           change p_struct_open with (w_struct ++ [91; 91]). change p_mid with (93 :: p_comma_lbr).
           change p_close_comma with (93 :: p_comma). rewrite <- !app_assoc. cbn [app].
           rewrite parse_tyx_word; [|eexists; eexists; split; reflexivity|reflexivity|reflexivity].
           rewrite word_branchx_bracket, bracket_struct.
           rewrite (parse_keyitems_ok ks fuel _ Hkeys) by lia.
           cbn [bind fst snd]. rewrite strip_prefix_app.
           rewrite (parse_items_ok (parse_tyx fuel) 93 (or_introl eq_refl) l fuel _ Hparses Hheads Hlen).
           cbn [bind fst snd]. rewrite (comma_params_close_ok q rest Hq). reflexivity.
        -- change p_tuple_open with (w_tuple ++ [91; 91]). change p_close_comma with (93 :: p_comma).
           rewrite <- !app_assoc. cbn [app].
           rewrite parse_tyx_word; [|eexists; eexists; split; reflexivity|reflexivity|reflexivity].
           rewrite word_branchx_bracket, bracket_tuple.
           rewrite (parse_items_ok (parse_tyx fuel) 93 (or_introl eq_refl) l fuel _ Hparses Hheads Hlen).
           cbn [bind fst snd]. rewrite (comma_params_close_ok q rest Hq). reflexivity.
  - (* union *)
    apply andb_true_iff in Hm as [Hpl Hne].
    destruct (parses_of_ppx fuel l IH Hpl ltac:(lia)) as (Hparses & Hheads & Hnop & Hlen).
    rewrite (parameters_empty_shown p Hpv), string_parameters_shown. pose proof (pvals_shown p Hpv) as Hq.
    change p_union_open with (w_union ++ [91]). rewrite <- !app_assoc.
    rewrite parse_tyx_word; [|eexists; eexists; split; reflexivity|reflexivity|reflexivity].
    change ([91] ++ ?y) with (91 :: y). rewrite word_branchx_bracket, bracket_union.
    match goal with |- context [parse_itemsp ?s ?f ?txt] =>
      assert (Hitems : parse_itemsp s f txt = Ok ((l, shown p), rest)) end.
    { destruct (shown p) as [|x q'].
      - apply (parse_itemsp_ok (parse_tyx fuel) l fuel [] [] rest Hparses Hnop Hheads Hlen). left. split; reflexivity.
      - specialize (Hq ltac:(discriminate)). remember (x :: q') as q.
        apply (parse_itemsp_ok (parse_tyx fuel) l fuel q (p_comma ++ sp_text q) rest Hparses Hnop Hheads Hlen).
        right. split; [|split; [exact Hq|reflexivity]]. subst q. destruct l; [discriminate Hne|discriminate]. }
    rewrite Hitems. reflexivity.
Qed.

(* ---------------------------------------------------------------- enough fuel *)
Lemma rty_size_set q t : rty_size (rty_set_params q t) = rty_size t.
Proof. destruct t; reflexivity. Qed.

Lemma wrap_len p body : (length body <= length (wrap_categorical p body))%nat.
Proof. unfold wrap_categorical. destruct (is_categorical p); [|lia]. rewrite !app_length. lia. Qed.

Lemma sum_sizes_lex (l : list rty) :
  Forall (fun t => printable_x t = true -> (rty_size t <= length (type_tostring t))%nat) l ->
  forallb printable_x l = true ->
  (fold_right (fun t n => (rty_size t + n)%nat) O l <=
   fold_right (fun p n => (length p + n)%nat) O (map type_tostring l))%nat.
Proof.
  induction 1 as [|t l Ht Hl IH]; intros Hp; [simpl; lia|]. cbn [map fold_right].
  simpl in Hp. apply andb_true_iff in Hp as [H1 H2]. specialize (Ht H1). specialize (IH H2). lia.
Qed.

Ltac lens := repeat match goal with |- context [@length Z ?c] =>
  is_const c; let n := eval vm_compute in (@length Z c) in change (@length Z c) with n end.

Lemma size_le_printx t : printable_x t = true -> (rty_size t <= length (type_tostring t))%nat.
Proof.
  induction t as [p s dt|p s|p s t' IH|p s n t' IH|p s t' IH|p s ks l IH|p s l IH] using rty_ind';
    intros Hpx; cbn [printable_x rty_params] in Hpx; apply andb_true_iff in Hpx as [Hpv Hm];
    rewrite type_tostring_body;
    match goal with |- (_ <= length (wrap_categorical ?p ?b))%nat => pose proof (wrap_len p b) as Hwl end;
    match goal with |- (_ <= ?x)%nat => remember x as L eqn:EL; clear EL end;
    cbn [rty_params] in *; apply orb_true_iff in Hm as [Hm|Hm];
    try (destruct (hardcoded_tbody _ _ Hm) as [[E Eb]|[[E Eb]|[[E Eb]|[E Eb]]]]; rewrite Eb in *;
         match goal with |- (rty_size ?t <= _)%nat => rewrite <- (rty_size_set (shown p) t), E end;
         vm_compute in Hwl; simpl; lia);
    (destruct s; [|discriminate Hm]); unfold tbody in Hwl; cbn [rty_ts] in Hwl; simpl rty_size.
  - apply negb_true_iff in Hm. destruct (prim_word dt Hm) as ((c & w' & Hw & _) & _ & _). rewrite Hw in Hwl.
    destruct (parameters_empty p); rewrite ?app_length in Hwl; cbn [length] in Hwl; lia.
  - destruct (parameters_empty p); rewrite ?app_length in Hwl; cbn [length] in Hwl; lens; vm_compute (length n_unknown) in Hwl; lia.
  - specialize (IH Hm). destruct (parameters_empty p); rewrite ?app_length in Hwl; cbn [length] in Hwl;
      vm_compute (length p_var_star) in Hwl; vm_compute (length p_lvar_star) in Hwl; lia.
  - apply andb_true_iff in Hm as [_ Hm]. specialize (IH Hm). pose proof (dec_of_Z_length n).
    destruct (parameters_empty p); rewrite ?app_length in Hwl; cbn [length] in Hwl; lia.
  - specialize (IH Hm). destruct (parameters_empty p); [destruct (is_listlike t')|]; rewrite ?app_length in Hwl; cbn [length] in Hwl;
      vm_compute (length p_option_open) in Hwl; lia.
  - apply andb_true_iff in Hm as [Hm _]. apply andb_true_iff in Hm as [Hpl Hks].
    pose proof (sum_sizes_lex l IH Hpl) as Hsum.
    pose proof (sep_concat_length p_comma (map type_tostring l)) as Hsc.
    destruct (record_name p); [|destruct (parameters_empty p)]; (destruct ks as [ks|];
      [apply andb_true_iff in Hks as [Hl _]; apply Nat.eqb_eq in Hl;
       pose proof (sep_concat_length p_comma (keyed ks (map type_tostring l))); pose proof (keyed_lengths ks l Hl)|]);
      rewrite ?app_length in Hwl; cbn [length] in Hwl; lia.
  - apply andb_true_iff in Hm as [Hpl _]. pose proof (sum_sizes_lex l IH Hpl) as Hsum.
    pose proof (sep_concat_length p_comma (map type_tostring l)) as Hsc.
    rewrite ?app_length in Hwl; cbn [length] in Hwl. vm_compute (length p_union_open) in Hwl. lia.
Qed.

(* ---------------------------------------------------------------- statements *)
Theorem type_print_parse_roundtrip_x t : printable_x t = true -> type_parse_x (type_tostring t) = Ok t.
Proof.
  intros Hp. unfold type_parse_x.
  rewrite <- (app_nil_r (type_tostring t)) at 2.
  rewrite (parse_print_allx t Hp (2 * S (length (type_tostring t)))%nat []).
  - reflexivity.
  - pose proof (size_le_printx t Hp). lia.
  - exact I.
Qed.
