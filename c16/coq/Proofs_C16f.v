(** C16 proofs, part 7: the round trip through buffers on a wider fragment, for the pinned code ([fixed] = false) and
    for the proposed repair ([fixed] = true), in one induction.

    What [frag16] (Proofs_C16c.v) excluded and what becomes of it here:
    (a) NumpyArray with a zero inner dimension                     -> REMOVED (both variants); such a node comes back with
                                                                      the length it is asked for, so it no longer [resets2]
    (b) ListArray / ByteMaskedArray / UnionArray whose content does
        not come back whole (RecordArray, BitMaskedArray, RegularArray
        of size 0, possibly below Regular / Unmasked / parameters)  -> REMOVED for the repair (fixed = true); for the pinned
                                                                      code BACKED by refutations (Proofs_C16g.v), registered
                                                                      finding buffers-trimmed-content-under-untrimmed-parent
    (c) BitMaskedArray over such a content                         -> REMOVED (both variants) wherever the node is not range
                                                                      sliced by to_buffers (not below a keyed RecordArray /
                                                                      a tuple RecordArray longer than asked); elsewhere as (b)
    (d) ListOffsetArray whose lists are all empty with offsets
        outside the content                                        -> KEPT for both variants, BACKED by a refutation,
                                                                      registered finding buffers-empty-lists-offsets-beyond-content
                                                                      (the repair does not touch this branch) *)
From Coq Require Import ZArith List Bool Lia ZifyBool.
From AwkV Require Import Base Layout LayoutInd Valid Types Proofs_Lists Proofs_C11 Proofs_Typing Proofs_ToList Proofs_Carry.
From AwkBuffers Require Import Buffers Proofs_C16 Proofs_C16b Proofs_C16c.
Import ListNotations.
Open Scope Z_scope.

(* nodes that come back with the whole (range-sliced) length whatever length their parent asks for *)
Fixpoint resets2 (c : content) : bool :=
  match c with
  | Numpy _ shape _ => forallb (fun d => negb (d =? 0)) (tl shape)
  | ListOffset _ _ _ | ListA _ _ _ _ | Indexed _ _ _ | IndexedOption _ _ _ | ByteMasked _ _ _ => true
  | Union _ _ _ _ => true
  | Empty => true
  | Regular c' size _ => negb (size =? 0) && resets2 c'
  | Unmasked c' | Par _ _ c' => resets2 c'
  | _ => false
  end.

Definition sliced (t : option Z) : bool := match t with None => false | Some _ => true end.
Definition keyed (ks : option (list name)) : bool := match ks with None => false | Some _ => true end.

(* [fixed]: which variant of from_buffers; [sl]: the node may be range sliced by to_buffers (it sits below a keyed
   RecordArray with nothing but Regular / option / parameter / tuple-record nodes in between) *)
Fixpoint fragG (fixed sl : bool) (c : content) {struct c} : bool :=
  match c with
  | Numpy _ shape _ => match shape with [] => false | _ :: dims => forallb (fun d => 0 <=? d) dims end
  | Empty => true
  | ListOffset _ o c' => fragG fixed false c' && forallb (fun x => (0 <=? x) && (x <=? clen c')) o
  | ListA _ _ _ c' => fragG fixed false c' && (fixed || resets2 c')
  | Regular c' size _ => (0 <=? size) && fragG fixed sl c'
  | Indexed _ _ c' | IndexedOption _ _ c' => fragG fixed false c'
  | Unmasked c' | Par _ _ c' => fragG fixed sl c'
  | ByteMasked _ _ c' => fragG fixed sl c' && (fixed || resets2 c')
  | BitMasked _ _ _ _ c' => fragG fixed sl c' && (fixed || negb sl || resets2 c')
  | Record cs ks _ =>
      (fix all (l : list content) : bool :=
         match l with [] => true | x :: xs => fragG fixed (sl || keyed ks) x && all xs end) cs
  | Union _ _ _ cs =>
      (fix all (l : list content) : bool :=
         match l with [] => true | x :: xs => fragG fixed false x && (fixed || resets2 x) && all xs end) cs
  end.
Lemma fragG_rec_all fixed sl cs :
  (fix all (l : list content) : bool := match l with [] => true | x :: xs => fragG fixed sl x && all xs end) cs =
  forallb (fragG fixed sl) cs.
Proof. induction cs as [|x xs IH]; [reflexivity|]. cbn [forallb]. rewrite IH. reflexivity. Qed.
Lemma fragG_un_all fixed cs :
  (fix all (l : list content) : bool :=
     match l with [] => true | x :: xs => fragG fixed false x && (fixed || resets2 x) && all xs end) cs =
  forallb (fun x => fragG fixed false x && (fixed || resets2 x)) cs.
Proof. induction cs as [|x xs IH]; [reflexivity|]. cbn [forallb]. rewrite IH. reflexivity. Qed.

Lemma fragG_mono fixed c : fragG fixed true c = true -> fragG fixed false c = true.
Proof.
  induction c using content_ind'; cbn [fragG]; intros Hf; try exact Hf.
  - apply andb_true_iff in Hf as [H1 H2]. rewrite H1, IHc by exact H2. reflexivity.
  - apply andb_true_iff in Hf as [H1 H2]. rewrite IHc, H2 by exact H1. reflexivity.
  - apply andb_true_iff in Hf as [H1 H2]. rewrite (IHc H1). cbn [negb]. rewrite orb_true_r. reflexivity.
  - exact (IHc Hf).
  - rewrite fragG_rec_all in *. cbn [orb] in Hf. destruct (keyed ks); [exact Hf|]. cbn [orb].
    rewrite forallb_forall in *. intros x Hx. rewrite Forall_forall in H. exact (H x Hx (Hf x Hx)).
  - exact (IHc Hf).
Qed.

Definition rtG_concl (fixed : bool) (c : content) (t : option Z) (len : Z) (vs : list value) : Prop :=
  exists c', of_ftree fixed (to_ftree c t) len = Ok c' /\ len <= clen c' <= efflen t c /\
             to_list c' = Ok (take (clen c') vs) /\ (resets2 c = true -> clen c' = efflen t c).
Definition rtG_at (fixed : bool) (c : content) : Prop :=
  forall p t len vs, Valid p c -> fragG fixed (sliced t) c = true -> trim_ok t c -> 0 <= len <= efflen t c -> to_list c = Ok vs ->
  rtG_concl fixed c t len vs.
Definition rtG_core (fixed : bool) (c : content) : Prop :=
  forall t len vs, fragG fixed (sliced t) c = true -> trim_ok t c -> 0 <= len <= efflen t c -> to_list c = Ok vs -> rtG_concl fixed c t len vs.

(* ---------------------------------------------------------------- leaves *)
Lemma prod_nonzero dims : forallb (fun d => negb (d =? 0)) dims = true -> prodZ dims <> 0.
Proof.
  induction dims as [|d ds IH]; cbn [forallb]; intros H; [unfold prodZ; cbn; lia|].
  apply andb_true_iff in H as [H1 H2]. rewrite prodZ_cons. specialize (IH H2). nia.
Qed.

Lemma rtG_core_Numpy fixed dt shape data : rtG_core fixed (Numpy dt shape data).
Proof.
  intros t len vs Hf Ht Hlen Hvs. cbn [fragG] in Hf. destruct shape as [|n dims]; [discriminate Hf|].
  assert (Hd0 : Forall (fun d => 0 <= d) dims).
  { apply Forall_forall. intros d Hd. rewrite forallb_forall in Hf. specialize (Hf d Hd). lia. }
  pose proof (prodZ_nonneg dims Hd0) as Hp0.
  rewrite to_list_Numpy in Hvs. destruct (existsb (fun d => d <? 0) (n :: dims)) eqn:En; [discriminate Hvs|].
  destruct (zlen data <? prodZ (n :: dims)) eqn:Ed; [discriminate Hvs|]. rewrite prodZ_cons in *.
  assert (Hn : 0 <= n) by (cbn [existsb] in En; apply orb_false_iff in En as [En _]; lia).
  assert (Hd : n * prodZ dims <= zlen data) by lia.
  set (isz := prodZ dims) in *. unfold rtG_concl.
  set (rows := match t with None => n | Some k => k end).
  assert (Hrows : 0 <= rows <= n /\ len <= rows /\ rows = efflen t (Numpy dt (n :: dims) data)).
  { unfold rows, efflen, trim_ok in *. cbn [clen] in *. destruct t; lia. }
  destruct Hrows as (Hr & Hlr & Hre).
  assert (En' : existsb (fun d => d <? 0) dims = false) by (apply Forall_nonneg_existsb; exact Hd0).
  destruct (isz =? 0) eqn:Ez.
  - (* items of size zero: the node comes back with the length it is asked for *)
    assert (Hz0 : isz = 0) by lia.
    exists (Numpy dt (len :: dims) []). cbn [to_ftree of_ftree tl]. fold rows. fold isz. rewrite Ez.
    replace (take (rows * isz) data) with (@nil datum) by (rewrite Hz0, Z.mul_0_r; reflexivity).
    split; [reflexivity|]. cbn [clen]. split; [lia|]. split.
    + rewrite to_list_Numpy. cbn [existsb]. rewrite En'. replace (len <? 0) with false by lia. cbn [orb].
      rewrite prodZ_cons. fold isz. rewrite Hz0, Z.mul_0_r. change (zlen (@nil datum)) with 0. cbn [Z.ltb Z.compare].
      change (map (leaf dt) (take 0 [])) with (@nil value).
      rewrite Hz0, Z.mul_0_r in Hvs. change (map (leaf dt) (take 0 data)) with (@nil value) in Hvs.
      pose proof (nest_prefix dims n len [] vs Hd0 ltac:(lia)) as HN. fold isz in HN. rewrite Hz0, !Z.mul_0_r in HN.
      exact (HN eq_refl Hvs).
    + cbn [resets2 tl]. intros Hres. exfalso. apply (prod_nonzero dims Hres). exact Hz0.
  - assert (Hp : 0 < isz) by lia.
    exists (Numpy dt (rows :: dims) (take (rows * isz) data)). cbn [to_ftree of_ftree tl]. fold rows. fold isz.
    assert (Hz : zlen (take (rows * isz) data) = rows * isz) by (rewrite zlen_take_min; nia).
    rewrite Hz. rewrite Ez. rewrite En'. rewrite Z.div_mul, Z.mod_mul by lia. replace (rows <? len) with false by lia. cbn [negb Z.eqb].
    split; [reflexivity|]. cbn [clen]. split; [lia|]. split; [|intros _; lia].
    rewrite to_list_Numpy. cbn [existsb]. rewrite En'. replace (rows <? 0) with false by lia. cbn [orb].
    rewrite prodZ_cons. fold isz. rewrite Hz. replace (rows * isz <? rows * isz) with false by lia.
    rewrite take_take by lia.
    assert (EL : map (leaf dt) (take (rows * isz) data) = take (rows * isz) (map (leaf dt) (take (n * isz) data))).
    { rewrite <- map_take. rewrite take_take by nia. reflexivity. }
    rewrite EL. apply (nest_prefix dims n rows); [exact Hd0|lia| |exact Hvs]. rewrite zlen_map, zlen_take_min; nia.
Qed.
Lemma rtG_Numpy fixed dt shape data : rtG_at fixed (Numpy dt shape data).
Proof. intros p t len vs _. apply rtG_core_Numpy. Qed.

Lemma rtG_core_Par fixed a r c : rtG_core fixed c -> rtG_core fixed (Par a r c).
Proof.
  intros IH t len vs Hf Ht Hlen Hvs. cbn [fragG] in Hf.
  rewrite to_list_Par in Hvs. apply bind_Ok in Hvs as (cvs & Hcvs & Hvs).
  destruct (IH t len cvs Hf Ht Hlen Hcvs) as (c1 & Hof & Hb & Hl1 & Hr).
  exists (Par a r c1). cbn [to_ftree of_ftree]. rewrite Hof. cbn [bind]. split; [reflexivity|]. cbn [clen].
  split; [exact Hb|]. split; [|exact Hr].
  rewrite to_list_Par, Hl1. cbn [bind].
  destruct a as [[]|]; first [apply mapM_take; exact Hvs | injection Hvs as <-; reflexivity].
Qed.
Lemma rtG_Par fixed a r c : rtG_at fixed c -> rtG_at fixed (Par a r c).
Proof.
  intros IH p t len vs HV Hf Ht Hlen Hvs. apply Valid_Par_inv in HV.
  apply (rtG_core_Par fixed a r c); try assumption. intros t' len' vs' Hf' Ht' Hlen' Hvs'. exact (IH a t' len' vs' HV Hf' Ht' Hlen' Hvs').
Qed.

Lemma childG_rt fixed p c c' : rtG_at fixed c' -> ParamOk p c -> list_content c = Some c' -> (is_strk p = false -> Valid None c') -> rtG_core fixed c'.
Proof.
  intros IH HP Hl Hc. destruct (is_strk p) eqn:Es.
  - destruct (ParamOk_str p c HP Es) as (c'' & k & rn & n & d & H1 & H2 & _). rewrite Hl in H1. injection H1 as <-. subst c'.
    apply rtG_core_Par. apply rtG_core_Numpy.
  - intros t len vs. exact (IH None t len vs (Hc eq_refl)).
Qed.

(* ---------------------------------------------------------------- lists *)
Lemma rtG_ListOffset fixed w o c : rtG_at fixed c -> rtG_at fixed (ListOffset w o c).
Proof.
  intros IH p t len vs HV Hf Ht Hlen Hvs.
  cbn [fragG] in Hf. apply andb_true_iff in Hf as [Hfc Hoff].
  apply Valid_ListOffset_inv in HV as (HP & Ho1 & Hpairs & Hc).
  pose proof (childG_rt fixed p (ListOffset w o c) c IH HP eq_refl Hc) as IHc. clear IH Hc HP.
  rewrite to_list_ListOffset in Hvs. apply bind_Ok in Hvs as (cvs & Hcvs & Hvs). apply rmap_Ok in Hvs as (ls & Hcut & ->).
  destruct (to_list_clen c cvs Hcvs) as [Hzc Hc0].
  set (k := efflen t (ListOffset w o c)) in *.
  assert (Hk : 0 <= k <= zlen o - 1) by (unfold k, efflen, trim_ok in *; cbn [clen] in *; destruct t; lia).
  assert (Eo : trim1 t o = take (k + 1) o).
  { unfold k, efflen. destruct t as [j|]; cbn [trim1 clen]; [reflexivity|]. rewrite take_all; [reflexivity|lia]. }
  assert (Hone : o <> []) by (intros ->; cbn in Ho1; lia).
  set (o' := take (k + 1) o) in *.
  assert (Ho' : o' <> []) by (apply take_nil_iff; [exact Hone|lia]).
  assert (Hzo' : zlen o' = k + 1) by (unfold o'; rewrite zlen_take_min; lia).
  set (d := last o' 0).
  assert (Hd : 0 <= d <= clen c).
  { assert (Hin : In d o) by (apply (In_take d (k + 1)); apply last_In'; exact Ho').
    rewrite forallb_forall in Hoff. specialize (Hoff d Hin). lia. }
  destruct (IHc None d cvs Hfc I ltac:(cbn; lia) Hcvs) as (c1 & Hof & Hb & Hl1 & _). cbn [efflen] in Hb.
  exists (ListOffset w o' c1). cbn [to_ftree of_ftree]. rewrite Eo. fold o'.
  replace (zlen o' - 1 <? len) with false by (unfold k, efflen in *; cbn [clen] in *; lia).
  rewrite (last_z_last o' 0 Ho'). cbn [bind]. fold d. rewrite Hof. cbn [bind].
  split; [reflexivity|]. cbn [clen]. split; [lia|]. split; [|intros _; lia].
  rewrite to_list_ListOffset, Hl1. cbn [bind].
  rewrite (cut_ne cvs o Hone) in Hcut.
  assert (Hm : mapM (cut1 cvs) (pairs o') = Ok (take k ls)).
  { unfold o'. rewrite pairs_take by lia. apply mapM_take. exact Hcut. }
  assert (Hmono : Forall (fun ab : Z * Z => fst ab <= snd ab) (pairs o')).
  { unfold o'. rewrite pairs_take by lia. apply Forall_forall. intros ab Hin. apply In_take in Hin.
    rewrite Forall_forall in Hpairs. specialize (Hpairs ab Hin). unfold pair_ok in Hpairs. lia. }
  assert (Hpre : mapM (cut1 (take (clen c1) cvs)) (pairs o') = Ok (take k ls)).
  { apply mapM_cut1_prefix; [exact Hm| |lia]. apply Forall_forall. intros [a b] Hin. cbn [fst snd].
    destruct (pairs_In o' a b Hin) as [_ Hb']. pose proof (pairs_mono_last o' Hmono b Hb') as Hlast.
    assert (E : last o' b = d).
    { unfold d. clear - Ho'. induction o' as [|x l IHl]; [congruence|]. destruct l as [|y l]; [reflexivity|].
      change (last (x :: y :: l) b) with (last (y :: l) b). change (last (x :: y :: l) 0) with (last (y :: l) 0). apply IHl. discriminate. }
    rewrite E in Hlast. right. lia. }
  rewrite (cut_ne _ o' Ho'), Hpre. cbn [rmap].
  f_equal. replace (zlen o' - 1) with k by lia. apply map_take.
Qed.

Lemma live_stops_In s e a b : In (a, b) (zip s e) -> a <> b -> In b (live_stops s e).
Proof.
  intros Hin Hne. unfold live_stops. apply in_map_iff. exists (a, b). split; [reflexivity|].
  apply filter_In. split; [exact Hin|]. cbn [fst snd]. lia.
Qed.

Lemma rtG_ListA fixed w s e c : rtG_at fixed c -> rtG_at fixed (ListA w s e c).
Proof.
  intros IH p t len vs HV Hf Ht Hlen Hvs.
  cbn [fragG] in Hf. apply andb_true_iff in Hf as [Hfc Hres].
  apply Valid_ListA_inv in HV as (HP & Hse & Hpairs & Hc).
  pose proof (childG_rt fixed p (ListA w s e c) c IH HP eq_refl Hc) as IHc. clear IH Hc HP.
  rewrite to_list_ListA in Hvs. apply bind_Ok in Hvs as (cvs & Hcvs & Hvs). apply rmap_Ok in Hvs as (ls & Hcut & ->).
  destruct (to_list_clen c cvs Hcvs) as [Hzc Hc0].
  unfold cut2 in Hcut. replace (zlen e <? zlen s) with false in Hcut by lia.
  set (k := efflen t (ListA w s e c)) in *.
  assert (Hk : 0 <= k <= zlen s) by (unfold k, efflen, trim_ok in *; cbn [clen] in *; pose proof (zlen_nonneg s); destruct t; lia).
  set (s' := trim t s). set (e' := trim t e).
  assert (Hzs' : zlen s' = k).
  { unfold s', k, efflen. destruct t as [j|]; cbn [trim clen]; [|reflexivity]. cbn in Ht. rewrite zlen_take_min; lia. }
  assert (Hze' : k <= zlen e').
  { unfold e', k, efflen. destruct t as [j|]; cbn [trim clen]; [|lia]. cbn in Ht. rewrite zlen_take_min; lia. }
  assert (Hzip : zip s' e' = take k (zip s e)).
  { unfold s', e', k, efflen. destruct t as [j|]; cbn [trim clen]; [apply zip_take|].
    rewrite take_all; [reflexivity|]. rewrite zlen_zip. lia. }
  set (kk := if fixed then zlen s' else len).
  set (need := max_or0 (live_stops (take kk s') (take kk e'))).
  assert (Hneed : 0 <= need <= clen c).
  { apply max_or0_bounds; [lia|]. apply live_stops_bounds. rewrite zip_take, Hzip. apply Forall_forall. intros ab Hin.
    apply In_take in Hin. apply In_take in Hin. rewrite Forall_forall in Hpairs. exact (Hpairs ab Hin). }
  destruct (IHc None need cvs Hfc I ltac:(cbn; lia) Hcvs) as (c1 & Hof & Hb & Hl1 & Hr). cbn [efflen] in Hb, Hr.
  (* every list kept by the rebuilt node lies inside the content that came back *)
  assert (Hcover : Forall (fun ab : Z * Z => fst ab = snd ab \/ snd ab <= clen c1) (zip s' e')).
  { apply Forall_forall. intros [a b] Hin. cbn [fst snd]. destruct (Z.eq_dec a b) as [Eab|Nab]; [left; exact Eab|right].
    destruct fixed.
    - assert (Hin' : In b (live_stops (take kk s') (take kk e'))).
      { apply (live_stops_In _ _ a b); [|exact Nab]. rewrite zip_take. unfold kk. rewrite take_all; [exact Hin|]. rewrite zlen_zip. lia. }
      pose proof (max_or0_ge _ _ Hin') as Hle. fold need in Hle. lia.
    - cbn [orb] in Hres. rewrite (Hr Hres). rewrite Hzip in Hin. apply In_take in Hin.
      rewrite Forall_forall in Hpairs. specialize (Hpairs (a, b) Hin). unfold pair_ok in Hpairs. cbn [fst snd] in Hpairs. lia. }
  exists (ListA w s' e' c1). cbn [to_ftree of_ftree]. fold s' e'.
  replace (zlen s' <? len) with false by (unfold k, efflen in *; cbn [clen] in *; lia).
  replace (zlen e' <? len) with false by (unfold k, efflen in *; cbn [clen] in *; lia).
  fold kk. fold need. rewrite Hof. cbn [bind]. replace (zlen e' <? zlen s') with false by lia.
  split; [reflexivity|]. cbn [clen]. split; [lia|]. split; [|intros _; lia].
  rewrite to_list_ListA, Hl1. cbn [bind]. unfold cut2. replace (zlen e' <? zlen s') with false by lia.
  rewrite (mapM_cut1_prefix cvs (zip s' e') (take k ls) (clen c1)); [cbn [rmap]; f_equal; rewrite Hzs'; apply map_take| |exact Hcover|lia].
  rewrite Hzip. apply mapM_take. exact Hcut.
Qed.

(* ---------------------------------------------------------------- indexed nodes (no difference between the variants) *)
Lemma rtG_Indexed fixed w ix c : rtG_at fixed c -> rtG_at fixed (Indexed w ix c).
Proof.
  intros IH p t len vs HV Hf Ht Hlen Hvs. cbn [fragG] in Hf.
  apply Valid_Indexed_inv in HV as (Hix & _ & Hc).
  rewrite to_list_Indexed in Hvs. apply bind_Ok in Hvs as (cvs & Hcvs & Hvs).
  destruct (to_list_clen c cvs Hcvs) as [Hzc Hc0].
  set (k := efflen t (Indexed w ix c)) in *.
  assert (Hk : 0 <= k <= zlen ix) by (unfold k, efflen, trim_ok in *; cbn [clen] in *; pose proof (zlen_nonneg ix); destruct t; lia).
  assert (Eix : trim t ix = take k ix) by (apply trim_as_take; unfold k, efflen; cbn [clen]; [intros ->; reflexivity|intros j ->; reflexivity]).
  set (ix' := take k ix) in *.
  assert (Hzix : zlen ix' = k) by (unfold ix'; rewrite zlen_take_min; lia).
  assert (Hix' : Forall (fun i => 0 <= i < clen c) ix').
  { apply Forall_forall. intros i Hin. apply In_take in Hin. rewrite Forall_forall in Hix. exact (Hix i Hin). }
  set (need := match ix' with [] => 0 | _ => max_or0 ix' + 1 end).
  assert (Hneed : 0 <= need <= clen c /\ Forall (fun i => i < need) ix').
  { unfold need. destruct ix' as [|i0 r] eqn:E; [split; [lia|constructor]|]. rewrite <- E in *.
    assert (Hne : ix' <> []) by (rewrite E; discriminate).
    pose proof (max_or0_nonempty_in ix' Hne) as Hin. rewrite Forall_forall in Hix'. pose proof (Hix' _ Hin).
    split; [lia|]. apply Forall_forall. intros i Hi. pose proof (max_or0_ge ix' i Hi). lia. }
  destruct Hneed as [Hneed Hlt].
  destruct (IH None None need cvs Hc Hf I ltac:(cbn; lia) Hcvs) as (c1 & Hof & Hb & Hl1 & _). cbn [efflen] in Hb.
  exists (Indexed w ix' c1). cbn [to_ftree of_ftree]. rewrite Eix. fold ix'.
  replace (zlen ix' <? len) with false by (unfold k, efflen in *; cbn [clen] in *; lia).
  fold need. rewrite Hof. cbn [bind].
  split; [reflexivity|]. cbn [clen]. split; [lia|]. split; [|intros _; lia].
  rewrite to_list_Indexed, Hl1. cbn [bind]. rewrite Hzix.
  rewrite mapM_get_prefix; [apply mapM_take; exact Hvs|].
  eapply Forall_impl; [|exact Hlt]. cbn. intros; lia.
Qed.

Lemma rtG_IndexedOption fixed w ix c : rtG_at fixed c -> rtG_at fixed (IndexedOption w ix c).
Proof.
  intros IH p t len vs HV Hf Ht Hlen Hvs. cbn [fragG] in Hf.
  apply Valid_IndexedOption_inv in HV as (Hix & _ & Hc).
  rewrite to_list_IndexedOption in Hvs. apply bind_Ok in Hvs as (cvs & Hcvs & Hvs).
  destruct (to_list_clen c cvs Hcvs) as [Hzc Hc0].
  set (k := efflen t (IndexedOption w ix c)) in *.
  assert (Hk : 0 <= k <= zlen ix) by (unfold k, efflen, trim_ok in *; cbn [clen] in *; pose proof (zlen_nonneg ix); destruct t; lia).
  assert (Eix : trim t ix = take k ix) by (apply trim_as_take; unfold k, efflen; cbn [clen]; [intros ->; reflexivity|intros j ->; reflexivity]).
  set (ix' := take k ix) in *.
  assert (Hzix : zlen ix' = k) by (unfold ix'; rewrite zlen_take_min; lia).
  assert (Hix' : Forall (fun i => i < clen c) ix').
  { apply Forall_forall. intros i Hin. apply In_take in Hin. rewrite Forall_forall in Hix. exact (Hix i Hin). }
  set (need := match ix' with [] => 0 | _ => Z.max 0 (max_or0 ix' + 1) end).
  assert (Hneed : 0 <= need <= clen c /\ Forall (fun i => i < need) ix').
  { unfold need. destruct ix' as [|i0 r] eqn:E; [split; [lia|constructor]|]. rewrite <- E in *.
    assert (Hne : ix' <> []) by (rewrite E; discriminate).
    pose proof (max_or0_nonempty_in ix' Hne) as Hin. rewrite Forall_forall in Hix'. pose proof (Hix' _ Hin).
    split; [lia|]. apply Forall_forall. intros i Hi. pose proof (max_or0_ge ix' i Hi). lia. }
  destruct Hneed as [Hneed Hlt].
  destruct (IH None None need cvs Hc Hf I ltac:(cbn; lia) Hcvs) as (c1 & Hof & Hb & Hl1 & _). cbn [efflen] in Hb.
  exists (IndexedOption w ix' c1). cbn [to_ftree of_ftree]. rewrite Eix. fold ix'.
  replace (zlen ix' <? len) with false by (unfold k, efflen in *; cbn [clen] in *; lia).
  fold need. rewrite Hof. cbn [bind].
  split; [reflexivity|]. cbn [clen]. split; [lia|]. split; [|intros _; lia].
  rewrite to_list_IndexedOption, Hl1. cbn [bind]. rewrite Hzix.
  rewrite <- (mapM_take _ _ _ k Hvs). fold ix'. apply mapM_ext_in. intros i Hin.
  unfold pick_opt. destruct (0 <=? i); [|reflexivity]. apply get_take.
  rewrite Forall_forall in Hlt. pose proof (Hlt i Hin). lia.
Qed.

(* ---------------------------------------------------------------- regular *)
Lemma sliced_tmul t size : sliced (tmul t size) = sliced t.
Proof. destruct t; reflexivity. Qed.

Lemma rtG_Regular0 fixed c zl : rtG_at fixed c -> rtG_at fixed (Regular c 0 zl).
Proof.
  intros IH p t len vs HV Hf Ht Hlen Hvs. unfold rtG_concl.
  cbn [fragG] in Hf. apply andb_true_iff in Hf as [_ Hfc].
  apply Valid_Regular_inv in HV as (HP & _ & Hzl & Hc).
  pose proof (childG_rt fixed p (Regular c 0 zl) c IH HP eq_refl Hc) as IHc. clear IH Hc HP.
  rewrite to_list_Regular in Hvs. apply bind_Ok in Hvs as (cvs & Hcvs & Hvs). apply rmap_Ok in Hvs as (ch & Hch & ->).
  destruct (to_list_clen c cvs Hcvs) as [Hzc Hc0].
  unfold chunks in Hch. cbn in Hch. replace (zl <? 0) with false in Hch by lia. injection Hch as <-.
  assert (Ek : efflen t (Regular c 0 zl) <= zl /\ 0 <= len <= efflen t (Regular c 0 zl)).
  { unfold efflen, trim_ok in *. cbn [clen] in *. cbn in *. destruct t; lia. }
  destruct (IHc (tmul t 0) 0 cvs) as (c1 & Hof & Hb & Hl1 & _).
  { rewrite sliced_tmul. exact Hfc. }
  { unfold tmul, trim_ok. destruct t; [lia|exact I]. }
  { unfold tmul, efflen. destruct t; lia. }
  { exact Hcvs. }
  exists (Regular c1 0 len). cbn [to_ftree of_ftree]. rewrite Z.mul_0_r. rewrite Hof. cbn [bind]. cbn [Z.ltb Z.compare].
  split; [reflexivity|]. cbn [clen]. cbn [Z.eqb]. split; [lia|]. split; [|cbn; discriminate].
  rewrite to_list_Regular, Hl1. cbn [bind]. unfold chunks. cbn [Z.ltb Z.compare Z.eqb]. replace (len <? 0) with false by lia.
  cbn [rmap]. f_equal. rewrite <- map_take. f_equal. rewrite <- map_take. rewrite iota_take by lia. reflexivity.
Qed.

Lemma rtG_Regular fixed c size zl : rtG_at fixed c -> rtG_at fixed (Regular c size zl).
Proof.
  destruct (size =? 0) eqn:E0; [replace size with 0 by lia; apply rtG_Regular0|].
  intros IH p t len vs HV Hf Ht Hlen Hvs.
  cbn [fragG] in Hf. apply andb_true_iff in Hf as [Hs Hfc]. assert (Hs' : 0 < size) by lia. clear Hs.
  apply Valid_Regular_inv in HV as (HP & _ & _ & Hc).
  pose proof (childG_rt fixed p (Regular c size zl) c IH HP eq_refl Hc) as IHc. clear IH Hc HP.
  rewrite to_list_Regular in Hvs. apply bind_Ok in Hvs as (cvs & Hcvs & Hvs). apply rmap_Ok in Hvs as (ch & Hch & ->).
  destruct (to_list_clen c cvs Hcvs) as [Hzc Hc0].
  unfold chunks in Hch. replace (size <? 0) with false in Hch by lia. replace (size =? 0) with false in Hch by lia.
  injection Hch as <-.
  assert (Ecl : clen (Regular c size zl) = clen c / size) by (cbn [clen]; replace (size =? 0) with false by lia; reflexivity).
  set (k := efflen t (Regular c size zl)) in *.
  assert (Hk : 0 <= k <= clen c / size).
  { unfold k, efflen, trim_ok in *. rewrite Ecl in *. pose proof (Z.div_pos (clen c) size ltac:(lia) Hs'). destruct t; lia. }
  pose proof (Z.mul_div_le (clen c) size Hs') as Hmd.
  set (tc := tmul t size).
  assert (Htc : trim_ok tc c) by (unfold tc, tmul, trim_ok in *; rewrite Ecl in *; destruct t as [j|]; [nia|exact I]).
  assert (Hec : efflen tc c = match t with None => clen c | Some j => j * size end) by (unfold tc; destruct t; reflexivity).
  assert (Hnd : 0 <= len * size <= efflen tc c).
  { rewrite Hec. unfold k, efflen in *. rewrite Ecl in *. destruct t; nia. }
  assert (Hle : efflen tc c <= clen c).
  { rewrite Hec. unfold k, efflen, trim_ok in *. rewrite Ecl in *. destruct t; nia. }
  assert (Hfc' : fragG fixed (sliced tc) c = true) by (unfold tc; rewrite sliced_tmul; exact Hfc).
  destruct (IHc tc (len * size) cvs Hfc' Htc Hnd Hcvs) as (c1 & Hof & Hb & Hl1 & Hr).
  set (m := clen c1) in *.
  assert (Hm0 : 0 <= m <= zlen cvs) by lia.
  exists (Regular c1 size len). cbn [to_ftree of_ftree]. fold tc. rewrite Hof. cbn [bind].
  replace (size <? 0) with false by lia.
  assert (Ecl' : clen (Regular c1 size len) = m / size) by (cbn [clen]; replace (size =? 0) with false by lia; reflexivity).
  rewrite Ecl'.
  assert (Hlo : len <= m / size) by (apply Z.div_le_lower_bound; lia).
  assert (Hhi : m / size <= k).
  { unfold k, efflen. rewrite Ecl. rewrite Hec in Hb. destruct t as [j|].
    - apply Z.div_le_upper_bound; lia.
    - apply Z.div_le_mono; lia. }
  split; [reflexivity|]. split; [lia|]. split.
  - rewrite to_list_Regular, Hl1. cbn [bind]. unfold chunks.
    replace (size <? 0) with false by lia. replace (size =? 0) with false by lia. cbn [rmap]. f_equal.
    assert (Hzm : zlen (take m cvs) = m) by (rewrite zlen_take_min; lia).
    rewrite Hzm. rewrite <- map_take. f_equal. unfold take at 2.
    apply chunks_nat_prefix; [exact Hs'| | |].
    + apply Z2Nat.inj_le; [lia|apply Z.div_pos; lia|]. apply Z.div_le_mono; lia.
    + rewrite Z2Nat.id by lia. pose proof (Z.mul_div_le m size Hs'). lia.
    + lia.
  - cbn [resets2]. rewrite E0. cbn [negb andb]. intros Hres. specialize (Hr Hres). fold m in Hr. rewrite Hr, Hec. unfold k, efflen. rewrite Ecl.
    destruct t as [j|]; [apply Z.div_mul; lia|reflexivity].
Qed.

(* ---------------------------------------------------------------- masks *)
Lemma rtG_ByteMasked fixed m vw c : rtG_at fixed c -> rtG_at fixed (ByteMasked m vw c).
Proof.
  intros IH p t len vs HV Hf Ht Hlen Hvs.
  cbn [fragG] in Hf. apply andb_true_iff in Hf as [Hfc Hres].
  apply Valid_ByteMasked_inv in HV as (Hmc & _ & Hc).
  rewrite to_list_ByteMasked in Hvs. apply bind_Ok in Hvs as (cvs & Hcvs & Hvs).
  destruct (to_list_clen c cvs Hcvs) as [Hzc Hc0].
  set (k := efflen t (ByteMasked m vw c)) in *.
  assert (Hk : 0 <= k <= zlen m) by (unfold k, efflen, trim_ok in *; cbn [clen] in *; pose proof (zlen_nonneg m); destruct t; lia).
  assert (Em : trim t m = take k m) by (apply trim_as_take; unfold k, efflen; cbn [clen]; [intros ->; reflexivity|intros j ->; reflexivity]).
  set (m' := take k m) in *.
  assert (Hzm : zlen m' = k) by (unfold m'; rewrite zlen_take_min; lia).
  assert (Htc : trim_ok t c) by (unfold trim_ok, k, efflen in *; cbn [clen] in *; destruct t; [lia|exact I]).
  assert (Hec : k <= efflen t c <= clen c) by (unfold k, efflen, trim_ok in *; cbn [clen] in *; destruct t; lia).
  set (len' := if fixed then zlen m' else len).
  assert (Hlen' : len <= len' <= k) by (unfold len'; destruct fixed; lia).
  destruct (IH None t len' cvs Hc Hfc Htc ltac:(lia) Hcvs) as (c1 & Hof & Hb & Hl1 & Hr).
  assert (Hcov : k <= clen c1).
  { destruct fixed; [unfold len' in Hb; lia|]. cbn [orb] in Hres. rewrite (Hr Hres). lia. }
  exists (ByteMasked m' vw c1). cbn [to_ftree of_ftree]. rewrite Em. fold m'.
  replace (zlen m' <? len) with false by (unfold k, efflen in *; cbn [clen] in *; lia).
  fold len'. rewrite Hof. cbn [bind]. replace (clen c1 <? zlen m') with false by lia.
  split; [reflexivity|]. cbn [clen]. split; [lia|]. split; [|intros _; lia].
  rewrite to_list_ByteMasked, Hl1. cbn [bind]. rewrite Hzm.
  assert (Ez : zip (iota k) m' = take k (zip (iota (zlen m)) m)).
  { unfold m'. rewrite <- (iota_take (zlen m) k) by lia. apply zip_take. }
  rewrite <- (mapM_take _ _ _ k Hvs). rewrite <- Ez. apply mapM_ext_in. intros [i b] Hin.
  apply zip_In in Hin as [Hi _]. apply iota_In' in Hi.
  unfold pick_opt. destruct (Bool.eqb _ _); [|reflexivity]. apply get_take. lia.
Qed.

Lemma rtG_BitMasked fixed m vw lsb n c : rtG_at fixed c -> rtG_at fixed (BitMasked m vw lsb n c).
Proof.
  intros IH p t len vs HV Hf Ht Hlen Hvs.
  cbn [fragG] in Hf. apply andb_true_iff in Hf as [Hfc Hres].
  apply Valid_BitMasked_inv in HV as (Hn0 & Hnm & Hnc & _ & Hc).
  rewrite to_list_BitMasked in Hvs. apply bind_Ok in Hvs as (cvs & Hcvs & Hvs). replace (n <? 0) with false in Hvs by lia.
  destruct (to_list_clen c cvs Hcvs) as [Hzc Hc0].
  unfold rtG_concl. destruct t as [k|]; unfold efflen, trim_ok in *; cbn [clen sliced] in *.
  - (* a range slice: the node becomes a ByteMaskedArray over the unpacked bits *)
    set (m' := take k (take n (unpack_bits lsb m))).
    assert (Hm' : m' = take k (unpack_bits lsb m)) by (unfold m'; apply take_take; lia).
    assert (Hzm : zlen m' = k) by (rewrite Hm', zlen_take_min, zlen_unpack; lia).
    set (len' := if fixed then zlen m' else len).
    assert (Hlen' : len <= len' <= k) by (unfold len'; destruct fixed; lia).
    destruct (IH None (Some k) len' cvs Hc Hfc ltac:(cbn; lia) ltac:(cbn; lia) Hcvs) as (c1 & Hof & Hb & Hl1 & Hr).
    cbn [efflen] in Hb, Hr.
    assert (Hcov : clen c1 = k).
    { destruct fixed; [unfold len' in Hb; lia|]. cbn [orb negb] in Hres. exact (Hr Hres). }
    exists (ByteMasked m' vw c1). cbn [to_ftree of_ftree]. fold m'.
    replace (zlen m' <? len) with false by lia. fold len'. rewrite Hof. cbn [bind]. replace (clen c1 <? zlen m') with false by lia.
    split; [reflexivity|]. cbn [clen resets2]. split; [lia|]. split; [|discriminate].
    rewrite to_list_ByteMasked, Hl1. cbn [bind]. rewrite Hzm, Hcov.
    rewrite <- (mapM_take _ _ _ k Hvs). rewrite iota_take by lia. symmetry.
    apply mapM_pointwise_eq; [rewrite zlen_zip, Hzm, zlen_iota by lia; lia|].
    intros j Hj. rewrite zlen_iota in Hj by lia. rewrite get_zip, get_iota by (rewrite ?zlen_iota, ?Hzm by lia; lia).
    cbn [bind]. rewrite Hm', get_take by lia. rewrite get_unpack by lia.
    destruct (bit_at m lsb j) as [b|e]; [|reflexivity]. cbn [bind].
    unfold pick_opt. replace (Bool.eqb (negb ((if b then 1 else 0) =? 0)) vw) with (Bool.eqb b vw) by (destruct b; reflexivity).
    destruct (Bool.eqb b vw); [|reflexivity]. symmetry. apply get_take. lia.
  - destruct (IH None None len cvs Hc Hfc I ltac:(cbn; lia) Hcvs) as (c1 & Hof & Hb & Hl1 & _). cbn [efflen] in Hb.
    exists (BitMasked m vw lsb len c1). cbn [to_ftree of_ftree]. rewrite Hof. cbn [bind].
    replace (zlen m * 8 <? len) with false by lia. replace (clen c1 <? len) with false by lia.
    split; [reflexivity|]. cbn [clen resets2]. split; [lia|]. split; [|discriminate].
    rewrite to_list_BitMasked, Hl1. cbn [bind]. replace (len <? 0) with false by lia.
    rewrite <- (mapM_take _ _ _ len Hvs). rewrite iota_take by lia. apply mapM_ext_in. intros i Hi. apply iota_In' in Hi.
    destruct (bit_at m lsb i) as [b|e]; [|reflexivity]. cbn [bind]. unfold pick_opt. destruct (Bool.eqb b vw); [|reflexivity].
    apply get_take. lia.
Qed.

(* ---------------------------------------------------------------- records *)
Lemma rtG_fields fixed cs t' len : Forall (rtG_at fixed) cs -> forall vss,
  Forall (Valid None) cs -> forallb (fragG fixed (sliced t')) cs = true -> Forall (fun x => trim_ok t' x /\ 0 <= len <= efflen t' x) cs ->
  mapM to_list cs = Ok vss ->
  exists cs1 vss1, of_all_rec fixed (to_ftree_all cs t') len = Ok cs1 /\ Forall (fun c1 => len <= clen c1) cs1 /\
                   mapM to_list cs1 = Ok vss1 /\ Forall2 (col_prefix len) vss1 vss.
Proof.
  induction 1 as [|x xs Hx _ IH]; intros vss HV Hf Ht Hvss.
  - cbn in Hvss. injection Hvss as <-. exists [], []. cbn. repeat split; constructor.
  - cbn [mapM] in Hvss. apply bind_Ok in Hvss as (v & Hv & Hvss). apply bind_Ok in Hvss as (vs' & Hvs' & Hvss). injection Hvss as <-.
    inversion HV as [|? ? HVx HVxs]; subst. cbn [forallb] in Hf. apply andb_true_iff in Hf as [Hfx Hfxs].
    inversion Ht as [|? ? [Htx Hlx] Htxs]; subst.
    destruct (Hx None t' len v HVx Hfx Htx Hlx Hv) as (c1 & Hof & Hb & Hl1 & _).
    destruct (IH vs' HVxs Hfxs Htxs Hvs') as (cs1 & vss1 & Hofs & Hbs & Hls & HF2).
    exists (c1 :: cs1), (take (clen c1) v :: vss1). cbn [to_ftree_all of_all_rec mapM]. rewrite Hof, Hofs, Hl1, Hls. cbn [bind].
    repeat split.
    + constructor; [lia|exact Hbs].
    + constructor; [|exact HF2]. exists (clen c1). split; [lia|reflexivity].
Qed.

Lemma rtG_Record fixed cs ks n : Forall (rtG_at fixed) cs -> rtG_at fixed (Record cs ks n).
Proof.
  intros IH p t len vs HV Hf Ht Hlen Hvs.
  cbn [fragG] in Hf. rewrite fragG_rec_all in Hf.
  apply Valid_Record_inv in HV as (Hn & Hlens & Hcs).
  rewrite to_list_Record, all_lists_mapM in Hvs. apply bind_Ok in Hvs as (vss & Hvss & Hvs).
  replace (n <? 0) with false in Hvs by lia.
  set (k := efflen t (Record cs ks n)) in *.
  assert (Hk : 0 <= len <= k /\ k <= n) by (unfold k, efflen, trim_ok in *; cbn [clen] in *; destruct t; lia).
  set (t' := rec_trim ks n t).
  assert (Ht' : Forall (fun x => trim_ok t' x /\ 0 <= len <= efflen t' x) cs).
  { apply Forall_forall. intros x Hin. rewrite Forall_forall in Hlens. specialize (Hlens x Hin).
    unfold t', rec_trim, trim_ok, k in *. unfold efflen in *. cbn [clen] in *.
    destruct ks; destruct t as [j|]; try destruct (j =? n) eqn:E; cbn; lia. }
  assert (Hf' : forallb (fragG fixed (sliced t')) cs = true).
  { unfold t', rec_trim. destruct ks as [ks0|].
    - cbn [sliced keyed] in *. rewrite orb_true_r in Hf. exact Hf.
    - cbn [keyed] in Hf. rewrite orb_false_r in Hf. destruct t as [j|]; [|exact Hf]. cbn [sliced] in Hf.
      destruct (j =? n); [|exact Hf]. cbn [sliced]. rewrite forallb_forall in *. intros x Hx. apply fragG_mono. exact (Hf x Hx). }
  destruct (rtG_fields fixed cs t' len IH vss Hcs Hf' Ht' Hvss) as (cs1 & vss1 & Hof & Hb & Hl1 & HF2).
  exists (Record cs1 ks len). rewrite to_ftree_Record, of_ftree_Record. fold t'. rewrite Hof. cbn [bind].
  assert (Hres : match cs1 with
                 | [] => if len <? 0 then Err EValue else Ok (Record [] ks len)
                 | c0 :: rest => if min_list (clen c0) (map clen rest) <? len then Err EValue
                                 else if len <? 0 then Err EValue else Ok (Record cs1 ks len)
                 end = Ok (Record cs1 ks len)).
  { destruct cs1 as [|c0 rest]; [replace (len <? 0) with false by lia; reflexivity|].
    inversion Hb as [|? ? Hc0 Hrest]; subst.
    assert (len <= min_list (clen c0) (map clen rest)).
    { apply min_list_ge; [exact Hc0|]. apply Forall_forall. intros z Hz. apply in_map_iff in Hz as (y & <- & Hy).
      rewrite Forall_forall in Hrest. exact (Hrest y Hy). }
    replace (min_list (clen c0) (map clen rest) <? len) with false by lia. replace (len <? 0) with false by lia. reflexivity. }
  rewrite Hres. split; [reflexivity|]. cbn [clen]. split; [lia|]. split; [|cbn [resets2]; discriminate].
  rewrite to_list_Record, all_lists_mapM, Hl1. cbn [bind]. replace (len <? 0) with false by lia.
  rewrite <- (mapM_take _ _ _ len Hvs). rewrite iota_take by lia.
  apply mapM_ext_in. intros i Hi. apply iota_In' in Hi. unfold row. rewrite (cols_get len vss1 vss i HF2) by lia. reflexivity.
Qed.

(* ---------------------------------------------------------------- unions *)
Lemma mine_In_rev tg ix i x : In (i, x) (zip tg ix) -> In x (mine tg ix i).
Proof.
  intros H. unfold mine. apply in_map_iff. exists (i, x). split; [reflexivity|]. apply filter_In. split; [exact H|]. cbn [fst]. lia.
Qed.

(* (tgN, ixN): the entries the needed lengths are computed from; (tgA, ixA): the entries the rebuilt node keeps *)
Lemma rtG_union_children fixed tgN ixN tgA ixA cs : Forall (rtG_at fixed) cs -> forall i vss,
  Forall (Valid None) cs -> forallb (fun x => fragG fixed false x && (fixed || resets2 x)) cs = true -> mapM to_list cs = Ok vss -> 0 <= i ->
  (forall j c, nth_error cs j = Some c -> forall x, In x (mine tgN ixN (i + Z.of_nat j)) -> 0 <= x < clen c) ->
  (forall j c, nth_error cs j = Some c -> forall x, In x (mine tgA ixA (i + Z.of_nat j)) -> 0 <= x < clen c) ->
  (fixed = true -> tgN = tgA /\ ixN = ixA) ->
  exists cs1 vss1, of_all_un fixed tgN ixN (to_ftree_all cs None) i = Ok cs1 /\ mapM to_list cs1 = Ok vss1 /\
    forall j v, nth_error vss j = Some v ->
                exists v1, nth_error vss1 j = Some v1 /\ forall x, In x (mine tgA ixA (i + Z.of_nat j)) -> get v1 x = get v x.
Proof.
  induction 1 as [|c cs Hc _ IH]; intros i vss HV Hf Hvss Hi HbN HbA Hfx.
  - cbn in Hvss. injection Hvss as <-. exists [], []. split; [reflexivity|]. split; [reflexivity|]. intros [|j] v E; discriminate E.
  - cbn [mapM] in Hvss. apply bind_Ok in Hvss as (v & Hv & Hvss). apply bind_Ok in Hvss as (vs' & Hvs' & Hvss). injection Hvss as <-.
    inversion HV as [|? ? HVc HVcs]; subst. cbn [forallb] in Hf. apply andb_true_iff in Hf as [Hfc Hfcs].
    apply andb_true_iff in Hfc as [Hfc Hrc].
    destruct (to_list_clen c v Hv) as [Hzv Hc0].
    set (need := match mine tgN ixN i with [] => 0 | l' => max_or0 l' + 1 end).
    assert (Hneed : 0 <= need <= clen c /\ forall x, In x (mine tgN ixN i) -> x < need).
    { unfold need. destruct (mine tgN ixN i) as [|x0 r] eqn:E; [split; [lia|intros x []]|]. rewrite <- E.
      assert (Hne : mine tgN ixN i <> []) by (rewrite E; discriminate).
      pose proof (max_or0_nonempty_in _ Hne) as Hin. specialize (HbN 0%nat c eq_refl (max_or0 (mine tgN ixN i))).
      rewrite Z.add_0_r in HbN. specialize (HbN Hin). split; [lia|]. intros x Hx. pose proof (max_or0_ge _ _ Hx). lia. }
    destruct Hneed as [Hneed Hlt].
    destruct (Hc None None need v HVc Hfc I ltac:(cbn; lia) Hv) as (c1 & Hof & Hbd & Hl1 & Hr). cbn [efflen] in Hr, Hbd.
    destruct (IH (i + 1) vs' HVcs Hfcs Hvs' ltac:(lia)) as (cs1 & vss1 & Hofs & Hls & Hcov).
    { intros j c' Hj x Hx. apply (HbN (S j) c' Hj x). replace (i + Z.of_nat (S j)) with (i + 1 + Z.of_nat j) by lia. exact Hx. }
    { intros j c' Hj x Hx. apply (HbA (S j) c' Hj x). replace (i + Z.of_nat (S j)) with (i + 1 + Z.of_nat j) by lia. exact Hx. }
    { exact Hfx. }
    exists (c1 :: cs1), (take (clen c1) v :: vss1). cbn [to_ftree_all of_all_un mapM]. fold need. rewrite Hof, Hofs, Hl1, Hls. cbn [bind].
    split; [reflexivity|]. split; [reflexivity|]. intros [|j] v0 E.
    + cbn [nth_error] in E. injection E as <-. exists (take (clen c1) v). split; [reflexivity|]. intros x Hx. apply get_take.
      rewrite Z.add_0_r in Hx. destruct fixed.
      * destruct (Hfx eq_refl) as [-> ->]. specialize (Hlt x Hx). lia.
      * cbn [orb] in Hrc. rewrite (Hr Hrc). specialize (HbA 0%nat c eq_refl x). rewrite Z.add_0_r in HbA. specialize (HbA Hx). lia.
    + cbn [nth_error] in E. destruct (Hcov j v0 E) as (v1 & E1 & Hg). exists v1. split; [exact E1|].
      intros x Hx. apply Hg. replace (i + 1 + Z.of_nat j) with (i + Z.of_nat (S j)) by lia. exact Hx.
Qed.

Lemma get_nth_error {A} (l : list A) i : 0 <= i -> get l i = match nth_error l (Z.to_nat i) with Some x => Ok x | None => Err EOob end.
Proof. intros Hi. unfold get. replace (i <? 0) with false by lia. reflexivity. Qed.

Lemma rtG_Union fixed w tg ix cs : Forall (rtG_at fixed) cs -> rtG_at fixed (Union w tg ix cs).
Proof.
  intros IH p t len vs HV Hf Ht Hlen Hvs. unfold rtG_concl.
  cbn [fragG] in Hf. rewrite fragG_un_all in Hf.
  pose proof (Valid_Union_inv2 p w tg ix cs HV) as Hti. apply Valid_Union_inv in HV as (Hlti & Hcs).
  rewrite to_list_Union, all_lists_mapM in Hvs. apply bind_Ok in Hvs as (vss & Hvss & Hvs).
  replace (zlen ix <? zlen tg) with false in Hvs by lia.
  set (k := efflen t (Union w tg ix cs)) in *.
  assert (Hk : 0 <= k <= zlen tg) by (unfold k, efflen, trim_ok in *; cbn [clen] in *; pose proof (zlen_nonneg tg); destruct t; lia).
  set (tg' := trim t tg). set (ix' := trim t ix).
  assert (Hztg : zlen tg' = k).
  { unfold tg', k, efflen. destruct t as [j|]; cbn [trim clen]; [|reflexivity]. cbn in Ht. rewrite zlen_take_min; lia. }
  assert (Hzix : k <= zlen ix').
  { unfold ix', k, efflen. destruct t as [j|]; cbn [trim clen]; [|lia]. cbn in Ht. rewrite zlen_take_min; lia. }
  assert (Hzip : zip tg' ix' = take k (zip tg ix)).
  { unfold tg', ix', k, efflen. destruct t as [j|]; cbn [trim clen]; [apply zip_take|].
    rewrite take_all; [reflexivity|]. rewrite zlen_zip. lia. }
  set (kk := if fixed then zlen tg' else len).
  (* every entry of the original union points inside its content *)
  assert (Hvalid : forall j c, nth_error cs j = Some c -> forall x, In (Z.of_nat j, x) (zip tg ix) -> 0 <= x < clen c).
  { intros j c Hj x Hx. rewrite Forall_forall in Hti. destruct (Hti _ Hx) as (_ & Hx0 & lc & Hg & Hlt).
    cbn [fst snd] in *. rewrite get_map in Hg. unfold get in Hg. destruct (Z.of_nat j <? 0) eqn:E; [lia|].
    rewrite Nat2Z.id, Hj in Hg. cbn in Hg. injection Hg as <-. lia. }
  destruct (rtG_union_children fixed (take kk tg') (take kk ix') tg' (take k ix') cs IH 0 vss Hcs Hf Hvss ltac:(lia)) as (cs1 & vss1 & Hof & Hls & Hcov).
  { intros j c Hj x Hx. rewrite Z.add_0_l in Hx. apply mine_In in Hx. rewrite zip_take, Hzip in Hx.
    apply In_take in Hx. apply In_take in Hx. exact (Hvalid j c Hj x Hx). }
  { intros j c Hj x Hx. rewrite Z.add_0_l in Hx. apply mine_In in Hx.
    assert (Ez : zip tg' (take k ix') = zip tg' ix') by (rewrite <- Hztg; apply zip_take_l). rewrite Ez, Hzip in Hx.
    apply In_take in Hx. exact (Hvalid j c Hj x Hx). }
  { intros ->. unfold kk. split; [apply take_all; lia|]. rewrite Hztg. reflexivity. }
  exists (Union w tg' ix' cs1). rewrite to_ftree_Union, of_ftree_Union. fold tg' ix'.
  replace (zlen tg' <? len) with false by (unfold k, efflen in *; cbn [clen] in *; lia).
  replace (zlen ix' <? len) with false by (unfold k, efflen in *; cbn [clen] in *; lia).
  cbv zeta. fold kk. rewrite Hof. cbn [bind]. replace (zlen ix' <? zlen tg') with false by lia.
  split; [reflexivity|]. cbn [clen]. split; [unfold k, efflen in *; cbn [clen] in *; lia|]. split; [|intros _; lia].
  rewrite to_list_Union, all_lists_mapM, Hls. cbn [bind]. replace (zlen ix' <? zlen tg') with false by lia.
  rewrite Hztg. rewrite <- (mapM_take _ _ _ k Hvs). rewrite <- Hzip.
  apply mapM_ext_in. intros [tgv x] Hin.
  assert (Hin0 : In (tgv, x) (zip tg ix)) by (rewrite Hzip in Hin; apply In_take in Hin; exact Hin).
  rewrite Forall_forall in Hti. destruct (Hti _ Hin0) as (Htg0 & _ & lc & Hg & _). cbn [fst snd] in *.
  rewrite get_map in Hg. apply rmap_Ok in Hg as (c & Hgc & _).
  rewrite get_nth_error in Hgc by lia. destruct (nth_error cs (Z.to_nat tgv)) as [c0|] eqn:Ec; [|discriminate Hgc].
  assert (Hlen_v : length vss = length cs) by (apply zlen_eq_length; exact (mapM_zlen _ _ _ Hvss)).
  destruct (nth_error vss (Z.to_nat tgv)) as [v|] eqn:Ev.
  2:{ apply nth_error_None in Ev. assert (nth_error cs (Z.to_nat tgv) <> None) by congruence. apply nth_error_Some in H. lia. }
  destruct (Hcov _ v Ev) as (v1 & E1 & Hgx).
  rewrite !get_nth_error by lia. rewrite Ev, E1. cbn [bind]. apply Hgx.
  rewrite Z.add_0_l, Z2Nat.id by lia. apply mine_In_rev.
  assert (Ez : zip tg' (take k ix') = zip tg' ix') by (rewrite <- Hztg; apply zip_take_l). rewrite Ez. exact Hin.
Qed.

(* ---------------------------------------------------------------- assembling *)
Lemma rtG_Unmasked fixed c : rtG_at fixed c -> rtG_at fixed (Unmasked c).
Proof.
  intros IH p t len vs HV Hf Ht Hlen Hvs. cbn [fragG] in Hf. apply Valid_Unmasked_inv in HV as (_ & Hc).
  rewrite to_list_Unmasked in Hvs.
  destruct (IH None t len vs Hc Hf Ht Hlen Hvs) as (c1 & Hof & Hb & Hl1 & Hr).
  exists (Unmasked c1). cbn [to_ftree of_ftree]. rewrite Hof. cbn [bind]. split; [reflexivity|]. cbn [clen].
  split; [exact Hb|]. split; [rewrite to_list_Unmasked; exact Hl1|exact Hr].
Qed.
Lemma rtG_Empty fixed : rtG_at fixed Empty.
Proof.
  intros p t len vs _ _ Ht Hlen Hvs. cbn in Hvs. injection Hvs as <-.
  assert (len = 0) by (unfold efflen, trim_ok in *; cbn [clen] in *; destruct t; lia). subst len.
  exists Empty. cbn [to_ftree of_ftree]. split; [reflexivity|]. cbn [clen]. unfold efflen, trim_ok in *. cbn [clen] in *.
  split; [destruct t; lia|]. split; [reflexivity|]. intros _. destruct t; lia.
Qed.

Lemma rtG_all fixed c : rtG_at fixed c.
Proof.
  induction c using content_ind'.
  - apply rtG_Numpy.
  - apply rtG_Empty.
  - apply rtG_ListOffset; assumption.
  - apply rtG_ListA; assumption.
  - apply rtG_Regular; assumption.
  - apply rtG_Indexed; assumption.
  - apply rtG_IndexedOption; assumption.
  - apply rtG_ByteMasked; assumption.
  - apply rtG_BitMasked; assumption.
  - apply rtG_Unmasked; assumption.
  - apply rtG_Union; assumption.
  - apply rtG_Record; assumption.
  - apply rtG_Par; assumption.
Qed.

(** from_buffers(to_buffers c) reproduces c (value, type, length) for both variants of the length computation on the
    fragment [fragG fixed false] (the top node is never range sliced). *)
Theorem buffers_roundtrip_gen_thm fixed c : Valid None c -> fragG fixed false c = true -> chars_ok c = true ->
  exists c', from_buffers_gen fixed (to_buffers c) = Ok c' /\ to_list c' = to_list c /\ type_of c' = type_of c /\ clen c' = clen c.
Proof.
  intros HV Hf Hch. destruct (valid_to_list_total_partial c None HV Hch) as (vs & Hvs).
  destruct (to_list_clen c vs Hvs) as [Hz Hc].
  destruct (rtG_all fixed c None None (clen c) vs HV Hf I ltac:(cbn; lia) Hvs) as (c' & Hof & Hb & Hl & _). cbn [efflen] in Hb.
  exists c'. rewrite from_buffers_is_of_ftree. split; [exact Hof|].
  split; [rewrite Hl, Hvs; f_equal; apply take_all; lia|]. split; [|lia].
  eapply from_buffers_type_thm. rewrite from_buffers_is_of_ftree. exact Hof.
Qed.

(** the pinned code, on the wider fragment *)
Theorem buffers_roundtrip_partial2_thm c : Valid None c -> fragG false false c = true -> chars_ok c = true ->
  exists c', from_buffers (to_buffers c) = Ok c' /\ to_list c' = to_list c /\ type_of c' = type_of c /\ clen c' = clen c.
Proof. exact (buffers_roundtrip_gen_thm false c). Qed.

(* the fragment of the repaired variant, spelled out: nothing but "offsets lie inside the content" (and the sign
   conditions Valid already states for every node it looks into; it does not look into the character buffer of a string) *)
Fixpoint offs_in (c : content) : bool :=
  match c with
  | Numpy _ shape _ => match shape with [] => false | _ :: dims => forallb (fun d => 0 <=? d) dims end
  | Empty => true
  | ListOffset _ o c' => offs_in c' && forallb (fun x => (0 <=? x) && (x <=? clen c')) o
  | Regular c' size _ => (0 <=? size) && offs_in c'
  | ListA _ _ _ c' | Indexed _ _ c' | IndexedOption _ _ c' | Unmasked c' | Par _ _ c' | ByteMasked _ _ c'
  | BitMasked _ _ _ _ c' => offs_in c'
  | Record cs _ _ | Union _ _ _ cs =>
      (fix all (l : list content) : bool := match l with [] => true | x :: xs => offs_in x && all xs end) cs
  end.
Lemma offs_in_all cs :
  (fix all (l : list content) : bool := match l with [] => true | x :: xs => offs_in x && all xs end) cs = forallb offs_in cs.
Proof. induction cs as [|x xs IH]; [reflexivity|]. cbn [forallb]. rewrite IH. reflexivity. Qed.

Lemma fragG_fixed_offs_in c : forall sl, fragG true sl c = offs_in c.
Proof.
  induction c using content_ind'; intros sl; cbn [fragG offs_in orb]; rewrite ?andb_true_r; try reflexivity; try (rewrite IHc; reflexivity).
  - rewrite fragG_un_all, offs_in_all. cbn [orb]. induction H as [|x xs Hx _ IH]; [reflexivity|]. cbn [forallb]. rewrite Hx, IH, andb_true_r. reflexivity.
  - rewrite fragG_rec_all, offs_in_all. induction H as [|x xs Hx _ IH]; [reflexivity|]. cbn [forallb]. rewrite Hx, IH. reflexivity.
Qed.

(** the proposed repair (children are asked for what the whole rebuilt parent indexes): every node class, any
    nesting, unreachable content anywhere; only offsets outside the content (all lists empty) stay excluded *)
Theorem buffers_roundtrip_fixed_partial_thm c : Valid None c -> offs_in c = true -> chars_ok c = true ->
  exists c', from_buffers_gen true (to_buffers c) = Ok c' /\ to_list c' = to_list c /\ type_of c' = type_of c /\ clen c' = clen c.
Proof. intros HV Ho. apply buffers_roundtrip_gen_thm; [exact HV|]. rewrite fragG_fixed_offs_in. exact Ho. Qed.

(* the new fragment contains the old one *)
Lemma frag16_resets2 c : frag16 c = true -> resets c = true -> resets2 c = true.
Proof.
  induction c using content_ind'; cbn [frag16 resets resets2]; intros Hf Hr; try reflexivity; try discriminate Hr.
  - destruct shape as [|n dims]; [discriminate Hf|]. cbn [tl]. rewrite forallb_forall in *. intros d Hd. specialize (Hf d Hd). lia.
  - apply andb_true_iff in Hf as [_ Hf]. apply andb_true_iff in Hr as [-> Hr]. exact (IHc Hf Hr).
  - exact (IHc Hf Hr).
  - exact (IHc Hf Hr).
Qed.
Lemma frag16_fragG c : frag16 c = true -> forall sl, fragG false sl c = true.
Proof.
  induction c using content_ind'; cbn [frag16 fragG orb]; intros Hf sl; try reflexivity.
  - destruct shape as [|n dims]; [discriminate Hf|]. rewrite forallb_forall in *. intros d Hd. specialize (Hf d Hd). lia.
  - apply andb_true_iff in Hf as [H1 H2]. rewrite (IHc H1), H2. reflexivity.
  - apply andb_true_iff in Hf as [H1 H2]. rewrite (IHc H1), (frag16_resets2 c H1 H2). reflexivity.
  - apply andb_true_iff in Hf as [H1 H2]. rewrite H1, (IHc H2). reflexivity.
  - exact (IHc Hf _).
  - exact (IHc Hf _).
  - apply andb_true_iff in Hf as [H1 H2]. rewrite (IHc H1), (frag16_resets2 c H1 H2). reflexivity.
  - apply andb_true_iff in Hf as [H1 H2]. rewrite (IHc H1), (frag16_resets2 c H1 H2). rewrite orb_true_r. reflexivity.
  - exact (IHc Hf _).
  - rewrite frag16_union_all in Hf. rewrite fragG_un_all. rewrite forallb_forall in *. intros x Hx. specialize (Hf x Hx).
    apply andb_true_iff in Hf as [H1 H2]. rewrite Forall_forall in H. rewrite (H x Hx H1), (frag16_resets2 x H1 H2). reflexivity.
  - rewrite frag16_all in Hf. rewrite fragG_rec_all. rewrite forallb_forall in *. intros x Hx. rewrite Forall_forall in H. exact (H x Hx (Hf x Hx) _).
  - exact (IHc Hf _).
Qed.
Theorem frag16_in_fragG_thm c : frag16 c = true -> fragG false false c = true /\ offs_in c = true.
Proof.
  intros Hf. split; [exact (frag16_fragG c Hf false)|]. rewrite <- (fragG_fixed_offs_in c false).
  (* the fragment of the repaired variant contains the fragment of the pinned one *)
  assert (G : forall c sl, fragG false sl c = true -> fragG true sl c = true).
  { clear. induction c using content_ind'; cbn [fragG orb]; intros sl Hf; try exact Hf; rewrite ?andb_true_r.
    - apply andb_true_iff in Hf as [H1 H2]. rewrite (IHc _ H1), H2. reflexivity.
    - apply andb_true_iff in Hf as [H1 _]. exact (IHc _ H1).
    - apply andb_true_iff in Hf as [H1 H2]. rewrite H1, (IHc _ H2). reflexivity.
    - exact (IHc _ Hf).
    - exact (IHc _ Hf).
    - apply andb_true_iff in Hf as [H1 _]. exact (IHc _ H1).
    - apply andb_true_iff in Hf as [H1 _]. exact (IHc _ H1).
    - exact (IHc _ Hf).
    - rewrite fragG_un_all in *. rewrite forallb_forall in *. intros x Hx. specialize (Hf x Hx). apply andb_true_iff in Hf as [H1 _].
      rewrite Forall_forall in H. rewrite (H x Hx _ H1). reflexivity.
    - rewrite fragG_rec_all in *. rewrite forallb_forall in *. intros x Hx. rewrite Forall_forall in H. exact (H x Hx _ (Hf x Hx)).
    - exact (IHc _ Hf). }
  apply G. exact (frag16_fragG c Hf false).
Qed.
