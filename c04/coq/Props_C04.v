(** C04 property theorems (proofs in Proofs_C04.v, Proofs_C04_Model1..6.v).  Model: Broadcast.v (transcription of
    _util.apply and of the C++ normalisers); specification: BroadcastSpec.v. *)
From AwkBroadcast Require Import Broadcast Proofs_C04 Proofs_C04_Model1 Proofs_C04_Model2 Proofs_C04_Model5 Proofs_C04_Model6.

(* (d) a missing value in any argument gives a missing result there *)
Theorem none_propagates : forall op ar fuel args,
  rpad args = args -> existsb badT (map fst args) = false -> none_in args = true ->
  spec_v op ar (S fuel) args = Ok VNone.
Proof. exact none_propagates_step. Qed.
Print Assumptions none_propagates.

(* (e) lists of different lengths at the same position raise an error *)
Theorem length_mismatch_errors : forall op ar fuel args t l n,
  rpad args = args -> existsb badT (map fst args) = false -> existsb is_optT (map fst args) = false ->
  list_target args = Ok n ->
  In (t, VList l) args -> is_listT t = true -> sizeT t <> Some 1 -> zlen l <> n ->
  spec_v op ar (S fuel) args = Err EValue.
Proof. exact length_mismatch_step. Qed.
Print Assumptions length_mismatch_errors.

(* (c) a scalar behaves as the length-1 array of that scalar, which broadcasts *)
Theorem scalar_broadcasts : forall op ar fuel X a,
  is_listT (fst X) = true -> is_leafT (fst a) = true ->
  spec_v op ar fuel [X; a] = spec_v op ar fuel [X; pad1 a].
Proof. exact scalar_is_length1_array. Qed.
Print Assumptions scalar_broadcasts.

(* (f) the result has the list structure the type-level pass announces, and that is as deep as the deepest argument *)
Theorem spec_result_has_deepest_structure : forall op fuel args rt r,
  spec_t op false fuel (map fst args) = Ok rt -> spec_v op false fuel args = Ok r ->
  has_shape rt r = true /\ rdepth rt = maxdepth (map fst args).
Proof. exact (fun op fuel args rt r Ht Hv => conj (spec_shape op fuel args rt r Ht Hv) (spec_t_depth op false fuel _ rt Ht)). Qed.
Print Assumptions spec_result_has_deepest_structure.

(* ---- model = specification (refinement), two array inputs of the fragment [jag]: 1-d integer NumpyArray leaves under
   ListOffsetArray / ListArray (any index width, offset origin, gaps, unreachable data) and IndexedOptionArray (not directly
   inside another one).  [agrees m s]: s = Ok vs -> m = Ok vs;  s = Err e -> e = EValue and m = Err EValue (values AND
   error status; no out-of-fuel on either side).  [obs r] = to_list of the layout the model returns.
   [model_fuel_bound c1 c2] = number of nodes of c1 + number of nodes of c2 (every call of apply removes a node). ---- *)

(* (a,b) apply on two arrays = the specification on the two arrays as variable-length lists (equal lengths required) *)
Theorem model_refines_spec : forall op fuel c1 c2 vs1 vs2,
  jag c1 = true -> jag c2 = true -> to_list c1 = Ok vs1 -> to_list c2 = Ok vs2 ->
  (model_fuel_bound c1 c2 <= fuel)%nat ->
  agrees (obs (Broadcast.apply op None fuel [MC c1; MC c2]))
         (unlist (spec_v op false (S fuel) [arr_arg c1 vs1; arr_arg c2 vs2])).
Proof. exact model_refines_spec_lemma. Qed.
Print Assumptions model_refines_spec.

(* the same on the model's own result: when the specification refuses, the model's computation itself fails with a value
   error (it never returns an ill-formed layout); when it gives values, the model returns a layout with these values *)
Theorem model_refines_spec_strong : forall op fuel c1 c2 vs1 vs2,
  jag c1 = true -> jag c2 = true -> to_list c1 = Ok vs1 -> to_list c2 = Ok vs2 ->
  (model_fuel_bound c1 c2 <= fuel)%nat ->
  agrees_c (Broadcast.apply op None fuel [MC c1; MC c2])
           (unlist (spec_v op false (S fuel) [arr_arg c1 vs1; arr_arg c2 vs2])).
Proof. exact model_refines_spec_strong_lemma. Qed.
Print Assumptions model_refines_spec_strong.

Theorem model_never_out_of_fuel : forall op fuel c1 c2 vs1 vs2,
  jag c1 = true -> jag c2 = true -> to_list c1 = Ok vs1 -> to_list c2 = Ok vs2 ->
  (model_fuel_bound c1 c2 <= fuel)%nat ->
  obs (Broadcast.apply op None fuel [MC c1; MC c2]) <> Err EFuel /\
  unlist (spec_v op false (S fuel) [arr_arg c1 vs1; arr_arg c2 vs2]) <> Err EFuel.
Proof. exact model_never_out_of_fuel_lemma. Qed.
Print Assumptions model_never_out_of_fuel.

(* the entry points: broadcast_and_apply (broadcast_pack, apply, broadcast_unpack) = spec_broadcast (type-level pass and
   element-level pass on the packed arrays; a length-1 array is repeated).
   PARTIAL: hypothesis [size1_vs_size0 c1 c2 = false] added (not: lengths 1 and 0, unless both are 1-d NumpyArrays).
   Without it the statement is false (Proofs_C04_Model6.broadcast_refines_spec_refuted: [[1,2]] + empty array of lists;
   known finding regular-size1-to-size0): apply's all-RegularArray branch does not repeat a size-1 dimension to size 0. *)
Theorem broadcast_refines_spec_partial : forall op fuel c1 c2 vs1 vs2,
  jag c1 = true -> jag c2 = true -> to_list c1 = Ok vs1 -> to_list c2 = Ok vs2 ->
  (S (model_fuel_bound c1 c2) <= fuel)%nat ->
  size1_vs_size0 c1 c2 = false ->
  agrees (obs (broadcast_and_apply op None fuel [MC c1; MC c2]))
         (spec_broadcast op false fuel [SArr (type_of c1) vs1; SArr (type_of c2) vs2]).
Proof. exact broadcast_refines_spec_partial_lemma. Qed.
Print Assumptions broadcast_refines_spec_partial.

(* ... and on the excluded inputs they always differ in the same way: the model refuses, the specification returns [] *)
Theorem size1_vs_size0_differs : forall op fuel c1 c2 vs1 vs2,
  jag c1 = true -> jag c2 = true -> to_list c1 = Ok vs1 -> to_list c2 = Ok vs2 ->
  (S (model_fuel_bound c1 c2) <= fuel)%nat ->
  size1_vs_size0 c1 c2 = true ->
  broadcast_and_apply op None fuel [MC c1; MC c2] = Err EValue /\
  spec_broadcast op false fuel [SArr (type_of c1) vs1; SArr (type_of c2) vs2] = Ok [].
Proof. exact size1_vs_size0_differs_lemma. Qed.
Print Assumptions size1_vs_size0_differs.
