(** C14 — beginlist / endlist on a well-formed inactive builder, forwarding through the enclosing frames. *)
From Coq Require Import ZArith List Bool Lia.
From AwkV Require Import Base Layout.
From AwkBuilder Require Import Builder Spec GbLemmas Invariant StepLemmas AtomStep Push.
Import ListNotations.
Open Scope Z_scope.

Lemma pushed_change c1 c2 c' v : bvals c1 = bvals c2 -> pushed c1 c' v -> pushed c2 c' v.
Proof. intros E (A & B & C). refine (conj A (conj B _)). now rewrite <- E. Qed.

Lemma plug_active K b : active b = true -> active (plug K b) = true.
Proof.
  induction K as [|f K IH]; intro H; [exact H|]. destruct f; cbn [plug active]; auto.
  pose proof (zlen_nonneg pre). apply negb_true_iff. apply Z.eqb_neq. lia.
Qed.

Lemma plug_blen K b b' : K <> [] -> blen (plug K b) = blen (plug K b').
Proof. destruct K as [|f K]; [congruence|]. intros _. destruct f; reflexivity. Qed.

Lemma to_nat_zlen {A} (l : list A) : Z.to_nat (zlen l) = length l.
Proof. unfold zlen. lia. Qed.

Section WithOpts.
Variable o : opts.
Hypothesis Ho : good_opts o.

(* ------------------------------------------------------------------ forwarding through frames *)
Lemma fwd K : forall b b' cmd,
  fragcmd cmd = true -> active b = true -> step o b cmd = SOk b' None -> active b' = true -> blen b' = blen b ->
  step o (plug K b) cmd = SOk (plug K b') None.
Proof.
  induction K as [|f K IH]; intros b b' cmd Fc Ab E Ab' Bl; [exact E|].
  specialize (IH b b' cmd Fc Ab E Ab' Bl).
  pose proof (plug_active K b Ab) as AX. pose proof (plug_active K b' Ab') as AX'.
  assert (blen (plug K b') = blen (plug K b)) as BX.
  { destruct K; [exact Bl|]. apply plug_blen. congruence. }
  destruct f; cbn [plug].
  - cbn [step negb]. destruct cmd; try discriminate Fc; rewrite ?AX; cbn [negb]; rewrite IH; reflexivity.
  - cbn [step]. rewrite AX. cbn [negb].
    destruct cmd; try discriminate Fc; cbn [kind_of]; rewrite IH; cbn [dr]; cbv beta iota; try reflexivity.
    rewrite BX, Z.eqb_refl. reflexivity.
  - cbn [step]. pose proof (zlen_nonneg pre).
    replace (zlen pre =? -1) with false by (symmetry; apply Z.eqb_neq; lia). cbn [negb].
    rewrite nth_z_app, to_nat_zlen, at_nth_app, IH.
    destruct cmd; try discriminate Fc; cbn [kind_of dr]; cbv beta iota; rewrite ?BX, ?Z.eqb_refl, ?upd_nth_app; reflexivity.
Qed.

Lemma step_in K c cmd s r :
  okctx K -> fragcmd cmd = true -> step o c cmd = SOk s r -> (cmd = CEndList -> active c = true) ->
  ab_step o (plug K c) cmd = (plug K (pick s r), None).
Proof.
  intros [->|(K' & offs & ->)] Fc E Hend.
  - cbn [plug]. unfold ab_step. now rewrite E.
  - rewrite !plug_app. cbn [plug].
    assert (step o (BList offs c true) cmd = SOk (BList offs (pick s r) true) None) as EL.
    { cbn [step negb]. destruct cmd; try discriminate Fc; try (rewrite E; reflexivity).
      rewrite (Hend eq_refl). cbn [negb]. rewrite E. reflexivity. }
    unfold ab_step.
    rewrite (fwd K' (BList offs c true) (BList offs (pick s r) true) cmd Fc (eq_refl : active (BList offs c true) = true) EL
                 (eq_refl : active (BList offs (pick s r) true) = true) eq_refl).
    reflexivity.
Qed.

(* ------------------------------------------------------------------ closing *)
Lemma close_list offs1 c0 c0' news :
  wf (BList offs1 c0 false) -> wf c0' -> active c0' = false -> bvals c0' = bvals c0 ++ news ->
  exists offs', step o (BList offs1 c0' true) CEndList = SOk (BList offs' c0' false) None /\
                pushed (BList offs1 c0 false) (BList offs' c0' false) (VList news).
Proof.
  intros (Wo & Wc & OK & Hb) Wc' Ac' Vc'. destruct (Hb eq_refl) as [Ac La].
  cbn [step negb]. rewrite Ac'. cbn [negb].
  destruct (gb_append_ok o offs1 (blen c0') Ho Wo) as (g' & E' & W' & L' & N' & _). rewrite E'. cbn [withgb].
  exists g'. split; [reflexivity|]. unfold pushed. cbn [wf active bvals]. rewrite L'.
  assert (blen c0' = blen c0 + zlen news) as Bl.
  { rewrite <- !bvals_len by auto. rewrite Vc', zlen_app. reflexivity. }
  pose proof (zlen_nonneg news) as Hn. pose proof (okoff_ne _ _ OK) as Hne.
  split; [|split; [reflexivity|]].
  - split; [exact W'|split; [exact Wc'|split]].
    + apply okoff_snoc with (n := blen c0); auto; lia.
    + intros _. split; [exact Ac'|]. now rewrite last_snoc.
  - rewrite cuts_snoc by exact Hne. rewrite map_app. cbn [map]. f_equal.
    + f_equal. rewrite Vc'. apply cuts_extend. destruct OK as (_ & F & _). rewrite bvals_len by exact Wc. exact F.
    + rewrite La, Bl, Vc'. rewrite <- (bvals_len c0 Wc). rewrite drop_app_l.
      replace (zlen (bvals c0) + zlen news - zlen (bvals c0)) with (zlen news) by lia.
      rewrite take_all by lia. reflexivity.
Qed.

Lemma option_close idx ct X' ct' v :
  wf (BOption idx ct) -> active X' = true -> blen X' = blen ct ->
  step o X' CEndList = SOk ct' None -> pushed ct ct' v ->
  exists u, step o (BOption idx X') CEndList = SOk u None /\ pushed (BOption idx ct) u v.
Proof.
  intros (Wi & Wc & Fi) AX BX E (Wn & An & Vn).
  cbn [step]. rewrite AX. cbn [negb kind_of]. rewrite E.
  assert (blen ct' = blen ct + 1) as Bn.
  { rewrite <- !bvals_len by auto. rewrite Vn, zlen_app, zlen_cons, zlen_nil. lia. }
  replace (blen ct' =? blen X') with false by (symmetry; apply Z.eqb_neq; lia).
  destruct (gb_append_ok o idx (blen X') Ho Wi) as (i' & Ei & Wi' & Li & Ni & _). rewrite Ei. cbn [withgb].
  eexists; split; [reflexivity|]. unfold pushed. cbn [wf active bvals]. rewrite Li, map_app, Vn, BX.
  refine (conj (conj Wi' (conj Wn _)) (conj An _)).
  - rewrite Bn. apply Forall_app. split.
    + eapply Forall_impl; [|exact Fi]. cbn. intros; lia.
    + constructor; [lia|constructor].
  - cbn [map]. rewrite <- (bvals_len ct Wc), lookup_last. f_equal.
    apply map_ext_in. intros i Hi. apply nth_lookup_app. rewrite Forall_forall in Fi. rewrite bvals_len by auto. auto.
Qed.

Lemma union_close tags idx pre x post X' x' v :
  wf (BUnion tags idx (pre ++ x :: post) (-1)) -> active X' = true -> blen X' = blen x ->
  step o X' CEndList = SOk x' None -> pushed x x' v ->
  exists u, step o (BUnion tags idx (pre ++ X' :: post) (zlen pre)) CEndList = SOk u None /\
            pushed (BUnion tags idx (pre ++ x :: post) (-1)) u v.
Proof.
  intros W AX BX E P. pose proof W as (Wt & Wi & _). pose proof P as (Wx' & Ax' & Vx').
  destruct (union_wf_parts _ _ _ _ W) as [Wcs _].
  apply Forall_app in Wcs. destruct Wcs as [_ Wxp]. inversion Wxp as [|? ? Wx _]; subst.
  assert (blen x' = blen x + 1) as Bn.
  { rewrite <- !bvals_len by auto. rewrite Vx', zlen_app, zlen_cons, zlen_nil. lia. }
  cbn [step]. pose proof (zlen_nonneg pre).
  replace (zlen pre =? -1) with false by (symmetry; apply Z.eqb_neq; lia). cbn [negb].
  rewrite nth_z_app, to_nat_zlen, at_nth_app, E, upd_nth_app. cbn [kind_of].
  replace (blen x' =? blen X') with false by (symmetry; apply Z.eqb_neq; lia).
  destruct (gb_append_ok o tags (zlen pre) Ho Wt) as (t' & Et & Wt' & Lt & Nt & _). rewrite Et. cbn [withgb].
  destruct (gb_append_ok o idx (blen X') Ho Wi) as (i' & Ei & Wi' & Li & Ni & _). rewrite Ei. cbn [withgb].
  eexists; split; [reflexivity|]. rewrite BX in Li. eapply union_update; eauto.
Qed.

(* ------------------------------------------------------------------ opening *)
Definition closes (c : builder) (K1 : list frame) (offs1 : gb) (c0 : builder) : Prop :=
  wf c0 /\ active c0 = false /\
  (forall x, blen (plug K1 (BList offs1 x true)) = blen c) /\
  forall c0' news, wf c0' -> active c0' = false -> bvals c0' = bvals c0 ++ news ->
    exists c', step o (plug K1 (BList offs1 c0' true)) CEndList = SOk c' None /\ pushed c c' (VList news).

Lemma empty_list_wf offs : gbwf offs -> gb_list offs = [0] -> glen offs = 1 -> wf (BList offs (BUnknown 0) false).
Proof.
  intros W L N. cbn [wf]. rewrite L. cbn [blen active last].
  refine (conj W (conj _ (conj _ _))); [lia|apply okoff_single; lia|auto].
Qed.

Lemma empty_list_vals offs : gb_list offs = [0] -> bvals (BList offs (BUnknown 0) false) = [].
Proof. intro L. cbn [bvals]. rewrite L. reflexivity. Qed.

Lemma closes_direct offs ct :
  wf (BList offs ct false) -> closes (BList offs ct false) [] offs ct.
Proof.
  intro W. pose proof W as (Wo & Wc & OK & Hb). destruct (Hb eq_refl) as [Ac La].
  refine (conj Wc (conj Ac (conj (fun _ => eq_refl) _))).
  intros c0' news W' A' V'. cbn [plug].
  destruct (close_list offs ct c0' news W W' A' V') as (offs' & E & P). eexists; split; [exact E|exact P].
Qed.

Lemma open_wrap b :
  wf b -> active b = false ->
  exists u K1 offs1 c0,
    union_wrap o b CBeginList = SOk b (Some u) /\ u = plug K1 (BList offs1 c0 true) /\ closes b K1 offs1 c0.
Proof.
  intros W A. unfold union_wrap. pose proof (blen_nonneg b W) as Hb.
  destruct (gb_full_ok o 0 (blen b) Ho Hb) as (gt & Et & Wt & Lt & Nt & _). rewrite Et. cbn [withgb].
  destruct (gb_arange_ok o (blen b) Ho Hb) as (gi & Ei & Wi & Li & Ni & _). rewrite Ei. cbn [withgb].
  destruct fresh_list with (o := o) as (offs & Ef & Wo & Lo & No); [exact Ho|]. rewrite Ef. cbn [withb kind_of].
  pose proof (empty_list_wf offs Wo Lo No) as WL. pose proof (empty_list_vals offs Lo) as VL.
  exists (BUnion gt gi [b; BList offs (BUnknown 0) true] 1), [FUni gt gi [b] []], offs, (BUnknown 0).
  split; [reflexivity|split; [reflexivity|]].
  refine (conj _ (conj eq_refl (conj _ _))); [cbn [wf]; lia|intro x; cbn [plug blen]; exact Nt|].
  intros c0' news W' A' V'. cbn [plug].
  destruct (close_list offs (BUnknown 0) c0' news WL W' A' V') as (offs' & El & Pl).
  assert (wf (BUnion gt gi [b; BList offs (BUnknown 0) false] (-1)) /\
          bvals (BUnion gt gi [b; BList offs (BUnknown 0) false] (-1)) = bvals b) as [WU VU].
  { split.
    - cbn [wf]. refine (conj Wt (conj Wi (conj _ (conj _ (conj _ (conj _ _)))))).
      + lia.
      + exact (conj W (conj WL I)).
      + rewrite Lt, Li. now apply zip_fill_iota_ok.
      + intros _. constructor; [exact A|constructor; [reflexivity|constructor]].
      + intro H; exfalso; apply H; reflexivity.
    - cbn [bvals map]. rewrite Lt, Li, Lo. unfold cuts at 1. cbn [pairs map]. unfold fill, iota. rewrite <- (bvals_len b W). unfold zlen. rewrite Nat2Z.id.
      apply (ulookup_pair_iota (bvals b) [] []). }
  destruct (union_close gt gi [b] (BList offs (BUnknown 0) false) [] (BList offs c0' true) _ (VList news) WU eq_refl eq_refl El Pl)
    as (u & Eu & Pu).
  exists u. split; [exact Eu|]. eapply pushed_change; [exact VU|exact Pu].
Qed.

Ltac open_leaf W A :=
  cbn [step kind_of];
  let u := fresh "u" in let K1 := fresh "K1" in let offs1 := fresh "offs1" in let c0 := fresh "c0" in
  let E := fresh "E" in let Ep := fresh "Ep" in let C := fresh "C" in
  destruct (open_wrap _ W A) as (u & K1 & offs1 & c0 & E & Ep & C); rewrite E;
  eexists _, (Some u), K1, offs1, c0; split; [reflexivity|split; [exact Ep|exact C]].

Lemma open_step c :
  wf c -> active c = false ->
  exists s r K1 offs1 c0,
    step o c CBeginList = SOk s r /\ pick s r = plug K1 (BList offs1 c0 true) /\ closes c K1 offs1 c0.
Proof.
  induction c using builder_ind'; intros W A.
  - (* Unknown *)
    cbn [step kind_of]. unfold unknown_start.
    destruct fresh_list with (o := o) as (offs & Ef & Wo & Lo & No); [exact Ho|]. rewrite Ef. cbn [withb].
    pose proof (empty_list_wf offs Wo Lo No) as WL. pose proof (empty_list_vals offs Lo) as VL.
    cbn [wf] in W.
    destruct (n =? 0) eqn:E0.
    + apply Z.eqb_eq in E0. subst n.
      exists (BUnknown 0), (Some (BList offs (BUnknown 0) true)), [], offs, (BUnknown 0).
      split; [reflexivity|split; [reflexivity|]].
      destruct (closes_direct offs (BUnknown 0) WL) as (C1 & C2 & C3 & C4).
      refine (conj C1 (conj C2 (conj _ _))).
      * intro x. cbn [plug blen]. lia.
      * intros c0' news W' A' V'. destruct (C4 c0' news W' A' V') as (c' & E & P). exists c'. split; [exact E|].
        eapply pushed_change; [|exact P]. rewrite VL. reflexivity.
    + apply Z.eqb_neq in E0.
      destruct (gb_full_ok o (-1) n Ho W) as (g & E & Wg & Lg & Ng & _). rewrite E. cbn [withgb kind_of].
      exists (BUnknown n), (Some (BOption g (BList offs (BUnknown 0) true))), [FOpt g], offs, (BUnknown 0).
      split; [reflexivity|split; [reflexivity|]].
      assert (wf (BOption g (BList offs (BUnknown 0) false))) as WO.
      { cbn [wf]. refine (conj Wg (conj WL _)). rewrite Lg. cbn [blen]. rewrite No. unfold fill.
        apply Forall_forall. intros i Hi. apply repeat_spec in Hi. lia. }
      refine (conj _ (conj eq_refl (conj _ _))); [cbn [wf]; lia| |].
      * intro x. cbn [plug blen]. exact Ng.
      * intros c0' news W' A' V'. cbn [plug].
        destruct (close_list offs (BUnknown 0) c0' news WL W' A' V') as (offs' & El & Pl).
        destruct (option_close g (BList offs (BUnknown 0) false) (BList offs c0' true) _ _ WO eq_refl eq_refl El Pl) as (u & Eu & Pu).
        exists u. split; [exact Eu|]. eapply pushed_change; [|exact Pu].
        cbn [bvals]. rewrite Lg, Lo. cbn [cuts pairs map]. apply map_lookup_fill.
  - open_leaf W A.
  - open_leaf W A.
  - open_leaf W A.
  - open_leaf W A.
  - (* Option *)
    cbn [active] in A. pose proof W as (Wi & Wc & Fi).
    destruct (IHc Wc A) as (s & r & K1 & offs1 & c0 & Es & Ep & (C1 & C2 & C3 & C4)).
    cbn [step]. rewrite A. cbn [negb kind_of]. rewrite Es. cbn [mu].
    exists (BOption idx (pick s r)), None, (FOpt idx :: K1), offs1, c0.
    split; [reflexivity|split; [cbn [pick plug]; now rewrite Ep|]].
    refine (conj C1 (conj C2 (conj (fun _ => eq_refl) _))).
    intros c0' news W' A' V'. cbn [plug].
    destruct (C4 c0' news W' A' V') as (ct' & Ec & Pc).
    apply (option_close idx c _ ct' (VList news) W); auto.
    apply plug_active. reflexivity.
  - (* List, not begun *)
    cbn [active] in A. subst begun. cbn [step negb].
    exists (BList offs c true), None, [], offs, c. split; [reflexivity|split; [reflexivity|]].
    now apply closes_direct.
  - contradiction.
  - contradiction.
  - (* Union *)
    cbn [active] in A. apply negb_false_iff in A. apply Z.eqb_eq in A. subst cur.
    destruct (union_wf_parts _ _ _ _ W) as [Wcs In]. specialize (In eq_refl).
    cbn [step]. change (negb (-1 =? -1)) with false. cbv iota. cbn [kind_of].
    destruct (find_app (fun x => step o x CBeginList) (takes CBeginList) cs 0) as [[[i x] r]|] eqn:F.
    + apply find_app_spec in F. destruct F as (pre & post & -> & -> & T & ->).
      apply Forall_app in Wcs. destruct Wcs as [_ Wxp]. inversion Wxp as [|? ? Wx _]; subst.
      apply Forall_app in In. destruct In as [_ Ixp]. inversion Ixp as [|? ? Ax _]; subst.
      destruct x; try discriminate T. cbn [active] in Ax. subst begun.
      cbn [step negb]. cbn [Nat.add]. rewrite upd_nth_app.
      exists (BUnion tags idx (pre ++ BList offsets x true :: post) (Z.of_nat (length pre))), None,
             [FUni tags idx pre post], offsets, x.
      split; [reflexivity|split; [reflexivity|]].
      destruct (closes_direct offsets x Wx) as (C1 & C2 & C3 & C4).
      refine (conj C1 (conj C2 (conj (fun _ => eq_refl) _))).
      intros c0' news W' A' V'. cbn [plug].
      destruct (C4 c0' news W' A' V') as (x' & Ex & Px). cbn [plug] in Ex.
      apply (union_close tags idx pre (BList offsets x false) post (BList offsets c0' true) x' (VList news) W); auto.
    + destruct fresh_list with (o := o) as (offs & Ef & Wo & Lo & No); [exact Ho|]. rewrite Ef. cbn [withb].
      pose proof (empty_list_wf offs Wo Lo No) as WL. pose proof (empty_list_vals offs Lo) as VL.
      exists (BUnion tags idx (cs ++ [BList offs (BUnknown 0) true]) (Z.of_nat (length cs))), None,
             [FUni tags idx cs []], offs, (BUnknown 0).
      split; [reflexivity|split; [reflexivity|]].
      refine (conj _ (conj eq_refl (conj (fun _ => eq_refl) _))); [cbn [wf]; lia|].
      intros c0' news W' A' V'. cbn [plug].
      destruct (close_list offs (BUnknown 0) c0' news WL W' A' V') as (offs' & El & Pl).
      assert (wf (BUnion tags idx (cs ++ [BList offs (BUnknown 0) false]) (-1)) /\
              bvals (BUnion tags idx (cs ++ [BList offs (BUnknown 0) false]) (-1)) = bvals (BUnion tags idx cs (-1))) as [WU VU].
      { destruct W as (Wt & Wi & E & _ & R & _ & Hc). split.
        - cbn [wf]. refine (conj Wt (conj Wi (conj E (conj _ (conj _ (conj _ _)))))).
          + apply wf_all. apply Forall_app. split; auto.
          + eapply Forall_impl; [|exact R]. intros [t k] [H1 H2]. cbn [fst snd] in *. rewrite zlen_snoc. split; [lia|].
            rewrite app_nth1 by (unfold zlen in H1; lia). exact H2.
          + intros _. apply Forall_app. split; auto.
          + intro Hx; exfalso; apply Hx; reflexivity.
        - cbn [bvals]. rewrite map_app. apply map_ext_in. intros [t k] Hin. apply ulookup_snoc. cbn [fst].
          rewrite Forall_forall in R. specialize (R _ Hin). cbn [fst snd] in R. rewrite map_length. unfold zlen in R. lia. }
      destruct (union_close tags idx cs (BList offs (BUnknown 0) false) [] (BList offs c0' true) _ (VList news) WU eq_refl eq_refl El Pl)
        as (u & Eu & Pu).
      exists u. split; [exact Eu|]. eapply pushed_change; [exact VU|exact Pu].
Qed.

End WithOpts.
