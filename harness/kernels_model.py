"""C13: the Gallina kernel models (c13/coq/Kernels.v, extracted, run by c13/ocaml/kernelrun) as third voter."""
import os
import re
import subprocess

import common as C
import kernels as K

B13 = os.path.join(C.BUILD, 'c13')
KERNELRUN = os.path.join(B13, 'kernelrun')
COQ13 = os.path.join(C.VERIF, 'c13', 'coq')
S64 = K.SENT['int64_t']          # stands for "untouched cell" of a float buffer on the model side

# theorem name -> (kernel, kind)   kind in k_safe | k_spec | k_width | aux
PROVED = {}
PROPS_FILES = ['Props_C13.v', 'Props_C13d.v', 'Props_C13h.v']
for _fn in PROPS_FILES:
    _pth = os.path.join(COQ13, _fn)
    if os.path.exists(_pth):
        _src = open(_pth).read()
        for _m in re.finditer(r'\(\*\s*@(\w+)\s+(k_safe|k_spec|k_width|aux)\s*\*\)\s*Theorem\s+(\w+)', _src):
            PROVED[_m.group(3)] = (_m.group(1), _m.group(2))
THEOREMS = sorted(PROVED)

MODELS = {}


def _load_models():
    MODELS.clear()
    if os.path.exists(KERNELRUN):
        p = subprocess.run([KERNELRUN, '--list'], stdout=subprocess.PIPE, text=True)
        for n in p.stdout.split():
            MODELS[n] = True


_load_models()


def modelled(kname):
    return kname in MODELS


def build():
    """Rocq development of C13 (full .vo build) + extraction + kernelrun"""
    os.makedirs(B13, exist_ok=True)
    r = C.sh('cd %s && coq_makefile -f _CoqProject -o Makefile.coq >/dev/null '
             '&& timeout 3000 make -f Makefile.coq -j8 2>&1 | tail -30' % COQ13)
    if r.returncode != 0 or 'Error' in r.stdout:
        raise C.BuildError('Rocq build of c13/coq failed:\n' + r.stdout[-3000:])
    r = C.sh('make -s -C %s/c13/ocaml VERIF=%s' % (C.VERIF, C.VERIF))
    if r.returncode != 0:
        raise C.BuildError('kernelrun build failed:\n' + r.stdout[-3000:])
    _load_models()


def registry_problems():
    names = {k.name for k in K.load_spec()}
    probs = ['model registry names a kernel absent from kernel-specification.yml: ' + n for n in MODELS if n not in names]
    if not MODELS:
        probs.append('kernelrun is missing or lists no models')
    return probs


def proved_counts():
    out = {'k_safe': set(), 'k_spec': set(), 'k_width': set()}
    for t, (kern, kind) in PROVED.items():
        if kind in out:
            out[kind].add(kern)
    d = {k: len(v) for k, v in out.items()}
    d['kernels_with_some_theorem'] = len(set().union(*out.values()))
    d['theorems'] = len(PROVED)
    return d


def _num(prim, x):
    """cell/scalar -> integer text for the model, or None if not representable on the model side"""
    kind = K.PRIM[prim][4]
    if kind == 'f':
        if x == K.SENT[prim]:
            return str(S64)
        if x != x or x in (float('inf'), float('-inf')) or x != int(x):
            return None
        lim = 2 ** 24 if prim == 'float' else 2 ** 53
        if abs(x) > lim:
            return None
        return str(int(x))
    return str(int(x))


def model_line(cid, call):
    sp = call.spec
    parts, tys = [], []
    for a in sp.args:
        tys.append(K.SHORT[a.prim])
        v = call.vals[a.name]
        if a.depth == 0:
            s = _num(a.prim, v)
            if s is None:
                return None
            parts.append(s)
        elif a.depth == 1:
            cells = [_num(a.prim, x) for x in v]
            if None in cells:
                return None
            parts.append('(' + ' '.join(cells) + ')')
        else:
            rows = []
            for r in v:
                cells = [_num(a.prim, x) for x in r]
                if None in cells:
                    return None
                rows.append('(' + ' '.join(cells) + ')')
            parts.append('(ll' + ''.join(' ' + r for r in rows) + ')')
    return '(%s %s (%s) %s)' % (cid, sp.kernel.name, ' '.join(tys), ' '.join(parts))


def run_model(lines):
    p = subprocess.run('ulimit -s unlimited 2>/dev/null; exec ' + KERNELRUN, shell=True, input='\n'.join(lines) + '\n',
                       stdout=subprocess.PIPE, stderr=subprocess.PIPE, text=True, timeout=600)
    out = {}
    for ol in p.stdout.splitlines():
        m = re.match(r'^\((\S+) (.*)\)$', ol)
        if m:
            out[m.group(1)] = m.group(2)
    return out


def _parse(s):
    """'(1 2) (ll (1) (2)) 3' -> python lists"""
    toks = re.findall(r'\(|\)|[^\s()]+', s)
    pos = 0

    def go():
        nonlocal pos
        t = toks[pos]
        pos += 1
        if t == '(':
            l = []
            while toks[pos] != ')':
                l.append(go())
            pos += 1
            if l and l[0] == 'll':
                return l[1:]
            return l
        return t if t == 'll' else int(t)
    out = []
    while pos < len(toks):
        out.append(go())
    return out


def _order_canon(call, name, buf):
    """kernels built on std::sort (unstable): the model is the stable sort, the compiled result may order equal keys
    differently. Both results are compared "up to the order realised": each position is replaced by the key it
    selects. (That the compiled result is a permutation is checked separately by kernels_gen.check_property.)"""
    k = call.spec.kernel.name
    v = call.vals
    try:
        if k == 'awkward_argsort' and name == 'toptr' and not v['stable']:
            off, src, out = v['offsets'], v['fromptr'], list(buf)
            for a, b in zip(off, off[1:]):
                for i in range(a, b):
                    out[i] = ('key', src[a + out[i]])
            return out
        if k == 'awkward_ListOffsetArray_local_preparenext_64' and name == 'tocarry':
            src = v['fromindex']
            return [('key', src[i]) for i in buf]
        if k == 'awkward_ListOffsetArray_argsort_strings' and name == 'tocarry' and not v['is_stable']:
            par, out = v['fromparents'], list(buf)
            first = 0
            for i in range(len(out)):
                if i and par[i] != par[i - 1]:
                    first = i
                j = out[i] + (first if v['is_local'] else 0)
                out[i] = ('key', tuple(v['stringdata'][v['stringstarts'][j]:v['stringstops'][j]]))
            return out
    except (IndexError, TypeError):
        pass
    return buf


def compare_model(call, rc, rs, mout):
    """-> (agree | abstain | diff | bad, detail)"""
    if mout is None:
        return 'bad', 'model runner gave no answer'
    if mout.startswith('bad'):
        return 'bad', 'model runner: ' + mout
    sp = call.spec
    if rc['status'] == 'err':
        msg = rc['msg'].split('\n')[0]
        if mout.startswith('err ') and mout[4:] == msg:
            return 'agree', ''
        return 'diff', 'compiled fails with %r, model: %s' % (msg, mout[:200])
    if not mout.startswith('ok'):
        return 'diff', 'compiled succeeds, model: %s' % mout[:200]
    outs = _parse(mout[2:])
    names = [a for a in sp.args if a.name in rc['out']]
    if len(outs) != len(names):
        return 'bad', 'model returned %d buffers, kernel has %d' % (len(outs), len(names))
    for a, mo in zip(names, outs):
        co = rc['out'][a.name]
        if a.depth == 1:
            co, mo = _order_canon(call, a.name, co), _order_canon(call, a.name, mo)
        rows_c = co if a.depth == 2 else [co]
        rows_m = mo if a.depth == 2 else [mo]
        if len(rows_c) != len(rows_m):
            return 'diff', '%s: row count' % a.name
        for rcw, rmw in zip(rows_c, rows_m):
            if len(rcw) != len(rmw):
                return 'diff', '%s: length %d vs model %d' % (a.name, len(rcw), len(rmw))
            for i, (c, m) in enumerate(zip(rcw, rmw)):
                if K.PRIM[a.prim][4] == 'f':
                    if c == K.SENT[a.prim]:
                        exp = S64
                    elif c != c or c != int(c) or abs(c) > (2 ** 24 if a.prim == 'float' else 2 ** 53):
                        return 'abstain', 'non-integral or large float result'
                    else:
                        exp = int(c)
                else:
                    exp = c
                if exp != m:
                    return 'diff', '%s[%d] compiled=%r model=%r' % (a.name, i, c, m)
    return 'agree', ''
