#!/usr/bin/env python3
"""mk.py ID MACHINE 'source' [--in name=1,2,3 ...] [--set S R I F] SEG...   -> one session line
SEG: run begin reset step steps:K resume call:NAME"""
import sys


def line(cid, machine, src, inputs=(), settings=(1024, 1024, 1024, 15), segs=('run',)):
    sb = ' '.join(str(b) for b in src.encode('latin-1'))
    ins = ' '.join('(%s (%s))' % (n, ' '.join(str(x) for x in bs)) for n, bs in inputs)
    ss = []
    for s in segs:
        if s.startswith('steps:'):
            ss.append('(steps %s)' % s[6:])
        elif s.startswith('stepall:'):
            ss.append('(stepall %s)' % s[8:])
        elif s.startswith('finish:'):
            ss.append('(finish %s)' % s[7:])
        elif s.startswith('call:'):
            ss.append('(call %s)' % s[5:])
        else:
            ss.append(s)
    return '(%s %s (src%s) (inputs%s) (settings %d %d %d %d) (segs%s))' % (
        cid, machine, ' ' + sb if sb else '', ' ' + ins if ins else '', settings[0], settings[1], settings[2],
        settings[3], ' ' + ' '.join(ss) if ss else '')


if __name__ == '__main__':
    a = sys.argv[1:]
    cid, machine, src = a[0], a[1], a[2]
    a = a[3:]
    inputs, settings, segs = [], (1024, 1024, 1024, 15), []
    i = 0
    while i < len(a):
        if a[i] == '--in':
            n, v = a[i + 1].split('=')
            inputs.append((n, [int(x) for x in v.split(',') if x]))
            i += 2
        elif a[i] == '--set':
            settings = tuple(int(x) for x in a[i + 1:i + 5])
            i += 5
        else:
            segs.append(a[i])
            i += 1
    print(line(cid, machine, src, inputs, settings, segs or ['run']))
