(** C11 (closure), part 6: slicing ([getitem_model]) produces valid layouts from valid layouts, on the fragment
    "no string nodes, option-type nodes not nested inside option-type nodes" (the model omits simplify_optiontype).
    All item kinds: integer, range, ellipsis, newaxis, integer array (plain and advanced), field, fields. *)
From Coq Require Import ZArith List Bool Lia ZifyBool.
From AwkV Require Import Base Layout LayoutInd Valid Types AtAxis Carry Ops_Struct Ops_Getitem
                         Typing Proofs_Typing Proofs_C11 Proofs_Lists Proofs_ToList Proofs_Carry Proofs_CarryValid
                         Proofs_AtAxis Proofs_AtAxisOps Proofs_Closure Proofs_Closure2.
Import ListNotations.
Open Scope Z_scope.

(* ---------------------------------------------------------------- structural predicates "every node is of an allowed kind" *)
Inductive kind := KLeaf | KList | KIndexed | KOption | KUnion | KRecord | KPar (a : option akind).
Definition kind_of (c : content) : kind :=
  match c with
  | Numpy _ _ _ | Empty => KLeaf
  | ListOffset _ _ _ | ListA _ _ _ _ | Regular _ _ _ => KList
  | Indexed _ _ _ => KIndexed
  | IndexedOption _ _ _ | ByteMasked _ _ _ | BitMasked _ _ _ _ _ | Unmasked _ => KOption
  | Union _ _ _ _ => KUnion
  | Record _ _ _ => KRecord
  | Par a _ _ => KPar a
  end.
Fixpoint allnodes (T : kind -> bool) (c : content) : bool :=
  T (kind_of c) &&
  match c with
  | Numpy _ _ _ | Empty => true
  | ListOffset _ _ c' | ListA _ _ _ c' | Regular c' _ _ | Indexed _ _ c' | IndexedOption _ _ c'
  | ByteMasked _ _ c' | BitMasked _ _ _ _ c' | Unmasked c' | Par _ _ c' => allnodes T c'
  | Union _ _ _ cs | Record cs _ _ =>
      (fix all (l : list content) : bool := match l with [] => true | x :: xs => allnodes T x && all xs end) cs
  end.
Lemma allnodes_all T cs :
  (fix all (l : list content) : bool := match l with [] => true | x :: xs => allnodes T x && all xs end) cs = forallb (allnodes T) cs.
Proof. induction cs as [|x xs IH]; [reflexivity|]. cbn [forallb]. rewrite <- IH. reflexivity. Qed.

Definition Tstr (k : kind) : bool := match k with KPar (Some _) => false | _ => true end.
Definition Topt (k : kind) : bool := match k with KIndexed | KOption => false | _ => true end.
Definition nostr : content -> bool := allnodes Tstr.
Definition nopt : content -> bool := allnodes Topt.

Lemma carry_kind c ix c' : carry c ix = Ok c' -> kind_of c' = kind_of c.
Proof.
  destruct c; cbn [carry]; intros H.
  - destruct shape; [discriminate|]. apply bind_Ok in H as (? & _ & H). inversion H. reflexivity.
  - destruct ix; [|discriminate]. inversion H. reflexivity.
  - apply bind_Ok in H as (? & _ & H). apply bind_Ok in H as (? & _ & H). inversion H. reflexivity.
  - apply bind_Ok in H as (? & _ & H). apply bind_Ok in H as (? & _ & H). inversion H. reflexivity.
  - apply bind_Ok in H as (? & _ & H). apply bind_Ok in H as (? & _ & H). inversion H. reflexivity.
  - apply bind_Ok in H as (? & _ & H). inversion H. reflexivity.
  - apply bind_Ok in H as (? & _ & H). inversion H. reflexivity.
  - apply bind_Ok in H as (? & _ & H). apply bind_Ok in H as (? & _ & H). inversion H. reflexivity.
  - apply bind_Ok in H as (? & _ & H). apply bind_Ok in H as (? & _ & H). apply bind_Ok in H as (? & _ & H). inversion H. reflexivity.
  - apply bind_Ok in H as (? & _ & H). inversion H. reflexivity.
  - apply bind_Ok in H as (? & _ & H). apply bind_Ok in H as (? & _ & H). inversion H. reflexivity.
  - destruct (forallb _ ix); [|discriminate]. apply bind_Ok in H as (? & _ & H). inversion H. reflexivity.
  - apply bind_Ok in H as (? & _ & H). inversion H. reflexivity.
Qed.

Lemma forallb_mapM_pres (P : content -> bool) (F : content -> res content) cs cs' :
  mapM F cs = Ok cs' -> (forall x y, In x cs -> F x = Ok y -> P y = P x) -> forallb P cs' = forallb P cs.
Proof.
  revert cs'. induction cs as [|x xs IH]; intros cs' H HP; cbn [mapM] in H.
  - inversion H. reflexivity.
  - apply bind_Ok in H as (y & Hy & H). apply bind_Ok in H as (ys & Hys & H). inversion H; subst. cbn [forallb].
    rewrite (HP x y (or_introl eq_refl) Hy), (IH ys Hys); [reflexivity|]. intros x0 y0 Hx0. apply HP. right. exact Hx0.
Qed.

Lemma carry_allnodes T c : forall ix c', carry c ix = Ok c' -> allnodes T c' = allnodes T c.
Proof.
  induction c as [dt shape data| |w o c IHc|w s e c IHc|c size zl IHc|w ix0 c IHc|w ix0 c IHc|m vw c IHc
                 |m vw lsb n c IHc|c IHc|w t ix0 cs IHcs|cs ks n IHcs|arr rn c IHc] using content_ind';
    intros ix c' H; pose proof (carry_kind _ _ _ H) as Hk; try rewrite carry_Record in H; cbn [carry] in H.
  - destruct shape as [|n dims]; [discriminate|]. apply bind_Ok in H as (rows & _ & H). inversion H. reflexivity.
  - destruct ix; [|discriminate]. inversion H. reflexivity.
  - apply bind_Ok in H as (s & _ & H). apply bind_Ok in H as (e & _ & H). inversion H. reflexivity.
  - apply bind_Ok in H as (s' & _ & H). apply bind_Ok in H as (e' & _ & H). inversion H. reflexivity.
  - apply bind_Ok in H as (nx & _ & H). apply bind_Ok in H as (c'' & Hc & H). inversion H; subst. cbn [allnodes kind_of]. rewrite (IHc _ _ Hc). reflexivity.
  - apply bind_Ok in H as (j & _ & H). inversion H. reflexivity.
  - apply bind_Ok in H as (j & _ & H). inversion H. reflexivity.
  - apply bind_Ok in H as (m' & _ & H). apply bind_Ok in H as (c'' & Hc & H). inversion H; subst. cbn [allnodes kind_of]. rewrite (IHc _ _ Hc). reflexivity.
  - apply bind_Ok in H as (bm & _ & H). apply bind_Ok in H as (m' & _ & H).
    apply bind_Ok in H as (c'' & Hc & H). inversion H; subst. cbn [allnodes kind_of]. rewrite (IHc _ _ Hc). reflexivity.
  - apply bind_Ok in H as (c'' & Hc & H). inversion H; subst. cbn [allnodes kind_of]. rewrite (IHc _ _ Hc). reflexivity.
  - apply bind_Ok in H as (t' & _ & H). apply bind_Ok in H as (j & _ & H). inversion H. reflexivity.
  - destruct (forallb _ ix); [|discriminate]. apply bind_Ok in H as (cs' & Hcs & H). inversion H; subst. cbn [allnodes kind_of].
    rewrite !allnodes_all. f_equal. eapply forallb_mapM_pres; [exact Hcs|]. intros x y Hx Hy. rewrite Forall_forall in IHcs. exact (IHcs x Hx ix y Hy).
  - apply bind_Ok in H as (c'' & Hc & H). inversion H; subst. cbn [allnodes kind_of]. rewrite (IHc _ _ Hc). reflexivity.
Qed.

Lemma chars_ok_fields cs :
  Forall (fun x => allnodes Tstr x = true -> chars_ok x = true) cs -> forallb (allnodes Tstr) cs = true ->
  (fix all (l : list content) : bool := match l with [] => true | x :: xs => chars_ok x && all xs end) cs = true.
Proof.
  induction 1 as [|x xs Hx _ IH]; [reflexivity|]. cbn [forallb]. intros Hn. apply andb_true_iff in Hn as [H1 H2].
  rewrite (Hx H1), (IH H2). reflexivity.
Qed.
Lemma nostr_chars_ok c : nostr c = true -> chars_ok c = true.
Proof.
  unfold nostr. induction c as [dt shape data| |w o c IHc|w s e c IHc|c size zl IHc|w ix0 c IHc|w ix0 c IHc|m vw c IHc
                 |m vw lsb n c IHc|c IHc|w t ix0 cs IHcs|cs ks n IHcs|arr rn c IHc] using content_ind';
    cbn [allnodes chars_ok kind_of]; intros Hn; try reflexivity; apply andb_true_iff in Hn as [Hk Hn]; auto.
  - rewrite allnodes_all in Hn. apply chars_ok_fields; assumption.
  - rewrite allnodes_all in Hn. apply chars_ok_fields; assumption.
  - destruct arr as [a|]; [discriminate|]. rewrite IHc by exact Hn. reflexivity.
Qed.

(* ---------------------------------------------------------------- the fragment *)
(* option-type / indexed nodes are not nested: below such a node there is no option-type / indexed node *)
Fixpoint gi_frag (c : content) : bool :=
  match c with
  | Numpy _ _ _ | Empty => true
  | ListOffset _ _ c' | ListA _ _ _ c' | Regular c' _ _ | Par _ _ c' => gi_frag c'
  | Indexed _ _ c' | IndexedOption _ _ c' | ByteMasked _ _ c' | BitMasked _ _ _ _ c' | Unmasked c' => nopt c'
  | Union _ _ _ cs | Record cs _ _ =>
      (fix all (l : list content) : bool := match l with [] => true | x :: xs => gi_frag x && all xs end) cs
  end.
Lemma gi_frag_all cs :
  (fix all (l : list content) : bool := match l with [] => true | x :: xs => gi_frag x && all xs end) cs = forallb gi_frag cs.
Proof. induction cs as [|x xs IH]; [reflexivity|]. cbn [forallb]. rewrite <- IH. reflexivity. Qed.

Lemma carry_gi_frag c : forall ix c', carry c ix = Ok c' -> gi_frag c' = gi_frag c.
Proof.
  induction c as [dt shape data| |w o c IHc|w s e c IHc|c size zl IHc|w ix0 c IHc|w ix0 c IHc|m vw c IHc
                 |m vw lsb n c IHc|c IHc|w t ix0 cs IHcs|cs ks n IHcs|arr rn c IHc] using content_ind';
    intros ix c' H; try rewrite carry_Record in H; cbn [carry] in H.
  - destruct shape as [|n dims]; [discriminate|]. apply bind_Ok in H as (rows & _ & H). inversion H. reflexivity.
  - destruct ix; [|discriminate]. inversion H. reflexivity.
  - apply bind_Ok in H as (s & _ & H). apply bind_Ok in H as (e & _ & H). inversion H. reflexivity.
  - apply bind_Ok in H as (s' & _ & H). apply bind_Ok in H as (e' & _ & H). inversion H. reflexivity.
  - apply bind_Ok in H as (nx & _ & H). apply bind_Ok in H as (c'' & Hc & H). inversion H; subst. cbn [gi_frag]. apply (IHc _ _ Hc).
  - apply bind_Ok in H as (j & _ & H). inversion H. reflexivity.
  - apply bind_Ok in H as (j & _ & H). inversion H. reflexivity.
  - apply bind_Ok in H as (m' & _ & H). apply bind_Ok in H as (c'' & Hc & H). inversion H; subst. cbn [gi_frag]. apply (carry_allnodes _ _ _ _ Hc).
  - apply bind_Ok in H as (bm & _ & H). apply bind_Ok in H as (m' & _ & H).
    apply bind_Ok in H as (c'' & Hc & H). inversion H; subst. cbn [gi_frag]. apply (carry_allnodes _ _ _ _ Hc).
  - apply bind_Ok in H as (c'' & Hc & H). inversion H; subst. cbn [gi_frag]. apply (carry_allnodes _ _ _ _ Hc).
  - apply bind_Ok in H as (t' & _ & H). apply bind_Ok in H as (j & _ & H). inversion H. reflexivity.
  - destruct (forallb _ ix); [|discriminate]. apply bind_Ok in H as (cs' & Hcs & H). inversion H; subst. cbn [gi_frag].
    rewrite !gi_frag_all. eapply forallb_mapM_pres; [exact Hcs|]. intros x y Hx Hy. rewrite Forall_forall in IHcs. exact (IHcs x Hx ix y Hy).
  - apply bind_Ok in H as (c'' & Hc & H). inversion H; subst. cbn [gi_frag]. apply (IHc _ _ Hc).
Qed.

Lemma nopt_gi_frag c : nopt c = true -> gi_frag c = true.
Proof.
  unfold nopt. induction c as [dt shape data| |w o c IHc|w s e c IHc|c size zl IHc|w ix0 c IHc|w ix0 c IHc|m vw c IHc
                 |m vw lsb n c IHc|c IHc|w t ix0 cs IHcs|cs ks n IHcs|arr rn c IHc] using content_ind';
    cbn [allnodes gi_frag kind_of]; intros Hn; try reflexivity; apply andb_true_iff in Hn as [Hk Hn]; auto; try discriminate.
  - rewrite allnodes_all in Hn. rewrite gi_frag_all. rewrite forallb_forall in Hn |- *. rewrite Forall_forall in IHcs. auto.
  - rewrite allnodes_all in Hn. rewrite gi_frag_all. rewrite forallb_forall in Hn |- *. rewrite Forall_forall in IHcs. auto.
Qed.
Lemma nopt_not_optionlike c : nopt c = true -> optionlike c = false.
Proof.
  unfold nopt, optionlike. induction c; cbn [allnodes kind_of strip]; intros Hn; try reflexivity;
    apply andb_true_iff in Hn as [Hk Hn]; try discriminate. auto.
Qed.

(* ---------------------------------------------------------------- a successful carry has in-range indices *)
Lemma carry_in_range c : forall ix c', carry c ix = Ok c' -> Forall (fun i => 0 <= i < clen c) ix.
Proof.
  induction c as [dt shape data| |w o c IHc|w s e c IHc|c size zl IHc|w ix0 c IHc|w ix0 c IHc|m vw c IHc
                 |m vw lsb n c IHc|c IHc|w t ix0 cs IHcs|cs ks n IHcs|arr rn c IHc] using content_ind';
    intros ix c' H; try rewrite carry_Record in H; cbn [carry] in H; cbn [clen]; unfold gather in H.
  - destruct shape as [|n dims]; [discriminate|]. apply bind_Ok in H as (rows & Hr & _).
    apply Forall_forall. intros i Hi. destruct (mapM_Ok_In _ _ _ _ Hr Hi) as (row & Hrow & _).
    destruct ((0 <=? i) && (i <? n)) eqn:E; [lia|discriminate].
  - destruct ix; [constructor|discriminate].
  - apply bind_Ok in H as (s & Hs & _). apply gather_range_inv in Hs. destruct o as [|a o']; [|rewrite zlen_removelast in Hs by discriminate; exact Hs].
    eapply Forall_impl; [|exact Hs]. cbv beta. cbn [removelast]. change (zlen (@nil Z)) with 0. intros i Hi. lia.
  - apply bind_Ok in H as (s' & Hs & _). apply gather_range_inv in Hs. exact Hs.
  - apply bind_Ok in H as (nx & Hnx & _). apply Forall_forall. intros i Hi. destruct (mapM_Ok_In _ _ _ _ Hnx Hi) as (r & Hr & _).
    destruct ((0 <=? i) && (i <? (if size =? 0 then zl else clen c / size))) eqn:E; [lia|discriminate].
  - apply bind_Ok in H as (j & Hj & _). apply gather_range_inv in Hj. exact Hj.
  - apply bind_Ok in H as (j & Hj & _). apply gather_range_inv in Hj. exact Hj.
  - apply bind_Ok in H as (m' & Hm & _). apply gather_range_inv in Hm. exact Hm.
  - apply bind_Ok in H as (bm & Hbm & H). apply bind_Ok in H as (m' & Hm & _). apply gather_range_inv in Hm.
    unfold bytemask_of_bits in Hbm. rewrite (mapM_zlen _ _ _ Hbm), zlen_iota_max in Hm.
    eapply Forall_impl; [|exact Hm]. cbv beta. intros i Hi. lia.
  - apply bind_Ok in H as (c'' & Hc & _). apply (IHc _ _ Hc).
  - apply bind_Ok in H as (t' & Ht & _). apply gather_range_inv in Ht. exact Ht.
  - destruct (forallb _ ix) eqn:E; [|discriminate]. rewrite forallb_forall in E. apply Forall_forall. intros i Hi. specialize (E i Hi). lia.
  - apply bind_Ok in H as (c'' & Hc & _). apply (IHc _ _ Hc).
Qed.

(* ---------------------------------------------------------------- "good" layouts and what carry does to them *)
Definition good (c : content) : Prop := Valid None c /\ nostr c = true /\ gi_frag c = true.

Lemma good_value c : good c -> exists vs, to_list c = Ok vs.
Proof. intros (HV & Hs & _). apply (valid_to_list_total_partial c None HV (nostr_chars_ok c Hs)). Qed.
Lemma good_clen c : good c -> 0 <= clen c.
Proof. intros Hg. destruct (good_value c Hg) as [vs Hl]. rewrite <- (to_list_len _ _ Hl). apply zlen_nonneg. Qed.
Lemma carry_good c ix c' : good c -> carry c ix = Ok c' -> good c' /\ clen c' = zlen ix /\ nopt c' = nopt c.
Proof.
  intros Hg H. destruct (good_value c Hg) as [vs Hl]. destruct Hg as (HV & Hs & Hf).
  pose proof (carry_in_range _ _ _ H) as Hix.
  destruct (carry_spec c vs ix HV Hl Hix) as (c3 & Hc3 & _ & Hn3). rewrite H in Hc3. inversion Hc3; subst c3.
  split; [split; [eapply carry_valid; eassumption|split]|split; [exact Hn3|apply (carry_allnodes _ _ _ _ H)]].
  - unfold nostr. rewrite (carry_allnodes _ _ _ _ H). exact Hs.
  - rewrite (carry_gi_frag _ _ _ H). exact Hf.
Qed.

(* ---------------------------------------------------------------- field / fields projections *)
Lemma field_content_allnodes T k c : forall c', field_content k c = Ok c' -> allnodes T c = true -> allnodes T c' = true.
Proof.
  induction c as [dt shape data| |w o c IHc|w s e c IHc|c size zl IHc|w ix0 c IHc|w ix0 c IHc|m vw c IHc
                 |m vw lsb n c IHc|c IHc|w t ix0 cs IHcs|cs ks n IHcs|arr rn c IHc] using content_ind';
    intros c' H Hn; cbn [field_content] in H; try discriminate; cbn [allnodes kind_of] in Hn; apply andb_true_iff in Hn as [Hk Hn];
    try (apply rmap_Ok in H as (c'' & Hc'' & ->); cbn [allnodes kind_of]; rewrite Hk, (IHc _ Hc'' Hn); reflexivity).
  - apply bind_Ok in H as (i & _ & H). apply bind_Ok in H as (f & Hf & H). unfold crange in H.
    rewrite (carry_allnodes _ _ _ _ H). rewrite allnodes_all, forallb_forall in Hn. apply Hn. eapply get_In, Hf.
  - destruct arr; [discriminate|]. apply (IHc _ H Hn).
Qed.
Lemma fields_content_allnodes T ks0 c : forall c', fields_content ks0 c = Ok c' -> allnodes T c = true -> allnodes T c' = true.
Proof.
  induction c as [dt shape data| |w o c IHc|w s e c IHc|c size zl IHc|w ix0 c IHc|w ix0 c IHc|m vw c IHc
                 |m vw lsb n c IHc|c IHc|w t ix0 cs IHcs|cs ks n IHcs|arr rn c IHc] using content_ind';
    intros c' H Hn; cbn [fields_content] in H; try discriminate; cbn [allnodes kind_of] in Hn; apply andb_true_iff in Hn as [Hk Hn];
    try (apply rmap_Ok in H as (c'' & Hc'' & ->); cbn [allnodes kind_of]; rewrite Hk, (IHc _ Hc'' Hn); reflexivity).
  - apply bind_Ok in H as (fs & Hfs & H). inversion H; subst. cbn [allnodes kind_of]. rewrite Hk, allnodes_all. cbn [andb].
    rewrite allnodes_all, forallb_forall in Hn. apply forallb_forall. intros f Hf.
    destruct (mapM_In_inv _ _ _ _ Hfs Hf) as (k & _ & Hk'). apply bind_Ok in Hk' as (i & _ & Hi). apply Hn. eapply get_In, Hi.
  - destruct arr; [discriminate|]. apply (IHc _ H Hn).
Qed.
Lemma field_content_gi k c : forall c', field_content k c = Ok c' -> gi_frag c = true -> gi_frag c' = true.
Proof.
  induction c as [dt shape data| |w o c IHc|w s e c IHc|c size zl IHc|w ix0 c IHc|w ix0 c IHc|m vw c IHc
                 |m vw lsb n c IHc|c IHc|w t ix0 cs IHcs|cs ks n IHcs|arr rn c IHc] using content_ind';
    intros c' H Hn; cbn [field_content] in H; try discriminate; cbn [gi_frag] in Hn;
    try (apply rmap_Ok in H as (c'' & Hc'' & ->); cbn [gi_frag]; first [apply (IHc _ Hc'' Hn)|apply (field_content_allnodes _ _ _ _ Hc'' Hn)]).
  - apply bind_Ok in H as (i & _ & H). apply bind_Ok in H as (f & Hf & H). unfold crange in H.
    rewrite (carry_gi_frag _ _ _ H). rewrite gi_frag_all, forallb_forall in Hn. apply Hn. eapply get_In, Hf.
  - destruct arr; [discriminate|]. apply (IHc _ H Hn).
Qed.
Lemma fields_content_gi ks0 c : forall c', fields_content ks0 c = Ok c' -> gi_frag c = true -> gi_frag c' = true.
Proof.
  induction c as [dt shape data| |w o c IHc|w s e c IHc|c size zl IHc|w ix0 c IHc|w ix0 c IHc|m vw c IHc
                 |m vw lsb n c IHc|c IHc|w t ix0 cs IHcs|cs ks n IHcs|arr rn c IHc] using content_ind';
    intros c' H Hn; cbn [fields_content] in H; try discriminate; cbn [gi_frag] in Hn;
    try (apply rmap_Ok in H as (c'' & Hc'' & ->); cbn [gi_frag]; first [apply (IHc _ Hc'' Hn)|apply (fields_content_allnodes _ _ _ _ Hc'' Hn)]).
  - apply bind_Ok in H as (fs & Hfs & H). inversion H; subst. cbn [gi_frag]. rewrite gi_frag_all.
    rewrite gi_frag_all, forallb_forall in Hn. apply forallb_forall. intros f Hf.
    destruct (mapM_In_inv _ _ _ _ Hfs Hf) as (k & _ & Hk'). apply bind_Ok in Hk' as (i & _ & Hi). apply Hn. eapply get_In, Hi.
  - destruct arr; [discriminate|]. apply (IHc _ H Hn).
Qed.

Lemma gi_fc_frag k c : forall u, gi_frag c = true -> (u = true -> nopt c = true) -> fc_frag k u c = true.
Proof.
  induction c as [dt shape data| |w o c IHc|w s e c IHc|c size zl IHc|w ix0 c IHc|w ix0 c IHc|m vw c IHc
                 |m vw lsb n c IHc|c IHc|w t ix0 cs IHcs|cs ks n IHcs|arr rn c IHc] using content_ind';
    intros u Hf Hu; cbn [fc_frag]; try reflexivity; cbn [gi_frag] in Hf;
    try (apply IHc; [exact Hf|discriminate]);
    try (apply IHc; [apply nopt_gi_frag, Hf|intros _; exact Hf]).
  - destruct (field_pos ks (zlen cs) k) as [i|]; [|reflexivity]. destruct (get cs i) as [f|] eqn:Ef; [|reflexivity].
    destruct u; [|reflexivity]. specialize (Hu eq_refl). unfold nopt in Hu. cbn [allnodes kind_of] in Hu.
    apply andb_true_iff in Hu as [_ Hu]. rewrite allnodes_all, forallb_forall in Hu.
    rewrite (nopt_not_optionlike f); [reflexivity|]. apply Hu. eapply get_In, Ef.
  - destruct arr; [reflexivity|]. apply IHc; [exact Hf|]. intros Hu'. specialize (Hu Hu'). unfold nopt in *. cbn [allnodes kind_of] in Hu.
    apply andb_true_iff in Hu as [_ Hu]. exact Hu.
Qed.

Lemma fields_content_valid_all ks0 c : forall c',
  Valid None c -> fields_content ks0 c = Ok c' ->
  Valid None c' /\ clen c' = clen c /\ (optionlike c = false -> optionlike c' = false).
Proof.
  induction c as [dt shape data| |w o c IHc|w s e c IHc|c size zl IHc|w ix c IHc|w ix c IHc|m vw c IHc
                 |m vw lsb n c IHc|c IHc|w t ix cs IHcs|cs ks n IHcs|arr rn c IHc] using content_ind';
    intros c' HV H; cbn [fields_content] in H; try discriminate; inversion HV; subst.
  - apply rmap_Ok in H as (c'' & Hc'' & ->).
    match goal with Hs : _ -> Valid None c |- _ => specialize (Hs eq_refl) as HVc end.
    destruct (IHc _ HVc Hc'') as (X1 & X2 & _). split; [|split; reflexivity].
    constructor; [exact I|assumption|rewrite X2; assumption|intros _; exact X1].
  - apply rmap_Ok in H as (c'' & Hc'' & ->).
    match goal with Hs : _ -> Valid None c |- _ => specialize (Hs eq_refl) as HVc end.
    destruct (IHc _ HVc Hc'') as (X1 & X2 & _). split; [|split; reflexivity].
    constructor; [exact I|assumption|rewrite X2; assumption|intros _; exact X1].
  - apply rmap_Ok in H as (c'' & Hc'' & ->).
    match goal with Hs : _ -> Valid None c |- _ => specialize (Hs eq_refl) as HVc end.
    destruct (IHc _ HVc Hc'') as (X1 & X2 & _). split; [|split; [cbn [clen]; rewrite X2; reflexivity|reflexivity]].
    constructor; [exact I|assumption|assumption|intros _; exact X1].
  - apply rmap_Ok in H as (c'' & Hc'' & ->).
    match goal with HVc : Valid None c |- _ => destruct (IHc _ HVc Hc'') as (X1 & X2 & X3) end.
    split; [|split; [reflexivity|discriminate]]. constructor; [exact I|rewrite X2; assumption|auto|exact X1].
  - apply rmap_Ok in H as (c'' & Hc'' & ->).
    match goal with HVc : Valid None c |- _ => destruct (IHc _ HVc Hc'') as (X1 & X2 & X3) end.
    split; [|split; [reflexivity|discriminate]]. constructor; [exact I|rewrite X2; assumption|auto|exact X1].
  - apply rmap_Ok in H as (c'' & Hc'' & ->).
    match goal with HVc : Valid None c |- _ => destruct (IHc _ HVc Hc'') as (X1 & X2 & X3) end.
    split; [|split; [reflexivity|discriminate]]. constructor; [exact I|rewrite X2; assumption|auto|exact X1].
  - apply rmap_Ok in H as (c'' & Hc'' & ->).
    match goal with HVc : Valid None c |- _ => destruct (IHc _ HVc Hc'') as (X1 & X2 & X3) end.
    split; [|split; [reflexivity|discriminate]]. constructor; [exact I|assumption|assumption|rewrite X2; assumption|auto|exact X1].
  - apply rmap_Ok in H as (c'' & Hc'' & ->).
    match goal with HVc : Valid None c |- _ => destruct (IHc _ HVc Hc'') as (X1 & X2 & X3) end.
    split; [|split; [cbn [clen]; exact X2|discriminate]]. constructor; [exact I|auto|exact X1].
  - apply bind_Ok in H as (fs & Hfs & H). inversion H; subst.
    match goal with HVs : Forall (Valid None) cs, Hn : Forall (fun x => n <= clen x) cs |- _ => rewrite Forall_forall in HVs, Hn; rename HVs into HVs0; rename Hn into Hn0 end.
    assert (Hin : forall f, In f fs -> In f cs).
    { intros f Hf. destruct (mapM_In_inv _ _ _ _ Hfs Hf) as (k & _ & Hk'). apply bind_Ok in Hk' as (i & _ & Hi). eapply get_In, Hi. }
    split; [|split; reflexivity].
    constructor; [exact I|assumption| | |].
    + apply Forall_forall. intros f Hf. apply Hn0, Hin, Hf.
    + intros k Hk. destruct ks; inversion Hk; subst. symmetry. apply (mapM_length _ _ _ Hfs).
    + apply Forall_forall. intros f Hf. apply HVs0, Hin, Hf.
  - destruct arr; [discriminate|].
    match goal with HVc : Valid None c |- _ => destruct (IHc _ HVc H) as (X1 & X2 & X3) end.
    split; [exact X1|]. split; [exact X2|]. rewrite optionlike_Par. exact X3.
Qed.

Definition is_nd_sh (sh : list Z) : bool := match sh with _ :: _ :: _ => true | _ => false end.
(* ---------------------------------------------------------------- characterising equations of [gn] *)
(* (the first group is stated as in Proofs_Getitem.v; repeated here so that this file depends on model files only) *)
Definition positional (it : item) : bool :=
  match it with IAt _ | IRange _ _ _ | IArray _ => true | _ => false end.
Definition lnode (c : content) : bool :=
  match c with ListOffset _ _ _ | ListA _ _ _ _ | Regular _ _ _ => true | _ => false end.
Definition rsize (c : content) : option Z := match c with Regular _ size _ => Some size | _ => None end.
Definition szchk (sz : option Z) (i : Z) : res unit :=
  match sz with Some n => rmap (fun _ => tt) (wrap_at n i) | None => Ok tt end.
Definition adv_range (adv : option (list Z)) (counts : list Z) : option (list Z) :=
  match adv with
  | None => None
  | Some av => Some (concat (map (fun ac : Z * Z => repeat (fst ac) (Z.to_nat (snd ac))) (zip av counts)))
  end.
Lemma gn_0 c items adv : gn 0 c items adv = Err EFuel.
Proof. reflexivity. Qed.
Lemma gn_nil f c adv : gn (S f) c [] adv = Ok c.
Proof. reflexivity. Qed.
Lemma gn_list_IAt f c i tail adv : lnode c = true ->
  gn (S f) c (IAt i :: tail) adv =
  do bc <- list_bounds c;
  do _ <- szchk (rsize c) i;
  do nextcarry <- mapM (fun ab : Z * Z => do j <- wrap_at (snd ab - fst ab) i; Ok (fst ab + j)) (fst bc);
  do nc <- carry (snd bc) nextcarry;
  gn f nc tail adv.
Proof. destruct c; try discriminate; intros _; reflexivity. Qed.
Lemma gn_list_IRange f c s e st tail adv : lnode c = true ->
  gn (S f) c (IRange s e st :: tail) adv =
  do bc <- list_bounds c;
  let step := stepof st in
  if step =? 0 then Err EValue else
  let picked := map (fun ab : Z * Z => map (fun j => fst ab + j) (py_indices (snd ab - fst ab) s e step)) (fst bc) in
  let counts := map zlen picked in
  do nc <- carry (snd bc) (concat picked);
  do r <- gn f nc tail (adv_range adv counts);
  Ok (ListOffset I64 (offsets_from 0 counts) r).
Proof. destruct c; try discriminate; intros _; reflexivity. Qed.
Lemma gn_INewAxis f c tail adv :
  match c with Numpy _ (_ :: _ :: _) _ => False | _ => True end ->
  gn (S f) c (INewAxis :: tail) adv = do r <- gn f c tail adv; Ok (Regular r 1 (clen r)).
Proof. destruct c as [dt [|n [|m sh]] data| | | | | | | | | | | |]; try contradiction; intros _; reflexivity. Qed.
Lemma gn_IEllipsis f c tail adv :
  match c with Numpy _ (_ :: _ :: _) _ => False | _ => True end ->
  gn (S f) c (IEllipsis :: tail) adv =
  let (mn, mx) := minmax (type_of c) in
  let d := dim_items tail in
  match tail with
  | [] => Ok c
  | _ =>
      if (mn - 1 =? d) && (mx - 1 =? d) then gn f c tail adv
      else if (mn - 1 =? d) || (mx - 1 =? d) then Err EValue
      else gn f c (IRange None None (Some 1) :: IEllipsis :: tail) adv
  end.
Proof. destruct c as [dt [|n [|m sh]] data| | | | | | | | | | | |]; try contradiction; intros _; reflexivity. Qed.
Lemma gn_numpy1 f dt sh data head tail adv :
  positional head = true -> is_nd_sh sh = false ->
  gn (S f) (Numpy dt sh data) (head :: tail) adv = Err EValue.
Proof. destruct head; try discriminate; intros _; destruct sh as [|n [|m sh]]; try discriminate; intros _; reflexivity. Qed.
Lemma gn_empty f head tail adv :
  positional head = true ->
  gn (S f) Empty (head :: tail) adv = Err EValue.
Proof. destruct head; try discriminate; intros _; reflexivity. Qed.
Lemma gn_Indexed f w ix c head tail adv :
  positional head = true ->
  gn (S f) (Indexed w ix c) (head :: tail) adv = do p <- carry c ix; gn f p (head :: tail) adv.
Proof. destruct head; try discriminate; intros _; reflexivity. Qed.
Lemma gn_Par f a rn c head tail adv :
  positional head = true ->
  gn (S f) (Par a rn c) (head :: tail) adv =
  do r <- gn f c (head :: tail) adv;
  match head, tail, strflag a with
  | (IRange _ _ _ | IArray _), [], Some _ => Ok (Par a rn r)
  | _, _, _ => Ok r
  end.
Proof. destruct head; try discriminate; intros _; reflexivity. Qed.
Definition is_opt (c : content) : bool :=
  match c with IndexedOption _ _ _ | ByteMasked _ _ _ | BitMasked _ _ _ _ _ | Unmasked _ => true | _ => false end.
Definition opt_content (c : content) : content :=
  match c with
  | IndexedOption _ _ c' | ByteMasked _ _ c' | BitMasked _ _ _ _ c' | Unmasked c' => c'
  | _ => c
  end.
Fixpoint outindex (ix : list Z) (n : Z) : list Z :=
  match ix with
  | [] => []
  | i :: rest => if 0 <=? i then n :: outindex rest (n + 1) else -1 :: outindex rest n
  end.
Definition adv_present (adv : option (list Z)) (ix : list Z) : option (list Z) :=
  match adv with
  | None => None
  | Some av => Some (flat_map (fun ia : Z * Z => if 0 <=? fst ia then [snd ia] else []) (zip ix av))
  end.
Lemma gn_option f c head tail adv :
  positional head = true -> is_opt c = true ->
  gn (S f) c (head :: tail) adv =
  do oi <- option_index c;
  let ix := fst oi in
  do p <- carry (opt_content c) (filter (fun i => 0 <=? i) ix);
  do r <- gn f p (head :: tail) (adv_present adv ix);
  Ok (IndexedOption I64 (outindex ix 0) r).
Proof. destruct head; try discriminate; destruct c; try discriminate; intros _ _; reflexivity. Qed.

Definition is_nd (c : content) : bool := match c with Numpy _ (_ :: _ :: _) _ => true | _ => false end.
Lemma nd_not c : is_nd c = false -> match c with Numpy _ (_ :: _ :: _) _ => False | _ => True end.
Proof. destruct c as [dt [|n [|m sh]] data| | | | | | | | | | | |]; try discriminate; intros _; exact I. Qed.
Lemma gn_nd f c head tail adv : is_nd c = true -> gn (S f) c (head :: tail) adv = gn f (expand c) (head :: tail) adv.
Proof. destruct c as [dt [|n [|m sh]] data| | | | | | | | | | | |]; try discriminate; intros _; destruct head; reflexivity. Qed.
Lemma gn_IField f c k tail adv : is_nd c = false ->
  gn (S f) c (IField k :: tail) adv = do f0 <- field_content k c; gn f f0 tail adv.
Proof. destruct c as [dt [|n [|m sh]] data| | | | | | | | | | | |]; try discriminate; intros _; reflexivity. Qed.
Lemma gn_IFields f c ks tail adv : is_nd c = false ->
  gn (S f) c (IFields ks :: tail) adv = do f0 <- fields_content ks c; gn f f0 tail adv.
Proof. destruct c as [dt [|n [|m sh]] data| | | | | | | | | | | |]; try discriminate; intros _; reflexivity. Qed.
Lemma gn_Record_pos f cs keys n head tail adv : positional head = true ->
  gn (S f) (Record cs keys n) (head :: tail) adv =
  do cs' <- mapM (fun fld => do ft <- crange fld 0 n; gn f ft [head] adv) cs; gn f (Record cs' keys n) tail adv.
Proof. destruct head; try discriminate; intros _; reflexivity. Qed.
Lemma gn_Union_pos f w t ix cs head tail adv : positional head = true ->
  gn (S f) (Union w t ix cs) (head :: tail) adv = Err EFuel.
Proof. destruct head; try discriminate; intros _; reflexivity. Qed.
Lemma gn_list_IArray f c ix tail adv : lnode c = true ->
  gn (S f) c (IArray ix :: tail) adv =
  do bc <- list_bounds c;
  do _ <- (match rsize c with Some n => rmap (fun _ => tt) (mapM (wrap_at n) ix) | None => Ok tt end);
  match adv with
  | None =>
      do picked <- mapM (fun ab : Z * Z => mapM (fun i => do j <- wrap_at (snd ab - fst ab) i; Ok (fst ab + j)) ix) (fst bc);
      do nc <- carry (snd bc) (concat picked);
      do r <- gn f nc tail (Some (concat (map (fun _ => iota (zlen ix)) (fst bc))));
      Ok (Regular r (zlen ix) (zlen (fst bc)))
  | Some av =>
      if negb (zlen av =? zlen (fst bc)) then Err EOob else
      do nextcarry <- mapM (fun aba : (Z * Z) * Z =>
                              let ab := fst aba in
                              do i <- get ix (snd aba);
                              do j <- wrap_at (snd ab - fst ab) i; Ok (fst ab + j)) (zip (fst bc) av);
      do nc <- carry (snd bc) nextcarry;
      gn f nc tail (Some av)
  end.
Proof. destruct c; try discriminate; intros _; reflexivity. Qed.

Lemma outindex_spec ix : forall n, 0 <= n ->
  Forall (fun i => i < n + zlen (filter (fun i => 0 <=? i) ix)) (outindex ix n) /\ zlen (outindex ix n) = zlen ix.
Proof.
  induction ix as [|i ix IH]; intros n Hn; cbn [outindex filter].
  - split; [constructor|reflexivity].
  - destruct (0 <=? i) eqn:E.
    + destruct (IH (n + 1)) as [A B]; [lia|]. rewrite !zlen_cons. pose proof (zlen_nonneg (filter (fun i => 0 <=? i) ix)). split; [|lia].
      constructor; [lia|]. eapply Forall_impl; [|exact A]. cbv beta. intros j Hj. lia.
    + destruct (IH n Hn) as [A B]. rewrite !zlen_cons. pose proof (zlen_nonneg (filter (fun i => 0 <=? i) ix)). split; [|lia].
      constructor; [lia|exact A].
Qed.

Lemma list_parts c cc : list_content c = Some cc ->
  (forall T, allnodes T c = T KList && allnodes T cc) /\ gi_frag c = gi_frag cc.
Proof. destruct c; try discriminate; intros H; inversion H; subst; split; reflexivity. Qed.

Lemma np_allnodes T dt : T KLeaf = true -> T KList = true -> forall dims n data, allnodes T (np_regular dt n dims data) = true.
Proof.
  intros H1 H2. induction dims as [|d ds IH]; intros n data; cbn [np_regular allnodes kind_of]; [rewrite H1; reflexivity|].
  rewrite H2, IH. reflexivity.
Qed.
Lemma np_gi dt : forall dims n data, gi_frag (np_regular dt n dims data) = true.
Proof. induction dims as [|d ds IH]; intros n data; cbn [np_regular gi_frag]; auto. Qed.

(* ---------------------------------------------------------------- the invariant of [gn] *)
Definition gnP (c r : content) : Prop := good r /\ clen c <= clen r /\ (nopt c = true -> nopt r = true).

Lemma good_list c bs cc : good c -> list_bounds c = Ok (bs, cc) ->
  good cc /\ clen c <= zlen bs /\ (nopt c = true -> nopt cc = true) /\ lnode c = true.
Proof.
  intros (HV & Hs & Hf) Hb. destruct (list_bounds_valid _ _ _ _ HV Hb) as (Hc & Hn & _ & Hvc).
  destruct (list_parts c cc Hc) as [Ha Hg]. unfold nostr, nopt in *. rewrite Ha in Hs. rewrite Ha. rewrite Hg in Hf.
  apply andb_true_iff in Hs as [_ Hs]. split; [split; [apply Hvc; reflexivity|split; assumption]|]. split; [exact Hn|].
  split; [intros Ho; apply andb_true_iff in Ho as [_ Ho]; exact Ho|]. destruct c; try discriminate; reflexivity.
Qed.

Lemma gnP_trans c nc r : clen c <= clen nc -> (nopt c = true -> nopt nc = true) -> gnP nc r -> gnP c r.
Proof. intros Hn Ho (A & B & C). split; [exact A|]. split; [lia|auto]. Qed.

Lemma good_Record cs keys n cs' :
  good (Record cs keys n) -> Forall2 (fun x y => good y /\ n <= clen y /\ (nopt x = true -> nopt y = true)) cs cs' ->
  good (Record cs' keys n) /\ (nopt (Record cs keys n) = true -> nopt (Record cs' keys n) = true).
Proof.
  intros (HV & Hs & Hf) HF. inversion HV; subst. split; [split; [|split]|].
  - constructor; [exact I|assumption| | |].
    + eapply Forall2_Forall_r; [exact HF|]. cbv beta. intros x y _ (_ & A & _). exact A.
    + intros k Hk. rewrite (Forall2_length _ _ _ HF). auto.
    + eapply Forall2_Forall_r; [exact HF|]. cbv beta. intros x y _ ((A & _) & _). exact A.
  - unfold nostr. cbn [allnodes kind_of Tstr andb]. rewrite allnodes_all. apply forallb_forall. intros y Hy.
    assert (HP : Forall (fun y => nostr y = true) cs') by (eapply Forall2_Forall_r; [exact HF|]; cbv beta; intros x y0 _ ((_ & A & _) & _); exact A).
    rewrite Forall_forall in HP. apply HP, Hy.
  - cbn [gi_frag]. rewrite gi_frag_all. apply forallb_forall. intros y Hy.
    assert (HP : Forall (fun y => gi_frag y = true) cs') by (eapply Forall2_Forall_r; [exact HF|]; cbv beta; intros x y0 _ ((_ & _ & A) & _); exact A).
    rewrite Forall_forall in HP. apply HP, Hy.
  - unfold nopt. cbn [allnodes kind_of Topt andb]. rewrite !allnodes_all. intros Ho. rewrite forallb_forall in Ho. apply forallb_forall. intros y Hy.
    assert (HP : Forall (fun y => nopt y = true) cs') by (eapply Forall2_Forall_r; [exact HF|]; cbv beta; intros x y0 Hx (_ & _ & A); apply A, Ho, Hx).
    rewrite Forall_forall in HP. apply HP, Hy.
Qed.

Section Step.
  Variable f : nat.
  Hypothesis IH : forall c items adv r, good c -> gn f c items adv = Ok r -> gnP c r.

  Lemma step_list_IAt c i tail adv r : good c -> lnode c = true -> gn (S f) c (IAt i :: tail) adv = Ok r -> gnP c r.
  Proof.
    intros Hg Hl H. rewrite gn_list_IAt in H by exact Hl. apply bind_Ok in H as ([bs cc] & Hb & H). cbn [fst snd] in H.
    apply bind_Ok in H as (_ & _ & H). apply bind_Ok in H as (nx & Hnx & H). apply bind_Ok in H as (nc & Hnc & H).
    destruct (good_list _ _ _ Hg Hb) as (Hgc & Hn & Ho & _). destruct (carry_good _ _ _ Hgc Hnc) as (Hgn & Hcn & Hon).
    apply (gnP_trans c nc r); [rewrite Hcn, (mapM_zlen _ _ _ Hnx); exact Hn|rewrite Hon; exact Ho|apply (IH _ _ _ _ Hgn H)].
  Qed.

  Lemma step_list_IRange c s e st tail adv r : good c -> lnode c = true -> gn (S f) c (IRange s e st :: tail) adv = Ok r -> gnP c r.
  Proof.
    intros Hg Hl H. rewrite gn_list_IRange in H by exact Hl. apply bind_Ok in H as ([bs cc] & Hb & H). cbn [fst snd] in H. cbv zeta in H.
    destruct (stepof st =? 0); [discriminate|]. apply bind_Ok in H as (nc & Hnc & H). apply bind_Ok in H as (r0 & Hr0 & H). inversion H; subst r.
    destruct (good_list _ _ _ Hg Hb) as (Hgc & Hn & Ho & _). destruct (carry_good _ _ _ Hgc Hnc) as (Hgn & Hcn & Hon).
    destruct (IH _ _ _ _ Hgn Hr0) as ((A1 & A2 & A3) & B & C).
    set (picked := map (fun ab : Z * Z => map (fun j => fst ab + j) (py_indices (snd ab - fst ab) s e (stepof st))) bs) in *.
    split; [split; [|split]|split].
    - apply offsets_valid; [apply zlens_nonneg|rewrite sumZ_zlen_concat; lia|exact A1].
    - unfold nostr in *. cbn [allnodes kind_of Tstr andb]. exact A2.
    - exact A3.
    - cbn [clen]. rewrite zlen_offsets_from, zlen_map. unfold picked. rewrite zlen_map. lia.
    - intros Hoc. unfold nopt in *. cbn [allnodes kind_of Topt andb]. apply C. rewrite Hon. apply Ho, Hoc.
  Qed.

  Lemma step_list_IArray c ix tail adv r : good c -> lnode c = true -> gn (S f) c (IArray ix :: tail) adv = Ok r -> gnP c r.
  Proof.
    intros Hg Hl H. rewrite gn_list_IArray in H by exact Hl. apply bind_Ok in H as ([bs cc] & Hb & H). cbn [fst snd] in H.
    apply bind_Ok in H as (_ & _ & H). destruct (good_list _ _ _ Hg Hb) as (Hgc & Hn & Ho & _).
    destruct adv as [av|].
    - destruct (negb (zlen av =? zlen bs)) eqn:Ez; [discriminate|].
      apply bind_Ok in H as (nx & Hnx & H). apply bind_Ok in H as (nc & Hnc & H).
      destruct (carry_good _ _ _ Hgc Hnc) as (Hgn & Hcn & Hon).
      apply (gnP_trans c nc r); [rewrite Hcn, (mapM_zlen _ _ _ Hnx), zlen_zip; lia|rewrite Hon; exact Ho|apply (IH _ _ _ _ Hgn H)].
    - apply bind_Ok in H as (picked & Hp & H). apply bind_Ok in H as (nc & Hnc & H). apply bind_Ok in H as (r0 & Hr0 & H). inversion H; subst r.
      destruct (carry_good _ _ _ Hgc Hnc) as (Hgn & Hcn & Hon).
      destruct (IH _ _ _ _ Hgn Hr0) as ((A1 & A2 & A3) & B & C).
      assert (Hz : zlen (concat picked) = zlen bs * zlen ix).
      { rewrite (zlen_concat_const picked (zlen ix)); [rewrite (mapM_zlen _ _ _ Hp); reflexivity|].
        apply Forall_forall. intros l Hl'. destruct (mapM_In_inv _ _ _ _ Hp Hl') as (ab & _ & Hab). apply (mapM_zlen _ _ _ Hab). }
      split; [split; [|split]|split].
      + constructor; [exact I|apply zlen_nonneg|apply zlen_nonneg|intros _; exact A1].
      + unfold nostr in *. cbn [allnodes kind_of Tstr andb]. exact A2.
      + exact A3.
      + cbn [clen]. destruct (zlen ix =? 0) eqn:E0; [exact Hn|]. pose proof (zlen_nonneg ix).
        apply Z.le_trans with (zlen bs); [exact Hn|]. rewrite <- (Z.div_mul (zlen bs) (zlen ix)) by lia. apply Z.div_le_mono; lia.
      + intros Hoc. unfold nopt in *. cbn [allnodes kind_of Topt andb]. apply C. rewrite Hon. apply Ho, Hoc.
  Qed.

  Lemma step_option c head tail adv r :
    positional head = true -> is_opt c = true -> good c -> gn (S f) c (head :: tail) adv = Ok r -> gnP c r.
  Proof.
    intros Hp Hop Hg H. rewrite gn_option in H by assumption. apply bind_Ok in H as ([ix c0] & Hoi & H). cbn [fst] in H.
    apply bind_Ok in H as (p & Hpc & H). apply bind_Ok in H as (r0 & Hr0 & H). inversion H; subst r.
    destruct Hg as (HV & Hs & Hf). destruct (option_index_valid _ _ _ HV Hoi) as (HVc & _ & Hn & _).
    assert (Hc0 : c0 = opt_content c /\ nostr c0 = true /\ nopt c0 = true).
    { unfold nostr in *. destruct c; try discriminate Hop; cbn [option_index] in Hoi; cbn [allnodes kind_of] in Hs; cbn [gi_frag] in Hf;
        apply andb_true_iff in Hs as [_ Hs]; try (apply bind_Ok in Hoi as (? & _ & Hoi)); inversion Hoi; subst; auto. }
    destruct Hc0 as (-> & Hs0 & Ho0).
    assert (Hgc : good (opt_content c)) by (split; [exact HVc|split; [exact Hs0|apply nopt_gi_frag, Ho0]]).
    destruct (carry_good _ _ _ Hgc Hpc) as (Hgp & Hcp & Hop'). destruct (IH _ _ _ _ Hgp Hr0) as ((A1 & A2 & A3) & B & C).
    assert (Hor : nopt r0 = true) by (apply C; rewrite Hop'; exact Ho0).
    destruct (outindex_spec ix 0 (Z.le_refl 0)) as [E F]. clear H Hr0 Hpc Hoi IH.
    split; [split; [|split]|split].
    - constructor; [exact I| |apply nopt_not_optionlike, Hor|exact A1].
      eapply Forall_impl; [|exact E]. cbv beta. intros i Hi. clear - Hi Hcp B. lia.
    - unfold nostr in *. cbn [allnodes kind_of Tstr andb]. exact A2.
    - cbn [gi_frag]. exact Hor.
    - cbn [clen]. clear - F Hn. lia.
    - intros Hoc. exfalso. unfold nopt in Hoc. destruct c; try discriminate Hop; cbn [allnodes kind_of Topt andb] in Hoc; discriminate Hoc.
  Qed.

  Lemma step_positional c head tail adv r :
    positional head = true -> is_nd c = false -> good c -> gn (S f) c (head :: tail) adv = Ok r -> gnP c r.
  Proof.
    intros Hp Hnd Hg H. pose proof Hg as (HV & Hs & Hf).
    destruct c as [dt sh data| |w o c|w s e c|c size zl|w ix c|w ix c|m vw c|m vw lsb n c|c|w t ix cs|cs ks n|arr rn c].
    - rewrite gn_numpy1 in H; [discriminate H|exact Hp|]. destruct sh as [|? [|? ?]]; try reflexivity. discriminate Hnd.
    - rewrite gn_empty in H by exact Hp. discriminate H.
    - destruct head; try discriminate Hp; [eapply step_list_IAt|eapply step_list_IRange|eapply step_list_IArray]; solve [exact Hg|exact H|reflexivity].
    - destruct head; try discriminate Hp; [eapply step_list_IAt|eapply step_list_IRange|eapply step_list_IArray]; solve [exact Hg|exact H|reflexivity].
    - destruct head; try discriminate Hp; [eapply step_list_IAt|eapply step_list_IRange|eapply step_list_IArray]; solve [exact Hg|exact H|reflexivity].
    - (* Indexed *)
      rewrite gn_Indexed in H by exact Hp. apply bind_Ok in H as (p & Hpc & H). inversion HV; subst. cbn [gi_frag] in Hf.
      unfold nostr in Hs. cbn [allnodes kind_of] in Hs. apply andb_true_iff in Hs as [_ Hs].
      assert (Hgc : good c) by (split; [assumption|split; [exact Hs|apply nopt_gi_frag, Hf]]).
      destruct (carry_good _ _ _ Hgc Hpc) as (Hgp & Hcp & _). destruct (IH _ _ _ _ Hgp H) as (A & B & _).
      split; [exact A|]. split; [cbn [clen]; lia|]. unfold nopt at 1. cbn [allnodes kind_of Topt andb]. discriminate.
    - eapply step_option; [exact Hp|reflexivity|exact Hg|exact H].
    - eapply step_option; [exact Hp|reflexivity|exact Hg|exact H].
    - eapply step_option; [exact Hp|reflexivity|exact Hg|exact H].
    - eapply step_option; [exact Hp|reflexivity|exact Hg|exact H].
    - rewrite gn_Union_pos in H by exact Hp. discriminate H.
    - (* Record *)
      rewrite gn_Record_pos in H by exact Hp. apply bind_Ok in H as (cs' & Hcs' & H). inversion HV; subst.
      match goal with HVs : Forall (Valid None) cs, Hn : Forall (fun x => n <= clen x) cs |- _ => rewrite Forall_forall in HVs, Hn; rename HVs into HVs0; rename Hn into Hn0 end.
      unfold nostr in Hs. cbn [allnodes kind_of] in Hs. apply andb_true_iff in Hs as [_ Hs]. rewrite allnodes_all, forallb_forall in Hs.
      cbn [gi_frag] in Hf. rewrite gi_frag_all, forallb_forall in Hf.
      assert (HF : Forall2 (fun x y => good y /\ n <= clen y /\ (nopt x = true -> nopt y = true)) cs cs').
      { eapply mapM_Forall2_P; [exact Hcs'|]. cbv beta. intros x y Hx Hy. apply bind_Ok in Hy as (ft & Hft & Hy).
        assert (Hgx : good x) by (split; [apply HVs0, Hx|split; [apply Hs, Hx|apply Hf, Hx]]).
        unfold crange in Hft. destruct (carry_good _ _ _ Hgx Hft) as (Hgt & Hct & Hot). rewrite zlen_range in Hct by lia.
        destruct (IH _ _ _ _ Hgt Hy) as (A & B & C). split; [exact A|]. split; [lia|]. rewrite <- Hot. exact C. }
      destruct (good_Record cs ks n cs' Hg HF) as [Hgr Hor]. destruct (IH _ _ _ _ Hgr H) as (A & B & C).
      split; [exact A|]. split; [exact B|auto].
    - (* Par *)
      rewrite gn_Par in H by exact Hp. apply bind_Ok in H as (r0 & Hr0 & H).
      unfold nostr in Hs. cbn [allnodes kind_of] in Hs. apply andb_true_iff in Hs as [Hk Hs]. destruct arr as [a|]; [discriminate|].
      assert (H' : r = r0) by (cbn [strflag] in H; destruct head; try destruct tail; inversion H; reflexivity). subst r0.
      inversion HV; subst. assert (Hgc : good c) by (split; [assumption|split; assumption]).
      destruct (IH _ _ _ _ Hgc Hr0) as (A & B & C). split; [exact A|]. split; [exact B|].
      unfold nopt at 1. cbn [allnodes kind_of Topt andb]. exact C.
  Qed.
End Step.

Lemma good_expand_nd c : is_nd c = true -> good c -> good (expand c) /\ nopt (expand c) = true.
Proof.
  intros Hnd (HV & _ & _). destruct c as [dt [|n [|m sh]] data| | | | | | | | | | | |]; try discriminate Hnd.
  split; [split; [apply expand_valid_p, HV|split]|]; cbn [expand]; [apply np_allnodes; reflexivity|apply np_gi|apply np_allnodes; reflexivity].
Qed.

Lemma gnP_refl c : good c -> gnP c c.
Proof. intros Hg. split; [exact Hg|]. split; [lia|auto]. Qed.

Lemma gn_good : forall f c items adv r, good c -> gn f c items adv = Ok r -> gnP c r.
Proof.
  induction f as [|f IH]; intros c items adv r Hg H; [rewrite gn_0 in H; discriminate H|].
  destruct items as [|head tail]; [rewrite gn_nil in H; inversion H; subst; apply gnP_refl, Hg|].
  destruct (is_nd c) eqn:Hnd.
  - rewrite gn_nd in H by exact Hnd. destruct (good_expand_nd c Hnd Hg) as [Hge Hoe].
    destruct (IH _ _ _ _ Hge H) as (A & B & C). rewrite clen_expand in B. split; [exact A|]. split; [exact B|auto].
  - destruct head.
    + apply (step_positional f IH c (IAt i) tail adv r eq_refl Hnd Hg H).
    + apply (step_positional f IH c (IRange start stop step) tail adv r eq_refl Hnd Hg H).
    + (* IEllipsis *)
      rewrite gn_IEllipsis in H by (apply nd_not, Hnd). destruct (minmax (type_of c)) as [mn mx]. cbv zeta in H.
      destruct tail as [|t0 tail']; [inversion H; subst; apply gnP_refl, Hg|].
      destruct ((mn - 1 =? dim_items (t0 :: tail')) && (mx - 1 =? dim_items (t0 :: tail'))); [apply (IH _ _ _ _ Hg H)|].
      destruct ((mn - 1 =? dim_items (t0 :: tail')) || (mx - 1 =? dim_items (t0 :: tail'))); [discriminate H|apply (IH _ _ _ _ Hg H)].
    + (* INewAxis *)
      rewrite gn_INewAxis in H by (apply nd_not, Hnd). apply bind_Ok in H as (r0 & Hr0 & H). inversion H; subst r.
      destruct (IH _ _ _ _ Hg Hr0) as ((A1 & A2 & A3) & B & C). pose proof (good_clen r0 (conj A1 (conj A2 A3))) as Hn0.
      split; [split; [|split]|split].
      * constructor; [exact I|lia|exact Hn0|intros _; exact A1].
      * unfold nostr in *. cbn [allnodes kind_of Tstr andb]. exact A2.
      * exact A3.
      * cbn [clen]. change (1 =? 0) with false. cbv iota. rewrite Z.div_1_r. exact B.
      * intros Hoc. unfold nopt in *. cbn [allnodes kind_of Topt andb]. apply C, Hoc.
    + apply (step_positional f IH c (IArray ix) tail adv r eq_refl Hnd Hg H).
    + (* IField *)
      rewrite gn_IField in H by exact Hnd. apply bind_Ok in H as (f0 & Hf0 & H).
      destruct (good_value c Hg) as [vs Hl]. destruct Hg as (HV & Hs & Hf).
      destruct (field_content_valid_all k c false vs f0 HV Hl (gi_fc_frag k c false Hf ltac:(discriminate)) Hf0) as (X1 & X2 & _).
      assert (Hg0 : good f0).
      { split; [exact X1|]. split; [apply (field_content_allnodes _ _ _ _ Hf0 Hs)|apply (field_content_gi _ _ _ Hf0 Hf)]. }
      apply (gnP_trans c f0 r); [lia|intros Ho; apply (field_content_allnodes _ _ _ _ Hf0 Ho)|apply (IH _ _ _ _ Hg0 H)].
    + (* IFields *)
      rewrite gn_IFields in H by exact Hnd. apply bind_Ok in H as (f0 & Hf0 & H). destruct Hg as (HV & Hs & Hf).
      destruct (fields_content_valid_all ks c f0 HV Hf0) as (X1 & X2 & _).
      assert (Hg0 : good f0).
      { split; [exact X1|]. split; [apply (fields_content_allnodes _ _ _ _ Hf0 Hs)|apply (fields_content_gi _ _ _ Hf0 Hf)]. }
      apply (gnP_trans c f0 r); [lia|intros Ho; apply (fields_content_allnodes _ _ _ _ Hf0 Ho)|apply (IH _ _ _ _ Hg0 H)].
Qed.

(* all item kinds; the fragment: no string nodes, option-type / indexed nodes not nested *)
Theorem getitem_preserves_valid_partial : forall items c c',
  Valid None c -> nostr c = true -> gi_frag c = true -> getitem_model items c = Ok c' -> Valid None c'.
Proof.
  intros items c c' HV Hs Hf H. unfold getitem_model in H.
  assert (Hg : good c) by (split; [exact HV|split; assumption]).
  assert (Hgr : good (Regular c (clen c) 1)).
  { split; [constructor; [exact I|apply good_clen, Hg|lia|intros _; exact HV]|]. split; [|exact Hf].
    unfold nostr in *. cbn [allnodes kind_of Tstr andb]. exact Hs. }
  apply (gn_good _ _ _ _ _ Hgr H).
Qed.

(* the model wraps results in IndexedOptionArray without simplifying *)
Example getitem_preserves_valid_refuted :
  let c := IndexedOption I64 [0] (ListOffset I64 [0; 1] (IndexedOption I64 [-1] Empty)) in
  let items := [IRange None None None; IAt 0] in
  valid_b c = true /\ nostr c = true /\ gi_frag c = false /\
  (do r <- getitem_model items c; Ok (valid_b r)) = Ok false.
Proof. vm_compute. repeat split. Qed.

Example getitem_preserves_valid_ex :
  let c := ListOffset I64 [0; 2; 3]
             (ByteMasked [1; 0; 1] true
                (Record [Regular (Numpy DInt64 [3; 2] [DZ 1; DZ 2; DZ 3; DZ 4; DZ 5; DZ 6]) 1 3;
                         ListOffset I64 [0; 1; 1; 3] (Numpy DFloat64 [3] [DZ 7; DNaN; DZ 9])] (Some [[120]; [121]]) 3)) in
  let ok := fun r : res content => match r with Ok c' => valid_b c' | Err _ => false end in
  valid_b c = true /\ nostr c = true /\ gi_frag c = true /\
  forallb ok [getitem_model [IAt 1] c; getitem_model [IRange (Some 1) None None; IAt 0] c;
              getitem_model [IArray [1; 0; 0]; IArray [0; 0; 1]] c; getitem_model [IField [121]; IEllipsis; IAt 0] c;
              getitem_model [IRange None None (Some (-1)); INewAxis; IRange None (Some 1) None; IFields [[121]; [120]]] c;
              getitem_model [IField [120]; IAt 0; IAt 0; IAt 0; IAt 1] c] = true.
Proof. vm_compute. repeat split. Qed.
