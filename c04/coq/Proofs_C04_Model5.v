(** C04 — model = specification, part 5: the shortcut path (all lists have the same zero-based offsets), the list step,
    one call of [apply], the induction on the fuel and the final refinement theorem, with examples. *)
From AwkV Require Import LayoutInd Proofs_Lists Proofs_ToList Proofs_Typing Proofs_Carry Proofs_AtAxisOps Proofs_C05 Ops_Struct.
From AwkBroadcast Require Import Broadcast Proofs_C04 Proofs_C04_Model1 Proofs_C04_Model2 Proofs_C04_Model3 Proofs_C04_Model4.
From Coq Require Import Lia ZifyBool.

(* ------------------------------------------------------------------ consecutive cuts starting at a *)
Lemma last_cons_d {A} (r : list A) : forall a d, last (a :: r) d = last r a.
Proof. induction r as [|b r IH]; intros a d; [reflexivity|]. change (last (a :: b :: r) d) with (last (b :: r) d). rewrite !IH. reflexivity. Qed.
Lemma last_In {A} (r : list A) d : r <> [] -> In (last r d) r.
Proof.
  induction r as [|a r IH]; intros H; [contradiction|]. destruct r as [|b r]; [now left|].
  right. apply IH. discriminate.
Qed.

Lemma cuts_chain {A} (vs : list A) : forall r a ls,
  0 <= a <= zlen vs -> mapM (cut1 vs) (pairs (a :: r)) = Ok ls ->
  a <= last r a <= zlen vs /\ mapM (get vs) (range a (last r a)) = Ok (concat ls) /\ Forall (fun x => x <= last r a) (a :: r).
Proof.
  induction r as [|b r IH]; intros a ls Ha H.
  - cbn in H. inversion H; subst. cbn [last concat]. rewrite range_empty by lia. repeat split; try lia. constructor; [lia|constructor].
  - change (pairs (a :: b :: r)) with ((a, b) :: pairs (b :: r)) in H. rewrite mapM_cons in H.
    apply bind_Ok in H as (l & Hl & H). apply bind_Ok in H as (ls' & Hls & H). inversion H; subst ls. clear H.
    apply cut1_inv in Hl as (Hzl & Hab & Hg).
    assert (Hb : 0 <= b <= zlen vs /\ a <= b) by lia. destruct Hb as [Hb Hab'].
    destruct (IH b ls' Hb Hls) as (Hk & Hgk & Hall).
    change (last (b :: r) a) with (last (b :: r) a). rewrite last_cons_d. set (k := last r b) in *.
    split; [lia|]. split.
    + rewrite (range_split a b k) by lia. rewrite mapM_app, Hg, Hgk. reflexivity.
    + constructor; [lia|exact Hall].
Qed.

Lemma fold_max_le k : forall e d, Forall (fun x => x <= k) e -> d <= k -> fold_right Z.max d e <= k.
Proof. induction e as [|x e IH]; intros d H Hd; [exact Hd|]. inversion H; subst. cbn [fold_right]. specialize (IH d H3 Hd). lia. Qed.
Lemma fold_max_eq k : forall e d, Forall (fun x => x <= k) e -> d <= k -> In k e -> fold_right Z.max d e = k.
Proof.
  induction e as [|x e IH]; intros d H Hd Hin; [contradiction|]. inversion H; subst. cbn [fold_right].
  pose proof (fold_max_le k e d H3 Hd). destruct Hin as [->|Hin]; [lia|]. rewrite (IH d H3 Hd Hin). lia.
Qed.

Lemma map_sub0 l : map (fun x => x - 0) l = l.
Proof. induction l as [|x l IH]; [reflexivity|]. cbn [map]. rewrite IH. f_equal. lia. Qed.

(* ------------------------------------------------------------------ all_same_offsets on two list nodes of the fragment *)
(* the offsets a list node stands for when it takes the shortcut *)
Definition offs (c : content) : list Z :=
  match c with
  | ListOffset _ o _ => o
  | ListA _ s e _ => match s with [] => [0] | _ => s ++ [last e 0] end
  | _ => []
  end.
(* [c] cuts its content by the consecutive, zero-based offsets 0 :: r *)
Definition zgood (c : content) (r : list Z) : Prop :=
  zip (lstarts c) (lstops c) = pairs (0 :: r) /\ (lstarts c = [] \/ lstops c = r) /\
  (forall w o c', c = ListOffset w o c' -> o = 0 :: r).

Lemma lista_pairs s e :
  list_eqb Z.eqb (tl s) (removelast e) = true -> zlen s <= zlen e ->
  zip s e = pairs (match s with [] => [0] | _ => s ++ [last e 0] end) /\ (s = [] \/ e = tl s ++ [last e 0]).
Proof.
  intros Hq Hz. apply list_eqb_eq in Hq. destruct s as [|s0 s']; [split; [reflexivity|now left]|].
  assert (He : e <> []) by (intros ->; rewrite zlen_cons, zlen_nil in Hz; pose proof (zlen_nonneg s'); lia).
  cbn [tl] in Hq. pose proof (app_removelast_last 0 He) as Hsplit. rewrite <- Hq in Hsplit.
  split; [|right; exact Hsplit].
  rewrite pairs_zip. change ((s0 :: s') ++ [last e 0]) with (s0 :: (s' ++ [last e 0])).
  change (tl (s0 :: s' ++ [last e 0])) with (s' ++ [last e 0]).
  change (s0 :: s' ++ [last e 0]) with ((s0 :: s') ++ [last e 0]). rewrite removelast_last. now rewrite <- Hsplit.
Qed.

Lemma same_first c k :
  jag c = true -> same_step (Some None) c = Some k -> zlen (lstarts c) <= zlen (lstops c) ->
  exists r, k = Some (0 :: r) /\ zgood c r.
Proof.
  intros Hj Hs Hz.
  destruct c as [dt shape data| |w o c'|w s e c'|c' size zl|w ix0 c'|w ix0 c'|m vw c'|m vw lsb n c'|c'|w t ix0 cs|cs ks n|arr rn c'];
    try discriminate; cbn [same_step lstarts lstops] in *.
  - destruct o as [|o0 o]; [discriminate|]. destruct (o0 =? 0) eqn:E0; cbn [negb] in Hs; [|discriminate].
    apply Z.eqb_eq in E0. subst o0. inversion Hs; subst k. exists o. split; [reflexivity|]. split; [|split].
    + symmetry. apply pairs_zip.
    + now right.
    + intros w0 o1 c0 Heq. now inversion Heq.
  - destruct (list_eqb Z.eqb (tl s) (removelast e)) eqn:Eq; cbn [negb] in Hs; [|discriminate].
    destruct (lista_pairs s e Eq Hz) as [Hp Hd].
    destruct s as [|s0 s'].
    + inversion Hs; subst k. exists []. split; [reflexivity|]. split; [exact Hp|]. split; [now left|discriminate].
    + destruct (s0 =? 0) eqn:E0; cbn [negb] in Hs; [|discriminate]. apply Z.eqb_eq in E0. subst s0. inversion Hs; subst k.
      exists (s' ++ [last e 0]). split; [reflexivity|]. split; [exact Hp|]. split; [|discriminate].
      right. destruct Hd as [Hd|Hd]; [discriminate|exact Hd].
Qed.

Lemma same_second c r st :
  jag c = true -> same_step (Some (Some (0 :: r))) c = Some st -> zlen (lstarts c) <= zlen (lstops c) -> zgood c r.
Proof.
  intros Hj Hs Hz.
  destruct c as [dt shape data| |w o c'|w s e c'|c' size zl|w ix0 c'|w ix0 c'|m vw c'|m vw lsb n c'|c'|w t ix0 cs|cs ks n|arr rn c'];
    try discriminate; cbn [same_step lstarts lstops] in *.
  - destruct o as [|o0 o]; [discriminate|]. destruct (o0 =? 0) eqn:E0; cbn [negb] in Hs; [|discriminate].
    destruct (list_eqb Z.eqb (0 :: r) (o0 :: o)) eqn:Eq; [|discriminate]. apply list_eqb_eq in Eq. rewrite <- Eq.
    split; [|split].
    + symmetry. apply pairs_zip.
    + now right.
    + intros w0 o1 c0 Heq. inversion Heq; subst. now symmetry.
  - destruct (list_eqb Z.eqb (tl s) (removelast e)) eqn:Eq; cbn [negb] in Hs; [|discriminate].
    destruct (lista_pairs s e Eq Hz) as [Hp Hd].
    assert (Hs' : (match s with [] => false | s0 :: _ => negb (s0 =? 0) end) = false /\
                  negb (list_eqb Z.eqb (removelast (0 :: r)) s) || (negb (zlen e =? 0) && negb (last (0 :: r) 0 =? last e 0)) = false).
    { destruct (match s with [] => false | s0 :: _ => negb (s0 =? 0) end); [discriminate|]. split; [reflexivity|].
      destruct (negb (list_eqb Z.eqb (removelast (0 :: r)) s) || (negb (zlen e =? 0) && negb (last (0 :: r) 0 =? last e 0))); [discriminate|reflexivity]. }
    clear Hs. destruct Hs' as [_ Hs]. apply orb_false_elim in Hs as [Ha Hb]. apply negb_false_iff in Ha. apply list_eqb_eq in Ha.
    assert (Hor : 0 :: r = removelast (0 :: r) ++ [last (0 :: r) 0]) by (apply app_removelast_last; discriminate).
    rewrite Ha in Hor.
    destruct s as [|s0 s'].
    + (* no list at all: 0 :: r = [last .. 0] *)
      cbn [app] in Hor. assert (r = []) by (now inversion Hor). subst r.
      split; [exact Hp|]. split; [now left|discriminate].
    + assert (Hze : (zlen e =? 0) = false).
      { rewrite zlen_cons in Hz. pose proof (zlen_nonneg s'). lia. }
      rewrite Hze in Hb. cbn [negb andb] in Hb. apply negb_false_iff in Hb. apply Z.eqb_eq in Hb. rewrite Hb in Hor.
      change ((s0 :: s') ++ [last e 0]) with (s0 :: (s' ++ [last e 0])) in Hor. inversion Hor; subst s0.
      split; [|split; [|discriminate]].
      * exact Hp.
      * right. destruct Hd as [Hd|Hd]; [discriminate|exact Hd].
Qed.

Lemma all_same_lists c1 c2 :
  jag c1 = true -> jag c2 = true -> all_same_offsets [c1; c2] = true -> is_list_node c1 = true /\ is_list_node c2 = true.
Proof.
  intros H1 H2 Ha. unfold all_same_offsets in Ha. cbn [fold_left] in Ha. split.
  - destruct c1 as [dt shape data| |w o c'|w s e c'|c' size zl|w ix0 c'|w ix0 c'|m vw c'|m vw lsb n c'|c'|w t ix0 cs|cs ks n|arr rn c'];
      try discriminate; try reflexivity; cbn [same_step] in Ha; discriminate.
  - destruct (same_step (Some None) c1) as [k|].
    + destruct c2 as [dt shape data| |w o c'|w s e c'|c' size zl|w ix0 c'|w ix0 c'|m vw c'|m vw lsb n c'|c'|w t ix0 cs|cs ks n|arr rn c'];
        try discriminate; try reflexivity; cbn [same_step] in Ha; discriminate.
    + cbn [same_step] in Ha. discriminate.
Qed.

Lemma all_same_view c1 c2 :
  jag c1 = true -> jag c2 = true -> all_same_offsets [c1; c2] = true ->
  zlen (lstarts c1) <= zlen (lstops c1) -> zlen (lstarts c2) <= zlen (lstops c2) ->
  exists r, zgood c1 r /\ zgood c2 r.
Proof.
  intros H1 H2 Ha Z1 Z2. unfold all_same_offsets in Ha. cbn [fold_left] in Ha.
  destruct (same_step (Some None) c1) as [k|] eqn:E1; [|cbn [same_step] in Ha; discriminate].
  destruct (same_first c1 k H1 E1 Z1) as (r & -> & G1). exists r. split; [exact G1|].
  destruct (same_step (Some (Some (0 :: r))) c2) as [st|] eqn:E2; [|discriminate].
  exact (same_second c2 r st H2 E2 Z2).
Qed.

(* ------------------------------------------------------------------ what same_branch hands down and how it wraps the result *)
Definition same_next (c : content) : res content :=
  match c with
  | ListOffset _ o c' => pyslice c' (last o 0)
  | ListA _ s e c' =>
      if (zlen s =? 0) || (zlen e =? 0) then pyslice c' 0
      else pyslice c' (fold_right Z.max (hd 0 e) e)
  | _ => Ok c
  end.
Definition same_out (cs : list content) (out : content) : res content :=
  match rev (filter (fun c => match c with ListOffset _ _ _ => true | _ => false end) cs) with
  | ListOffset w o _ :: _ => Ok (ListOffset w o out)
  | _ =>
      match rev (filter (fun c => match c with ListA _ _ _ _ => true | _ => false end) cs) with
      | ListA w s e _ :: _ => Ok (ListA w s e out)
      | _ => Err EValue
      end
  end.

Lemma map_c2 (F : content -> res content) c1 c2 :
  map_c F [MC c1; MC c2] = do n1 <- F c1; do n2 <- F c2; Ok [MC n1; MC n2].
Proof. unfold map_c. cbn [mapM]. destruct (F c1); [|reflexivity]. cbn [rmap bind]. destruct (F c2); reflexivity. Qed.

Lemma same_branch_eq rec c1 c2 :
  same_branch rec [MC c1; MC c2] =
  do n1 <- same_next c1; do n2 <- same_next c2; do out <- rec [MC n1; MC n2]; same_out [c1; c2] out.
Proof.
  unfold same_branch. cbn [contents_of flat_map app]. rewrite map_c2. cbv beta.
  change (match c1 with ListOffset _ o c' => pyslice c' (last o 0)
          | ListA _ s e c'' => if (zlen s =? 0) || (zlen e =? 0) then pyslice c'' 0 else pyslice c'' (fold_right Z.max (hd 0 e) e)
          | _ => Ok c1 end) with (same_next c1).
  change (match c2 with ListOffset _ o c' => pyslice c' (last o 0)
          | ListA _ s e c'' => if (zlen s =? 0) || (zlen e =? 0) then pyslice c'' 0 else pyslice c'' (fold_right Z.max (hd 0 e) e)
          | _ => Ok c2 end) with (same_next c2).
  destruct (same_next c1) as [n1|]; [|reflexivity]. cbn [bind]. destruct (same_next c2) as [n2|]; reflexivity.
Qed.

Lemma same_next_ok c vs' ls r :
  jag c = true -> is_list_node c = true -> to_list (inner c) = Ok vs' -> jag (inner c) = true ->
  mapM (cut1 vs') (zip (lstarts c) (lstops c)) = Ok ls -> zlen (lstarts c) <= zlen (lstops c) -> zgood c r ->
  exists next, same_next c = Ok next /\ jag next = true /\ to_list next = Ok (concat ls) /\
               type_of next = type_of (inner c) /\ csize next = csize (inner c).
Proof.
  intros Hj Hl Hi Hji Hc Hz (Hp & Hd & Ho).
  pose proof (to_list_len _ _ Hi) as Hlen. pose proof (zlen_nonneg vs') as Hn0.
  rewrite Hp in Hc. destruct (cuts_chain vs' r 0 ls ltac:(lia) Hc) as (Hk & Hg & Hall). set (k := last r 0) in *.
  rewrite range0_iota, gather_prefix in Hg by lia. inversion Hg as [Hcat].
  destruct (grange0_jag (inner c) vs' k Hji Hi ltac:(lia)) as (next & Hgr & Hjn & Hln & Htn & Hsn & _).
  exists next. split; [|repeat split; assumption].
  rewrite <- Hgr.
  assert (Hps : forall c', clen c' = zlen vs' -> pyslice c' k = grange c' 0 k).
  { intros c' Hc'. unfold pyslice. f_equal. lia. }
  destruct c as [dt shape data| |w o c'|w s e c'|c' size zl|w ix0 c'|w ix0 c'|m vw c'|m vw lsb n c'|c'|w t ix0 cs|cs ks n|arr rn c'];
    try discriminate; cbn [same_next inner lstarts lstops] in *.
  - rewrite (Ho w o c' eq_refl). rewrite last_cons_d. apply Hps. lia.
  - destruct s as [|s0 s'].
    + (* no list: r = [] *)
      cbn [zip] in Hp. assert (r = []) by (destruct r; [reflexivity|discriminate]). subst r.
      rewrite zlen_nil. cbn [Z.eqb orb]. change (pyslice c' 0) with (pyslice c' k). apply Hps. lia.
    + destruct Hd as [Hd|Hd]; [discriminate|]. subst e.
      assert (Hr : r <> []).
      { intros ->. rewrite zlen_cons, zlen_nil in Hz. pose proof (zlen_nonneg s'). lia. }
      assert (Hzs : (zlen (s0 :: s') =? 0) = false) by (rewrite zlen_cons; pose proof (zlen_nonneg s'); lia).
      assert (Hzr : (zlen r =? 0) = false).
      { destruct r as [|x r']; [contradiction|]. rewrite zlen_cons. pose proof (zlen_nonneg r'). lia. }
      rewrite Hzs, Hzr. cbn [orb].
      inversion Hall as [|? ? _ Hall']; subst.
      assert (Hin : In k r) by (apply last_In; exact Hr).
      assert (Hhd : hd 0 r <= k).
      { destruct r as [|x r']; [contradiction|]. cbn [hd]. inversion Hall'; assumption. }
      rewrite (fold_max_eq k r (hd 0 r) Hall' Hhd Hin). apply Hps. lia.
Qed.

Lemma same_out_ok c1 c2 r :
  jag c1 = true -> jag c2 = true -> is_list_node c1 = true -> is_list_node c2 = true ->
  zlen (lstarts c1) <= zlen (lstops c1) -> zlen (lstarts c2) <= zlen (lstops c2) ->
  zgood c1 r -> zgood c2 r ->
  exists R, (fun out => same_out [c1; c2] out) = (fun out => Ok (R out)) /\
            (forall out, to_list (R out) = do outvs <- to_list out; rmap (map VList) (cut outvs (0 :: r))) /\
            (forall out, jag out = true -> jag (R out) = true /\ is_option_node (R out) = false).
Proof.
  intros H1 H2 L1 L2 Z1 Z2 (P1 & _ & O1) (P2 & _ & O2).
  assert (HA : forall w s e out, zlen s <= zlen e -> zip s e = pairs (0 :: r) ->
                 to_list (ListA w s e out) = do outvs <- to_list out; rmap (map VList) (cut outvs (0 :: r))).
  { intros w s e out Hz Hp. cbn [to_list]. destruct (to_list out) as [outvs|]; [|reflexivity]. cbn [bind].
    unfold cut2, cut. destruct (zlen e <? zlen s) eqn:E; [lia|]. now rewrite Hp. }
  destruct c2 as [dt shape data| |w o c'|w s e c'|c' size zl|w ix0 c'|w ix0 c'|m vw c'|m vw lsb n c'|c'|w t ix0 cs|cs ks n|arr rn c'];
    try discriminate.
  - (* the last ListOffsetArray is the second input *)
    exists (ListOffset w o). split; [|split].
    + destruct c1; try discriminate; reflexivity.
    + intros out. rewrite (O2 w o c' eq_refl). reflexivity.
    + intros out Hjo. cbn [jag is_option_node]. auto.
  - destruct c1 as [dt shape data| |w1 o1 c1'|w1 s1 e1 c1'|c1' size zl|w1 ix0 c1'|w1 ix0 c1'|m vw c1'|m vw lsb n c1'|c1'|w1 t ix0 cs|cs ks n|arr rn c1'];
      try discriminate.
    + exists (ListOffset w1 o1). split; [reflexivity|]. split.
      * intros out. rewrite (O1 w1 o1 c1' eq_refl). reflexivity.
      * intros out Hjo. cbn [jag is_option_node]. auto.
    + exists (ListA w s e). split; [reflexivity|]. split.
      * intros out. apply HA; [exact Z2|exact P2].
      * intros out Hjo. cbn [jag is_option_node]. auto.
Qed.

(* ------------------------------------------------------------------ the shortcut path *)
Lemma same_case op rec fuel c1 c2 vs1 vs2 :
  jag c1 = true -> jag c2 = true -> to_list c1 = Ok vs1 -> to_list c2 = Ok vs2 -> zlen vs1 = zlen vs2 ->
  all_same_offsets [c1; c2] = true ->
  step_ok op rec fuel (csize c1 + csize c2) ->
  agrees_c (same_branch rec [MC c1; MC c2])
         (mapM (spec_v op false (S fuel)) (rows2 (type_of c1) (type_of c2) vs1 vs2)) /\
  (forall out, same_branch rec [MC c1; MC c2] = Ok out -> jag out = true /\ is_option_node out = false).
Proof.
  intros H1 H2 L1 L2 Hz Ha IH.
  destruct (all_same_lists c1 c2 H1 H2 Ha) as [N1 N2].
  destruct (type_of_jag c1 H1) as (JT1 & OT1 & LT1). destruct (type_of_jag c2 H2) as (JT2 & OT2 & LT2).
  destruct (list_view c1 vs1 H1 N1 L1) as (vs1' & ls1 & Li1 & Hc1 & -> & Ji1 & S1 & T1 & Zs1 & Zl1).
  destruct (list_view c2 vs2 H2 N2 L2) as (vs2' & ls2 & Li2 & Hc2 & -> & Ji2 & S2 & T2 & Zs2 & Zl2).
  destruct (inner_types c1 H1 N1) as (E1 & LT1' & _). destruct (inner_types c2 H2 N2) as (E2 & LT2' & _).
  destruct (all_same_view c1 c2 H1 H2 Ha Zl1 Zl2) as (r & G1 & G2).
  destruct (same_next_ok c1 vs1' ls1 r H1 N1 Li1 Ji1 Hc1 Zl1 G1) as (n1 & B1 & Jn1 & Ln1 & Tn1 & Sn1).
  destruct (same_next_ok c2 vs2' ls2 r H2 N2 Li2 Ji2 Hc2 Zl2 G2) as (n2 & B2 & Jn2 & Ln2 & Tn2 & Sn2).
  destruct (same_out_ok c1 c2 r H1 H2 N1 N2 Zl1 Zl2 G1 G2) as (R & HRe & HR & HRj).
  assert (Hl1 : lens_of (pairs (0 :: r)) = map zlen ls1) by (destruct G1 as (P1 & _); rewrite P1 in Hc1; exact (cut1_lens _ _ _ Hc1)).
  assert (Hl2 : lens_of (pairs (0 :: r)) = map zlen ls2) by (destruct G2 as (P2 & _); rewrite P2 in Hc2; exact (cut1_lens _ _ _ Hc2)).
  assert (Elens : map zlen ls1 = map zlen ls2) by congruence.
  assert (Hoff : 0 :: r = offsets_from 0 (map zlen ls1)).
  { rewrite <- Hl1. rewrite <- (map_sub0 (0 :: r)) at 1. rewrite map_sub_offsets. reflexivity. }
  rewrite same_branch_eq, B1, B2. cbn [bind].
  change (do out <- rec [MC n1; MC n2]; same_out [c1; c2] out) with (do out <- rec [MC n1; MC n2]; (fun out => same_out [c1; c2] out) out).
  rewrite HRe. cbv beta.
  apply (list_assemble op rec fuel n1 n2 ls1 ls2 R) with (bound := (csize c1 + csize c2)%nat); try assumption.
  - clear - Sn1 Sn2 S1 S2; lia.
  - intros out. rewrite HR, Hoff. reflexivity.
  - unfold rows2 at 1. rewrite zip_map, map_map, mapM_map. apply mapM_ext_in. intros [a b] Hin. cbn [fst snd].
    rewrite spec_row_LL by assumption. rewrite (zip_lens_in ls1 ls2 a b Elens Hin), Z.eqb_refl.
    now rewrite Tn1, Tn2, E1, E2.
Qed.

(* ------------------------------------------------------------------ the list step *)
Lemma list_case op rec fuel c1 c2 vs1 vs2 :
  jag c1 = true -> jag c2 = true -> to_list c1 = Ok vs1 -> to_list c2 = Ok vs2 -> zlen vs1 = zlen vs2 ->
  is_option_node c1 = false -> is_option_node c2 = false -> is_list_node c1 || is_list_node c2 = true ->
  (csize c1 + csize c2 <= S fuel)%nat ->
  step_ok op rec fuel (csize c1 + csize c2) ->
  agrees_c (list_branch rec [MC c1; MC c2])
         (mapM (spec_v op false (S fuel)) (rows2 (type_of c1) (type_of c2) vs1 vs2)) /\
  (forall out, list_branch rec [MC c1; MC c2] = Ok out -> jag out = true /\ is_option_node out = false).
Proof.
  intros H1 H2 L1 L2 Hz O1 O2 Hl Hfuel IH.
  destruct (jag_nodes c1 H1) as (_ & _ & _ & _ & _ & R1 & _ & _). destruct (jag_nodes c2 H2) as (_ & _ & _ & _ & _ & R2 & _ & _).
  unfold list_branch. cbn [contents_of flat_map app].
  assert (Hreg : forallb is_regular_node (filter is_list_node [c1; c2]) = false).
  { cbn [filter]. destruct (is_list_node c1) eqn:N1.
    - cbn [forallb]. now rewrite R1.
    - cbn [orb] in Hl. rewrite Hl. cbn [forallb]. now rewrite R2. }
  rewrite Hreg. destruct (all_same_offsets [c1; c2]) eqn:Ea; cbn [negb].
  - now apply same_case.
  - now apply gen_case.
Qed.

(* ------------------------------------------------------------------ one call of apply *)
Lemma csize_pos c : (1 <= csize c)%nat.
Proof. destruct c; cbn [csize]; lia. Qed.

Lemma rows_err_value op fuel c1 c2 vs1 vs2 e :
  jag c1 = true -> jag c2 = true -> (csize c1 + csize c2 <= fuel)%nat ->
  mapM (spec_v op false fuel) (rows2 (type_of c1) (type_of c2) vs1 vs2) = Err e -> e = EValue.
Proof.
  intros H1 H2 Hf He. apply mapM_Err in He as (row & Hin & Hrow). unfold rows2 in Hin. apply in_map_iff in Hin as ([x y] & <- & _).
  destruct (type_of_jag c1 H1) as (JT1 & _). destruct (type_of_jag c2 H2) as (JT2 & _).
  eapply (spec_err_value op fuel); [exact JT1|exact JT2| |exact Hrow].
  rewrite (tsize_jag c1 H1), (tsize_jag c2 H2). exact Hf.
Qed.

Lemma dispatch_step op rec fuel c1 c2 vs1 vs2 :
  jag c1 = true -> jag c2 = true -> to_list c1 = Ok vs1 -> to_list c2 = Ok vs2 -> zlen vs1 = zlen vs2 ->
  (csize c1 + csize c2 <= S fuel)%nat ->
  step_ok op rec fuel (csize c1 + csize c2) ->
  agrees_c (dispatch op None rec [MC c1; MC c2])
         (mapM (spec_v op false (S fuel)) (rows2 (type_of c1) (type_of c2) vs1 vs2)) /\
  (forall out, dispatch op None rec [MC c1; MC c2] = Ok out ->
               jag out = true /\ is_option_node out = is_option_node c1 || is_option_node c2).
Proof.
  intros H1 H2 L1 L2 Hz Hfuel IH.
  destruct (is_numpy_node c1 && is_numpy_node c2) eqn:Hn.
  - (* both leaves *)
    apply andb_prop in Hn as [N1 N2].
    destruct c1 as [dt1 sh1 d1| | | | | | | | | | | |]; try discriminate. destruct c2 as [dt2 sh2 d2| | | | | | | | | | | |]; try discriminate.
    destruct sh1 as [|n1 [|x1 sh1]]; try discriminate. destruct sh2 as [|n2 [|x2 sh2]]; try discriminate.
    destruct (leaf_case op rec fuel dt1 dt2 n1 n2 d1 d2 vs1 vs2 H1 H2 L1 L2 Hz) as (out & Hd & Hjo & Hoo & ys & Hlo & Hsp).
    rewrite Hd. split.
    + rewrite Hsp. exists out. split; [reflexivity|exact Hlo].
    + intros out' Ho. inversion Ho; subst out'. cbn [is_option_node orb]. auto.
  - rewrite (dispatch_nonleaf op rec c1 c2 vs1 vs2 H1 H2 L1 L2 Hz Hn).
    destruct (is_option_node c1 || is_option_node c2) eqn:Ho.
    + pose proof (opt_case op rec fuel c1 c2 vs1 vs2 H1 H2 L1 L2 Hz Ho IH) as Hoc.
      rewrite (dispatch_nonleaf op rec c1 c2 vs1 vs2 H1 H2 L1 L2 Hz Hn), Ho in Hoc. exact Hoc.
    + apply orb_false_elim in Ho as [O1 O2].
      assert (Hl : is_list_node c1 || is_list_node c2 = true).
      { destruct (jag_nodes c1 H1) as (_ & _ & _ & _ & _ & _ & _ & T1). destruct (jag_nodes c2 H2) as (_ & _ & _ & _ & _ & _ & _ & T2).
        destruct T1 as [T|[T|T]]; destruct T2 as [T'|[T'|T']]; try congruence.
        - rewrite T, T' in Hn. discriminate.
        - rewrite T'. apply orb_true_r.
        - now rewrite T.
        - now rewrite T. }
      now apply list_case.
Qed.

(* ------------------------------------------------------------------ induction on the fuel *)
Lemma apply_S op bk fuel inputs : Broadcast.apply op bk (S fuel) inputs = dispatch op bk (Broadcast.apply op bk fuel) inputs.
Proof. reflexivity. Qed.

(* [fuel] calls of apply are enough for two inputs with [csize c1 + csize c2 <= fuel]: every call removes at least one node *)
Lemma apply_rows op : forall fuel c1 c2 vs1 vs2,
  jag c1 = true -> jag c2 = true -> to_list c1 = Ok vs1 -> to_list c2 = Ok vs2 -> zlen vs1 = zlen vs2 ->
  (csize c1 + csize c2 <= fuel)%nat ->
  agrees_c (Broadcast.apply op None fuel [MC c1; MC c2])
           (mapM (spec_v op false fuel) (rows2 (type_of c1) (type_of c2) vs1 vs2)) /\
  (forall out, Broadcast.apply op None fuel [MC c1; MC c2] = Ok out ->
               jag out = true /\ is_option_node out = is_option_node c1 || is_option_node c2).
Proof.
  induction fuel as [|fuel IH]; intros c1 c2 vs1 vs2 H1 H2 L1 L2 Hz Hf.
  - pose proof (csize_pos c1). lia.
  - rewrite apply_S. apply dispatch_step; try assumption.
    intros n1 n2 ws1 ws2 J1 J2 M1 M2 Hzw Hlt. apply IH; try assumption. lia.
Qed.

(* ------------------------------------------------------------------ the refinement theorem: two whole arrays *)
(* the elements of a list value *)
Definition unlist (r : res value) : res (list value) :=
  do v <- r; match v with VList l => Ok l | _ => Err EValue end.
(* an array of variable length, as an argument of the specification *)
Definition arr_arg (c : content) (vs : list value) : sarg := (TList None None (type_of c), VList vs).
(* number of calls of apply that two inputs need at most: one per node of the two layouts *)
Definition model_fuel_bound (c1 c2 : content) : nat := (csize c1 + csize c2)%nat.

Lemma unlist_rmap r : unlist (rmap VList r) = r.
Proof. destruct r; reflexivity. Qed.

(* strong form: the model's own result *)
Theorem model_refines_spec_strong_lemma op fuel c1 c2 vs1 vs2 :
  jag c1 = true -> jag c2 = true -> to_list c1 = Ok vs1 -> to_list c2 = Ok vs2 ->
  (model_fuel_bound c1 c2 <= fuel)%nat ->
  agrees_c (Broadcast.apply op None fuel [MC c1; MC c2])
           (unlist (spec_v op false (S fuel) [arr_arg c1 vs1; arr_arg c2 vs2])).
Proof.
  unfold model_fuel_bound, arr_arg. intros H1 H2 L1 L2 Hf.
  destruct (type_of_jag c1 H1) as (JT1 & _). destruct (type_of_jag c2 H2) as (JT2 & _).
  rewrite spec_row_LL by (try assumption; reflexivity). cbn [elemT].
  destruct (Z.eqb_spec (zlen vs2) (zlen vs1)) as [E|E].
  - rewrite unlist_rmap. apply apply_rows; try assumption. now symmetry.
  - (* arrays of different lengths: apply's checklength *)
    destruct fuel as [|fuel]; [pose proof (csize_pos c1); lia|]. rewrite apply_S. unfold dispatch. cbn [contents_of flat_map app].
    pose proof (jag_rcond c1 c2 H1 H2) as Hr. cbv zeta in Hr. cbv zeta. rewrite Hr.
    unfold checklength, all_eq. cbn [map forallb].
    rewrite <- (to_list_len _ _ L1), <- (to_list_len _ _ L2).
    destruct (Z.eqb_spec (zlen vs1) (zlen vs2)) as [E'|E']; [symmetry in E'; contradiction|].
    cbn [andb negb unlist bind agrees_c]. split; reflexivity.
Qed.

(* the observable form: values AND error status of what the model returns *)
Theorem model_refines_spec_lemma op fuel c1 c2 vs1 vs2 :
  jag c1 = true -> jag c2 = true -> to_list c1 = Ok vs1 -> to_list c2 = Ok vs2 ->
  (model_fuel_bound c1 c2 <= fuel)%nat ->
  agrees (obs (Broadcast.apply op None fuel [MC c1; MC c2]))
         (unlist (spec_v op false (S fuel) [arr_arg c1 vs1; arr_arg c2 vs2])).
Proof. intros. apply agrees_c_obs. now apply model_refines_spec_strong_lemma. Qed.

(* out of fuel is excluded by the statement: with the bound, neither side ever reports EFuel *)
Corollary model_never_out_of_fuel_lemma op fuel c1 c2 vs1 vs2 :
  jag c1 = true -> jag c2 = true -> to_list c1 = Ok vs1 -> to_list c2 = Ok vs2 ->
  (model_fuel_bound c1 c2 <= fuel)%nat ->
  obs (Broadcast.apply op None fuel [MC c1; MC c2]) <> Err EFuel /\
  unlist (spec_v op false (S fuel) [arr_arg c1 vs1; arr_arg c2 vs2]) <> Err EFuel.
Proof.
  intros H1 H2 L1 L2 Hf. pose proof (model_refines_spec_lemma op fuel c1 c2 vs1 vs2 H1 H2 L1 L2 Hf) as Ha.
  destruct (unlist _) as [out|e]; cbn [agrees] in Ha.
  - rewrite Ha. split; discriminate.
  - destruct Ha as [-> ->]. split; discriminate.
Qed.

(* ------------------------------------------------------------------ examples: the hypotheses are satisfiable, both halves *)
(* [[[3,4],[5]], [[6,7,8]]]: ListOffsetArray64 whose offsets start at 1 over a ListArrayU32 with gaps, an unused first
   entry and unreachable data *)
Definition ex_c1 : content :=
  ListOffset I64 [1; 3; 4]
    (ListA U32 [9; 2; 4; 5] [9; 4; 5; 8]
      (Numpy DInt64 [9] (map DZ [1; 2; 3; 4; 5; 6; 7; 8; 9]))).
(* [[10, None], [30]]: ListOffsetArray32 whose offsets start at 2 over an IndexedOptionArray64 with a missing value *)
Definition ex_c2 : content :=
  ListOffset I32 [2; 4; 5]
    (IndexedOption I64 [1; 1; 0; -1; 2] (Numpy DInt64 [3] (map DZ [10; 20; 30]))).
(* [[10], [None, 30]]: the same elements, cut differently *)
Definition ex_c3 : content :=
  ListOffset I32 [0; 1; 3]
    (IndexedOption I64 [0; -1; 2] (Numpy DInt64 [3] (map DZ [10; 20; 30]))).

Definition ex_v1 : list value :=
  [VList [VList [VNum (DZ 3); VNum (DZ 4)]; VList [VNum (DZ 5)]]; VList [VList [VNum (DZ 6); VNum (DZ 7); VNum (DZ 8)]]].
Definition ex_v2 : list value := [VList [VNum (DZ 10); VNone]; VList [VNum (DZ 30)]].
Definition ex_v3 : list value := [VList [VNum (DZ 10)]; VList [VNone; VNum (DZ 30)]].

(* the hypotheses of [model_refines_spec_lemma] hold for (ex_c1, ex_c2) with fuel 6, and the result is not an error:
   tree-left broadcasting of 10 into [3,4], a missing value against [5], 30 into [6,7,8] *)
Example model_refines_spec_nonvacuous :
  jag ex_c1 = true /\ jag ex_c2 = true /\ to_list ex_c1 = Ok ex_v1 /\ to_list ex_c2 = Ok ex_v2 /\
  model_fuel_bound ex_c1 ex_c2 = 6%nat /\
  obs (Broadcast.apply (ufn_op UAdd) None 6 [MC ex_c1; MC ex_c2]) =
    Ok [VList [VList [VNum (DZ 13); VNum (DZ 14)]; VNone]; VList [VList [VNum (DZ 36); VNum (DZ 37); VNum (DZ 38)]]] /\
  unlist (spec_v (ufn_op UAdd) false 7 [arr_arg ex_c1 ex_v1; arr_arg ex_c2 ex_v2]) =
    Ok [VList [VList [VNum (DZ 13); VNum (DZ 14)]; VNone]; VList [VList [VNum (DZ 36); VNum (DZ 37); VNum (DZ 38)]]].
Proof. repeat split; vm_compute; reflexivity. Qed.

(* the error half: lists of lengths (2, 1) against lists of lengths (1, 2) *)
Example model_refines_spec_error_half :
  jag ex_c1 = true /\ jag ex_c3 = true /\ to_list ex_c1 = Ok ex_v1 /\ to_list ex_c3 = Ok ex_v3 /\
  model_fuel_bound ex_c1 ex_c3 = 6%nat /\
  obs (Broadcast.apply (ufn_op UAdd) None 6 [MC ex_c1; MC ex_c3]) = Err EValue /\
  unlist (spec_v (ufn_op UAdd) false 7 [arr_arg ex_c1 ex_v1; arr_arg ex_c3 ex_v3]) = Err EValue.
Proof. repeat split; vm_compute; reflexivity. Qed.

(* the bound is needed: with less fuel the model (and the specification) run out *)
Example model_fuel_is_needed :
  obs (Broadcast.apply (ufn_op UAdd) None 3 [MC ex_c1; MC ex_c2]) = Err EFuel.
Proof. vm_compute. reflexivity. Qed.
