"""C16 implementation side: runs the REAL Python layer of /repo (under pyshim, real libawkward behind it) on
case lines read from stdin, one result line per case on stdout.

  (id buffers (OPT...) LAYOUT)     to_buffers / from_buffers (containers of arrays, of raw bytes, form as JSON text)
  (id pickle  (OPT...) LAYOUT)     pickle.dumps / loads of ak.Array (and of ak.Record with (rec AT))
  (id numpy   (OPT...) LAYOUT)     to_numpy (allow_missing both ways), from_numpy back (regulararray both ways)
  (id numpy2  (OPT...) LAYOUT)     LAYOUT = (np DT (shape) (data)) used as a raw ndarray (+ (mask (bits))) : from_numpy, ak.Array(.), to_numpy back
  (id arrow   (OPT...) LAYOUT)     to_arrow(list_to32, string_to32, allow_tensor), .to_pylist(), from_arrow back

OPT: (fk default|custom|callable) (kf default|custom|callable) (pstart N) (parts n1 n2 ..) (repart n1 n2 ..)
     (proto P) (rec AT) (l32 B) (s32 B) (tensor B) (mask (b..)|scalar0)
LAYOUT: syntax of /verif/impl/drv/drv_common.h plus
     dtypes float16 complex64 complex128 datetime64[U] timedelta64[U]; data atoms: int | nan | inf | -inf | nat | (c RE IM)
     numpy2 only: dtypes U, >U, Un, S, Sn (NumPy unicode / bytes arrays); data atoms xHEX (UTF-8 bytes of the str / the bytes)
     (par ARR REC L) with ARR in none string bytestring char byte categorical
     (virt F L LAYOUT)  VirtualArray over an ArrayGenerator (F: form given, L: length given)

Result line: (id ok ITEM...) | (id err CLASS HASH xMSG) | (id crash)
"""
import sys
import os
import json
import hashlib
import math
import pickle
import datetime

sys.path.insert(0, os.environ.get('VERIF_ROOT', '/verif'))
from pyshim.install import install  # noqa: E402

install()
import numpy as np  # noqa: E402
import awkward as ak  # noqa: E402
from pyshim.driver import DriverCrashed  # noqa: E402

L = ak.layout


# ------------------------------------------------------------------ S-expressions
def sx_parse(s):
    pos = 0
    n = len(s)
    stack = [[]]
    while pos < n:
        ch = s[pos]
        if ch in ' \t\r\n':
            pos += 1
        elif ch == '(':
            stack.append([])
            pos += 1
        elif ch == ')':
            top = stack.pop()
            stack[-1].append(top)
            pos += 1
        else:
            q = pos
            while q < n and s[q] not in ' \t\r\n()':
                q += 1
            stack[-1].append(s[pos:q])
            pos = q
    if len(stack) != 1 or len(stack[0]) != 1:
        raise ValueError('bad s-expression')
    return stack[0][0]


def sx_str(t):
    if isinstance(t, (list, tuple)):
        return '(' + ' '.join(sx_str(x) for x in t) + ')'
    return str(t)


def hx(s):
    if isinstance(s, str):
        s = s.encode('utf-8', 'surrogateescape')
    return 'x' + s.hex()


# ------------------------------------------------------------------ layouts from text
INDEX = {'i32': (L.Index32, np.int32), 'u32': (L.IndexU32, np.uint32), 'i64': (L.Index64, np.int64)}
LO = {'i32': L.ListOffsetArray32, 'u32': L.ListOffsetArrayU32, 'i64': L.ListOffsetArray64}
LA = {'i32': L.ListArray32, 'u32': L.ListArrayU32, 'i64': L.ListArray64}
IX = {'i32': L.IndexedArray32, 'u32': L.IndexedArrayU32, 'i64': L.IndexedArray64}
IXO = {'i32': L.IndexedOptionArray32, 'i64': L.IndexedOptionArray64}
UN = {'i32': L.UnionArray8_32, 'u32': L.UnionArray8_U32, 'i64': L.UnionArray8_64}


def ints(t):
    return [int(x) for x in t]


def mkindex(w, t):
    cls, dt = INDEX[w]
    return cls(np.array(ints(t), dtype=np.int64).astype(dt))


def np_from_sx(dt, shape, data):
    shape = tuple(ints(shape))
    dtype = np.dtype(dt)
    if dtype.kind in 'US':
        # data atoms xHEX: the UTF-8 bytes of a str ('U'; invalid bytes = lone surrogates, surrogateescape) / the raw bytes ('S');
        # dt without a width ('U', '>U', 'S') takes the width of the longest item, 'U7' / 'S7' pad (or cut) to that width
        raw = [bytes.fromhex(x[1:]) for x in data]
        vals = [b.decode('utf-8', 'surrogateescape') for b in raw] if dtype.kind == 'U' else raw
        if dtype.itemsize == 0:
            dtype = np.dtype('%s%s%d' % ('>' if dt.startswith('>') else '', dtype.kind, max([len(v) for v in vals] + [1])))
        arr = np.array(vals, dtype=dtype) if vals else np.array([], dtype=dtype)
    elif dtype.kind in 'Mm':
        vals = [np.iinfo(np.int64).min if x == 'nat' else int(x) for x in data]
        arr = np.array(vals, dtype=np.int64).view(dtype)
    elif dtype.kind == 'c':
        arr = np.array([complex(fl(x[1]), fl(x[2])) if isinstance(x, list) else complex(fl(x), 0.0) for x in data], dtype=dtype)
    elif dtype.kind == 'f':
        arr = np.array([fl(x) for x in data], dtype=dtype)
    elif dtype.kind == 'b':
        arr = np.array([int(x) != 0 for x in data], dtype=dtype)
    elif dtype.kind == 'u':
        arr = np.array([int(x) for x in data], dtype=np.uint64).astype(dtype)
    else:
        arr = np.array([int(x) for x in data], dtype=np.int64).astype(dtype)
    n = 1
    for s in shape:
        n *= s
    if n != len(arr):
        # more data than the shape needs is not expressible for a contiguous ndarray: keep the prefix
        arr = arr[:n]
    return arr.reshape(shape)


def fl(x):
    if x == 'nan':
        return float('nan')
    if x == 'inf':
        return float('inf')
    if x == '-inf':
        return float('-inf')
    if x.startswith('f:'):
        return float.fromhex(x[2:])
    return float(int(x))


class Gen(object):
    """picklable-free generator call-back of a VirtualArray"""

    def __init__(self, layout):
        self.layout = layout
        self.calls = 0

    def __call__(self):
        self.calls += 1
        return self.layout


def strip_virt(t):
    """the same layout text without VirtualArray wrappers (the eager twin)"""
    if isinstance(t, list):
        if t and t[0] == 'virt':
            return strip_virt(t[3])
        return [strip_virt(x) for x in t]
    return t


def layout_from_sx(t):
    h = t[0]
    if h == 'np':
        return L.NumpyArray(np_from_sx(t[1], t[2], t[3]))
    if h == 'empty':
        return L.EmptyArray()
    if h == 'lo':
        return LO[t[1]](mkindex(t[1], t[2]), layout_from_sx(t[3]))
    if h == 'la':
        return LA[t[1]](mkindex(t[1], t[2]), mkindex(t[1], t[3]), layout_from_sx(t[4]))
    if h == 'reg':
        return L.RegularArray(layout_from_sx(t[3]), int(t[1]), int(t[2]))
    if h == 'ix':
        return IX[t[1]](mkindex(t[1], t[2]), layout_from_sx(t[3]))
    if h == 'ixo':
        return IXO[t[1]](mkindex(t[1], t[2]), layout_from_sx(t[3]))
    if h == 'bym':
        return L.ByteMaskedArray(L.Index8(np.array(ints(t[1]), dtype=np.int64).astype(np.int8)), layout_from_sx(t[3]),
                                 int(t[2]) != 0)
    if h == 'bim':
        return L.BitMaskedArray(L.IndexU8(np.array(ints(t[1]), dtype=np.int64).astype(np.uint8)), layout_from_sx(t[5]),
                                int(t[2]) != 0, int(t[4]), int(t[3]) != 0)
    if h == 'unm':
        return L.UnmaskedArray(layout_from_sx(t[1]))
    if h == 'un':
        tags = L.Index8(np.array(ints(t[2]), dtype=np.int64).astype(np.int8))
        return UN[t[1]](tags, mkindex(t[1], t[3]), [layout_from_sx(x) for x in t[4:]])
    if h == 'rec':
        cs = [layout_from_sx(x) for x in t[3:]]
        keys = None if t[2] == 'tuple' else list(t[2])
        return L.RecordArray(cs, keys, int(t[1]))
    if h == 'par':
        c = layout_from_sx(t[3])
        if t[1] != 'none':
            c.setparameter('__array__', t[1])
        if t[2] != 'none':
            c.setparameter('__record__', t[2])
        return c
    if h == 'parx':   # (parx xKEY xJSON layout): arbitrary parameter
        c = layout_from_sx(t[3])
        c.setparameter(bytes.fromhex(t[1][1:]).decode(), json.loads(bytes.fromhex(t[2][1:]).decode()))
        return c
    if h == 'virt':
        inner = layout_from_sx(t[3])
        form = inner.form if int(t[1]) else None
        length = len(inner) if int(t[2]) else None
        gen = L.ArrayGenerator(Gen(inner), (), {}, form=form, length=length)
        return L.VirtualArray(gen, None)
    raise ValueError('layout_from_sx: ' + str(h))


# ------------------------------------------------------------------ layouts to text
WNAME = {'Index32': 'i32', 'IndexU32': 'u32', 'Index64': 'i64', 'Index8': 'i8', 'IndexU8': 'u8'}


def dump_index(ix):
    return '(' + ' '.join(str(int(x)) for x in np.asarray(ix).tolist()) + ')'


def datum_text(x):
    """one leaf as text; numbers that are integral print as integers"""
    if isinstance(x, (bool, np.bool_)):
        return '1' if x else '0'
    if isinstance(x, (int, np.integer)):
        return str(int(x))
    if isinstance(x, (float, np.floating)):
        x = float(x)
        if math.isnan(x):
            return 'nan'
        if math.isinf(x):
            return 'inf' if x > 0 else '-inf'
        if x == math.floor(x) and abs(x) < 9.0e18:
            return str(int(x))
        return 'f:' + x.hex()
    if isinstance(x, (complex, np.complexfloating)):
        x = complex(x)
        return '(c %s %s)' % (datum_text(x.real), datum_text(x.imag))
    raise TypeError(type(x))


def dump_numpy(arr):
    arr = np.ascontiguousarray(arr)
    dt = arr.dtype
    name = dt.name if dt.kind not in 'Mm' else str(dt)
    sh = '(' + ' '.join(str(s) for s in arr.shape) + ')'
    flat = arr.reshape(-1)
    if dt.kind in 'Mm':
        iv = flat.view(np.int64)
        data = ' '.join('nat' if int(v) == np.iinfo(np.int64).min else str(int(v)) for v in iv)
    else:
        data = ' '.join(datum_text(v) for v in flat.tolist()) if dt.kind != 'f' or dt.itemsize <= 8 else \
            ' '.join(datum_text(float(v)) for v in flat)
    return '(np %s %s (%s))' % (name, sh, data)


def dump_raw(c):
    if isinstance(c, L.NumpyArray):
        return dump_numpy(np.asarray(c))
    if isinstance(c, L.EmptyArray):
        return '(empty)'
    for w, cls in LO.items():
        if isinstance(c, cls):
            return '(lo %s %s %s)' % (w, dump_index(c.offsets), sx_from_layout(c.content))
    for w, cls in LA.items():
        if isinstance(c, cls):
            return '(la %s %s %s %s)' % (w, dump_index(c.starts), dump_index(c.stops), sx_from_layout(c.content))
    if isinstance(c, L.RegularArray):
        return '(reg %d %d %s)' % (c.size, len(c), sx_from_layout(c.content))
    for w, cls in IX.items():
        if isinstance(c, cls):
            return '(ix %s %s %s)' % (w, dump_index(c.index), sx_from_layout(c.content))
    for w, cls in IXO.items():
        if isinstance(c, cls):
            return '(ixo %s %s %s)' % (w, dump_index(c.index), sx_from_layout(c.content))
    if isinstance(c, L.ByteMaskedArray):
        return '(bym %s %d %s)' % (dump_index(c.mask), 1 if c.valid_when else 0, sx_from_layout(c.content))
    if isinstance(c, L.BitMaskedArray):
        return '(bim %s %d %d %d %s)' % (dump_index(c.mask), 1 if c.valid_when else 0, 1 if c.lsb_order else 0, len(c),
                                         sx_from_layout(c.content))
    if isinstance(c, L.UnmaskedArray):
        return '(unm %s)' % sx_from_layout(c.content)
    for w, cls in UN.items():
        if isinstance(c, cls):
            return '(un %s %s %s %s)' % (w, dump_index(c.tags), dump_index(c.index),
                                         ' '.join(sx_from_layout(x) for x in c.contents))
    if isinstance(c, L.RecordArray):
        keys = 'tuple' if c.istuple else '(' + ' '.join(c.keys()) + ')'
        return ('(rec %d %s %s)' % (len(c), keys, ' '.join(sx_from_layout(x) for x in c.contents))).replace(' )', ')')
    if isinstance(c, L.VirtualArray):
        return sx_from_layout(c.array)
    return '(unknown %s)' % type(c).__name__


def sx_from_layout(c):
    if isinstance(c, ak.partition.PartitionedArray):
        return '(parts %s)' % ' '.join(sx_from_layout(p) for p in c.partitions)
    raw = dump_raw(c)
    if isinstance(c, L.VirtualArray):
        return raw
    ps = c.parameters
    arr = ps.get('__array__')
    rec = ps.get('__record__')
    others = sorted(k for k in ps if k not in ('__array__', '__record__') and ps[k] is not None)
    for k in others:
        raw = '(parx %s %s %s)' % (hx(k), hx(json.dumps(ps[k], sort_keys=True)), raw)
    if arr is None and rec is None:
        return raw
    if not (isinstance(arr, str) or arr is None) or not (isinstance(rec, str) or rec is None):
        return '(parx %s %s %s)' % (hx('__array__/__record__'), hx(json.dumps([arr, rec])), raw)
    return '(par %s %s %s)' % (arr if arr is not None else 'none', rec if rec is not None else 'none', raw)


# ------------------------------------------------------------------ values (ak.to_list results, pyarrow to_pylist results)
DT_NS = [0]     # 1: print date-times in nanoseconds whatever their unit (Arrow comparisons); 2: also NaT as none


def value_text(v, tuples_as_records=False):
    if v is None:
        return 'none'
    if isinstance(v, (bool, np.bool_)):
        return 'true' if v else 'false'
    if isinstance(v, (np.datetime64, np.timedelta64)):       # (timedelta64 is a subclass of np.signedinteger)
        iv = int(v.view(np.int64))
        if DT_NS[0]:
            if iv == np.iinfo(np.int64).min:
                return 'none' if DT_NS[0] == 2 else '(%s ns nat)' % ('dt' if isinstance(v, np.datetime64) else 'td')
            return '(%s ns %d)' % ('dt' if isinstance(v, np.datetime64) else 'td',
                                   int(v.astype('M8[ns]' if isinstance(v, np.datetime64) else 'm8[ns]').view(np.int64)))
        return '(%s %s %s)' % ('dt' if isinstance(v, np.datetime64) else 'td', str(v.dtype).replace('[', ':').replace(']', ''),
                               'nat' if iv == np.iinfo(np.int64).min else iv)
    if isinstance(v, (int, np.integer, float, np.floating, complex, np.complexfloating)):
        return datum_text(v)
    if isinstance(v, str):
        return '(s' + ''.join(' %d' % b for b in v.encode('utf-8', 'surrogateescape')) + ')'
    if isinstance(v, (bytes, bytearray)):
        return '(b' + ''.join(' %d' % b for b in bytes(v)) + ')'
    if isinstance(v, np.ndarray):
        return value_text(v.tolist(), tuples_as_records)
    if isinstance(v, list):
        return '(l' + ''.join(' ' + value_text(x, tuples_as_records) for x in v) + ')'
    if isinstance(v, tuple):
        if tuples_as_records:
            return '(r' + ''.join(' (%d %s)' % (i, value_text(x, True)) for i, x in enumerate(v)) + ')'
        return '(t' + ''.join(' ' + value_text(x, tuples_as_records) for x in v) + ')'
    if isinstance(v, dict):
        return '(r' + ''.join(' (%s %s)' % (k, value_text(x, tuples_as_records)) for k, x in v.items()) + ')'
    if isinstance(v, np.datetime64):
        iv = int(v.view(np.int64))
        return '(dt %s %s)' % (str(v.dtype).replace('[', ':').replace(']', ''), 'nat' if iv == np.iinfo(np.int64).min else iv)
    if isinstance(v, np.timedelta64):
        iv = int(v.view(np.int64))
        return '(td %s %s)' % (str(v.dtype).replace('[', ':').replace(']', ''), 'nat' if iv == np.iinfo(np.int64).min else iv)
    if type(v).__module__.startswith('pandas') and hasattr(v, 'value'):
        return '(%s ns %d)' % ('td' if 'delta' in type(v).__name__.lower() else 'dt', int(v.value))
    if isinstance(v, datetime.datetime):
        d = v.replace(tzinfo=None) - datetime.datetime(1970, 1, 1)
        return '(dt ns %d)' % ((d.days * 86400 + d.seconds) * 10 ** 9 + d.microseconds * 1000)
    if isinstance(v, datetime.date):
        return '(dt ns %d)' % ((v - datetime.date(1970, 1, 1)).days * 86400 * 10 ** 9)
    if isinstance(v, datetime.timedelta):
        return '(td ns %d)' % ((v.days * 86400 + v.seconds) * 10 ** 9 + v.microseconds * 1000)
    if isinstance(v, ak.highlevel.Array):
        return value_text(ak.to_list(v), tuples_as_records)
    if isinstance(v, ak.highlevel.Record):
        return value_text(ak.to_list(v), tuples_as_records)
    if type(v).__module__.startswith('pandas'):
        return '(pandas %s)' % hx(repr(v))
    raise TypeError('value_text: %r' % type(v))


# ------------------------------------------------------------------ result pieces
def err_item(name, e):
    if isinstance(e, DriverCrashed):
        return '(%s crash)' % name
    if isinstance(e, ValueError):
        cls = 'value'
    elif isinstance(e, RuntimeError):
        cls = 'runtime'
    else:
        cls = 'other'
    msg = '%s: %s' % (type(e).__name__, e)
    h = hashlib.sha1(msg.encode('utf-8', 'replace')).hexdigest()[:10]
    return '(%s err %s %s %s %s)' % (name, cls, type(e).__name__, h, hx(msg[:4000]))


def typestr(x):
    return hx(str(ak.type(x)))


def form_json(layout):
    if isinstance(layout, ak.partition.PartitionedArray):
        return '(' + ' '.join(hx(p.form.tojson(False, True)) for p in layout.partitions) + ')'
    return hx(layout.form.tojson(False, True))


def lengths_of(layout):
    if isinstance(layout, ak.partition.PartitionedArray):
        return '(' + ' '.join(str(len(p)) for p in layout.partitions) + ')'
    return str(len(layout))


def describe(name, layout, with_dump=True, valid=True):
    """(name ok (val V) (type T) (form F) (len N) [(valid B)] [(dump D)])"""
    arr = ak.Array(layout) if not isinstance(layout, ak.highlevel.Array) else layout
    lay = arr.layout
    items = ['(val %s)' % value_text(ak.to_list(arr)), '(type %s)' % typestr(arr), '(form %s)' % form_json(lay),
             '(len %s)' % lengths_of(lay)]
    if valid:
        try:
            items.append('(valid %d)' % (1 if ak.is_valid(arr) else 0))
        except DriverCrashed:
            raise
        except Exception as e:    # noqa
            items.append(err_item('valid', e))
    if with_dump:
        items.append('(dump %s)' % sx_from_layout(lay))
    return '(%s ok %s)' % (name, ' '.join(items))


def guarded(name, f):
    try:
        return f()
    except DriverCrashed:
        return '(%s crash)' % name
    except Exception as e:   # noqa
        return err_item(name, e)


def opts_of(t):
    out = {}
    for o in t:
        out[o[0]] = o[1:]
    return out


EAGER = [None]      # eager twin of the current input when it contains VirtualArrays


def reference(o, arr):
    """the array the results are compared with: the input itself, or its eager twin"""
    if EAGER[0] is None:
        return arr
    return partition(EAGER[0], o)


def partition(layout, o):
    """apply (parts ..) / (repart ..) options"""
    if 'parts' in o:
        lens = ints(o['parts'])
        parts, at = [], 0
        for n in lens:
            parts.append(layout[at:at + n])
            at += n
        layout = ak.partition.IrregularlyPartitionedArray(parts)
    if 'partitioned' in o:
        lens = ints(o['partitioned'])
        parts, at = [], 0
        for n in lens:
            parts.append(ak.Array(layout[at:at + n]))
            at += n
        layout = ak.partitioned(parts, highlevel=False)
    if 'repart' in o:
        layout = ak.repartition(ak.Array(layout), ints(o['repart']), highlevel=False)
    return layout


# ------------------------------------------------------------------ buffers
def fk_variant(kind):
    if kind == 'custom':
        return 'N{id}'
    if kind == 'callable':
        return lambda **v: 'k' + v['id'] + ('L' if v.get('layout') is not None else 'E')
    return 'node{id}'


def kf_variant(kind):
    if kind == 'custom':
        return '{attribute}/{form_key}/{partition}'
    if kind == 'callable':
        return lambda **v: '%s:%s:%s' % (v['partition'], v['attribute'], v['form_key'])
    return 'part{partition}-{form_key}-{attribute}'


TRACE = []
_orig_f2l = ak.operations.convert._form_to_layout


def _traced_f2l(form, container, partnum, key_format, length, lazy_cache, lazy_cache_key):
    TRACE.append((partnum, form.form_key, length))
    return _orig_f2l(form, container, partnum, key_format, length, lazy_cache, lazy_cache_key)


ak.operations.convert._form_to_layout = _traced_f2l


def container_text(container):
    items = []
    for k in container:
        v = np.asarray(container[k])
        if v.dtype.kind in 'iu' or v.dtype.kind == 'b':
            body = dump_numpy(v.reshape(-1) if v.ndim != 1 else v)
        else:
            body = dump_numpy(v)
        items.append('(%s %s)' % (hx(k), body))
    return '(container %s)' % ' '.join(items)


def run_buffers(o, layout):
    out = []
    fk = fk_variant(o.get('fk', ['default'])[0])
    kf = kf_variant(o.get('kf', ['default'])[0])
    pstart = int(o.get('pstart', ['0'])[0])
    arr = partition(layout, o)
    out.append(guarded('in', lambda: describe('in', reference(o, arr))))
    try:
        form, length, container = ak.to_buffers(arr, partition_start=pstart, form_key=fk, key_format=kf)
    except DriverCrashed:
        return out + ['(tobuf crash)']
    except Exception as e:   # noqa
        return out + [err_item('tobuf', e)]
    out.append('(tobuf ok (form %s) (len %s))' % (hx(form.tojson(False, True)),
                                                  str(length) if not isinstance(length, list) else '(' + ' '.join(map(str, length)) + ')'))
    out.append(container_text(container))
    raw = dict((k, bytes(np.ascontiguousarray(v).tobytes())) for k, v in container.items())
    variants = [
        ('arr', lambda: ak.from_buffers(form, length, container, partition_start=pstart, key_format=kf)),
        ('bytes', lambda: ak.from_buffers(form, length, raw, partition_start=pstart, key_format=kf)),
        ('json', lambda: ak.from_buffers(form.tojson(), length, raw, partition_start=pstart, key_format=kf)),
        ('dict', lambda: ak.from_buffers(json.loads(form.tojson()), length,
                                         dict((k, bytearray(v)) for k, v in raw.items()), partition_start=pstart, key_format=kf)),
        ('lazy', lambda: ak.from_buffers(form, length, dict((k, bytearray(v)) for k, v in raw.items()), partition_start=pstart,
                                         key_format=kf, lazy=True)),
    ]
    if 'lazy' not in o:
        variants = [v for v in variants if v[0] != 'lazy']
    for name, f in variants:
        del TRACE[:]

        def one(name=name, f=f):
            res = f()
            d = describe(name, res)
            if name == 'arr':
                d = d[:-1] + ' (trace %s))' % ' '.join('(%s %s %s)' % (p, hx(k if k is not None else ''), 'none' if n is None else int(n))
                                                         for p, k, n in TRACE)
            return d
        out.append(guarded(name, one))
    return out


# ------------------------------------------------------------------ pickle
def run_pickle(o, layout):
    out = []
    proto = int(o.get('proto', ['2'])[0])
    arr = partition(layout, o)
    if 'rec' in o:
        at = int(o['rec'][0])
        rec = ak.Record(L.Record(layout, at))
        out.append('(in ok (val %s) (type %s) (form %s))' % (value_text(ak.to_list(rec)), typestr(rec), form_json(rec.layout.array)))

        def f():
            s = pickle.dumps(rec, protocol=proto)
            r2 = pickle.loads(s)
            return '(rt ok (val %s) (type %s) (form %s) (cls %s) (nbytes %d))' % (
                value_text(ak.to_list(r2)), typestr(r2), form_json(r2.layout.array), type(r2).__name__, len(s))
        out.append(guarded('rt', f))
        return out
    a = ak.Array(arr)
    out.append(guarded('in', lambda: describe('in', reference(o, arr), with_dump=False)))

    def f():
        s = pickle.dumps(a, protocol=proto)
        b = pickle.loads(s)
        return describe('rt', b)[:-1] + ' (nbytes %d))' % len(s)
    out.append(guarded('rt', f))
    return out


# ------------------------------------------------------------------ numpy
def np_text(x):
    """value of a NumPy (masked / structured) array as to_list would print it"""
    if isinstance(x, np.ma.MaskedArray):
        data = np.ma.getdata(x)
        mask = np.ma.getmaskarray(x)
        return np_text_m(data, mask)
    return np_text_m(x, None)


def np_text_m(data, mask):
    if data.ndim == 0:
        if mask is not None and mask.dtype.names is not None:
            # structured mask (one flag per field): a record whose fields are all masked is a missing record
            flags = [bool(mask[n]) for n in mask.dtype.names]
            if flags and all(flags):
                return 'none'
        elif mask is not None and bool(mask):
            return 'none'
        if data.dtype.names is not None:
            return '(r' + ''.join(' (%s %s)' % (n, np_text_m(data[n], None if mask is None or mask.dtype.names is None else mask[n]))
                                  for n in data.dtype.names) + ')'
        if isinstance(data, (str, bytes)):          # np.str_ / np.bytes_ items index like str / bytes, not like 0-d arrays
            return value_text(str(data) if isinstance(data, str) else bytes(data))
        v = data[()]
        if data.dtype.kind in 'SU':
            return value_text(v.item() if hasattr(v, 'item') else v)
        if data.dtype.kind in 'Mm':
            return value_text(v)
        return value_text(v.item())
    return '(l' + ''.join(' ' + np_text_m(data[i], None if mask is None else mask[i]) for i in range(data.shape[0])) + ')'


def np_meta(x):
    return '(dtype %s) (shape (%s)) (masked %d)' % (hx(str(x.dtype)), ' '.join(str(s) for s in x.shape),
                                                  1 if isinstance(x, np.ma.MaskedArray) else 0)


def run_numpy(o, layout):
    out = []
    arr = partition(layout, o)
    a = ak.Array(arr)
    out.append(guarded('in', lambda: describe('in', a, with_dump=False)))
    for am in (True, False):
        nm = 'tonp_m' if am else 'tonp'

        def f(am=am, nm=nm):
            x = ak.to_numpy(a, allow_missing=am)
            items = ['(%s ok (val %s) %s)' % (nm, np_text(x), np_meta(x))]
            for ra in (False, True):
                nb = 'back_%s_%s' % ('m' if am else 'n', 'reg' if ra else 'nd')

                def g(ra=ra, nb=nb):
                    b = ak.from_numpy(x, regulararray=ra)
                    x2 = ak.to_numpy(b, allow_missing=am)
                    return describe(nb, b)[:-1] + ' (again %s))' % np_text(x2)
                items.append(guarded(nb, g))
            return ' '.join(items)
        out.append(guarded(nm, f))
    return out


def run_numpy2(o, t):
    """raw ndarray first"""
    out = []
    x = np_from_sx(t[1], t[2], t[3])
    if 'mask' in o:
        m = o['mask'][0]
        if m == 'nomask':
            x = np.ma.MaskedArray(x)
        else:
            mk = np.array([int(b) != 0 for b in m], dtype=np.bool_).reshape(x.shape)
            x = np.ma.MaskedArray(x, mk)
    if 'transpose' in o and x.ndim >= 2:
        x = x.swapaxes(0, 1)
    if 'step' in o and x.ndim >= 1:
        x = x[::int(o['step'][0])]
    out.append('(in ok (val %s) %s)' % (np_text(x), np_meta(x)))
    out.append(guarded('ctor', lambda: describe('ctor', ak.Array(x))))       # the constructor takes ndarrays through from_numpy
    for ra in (False, True):
        nm = 'from_%s' % ('reg' if ra else 'nd')

        def f(ra=ra, nm=nm):
            b = ak.from_numpy(x, regulararray=ra)
            items = [describe(nm, b)]
            for am in (True, False):
                nb = 'to_%s_%s' % ('reg' if ra else 'nd', 'm' if am else 'n')

                def g(am=am, nb=nb):
                    y = ak.to_numpy(b, allow_missing=am)
                    return '(%s ok (val %s) %s)' % (nb, np_text(y), np_meta(y))
                items.append(guarded(nb, g))
            return ' '.join(items)
        out.append(guarded(nm, f))
    return out


# ------------------------------------------------------------------ arrow
def run_arrow(o, layout):
    import pyarrow
    out = []
    DT_NS[0] = 1
    try:
        return run_arrow1(o, layout, out)
    finally:
        DT_NS[0] = 0


def run_arrow1(o, layout, out):
    arr = partition(layout, o)
    a = ak.Array(arr)
    out.append(guarded('in', lambda: describe('in', reference(o, arr), with_dump=False)))
    kw = dict(list_to32=int(o.get('l32', ['0'])[0]) != 0, string_to32=int(o.get('s32', ['1'])[0]) != 0,
              bytestring_to32=int(o.get('s32', ['1'])[0]) != 0, allow_tensor=int(o.get('tensor', ['1'])[0]) != 0)
    try:
        pa = ak.to_arrow(a, **kw)
    except DriverCrashed:
        return out + ['(toarrow crash)']
    except Exception as e:   # noqa
        return out + [err_item('toarrow', e)]
    out.append('(toarrow ok (atype %s) (cls %s) (len %s))' % (hx(str(getattr(pa, 'type', '?'))), type(pa).__name__,
                                                            len(pa) if hasattr(pa, '__len__') else pa.shape[0]))

    def validate():
        if hasattr(pa, 'validate'):
            pa.validate(full=True)
        return '(avalid ok)'
    out.append(guarded('avalid', validate))
    if hasattr(pa, 'to_pylist'):
        out.append(guarded('pylist', lambda: '(pylist ok (val %s))' % value_text(pa.to_pylist())))
    else:
        out.append(guarded('pylist', lambda: '(pylist ok (val %s) (tensor 1))' % value_text(pa.to_numpy().tolist())))
    out.append(guarded('back', lambda: describe('back', ak.from_arrow(pa))))
    return out


# ------------------------------------------------------------------ main loop
def handle(line):
    t = sx_parse(line)
    cid, op, o, lay = t[0], t[1], opts_of(t[2]), t[3]
    try:
        if op == 'numpy2':
            items = run_numpy2(o, lay)
        else:
            layout = layout_from_sx(lay)
            EAGER[0] = layout_from_sx(strip_virt(lay)) if 'virt' in line else None
            items = {'buffers': run_buffers, 'pickle': run_pickle, 'numpy': run_numpy, 'arrow': run_arrow}[op](o, layout)
        return '(%s ok %s)' % (cid, ' '.join(items))
    except DriverCrashed:
        return '(%s crash)' % cid
    except Exception as e:   # noqa
        return '(%s %s)' % (cid, err_item('top', e)[1:-1].replace('top ', '', 1))


def main():
    for line in sys.stdin:
        line = line.strip()
        if not line or line.startswith('#'):
            continue
        try:
            res = handle(line)
        except Exception as e:   # noqa  (parse errors)
            res = '(? bad %s)' % hx(repr(e))
        sys.stdout.write(res + '\n')
        sys.stdout.flush()


if __name__ == '__main__':
    main()
