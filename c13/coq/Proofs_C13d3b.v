(** Proofs_C13d3b.v -- continuation of Proofs_C13d3.v: k_spec theorems for the NumpyArray row copies, the complex fills,
    awkward_sorting_ranges and the complex reducers. *)
From Coq Require Import ZArith List Bool Lia ZifyBool.
From AwkV Require Import Base.
From AwkKernels Require Import Kernels KLemmas Proofs_C13 Proofs_C13b Proofs_C13c Proofs_C13d Proofs_C13d3.
Import ListNotations.
Open Scope Z_scope.

Ltac Zify.zify_post_hook ::= Z.to_euclidean_division_equations.

(* ================================================================================================ *)
(** * 5 (spec). row copies: row i of the output (stride cells) is the stride cells of fromptr starting at [src (pos i)] *)

Lemma d3_rows_spec (src : Z -> Z -> Z) toptr fromptr len stride pos :
  0 <= len -> 0 <= stride -> len <= zlen pos -> len * stride <= zlen toptr ->
  (forall i b, 0 <= i < len -> 0 <= b < stride -> 0 <= src (at_ pos i) b < zlen fromptr) ->
  exists out,
    kfor 0 len (fun i out => let* p := kget pos i in
       kfor 0 stride (fun b out => let* x := kget fromptr (src p b) in kupd out (i * stride + b) x) out) toptr = KOk out /\
    zlen out = zlen toptr /\
    (forall i b, 0 <= i < len -> 0 <= b < stride -> at_ out (i * stride + b) = at_ fromptr (src (at_ pos i) b)) /\
    (forall c, len * stride <= c -> at_ out c = at_ toptr c).
Proof.
  intros Hlen Hs Hp Ht Hr.
  match goal with |- exists out, kfor 0 len ?body _ = _ /\ _ =>
    destruct (kfor_inv body
      (fun i out => zlen out = zlen toptr /\
         (forall i' b, 0 <= i' < i -> 0 <= b < stride -> at_ out (i' * stride + b) = at_ fromptr (src (at_ pos i') b)) /\
         (forall c, i * stride <= c -> at_ out c = at_ toptr c))
      0 len toptr) as (s' & E & P); auto end.
  - split; auto. split; auto. intros i' b Hi'. lia.
  - intros i out Hi (L & A & B). rewrite (kget_at pos) by lia. cbn [kbind].
    match goal with |- exists s', kfor 0 stride ?body _ = _ /\ _ =>
      destruct (kfor_inv body
        (fun b out' => zlen out' = zlen toptr /\
           (forall i' b', 0 <= i' < i -> 0 <= b' < stride -> at_ out' (i' * stride + b') = at_ fromptr (src (at_ pos i') b')) /\
           (forall b', 0 <= b' < b -> at_ out' (i * stride + b') = at_ fromptr (src (at_ pos i) b')) /\
           (forall c, i * stride + b <= c -> at_ out' c = at_ toptr c))
        0 stride out) as (s1 & E1 & L1 & A1 & C1 & B1); auto end.
    + split; auto. split; auto. split; [intros b' Hb'; lia|]. intros c Hc. apply B. lia.
    + intros b o Hb (L1 & A1 & C1 & B1). specialize (Hr i b Hi Hb).
      assert (0 <= i * stride + b < len * stride) by nia.
      rewrite (kget_at fromptr) by lia. cbn [kbind]. rewrite kupd_ok by lia.
      eexists; split; eauto. rewrite zlen_set_nth. split; auto. split; [|split].
      * intros i' b' Hi' Hb'. rewrite d3_at_set by nia. replace (i' * stride + b' =? i * stride + b) with false by nia.
        apply A1; auto.
      * intros b' Hb'. rewrite d3_at_set by nia. destruct (Z.eq_dec b' b) as [->|Ne].
        -- now rewrite Z.eqb_refl.
        -- replace (i * stride + b' =? i * stride + b) with false by lia. apply C1. lia.
      * intros c Hc. rewrite d3_at_set by nia. replace (c =? i * stride + b) with false by lia. apply B1. lia.
    + exists s1. split; auto. split; auto. split; [|intros c Hc; apply B1; lia].
      intros i' b Hi' Hb. destruct (Z.eq_dec i' i) as [->|Ne]; [apply C1; auto|apply A1; auto; lia].
  - exists s'. destruct P as (L & A & B). auto.
Qed.

Theorem NumpyArray_contiguous_copy_spec toptr fromptr len stride pos :
  0 <= len -> 0 <= stride -> len <= zlen pos -> len * stride <= zlen toptr ->
  (forall i, 0 <= i < len -> 0 <= at_ pos i /\ at_ pos i + stride <= zlen fromptr) ->
  exists out, NumpyArray_contiguous_copy toptr fromptr len stride pos = KOk out /\ zlen out = zlen toptr /\
    (forall i b, 0 <= i < len -> 0 <= b < stride -> at_ out (i * stride + b) = at_ fromptr (at_ pos i + b)) /\
    (forall c, len * stride <= c -> at_ out c = at_ toptr c).
Proof.
  intros Hlen Hs Hp Ht Hr. unfold NumpyArray_contiguous_copy.
  apply (d3_rows_spec (fun p b => p + b)); auto. intros i b Hi Hb. specialize (Hr i Hi). lia.
Qed.

Theorem NumpyArray_getitem_next_null_spec toptr fromptr len stride pos :
  0 <= len -> 0 <= stride -> len <= zlen pos -> len * stride <= zlen toptr ->
  (forall i, 0 <= i < len -> 0 <= at_ pos i /\ (at_ pos i + 1) * stride <= zlen fromptr) ->
  exists out, NumpyArray_getitem_next_null toptr fromptr len stride pos = KOk out /\ zlen out = zlen toptr /\
    (forall i b, 0 <= i < len -> 0 <= b < stride -> at_ out (i * stride + b) = at_ fromptr (at_ pos i * stride + b)) /\
    (forall c, len * stride <= c -> at_ out c = at_ toptr c).
Proof.
  intros Hlen Hs Hp Ht Hr. unfold NumpyArray_getitem_next_null.
  apply (d3_rows_spec (fun p b => p * stride + b)); auto. intros i b Hi Hb. specialize (Hr i Hi). nia.
Qed.

(* ================================================================================================ *)
(** * 6 (spec). complex fills *)

Theorem NumpyArray_fill_tocomplex_spec toptr tooffset fromptr n :
  0 <= n -> 0 <= tooffset -> n <= zlen fromptr -> tooffset + 2 * n <= zlen toptr ->
  exists out, NumpyArray_fill_tocomplex toptr tooffset fromptr n = KOk out /\ zlen out = zlen toptr /\
    (forall i, 0 <= i < n -> at_ out (tooffset + 2 * i) = at_ fromptr i /\ at_ out (tooffset + 2 * i + 1) = 0) /\
    (forall c, 0 <= c -> c < tooffset \/ tooffset + 2 * n <= c -> at_ out c = at_ toptr c).
Proof.
  intros Hn H0 H1 H2. unfold NumpyArray_fill_tocomplex.
  match goal with |- exists out, kfor 0 n ?body _ = _ /\ _ =>
    destruct (kfor_inv body
      (fun j out => zlen out = zlen toptr /\
         (forall i, 0 <= i < j -> at_ out (tooffset + 2 * i) = at_ fromptr i /\ at_ out (tooffset + 2 * i + 1) = 0) /\
         (forall c, 0 <= c -> c < tooffset \/ tooffset + 2 * j <= c -> at_ out c = at_ toptr c))
      0 n toptr) as (s' & E & P); auto end.
  - split; auto. split; auto. intros i Hi. lia.
  - intros j out Hj (L & A & B). rewrite (kget_at fromptr) by lia. cbn [kbind].
    rewrite kupd_ok by lia. cbn [kbind]. rewrite kupd_ok by (rewrite zlen_set_nth; lia).
    eexists; split; eauto. rewrite !zlen_set_nth. split; auto. split.
    + intros i Hi. rewrite !d3_at_set by (rewrite ?zlen_set_nth; lia).
      destruct (Z.eq_dec i j) as [->|Ne].
      * replace (tooffset + 2 * j =? tooffset + 2 * j + 1) with false by lia. rewrite !Z.eqb_refl. auto.
      * replace (tooffset + 2 * i =? tooffset + 2 * j + 1) with false by lia.
        replace (tooffset + 2 * i =? tooffset + 2 * j) with false by lia.
        replace (tooffset + 2 * i + 1 =? tooffset + 2 * j + 1) with false by lia.
        replace (tooffset + 2 * i + 1 =? tooffset + 2 * j) with false by lia. apply A. lia.
    + intros c Hc Hout. rewrite !d3_at_set by (rewrite ?zlen_set_nth; lia).
      replace (c =? tooffset + 2 * j + 1) with false by lia. replace (c =? tooffset + 2 * j) with false by lia.
      apply B; auto. lia.
  - exists s'. destruct P as (L & A & B). auto.
Qed.

Theorem NumpyArray_fill_fromcomplex_spec toptr tooffset fromptr n :
  0 <= n -> 0 <= tooffset -> 2 * n <= zlen fromptr -> tooffset + n <= zlen toptr ->
  NumpyArray_fill_fromcomplex TIdeal toptr tooffset fromptr n = KOk (filled tooffset n (fun i => at_ fromptr (i * 2)) toptr).
Proof.
  intros Hn H0 H1 H2. unfold NumpyArray_fill_fromcomplex.
  rewrite (kfill_spec tooffset n _ (fun i => at_ fromptr (i * 2))); auto.
  - now rewrite Z.max_r by lia.
  - intros i Hi. rewrite (kget_at fromptr) by lia. reflexivity.
Qed.

(** pointwise reading of the same result *)
Lemma d3_NumpyArray_fill_fromcomplex_cells toptr tooffset fromptr n :
  0 <= n -> 0 <= tooffset -> 2 * n <= zlen fromptr -> tooffset + n <= zlen toptr ->
  exists out, NumpyArray_fill_fromcomplex TIdeal toptr tooffset fromptr n = KOk out /\ zlen out = zlen toptr /\
    forall c, 0 <= c ->
      at_ out c = if (tooffset <=? c) && (c <? tooffset + n) then at_ fromptr ((c - tooffset) * 2) else at_ toptr c.
Proof.
  intros Hn H0 H1 H2. rewrite NumpyArray_fill_fromcomplex_spec by auto. eexists; split; eauto.
  split; [apply zlen_filled; lia|]. intros c Hc. now rewrite at_filled by lia.
Qed.

Theorem NumpyArray_fill_fromcomplex_width tTO toptr tooffset fromptr n :
  2 * n <= zlen fromptr -> (forall i, 0 <= i < n -> fits tTO (at_ fromptr (i * 2))) ->
  NumpyArray_fill_fromcomplex tTO toptr tooffset fromptr n = NumpyArray_fill_fromcomplex TIdeal toptr tooffset fromptr n.
Proof.
  intros H1 F. unfold NumpyArray_fill_fromcomplex. apply kfill_ext. intros i Hi.
  rewrite (kget_at fromptr) by lia. cbn [kbind wrap]. now rewrite (F i Hi).
Qed.

(* ================================================================================================ *)
(** * 9 (spec). awkward_sorting_ranges: cell 0 is 0, the cell after the m-th change of parents holds the position of that
      change, the last cell (tolength - 1) holds parentslength; cells from tolength on are untouched *)

Lemma d3_changes_lt parents i m :
  1 <= i -> at_ parents (i - 1) <> at_ parents i -> i + 1 <= m ->
  changes_upto parents (Z.to_nat i) < changes_upto parents (Z.to_nat m).
Proof.
  intros Hi Ne Hm. pose proof (d3_changes_S parents i Hi) as CS.
  pose proof (d3_changes_mono parents (Z.to_nat (i + 1)) (Z.to_nat m)) as CM.
  replace (negb (at_ parents (i - 1) =? at_ parents i)) with true in CS by lia. lia.
Qed.

Theorem sorting_ranges_spec toindex tolength parents n :
  n <= zlen parents -> tolength = 2 + changes_upto parents (Z.to_nat n) -> tolength <= zlen toindex ->
  exists out, sorting_ranges toindex tolength parents n = KOk out /\ zlen out = zlen toindex /\
    at_ out 0 = 0 /\ at_ out (tolength - 1) = n /\
    (forall i, 1 <= i < n -> at_ parents (i - 1) <> at_ parents i -> at_ out (1 + changes_upto parents (Z.to_nat i)) = i) /\
    (forall c, tolength <= c -> at_ out c = at_ toindex c).
Proof.
  intros H1 Ht H2. pose proof (d3_changes_nonneg parents (Z.to_nat n)) as NN.
  unfold sorting_ranges. rewrite kupd_ok by lia. cbn [kbind].
  assert (Loop : exists out j k,
            kfor 1 n (fun i (st : list Z * Z * Z) =>
              let '(out, j, k) := st in
              let* a := kget parents (i - 1) in
              let* b := kget parents i in
              let* st' := (if negb (a =? b) then let* out' := kupd out j k in KOk (out', j + 1) else KOk (out, j)) in
              KOk (fst st', snd st', k + 1)) (set_nth toindex (Z.to_nat 0) 0, 1, 1) = KOk (out, j, k) /\
            zlen out = zlen toindex /\ at_ out 0 = 0 /\
            (forall i, 1 <= i < n -> at_ parents (i - 1) <> at_ parents i -> at_ out (1 + changes_upto parents (Z.to_nat i)) = i) /\
            (forall c, 1 + changes_upto parents (Z.to_nat n) <= c -> at_ out c = at_ toindex c)).
  { destruct (Z_le_gt_dec n 1) as [Hn|Hn].
    - rewrite kfor_empty by lia. do 3 eexists. split; eauto. rewrite zlen_set_nth. split; auto.
      split; [rewrite d3_at_set by lia; reflexivity|]. split; [intros i Hi; lia|].
      intros c Hc. rewrite d3_at_set by lia. now replace (c =? 0) with false by lia.
    - match goal with |- exists out j k, kfor 1 n ?body ?s0 = _ /\ _ =>
        destruct (kfor_inv body
          (fun i (st : list Z * Z * Z) => let '(out, j, k) := st in
             zlen out = zlen toindex /\ j = 1 + changes_upto parents (Z.to_nat i) /\ k = i /\ at_ out 0 = 0 /\
             (forall i', 1 <= i' < i -> at_ parents (i' - 1) <> at_ parents i' ->
                         at_ out (1 + changes_upto parents (Z.to_nat i')) = i') /\
             (forall c, 1 + changes_upto parents (Z.to_nat i) <= c -> at_ out c = at_ toindex c))
          1 n s0) as ([[out j] k] & E & L & J & K & Z0 & A & B); try lia end.
      + rewrite zlen_set_nth. split; auto. split; [reflexivity|]. split; auto.
        split; [rewrite d3_at_set by lia; reflexivity|]. split; [intros i' Hi'; lia|].
        intros c Hc. rewrite (d3_changes_le1 parents 1) in Hc by lia. rewrite d3_at_set by lia. now replace (c =? 0) with false by lia.
      + intros i [[out j] k] Hi (L & J & K & Z0 & A & B). subst k.
        pose proof (d3_changes_S parents i (proj1 Hi)) as CS.
        pose proof (d3_changes_mono parents (Z.to_nat (i + 1)) (Z.to_nat n)) as CM.
        pose proof (d3_changes_nonneg parents (Z.to_nat i)) as CN.
        rewrite (kget_at parents (i - 1)), (kget_at parents i) by lia. cbn [kbind].
        destruct (negb (at_ parents (i - 1) =? at_ parents i)) eqn:Ch.
        * rewrite kupd_ok by lia. cbn [kbind fst snd]. eexists; split; eauto. cbv beta iota.
          rewrite zlen_set_nth. split; auto. split; [lia|]. split; auto.
          split; [rewrite d3_at_set by lia; replace (0 =? j) with false by lia; auto|]. split.
          -- intros i' Hi' Ne. rewrite d3_at_set by (pose proof (d3_changes_nonneg parents (Z.to_nat i')); lia).
             destruct (Z.eq_dec i' i) as [->|Ne'].
             ++ replace (1 + changes_upto parents (Z.to_nat i) =? j) with true by lia. reflexivity.
             ++ pose proof (d3_changes_lt parents i' i) as LT.
                replace (1 + changes_upto parents (Z.to_nat i') =? j) with false by lia. apply A; auto. lia.
          -- intros c Hc. rewrite d3_at_set by lia. replace (c =? j) with false by lia. apply B. lia.
        * cbn [kbind fst snd]. eexists; split; eauto. cbv beta iota.
          split; auto. split; [lia|]. split; auto. split; auto. split.
          -- intros i' Hi' Ne. destruct (Z.eq_dec i' i) as [->|Ne']; [lia|]. apply A; auto. lia.
          -- intros c Hc. apply B. lia.
      + exists out, j, k. split; auto. }
  destruct Loop as (out & j & k & E & L & Z0 & A & B). rewrite E. cbn [kbind].
  rewrite kupd_ok by lia. eexists; split; eauto. rewrite zlen_set_nth. split; auto.
  split; [rewrite d3_at_set by lia; replace (0 =? tolength - 1) with false by lia; auto|].
  split; [rewrite d3_at_set by lia; now rewrite Z.eqb_refl|]. split.
  - intros i Hi Ne. pose proof (d3_changes_lt parents i n) as LT. pose proof (d3_changes_nonneg parents (Z.to_nat i)).
    rewrite d3_at_set by lia. replace (1 + changes_upto parents (Z.to_nat i) =? tolength - 1) with false by lia. auto.
  - intros c Hc. rewrite d3_at_set by lia. replace (c =? tolength - 1) with false by lia. apply B. lia.
Qed.

(* ================================================================================================ *)
(** * 3 (spec). complex reducers with complex output: cells (2q, 2q+1) hold the fold of the inputs with parent q *)

(** value (re, im) of output group q after the first j inputs *)
Fixpoint cred_upto (init : Z * Z) (step : Z * Z -> Z * Z -> Z * Z) (parents from : list Z) (j : nat) (q : Z) : Z * Z :=
  match j with
  | O => init
  | S j' =>
      let acc := cred_upto init step parents from j' q in
      if at_ parents (Z.of_nat j') =? q
      then step acc (at_ from (Z.of_nat j' * 2), at_ from (Z.of_nat j' * 2 + 1)) else acc
  end.

Definition cstep_sum (acc x : Z * Z) : Z * Z := (fst acc + fst x, snd acc + snd x).
Definition cstep_prod (acc x : Z * Z) : Z * Z := (fst acc * fst x - snd acc * snd x, fst acc * snd x + snd acc * fst x).
(** lexicographic order on (re, im) *)
Definition clex_lt (x a : Z * Z) : bool := (fst x <? fst a) || ((fst x =? fst a) && (snd x <? snd a)).
Definition cstep_min (acc x : Z * Z) : Z * Z := if clex_lt x acc then x else acc.
Definition cstep_max (acc x : Z * Z) : Z * Z := if clex_lt acc x then x else acc.

Lemma d3_cinit_spec a b toptr ol :
  0 <= ol -> 2 * ol <= zlen toptr ->
  exists out0, kfor 0 ol (fun i out => let* out := kupd out (i * 2) a in kupd out (i * 2 + 1) b) toptr = KOk out0 /\
    zlen out0 = zlen toptr /\
    (forall q, 0 <= q < ol -> at_ out0 (q * 2) = a /\ at_ out0 (q * 2 + 1) = b) /\
    (forall c, 2 * ol <= c -> at_ out0 c = at_ toptr c).
Proof.
  intros Hol Ht.
  match goal with |- exists out0, kfor 0 ol ?body _ = _ /\ _ =>
    destruct (kfor_inv body
      (fun j out => zlen out = zlen toptr /\
         (forall q, 0 <= q < j -> at_ out (q * 2) = a /\ at_ out (q * 2 + 1) = b) /\
         (forall c, 2 * j <= c -> at_ out c = at_ toptr c))
      0 ol toptr) as (s' & E & P); auto end.
  - split; auto. split; auto. intros q Hq. lia.
  - intros j out Hj (L & A & B). rewrite kupd_ok by lia. cbn [kbind]. rewrite kupd_ok by (rewrite zlen_set_nth; lia).
    eexists; split; eauto. rewrite !zlen_set_nth. split; auto. split.
    + intros q Hq. rewrite !d3_at_set by (rewrite ?zlen_set_nth; lia).
      destruct (Z.eq_dec q j) as [->|Ne].
      * replace (j * 2 =? j * 2 + 1) with false by lia. rewrite !Z.eqb_refl. auto.
      * replace (q * 2 =? j * 2 + 1) with false by lia. replace (q * 2 =? j * 2) with false by lia.
        replace (q * 2 + 1 =? j * 2 + 1) with false by lia. replace (q * 2 + 1 =? j * 2) with false by lia. apply A. lia.
    + intros c Hc. rewrite !d3_at_set by (rewrite ?zlen_set_nth; lia).
      replace (c =? j * 2 + 1) with false by lia. replace (c =? j * 2) with false by lia. apply B. lia.
  - exists s'. destruct P as (L & A & B). auto.
Qed.

Lemma d3_cred_loop init step (body : Z -> list Z -> kres (list Z)) toptr fromptr parents n ol out0 :
  cred_pre 2 toptr fromptr parents n ol ->
  (forall i out, 0 <= i < n -> zlen out = zlen toptr ->
     exists out', body i out = KOk out' /\ zlen out' = zlen out /\
       forall c, 0 <= c ->
         at_ out' c =
           let p := at_ parents i in
           let v := step (at_ out (p * 2), at_ out (p * 2 + 1)) (at_ fromptr (i * 2), at_ fromptr (i * 2 + 1)) in
           if c =? p * 2 then fst v else if c =? p * 2 + 1 then snd v else at_ out c) ->
  zlen out0 = zlen toptr ->
  (forall q, 0 <= q < ol -> at_ out0 (q * 2) = fst init /\ at_ out0 (q * 2 + 1) = snd init) ->
  (forall c, 2 * ol <= c -> at_ out0 c = at_ toptr c) ->
  exists out, kfor 0 n body out0 = KOk out /\ zlen out = zlen toptr /\
    (forall q, 0 <= q < ol -> (at_ out (q * 2), at_ out (q * 2 + 1)) = cred_upto init step parents fromptr (Z.to_nat n) q) /\
    (forall c, 2 * ol <= c -> at_ out c = at_ toptr c).
Proof.
  intros (Hn & Hol & Hp & Hf & Ht & Hr) Hbody L0 A0 B0.
  destruct (kfor_inv body
    (fun j out => zlen out = zlen toptr /\
       (forall q, 0 <= q < ol -> (at_ out (q * 2), at_ out (q * 2 + 1)) = cred_upto init step parents fromptr (Z.to_nat j) q) /\
       (forall c, 2 * ol <= c -> at_ out c = at_ toptr c))
    0 n out0) as (s' & E & P); auto.
  - split; auto. split; auto. intros q Hq. cbn [Z.to_nat cred_upto]. destruct (A0 q Hq) as (-> & ->). now destruct init.
  - intros j out Hj (L & A & B). destruct (Hbody j out Hj L) as (out' & E' & L' & C'). specialize (Hr j Hj).
    exists out'. split; auto. split; [lia|]. cbv zeta in C'. split.
    + intros q Hq. replace (Z.to_nat (j + 1)) with (S (Z.to_nat j)) by lia. cbn [cred_upto].
      replace (Z.of_nat (Z.to_nat j)) with j by lia. rewrite <- (A q Hq). rewrite !C' by lia.
      destruct (Z.eq_dec q (at_ parents j)) as [->|Ne].
      * replace (at_ parents j * 2 + 1 =? at_ parents j * 2) with false by lia. rewrite !Z.eqb_refl.
        now destruct (step _ _).
      * replace (q * 2 =? at_ parents j * 2) with false by lia. replace (q * 2 =? at_ parents j * 2 + 1) with false by lia.
        replace (q * 2 + 1 =? at_ parents j * 2) with false by lia. replace (q * 2 + 1 =? at_ parents j * 2 + 1) with false by lia.
        now replace (at_ parents j =? q) with false by lia.
    + intros c Hc. rewrite C' by lia. replace (c =? at_ parents j * 2) with false by lia.
      replace (c =? at_ parents j * 2 + 1) with false by lia. apply B; auto.
  - exists s'. destruct P as (L & A & B). auto.
Qed.

Theorem reduce_sum_complex_spec toptr fromptr parents n ol :
  cred_pre 2 toptr fromptr parents n ol ->
  exists out, reduce_sum_complex toptr fromptr parents n ol = KOk out /\ zlen out = zlen toptr /\
    (forall q, 0 <= q < ol ->
       (at_ out (q * 2), at_ out (q * 2 + 1)) = cred_upto (0, 0) cstep_sum parents fromptr (Z.to_nat n) q) /\
    (forall c, 2 * ol <= c -> at_ out c = at_ toptr c).
Proof.
  intros Pre. pose proof Pre as (Hn & Hol & Hp & Hf & Ht & Hr). unfold reduce_sum_complex.
  destruct (d3_cinit_spec 0 0 toptr ol Hol Ht) as (out0 & E0 & L0 & A0 & B0). rewrite E0. cbn [kbind].
  apply (d3_cred_loop (0, 0) cstep_sum) with (ol := ol); auto.
  intros i out Hi L. specialize (Hr i Hi).
  rewrite (kget_at parents), (kget_at fromptr (i * 2)), (kget_at fromptr (i * 2 + 1)) by lia. cbn [kbind].
  rewrite (kget_at out) by lia. cbn [kbind]. rewrite kupd_ok by lia. cbn [kbind].
  rewrite (kget_at (set_nth _ _ _)) by (rewrite zlen_set_nth; lia). cbn [kbind].
  rewrite kupd_ok by (rewrite zlen_set_nth; lia). eexists; split; eauto. rewrite !zlen_set_nth. split; auto.
  intros c Hc. cbv zeta. unfold cstep_sum. cbn [fst snd]. rewrite !d3_at_set by (rewrite ?zlen_set_nth; lia).
  replace (at_ parents i * 2 + 1 =? at_ parents i * 2) with false by lia.
  destruct (c =? at_ parents i * 2 + 1) eqn:E1; destruct (c =? at_ parents i * 2) eqn:E2; auto; lia.
Qed.

Theorem reduce_prod_complex_spec toptr fromptr parents n ol :
  cred_pre 2 toptr fromptr parents n ol ->
  exists out, reduce_prod_complex toptr fromptr parents n ol = KOk out /\ zlen out = zlen toptr /\
    (forall q, 0 <= q < ol ->
       (at_ out (q * 2), at_ out (q * 2 + 1)) = cred_upto (1, 0) cstep_prod parents fromptr (Z.to_nat n) q) /\
    (forall c, 2 * ol <= c -> at_ out c = at_ toptr c).
Proof.
  intros Pre. pose proof Pre as (Hn & Hol & Hp & Hf & Ht & Hr). unfold reduce_prod_complex.
  destruct (d3_cinit_spec 1 0 toptr ol Hol Ht) as (out0 & E0 & L0 & A0 & B0). rewrite E0. cbn [kbind].
  apply (d3_cred_loop (1, 0) cstep_prod) with (ol := ol); auto.
  intros i out Hi L. specialize (Hr i Hi).
  rewrite (kget_at parents), (kget_at fromptr (i * 2)), (kget_at fromptr (i * 2 + 1)) by lia. cbn [kbind].
  rewrite (kget_at out (at_ parents i * 2)), (kget_at out (at_ parents i * 2 + 1)) by lia. cbn [kbind].
  rewrite kupd_ok by lia. cbn [kbind].
  rewrite kupd_ok by (rewrite zlen_set_nth; lia). eexists; split; eauto. rewrite !zlen_set_nth. split; auto.
  intros c Hc. cbv zeta. unfold cstep_prod. cbn [fst snd]. rewrite !d3_at_set by (rewrite ?zlen_set_nth; lia).
  destruct (c =? at_ parents i * 2 + 1) eqn:E1; destruct (c =? at_ parents i * 2) eqn:E2; auto; lia.
Qed.

Lemma d3_minmax_body (lt : bool) step toptr fromptr parents n ol :
  cred_pre 2 toptr fromptr parents n ol ->
  (forall x y a b,
     (if lt then (x <? a) || ((x =? a) && (y <? b)) else (a <? x) || ((x =? a) && (b <? y))) = true -> step (a, b) (x, y) = (x, y)) ->
  (forall x y a b,
     (if lt then (x <? a) || ((x =? a) && (y <? b)) else (a <? x) || ((x =? a) && (b <? y))) = false -> step (a, b) (x, y) = (a, b)) ->
  forall i out, 0 <= i < n -> zlen out = zlen toptr ->
  exists out',
    (let* p := kget parents i in
     let* x := kget fromptr (i * 2) in
     let* y := kget fromptr (i * 2 + 1) in
     let* a := kget out (p * 2) in
     let* b := kget out (p * 2 + 1) in
     if (if lt then (x <? a) || ((x =? a) && (y <? b)) else (a <? x) || ((x =? a) && (b <? y)))
     then let* out := kupd out (p * 2) x in kupd out (p * 2 + 1) y else KOk out) = KOk out' /\
    zlen out' = zlen out /\
    forall c, 0 <= c ->
      at_ out' c =
        let p := at_ parents i in
        let v := step (at_ out (p * 2), at_ out (p * 2 + 1)) (at_ fromptr (i * 2), at_ fromptr (i * 2 + 1)) in
        if c =? p * 2 then fst v else if c =? p * 2 + 1 then snd v else at_ out c.
Proof.
  intros (Hn & Hol & Hp & Hf & Ht & Hr) St Sf i out Hi L. specialize (Hr i Hi).
  rewrite (kget_at parents), (kget_at fromptr (i * 2)), (kget_at fromptr (i * 2 + 1)) by lia. cbn [kbind].
  rewrite (kget_at out (at_ parents i * 2)), (kget_at out (at_ parents i * 2 + 1)) by lia. cbn [kbind]. cbv zeta.
  match goal with |- context [if ?b then kbind _ _ else _] => destruct b eqn:Bt end.
  - rewrite (St _ _ _ _ Bt). rewrite kupd_ok by lia. cbn [kbind]. rewrite kupd_ok by (rewrite zlen_set_nth; lia).
    eexists; split; eauto. rewrite !zlen_set_nth. split; auto. intros c Hc. cbn [fst snd].
    rewrite !d3_at_set by (rewrite ?zlen_set_nth; lia).
    destruct (c =? at_ parents i * 2 + 1) eqn:E1; destruct (c =? at_ parents i * 2) eqn:E2; auto; lia.
  - rewrite (Sf _ _ _ _ Bt). exists out. split; auto. split; auto. intros c Hc. cbn [fst snd].
    destruct (c =? at_ parents i * 2) eqn:E2; [f_equal; lia|].
    destruct (c =? at_ parents i * 2 + 1) eqn:E1; [f_equal; lia|]. reflexivity.
Qed.

Theorem reduce_min_complex_spec idn toptr fromptr parents n ol :
  cred_pre 2 toptr fromptr parents n ol ->
  exists out, reduce_minmax_complex true idn toptr fromptr parents n ol = KOk out /\ zlen out = zlen toptr /\
    (forall q, 0 <= q < ol ->
       (at_ out (q * 2), at_ out (q * 2 + 1)) = cred_upto (idn, 0) cstep_min parents fromptr (Z.to_nat n) q) /\
    (forall c, 2 * ol <= c -> at_ out c = at_ toptr c).
Proof.
  intros Pre. pose proof Pre as (Hn & Hol & Hp & Hf & Ht & Hr). unfold reduce_minmax_complex.
  destruct (d3_cinit_spec idn 0 toptr ol Hol Ht) as (out0 & E0 & L0 & A0 & B0). rewrite E0. cbn [kbind].
  apply (d3_cred_loop (idn, 0) cstep_min) with (ol := ol); auto.
  apply (d3_minmax_body true cstep_min) with (ol := ol); auto;
    intros x y a b Bt; unfold cstep_min, clex_lt; cbn [fst snd]; now rewrite Bt.
Qed.

Theorem reduce_max_complex_spec idn toptr fromptr parents n ol :
  cred_pre 2 toptr fromptr parents n ol ->
  exists out, reduce_minmax_complex false idn toptr fromptr parents n ol = KOk out /\ zlen out = zlen toptr /\
    (forall q, 0 <= q < ol ->
       (at_ out (q * 2), at_ out (q * 2 + 1)) = cred_upto (idn, 0) cstep_max parents fromptr (Z.to_nat n) q) /\
    (forall c, 2 * ol <= c -> at_ out c = at_ toptr c).
Proof.
  intros Pre. pose proof Pre as (Hn & Hol & Hp & Hf & Ht & Hr). unfold reduce_minmax_complex.
  destruct (d3_cinit_spec idn 0 toptr ol Hol Ht) as (out0 & E0 & L0 & A0 & B0). rewrite E0. cbn [kbind].
  apply (d3_cred_loop (idn, 0) cstep_max) with (ol := ol); auto.
  apply (d3_minmax_body false cstep_max) with (ol := ol); auto;
    intros x y a b Bt; unfold cstep_max, clex_lt; cbn [fst snd]; rewrite (Z.eqb_sym a x); now rewrite Bt.
Qed.

(** what the fold computes: the lexicographic minimum (maximum) of the identity (idn, 0) and the inputs of the group *)
Lemma d3_cmin_upto idn parents from j q :
  let m := cred_upto (idn, 0) cstep_min parents from j q in
  clex_lt (idn, 0) m = false /\
  (forall i, 0 <= i < Z.of_nat j -> at_ parents i = q -> clex_lt (at_ from (i * 2), at_ from (i * 2 + 1)) m = false) /\
  (m = (idn, 0) \/ exists i, 0 <= i < Z.of_nat j /\ at_ parents i = q /\ m = (at_ from (i * 2), at_ from (i * 2 + 1))).
Proof.
  induction j; cbv zeta in *.
  - cbn [cred_upto]. split; [unfold clex_lt; cbn [fst snd]; lia|]. split; [intros i Hi; lia|auto].
  - cbn [cred_upto]. destruct IHj as (I1 & I2 & I3).
    set (m := cred_upto (idn, 0) cstep_min parents from j q) in *.
    destruct (at_ parents (Z.of_nat j) =? q) eqn:E.
    + unfold cstep_min. destruct (clex_lt (at_ from (Z.of_nat j * 2), at_ from (Z.of_nat j * 2 + 1)) m) eqn:C.
      * split; [|split].
        -- unfold clex_lt in *. cbn [fst snd] in *. lia.
        -- intros i Hi Hp. destruct (Z.eq_dec i (Z.of_nat j)) as [->|Ne]; [unfold clex_lt; cbn [fst snd]; lia|].
           specialize (I2 i ltac:(lia) Hp). unfold clex_lt in *. cbn [fst snd] in *. lia.
        -- right. exists (Z.of_nat j). repeat split; auto; lia.
      * split; auto. split.
        -- intros i Hi Hp. destruct (Z.eq_dec i (Z.of_nat j)) as [->|Ne]; auto. apply I2; auto; lia.
        -- destruct I3 as [I3|(i & Hi & Hp & I3)]; auto. right. exists i. repeat split; auto; lia.
    + split; auto. split.
      * intros i Hi Hp. destruct (Z.eq_dec i (Z.of_nat j)) as [->|Ne]; [lia|]. apply I2; auto; lia.
      * destruct I3 as [I3|(i & Hi & Hp & I3)]; auto. right. exists i. repeat split; auto; lia.
Qed.

(* ================================================================================================ *)
(** * 3 (spec). countnonzero / any / all on complex input: one output cell per group *)

Definition cnonzero (from : list Z) (i : Z) : bool := negb (at_ from (i * 2) =? 0) || negb (at_ from (i * 2 + 1) =? 0).

Fixpoint bred_upto (tO : ity) (init : Z) (step : Z -> bool -> Z) (parents from : list Z) (j : nat) (q : Z) : Z :=
  match j with
  | O => wrap tO init
  | S j' =>
      let acc := bred_upto tO init step parents from j' q in
      if at_ parents (Z.of_nat j') =? q then wrap tO (step acc (cnonzero from (Z.of_nat j'))) else acc
  end.

Lemma d3_reduce_bool_complex_spec tO init step toptr fromptr parents n ol :
  cred_pre 1 toptr fromptr parents n ol ->
  exists out, reduce_bool_complex tO init step toptr fromptr parents n ol = KOk out /\ zlen out = zlen toptr /\
    forall q, 0 <= q ->
      at_ out q = if q <? ol then bred_upto tO init step parents fromptr (Z.to_nat n) q else at_ toptr q.
Proof.
  intros (Hn & Hol & Hp & Hf & Ht & Hr). unfold reduce_bool_complex.
  rewrite (kfill_spec 0 ol _ (fun _ => wrap tO init)); auto; try lia. cbn [kbind]. rewrite Z.max_r by lia.
  set (out0 := filled 0 ol (fun _ => wrap tO init) toptr).
  match goal with |- exists out, kfor 0 n ?body _ = _ /\ _ =>
    destruct (kfor_inv body
      (fun j out => zlen out = zlen toptr /\ forall q, 0 <= q ->
         at_ out q = if q <? ol then bred_upto tO init step parents fromptr (Z.to_nat j) q else at_ toptr q)
      0 n out0) as (s' & E & P); auto end.
  - split; [apply zlen_filled; lia|]. intros q Hq. unfold out0. rewrite d3_at_filled_const by lia. reflexivity.
  - intros j out Hj (L & A). specialize (Hr j Hj).
    rewrite (kget_at parents), (kget_at fromptr (j * 2)), (kget_at fromptr (j * 2 + 1)) by lia. cbn [kbind].
    rewrite (kget_at out) by lia. cbn [kbind]. rewrite kupd_ok by lia.
    eexists; split; eauto. rewrite zlen_set_nth. split; auto.
    intros q Hq. rewrite d3_at_set by lia. replace (Z.to_nat (j + 1)) with (S (Z.to_nat j)) by lia.
    cbn [bred_upto]. replace (Z.of_nat (Z.to_nat j)) with j by lia.
    rewrite (Z.eqb_sym (at_ parents j) q).
    destruct (q =? at_ parents j) eqn:E.
    + replace (q <? ol) with true by lia. rewrite A by lia. replace (at_ parents j <? ol) with true by lia.
      replace (at_ parents j) with q by lia. reflexivity.
    + now rewrite A.
  - exists s'. destruct P as (L & A). auto.
Qed.

Theorem reduce_countnonzero_complex_spec toptr fromptr parents n ol :
  cred_pre 1 toptr fromptr parents n ol ->
  exists out, reduce_countnonzero_complex toptr fromptr parents n ol = KOk out /\ zlen out = zlen toptr /\
    forall q, 0 <= q ->
      at_ out q = if q <? ol then bred_upto i64 0 (fun cur nz => cur + (if nz then 1 else 0)) parents fromptr (Z.to_nat n) q
                  else at_ toptr q.
Proof. apply d3_reduce_bool_complex_spec. Qed.

(** any / all: cell q is 1 iff some / every input with parent q is a non-zero complex number, else 0 *)
Definition csome_nonzero (parents from : list Z) (n q : Z) : Prop :=
  exists i, 0 <= i < n /\ at_ parents i = q /\ cnonzero from i = true.
Definition call_nonzero (parents from : list Z) (n q : Z) : Prop :=
  forall i, 0 <= i < n -> at_ parents i = q -> cnonzero from i = true.

Lemma d3_cany_upto parents from j q :
  let r := bred_upto TB 0 (fun cur nz => if (cur =? 0) && negb nz then 0 else 1) parents from j q in
  (r = 0 \/ r = 1) /\ (r = 1 <-> csome_nonzero parents from (Z.of_nat j) q).
Proof.
  induction j; cbn zeta in *.
  - cbn [bred_upto wrap]. split; [auto|]. split; [discriminate|]. intros (i & Hi & _). lia.
  - cbn [bred_upto]. destruct IHj as (B & IH).
    set (r := bred_upto TB 0 (fun cur nz => if (cur =? 0) && negb nz then 0 else 1) parents from j q) in *.
    destruct (at_ parents (Z.of_nat j) =? q) eqn:E.
    + cbn [wrap]. destruct ((r =? 0) && negb (cnonzero from (Z.of_nat j))) eqn:E2; cbn [Z.eqb]; (split; [auto|]).
      * split; [discriminate|]. intros (i & Hi & Hp & Hv).
        destruct (Z.eq_dec i (Z.of_nat j)) as [->|Ne]; [rewrite Hv in E2; lia|].
        assert (r = 1) by (apply IH; exists i; repeat split; auto; lia). lia.
      * split; [|auto]. intros _.
        destruct (cnonzero from (Z.of_nat j)) eqn:NZ.
        -- exists (Z.of_nat j). repeat split; auto; lia.
        -- assert (R1 : r = 1) by lia. apply IH in R1. destruct R1 as (i & Hi & Hp & Hv). exists i. repeat split; auto; lia.
    + split; auto. rewrite IH. split; intros (i & Hi & Hp & Hv); exists i; repeat split; auto; try lia.
      destruct (Z.eq_dec i (Z.of_nat j)) as [->|Ne]; lia.
Qed.

Lemma d3_call_upto parents from j q :
  let r := bred_upto TB 1 (fun cur nz => if (cur =? 0) || negb nz then 0 else 1) parents from j q in
  (r = 0 \/ r = 1) /\ (r = 1 <-> call_nonzero parents from (Z.of_nat j) q).
Proof.
  induction j; cbn zeta in *.
  - cbn [bred_upto wrap]. split; [auto|]. split; [|reflexivity]. intros _ i Hi. lia.
  - cbn [bred_upto]. destruct IHj as (B & IH).
    set (r := bred_upto TB 1 (fun cur nz => if (cur =? 0) || negb nz then 0 else 1) parents from j q) in *.
    destruct (at_ parents (Z.of_nat j) =? q) eqn:E.
    + cbn [wrap]. destruct ((r =? 0) || negb (cnonzero from (Z.of_nat j))) eqn:E2; cbn [Z.eqb]; (split; [auto|]).
      * split; [discriminate|]. intros A. exfalso.
        destruct (cnonzero from (Z.of_nat j)) eqn:NZ.
        -- assert (R1 : r = 1). { apply IH. intros i Hi Hp. apply A; auto; lia. } lia.
        -- rewrite (A (Z.of_nat j)) in NZ; [discriminate|lia|lia].
      * split; [|auto]. intros _ i Hi Hp.
        destruct (Z.eq_dec i (Z.of_nat j)) as [->|Ne]; [destruct (cnonzero from (Z.of_nat j)); auto; lia|].
        assert (R1 : r = 1) by lia. apply IH in R1. apply R1; auto; lia.
    + split; auto. rewrite IH. split; intros A i Hi Hp.
      * destruct (Z.eq_dec i (Z.of_nat j)) as [->|Ne]; [lia|]. apply A; auto; lia.
      * apply A; auto; lia.
Qed.

Theorem reduce_sum_bool_complex_spec toptr fromptr parents n ol :
  cred_pre 1 toptr fromptr parents n ol ->
  exists out, reduce_sum_bool_complex toptr fromptr parents n ol = KOk out /\ zlen out = zlen toptr /\
    forall q, 0 <= q ->
      if q <? ol then (at_ out q = 0 \/ at_ out q = 1) /\ (at_ out q = 1 <-> csome_nonzero parents fromptr n q)
      else at_ out q = at_ toptr q.
Proof.
  intros Pre.
  destruct (d3_reduce_bool_complex_spec TB 0 (fun cur nz => if (cur =? 0) && negb nz then 0 else 1) _ _ _ _ _ Pre)
    as (out & E & L & A).
  exists out. split; auto. split; auto. intros q Hq. rewrite (A q Hq). destruct (q <? ol); auto.
  pose proof (d3_cany_upto parents fromptr (Z.to_nat n) q) as K. cbn zeta in K.
  destruct Pre as (Hn & _). replace (Z.of_nat (Z.to_nat n)) with n in K by lia. exact K.
Qed.

Theorem reduce_prod_bool_complex_spec toptr fromptr parents n ol :
  cred_pre 1 toptr fromptr parents n ol ->
  exists out, reduce_prod_bool_complex toptr fromptr parents n ol = KOk out /\ zlen out = zlen toptr /\
    forall q, 0 <= q ->
      if q <? ol then (at_ out q = 0 \/ at_ out q = 1) /\ (at_ out q = 1 <-> call_nonzero parents fromptr n q)
      else at_ out q = at_ toptr q.
Proof.
  intros Pre.
  destruct (d3_reduce_bool_complex_spec TB 1 (fun cur nz => if (cur =? 0) || negb nz then 0 else 1) _ _ _ _ _ Pre)
    as (out & E & L & A).
  exists out. split; auto. split; auto. intros q Hq. rewrite (A q Hq). destruct (q <? ol); auto.
  pose proof (d3_call_upto parents fromptr (Z.to_nat n) q) as K. cbn zeta in K.
  destruct Pre as (Hn & _). replace (Z.of_nat (Z.to_nat n)) with n in K by lia. exact K.
Qed.

(* ================================================================================================ *)
(** * 3 (spec). argmin / argmax on complex input: -1 for an empty group, otherwise the FIRST position of the
      lexicographic (re, im) extremum of the group *)

Definition cval (from : list Z) (i : Z) : Z * Z := (at_ from (i * 2), at_ from (i * 2 + 1)).

Definition arg_first_v {V} (better : V -> V -> bool) (val : Z -> V) (parents : list Z) (n q r : Z) : Prop :=
  (r = -1 /\ forall i, 0 <= i < n -> at_ parents i <> q) \/
  (0 <= r < n /\ at_ parents r = q /\
   (forall i, 0 <= i < n -> at_ parents i = q -> better (val i) (val r) = false) /\
   (forall i, 0 <= i < r -> at_ parents i = q -> better (val r) (val i) = true)).

(** r is the first position of the lexicographic minimum of group q *)
Definition is_argmin_complex (parents from : list Z) (n q r : Z) : Prop :=
  arg_first_v clex_lt (cval from) parents n q r.
Definition is_argmax_complex (parents from : list Z) (n q r : Z) : Prop :=
  arg_first_v (fun x a => clex_lt a x) (cval from) parents n q r.

Section ArgOrderV.
  Context {V : Type}.
  Variable better : V -> V -> bool.
  Variable val : Z -> V.
  Hypothesis b_irrefl : forall x, better x x = false.
  Hypothesis b_trans : forall x y z, better x y = true -> better y z = true -> better x z = true.
  Hypothesis b_negtrans : forall x y z, better x y = false -> better y z = false -> better x z = false.

  Lemma d3_argv_other parents j q r :
    0 <= j -> at_ parents j <> q -> arg_first_v better val parents j q r -> arg_first_v better val parents (j + 1) q r.
  Proof.
    intros Hj Ne [(R & N)|(R & P & A & B)]; [left|right].
    - split; auto. intros i Hi. destruct (Z.eq_dec i j) as [->|]; auto. apply N. lia.
    - split; [lia|]. split; auto. split; auto. intros i Hi Hp. destruct (Z.eq_dec i j) as [->|]; [congruence|]. apply A; auto. lia.
  Qed.

  Lemma d3_argv_new parents j r :
    0 <= j -> arg_first_v better val parents j (at_ parents j) r ->
    (r = -1 \/ (r <> -1 /\ better (val j) (val r) = true)) ->
    arg_first_v better val parents (j + 1) (at_ parents j) j.
  Proof.
    intros Hj AF C. right. split; [lia|]. split; auto.
    destruct AF as [(R & N)|(R & P & A & B)].
    - split; intros i Hi Hp.
      + destruct (Z.eq_dec i j) as [->|]; auto. exfalso. apply (N i); auto. lia.
      + exfalso. apply (N i); auto.
    - destruct C as [C|(_ & C)]; [lia|]. split; intros i Hi Hp.
      + destruct (Z.eq_dec i j) as [->|]; auto.
        destruct (better (val i) (val j)) eqn:E; auto.
        rewrite <- (A i) by (auto; lia). symmetry. eapply b_trans; eauto.
      + destruct (better (val j) (val i)) eqn:E; auto.
        rewrite <- C. symmetry. eapply b_negtrans; eauto.
  Qed.

  Lemma d3_argv_keep parents j r :
    0 <= j -> arg_first_v better val parents j (at_ parents j) r -> r <> -1 ->
    better (val j) (val r) = false ->
    arg_first_v better val parents (j + 1) (at_ parents j) r.
  Proof.
    intros Hj [(R & N)|(R & P & A & B)] Ne C; [lia|]. right. split; [lia|]. split; auto. split; auto.
    intros i Hi Hp. destruct (Z.eq_dec i j) as [->|]; auto. apply A; auto; lia.
  Qed.

  (** any loop whose body is "replace the cell when it is empty or the new input is better" *)
  Lemma d3_argv_loop (body : Z -> list Z -> kres (list Z)) toptr parents n ol :
    0 <= n -> 0 <= ol -> n <= zlen parents -> ol <= zlen toptr ->
    (forall i, 0 <= i < n -> 0 <= at_ parents i < ol) ->
    (forall i out, 0 <= i < n -> zlen out = zlen toptr ->
       at_ out (at_ parents i) = -1 \/ 0 <= at_ out (at_ parents i) < i ->
       body i out = if (at_ out (at_ parents i) =? -1) || better (val i) (val (at_ out (at_ parents i)))
                    then kupd out (at_ parents i) i else KOk out) ->
    exists out, (let* out0 := kfill 0 ol (fun _ => KOk (-1)) toptr in kfor 0 n body out0) = KOk out /\
      zlen out = zlen toptr /\
      forall q, 0 <= q ->
        if q <? ol then arg_first_v better val parents n q (at_ out q) else at_ out q = at_ toptr q.
  Proof.
    intros Hn Hol Hp Ht Hr Hbody.
    rewrite (kfill_spec 0 ol _ (fun _ => -1)); auto; try lia. cbn [kbind]. rewrite Z.max_r by lia.
    set (out0 := filled 0 ol (fun _ => -1) toptr).
    destruct (kfor_inv body
        (fun j out => zlen out = zlen toptr /\ forall q, 0 <= q ->
           if q <? ol then arg_first_v better val parents j q (at_ out q) else at_ out q = at_ toptr q)
        0 n out0) as (s' & E & P); auto.
    - split; [apply zlen_filled; lia|]. intros q Hq. unfold out0. rewrite d3_at_filled_const by lia.
      destruct (q <? ol); auto. left. split; auto. intros i Hi. lia.
    - intros j out Hj (L & A). specialize (Hr j Hj).
      pose proof (A (at_ parents j) (proj1 Hr)) as Ap. replace (at_ parents j <? ol) with true in Ap by lia.
      assert (Rng : at_ out (at_ parents j) = -1 \/ 0 <= at_ out (at_ parents j) < j)
        by (destruct Ap as [(R & _)|(R & _)]; [left|right]; lia).
      rewrite (Hbody j out Hj L Rng).
      assert (Other : forall o', zlen o' = zlen toptr ->
                (forall q, 0 <= q -> q <> at_ parents j -> at_ o' q = at_ out q) ->
                arg_first_v better val parents (j + 1) (at_ parents j) (at_ o' (at_ parents j)) ->
                zlen o' = zlen toptr /\ forall q, 0 <= q ->
                  if q <? ol then arg_first_v better val parents (j + 1) q (at_ o' q) else at_ o' q = at_ toptr q).
      { intros o' L' Same New. split; auto. intros q Hq. destruct (Z.eq_dec q (at_ parents j)) as [->|Ne].
        - now replace (at_ parents j <? ol) with true by lia.
        - rewrite Same by auto. specialize (A q Hq). destruct (q <? ol); auto.
          apply d3_argv_other; auto; lia. }
      destruct ((at_ out (at_ parents j) =? -1) || better (val j) (val (at_ out (at_ parents j)))) eqn:C.
      + rewrite kupd_ok by lia. eexists; split; eauto. apply Other.
        * now rewrite zlen_set_nth.
        * intros q Hq Ne. rewrite d3_at_set by lia. now replace (q =? at_ parents j) with false by lia.
        * rewrite d3_at_set by lia. rewrite Z.eqb_refl.
          apply (d3_argv_new parents j (at_ out (at_ parents j))); auto; try lia.
          destruct (at_ out (at_ parents j) =? -1) eqn:C1; [left; lia|right; split; [lia|]]. exact C.
      + exists out. split; auto. apply Other; auto. apply d3_argv_keep; auto; try lia.
        destruct (better (val j) (val (at_ out (at_ parents j)))); auto. lia.
    - exists s'. destruct P as (L & A). auto.
  Qed.
End ArgOrderV.

Lemma d3_reduce_arg_complex_body (lt : bool) toptr fromptr parents n ol :
  cred_pre 1 toptr fromptr parents n ol ->
  forall i out, 0 <= i < n -> zlen out = zlen toptr ->
    at_ out (at_ parents i) = -1 \/ 0 <= at_ out (at_ parents i) < i ->
    (let* p := kget parents i in
     let* cur := kget out p in
     if cur =? -1 then kupd out p i
     else
       let* x := kget fromptr (i * 2) in
       let* a := kget fromptr (cur * 2) in
       if (if lt then x <? a else a <? x) then kupd out p i
       else if x =? a then
         let* y := kget fromptr (i * 2 + 1) in
         let* b := kget fromptr (cur * 2 + 1) in
         if (if lt then y <? b else b <? y) then kupd out p i else KOk out
       else KOk out)
    = if (at_ out (at_ parents i) =? -1)
         || (if lt then clex_lt (cval fromptr i) (cval fromptr (at_ out (at_ parents i)))
             else clex_lt (cval fromptr (at_ out (at_ parents i))) (cval fromptr i))
      then kupd out (at_ parents i) i else KOk out.
Proof.
  intros (Hn & Hol & Hp & Hf & Ht & Hr) i out Hi L Rng. specialize (Hr i Hi).
  rewrite (kget_at parents) by lia. cbn [kbind]. rewrite (kget_at out) by lia. cbn [kbind].
  destruct (at_ out (at_ parents i) =? -1) eqn:C; [reflexivity|]. cbn [orb].
  set (cur := at_ out (at_ parents i)) in *. assert (0 <= cur < i) by lia.
  rewrite (kget_at fromptr (i * 2)), (kget_at fromptr (cur * 2)) by lia. cbn [kbind].
  unfold clex_lt, cval. cbn [fst snd].
  destruct lt.
  - destruct (at_ fromptr (i * 2) <? at_ fromptr (cur * 2)) eqn:E1; [reflexivity|]. cbn [orb].
    destruct (at_ fromptr (i * 2) =? at_ fromptr (cur * 2)) eqn:E2; [|reflexivity].
    rewrite (kget_at fromptr (i * 2 + 1)), (kget_at fromptr (cur * 2 + 1)) by lia. cbn [kbind andb]. reflexivity.
  - destruct (at_ fromptr (cur * 2) <? at_ fromptr (i * 2)) eqn:E1; [reflexivity|]. cbn [orb].
    rewrite (Z.eqb_sym (at_ fromptr (cur * 2))).
    destruct (at_ fromptr (i * 2) =? at_ fromptr (cur * 2)) eqn:E2; [|reflexivity].
    rewrite (kget_at fromptr (i * 2 + 1)), (kget_at fromptr (cur * 2 + 1)) by lia. cbn [kbind andb]. reflexivity.
Qed.

Lemma d3_clex_irrefl x : clex_lt x x = false.
Proof. unfold clex_lt. lia. Qed.
Lemma d3_clex_trans x y z : clex_lt x y = true -> clex_lt y z = true -> clex_lt x z = true.
Proof. unfold clex_lt. lia. Qed.
Lemma d3_clex_negtrans x y z : clex_lt x y = false -> clex_lt y z = false -> clex_lt x z = false.
Proof. unfold clex_lt. lia. Qed.

Theorem reduce_argmin_complex_spec toptr fromptr parents n ol :
  cred_pre 1 toptr fromptr parents n ol ->
  exists out, reduce_arg_complex true toptr fromptr parents n ol = KOk out /\ zlen out = zlen toptr /\
    forall q, 0 <= q -> if q <? ol then is_argmin_complex parents fromptr n q (at_ out q) else at_ out q = at_ toptr q.
Proof.
  intros Pre. pose proof Pre as (Hn & Hol & Hp & Hf & Ht & Hr). unfold reduce_arg_complex, is_argmin_complex.
  apply (d3_argv_loop clex_lt (cval fromptr) d3_clex_irrefl d3_clex_trans d3_clex_negtrans); auto; try lia.
  intros i out Hi L Rng. exact (d3_reduce_arg_complex_body true toptr fromptr parents n ol Pre i out Hi L Rng).
Qed.

Theorem reduce_argmax_complex_spec toptr fromptr parents n ol :
  cred_pre 1 toptr fromptr parents n ol ->
  exists out, reduce_arg_complex false toptr fromptr parents n ol = KOk out /\ zlen out = zlen toptr /\
    forall q, 0 <= q -> if q <? ol then is_argmax_complex parents fromptr n q (at_ out q) else at_ out q = at_ toptr q.
Proof.
  intros Pre. pose proof Pre as (Hn & Hol & Hp & Hf & Ht & Hr). unfold reduce_arg_complex, is_argmax_complex.
  apply (d3_argv_loop (fun x a => clex_lt a x) (cval fromptr)); auto; try lia.
  - intros x. apply d3_clex_irrefl.
  - intros x y z H1 H2. eapply d3_clex_trans; eauto.
  - intros x y z H1 H2. eapply d3_clex_negtrans; eauto.
  - intros i out Hi L Rng. exact (d3_reduce_arg_complex_body false toptr fromptr parents n ol Pre i out Hi L Rng).
Qed.

(* ================================================================================================ *)
(** * 7 (spec). awkward_NumpyArray_rearrange_shifted_toint64_fromint64 when the segments cover exactly the first
      [length] cells (the caller: offsets[0] = 0, offsets[last] = parents.length() = shifts.length()):
      cell q of segment i becomes v + shifts[v] - starts[parents[q]] with v = toptr[q] + offsets[i] *)

Lemma d3_rearrange_loop2 out1 shifts length parents starts :
  0 <= length -> length <= zlen out1 -> length <= zlen parents ->
  (forall i, 0 <= i < length -> 0 <= at_ parents i < zlen starts) ->
  (forall q, 0 <= q < length -> 0 <= at_ out1 q < zlen shifts) ->
  exists out,
    kfor 0 length (fun i out =>
      let* parent := kget parents i in
      let* start := kget starts parent in
      let* cur := kget out i in
      let* sh := kget shifts cur in
      kupd out i (cur + sh - start)) out1 = KOk out /\
    zlen out = zlen out1 /\
    (forall q, 0 <= q < length -> at_ out q = at_ out1 q + at_ shifts (at_ out1 q) - at_ starts (at_ parents q)) /\
    (forall q, length <= q -> at_ out q = at_ out1 q).
Proof.
  intros Hl0 Hlt Hlp Hpar Hrng.
  match goal with |- exists out, kfor 0 length ?body _ = _ /\ _ =>
    destruct (kfor_inv body
      (fun j out => zlen out = zlen out1 /\
         (forall q, 0 <= q < j -> at_ out q = at_ out1 q + at_ shifts (at_ out1 q) - at_ starts (at_ parents q)) /\
         (forall q, j <= q -> at_ out q = at_ out1 q))
      0 length out1) as (s' & E & L & A & B); auto end.
  - split; auto. split; auto. intros q Hq. lia.
  - intros j out Hj (L & A & B). pose proof (Hpar j Hj) as Pj. pose proof (Hrng j Hj) as Rng.
    rewrite (kget_at parents) by lia. cbn [kbind]. rewrite (kget_at starts) by lia. cbn [kbind].
    rewrite (kget_at out) by lia. cbn [kbind].
    rewrite (B j) by lia. rewrite (kget_at shifts) by lia. cbn [kbind]. rewrite kupd_ok by lia.
    eexists; split; eauto. rewrite zlen_set_nth. split; auto. split.
    + intros q Hq'. rewrite d3_at_set by lia. destruct (Z.eq_dec q j) as [->|Ne]; [now rewrite Z.eqb_refl|].
      replace (q =? j) with false by lia. apply A. lia.
    + intros q Hq'. rewrite d3_at_set by lia. replace (q =? j) with false by lia. apply B. lia.
  - exists s'. auto.
Qed.

Theorem NumpyArray_rearrange_shifted_toint64_fromint64_spec toptr shifts length offsets offsetslength parents starts :
  rearrange_pre toptr shifts length offsets offsetslength parents starts ->
  at_ offsets (offsetslength - 1) - at_ offsets 0 = length ->
  exists out, NumpyArray_rearrange_shifted toptr shifts length offsets offsetslength parents starts = KOk out /\
    zlen out = zlen toptr /\
    (forall i q, 0 <= i < offsetslength - 1 ->
       at_ offsets i - at_ offsets 0 <= q < at_ offsets (i + 1) - at_ offsets 0 ->
       at_ out q = (at_ toptr q + at_ offsets i) + at_ shifts (at_ toptr q + at_ offsets i) - at_ starts (at_ parents q)) /\
    (forall c, length <= c -> at_ out c = at_ toptr c).
Proof.
  intros (Hol & Hm & Hcap & Hlt & Hlp & Hpar & Hseg & Htail) Hcover. unfold NumpyArray_rearrange_shifted.
  pose proof (d3_offsets_mono offsets (offsetslength - 1) Hm) as Mono.
  set (inv := fun (k : Z) (st : list Z * Z) =>
    snd st = k /\ zlen (fst st) = zlen toptr /\
    (forall i' q, 0 <= i' < offsetslength - 1 ->
       at_ offsets i' - at_ offsets 0 <= q < at_ offsets (i' + 1) - at_ offsets 0 -> q < k ->
       at_ (fst st) q = at_ toptr q + at_ offsets i') /\
    (forall q, k <= q -> at_ (fst st) q = at_ toptr q)).
  match goal with |- exists out, kbind (kfor 0 _ ?body ?s0) _ = _ /\ _ =>
    destruct (kfor_inv body (fun i st => inv (at_ offsets i - at_ offsets 0) st) 0 (offsetslength - 1) s0)
      as ([out1 k1] & E1 & K1 & L1 & A1 & B1); try lia end.
  - unfold inv. cbn [fst snd]. split; [lia|]. split; auto. split; auto. intros i' q Hi' Hq.
    pose proof (Mono 0 i'). lia.
  - intros i st Hi Inv. rewrite (kget_at offsets (i + 1)), (kget_at offsets i) by lia. cbn [kbind].
    assert (B1 : at_ offsets 0 <= at_ offsets i) by (apply Mono; lia).
    assert (B2 : at_ offsets (i + 1) <= at_ offsets (offsetslength - 1)) by (apply Mono; lia).
    pose proof (Hm i Hi) as B3.
    match goal with |- exists s', kfor 0 _ ?body _ = _ /\ _ =>
      destruct (kfor_inv body (fun j st => inv (at_ offsets i - at_ offsets 0 + j) st) 0 (at_ offsets (i + 1) - at_ offsets i) st)
        as (st' & E' & Inv'); try lia end.
    + now rewrite Z.add_0_r.
    + intros j [out k] Hj (K & L & A & B). cbn [fst snd] in *. subst k.
      rewrite (kget_at out) by lia. cbn [kbind]. rewrite kupd_ok by lia. cbn [kbind].
      eexists; split; eauto. unfold inv. cbn [fst snd]. rewrite zlen_set_nth. split; [lia|]. split; auto. split.
      * intros i' q Hi' Hq Hlt'. assert (0 <= q) by (pose proof (Mono 0 i'); lia). rewrite d3_at_set by lia.
        destruct (q =? at_ offsets i - at_ offsets 0 + j) eqn:Eq.
        -- assert (i' = i).
           { destruct (Z_lt_ge_dec i' i); [pose proof (Mono (i' + 1) i); lia|].
             destruct (Z_lt_ge_dec i i'); [pose proof (Mono (i + 1) i'); lia|]. lia. }
           subst i'. rewrite B by lia. f_equal. f_equal. lia.
        -- apply A; auto. lia.
      * intros q Hq. rewrite d3_at_set by lia. replace (q =? at_ offsets i - at_ offsets 0 + j) with false by lia.
        apply B. lia.
    + exists st'. split; auto.
      now replace (at_ offsets (i + 1) - at_ offsets 0) with (at_ offsets i - at_ offsets 0 + (at_ offsets (i + 1) - at_ offsets i)) by lia.
  - cbn [fst snd] in *. rewrite E1. cbn [kbind fst]. clear E1. clear inv.
    assert (Seg : forall q, 0 <= q < length -> exists i, 0 <= i < offsetslength - 1 /\
                    at_ offsets i - at_ offsets 0 <= q < at_ offsets (i + 1) - at_ offsets 0).
    { intros q Hq.
      assert (G : forall m, (m <= Z.to_nat (offsetslength - 1))%nat -> q < at_ offsets (Z.of_nat m) - at_ offsets 0 ->
                  exists i, 0 <= i < offsetslength - 1 /\
                    at_ offsets i - at_ offsets 0 <= q < at_ offsets (i + 1) - at_ offsets 0).
      { induction m; intros Hm' Hq'; [cbn in Hq'; lia|].
        destruct (Z_lt_ge_dec q (at_ offsets (Z.of_nat m) - at_ offsets 0)); [apply IHm; auto; lia|].
        exists (Z.of_nat m). split; [lia|]. replace (Z.of_nat m + 1) with (Z.of_nat (S m)) by lia. lia. }
      apply (G (Z.to_nat (offsetslength - 1))); [lia|]. replace (Z.of_nat (Z.to_nat (offsetslength - 1))) with (offsetslength - 1) by lia. lia. }
    assert (Hl0 : 0 <= length) by (pose proof (Mono 0 (offsetslength - 1)); lia).
    destruct (d3_rearrange_loop2 out1 shifts length parents starts) as (s' & E & L & A & B); auto; try lia.
    { intros q Hq. destruct (Seg q Hq) as (i & Hi & Hqi). rewrite (A1 i q Hi Hqi) by lia. apply Hseg; auto; lia. }
    exists s'. split; auto. split; [congruence|]. split.
    + intros i q Hi Hq.
      assert (Hql : 0 <= q < length).
      { pose proof (Mono (i + 1) (offsetslength - 1)) as M1. pose proof (Mono 0 i) as M2.
        clear - M1 M2 Hi Hq Hcover Hol. lia. }
      rewrite (A q Hql). rewrite (A1 i q Hi Hq) by (clear - Hql K1 Hcover; lia). reflexivity.
    + intros c Hc. rewrite (B c Hc). apply B1. clear - Hc K1 Hcover. lia.
Qed.
