(** Proofs_C13d8.v -- k_spec for the kernels that push blocks of values (broadcast carries, rpad index) *)
From Coq Require Import ZArith List Bool Lia ZifyBool.
From AwkV Require Import Base.
From AwkKernels Require Import Kernels KLemmas Proofs_C13 Proofs_C13b Proofs_C13c Proofs_C13d Proofs_C13d2.
Import ListNotations.
Open Scope Z_scope.

Ltac Zify.zify_post_hook ::= Z.to_euclidean_division_equations.

(** the state of a push loop after the values [pre] have been pushed into [out] *)
Definition pushed_st (pre out : list Z) : list Z * Z := (pre ++ skipn (length pre) out, zlen pre).

Lemma kpushes_spec lo hi (v : Z -> Z) pre out :
  lo <= hi -> zlen pre + (hi - lo) <= zlen out ->
  kfor lo hi (fun j st => kpush st (v j)) (pushed_st pre out)
  = KOk (pushed_st (pre ++ map (fun k => v (lo + k)) (iota (hi - lo))) out).
Proof.
  intros Hle Hcap.
  destruct (kfor_inv (fun j st => kpush st (v j))
              (fun j st => st = pushed_st (pre ++ map (fun k => v (lo + k)) (iota (j - lo))) out) lo hi (pushed_st pre out))
    as (s' & E & P); auto.
  - rewrite Z.sub_diag, iota_0. cbn [map]. now rewrite app_nil_r.
  - intros j st Hj ->. unfold pushed_st. rewrite kpush_app.
    2:{ rewrite zlen_app, zlen_map. unfold zlen at 2. rewrite iota_length. lia. }
    eexists; split; [reflexivity|].
    replace (j + 1 - lo) with (j - lo + 1) by lia. rewrite iota_snoc by lia. rewrite map_app. cbn [map].
    replace (lo + (j - lo)) with j by lia. now rewrite app_assoc.
  - now rewrite E, P.
Qed.

Lemma flat_map_iota_prefix (blk : Z -> list Z) j n :
  0 <= j <= n -> zlen (flat_map blk (iota j)) <= zlen (flat_map blk (iota n)).
Proof.
  intros H. replace n with (j + Z.of_nat (Z.to_nat (n - j))) by lia.
  induction (Z.to_nat (n - j)) as [|k IH]; [rewrite Z.add_0_r; lia|].
  rewrite Nat2Z.inj_succ. unfold Z.succ. rewrite Z.add_assoc. rewrite iota_snoc by lia.
  rewrite flat_map_app, zlen_app. pose proof (zlen_nonneg (flat_map blk [j + Z.of_nat k])). lia.
Qed.

(** an outer loop whose i-th pass pushes the block [blk i] *)
Lemma kfor_pushblocks_spec n (blk : Z -> list Z) (body : Z -> list Z * Z -> kres (list Z * Z)) out :
  0 <= n -> zlen (flat_map blk (iota n)) <= zlen out ->
  (forall i pre, 0 <= i < n -> zlen pre + zlen (blk i) <= zlen out ->
     body i (pushed_st pre out) = KOk (pushed_st (pre ++ blk i) out)) ->
  kfor 0 n body (out, 0) = KOk (pushed_st (flat_map blk (iota n)) out).
Proof.
  intros Hn Hcap Hb.
  destruct (kfor_inv body (fun j st => st = pushed_st (flat_map blk (iota j)) out) 0 n (out, 0)) as (s' & E & P); auto.
  - intros j st Hj ->.
    pose proof (flat_map_iota_prefix blk (j + 1) n ltac:(lia)) as M.
    rewrite iota_snoc in M by lia. rewrite flat_map_app in M. cbn [flat_map] in M. rewrite app_nil_r, zlen_app in M.
    rewrite Hb by lia. eexists; split; [reflexivity|].
    rewrite iota_snoc by lia. rewrite flat_map_app. cbn [flat_map]. now rewrite app_nil_r.
  - now rewrite E, P.
Qed.

(* ================================================================================================ *)
(** * awkward_RegularArray_broadcast_tooffsets_size1: row i is repeated count_i times *)
Theorem RegularArray_broadcast_tooffsets_size1_spec tocarry fromoffsets offsetslength :
  1 <= offsetslength -> offsetslength <= zlen fromoffsets ->
  (forall i, 0 <= i < offsetslength - 1 -> at_ fromoffsets i <= at_ fromoffsets (i + 1)) ->
  let P := flat_map (fun i => map (fun _ => i) (iota (at_ fromoffsets (i + 1) - at_ fromoffsets i))) (iota (offsetslength - 1)) in
  zlen P <= zlen tocarry ->
  RegularArray_broadcast_tooffsets_size1 TIdeal tocarry fromoffsets offsetslength = KOk (P ++ skipn (length P) tocarry).
Proof.
  intros H0 H1 Hm P Hcap. unfold RegularArray_broadcast_tooffsets_size1.
  rewrite (kfor_pushblocks_spec (offsetslength - 1)
             (fun i => map (fun _ => i) (iota (at_ fromoffsets (i + 1) - at_ fromoffsets i)))); auto; try lia.
  intros i pre Hi Hc. specialize (Hm i Hi).
  rewrite zlen_map in Hc. unfold zlen at 2 in Hc. rewrite iota_length in Hc.
  rewrite (kget_at fromoffsets (i + 1)), (kget_at fromoffsets i) by lia. cbn [kbind wrap]. cbv zeta.
  replace (at_ fromoffsets (i + 1) - at_ fromoffsets i <? 0) with false by lia. cbn [kcheck kbind].
  rewrite (kpushes_spec 0 (at_ fromoffsets (i + 1) - at_ fromoffsets i) (fun _ => i)) by lia.
  now rewrite Z.sub_0_r.
Qed.

(* awkward_ListArray_broadcast_tooffsets: the content positions of each list, when the lists have the given counts *)
Theorem ListArray_broadcast_tooffsets_spec tocarry fromoffsets offsetslength starts stops lencontent :
  1 <= offsetslength -> offsetslength <= zlen fromoffsets ->
  offsetslength - 1 <= zlen starts -> offsetslength - 1 <= zlen stops ->
  (forall i, 0 <= i < offsetslength - 1 ->
     at_ starts i <= at_ stops i /\ at_ stops i <= lencontent /\
     at_ stops i - at_ starts i = at_ fromoffsets (i + 1) - at_ fromoffsets i) ->
  let P := flat_map (fun i => map (fun k => at_ starts i + k) (iota (at_ stops i - at_ starts i))) (iota (offsetslength - 1)) in
  zlen P <= zlen tocarry ->
  ListArray_broadcast_tooffsets TIdeal tocarry fromoffsets offsetslength starts stops lencontent
  = KOk (P ++ skipn (length P) tocarry).
Proof.
  intros H0 H1 H2 H3 Hv P Hcap. unfold ListArray_broadcast_tooffsets.
  rewrite (kfor_pushblocks_spec (offsetslength - 1)
             (fun i => map (fun k => at_ starts i + k) (iota (at_ stops i - at_ starts i)))); auto; try lia.
  intros i pre Hi Hc. destruct (Hv i Hi) as (V1 & V2 & V3).
  rewrite zlen_map in Hc. unfold zlen at 2 in Hc. rewrite iota_length in Hc.
  rewrite (kget_at starts), (kget_at stops) by lia. cbn [kbind].
  replace (negb (at_ starts i =? at_ stops i) && (lencontent <? at_ stops i)) with false by lia. cbn [kcheck kbind].
  rewrite (kget_at fromoffsets (i + 1)), (kget_at fromoffsets i) by lia. cbn [kbind wrap]. cbv zeta.
  replace (at_ fromoffsets (i + 1) - at_ fromoffsets i <? 0) with false by lia. cbn [kcheck kbind].
  replace (negb (at_ stops i - at_ starts i =? at_ fromoffsets (i + 1) - at_ fromoffsets i)) with false by lia.
  cbn [kcheck kbind].
  now rewrite (kpushes_spec (at_ starts i) (at_ stops i) (fun j => j)) by lia.
Qed.

(* awkward_ListOffsetArray_rpad_axis1: each list followed by its padding *)
Theorem ListOffsetArray_rpad_axis1_spec toindex fromoffsets fromlength target :
  0 <= fromlength -> fromlength + 1 <= zlen fromoffsets ->
  (forall i, 0 <= i < fromlength -> at_ fromoffsets i <= at_ fromoffsets (i + 1)) ->
  let P := flat_map (fun i => map (fun k => at_ fromoffsets i + k) (iota (at_ fromoffsets (i + 1) - at_ fromoffsets i))
                              ++ map (fun _ => -1) (iota (target - (at_ fromoffsets (i + 1) - at_ fromoffsets i))))
                    (iota fromlength) in
  zlen P <= zlen toindex ->
  ListOffsetArray_rpad_axis1 toindex fromoffsets fromlength target = KOk (P ++ skipn (length P) toindex).
Proof.
  intros H0 H1 Hm P Hcap. unfold ListOffsetArray_rpad_axis1.
  rewrite (kfor_pushblocks_spec fromlength
             (fun i => map (fun k => at_ fromoffsets i + k) (iota (at_ fromoffsets (i + 1) - at_ fromoffsets i))
                       ++ map (fun _ => -1) (iota (target - (at_ fromoffsets (i + 1) - at_ fromoffsets i))))); auto; try lia.
  intros i pre Hi Hc. specialize (Hm i Hi).
  rewrite zlen_app, !zlen_map in Hc. unfold zlen at 2 3 in Hc. rewrite !iota_length in Hc.
  rewrite (kget_at fromoffsets (i + 1)), (kget_at fromoffsets i) by lia. cbn [kbind]. cbv zeta.
  set (len := at_ fromoffsets (i + 1) - at_ fromoffsets i) in *.
  rewrite (kpushes_spec 0 len (fun j => at_ fromoffsets i + j)) by lia. cbn [kbind]. rewrite Z.sub_0_r.
  destruct (Z_le_gt_dec len target) as [Hle|Hgt].
  - rewrite (kpushes_spec len target (fun _ => -1)).
    + now rewrite app_assoc.
    + lia.
    + rewrite zlen_app, zlen_map. unfold zlen at 2. rewrite iota_length. lia.
  - rewrite kfor_empty by lia. replace (iota (target - len)) with (@nil Z).
    + cbn [map]. now rewrite app_nil_r.
    + unfold iota. now replace (Z.to_nat (target - len)) with O by lia.
Qed.

(* ================================================================================================ *)
(** * advanced array slices (one index per list), for in-range indexes *)
Theorem ListArray_getitem_next_array_advanced_spec tocarry toadvanced starts stops fromarray fromadvanced lenstarts lenarray lencontent :
  0 <= lenstarts -> lenstarts <= zlen starts -> lenstarts <= zlen stops -> lenstarts <= zlen fromadvanced ->
  lenstarts <= zlen tocarry -> lenstarts <= zlen toadvanced ->
  (forall i, 0 <= i < lenstarts -> at_ starts i <= at_ stops i /\ (at_ starts i = at_ stops i \/ at_ stops i <= lencontent)) ->
  (forall i, 0 <= i < lenstarts ->
     0 <= at_ fromadvanced i < zlen fromarray /\
     - (at_ stops i - at_ starts i) <= at_ fromarray (at_ fromadvanced i) < at_ stops i - at_ starts i) ->
  ListArray_getitem_next_array_advanced tocarry toadvanced starts stops fromarray fromadvanced lenstarts lenarray lencontent
  = KOk (filled 0 lenstarts (fun i => let a := at_ fromarray (at_ fromadvanced i) in
                                      at_ starts i + (if a <? 0 then a + (at_ stops i - at_ starts i) else a)) tocarry,
         filled 0 lenstarts (fun i => at_ fromadvanced i) toadvanced).
Proof.
  intros Hn H1 H2 H3 H4 H5 Hv Hr. unfold ListArray_getitem_next_array_advanced.
  set (g := fun i => let a := at_ fromarray (at_ fromadvanced i) in
                     at_ starts i + (if a <? 0 then a + (at_ stops i - at_ starts i) else a)).
  match goal with |- kfor 0 lenstarts ?b _ = _ =>
    destruct (kfor_inv b (fun j st => st = (filled 0 j g tocarry, filled 0 j (fun i => at_ fromadvanced i) toadvanced))
                0 lenstarts (tocarry, toadvanced)) as (s' & E & P); auto end.
  - intros j st Hj ->. destruct (Hv j Hj) as (V1 & V2). destruct (Hr j Hj) as (R1 & R2).
    rewrite (kget_at starts), (kget_at stops) by lia. cbn [kbind].
    replace (at_ stops j <? at_ starts j) with false by lia. cbn [kcheck kbind].
    replace (negb (at_ starts j =? at_ stops j) && (lencontent <? at_ stops j)) with false by lia. cbn [kcheck kbind]. cbv zeta.
    rewrite (kget_at fromadvanced) by lia. cbn [kbind]. rewrite (kget_at fromarray) by lia. cbn [kbind].
    match goal with |- context [kcheck ?c _] =>
      replace c with false by (destruct (at_ fromarray (at_ fromadvanced j) <? 0) eqn:E; lia) end.
    cbn [kcheck kbind].
    rewrite kupd_ok by (rewrite zlen_filled; lia). cbn [kbind].
    rewrite kupd_ok by (rewrite zlen_filled; lia). cbn [kbind].
    pose proof (filled_step 0 j g tocarry ltac:(lia) ltac:(lia) ltac:(lia)) as F1.
    pose proof (filled_step 0 j (fun i => at_ fromadvanced i) toadvanced ltac:(lia) ltac:(lia) ltac:(lia)) as F2.
    cbv beta in F2. rewrite Z.add_0_l in F1, F2. unfold g at 2 in F1. cbv zeta in F1. rewrite F1, F2. eauto.
  - now rewrite E, P.
Qed.

Theorem RegularArray_getitem_next_array_advanced_spec tocarry toadvanced fromadvanced fromarray length lenarray size :
  0 <= length -> length <= zlen fromadvanced -> length <= zlen tocarry -> length <= zlen toadvanced ->
  (forall i, 0 <= i < length -> 0 <= at_ fromadvanced i < zlen fromarray) ->
  RegularArray_getitem_next_array_advanced tocarry toadvanced fromadvanced fromarray length lenarray size
  = KOk (filled 0 length (fun i => i * size + at_ fromarray (at_ fromadvanced i)) tocarry,
         filled 0 length (fun i => at_ fromadvanced i) toadvanced).
Proof.
  intros Hn H3 H4 H5 Hr. unfold RegularArray_getitem_next_array_advanced.
  match goal with |- kfor 0 length ?b _ = _ =>
    destruct (kfor_inv b (fun j st => st = (filled 0 j (fun i => i * size + at_ fromarray (at_ fromadvanced i)) tocarry,
                                            filled 0 j (fun i => at_ fromadvanced i) toadvanced))
                0 length (tocarry, toadvanced)) as (s' & E & P); auto end.
  - intros j st Hj ->. specialize (Hr j Hj).
    rewrite (kget_at fromadvanced) by lia. cbn [kbind]. rewrite (kget_at fromarray) by lia. cbn [kbind].
    rewrite kupd_ok by (rewrite zlen_filled; lia). cbn [kbind].
    rewrite kupd_ok by (rewrite zlen_filled; lia). cbn [kbind].
    pose proof (filled_step 0 j (fun i => i * size + at_ fromarray (at_ fromadvanced i)) tocarry ltac:(lia) ltac:(lia) ltac:(lia)) as F1.
    pose proof (filled_step 0 j (fun i => at_ fromadvanced i) toadvanced ltac:(lia) ltac:(lia) ltac:(lia)) as F2.
    cbv beta in F1, F2. rewrite Z.add_0_l in F1, F2. rewrite F1, F2. eauto.
  - now rewrite E, P.
Qed.

(* awkward_RegularArray_getitem_next_array_regularize *)
Lemma set_nth_twice l n a b : set_nth (set_nth l n a) n b = set_nth l n b.
Proof. revert n; induction l; intros [|n]; cbn [set_nth]; auto. now rewrite IHl. Qed.

Theorem RegularArray_getitem_next_array_regularize_spec toarray fromarray lenarray size :
  0 <= lenarray -> lenarray <= zlen fromarray -> lenarray <= zlen toarray ->
  (forall j, 0 <= j < lenarray -> - size <= at_ fromarray j < size) ->
  RegularArray_getitem_next_array_regularize toarray fromarray lenarray size
  = KOk (filled 0 lenarray (fun j => if at_ fromarray j <? 0 then at_ fromarray j + size else at_ fromarray j) toarray).
Proof.
  intros Hn H1 H2 Hr. unfold RegularArray_getitem_next_array_regularize.
  set (g := fun j => if at_ fromarray j <? 0 then at_ fromarray j + size else at_ fromarray j).
  match goal with |- kfor 0 lenarray ?b _ = _ =>
    destruct (kfor_inv b (fun j o => o = filled 0 j g toarray) 0 lenarray toarray) as (s' & E & P); auto end.
  - intros j st Hj ->. specialize (Hr j Hj).
    rewrite (kget_at fromarray) by lia. cbn [kbind].
    rewrite kupd_ok by (rewrite zlen_filled; lia). cbn [kbind].
    pose proof (filled_step 0 j g toarray ltac:(lia) ltac:(lia) ltac:(lia)) as F. rewrite Z.add_0_l in F.
    assert (Fin : forall o, o = filled 0 (j + 1) g toarray ->
              (let* y := kget o j in let* _ := kcheck (negb ((0 <=? y) && (y <? size))) MIndexOutOfRange in KOk o) = KOk o).
    { intros o ->. rewrite (kget_at (filled 0 (j + 1) g toarray)) by (rewrite zlen_filled; lia). cbn [kbind].
      rewrite at_filled by lia. replace ((0 <=? j) && (j <? 0 + (j + 1))) with true by lia. rewrite Z.sub_0_r.
      replace (negb ((0 <=? g j) && (g j <? size))) with false by (unfold g; destruct (at_ fromarray j <? 0) eqn:E0; lia).
      reflexivity. }
    destruct (at_ fromarray j <? 0) eqn:E0.
    + rewrite kupd_ok by (rewrite zlen_set_nth, zlen_filled; lia). cbn [kbind]. rewrite set_nth_twice.
      replace (set_nth (filled 0 j g toarray) (Z.to_nat j) (at_ fromarray j + size)) with (filled 0 (j + 1) g toarray)
        by (rewrite <- F; f_equal; unfold g; rewrite E0; reflexivity).
      rewrite Fin by reflexivity. eauto.
    + cbn [kbind].
      replace (set_nth (filled 0 j g toarray) (Z.to_nat j) (at_ fromarray j)) with (filled 0 (j + 1) g toarray)
        by (rewrite <- F; f_equal; unfold g; rewrite E0; reflexivity).
      rewrite Fin by reflexivity. eauto.
  - now rewrite E, P.
Qed.

(* ================================================================================================ *)
(** * prefix-sum kernels *)

(** awkward_IndexedArray_flatten_none2empty: offsets of the flattened lists, a missing list counting as empty *)
Fixpoint n2e_sum (outindex offsets : list Z) (k : nat) : Z :=
  match k with
  | O => at_ offsets 0
  | S k' => n2e_sum outindex offsets k'
            + (if at_ outindex (Z.of_nat k') <? 0 then 0
               else at_ offsets (at_ outindex (Z.of_nat k') + 1) - at_ offsets (at_ outindex (Z.of_nat k')))
  end.

Theorem IndexedArray_flatten_none2empty_spec outoffsets outindex outindexlength offsets offsetslength :
  0 <= outindexlength -> 1 <= zlen offsets -> offsetslength <= zlen offsets -> outindexlength <= zlen outindex ->
  outindexlength + 1 <= zlen outoffsets ->
  (forall i, 0 <= i < outindexlength -> at_ outindex i + 1 < offsetslength) ->
  exists out, IndexedArray_flatten_none2empty TIdeal outoffsets outindex outindexlength offsets offsetslength = KOk out /\
    zlen out = zlen outoffsets /\
    forall q, 0 <= q -> at_ out q = if q <=? outindexlength then n2e_sum outindex offsets (Z.to_nat q) else at_ outoffsets q.
Proof.
  intros Hn H0 H1 H2 H3 Hr. unfold IndexedArray_flatten_none2empty.
  rewrite (kget_at offsets 0) by lia. cbn [kbind wrap].
  destruct (kupd outoffsets 0 (at_ offsets 0)) as [out0| |] eqn:U0.
  2:{ exfalso; eapply kupd_not_err; eauto. } 2:{ apply kupd_oob in U0; lia. }
  cbn [kbind]. destruct (kupd_at _ _ _ _ U0) as (L0 & A0).
  match goal with |- exists out, kbind (kfor 0 outindexlength ?b ?s0) _ = _ /\ _ =>
    destruct (kfor_inv b
      (fun j (st : list Z * Z) => zlen (fst st) = zlen outoffsets /\ snd st = j + 1 /\
         forall q, 0 <= q -> at_ (fst st) q = if q <=? j then n2e_sum outindex offsets (Z.to_nat q) else at_ outoffsets q)
      0 outindexlength s0) as ([out k] & E & P); auto end.
  - cbn [fst snd]. split; [lia|]. split; [lia|]. intros q Hq. rewrite A0 by lia. destruct (q =? 0) eqn:E.
    + replace (q <=? 0) with true by lia. replace q with 0 by lia. reflexivity.
    + replace (q <=? 0) with false by lia. reflexivity.
  - intros j [out k] Hj (L & K & A). cbn [fst snd] in *. subst k. specialize (Hr j Hj).
    rewrite (kget_at outindex) by lia. cbn [kbind].
    assert (NS : n2e_sum outindex offsets (Z.to_nat (j + 1))
                 = n2e_sum outindex offsets (Z.to_nat j)
                   + (if at_ outindex j <? 0 then 0 else at_ offsets (at_ outindex j + 1) - at_ offsets (at_ outindex j))).
    { replace (Z.to_nat (j + 1)) with (S (Z.to_nat j)) by lia. cbn [n2e_sum]. now rewrite Z2Nat.id by lia. }
    assert (Fin : forall v, v = n2e_sum outindex offsets (Z.to_nat (j + 1)) ->
              exists s', (let* out' := kupd out (j + 1) v in KOk (out', j + 1 + 1)) = KOk s' /\
                zlen (fst s') = zlen outoffsets /\ snd s' = j + 1 + 1 /\
                forall q, 0 <= q -> at_ (fst s') q = if q <=? j + 1 then n2e_sum outindex offsets (Z.to_nat q) else at_ outoffsets q).
    { intros v ->. destruct (kupd out (j + 1) _) as [o'| |] eqn:U.
      2:{ exfalso; eapply kupd_not_err; eauto. } 2:{ apply kupd_oob in U; lia. }
      cbn [kbind]. eexists; split; [reflexivity|]. cbn [fst snd]. destruct (kupd_at _ _ _ _ U) as (L' & A').
      split; [lia|]. split; [lia|]. intros q Hq. rewrite A' by lia. destruct (q =? j + 1) eqn:E.
      - replace (q <=? j + 1) with true by lia. now replace q with (j + 1) by lia.
      - rewrite A by lia. destruct (q <=? j) eqn:E2; [replace (q <=? j + 1) with true by lia|replace (q <=? j + 1) with false by lia]; reflexivity. }
    replace (j + 1 - 1) with j by lia.
    destruct (at_ outindex j <? 0) eqn:Neg.
    + rewrite (kget_at out) by lia. cbn [kbind]. apply Fin. rewrite A by lia. replace (j <=? j) with true by lia. lia.
    + replace (offsetslength <=? at_ outindex j + 1) with false by lia. cbn [kcheck kbind].
      rewrite (kget_at offsets (at_ outindex j + 1)), (kget_at offsets (at_ outindex j)) by lia. cbn [kbind wrap].
      rewrite (kget_at out) by lia. cbn [kbind]. apply Fin. rewrite A by lia. replace (j <=? j) with true by lia. lia.
  - rewrite E. cbn [kbind fst snd]. cbn [fst snd] in P. destruct P as (L & K & A). exists out. auto.
Qed.

(** awkward_ListOffsetArray_rpad_length_axis1: offsets of the padded lists and their total *)
Theorem ListOffsetArray_rpad_length_axis1_spec tooffsets fromoffsets fromlength target tolength :
  0 <= fromlength -> fromlength + 1 <= zlen tooffsets -> fromlength + 1 <= zlen fromoffsets -> 1 <= zlen tolength ->
  exists out, ListOffsetArray_rpad_length_axis1 TIdeal tooffsets fromoffsets fromlength target tolength
              = KOk (out, set_nth tolength 0 (wrap i64 (rpad_total fromoffsets target (Z.to_nat fromlength)))) /\
    zlen out = zlen tooffsets /\
    forall q, 0 <= q -> at_ out q = if q <=? fromlength then rpad_total fromoffsets target (Z.to_nat q) else at_ tooffsets q.
Proof.
  intros Hn H1 H2 H3. unfold ListOffsetArray_rpad_length_axis1.
  destruct (kupd tooffsets 0 0) as [out0| |] eqn:U0.
  2:{ exfalso; eapply kupd_not_err; eauto. } 2:{ apply kupd_oob in U0; lia. }
  cbn [kbind]. destruct (kupd_at _ _ _ _ U0) as (L0 & A0).
  match goal with |- exists out, kbind (kfor 0 fromlength ?b ?s0) _ = _ /\ _ =>
    destruct (kfor_inv b
      (fun j (st : list Z * Z) => zlen (fst st) = zlen tooffsets /\ snd st = rpad_total fromoffsets target (Z.to_nat j) /\
         forall q, 0 <= q -> at_ (fst st) q = if q <=? j then rpad_total fromoffsets target (Z.to_nat q) else at_ tooffsets q)
      0 fromlength s0) as ([out len] & E & P); auto end.
  - cbn [fst snd]. split; [lia|]. split; [reflexivity|]. intros q Hq. rewrite A0 by lia. destruct (q =? 0) eqn:E.
    + replace (q <=? 0) with true by lia. replace q with 0 by lia. reflexivity.
    + replace (q <=? 0) with false by lia. reflexivity.
  - intros j [out len] Hj (L & K & A). cbn [fst snd] in *.
    rewrite (kget_at fromoffsets (j + 1)), (kget_at fromoffsets j) by lia. cbn [kbind wrap]. cbv zeta.
    rewrite (kget_at out) by lia. cbn [kbind].
    pose proof (rpad_total_S fromoffsets target j (proj1 Hj)) as TS.
    set (d := at_ fromoffsets (j + 1) - at_ fromoffsets j) in *.
    replace (if target <? d then d else target) with (Z.max target d) by (destruct (target <? d) eqn:E; lia).
    destruct (kupd out (j + 1) _) as [o'| |] eqn:U.
    2:{ exfalso; eapply kupd_not_err; eauto. } 2:{ apply kupd_oob in U; lia. }
    cbn [kbind]. eexists; split; [reflexivity|]. cbn [fst snd]. destruct (kupd_at _ _ _ _ U) as (L' & A').
    split; [lia|]. split; [lia|]. intros q Hq. rewrite A' by lia. destruct (q =? j + 1) eqn:E.
    + replace (q <=? j + 1) with true by lia. replace q with (j + 1) by lia. rewrite A by lia.
      replace (j <=? j) with true by lia. lia.
    + rewrite A by lia. destruct (q <=? j) eqn:E2; [replace (q <=? j + 1) with true by lia|replace (q <=? j + 1) with false by lia]; reflexivity.
  - rewrite E. cbn [kbind fst snd]. cbn [fst snd] in P. destruct P as (L & K & A).
    rewrite kupd_ok by lia. cbn [kbind Z.to_nat]. exists out. rewrite K. auto.
Qed.

(* ================================================================================================ *)
(** * scalar results: awkward_ListArray_min_range, awkward_ListArray_rpad_and_clip_length_axis1 *)
Fixpoint min_upto (starts stops : list Z) (k : nat) : Z :=
  match k with
  | O => at_ stops 0 - at_ starts 0
  | S k' => Z.min (min_upto starts stops k') (at_ stops (Z.of_nat (S k')) - at_ starts (Z.of_nat (S k')))
  end.

(** the shortest list length (lists 0 .. lenstarts-1) *)
Theorem ListArray_min_range_spec tomin starts stops lenstarts :
  1 <= lenstarts -> lenstarts <= zlen starts -> lenstarts <= zlen stops -> 1 <= zlen tomin ->
  ListArray_min_range TIdeal tomin starts stops lenstarts
  = KOk (set_nth tomin 0 (min_upto starts stops (Z.to_nat (lenstarts - 1)))).
Proof.
  intros Hn H1 H2 H3. unfold ListArray_min_range.
  rewrite (kget_at starts 0), (kget_at stops 0) by lia. cbn [kbind wrap].
  match goal with |- kbind (kfor 1 lenstarts ?b ?s0) _ = _ =>
    destruct (kfor_inv b (fun i m => m = min_upto starts stops (Z.to_nat (i - 1))) 1 lenstarts s0) as (s' & E & P); auto end.
  - intros i m Hi ->. rewrite (kget_at starts), (kget_at stops) by lia. cbn [kbind]. eexists; split; [reflexivity|].
    replace (Z.to_nat (i + 1 - 1)) with (S (Z.to_nat (i - 1))) by lia. cbn [min_upto].
    replace (Z.of_nat (S (Z.to_nat (i - 1)))) with i by lia.
    destruct (min_upto starts stops (Z.to_nat (i - 1)) <? at_ stops i - at_ starts i) eqn:C; lia.
  - rewrite E, P. cbn [kbind]. rewrite kupd_ok by lia. reflexivity.
Qed.

Fixpoint padclip_total (starts stops : list Z) (target : Z) (k : nat) : Z :=
  match k with
  | O => 0
  | S k' => padclip_total starts stops target k' + Z.max target (at_ stops (Z.of_nat k') - at_ starts (Z.of_nat k'))
  end.

(** the total length of the padded lists: sum of max(target, length) *)
Theorem ListArray_rpad_and_clip_length_axis1_spec tomin starts stops target lenstarts :
  0 <= lenstarts -> lenstarts <= zlen starts -> lenstarts <= zlen stops -> 1 <= zlen tomin ->
  ListArray_rpad_and_clip_length_axis1 TIdeal tomin starts stops target lenstarts
  = KOk (set_nth tomin 0 (wrap i64 (padclip_total starts stops target (Z.to_nat lenstarts)))).
Proof.
  intros Hn H1 H2 H3. unfold ListArray_rpad_and_clip_length_axis1.
  match goal with |- kbind (kfor 0 lenstarts ?b ?s0) _ = _ =>
    destruct (kfor_inv b (fun i m => m = padclip_total starts stops target (Z.to_nat i)) 0 lenstarts s0) as (s' & E & P); auto end.
  - intros i m Hi ->. rewrite (kget_at starts), (kget_at stops) by lia. cbn [kbind wrap]. eexists; split; [reflexivity|].
    replace (Z.to_nat (i + 1)) with (S (Z.to_nat i)) by lia. cbn [padclip_total]. rewrite Z2Nat.id by lia.
    destruct (at_ stops i - at_ starts i <? target) eqn:C; lia.
  - rewrite E, P. cbn [kbind]. rewrite kupd_ok by lia. reflexivity.
Qed.
