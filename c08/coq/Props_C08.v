(** C08 property theorems (statements only; proofs are in Proofs_*.v).
    Model: Merge.v (follows /repo's mergeable / mergemany / merge_as_union / simplify_* / numbers_to_type). *)
From Coq Require Import ZArith List.
From AwkV Require Import Base Layout Valid Types Carry.
From AwkMerge Require Import Merge Proofs_C08 Proofs_MM Proofs_MML Proofs_Concat Proofs_Simplify Proofs_SU.
From AwkMerge Require Import Proofs_Astype Proofs_MMU Proofs_SU2 Proofs_SU3 Proofs_SU4 Proofs_MM2 Proofs_MM2t Proofs_MM2b Proofs_MM2c Proofs_MM2d.
Import ListNotations.
Open Scope Z_scope.

(* (a) The dtype promotion switch of NumpyArray::mergemany is NumPy's promotion on all 121 pairs
   ([numpy_promote] is additionally compared with the installed numpy.result_type at run time). *)
Theorem promotion_table_is_numpy : forall a b, promote a b = numpy_promote a b.
Proof. exact promotion_table_is_numpy_pf. Qed.
Print Assumptions promotion_table_is_numpy.

(* every source dtype is accepted by the fill switch for the promoted target: the "dtype not in {...}"
   runtime errors of NumpyArray::mergemany are unreachable *)
Theorem fill_ok_promote : forall a b, fill_ok a (promote a b) = true /\ fill_ok b (promote a b) = true.
Proof. exact fill_ok_promote_pf. Qed.
Print Assumptions fill_ok_promote.

(* (b) mergemany = concatenation of the values, on the fragment "all operands share one skeleton":
   1-d NumpyArray of any dtype | ListOffsetArray / ListArray (any width, gaps, any order) / RegularArray
   (size <> 1) of skeleton | IndexedArray / IndexedOptionArray / ByteMasked / BitMasked / UnmaskedArray of
   skeleton ([has_sk], Proofs_MM.v).
   The result exists with the stated fuel (no EOob / EFuel / EValue), and every value is unchanged up to the
   documented cast of booleans to 0/1 when the merged leaf type is a number ([deep_cast]).
   _partial: RegularArray of size 1 (its content goes through a lazy carry), RecordArray, UnionArray,
   EmptyArray operands, n-d NumpyArray, strings / parameters and option-with-non-option mixtures
   (reverse_merge) are not covered by the proof (they are by the tests). *)
Theorem mergemany_app_partial : forall s cs,
  (2 <= length cs)%nat ->
  Forall (fun c => has_sk s c = true) cs -> Forall (fun c => valid_b c = true) cs ->
  exists c, mergemany cs = Ok c /\
            Forall (fun x => to_list x = Ok (vals x)) cs /\
            to_list c = Ok (concat (map (fun x => map (deep_cast (leaf_dt c)) (vals x)) cs)).
Proof. exact mergemany_app_partial_pf. Qed.
Print Assumptions mergemany_app_partial.

(* (e) closure on the same fragment: the merged layout is valid and has the same skeleton *)
Theorem mergemany_valid_partial : forall s cs c,
  (2 <= length cs)%nat ->
  Forall (fun c => has_sk s c = true) cs -> Forall (fun c => valid_b c = true) cs ->
  mergemany cs = Ok c -> valid_b c = true /\ has_sk s c = true.
Proof. exact mergemany_valid_partial_pf. Qed.
Print Assumptions mergemany_valid_partial.

(* ... its leaf dtype is NumPy's promotion of the operands' leaf dtypes (folded left to right) ... *)
Theorem mergemany_dtype_partial : forall s cs c,
  (2 <= length cs)%nat ->
  Forall (fun c => has_sk s c = true) cs -> Forall (fun c => valid_b c = true) cs ->
  mergemany cs = Ok c ->
  leaf_dt c = fold_left numpy_promote (map leaf_dt cs) (leaf_dt (hd Empty cs)).
Proof. exact mergemany_dtype_partial_pf. Qed.
Print Assumptions mergemany_dtype_partial.

(* ... and ak.concatenate(axis=0, mergebool=True) of such operands is that single mergemany: one batch, no
   union, for either value of [merge] *)
Theorem concat_app_partial : forall s merge_ cs,
  (2 <= length cs)%nat ->
  Forall (fun c => has_sk s c = true) cs -> Forall (fun c => valid_b c = true) cs ->
  exists c, concat_model merge_ true cs = Ok c /\ valid_b c = true /\ has_sk s c = true /\
            to_list c = Ok (concat (map (fun x => map (deep_cast (leaf_dt c)) (vals x)) cs)).
Proof. exact concat_app_partial_pf. Qed.
Print Assumptions concat_app_partial.

(* (b)+(e), option with non-option: the first operand has the full skeleton, the later ones may lack option
   levels the first one has ([has_skL]); e.g. [option[list[int16]], list[bool], option[list[int16]]].
   (When the option operand is not the first, the C++ goes through reverse_merge: tests only.) *)
Theorem mergemany_option_mix_partial : forall s a others,
  others <> [] -> has_sk s a = true -> Forall (fun c => has_skL s c = true) others ->
  Forall (fun c => valid_b c = true) (a :: others) ->
  exists c, mergemany (a :: others) = Ok c /\ has_sk s c = true /\ valid_b c = true /\
            Forall (fun x => to_list x = Ok (vals x)) (a :: others) /\
            to_list c = Ok (concat (map (fun x => map (deep_cast (leaf_dt c)) (vals x)) (a :: others))).
Proof. exact mergemany_option_mix_pf. Qed.
Print Assumptions mergemany_option_mix_partial.

(* (c) merge_as_union keeps both operands' values in order, and is valid when neither operand is a union
   (all node classes) *)
Theorem merge_as_union_app : forall a b va vb,
  to_list a = Ok va -> to_list b = Ok vb -> to_list (merge_as_union a b) = Ok (va ++ vb).
Proof. exact merge_as_union_app_pf. Qed.
Print Assumptions merge_as_union_app.

Theorem merge_as_union_valid : forall a b,
  valid_b a = true -> valid_b b = true -> unionlike a = false -> unionlike b = false ->
  valid_b (merge_as_union a b) = true.
Proof. exact merge_as_union_valid_pf. Qed.
Print Assumptions merge_as_union_valid.

(* (d) simplify_optiontype: any of the 5 x 5 nestings of indexed / option nodes (and the un-nested case),
   contents of any class: no value changes ... *)
Theorem simplify_option_value : forall c c' ci vs,
  opt_content c = Some ci -> valid_b ci = true -> is_strk (fst (params c)) = false ->
  to_list c = Ok vs -> simplify_option c = Ok c' -> to_list c' = Ok vs.
Proof. exact simplify_option_value_pf. Qed.
Print Assumptions simplify_option_value.

(* ... and the result has no option / indexed node directly inside an option / indexed node *)
Theorem simplify_option_flat : forall c c' ci,
  opt_content c = Some ci -> valid_b ci = true -> simplify_option c = Ok c' ->
  exists cc, opt_content c' = Some cc /\ optionlike cc = false.
Proof. exact simplify_option_flat_pf. Qed.
Print Assumptions simplify_option_flat.

(* (d) simplify_uniontype(merge = False): a union whose alternatives may themselves be (valid) unions is
   flattened without changing any value, and no union is left directly inside the result.
   _partial: merge = True (alternatives merged by mergemany, booleans cast when mergebool) and the case of a
   single remaining alternative (C++ carries that alternative) are covered by the tests only. *)
Theorem simplify_union_value_partial : forall mb c w tags index cs0 vs c',
  body c = Union w tags index cs0 -> is_strk (fst (params c)) = false ->
  Forall (fun x => valid_b x = true) cs0 -> (2 <= length (flat_alts cs0))%nat ->
  to_list c = Ok vs -> simplify_union false mb c = Ok c' ->
  to_list c' = Ok vs /\
  exists t' i', body c' = Union I64 t' i' (flat_alts cs0) /\ Forall (fun y => unionlike y = false) (flat_alts cs0).
Proof. exact simplify_union_value_pf. Qed.
Print Assumptions simplify_union_value_partial.

(* numbers_to_type on a 1-d NumpyArray is exactly the element-wise cast of the specification, and the
   result has the requested dtype.  _partial: the structural recursion through the other node classes is
   covered by the tests only. *)
Theorem astype_only_casts_partial : forall dt dst n data vs c',
  to_list (Numpy dt [n] data) = Ok vs -> astype_model dst (Numpy dt [n] data) = Ok c' ->
  exists vs', to_list c' = Ok vs' /\ astype_spec dst (type_of (Numpy dt [n] data)) vs = Ok vs' /\
              type_of c' = astype_ty dst (type_of (Numpy dt [n] data)).
Proof. exact astype_numpy_pf. Qed.
Print Assumptions astype_only_casts_partial.


(* ---------------------------------------------------------------- RecordArray operands (Proofs_MM2*.v) *)
(* (b)+(e) mergemany of record / tuple operands.  Fragment: the first operand has skeleton [s] strictly ([hasS]: a tuple
   or a record with its keys in the skeleton's order, no duplicate key, fields recursively — nested records / tuples,
   non-record fields in the has_sk fragment of mergemany_app_partial), every operand has it loosely ([hasL]: the same
   keys in ANY order; what [trim] = getitem_range_nowrap visits below a record field is [trimmable]); all operands
   valid and without parameters ([no_par]); [ok2 s]: no option level directly inside an option level.
   The merge exists (no EOob / EFuel / EValue), is valid, has the skeleton strictly (keys in the first operand's
   order), and its values are the operands' values in order, each cast by [dcast] at the result's dtype tree
   [dtree c]: booleans -> 0/1 where the merged leaf type is a number, record fields listed in the result's key
   order, nothing else (fields longer than their record are trimmed, so no value beyond the record length appears).
   _partial: records below a list / option node, n-d NumpyArray, strings / parameters (also record names),
   EmptyArray operands, RegularArray / BitMaskedArray / UnionArray directly as a record field, option-vs-non-option
   mixtures inside records, and records with a duplicate key (Proofs_MM2d.mergemany_record_dupkeys_refuted: the C++
   takes the FIRST field of each name, so {x:3, x:4} is concatenated as {x:3, x:3}) are still excluded; the
   dtype statement (NumPy promotion per leaf) is carried by [dtree c] in the example only, not as a theorem. *)
Theorem mergemany_records_partial : forall s a others,
  others <> [] -> ok2 s = true -> hasS s a = true -> Forall (fun c => hasL s c = true) (a :: others) ->
  Forall (fun c => valid_b c = true) (a :: others) -> Forall (fun c => Proofs_ToList.no_par c = true) (a :: others) ->
  exists c, mergemany (a :: others) = Ok c /\ hasS s c = true /\ valid_b c = true /\
            Forall (fun x => to_list x = Ok (vals x)) (a :: others) /\
            to_list c = Ok (concat (map (fun x => map (dcast (dtree c)) (vals x)) (a :: others))).
Proof. exact Proofs_MM2d.mergemany_records_partial_pf. Qed.
Print Assumptions mergemany_records_partial.

(* getitem_range_nowrap(0, q) as used by RecordArray::mergemany on every field: the first q values, valid, same
   option-likeness ([trimmable] classes: all but RegularArray / BitMaskedArray / UnionArray / parameters) *)
Theorem trim_takes_prefix : forall c q vs,
  trimmable c = true -> valid_b c = true -> to_list c = Ok vs -> 0 <= q <= clen c ->
  exists c', trim q c = Ok c' /\ to_list c' = Ok (take q vs) /\ valid_b c' = true /\ optionlike c' = optionlike c /\
             keeps c c'.
Proof. exact Proofs_MM2t.trim_spec_all. Qed.
Print Assumptions trim_takes_prefix.


(* ---------------------------------------------------------------- UnionArray operands (Proofs_MMU.v) *)
(* (b) UnionArray first: UnionArray::mergemany takes every operand of every node class as it is (a UnionArray
   contributes its alternatives, an EmptyArray nothing, anything else one more alternative): the merge exists
   and no value changes.  Hypotheses: operands have values ([tl_ok]), no UnionArray operand is tagged
   string/bytestring ([u_nostr]; such a layout is never valid, see mergemany_union_first_string_tag_refuted),
   at most 127 alternatives ([nalts]; more is a ValueError in C++). *)
Theorem mergemany_union_first : forall a others,
  is_union a = true -> Forall tl_ok (a :: others) -> forallb u_nostr (a :: others) = true ->
  sumZ (map nalts (a :: others)) <= 127 ->
  exists c, mergemany (a :: others) = Ok c /\ to_list c = Ok (concat (map vals (a :: others))) /\ is_union c = true.
Proof. exact mergemany_union_first_pf. Qed.
Print Assumptions mergemany_union_first.

(* (e) ... and the result is valid when all operands are (all node classes) *)
Theorem mergemany_union_first_valid : forall a others c,
  is_union a = true -> Forall (fun x => valid_b x = true) (a :: others) ->
  mergemany (a :: others) = Ok c -> valid_b c = true.
Proof. exact mergemany_union_first_valid_pf. Qed.
Print Assumptions mergemany_union_first_valid.

(* (b)+(e) UnionArray later: >= 2 operands of one skeleton, then a UnionArray, then anything (reverse_merge +
   UnionArray::mergemany).  _partial: single-array head and heads outside has_sk are covered by tests only. *)
Theorem mergemany_union_later_partial : forall s g u rest,
  (2 <= length g)%nat ->
  Forall (fun c => has_sk s c = true) g -> Forall (fun c => valid_b c = true) g ->
  is_union u = true -> Forall tl_ok (u :: rest) -> forallb u_nostr (u :: rest) = true ->
  1 + sumZ (map nalts (u :: rest)) <= 127 ->
  let dt := fold_left promote (map leaf_dt g) (leaf_dt (hd Empty g)) in
  exists c, mergemany (g ++ u :: rest) = Ok c /\ is_union c = true /\
            to_list c = Ok (concat (map (fun x => map (deep_cast dt) (vals x)) g) ++ concat (map vals (u :: rest))) /\
            (Forall (fun x => valid_b x = true) (u :: rest) -> valid_b c = true).
Proof. exact mergemany_union_later_partial_pf. Qed.
Print Assumptions mergemany_union_later_partial.

(* (d) simplify_uniontype(merge = False) is total on unions of valid alternatives (one level of nesting) that
   have values; keeps the values; result valid (strengthens simplify_union_value_partial).
   _partial: a single remaining alternative; merge = True only when nothing is mergeable (used below). *)
Theorem simplify_union_false_total_partial : forall mb c w tags index cs0 vs,
  body c = Union w tags index cs0 -> is_strk (fst (params c)) = false ->
  Forall (fun x => valid_b x = true) cs0 -> (2 <= length (flat_alts cs0))%nat -> zlen (flat_alts cs0) <= 127 ->
  to_list c = Ok vs ->
  exists c' t' i', simplify_union false mb c = Ok c' /\ to_list c' = Ok vs /\
                   c' = mkpar (params c) (Union I64 t' i' (flat_alts cs0)) /\
                   (fst (params c) = None -> valid_b c' = true).
Proof. exact Proofs_MMU.simplify_union_false_total_pf. Qed.
Print Assumptions simplify_union_false_total_partial.

(* "only genuinely different types become a union": two non-mergeable operands of any node class give the
   union of the two, unchanged, valid, for both values of merge and mergebool *)
Theorem concat_two_different : forall merge_ mb a b,
  mergeable mb a b = false -> is_union a = false -> is_union b = false ->
  valid_b a = true -> valid_b b = true -> tl_ok a -> tl_ok b ->
  exists t i, concat_model merge_ mb [a; b] = Ok (Union I64 t i [a; b]) /\
              valid_b (Union I64 t i [a; b]) = true /\ to_list (Union I64 t i [a; b]) = Ok (vals a ++ vals b).
Proof. exact concat_two_different_pf. Qed.
Print Assumptions concat_two_different.

(* a mergeable group (one skeleton, >= 2) then one operand of a different type: union {merged group, x} *)
Theorem concat_group_then_different_partial : forall s merge_ g x,
  (2 <= length g)%nat ->
  Forall (fun c => has_sk s c = true) g -> Forall (fun c => valid_b c = true) g ->
  mergeable true (last g Empty) x = false -> is_union x = false -> valid_b x = true -> tl_ok x ->
  exists m t i, mergemany g = Ok m /\ has_sk s m = true /\
    concat_model merge_ true (g ++ [x]) = Ok (Union I64 t i [m; x]) /\
    valid_b (Union I64 t i [m; x]) = true /\
    to_list (Union I64 t i [m; x]) = Ok (concat (map (fun y => map (deep_cast (leaf_dt m)) (vals y)) g) ++ vals x).
Proof. exact concat_group_then_different_partial_pf. Qed.
Print Assumptions concat_group_then_different_partial.



(* ---------------------------------------------------------------- simplify_uniontype, wider (Proofs_SU2..4.v) *)
(* (d) ... the case of a single alternative after flattening (merge = False; any nesting of valid unions): the
   result is that alternative carried by the rewritten index ([lazy_carry]: a RecordArray is wrapped in an
   IndexedArray64, every other class is carried eagerly); it is valid, has the union's length, no value changes. *)
Theorem simplify_union_single : forall mb c w tags index cs0 only vs c',
  body c = Union w tags index cs0 -> is_strk (fst (params c)) = false ->
  Forall (fun x => valid_b x = true) cs0 -> flat_alts cs0 = [only] ->
  to_list c = Ok vs -> simplify_union false mb c = Ok c' ->
  to_list c' = Ok vs /\ valid_b c' = true /\ clen c' = zlen tags /\
  exists ix, lazy_carry only ix = Ok c'.
Proof. exact simplify_union_single_pf. Qed.
Print Assumptions simplify_union_single.

(* (d) merge = True when no (flattened) alternative is mergeable with one kept before it ([nomerge], any node
   classes, any nesting of valid unions): exactly the merge = False result, so no value changes *)
Theorem simplify_union_merge_distinct : forall mb c w tags index cs0 vs c',
  body c = Union w tags index cs0 -> is_strk (fst (params c)) = false ->
  Forall (fun x => valid_b x = true) cs0 -> nomerge mb [] (flat_alts cs0) = true ->
  to_list c = Ok vs -> simplify_union true mb c = Ok c' ->
  simplify_union false mb c = Ok c' /\ to_list c' = Ok vs /\
  ((2 <= length (flat_alts cs0))%nat -> exists t' i', body c' = Union I64 t' i' (flat_alts cs0)) /\
  (forall only, flat_alts cs0 = [only] -> valid_b c' = true /\ exists ix, lazy_carry only ix = Ok c').
Proof. exact simplify_union_merge_distinct_pf. Qed.
Print Assumptions simplify_union_merge_distinct.

(* (d) merge = True / False, mergebool = True / False, with merging: un-nested union (1..127 alternatives) whose
   alternatives are valid layouts with a skeleton (Proofs_MM.has_sk: 1-d numbers / lists / option-indexed
   levels) such that alternatives with mergeable skeletons have the same skeleton ([su_frag], Proofs_SU3.v).
   The result EXISTS (no EOob / EFuel / EValue) and every value is the value it was up to the documented cast
   of booleans to 0/1 ([castrel v v' := exists d, v' = deep_cast d v], element by element).
   _partial: nested unions with merging, records / strings / n-d / EmptyArray alternatives, alternatives that are
   mergeable across different skeletons (number with option-of-number: reverse_merge) are covered by the tests
   only; the dtype [d] of the cast is not tied to the merged alternative's leaf dtype by the theorem. *)
Theorem simplify_union_merge_partial : forall merge_ mb c w tags index cs0 vs,
  body c = Union w tags index cs0 -> is_strk (fst (params c)) = false ->
  Forall (fun x => valid_b x = true) cs0 -> su_frag cs0 = true ->
  cs0 <> [] -> (length cs0 <= 127)%nat ->
  to_list c = Ok vs ->
  exists c' vs', simplify_union merge_ mb c = Ok c' /\ to_list c' = Ok vs' /\ Forall2 castrel vs vs'.
Proof. exact simplify_union_merge_sk_pf. Qed.
Print Assumptions simplify_union_merge_partial.

(* ... and when no alternative has boolean leaves nothing changes at all *)
Theorem simplify_union_merge_nobool_partial : forall merge_ mb c w tags index cs0 vs,
  body c = Union w tags index cs0 -> is_strk (fst (params c)) = false ->
  Forall (fun x => valid_b x = true) cs0 -> su_frag cs0 = true -> no_bool_alts cs0 = true ->
  cs0 <> [] -> (length cs0 <= 127)%nat ->
  to_list c = Ok vs ->
  exists c', simplify_union merge_ mb c = Ok c' /\ to_list c' = Ok vs.
Proof. exact simplify_union_merge_nobool_pf. Qed.
Print Assumptions simplify_union_merge_nobool_partial.

(* ... and with merge = False on the same fragment the result exists and no value changes (booleans included) *)
Theorem simplify_union_false_frag_total_partial : forall mb c w tags index cs0 vs,
  body c = Union w tags index cs0 -> is_strk (fst (params c)) = false ->
  Forall (fun x => valid_b x = true) cs0 -> su_frag cs0 = true ->
  cs0 <> [] -> (length cs0 <= 127)%nat ->
  to_list c = Ok vs ->
  exists c', simplify_union false mb c = Ok c' /\ to_list c' = Ok vs.
Proof. exact Proofs_SU4.simplify_union_false_total_pf. Qed.
Print Assumptions simplify_union_false_frag_total_partial.

(* numbers_to_type through the structural recursion of EVERY node class (n-d NumpyArray, EmptyArray,
   ListOffsetArray / ListArray / RegularArray, IndexedArray / IndexedOptionArray, ByteMasked / BitMasked (comes
   back as ByteMasked) / UnmaskedArray, RecordArray (named, tuple, zero fields), strings / bytestrings and
   parameters): whenever the model succeeds, the result has exactly the values of the specification
   [astype_spec] (element-wise cast, None / strings untouched) and the type [astype_ty].
   Fragment [astype_frag] (Proofs_Astype.v): no UnionArray (the specification [astype_v] is undefined —
   Err EValue — on union types: [astype_union_refuted]); "string"/"bytestring" only on a list node whose
   content is a NumpyArray tagged "char"/"byte"; no NumpyArray directly tagged "char"/"byte"/"string" outside a
   string.  No validity of offsets / indexes / masks / lengths is assumed. *)
Theorem astype_only_casts : forall dst c vs c',
  astype_frag c = true ->
  to_list c = Ok vs -> astype_model dst c = Ok c' ->
  exists vs', to_list c' = Ok vs' /\ astype_spec dst (type_of c) vs = Ok vs' /\ type_of c' = astype_ty dst (type_of c).
Proof. exact astype_only_casts_pf. Qed.
Print Assumptions astype_only_casts.

(* every valid layout whose type has no union is in the fragment *)
Theorem astype_frag_of_valid : forall c,
  valid_b c = true -> has_union (type_of c) = false -> astype_frag c = true.
Proof. exact (fun c => valid_nounion_afrag c None). Qed.
Print Assumptions astype_frag_of_valid.

Theorem astype_only_casts_valid : forall dst c vs c',
  valid_b c = true -> has_union (type_of c) = false ->
  to_list c = Ok vs -> astype_model dst c = Ok c' ->
  exists vs', to_list c' = Ok vs' /\ astype_spec dst (type_of c) vs = Ok vs' /\ type_of c' = astype_ty dst (type_of c).
Proof. exact astype_only_casts_valid_pf. Qed.
Print Assumptions astype_only_casts_valid.
