(** C04 — model = specification beyond two arrays, part 3: one array of the fragment [jag] and any number of Python scalars:
    the refinement theorems for [apply] and for the entry point [broadcast_and_apply] against [spec_broadcast]. *)
From AwkV Require Import LayoutInd Proofs_Lists Proofs_ToList Proofs_Typing Proofs_Carry Proofs_AtAxisOps Proofs_C05 Ops_Struct.
From AwkBroadcast Require Import Broadcast Proofs_C04 Proofs_C04_Model1 Proofs_C04_Model2 Proofs_C04_Model3 Proofs_C04_Model4
  Proofs_C04_Model5 Proofs_C04_Model6 Proofs_C04_Scal1 Proofs_C04_Scal2.
From Coq Require Import Lia ZifyBool.

(* ------------------------------------------------------------------ apply on the array (a variable-length list) and the scalars *)
Theorem scalars_refine_spec_strong_lemma op fuel pre post c vs :
  forallb sc_ok pre = true -> forallb sc_ok post = true -> jag c = true -> to_list c = Ok vs -> (csize c <= fuel)%nat ->
  agrees_c (Broadcast.apply op None fuel (ins pre c post))
           (unlist (spec_v op false (S fuel) (map ssc pre ++ arr_arg c vs :: map ssc post))).
Proof.
  intros Hpre Hpost Hj Hl Hf. unfold arr_arg. change (map ssc pre ++ _ :: map ssc post) with (row1 pre post (TList None None (type_of c)) (VList vs)).
  rewrite spec_list_row1, unlist_rmap. now apply apply_rows1.
Qed.

(* ------------------------------------------------------------------ the type-level pass on one row *)
Definition trow1 (pre post : list sc) (t : ty) : list ty := map fst (row1 pre post t VNone).
Lemma fst_row1 pre post t v : map fst (row1 pre post t v) = trow1 pre post t.
Proof. unfold trow1, row1. rewrite !map_app. reflexivity. Qed.
Lemma trow1_map (F : ty -> ty) pre post t : (forall dt, F (TNum dt) = TNum dt) -> map F (trow1 pre post t) = trow1 pre post (F t).
Proof.
  intros H. unfold trow1, row1. rewrite !map_app. cbn [map fst].
  assert (E : forall l, map F (map fst (map ssc l)) = map fst (map ssc l)).
  { induction l as [|s l IH]; [reflexivity|]. cbn [map fst ssc]. now rewrite H, IH. }
  now rewrite !E.
Qed.

Lemma spec_t_row1 op : forall f pre post t,
  jagT t = true -> (tsize t <= f)%nat -> exists rt, spec_t op false f (trow1 pre post t) = Ok rt.
Proof.
  induction f as [|f IH]; intros pre post t Hj Hf; [pose proof (tsize_pos t); lia|].
  rewrite spec_t_S. cbv zeta.
  assert (Hc : rpad_cond (trow1 pre post t) = false).
  { unfold rpad_cond, trow1. rewrite (existsb_row1_t is_listT), (forallb_row1_t pure_reg) by reflexivity.
    destruct t as [| |[z|] [b|] t0| | |]; try discriminate; reflexivity. }
  rewrite (rpad_t_nocond _ Hc). unfold trow1.
  rewrite (existsb_row1_t badT), (existsb_row1_t is_optT), (existsb_row1_t is_listT), (existsb_row1_t is_recT) by reflexivity.
  rewrite (jagT_notbad t Hj). destruct (is_optT t) eqn:Ho.
  - destruct (jagT_strip t Hj) as (J & _ & S'). specialize (S' Ho). rewrite fst_row1.
    rewrite (trow1_map strip_opt_t) by reflexivity.
    destruct (IH pre post (strip_opt_t t) J ltac:(lia)) as [rt Hrt]. rewrite Hrt. eexists; reflexivity.
  - destruct (is_listT t) eqn:Hl.
    + destruct (jagT_elem t Hj Ho) as (J & _ & S'). specialize (S' Hl).
      rewrite (lists_of_row1 pre post t VNone Hl). cbn [forallb andb].
      assert (Hr : is_regT t = false) by (destruct t as [| |[z|] [b|] t0| | |]; try discriminate; reflexivity).
      rewrite Hr. rewrite fst_row1. rewrite (trow1_map elemT) by reflexivity.
      destruct (IH pre post (elemT t) J ltac:(lia)) as [rt Hrt]. rewrite Hrt. eexists; reflexivity.
    + assert (Hr : is_recT t = false) by (destruct t as [| |[z|] [b|] t0| | |]; try discriminate; reflexivity).
      rewrite Hr. eexists; reflexivity.
Qed.

(* ------------------------------------------------------------------ the packed array: a regular dimension next to scalars *)
Lemma maxdepth_trow1 pre post t : maxdepth (trow1 pre post t) = Z.max (rdepth t) 0.
Proof.
  unfold trow1, row1, maxdepth. rewrite !map_app, fold_right_app. cbn [map fold_right fst].
  assert (E : forall l acc, 0 <= acc -> fold_right Z.max acc (map rdepth (@map sarg ty fst (map ssc l))) = acc).
  { induction l as [|s l IH]; intros acc Ha; [reflexivity|]. cbn [map fold_right fst ssc rdepth]. rewrite IH by exact Ha. lia. }
  rewrite (E post 0) by lia. rewrite E by lia. reflexivity.
Qed.

(* the row after rule R: the scalars under [k] size-1 dimensions *)
Definition prow (k : nat) (pre post : list sc) (a : sarg) : list sarg :=
  map (fun s => padn k (ssc s)) pre ++ a :: map (fun s => padn k (ssc s)) post.

Lemma rpad_packed1 pre post n t v :
  jagT t = true ->
  rpad (row1 pre post (packT n t) v) = prow (if pure_reg t then 1 else 0) pre post (packT n t, v).
Proof.
  intros Hj. unfold rpad. rewrite fst_row1. unfold rpad_cond, trow1 at 1 2.
  rewrite (existsb_row1_t is_listT), (forallb_row1_t pure_reg) by reflexivity. cbn [packT is_listT pure_reg andb].
  destruct (pure_reg t) eqn:Hp.
  - rewrite maxdepth_trow1. unfold packT at 1. cbn [rdepth]. rewrite (jagT_pure_depth t Hj Hp).
    unfold row1, prow. rewrite map_app. cbn [map fst]. unfold packT at 1. cbn [rdepth]. rewrite (jagT_pure_depth t Hj Hp). rewrite !map_map.
    reflexivity.
  - unfold row1, prow. cbn [padn]. reflexivity.
Qed.

Lemma prow_existsb (P : sarg -> bool) k pre post a :
  (forall s, P (padn k (ssc s)) = false) -> existsb P (prow k pre post a) = P a.
Proof.
  intros H. unfold prow. rewrite existsb_app. cbn [existsb].
  assert (E : forall l, existsb P (map (fun s => padn k (ssc s)) l) = false).
  { induction l as [|s l IH]; [reflexivity|]. cbn [map existsb]. now rewrite H, IH. }
  rewrite !E. cbn [orb]. apply orb_false_r.
Qed.
Lemma prow_existsb_t (P : ty -> bool) k pre post a :
  (forall s, P (fst (padn k (ssc s))) = false) -> existsb P (map fst (prow k pre post a)) = P (fst a).
Proof.
  intros H. transitivity (existsb (fun a : sarg => P (fst a)) (prow k pre post a)).
  - induction (prow k pre post a) as [|x l IH]; [reflexivity|]. cbn [map existsb]. now rewrite IH.
  - now apply (prow_existsb (fun a : sarg => P (fst a))).
Qed.

Lemma prow_columns N k pre post a t' l' :
  (k <= 1)%nat -> column N a = Ok (map (fun x => (t', x)) l') ->
  mapM (column N) (prow k pre post a) = Ok (cols1 pre post t' l' (Z.to_nat N)).
Proof.
  intros Hk Ha. unfold prow, cols1.
  assert (E : forall l, mapM (column N) (map (fun s => padn k (ssc s)) l) = Ok (map (fun s => repeat (ssc s) (Z.to_nat N)) l)).
  { induction l as [|s l IH]; [reflexivity|]. cbn [map]. rewrite mapM_cons, IH.
    destruct k as [|[|k]]; [reflexivity| |lia]. cbn [padn]. reflexivity. }
  rewrite mapM_app, E. cbn [bind]. rewrite mapM_cons, Ha. cbn [bind]. rewrite E. reflexivity.
Qed.

Lemma prow_list_target k pre post n t v :
  (k <= 1)%nat -> (k = 0%nat -> pure_reg t = false) ->
  list_target (prow k pre post (packT n t, v)) = Ok n.
Proof.
  intros Hk Hp. unfold list_target.
  destruct k as [|[|k]]; [| |lia].
  - (* no padding: the array is the only list *)
    change (prow 0 pre post (packT n t, v)) with (row1 pre post (packT n t) v).
    rewrite lists_of_row1 by reflexivity. cbn [forallb is_regT packT andb map sizeT somes].
    exact (dim_target_dims1 [] [] n).
  - (* every scalar is a size-1 list *)
    assert (E : forall l, filter is_listT (@map sarg ty fst (map (fun s => padn 1 (ssc s)) l)) = map (fun s => pad1_t (fst (ssc s))) l).
    { induction l as [|s l IH]; [reflexivity|]. cbn [map]. rewrite <- IH. reflexivity. }
    unfold prow. rewrite map_app, filter_app, E. cbn [map filter fst packT is_listT]. rewrite E.
    assert (R : forall l, forallb is_regT (map (fun s => pad1_t (fst (ssc s))) l) = true) by (induction l as [|s l IH]; [reflexivity|exact IH]).
    rewrite forallb_app. cbn [forallb is_regT]. rewrite !R. cbn [andb].
    assert (Sz : forall l, somes (map sizeT (map (fun s => pad1_t (fst (ssc s))) l)) = map (fun _ => 1) l).
    { induction l as [|s l IH]; [reflexivity|]. cbn [map sizeT pad1_t somes]. now rewrite IH. }
    rewrite map_app. cbn [map sizeT].
    assert (Sa : forall (a b : list (option Z)), somes (a ++ b) = somes a ++ somes b).
    { induction a as [|[x|] a IH]; intros b; cbn [app somes]; [reflexivity| |]; now rewrite IH. }
    rewrite Sa. cbn [somes]. rewrite !Sz. exact (dim_target_dims1 pre post n).
Qed.

(* the element-level pass on the packed array and the scalars: row by row *)
Lemma spec_v_packed1 op f pre post t vs :
  jagT t = true ->
  spec_v op false (S f) (row1 pre post (packT (zlen vs) t) (VList vs)) =
  rmap VList (mapM (spec_v op false f) (rows1 pre post t vs)).
Proof.
  intros Hj. rewrite spec_v_S. cbv zeta. rewrite (rpad_packed1 pre post (zlen vs) t (VList vs) Hj).
  set (k := if pure_reg t then 1%nat else 0%nat).
  assert (Hk : (k <= 1)%nat) by (unfold k; destruct (pure_reg t); lia).
  assert (Hp : k = 0%nat -> pure_reg t = false) by (unfold k; destruct (pure_reg t); [discriminate|reflexivity]).
  assert (Hs : forall (P : ty -> bool), P (TList (Some 1) None (TNum DBool)) = false -> P (TList (Some 1) None (TNum DInt64)) = false ->
                 (forall dt, P (TNum dt) = false) -> forall s, P (fst (padn k (ssc s))) = false).
  { intros P H1 H2 H3 [[|] z]; destruct k as [|[|k]]; try lia; cbn [padn pad1 fst ssc]; auto. }
  rewrite (prow_existsb_t badT), (prow_existsb_t is_optT) by (apply Hs; reflexivity). cbn [fst packT badT is_optT].
  assert (Hl : forall a, is_listT (fst a) = true -> existsb is_listT (map fst (prow k pre post a)) = true).
  { intros a Ha. unfold prow. rewrite map_app, existsb_app. cbn [map existsb]. rewrite Ha. now rewrite orb_true_r. }
  rewrite Hl by reflexivity. fold (packT (zlen vs) t). rewrite (prow_list_target k pre post (zlen vs) t (VList vs) Hk Hp). cbn [bind].
  rewrite (prow_columns (zlen vs) k pre post _ t vs Hk).
  2:{ rewrite (column_packed (zlen vs) t vs (zlen vs) eq_refl (or_introl eq_refl)). now rewrite bcol_same. }
  cbn [bind]. replace (Z.to_nat (zlen vs)) with (length vs) by (unfold zlen; lia). now rewrite transpose_cols1.
Qed.

Lemma rpad_t_packed1 pre post n t :
  jagT t = true ->
  rpad_t (trow1 pre post (packT n t)) = map fst (prow (if pure_reg t then 1 else 0) pre post (packT n t, VNone)).
Proof. intros Hj. rewrite <- (rpad_packed1 pre post n t VNone Hj), rpad_fst, fst_row1. reflexivity. Qed.

Lemma spec_t_packed1 op f pre post n t :
  jagT t = true -> (tsize t <= f)%nat ->
  exists rt, spec_t op false (S f) (trow1 pre post (packT n t)) = Ok (TList (Some n) None rt).
Proof.
  intros Hj Hf. destruct (spec_t_row1 op f pre post t Hj Hf) as [rt Hrt]. exists rt.
  rewrite spec_t_S. cbv zeta. rewrite (rpad_t_packed1 pre post n t Hj).
  set (k := if pure_reg t then 1%nat else 0%nat).
  assert (Hk : (k <= 1)%nat) by (unfold k; destruct (pure_reg t); lia).
  assert (Hp : k = 0%nat -> pure_reg t = false) by (unfold k; destruct (pure_reg t); [discriminate|reflexivity]).
  assert (Hs : forall (P : ty -> bool), P (TList (Some 1) None (TNum DBool)) = false -> P (TList (Some 1) None (TNum DInt64)) = false ->
                 (forall dt, P (TNum dt) = false) -> forall s, P (fst (padn k (ssc s))) = false).
  { intros P H1 H2 H3 [[|] z]; destruct k as [|[|k]]; try lia; cbn [padn pad1 fst ssc]; auto. }
  rewrite (prow_existsb_t badT), (prow_existsb_t is_optT) by (apply Hs; reflexivity). cbn [fst packT badT is_optT].
  assert (Hl : forall a, is_listT (fst a) = true -> existsb is_listT (map fst (prow k pre post a)) = true).
  { intros a Ha. unfold prow. rewrite map_app, existsb_app. cbn [map existsb]. rewrite Ha. now rewrite orb_true_r. }
  rewrite Hl by reflexivity. fold (packT n t).
  pose proof (prow_list_target k pre post n t VNone Hk Hp) as Ht. unfold list_target in Ht.
  destruct (forallb is_regT (filter is_listT (map fst (prow k pre post (packT n t, VNone))))) eqn:Er.
  - rewrite Ht. cbn [bind].
    assert (He : map elemT (map fst (prow k pre post (packT n t, VNone))) = trow1 pre post t).
    { unfold prow, trow1, row1. rewrite !map_app. cbn [map fst packT elemT]. rewrite !map_map.
      f_equal; [|f_equal]; apply map_ext; intros [[|] z]; destruct k as [|[|k]]; try lia; reflexivity. }
    rewrite He, Hrt. reflexivity.
  - (* first_var_len of a row without variable-length lists is an error *)
    exfalso. clear -Ht Hk. unfold prow in Ht.
    assert (E : forall l rest, first_var_len (map (fun s => padn k (ssc s)) l ++ rest) = first_var_len rest).
    { induction l as [|[[|] z] l IH]; intros rest; [reflexivity| |]; destruct k as [|[|k]]; try lia; cbn [map app padn pad1 ssc fst snd first_var_len]; apply IH. }
    rewrite E in Ht. cbn [first_var_len packT] in Ht. rewrite <- (app_nil_r (map _ post)) in Ht. rewrite E in Ht. discriminate.
Qed.

Lemma dim_pack_s pre post t vs :
  map pack_s (map sinp pre ++ SArr t vs :: map sinp post) = row1 pre post (packT (zlen vs) t) (VList vs).
Proof. unfold row1. rewrite map_app. cbn [map pack_s]. now rewrite !map_map. Qed.

(* spec_broadcast on one array of the fragment and scalars *)
Lemma spec_broadcast_packed1 op f pre post t vs :
  jagT t = true -> (tsize t <= f)%nat ->
  spec_broadcast op false (S f) (map sinp pre ++ SArr t vs :: map sinp post) =
  mapM (spec_v op false f) (rows1 pre post t vs).
Proof.
  intros Hj Hf. unfold spec_broadcast.
  assert (Ha : existsb is_sarr (map sinp pre ++ SArr t vs :: map sinp post) = true).
  { rewrite existsb_app. cbn [existsb is_sarr]. apply orb_true_r. }
  rewrite Ha. cbn [negb]. rewrite dim_pack_s, fst_row1.
  destruct (spec_t_packed1 op f pre post (zlen vs) t Hj Hf) as [rt Hrt]. rewrite Hrt. cbn [bind].
  rewrite spec_v_packed1 by exact Hj. destruct (mapM (spec_v op false f) (rows1 pre post t vs)); reflexivity.
Qed.

(* ------------------------------------------------------------------ the model on the packed array and the scalars *)
Lemma reg_branch_packed1 rec pre post c n z :
  clen (Regular c n z) = 1 ->
  reg_branch rec (ins pre (Regular c n z) post) =
  (let M := Z.max n 0 in
   do m <- reg_next M c n; do out <- rec (ins pre m post); Ok (Regular out M (Z.max (clen m) 0))).
Proof.
  intros G. unfold reg_branch. rewrite contents_of_ins. cbn [filter is_list_node flat_map app fold_right]. rewrite map_c_ins.
  cbv beta iota zeta. rewrite G. unfold reg_next.
  destruct (if (1 <? Z.max n 0) && (n =? 1) then _ else _) as [m|]; [|reflexivity]. cbn [bind]. rewrite contents_of_ins. reflexivity.
Qed.

(* PARTIAL (what remains excluded): exactly one input is an array and it belongs to the fragment [jag] (1-d integer/boolean
   NumpyArray leaves under ListOffsetArray / ListArray of any width, origin, gaps, and IndexedOptionArray not directly inside
   another one); all other inputs are Python scalars, in any number and at any positions, boolean scalars being 0 or 1
   ([sc_ok]: the pair (true, z) stands for Python's True/False only when z is 1/0 — with another z the model adds z itself
   where the specification adds 1, see [scalar_bool_encoding_refuted]).  Not covered here: two or more arrays together with
   scalars, RegularArray / other option encodings / records.  Fuel: one call for the packed level + one per node. *)
Theorem broadcast_scalars_refines_spec_partial_lemma op fuel pre post c vs :
  forallb sc_ok pre = true -> forallb sc_ok post = true -> jag c = true -> to_list c = Ok vs -> (S (csize c) <= fuel)%nat ->
  agrees (obs (broadcast_and_apply op None fuel (ins pre c post)))
         (spec_broadcast op false fuel (map sinp pre ++ SArr (type_of c) vs :: map sinp post)).
Proof.
  intros Hpre Hpost Hj Hl Hf. destruct fuel as [|f]; [lia|]. assert (Hf' : (csize c <= f)%nat) by lia. clear Hf.
  destruct (type_of_jag c Hj) as (JT & _). pose proof (to_list_len _ _ Hl) as Hn. pose proof (zlen_nonneg vs) as Hp.
  rewrite spec_broadcast_packed1 by (try assumption; now rewrite (tsize_jag c Hj)).
  unfold broadcast_and_apply. rewrite ins_has_array. cbn [negb]. rewrite map_pack_ins, apply_S, dispatch1_pre, getfunction_ins.
  destruct (is_numpy_node c) eqn:Hnp.
  - (* a 1-d NumpyArray: NumPy on shape (1, n) and 0-d scalars *)
    destruct c as [dt sh d| | | | | | | | | | | |]; try discriminate. destruct sh as [|n [|x sh]]; try discriminate.
    cbn [jag] in Hj. cbn [clen] in Hn. destruct (to_list_numpy1 _ _ _ _ Hl) as (_ & Hd & E).
    rewrite (to_nparr_pack_numpy dt n d Hj ltac:(lia) Hd). cbn [bind].
    set (t := take n d) in *. assert (Ht : zlen t = n) by (unfold t; apply zlen_take; lia).
    rewrite nd_apply_s2 by (now rewrite zlen_map). cbn [rmap bind].
    set (ks := kinds1 pre post (dt_isbool dt)). set (rdt := if lk op ks then DBool else DInt64).
    set (outd := map (fun x => DZ (lf op ks (vals1 pre post x))) (map (leaf_z dt) t)).
    assert (Hzo : zlen outd = n) by (unfold outd; now rewrite !zlen_map).
    cbn [unpack]. change (1 =? 0) with false. cbv iota. unfold obs. cbn [bind]. unfold prodZ. cbn [fold_right].
    assert (Htk : take (n * 1) outd = outd) by (apply take_all; lia). rewrite Htk.
    rewrite to_list_numpy1_ok by lia. rewrite take_all by lia.
    destruct f as [|f']; [cbn [csize] in Hf'; lia|].
    subst vs. cbn [type_of type_of_p tl numpy_ty]. unfold rows1. rewrite map_map, mapM_map.
    rewrite (mapM_ext_in _ (fun x : datum => Ok (mk_leaf (lk op ks) (lf op ks (vals1 pre post (leaf_z dt x)))))).
    + rewrite mapM_pure. cbn [agrees]. f_equal. unfold outd. rewrite !map_map. apply map_ext. intros x.
      unfold mk_leaf, leaf, rdt. destruct (lk op ks); reflexivity.
    + intros x Hx. apply spec_leaf_row1; try assumption.
      rewrite forallb_forall in Hj. apply Hj. unfold t, take in Hx. eapply firstn_In'; eassumption.
  - (* a deeper array: the regular branch on the array dimension, then apply on the content *)
    rewrite (to_nparr_pack_other c Hj Hnp). cbn [bind]. unfold packC. cbn [is_empty_node is_numpy_nd is_indexed_node is_union_node is_option_node is_list_node].
    unfold list_branch. rewrite contents_of_ins. cbn [filter is_list_node forallb is_regular_node andb].
    rewrite reg_branch_packed1 by (apply (clen_packC c); lia). cbv zeta.
    rewrite <- Hn. replace (Z.max (zlen vs) 0) with (zlen vs) by lia.
    destruct (reg_next_ok (zlen vs) c vs Hj Hl (or_introl eq_refl)) as (m & Rm & Jm & Lm & Tm & Sm). rewrite Rm. cbn [bind].
    rewrite bcol_same in Lm by reflexivity.
    assert (Cm : clen m = zlen vs) by (rewrite <- (to_list_len _ _ Lm); reflexivity).
    rewrite Cm. replace (Z.max (zlen vs) 0) with (zlen vs) by lia.
    destruct (apply_rows1 op pre post Hpre Hpost f m vs Jm Lm ltac:(rewrite Sm; exact Hf')) as [Ha Hjo]. rewrite Tm in Ha.
    destruct (mapM (spec_v op false f) (rows1 pre post (type_of c) vs)) as [ys|e] eqn:Em; cbn [agrees_c agrees] in *.
    + destruct Ha as (out & Hrec & Hout). rewrite Hrec. cbn [bind]. destruct (Hjo out Hrec) as [Jo _].
      assert (Hzy : zlen ys = zlen vs) by (rewrite (mapM_zlen _ _ _ Em); unfold rows1; now rewrite zlen_map).
      destruct (unpack_regular out (zlen vs) ys Jo Hout Hzy) as (r & Hu & Hr). rewrite Hu. unfold obs. cbn [bind]. exact Hr.
    + destruct Ha as [-> Hrec]. rewrite Hrec. cbn [bind obs]. split; reflexivity.
Qed.

(* observable form of the apply-level theorem, and the fuel corollaries *)
Theorem scalars_refine_spec_lemma op fuel pre post c vs :
  forallb sc_ok pre = true -> forallb sc_ok post = true -> jag c = true -> to_list c = Ok vs -> (csize c <= fuel)%nat ->
  agrees (obs (Broadcast.apply op None fuel (ins pre c post)))
         (unlist (spec_v op false (S fuel) (map ssc pre ++ arr_arg c vs :: map ssc post))).
Proof. intros. apply agrees_c_obs. now apply scalars_refine_spec_strong_lemma. Qed.

Corollary broadcast_scalars_never_out_of_fuel_lemma op fuel pre post c vs :
  forallb sc_ok pre = true -> forallb sc_ok post = true -> jag c = true -> to_list c = Ok vs -> (S (csize c) <= fuel)%nat ->
  obs (broadcast_and_apply op None fuel (ins pre c post)) <> Err EFuel /\
  spec_broadcast op false fuel (map sinp pre ++ SArr (type_of c) vs :: map sinp post) <> Err EFuel.
Proof.
  intros Hpre Hpost Hj Hl Hf.
  pose proof (broadcast_scalars_refines_spec_partial_lemma op fuel pre post c vs Hpre Hpost Hj Hl Hf) as Ha.
  destruct (spec_broadcast _ _ _ _) as [out|e]; cbn [agrees] in Ha.
  - rewrite Ha. split; discriminate.
  - destruct Ha as [-> ->]. split; discriminate.
Qed.

(* ------------------------------------------------------------------ examples *)
(* np.clip([[[3,4],[5]], [[6,7,8]]], 4, 6): three inputs, the array first *)
Example broadcast_scalars_nonvacuous_clip :
  forallb sc_ok [] = true /\ forallb sc_ok [(false, 4); (false, 6)] = true /\ jag ex_c1 = true /\ to_list ex_c1 = Ok ex_v1 /\
  (S (csize ex_c1) <= 5)%nat /\
  obs (broadcast_and_apply (ufn_op UClip) None 5 (ins [] ex_c1 [(false, 4); (false, 6)])) =
    Ok [VList [VList [VNum (DZ 4); VNum (DZ 4)]; VList [VNum (DZ 5)]]; VList [VList [VNum (DZ 6); VNum (DZ 6); VNum (DZ 6)]]] /\
  spec_broadcast (ufn_op UClip) false 5 (map sinp [] ++ SArr (type_of ex_c1) ex_v1 :: map sinp [(false, 4); (false, 6)]) =
    Ok [VList [VList [VNum (DZ 4); VNum (DZ 4)]; VList [VNum (DZ 5)]]; VList [VList [VNum (DZ 6); VNum (DZ 6); VNum (DZ 6)]]].
Proof. repeat split; vm_compute; try reflexivity; lia. Qed.

(* 100 - [[10, None], [30]] (the scalar first, a missing value) and [[10, None], [30]] == True-as-1 is not needed: x * True *)
Example broadcast_scalars_nonvacuous_sub :
  forallb sc_ok [(false, 100)] = true /\ forallb sc_ok [] = true /\ jag ex_c2 = true /\ to_list ex_c2 = Ok ex_v2 /\
  (S (csize ex_c2) <= 4)%nat /\
  obs (broadcast_and_apply (ufn_op USub) None 4 (ins [(false, 100)] ex_c2 [])) =
    Ok [VList [VNum (DZ 90); VNone]; VList [VNum (DZ 70)]] /\
  spec_broadcast (ufn_op USub) false 4 (map sinp [(false, 100)] ++ SArr (type_of ex_c2) ex_v2 :: map sinp []) =
    Ok [VList [VNum (DZ 90); VNone]; VList [VNum (DZ 70)]] /\
  obs (broadcast_and_apply (ufn_op UMul) None 4 (ins [] ex_c2 [(true, 1)])) =
    Ok [VList [VNum (DZ 10); VNone]; VList [VNum (DZ 30)]].
Proof. repeat split; vm_compute; try reflexivity; lia. Qed.

(* the fuel bound is needed *)
Example broadcast_scalars_fuel_is_needed :
  (S (csize ex_c1) = 4)%nat /\ obs (broadcast_and_apply (ufn_op UClip) None 3 (ins [] ex_c1 [(false, 4); (false, 6)])) = Err EFuel.
Proof. split; vm_compute; reflexivity. Qed.

(* why [sc_ok]: the pair (true, 2) is not a Python bool; the model hands the raw 2 to NumPy, the specification reads "True" *)
Example scalar_bool_encoding_refuted :
  sc_ok (true, 2) = false /\ jag ex_c2 = true /\ to_list ex_c2 = Ok ex_v2 /\
  obs (broadcast_and_apply (ufn_op UAdd) None 4 (ins [] ex_c2 [(true, 2)])) = Ok [VList [VNum (DZ 12); VNone]; VList [VNum (DZ 32)]] /\
  spec_broadcast (ufn_op UAdd) false 4 (map sinp [] ++ SArr (type_of ex_c2) ex_v2 :: map sinp [(true, 2)]) =
    Ok [VList [VNum (DZ 11); VNone]; VList [VNum (DZ 31)]].
Proof. repeat split; vm_compute; reflexivity. Qed.
