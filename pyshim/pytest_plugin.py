# pytest plugin: `-p pyshim.pytest_plugin` (with /verif on PYTHONPATH) installs the shim before collection.
import sys

sys.dont_write_bytecode = True
if "/verif" not in sys.path:
    sys.path.insert(0, "/verif")
from pyshim.install import install

install()
import awkward as _ak

assert _ak.__file__.startswith("/repo/src/") and getattr(_ak._ext, "__pyshim__", False), _ak.__file__


def pytest_report_header(config):
    import awkward

    return "pyshim: awkward %s from %s" % (awkward.__version__, awkward.__file__)


def pytest_sessionfinish(session, exitstatus):
    from pyshim import core

    core.shutdown()
