"""C03: reducers combine exactly the elements that differ only along the reduced axis."""
import common as C
import gen as G

THEOREMS = ['empty_group_yields_identity', 'empty_group_is_none_under_mask', 'count_is_group_size',
            'sum_is_wrapped_sum', 'accumulator_does_not_wrap_small_values', 'argmin_first_extremum',
            'nonlocal_result_length', 'group_is_column', 'reduce_refines_spec_partial',
            'reduce_refines_cases_partial', 'reduce_local_refines_spec_partial', 'zl_computes_zipred_partial',
            'nonlocal_positions_are_columns', 'local_reduction_of_a_list_node_partial', 'missing_values_are_skipped',
            'missing_pairs_are_dropped', 'argminmax_positions_count_missing', 'keepdims_wraps_in_length_one',
            'min_max_of_nonempty_is_member_and_bound', 'any_all_are_exists_forall', 'prod_is_wrapped_product',
            'count_nonzero_counts', 'positions_matter_to_arg_reducers_only']
PY_HALF = True     # harness/pyhalves.py: the Python-layer functions of this property under pyshim
RULE = ('value-first random layouts (numeric/bool leaves, no NaN/inf) x 10 reducers x axis (0..depth-1, negative, some out of '
        'range) x mask_identity x keepdims; non-trivial = input has >= 2 leaves and the operation succeeded; distinct by case text')
ASSUMPTIONS = ['float leaves are integer-valued (no rounding is modelled); NaN/inf excluded; complex/datetime leaves not generated',
               'axis=None (completely_flatten) is Python-layer and not executable here',
               'types containing unions or strings are skipped']
REDUCERS = ['count', 'count_nonzero', 'sum', 'prod', 'any', 'all', 'min', 'max', 'argmin', 'argmax']
LEAVES = ['int64'] * 4 + ['float64'] * 2 + ['bool', 'int8', 'uint8', 'int32', 'uint32', 'int16', 'uint16', 'float32', 'uint64']


def nleaves(v):
    if isinstance(v, list):
        return sum(nleaves(x) for x in v)
    if isinstance(v, tuple) and v and v[0] == '$rec':
        return sum(nleaves(x) for x in v[1])
    return 0 if v is None else 1


def cases(rng, tier):
    n = 15000 if tier == 'quick' else 400000
    out = []
    for i in range(n):
        a = G.gen_array(rng, depth=rng.choice([1, 2, 3, 3, 4]), canonical_too=False, special=False,
                        type_kw=dict(allow_union=False, allow_str=False, leaf_dtypes=LEAVES,
                                     allow_rec=False),
                        enc_kw=dict(strided=0.12, weird_empty=0.05))
        t = a['type']
        red = rng.choice(REDUCERS)
        axis = G.pick_axis(rng, t, allow_zero=True)
        mask = rng.choice([0, 0, 1])
        keep = rng.choice([0, 0, 0, 1])
        tags = dict(reducer=red, axis=axis, mask=mask, keepdims=keep,
                    rec_under_list=bool(G.has_rec_under_list(t)))
        out.append(C.Case('c%d' % i, 'reduce', [red, str(axis), str(mask), str(keep)], [G.sx(a['layout'])],
                          dict(nontrivial=sum(nleaves(v) for v in a['vals']) >= 2, tags=tags, type=t)))
    return out


def signature(c, impl, v):
    return None


def _negaxis(t, axis):
    mn, mx = G.list_depth(t)
    return -axis if axis < 0 else mx - axis


def _opt_list_below(t, level, axis_level):
    """is there an option-type *list* at or below the reduced level?"""
    k = t[0]
    if k == 'opt':
        inner = t[1]
        if inner[0] == 'list' and level >= axis_level:
            return True
        return _opt_list_below(inner, level, axis_level)
    if k == 'list':
        return _opt_list_below(t[1], level + 1, axis_level)
    return False


def signature(c, impl, v):  # noqa: F811
    tg = c.meta.get('tags', {})
    if tg.get('reducer') in ('argmin', 'argmax'):
        t = c.meta.get('type')
        axis = tg.get('axis')
        if t is not None:
            na = _negaxis(t, axis)
            mn, mx = G.list_depth(t)
            axis_level = mx - na
            if na >= 3 or (na >= 2 and _opt_list_below(t, 0, axis_level)):
                return 'argminmax-nonlocal-positions'
    return None
