(** C14 — records and tuples: how [rep] moves when a node is wrapped into / updated inside an OptionBuilder or a
    UnionBuilder (the ghost-history counterparts of AtomStep.union_update / union_push, StepLemmas.option_null_ok). *)
From Coq Require Import ZArith List Bool Lia.
From AwkV Require Import Base Layout.
From AwkBuilder Require Import Builder Spec GbLemmas Invariant StepLemmas AtomStep RecInv.
Import ListNotations.
Open Scope Z_scope.

(* ------------------------------------------------------------------ small list facts *)
Lemma iota_nat_snoc n : forall s, iota_nat s (S n) = iota_nat s n ++ [s + Z.of_nat n].
Proof.
  induction n as [|n IH]; intro s.
  - cbn. now rewrite Z.add_0_r.
  - change (iota_nat s (S (S n))) with (s :: iota_nat (s + 1) (S n)). rewrite IH. cbn [iota_nat app].
    do 2 f_equal. f_equal. lia.
Qed.
Lemma iota_snoc n : 0 <= n -> iota (n + 1) = iota n ++ [n].
Proof.
  intro H. unfold iota. replace (Z.to_nat (n + 1)) with (S (Z.to_nat n)) by lia. rewrite iota_nat_snoc.
  do 2 f_equal. lia.
Qed.
Lemma fill_snoc v n : 0 <= n -> fill v (n + 1) = fill v n ++ [v].
Proof. intro H. unfold fill. now apply repeat_snoc. Qed.

Lemma forallb_snoc {A} (p : A -> bool) l x : forallb p (l ++ [x]) = forallb p l && p x.
Proof. rewrite forallb_app. cbn. now rewrite andb_true_r. Qed.

(* ------------------------------------------------------------------ alternatives *)
Lemma ualts_len cs : forall vss, ualts cs vss -> length cs = length vss.
Proof. induction cs as [|c t IH]; intros [|h ht] H; cbn [ualts] in H; try contradiction; cbn; auto. destruct H. f_equal. auto. Qed.

Lemma ualts_app_inv pre x post : forall vss,
  ualts (pre ++ x :: post) vss ->
  exists hpre ws hpost, vss = hpre ++ ws :: hpost /\ length hpre = length pre /\
                        ualts pre hpre /\ rep x ws /\ ualts post hpost.
Proof.
  induction pre as [|p t IH]; intros [|h ht] H; cbn [app ualts] in H; try contradiction.
  - destruct H as [H1 H2]. exists [], h, ht. cbn. auto.
  - destruct H as [H1 H2]. destruct (IH ht H2) as (hpre & ws & hpost & -> & L & A & B & C).
    exists (h :: hpre), ws, hpost. cbn [app length ualts]. auto.
Qed.

Lemma ualts_app pre post : forall hpre hpost,
  ualts pre hpre -> ualts post hpost -> ualts (pre ++ post) (hpre ++ hpost).
Proof.
  induction pre as [|p t IH]; intros [|h ht] hpost H1 H2; cbn [ualts] in H1; try contradiction; cbn [app]; auto.
  destruct H1. cbn [ualts]. auto.
Qed.

Lemma skinds_app l m : skinds (l ++ m) = skinds l ++ skinds m.
Proof. unfold skinds. apply flat_map_app. Qed.

Lemma skinds_same pre x x' post : bkind x' = bkind x -> skinds (pre ++ x' :: post) = skinds (pre ++ x :: post).
Proof. intro E. rewrite !skinds_app. f_equal. unfold skinds. cbn [flat_map]. now rewrite E. Qed.

Lemma alts_ok_same pre x x' post :
  alts_ok (pre ++ x :: post) -> bkind x' = bkind x -> altok x' = true -> alts_ok (pre ++ x' :: post).
Proof.
  intros [A N] E T. split.
  - rewrite forallb_app in *. cbn [forallb] in *. apply andb_true_iff in A. destruct A as [A1 A2].
    apply andb_true_iff in A2. destruct A2 as [_ A2]. rewrite A1, T, A2. reflexivity.
  - now rewrite (skinds_same pre x x' post E).
Qed.

Lemma NoDup_snoc {A} (l : list A) x : NoDup l -> ~ In x l -> NoDup (l ++ [x]).
Proof.
  intros N H. induction l as [|a t IH]; cbn; [constructor; [intros []|constructor]|].
  inversion N; subst. constructor.
  - rewrite in_app_iff. cbn. intros [?|[?|[]]]; [contradiction|subst; apply H; now left].
  - apply IH; auto. intro; apply H; now right.
Qed.

Lemma alts_ok_snoc cs nb :
  alts_ok cs -> altok nb = true -> (forall k, bkind nb = Some k -> ~ In k (skinds cs)) -> alts_ok (cs ++ [nb]).
Proof.
  intros [A N] T F. split.
  - rewrite forallb_snoc, A, T. reflexivity.
  - rewrite skinds_app. unfold skinds at 2. cbn [flat_map]. rewrite app_nil_r.
    destruct (bkind nb) as [k|]; [|now rewrite app_nil_r]. apply NoDup_snoc; auto.
Qed.

(* ------------------------------------------------------------------ union: update an alternative, add one *)
Lemma rep_union_update tags idx pre x post vs x' v tags' idx' :
  rep (BUnion tags idx (pre ++ x :: post) (-1)) vs ->
  (forall ws, rep x ws -> rep x' (ws ++ [v])) -> bkind x' = bkind x -> altok x' = true ->
  gbwf tags' -> gbwf idx' ->
  gb_list tags' = gb_list tags ++ [zlen pre] -> gb_list idx' = gb_list idx ++ [blen x] ->
  rep (BUnion tags' idx' (pre ++ x' :: post) (-1)) (vs ++ [v]).
Proof.
  intros R Hx Ek Ta Wt Wi Lt Li. apply rep_union in R. destruct R as (_ & _ & _ & AO & vss & U & AL).
  destruct (ualts_app_inv pre x post vss AL) as (hpre & ws & hpost & -> & L & A1 & Rx & A2).
  apply rep_union. refine (conj eq_refl (conj Wt (conj Wi (conj (alts_ok_same _ _ _ _ AO Ek Ta) _)))).
  exists (hpre ++ (ws ++ [v]) :: hpost). split.
  - rewrite Lt, Li, (rep_len x ws Rx). replace (zlen pre) with (zlen hpre) by (unfold zlen; now rewrite L).
    now apply UniH_snoc.
  - apply ualts_app; [exact A1|]. cbn [ualts]. split; [now apply Hx|exact A2].
Qed.

Lemma rep_union_push tags idx cs vs nb v tags' idx' :
  rep (BUnion tags idx cs (-1)) vs ->
  rep nb [v] -> altok nb = true -> (forall k, bkind nb = Some k -> ~ In k (skinds cs)) ->
  gbwf tags' -> gbwf idx' ->
  gb_list tags' = gb_list tags ++ [zlen cs] -> gb_list idx' = gb_list idx ++ [0] ->
  rep (BUnion tags' idx' (cs ++ [nb]) (-1)) (vs ++ [v]).
Proof.
  intros R Rn Ta Fk Wt Wi Lt Li. apply rep_union in R. destruct R as (_ & _ & _ & AO & vss & U & AL).
  apply rep_union. refine (conj eq_refl (conj Wt (conj Wi (conj (alts_ok_snoc _ _ AO Ta Fk) _)))).
  exists (vss ++ [[v]]). split.
  - rewrite Lt, Li. replace (zlen cs) with (zlen vss) by (unfold zlen; now rewrite (ualts_len cs vss AL)).
    apply (UniH_snoc _ _ vss [] [] vs v). now apply UniH_alt.
  - apply ualts_app; [exact AL|]. cbn [ualts]. auto.
Qed.

(* the union an alternative-free node is wrapped into: UnionBuilder::fromsingle *)
Lemma UniH_single vs : UniH (fill 0 (zlen vs)) (iota (zlen vs)) [vs] vs.
Proof.
  induction vs as [|v t IH] using rev_ind.
  - cbn. apply (UniH_alt [] [] [] []). constructor.
  - rewrite zlen_snoc. pose proof (zlen_nonneg t). rewrite fill_snoc, iota_snoc by lia.
    apply (UniH_snoc _ _ [] t [] t v). exact IH.
Qed.

Lemma rep_union_single tags idx b vs :
  rep b vs -> altok b = true -> gbwf tags -> gbwf idx ->
  gb_list tags = fill 0 (zlen vs) -> gb_list idx = iota (zlen vs) ->
  rep (BUnion tags idx [b] (-1)) vs.
Proof.
  intros R Ta Wt Wi Lt Li. apply rep_union. refine (conj eq_refl (conj Wt (conj Wi (conj _ _)))).
  - split; [cbn; now rewrite Ta|]. unfold skinds. cbn [flat_map]. rewrite app_nil_r.
    destruct (bkind b); repeat constructor. intros [].
  - exists [vs]. rewrite Lt, Li. split; [apply UniH_single|cbn [ualts]; auto].
Qed.

(* ------------------------------------------------------------------ option *)
Lemma OptH_valids vs : forallb nonnone vs = true -> OptH (iota (zlen vs)) vs vs.
Proof.
  induction vs as [|v t IH] using rev_ind; intro H.
  - constructor.
  - rewrite forallb_snoc in H. apply andb_true_iff in H. destruct H as [H1 H2].
    rewrite zlen_snoc. pose proof (zlen_nonneg t). rewrite iota_snoc by lia. constructor; auto.
Qed.

Lemma OptH_nulls n : 0 <= n -> OptH (fill (-1) n) [] (repeat PNone (Z.to_nat n)).
Proof.
  intro H. rewrite <- (Z2Nat.id n H). generalize (Z.to_nat n). clear. intro k. rewrite Nat2Z.id.
  induction k as [|k IH]; [constructor|].
  replace (Z.of_nat (S k)) with (Z.of_nat k + 1) by lia. rewrite fill_snoc by lia.
  replace (repeat PNone (S k)) with (repeat PNone k ++ [PNone]) by (symmetry; apply repeat_cons).
  now constructor.
Qed.

Lemma rep_option_null idx b vs :
  rep b vs -> forallb nonnone vs = true -> gbwf idx -> gb_list idx = iota (zlen vs) ++ [-1] ->
  rep (BOption idx b) (vs ++ [PNone]).
Proof.
  intros R N W L. cbn [rep]. split; [exact W|]. exists vs. split; [|exact R]. rewrite L. constructor. now apply OptH_valids.
Qed.

Lemma rep_option_update idx c vs c' v idx' :
  rep (BOption idx c) vs -> (forall ws, rep c ws -> rep c' (ws ++ [v])) -> nonnone v = true ->
  gbwf idx' -> gb_list idx' = gb_list idx ++ [blen c] ->
  rep (BOption idx' c') (vs ++ [v]).
Proof.
  intros (W & ws & H & R) Hc N W' L. cbn [rep]. split; [exact W'|]. exists (ws ++ [v]). split; [|now apply Hc].
  rewrite L, (rep_len c ws R). now constructor.
Qed.

Lemma rep_option_none idx c vs idx' :
  rep (BOption idx c) vs -> gbwf idx' -> gb_list idx' = gb_list idx ++ [-1] -> rep (BOption idx' c) (vs ++ [PNone]).
Proof.
  intros (W & ws & H & R) W' L. cbn [rep]. split; [exact W'|]. exists ws. split; [|exact R]. rewrite L. now constructor.
Qed.

(* OptionBuilder::fromnulls(n, nb) after nb received its first value *)
Lemma rep_option_nulls_then idx n nb v :
  0 <= n -> rep nb [v] -> nonnone v = true -> gbwf idx -> gb_list idx = fill (-1) n ++ [0] ->
  rep (BOption idx nb) (repeat PNone (Z.to_nat n) ++ [v]).
Proof.
  intros Hn R N W L. cbn [rep]. split; [exact W|]. exists ([] ++ [v]). split; [|exact R].
  rewrite L. apply (OptH_some _ [] _ v); auto. now apply OptH_nulls.
Qed.

(* ------------------------------------------------------------------ what a node other than Unknown / Option holds is never None *)
Lemma map_val_of_nonnone vs : forall (f : Z -> value) l,
  map val_of vs = map f l -> (forall z, f z <> VNone) -> forallb nonnone vs = true.
Proof.
  induction vs as [|v t IH]; intros f [|z l] E F; try discriminate; [reflexivity|].
  cbn [map] in E. inversion E as [[E1 E2]]. cbn [forallb]. rewrite (IH f l E2 F), andb_true_r.
  destruct v; try reflexivity. cbn in E1. exfalso. apply (F z). now symmetry.
Qed.

Lemma map_val_of_nonnone' {A} vs : forall (f : A -> value) l,
  map val_of vs = map f l -> (forall z, f z <> VNone) -> forallb nonnone vs = true.
Proof.
  induction vs as [|v t IH]; intros f [|z l] E F; try discriminate; [reflexivity|].
  cbn [map] in E. inversion E as [[E1 E2]]. cbn [forallb]. rewrite (IH f l E2 F), andb_true_r.
  destruct v; try reflexivity. cbn in E1. exfalso. apply (F z). now symmetry.
Qed.

Lemma ListH_lists os ws vs : ListH os ws vs -> forallb nonnone vs = true.
Proof. induction 1; [reflexivity|]. rewrite forallb_snoc, IHListH. reflexivity. Qed.

Lemma forallb_impl {A} (p q : A -> bool) l : (forall x, p x = true -> q x = true) -> forallb p l = true -> forallb q l = true.
Proof. intros H. induction l as [|a t IH]; cbn; [auto|]. intro E. apply andb_true_iff in E. destruct E. rewrite H, IH; auto. Qed.

Lemma rep_alt_nonnone b vs : rep b vs -> altok b = true -> forallb nonnone vs = true.
Proof.
  destruct b; intros R T; try discriminate T.
  - destruct R as (_ & _ & E). cbn [bvals] in E. eapply map_val_of_nonnone; [exact E|]. intros; discriminate.
  - destruct R as (_ & _ & E). cbn [bvals] in E. eapply map_val_of_nonnone; [exact E|]. intros; discriminate.
  - destruct R as (_ & _ & E). cbn [bvals] in E. eapply map_val_of_nonnone; [exact E|]. intros; discriminate.
  - destruct R as (_ & _ & E). cbn [bvals] in E. eapply map_val_of_nonnone'; [exact E|]. intros; discriminate.
  - destruct R as (_ & _ & ws & H & _). eapply ListH_lists; eauto.
  - apply rep_record in R. destruct R as (_ & _ & F & _).
    eapply forallb_impl; [|exact F]. intros [] ?; try discriminate; reflexivity.
  - apply rep_tuple in R. destruct R as (_ & _ & F & _).
    eapply forallb_impl; [|exact F]. intros [] ?; try discriminate; reflexivity.
Qed.

Lemma UniH_nonnone ts ix vss vs :
  UniH ts ix vss vs -> Forall (fun ws => forallb nonnone ws = true) vss -> forallb nonnone vs = true.
Proof.
  induction 1; intro F; [reflexivity| |].
  - apply IHUniH. apply Forall_app in F. tauto.
  - apply Forall_app in F. destruct F as [F1 F2]. inversion F2 as [|? ? F3 F4]; subst.
    rewrite forallb_snoc in F3. apply andb_true_iff in F3. destruct F3 as [F5 F6].
    rewrite forallb_snoc, F6, andb_true_r. apply IHUniH. apply Forall_app. split; auto.
Qed.

Lemma ualts_nonnone cs : forall vss,
  ualts cs vss -> forallb altok cs = true -> Forall (fun ws => forallb nonnone ws = true) vss.
Proof.
  induction cs as [|c t IH]; intros [|h ht] H A; cbn [ualts] in H; try contradiction; [constructor|].
  cbn [forallb] in A. apply andb_true_iff in A. destruct A as [A1 A2]. destruct H as [H1 H2].
  constructor; [eapply rep_alt_nonnone; eauto|auto].
Qed.

Definition wrappable (b : builder) : bool :=
  match b with BUnknown _ | BOption _ _ => false | _ => true end.

Lemma rep_nonnone b vs : rep b vs -> wrappable b = true -> forallb nonnone vs = true.
Proof.
  intros R T. destruct b; try discriminate T; try (apply (rep_alt_nonnone _ _ R); reflexivity).
  apply rep_union in R. destruct R as (_ & _ & _ & [A _] & vss & U & AL).
  eapply UniH_nonnone; [exact U|]. eapply ualts_nonnone; eauto.
Qed.
