(** Column sort, part 2: the list structure is preserved when options sit on leaves only (C, [sortcols] level),
    nothing moves across lists (D, [sortcols] level). *)
From Coq Require Import ZArith List Bool Lia ZifyBool Permutation.
From AwkV Require Import Base Layout Valid Types AtAxis Ops_Sort Proofs_Typing Proofs_Lists Proofs_Sort Proofs_C06
                         Proofs_SortCols.
Import ListNotations.
Open Scope Z_scope.

(* ---------------------------------------------------------------- definitions *)
(* list structure only: the lengths at all levels *)
Fixpoint shape (v : value) : value :=
  match v with VList l => VList (map shape l) | _ => VNone end.
Fixpoint at_path (q : list Z) (v : value) : option value :=
  match q with
  | [] => Some v
  | p :: q' =>
      match v with
      | VList l => (match get l p with Ok x => at_path q' x | Err _ => None end)
      | _ => None
      end
  end.
(* the non-list entries found at inner coordinates q, row by row *)
Definition leaves_at (q : list Z) (vals : list value) : list value :=
  flat_map (fun v => match at_path q v with Some (VList _) => [] | Some x => [x] | None => [] end) vals.
(* options only on the leaves, never on lists *)
Fixpoint opts_on_leaves (t : ty) : bool :=
  match t with
  | TOpt t' => is_leaf_ty t'
  | TList _ None t' => opts_on_leaves t'
  | TList _ (Some _) _ => true
  | TNum _ => true
  | TUnk => true
  | _ => false
  end.

Definition shp (jv : Z * value) : value := shape (snd jv).
Definition atom (v : value) : bool :=
  match v with VNum _ | VBool _ | VStr _ _ | VNone => true | _ => false end.

Lemma is_leaf_opts t : is_leaf_ty t = true -> opts_on_leaves t = true.
Proof. destruct t as [dt| |sz [b|] t|t|ks ts|ts]; cbn; intros H; try discriminate H; auto. Qed.

(* ---------------------------------------------------------------- what sort_leaves accepts and returns *)
Lemma key_of_value_inv v k : key_of_value v = Ok k -> value_of_key k = v.
Proof. destruct v; cbn; intros H; inversion H; reflexivity. Qed.
Lemma key_of_value_atom v k : key_of_value v = Ok k -> atom v = true.
Proof. destruct v; cbn; intros H; try discriminate; reflexivity. Qed.
Lemma value_of_key_atom k : atom (value_of_key k) = true.
Proof. destruct k; reflexivity. Qed.
Lemma isnone_val jv : isnone jv = true -> snd jv = VNone.
Proof. unfold isnone. destruct (snd jv); try discriminate. reflexivity. Qed.
Lemma none_or_not jv : isnone jv = true \/ notnone jv = true.
Proof. unfold isnone, notnone. destruct (snd jv); auto. Qed.

Lemma sort_leaves_atoms asc a rows vs :
  sort_leaves asc a rows = Ok vs ->
  Forall (fun jv : Z * value => atom (snd jv) = true) rows /\ Forall (fun v => atom v = true) vs.
Proof.
  intros H. apply sort_leaves_inv in H as (keyed & Hk & ->). split.
  - apply Forall_forall. intros jv Hin. destruct (none_or_not jv) as [Hn|Hn].
    + rewrite (isnone_val _ Hn). reflexivity.
    + assert (Hf : In jv (filter notnone rows)) by (apply filter_In; auto).
      destruct (mapM_Ok_In _ _ _ _ Hk Hf) as (y & Hy & _). unfold keyrow in Hy.
      apply bind_Ok in Hy as (k & Hkv & _). eapply key_of_value_atom, Hkv.
  - destruct a; apply Forall_app; split; apply Forall_forall; intros v Hv;
      apply in_map_iff in Hv as (x & <- & _); try reflexivity. apply value_of_key_atom.
Qed.

Lemma sortcols_leaf_inv asc a t rows out :
  is_leaf_ty t = true -> sortcols asc a t rows = Ok out ->
  exists vs, sort_leaves asc a rows = Ok vs /\ out = zip (map fst rows) vs /\ map snd out = vs.
Proof.
  intros L H. rewrite sortcols_leaf in H by exact L. apply bind_Ok in H as (vs & Hvs & H). inversion H; subst.
  exists vs. repeat split; auto. apply map_snd_zip. rewrite map_length. symmetry. eapply sort_leaves_length, Hvs.
Qed.

(* ---------------------------------------------------------------- C: shape *)
Lemma atom_shape v : atom v = true -> shape v = VNone.
Proof. destruct v; cbn; try discriminate; reflexivity. Qed.
Lemma atoms_shape_eq A : forall B,
  Forall (fun v => atom v = true) A -> Forall (fun v => atom v = true) B -> length A = length B ->
  map shape A = map shape B.
Proof.
  induction A as [|x A IH]; intros [|y B] HA HB Hl; try discriminate; [reflexivity|].
  inversion HA; inversion HB; subst. cbn [map]. rewrite !atom_shape by assumption. f_equal. apply IH; auto.
Qed.
Lemma map_shp l : map shp l = map shape (map snd l).
Proof. rewrite map_map. reflexivity. Qed.

Lemma sortcols_shape_leaf asc a t rows out :
  is_leaf_ty t = true -> sortcols asc a t rows = Ok out -> map shp out = map shp rows.
Proof.
  intros L H. apply sortcols_leaf_inv in H as (vs & Hvs & _ & Hs); [|exact L].
  rewrite !map_shp, Hs. pose proof (sort_leaves_length _ _ _ _ Hvs) as Hl.
  apply sort_leaves_atoms in Hvs as [Hr Hv]. apply atoms_shape_eq; [exact Hv| |rewrite map_length; exact Hl].
  apply Forall_forall. intros v Hin. apply in_map_iff in Hin as (jv & <- & Hin). rewrite Forall_forall in Hr. auto.
Qed.

(* rows with the same lengths whose columns have the same shapes have the same shapes *)
Lemma rows_shape_from_cols rows out :
  Forall2 same_row rows out -> (forall p, map shp (colv p out) = map shp (colv p rows)) ->
  map shp out = map shp rows.
Proof.
  induction 1 as [|[j vr] [j' vo] rows out Hr Hrest IH]; intros Hc; [reflexivity|].
  destruct Hr as (_ & l & l' & Er & Eo & Hlen). cbn [snd] in Er, Eo. subst vr vo.
  assert (Hp : forall p,
             (match get l' p with Ok y => [shape y] | Err _ => [] end) ++ map shp (colv p out) =
             (match get l p with Ok x => [shape x] | Err _ => [] end) ++ map shp (colv p rows)).
  { intros p. specialize (Hc p). rewrite !colv_cons, !map_app in Hc. unfold colv1 in Hc. cbn [fst snd] in Hc.
    destruct (get l' p); destruct (get l p); exact Hc. }
  assert (Hz : zlen l' = zlen l) by (unfold zlen; lia).
  cbn [map]. f_equal.
  - unfold shp. cbn [snd shape]. f_equal. apply get_ext; [rewrite !zlen_map; exact Hz|].
    intros i Hi. rewrite zlen_map in Hi. rewrite !get_map.
    destruct (get_ok l' i Hi) as [y Hy]. destruct (get_ok l i) as [x Hx]; [lia|].
    specialize (Hp i). rewrite Hx, Hy in Hp. cbn [app] in Hp. injection Hp as Hxy _.
    rewrite Hx, Hy. cbn [rmap]. f_equal. exact Hxy.
  - apply IH. intros p. specialize (Hp p).
    destruct (get l p) as [x|e] eqn:Ex.
    + destruct (get_ok l' p) as [y Hy]; [apply get_range in Ex; lia|]. rewrite Hy in Hp. cbn [app] in Hp.
      injection Hp as _ Hp. exact Hp.
    + apply get_err in Ex as [_ Ex]. rewrite get_oob in Hp by lia. exact Hp.
Qed.

(* the unrestricted statement is false: a missing LIST moves to the end of its column *)
Example sortcols_shape_refuted :
  let rows := enumv [VList [VNum (DZ 1); VNum (DZ 2)]; VNone; VList [VNum (DZ 3)]] in
  NoDup (map fst rows) /\
  exists out, sortcols true false (TOpt (TList None None (TNum DInt64))) rows = Ok out /\
              map shp out <> map shp rows.
Proof.
  split; [apply enumv_NoDup|]. eexists. split; [vm_compute; reflexivity|]. vm_compute. discriminate.
Qed.

(** [_partial]: the added hypothesis [opts_on_leaves t] says that option types occur on leaf types only
    (numbers, strings), never on list types.  Without it a missing list goes last in its column and the
    lengths of the rows change ([sortcols_shape_refuted]). *)
Theorem sortcols_shape_partial asc a t :
  opts_on_leaves t = true -> forall rows out,
  sortcols asc a t rows = Ok out -> NoDup (map fst rows) ->
  map (fun jv : Z * value => shape (snd jv)) out = map (fun jv : Z * value => shape (snd jv)) rows.
Proof.
  change (fun jv : Z * value => shape (snd jv)) with shp.
  induction t as [dt| |sz str t IH|t IH|ks ts|ts]; intros O rows out H Hd; try discriminate O.
  - refine (sortcols_shape_leaf _ _ _ _ _ _ H). reflexivity.
  - rewrite sortcols_unk in H. destruct rows; inversion H. reflexivity.
  - destruct str as [b|]; [refine (sortcols_shape_leaf _ _ _ _ _ _ H); reflexivity|].
    cbn [opts_on_leaves] in O. apply rows_shape_from_cols; [eapply sortcols_rows, H|].
    intros p. destruct (colv p rows) as [|r c] eqn:E.
    + rewrite (sortcols_columns_empty _ _ _ _ _ _ H p E). reflexivity.
    + rewrite <- E. apply (IH O).
      * eapply sortcols_columns_nonempty; eauto. congruence.
      * apply colv_NoDup, Hd.
  - cbn [opts_on_leaves] in O. refine (sortcols_shape_leaf _ _ _ _ _ _ H). exact O.
Qed.

(* ---------------------------------------------------------------- D: no movement across lists *)
Lemma leaves_at_cons q v vals :
  leaves_at q (v :: vals) =
  (match at_path q v with Some (VList _) => [] | Some x => [x] | None => [] end) ++ leaves_at q vals.
Proof. reflexivity. Qed.
Lemma leaves_at_app q A B : leaves_at q (A ++ B) = leaves_at q A ++ leaves_at q B.
Proof. apply flat_map_app. Qed.
Lemma leaves_at_perm q A B : Permutation A B -> Permutation (leaves_at q A) (leaves_at q B).
Proof. apply Permutation_flat_map. Qed.
Lemma leaves_at_atoms vals : Forall (fun v => atom v = true) vals -> leaves_at [] vals = vals.
Proof.
  induction 1 as [|v vals Hv _ IH]; [reflexivity|]. rewrite leaves_at_cons, IH. cbn [at_path].
  destruct v; try discriminate Hv; reflexivity.
Qed.
Lemma leaves_at_atoms_deep p q vals : Forall (fun v => atom v = true) vals -> leaves_at (p :: q) vals = [].
Proof.
  induction 1 as [|v vals Hv _ IH]; [reflexivity|]. rewrite leaves_at_cons, IH. cbn [at_path].
  destruct v; try discriminate Hv; reflexivity.
Qed.
Lemma leaves_at_lists vals : (forall v, In v vals -> exists l, v = VList l) -> leaves_at [] vals = [].
Proof.
  intros H. apply flat_map_nil. intros v Hv. destruct (H v Hv) as [l ->]. reflexivity.
Qed.
(* the entries at coordinates p :: q are the entries at q of column p *)
Lemma leaves_at_col p q rows : leaves_at (p :: q) (map snd rows) = leaves_at q (map snd (colv p rows)).
Proof.
  induction rows as [|[j v] rows IH]; [reflexivity|]. cbn [map snd]. rewrite leaves_at_cons, colv_cons, map_app.
  rewrite leaves_at_app, IH. f_equal. unfold colv1. cbn [fst snd at_path].
  destruct v; try reflexivity. destruct (get l p) as [x|e]; [|reflexivity].
  cbn [map snd]. rewrite leaves_at_cons. cbn [leaves_at flat_map]. rewrite app_nil_r. reflexivity.
Qed.

Lemma sort_leaves_perm asc rows vs : sort_leaves asc false rows = Ok vs -> Permutation vs (map snd rows).
Proof.
  intros H. apply sort_leaves_inv in H as (keyed & Hk & ->).
  rewrite <- (part_perm rows) at 2. rewrite map_app. apply Permutation_app.
  - assert (E : map (fun jk : Z * key => value_of_key (snd jk)) keyed = map snd (filter notnone rows)).
    { eapply mapM_map_eq; [exact Hk|]. intros x y _ Hy. unfold keyrow in Hy.
      apply bind_Ok in Hy as (k & Hkv & Hy). inversion Hy; subst. cbn [snd]. apply key_of_value_inv, Hkv. }
    rewrite <- E. apply Permutation_map, sort_by_perm.
  - assert (E : map (fun _ : Z * value => VNone) (filter isnone rows) = map snd (filter isnone rows)).
    { apply map_ext_in. intros jv Hin. apply filter_In in Hin as [_ Hn]. symmetry. apply isnone_val, Hn. }
    rewrite E. reflexivity.
Qed.

Lemma no_cross_leaf asc t rows out :
  is_leaf_ty t = true -> sortcols asc false t rows = Ok out ->
  forall q, Permutation (leaves_at q (map snd out)) (leaves_at q (map snd rows)).
Proof.
  intros L H q. apply sortcols_leaf_inv in H as (vs & Hvs & _ & Hs); [|exact L]. rewrite Hs.
  pose proof (sort_leaves_perm _ _ _ Hvs) as Hp. apply sort_leaves_atoms in Hvs as [Hr Hv].
  assert (Hr' : Forall (fun v => atom v = true) (map snd rows)).
  { apply Forall_forall. intros v Hin. apply in_map_iff in Hin as (jv & <- & Hin). rewrite Forall_forall in Hr. auto. }
  destruct q as [|p q].
  - rewrite !leaves_at_atoms by assumption. exact Hp.
  - rewrite !leaves_at_atoms_deep by assumption. constructor.
Qed.

Lemma same_row_lists rows out : Forall2 same_row rows out ->
  (forall v, In v (map snd rows) -> exists l, v = VList l) /\ (forall v, In v (map snd out) -> exists l, v = VList l).
Proof.
  induction 1 as [|r o rows out Hr _ [IH1 IH2]]; [split; intros v []|].
  destruct Hr as (_ & l & l' & Er & Eo & _). split; intros v [<-|Hin]; eauto.
Qed.

(** D: for every tuple q of inner coordinates, the (non-list) entries found at q over all rows are, after
    the column sort, a permutation of those found at q before: entries move along the sorted axis only. *)
Theorem no_cross_list_movement asc t : forall rows out,
  sortcols asc false t rows = Ok out -> NoDup (map fst rows) ->
  forall q, Permutation (leaves_at q (map snd out)) (leaves_at q (map snd rows)).
Proof.
  induction t as [dt| |sz str t IH|t IH|ks ts|ts]; intros rows out H Hd q; try discriminate H.
  - refine (no_cross_leaf _ _ _ _ _ H q). reflexivity.
  - rewrite sortcols_unk in H. destruct rows; inversion H. constructor.
  - destruct str as [b|]; [refine (no_cross_leaf _ _ _ _ _ H q); reflexivity|].
    destruct q as [|p q].
    + destruct (same_row_lists _ _ (sortcols_rows _ _ _ _ _ _ H)) as [H1 H2].
      rewrite !leaves_at_lists by assumption. constructor.
    + rewrite !leaves_at_col. destruct (colv p rows) as [|r c] eqn:E.
      * rewrite (sortcols_columns_empty _ _ _ _ _ _ H p E). constructor.
      * rewrite <- E. apply IH; [|apply colv_NoDup, Hd].
        eapply sortcols_columns_nonempty; eauto. congruence.
  - destruct (is_leaf_ty t) eqn:L; [refine (no_cross_leaf _ _ _ _ _ H q); exact L|].
    rewrite sortcols_opt in H by exact L. apply bind_Ok in H as (o & Ho & H). inversion H; subst. clear H.
    rewrite map_snd_zip.
    2:{ apply sortcols_length in Ho. rewrite app_length, !map_length, Ho. symmetry. apply part_length. }
    rewrite leaves_at_app.
    rewrite (leaves_at_perm q _ _ (Permutation_map snd (Permutation_sym (part_perm rows)))).
    rewrite map_app, leaves_at_app. apply Permutation_app; [|reflexivity].
    apply IH; [exact Ho|]. apply filter_ids_NoDup, Hd.
Qed.
