(* virtrun: runs the extracted C18 models (Virtual.v, Partition.v) on the sessions of harness/props/c18.py.

   (id part (n N) (stops s1 ...) (ops STEP...))
      payload elements = the positions 0..N-1; same STEP syntax as impl/drv/virtdrv.cpp.
      -> (id ok (step R [(pinned R)]) ...)   R = ok VALUE | err value|oob|fuel
         the session follows the model with the guard (fixed = true); for a repartition the result of the
         pinned code (fixed = false) on the same array is printed as well.

   (id virtm (cached 0|1) (broken 0|1) (wraps (HASLEN HASFORM (chars c...) (model m...)) ...)
             (steps (KIND token...) ...))
      replays the implementation's trace of generator / cache calls on the model:
      m = o (conforming payload) | b (payload of the wrong shape) | f (exception); c = the driver's script letter
      KIND = len | type (query on a root VirtualArray: length_q / form_q of the model; `type` stands for every
             question answered by form(true): type, depths, fields) | peek (taking a field / fields / a lazy slice of
             a root VirtualArray: SPeek of the model -- it may look into the cache, it never calls array()) | op | event
      -> (id ok (step ok|err (n c0 c1 ...) agree|(mismatch POS WHAT)) ...)                              *)
open C18model
open Sx

exception Bad of string
let bad s = raise (Bad s)

let rec pos_of_int (n : int) : positive =
  if n = 1 then XH else if n land 1 = 0 then XO (pos_of_int (n lsr 1)) else XI (pos_of_int (n lsr 1))
let z_of_int (n : int) : z = if n = 0 then Z0 else if n > 0 then Zpos (pos_of_int n) else Zneg (pos_of_int (-n))
let rec int_of_pos = function XH -> 1 | XO p -> 2 * int_of_pos p | XI p -> 2 * int_of_pos p + 1
let int_of_z = function Z0 -> 0 | Zpos p -> int_of_pos p | Zneg p -> - (int_of_pos p)
let rec nat_of_int n = if n <= 0 then O else S (nat_of_int (n - 1))
let rec int_of_nat = function O -> 0 | S n -> 1 + int_of_nat n

let int_of_sx = function
  | A a -> (try int_of_string a with _ -> bad ("integer expected: " ^ a))
  | x -> bad ("integer expected: " ^ Sx.to_string x)
let z_of_sx x = z_of_int (int_of_sx x)
let zopt_of_sx = function A "none" -> None | x -> Some (z_of_sx x)

let field name = function
  | L items ->
    (try List.find (fun x -> Sx.head x = name) items with Not_found -> bad ("missing field " ^ name))
  | _ -> bad "session"
let args = function L (_ :: r) -> r | _ -> []

(* ------------------------------------------------------------------ partitions *)
let string_of_ints l = "(" ^ String.concat " " (List.map (fun z -> string_of_int (int_of_z z)) l) ^ ")"
let string_of_parr (p : z parr) =
  "(parts " ^ string_of_ints p.pa_stops ^ String.concat "" (List.map (fun q -> " " ^ string_of_ints q) p.pa_parts) ^ ")"
let show_res (f : 'a -> string) (r : 'a res) =
  match r with
  | Ok v -> "ok " ^ f v
  | Err EValue -> "err value"
  | Err EOob -> "err oob"
  | Err EFuel -> "err fuel"

let run_part (cs : Sx.t) : string =
  let n = int_of_sx (List.hd (args (field "n" cs))) in
  let stops = List.map int_of_sx (args (field "stops" cs)) in
  let positions = List.init n (fun i -> z_of_int i) in
  let rec split start = function
    | [] -> []
    | s :: r ->
      let len = s - start in
      (List.filteri (fun i _ -> i >= start && i < start + len) positions) :: split s r in
  let cur = ref (mk_parr (split 0 stops)) in
  let out = Buffer.create 256 in
  List.iteri (fun k st ->
      if k > 0 then Buffer.add_char out ' ';
      let res =
        match st with
        | L [A "at"; i] -> show_res (fun v -> string_of_int (int_of_z v)) (getitem_at !cur (z_of_sx i))
        | L [A ("range" | "narrow" as op); a; b; s] ->
          let r = getitem_range !cur (zopt_of_sx a) (zopt_of_sx b) (zopt_of_sx s) in
          (match r with Ok p when op = "narrow" -> cur := p | _ -> ());
          show_res string_of_parr r
        | L (A "repartition" :: t) ->
          let target = (match t with [L l] -> List.map z_of_sx l | l -> List.map z_of_sx l) in
          let fuel = repartition_fuel !cur in
          let fixed = repartition true fuel !cur target in
          let pinned = repartition false fuel !cur target in
          (match fixed with Ok p -> cur := p | _ -> ());
          show_res string_of_parr fixed ^ ") (pinned " ^ show_res string_of_parr pinned
        | L [A "pidx"; i] ->
          let (p, j) = partitionid_index_at (!cur).pa_stops (z_of_sx i) in
          Printf.sprintf "ok (%d %d)" (int_of_z p) (int_of_z j)
        | L [A "len"] -> show_res (fun v -> string_of_int (int_of_z v)) (pa_length !cur)
        | L [A "numpartitions"] -> Printf.sprintf "ok %d" (List.length (!cur).pa_parts)
        | L [A "start"; i] ->
          let i = int_of_sx i in
          if i = 0 then "ok 0" else show_res (fun v -> string_of_int (int_of_z v)) (get (!cur).pa_stops (z_of_int (i - 1)))
        | L [A "stop"; i] -> show_res (fun v -> string_of_int (int_of_z v)) (get (!cur).pa_stops (z_of_sx i))
        | L [A "tojson"] -> "ok na"
        | x -> bad ("partition step " ^ Sx.to_string x) in
      Buffer.add_string out ("(step (m " ^ res ^ "))")) (args (field "ops" cs));
  Buffer.contents out

(* ------------------------------------------------------------------ virtual arrays *)
type wrap = { has_len : bool; has_form : bool; chars : string array; model : string array }

exception Mismatch of int * string

let run_virt (cs : Sx.t) : string =
  let flag name = int_of_sx (List.hd (args (field name cs))) <> 0 in
  let cached = flag "cached" and broken = flag "broken" in
  let wraps = Array.of_list (List.map (function
      | L [hl; hf; L (A "chars" :: cs); L (A "model" :: ms)] ->
        let atoms l = Array.of_list (List.map (function A a -> a | _ -> bad "script") l) in
        { has_len = int_of_sx hl <> 0; has_form = int_of_sx hf <> 0; chars = atoms cs; model = atoms ms }
      | x -> bad ("wrap " ^ Sx.to_string x)) (args (field "wraps" cs))) in
  let nw = Array.length wraps in
  let at (a : string array) n = if Array.length a = 0 then "o" else a.(min n (Array.length a - 1)) in
  let wrap_of k = let i = int_of_nat k in if i < nw then wraps.(i) else bad "key" in
  (* payload 0 = the eager node, 1 = a payload of the wrong shape; the only declaration is () *)
  let shape_ok () (a : int) = (a = 0) in
  let gen (k : nat) (n : nat) : int outcome =
    match at (wrap_of k).model (int_of_nat n) with
    | "o" -> GOk 0 | "b" -> GOk 1 | "f" -> GFail | m -> bad ("model outcome " ^ m) in
  let info (k : nat) : unit vinfo =
    let w = wrap_of k in
    { vi_decl = (); vi_has_length = w.has_len; vi_has_form = w.has_form; vi_has_cache = cached } in
  let s = ref (init (if broken then Broken else Live) : int state) in
  let out = Buffer.create 256 in
  let key_of tok = (* "g3+" -> 3 ; "G0o" -> 0 ; "s12" -> 12 *)
    let n = String.length tok in
    let j = ref 1 in
    while !j < n && tok.[!j] >= '0' && tok.[!j] <= '9' do incr j done;
    if !j = 1 then bad ("token " ^ tok);
    (int_of_string (String.sub tok 1 (!j - 1)), String.sub tok !j (n - !j)) in
  List.iteri (fun si st ->
      if si > 0 then Buffer.add_char out ' ';
      let kind, toks = (match st with
          | L (A k :: t) -> (k, Array.of_list (List.map (function A a -> a | _ -> bad "token") t))
          | _ -> bad "step") in
      let n = Array.length toks in
      let err = ref false in
      let verdict =
        try
          let i = ref 0 in
          let tok j = if j < n then toks.(j) else "" in
          (* queries answered without the payload must not touch generator or cache *)
          let free_query =
            (match kind with
             | "len" -> (match fst (length_q shape_ok gen info O [] !s) with Ok (FromDecl _) -> true | _ -> false)
             | "type" -> (match fst (form_q shape_ok gen info O [] !s) with
                 | Ok (FromDecl _) | Ok FromInferred -> true | _ -> false)
             | _ -> false) in
          if free_query && n > 0 then raise (Mismatch (0, "declared/inferred query touched generator or cache"));
          (* one array() call for key k starting at token !i (a g or, without cache, a G token) *)
          let array_call () =
            let p0 = !i in
            if kind = "peek" then raise (Mismatch (p0, "a lazy derivation (SPeek in the model) called array()"));
            let t0 = tok !i in
            let (k, rest) = key_of t0 in
            let kn = nat_of_int k in
            let count_before = int_of_nat ((!s).st_count kn) in
            let seen_hit =
              if t0.[0] = 'g' then begin
                if not cached then raise (Mismatch (p0, "cache get without a cache"));
                incr i; Some (rest = "+")
              end else None in
            let gtok = tok !i in
            let seen_gen =
              if String.length gtok > 0 && gtok.[0] = 'G' && fst (key_of gtok) = k then begin
                incr i; Some (snd (key_of gtok))
              end else None in
            let mid, seen_set =
              if tok !i = "s" ^ string_of_int k then (incr i; ([], true))
              else if tok !i = "e" && tok (!i + 1) = "s" ^ string_of_int k then (i := !i + 2; ([EvEvictAll], true))
              else ([], false) in
            let ((r, called), s') = array shape_ok gen info kn mid !s in
            s := s';
            (match seen_hit with
             | Some h -> if h = called then raise (Mismatch (p0, if called then "model misses, cache hit" else "model hits, cache missed"))
             | None -> if cached then raise (Mismatch (p0, "generator call without a cache get")));
            (match seen_gen, called with
             | Some c, true ->
               if c <> at (wrap_of kn).chars count_before then
                 raise (Mismatch (p0, Printf.sprintf "invocation %d: script says %s, implementation ran %s"
                                    count_before (at (wrap_of kn).chars count_before) c))
             | None, true -> raise (Mismatch (p0, "model invokes the generator, implementation did not"))
             | Some _, false -> raise (Mismatch (p0, "implementation invoked the generator, model does not"))
             | None, false -> ());
            (match r with
             | Ok _ ->
               if cached && not seen_set then raise (Mismatch (p0, "model succeeds and stores, no set seen"));
               if (not cached) && seen_set then raise (Mismatch (p0, "set without a cache"))
             | Err _ ->
               err := true;
               if seen_set then raise (Mismatch (p0, "model fails, implementation stored a value"));
               if !i < n then raise (Mismatch (!i, "calls after a failed generation in the same step"))) in
          while !i < n do
            let t = tok !i in
            if t = "E" || t = "e" then (s := apply_event EvEvictAll !s; incr i)
            else if t = "B" then (s := apply_event EvBreak !s; incr i)
            else if t = "b+" then begin
              if (!s).st_mode <> Broken then raise (Mismatch (!i, "is_broken true, model cache is live"));
              ignore (peek_array info O !s); incr i
            end
            else if t = "b-" then begin
              if (!s).st_mode <> Live then raise (Mismatch (!i, "is_broken false, model cache is broken"));
              incr i;
              if tok !i = "e" then (s := apply_event EvEvictAll !s; incr i);
              let g = tok !i in
              if String.length g < 3 || g.[0] <> 'g' then raise (Mismatch (!i, "peek without get"));
              let (k, pm) = key_of g in
              let m = peek_array info (nat_of_int k) !s in
              if (m <> None) <> (pm = "+") then
                raise (Mismatch (!i, if m = None then "peek: model sees nothing, cache hit" else "peek: model sees a value, cache missed"));
              (match m with Some a when a <> 0 -> raise (Mismatch (!i, "peek: model sees a wrong payload")) | _ -> ());
              incr i
            end
            else if String.length t >= 2 && (t.[0] = 'g' || t.[0] = 'G') then array_call ()
            else raise (Mismatch (!i, "unexpected token " ^ t))
          done;
          "agree"
        with Mismatch (p, what) -> Printf.sprintf "(mismatch %d (%s))" p what in
      let counts = String.concat " " (List.init nw (fun k -> string_of_int (int_of_nat ((!s).st_count (nat_of_int k))))) in
      (* coherence of the model state (Theorem cache_coherent), observed: every cached payload is the conforming one *)
      let coherent = List.for_all (fun (_, a) -> a = 0) (!s).st_cache in
      Buffer.add_string out (Printf.sprintf "(step %s (n %s) %s%s)" (if !err then "err" else "ok") counts verdict
                               (if coherent then "" else " incoherent")))
    (args (field "steps" cs));
  Buffer.contents out

let () =
  try
    while true do
      let line = input_line stdin in
      if String.length line > 0 && line.[0] <> '#' then begin
        let id = ref "?" in
        (try
           match Sx.parse line with
           | L (A i :: A kind :: _) as cs ->
             id := i;
             let r = (match kind with
                 | "part" -> run_part cs
                 | "virtm" -> run_virt cs
                 | k -> bad ("session kind " ^ k)) in
             Printf.printf "(%s ok %s)\n" i r
           | _ -> bad "session syntax"
         with
         | Bad s -> Printf.printf "(%s bad (%s))\n" !id s
         | Sx.Parse s -> Printf.printf "(%s bad (parse %s))\n" !id s
         | Stack_overflow -> Printf.printf "(%s bad (stack overflow))\n" !id
         | Not_found -> Printf.printf "(%s bad (not found))\n" !id
         | Failure s -> Printf.printf "(%s bad (failure %s))\n" !id s)
      end
    done
  with End_of_file -> ()
