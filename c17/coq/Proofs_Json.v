(** C17 proofs, part 4: a well-formed form survives Form -> JSON -> Form. *)
From Coq Require Import ZArith List Bool Lia.
From AwkV Require Import Base Layout.
From AwkTypes Require Import Json Forms.
Import ListNotations.
Open Scope Z_scope.

(* ---------------------------------------------------------------- byte strings *)
Lemma bytes_eqb_eq (a b : bytes) : bytes_eqb a b = true -> a = b.
Proof.
  revert b. unfold bytes_eqb. induction a as [|x a IH]; intros [|y b]; simpl; try discriminate; auto.
  intros H. apply andb_true_iff in H as [H1 H2]. apply Z.eqb_eq in H1. subst. f_equal. auto.
Qed.
Lemma bytes_eqb_refl (a : bytes) : bytes_eqb a a = true.
Proof. unfold bytes_eqb. induction a; simpl; [reflexivity|]. rewrite Z.eqb_refl. exact IHa. Qed.

Lemma bytes_ltb_irrefl a : bytes_ltb a a = false.
Proof. induction a as [|x a IH]; simpl; [reflexivity|]. rewrite Z.ltb_irrefl. exact IH. Qed.

Lemma bytes_ltb_trans a : forall b c, bytes_ltb a b = true -> bytes_ltb b c = true -> bytes_ltb a c = true.
Proof.
  induction a as [|x a IH]; intros [|y b] [|z c] H1 H2; simpl in *; try discriminate; try reflexivity.
  destruct (x <? y) eqn:Exy.
  - apply Z.ltb_lt in Exy. destruct (y <? z) eqn:Eyz.
    + apply Z.ltb_lt in Eyz. replace (x <? z) with true by (symmetry; apply Z.ltb_lt; lia). reflexivity.
    + destruct (z <? y) eqn:Ezy; [discriminate|]. apply Z.ltb_ge in Eyz, Ezy. assert (y = z) by lia. subst.
      replace (x <? z) with true by (symmetry; apply Z.ltb_lt; lia). reflexivity.
  - destruct (y <? x) eqn:Eyx; [discriminate|]. apply Z.ltb_ge in Exy, Eyx. assert (x = y) by lia. subst.
    destruct (y <? z) eqn:Eyz; [reflexivity|]. destruct (z <? y); [discriminate|]. eapply IH; eauto.
Qed.

Lemma bytes_ltb_asym a b : bytes_ltb a b = true -> bytes_ltb b a = false.
Proof.
  intros H. destruct (bytes_ltb b a) eqn:E; [|reflexivity].
  pose proof (bytes_ltb_trans _ _ _ H E) as Ht. rewrite bytes_ltb_irrefl in Ht. discriminate.
Qed.

Lemma cstr_nonul s : nonul s = true -> cstr s = s.
Proof.
  induction s as [|c s IH]; simpl; [reflexivity|]. intros H. apply andb_true_iff in H as [H1 H2].
  destruct (c =? 0); [discriminate|]. rewrite IH; auto.
Qed.

(* ---------------------------------------------------------------- rebuilding a std::map from its own listing *)
Section PSet.
  Context {V : Type}.
  Definition all_lt (acc : list (bytes * V)) (k : bytes) : Prop := forall k' v', In (k', v') acc -> bytes_ltb k' k = true.

  Lemma pset_append (acc : list (bytes * V)) k v : all_lt acc k -> pset k v acc = acc ++ [(k, v)].
  Proof.
    induction acc as [|[k' v'] acc IH]; intros H; simpl; [reflexivity|].
    assert (Hk : bytes_ltb k' k = true) by (apply (H k' v'); left; reflexivity).
    rewrite (bytes_ltb_asym _ _ Hk), Hk. f_equal. apply IH. intros k2 v2 Hin. apply (H k2 v2). right. exact Hin.
  Qed.

  Lemma psorted_cons k v (r : list (bytes * V)) :
    psorted ((k, v) :: r) = true -> psorted r = true /\ forall k' v', In (k', v') r -> bytes_ltb k k' = true.
  Proof.
    revert k v. induction r as [|[k1 v1] r IH]; intros k v H.
    - split; [reflexivity|]. intros k' v' [].
    - simpl in H. apply andb_true_iff in H as [H1 H2]. split; [exact H2|].
      intros k' v' [Heq|Hin]; [inversion Heq; subst; exact H1|].
      destruct (IH k1 v1 H2) as [_ Hlt]. eapply bytes_ltb_trans; [exact H1|]. eapply Hlt, Hin.
  Qed.

  Lemma rebuild_sorted (ps acc : list (bytes * V)) :
    psorted ps = true -> (forall k v, In (k, v) ps -> all_lt acc k) ->
    fold_left (fun a kv => pset (fst kv) (snd kv) a) ps acc = acc ++ ps.
  Proof.
    revert acc. induction ps as [|[k v] ps IH]; intros acc Hs Hacc; simpl; [rewrite app_nil_r; reflexivity|].
    rewrite pset_append by (apply (Hacc k v); left; reflexivity).
    destruct (psorted_cons k v ps Hs) as [Hs' Hlt].
    rewrite IH; [rewrite <- app_assoc; reflexivity|exact Hs'|].
    intros k2 v2 Hin k' v' Hin'. apply in_app_or in Hin' as [Hin'|[Heq|[]]].
    - eapply (Hacc k2 v2); [right; exact Hin|exact Hin'].
    - inversion Heq; subst. eapply Hlt, Hin.
  Qed.
End PSet.

(* ---------------------------------------------------------------- lookups *)
Lemma jfind_eq k k' v r : bytes_eqb k' k = true -> jfind k ((k', v) :: r) = Some v.
Proof. intros H. simpl. rewrite H. reflexivity. Qed.
Lemma jfind_ne k k' v r : bytes_eqb k' k = false -> jfind k ((k', v) :: r) = jfind k r.
Proof. intros H. simpl. rewrite H. reflexivity. Qed.
Lemma jfind_app k l1 l2 :
  jfind k (l1 ++ l2) = match jfind k l1 with Some v => Some v | None => jfind k l2 end.
Proof. induction l1 as [|[k' v] l1 IH]; simpl; [reflexivity|]. destruct (bytes_eqb k' k); auto. Qed.
Lemma jfind_map_spec {A} (f : json -> A) k m : jfind_map f k m = option_map f (jfind k m).
Proof. unfold jfind_map. induction m as [|[k' v] m IH]; simpl; [reflexivity|]. destruct (bytes_eqb k' k); auto. Qed.

Definition not_meta_key (k : bytes) : Prop :=
  bytes_eqb k_has_identities k = false /\ bytes_eqb k_parameters k = false /\ bytes_eqb k_form_key k = false.

Lemma jfind_tail_other verbose m k : not_meta_key k -> jfind k (j_tail verbose m) = None.
Proof.
  intros (H1 & H2 & H3). unfold j_tail, j_identities, j_parameters, j_form_key.
  destruct verbose, (m_hid m), (m_params m), (m_key m); cbn [orb app];
    repeat (first [rewrite jfind_ne by assumption | reflexivity]).
Qed.

Lemma jfind_tail_hid verbose m :
  jfind k_has_identities (j_tail verbose m) = if verbose || m_hid m then Some (JBool (m_hid m)) else None.
Proof.
  unfold j_tail, j_identities, j_parameters, j_form_key.
  destruct verbose, (m_hid m), (m_params m), (m_key m); cbn [orb app];
    repeat (first [rewrite jfind_eq by reflexivity | rewrite jfind_ne by reflexivity | reflexivity]).
Qed.

Lemma jfind_tail_params verbose m :
  jfind k_parameters (j_tail verbose m) =
  match m_params m with
  | [] => if verbose then Some (JObj []) else None
  | ps => Some (JObj (map (fun kv => (cstr (fst kv), snd kv)) ps))
  end.
Proof.
  unfold j_tail, j_identities, j_parameters, j_form_key.
  destruct verbose, (m_hid m), (m_params m), (m_key m); cbn [orb app];
    repeat (first [rewrite jfind_eq by reflexivity | rewrite jfind_ne by reflexivity | reflexivity]).
Qed.

Lemma jfind_tail_key verbose m :
  jfind k_form_key (j_tail verbose m) =
  match m_key m with
  | Some k => Some (JStr k)
  | None => if verbose then Some JNull else None
  end.
Proof.
  unfold j_tail, j_identities, j_parameters, j_form_key.
  destruct verbose, (m_hid m), (m_params m), (m_key m); cbn [orb app];
    repeat (first [rewrite jfind_eq by reflexivity | rewrite jfind_ne by reflexivity | reflexivity]).
Qed.

Lemma jfind_tail_identifier verbose m : jfind k_has_identifier (j_tail verbose m) = None.
Proof. apply jfind_tail_other. repeat split; reflexivity. Qed.

(* get_meta reads back what j_tail wrote, for any prefix of other members *)
Lemma get_hid_tail pre verbose m :
  jfind k_has_identifier pre = None -> jfind k_has_identities pre = None ->
  get_hid (pre ++ j_tail verbose m) = Ok (m_hid m).
Proof.
  intros P1 P2. unfold get_hid.
  rewrite !jfind_app, P1, P2, jfind_tail_identifier, jfind_tail_hid.
  destruct verbose, (m_hid m); reflexivity.
Qed.

Lemma map_cstr_id (ps : params) :
  forallb (fun kv => nonul (fst kv)) ps = true -> map (fun kv : bytes * json => (cstr (fst kv), snd kv)) ps = ps.
Proof.
  induction ps as [|[k v] l IH]; intros Hn; [reflexivity|].
  simpl in Hn. apply andb_true_iff in Hn as [H1 H2]. simpl. rewrite (cstr_nonul _ H1), (IH H2). reflexivity.
Qed.

Lemma fold_pset_cstr (l : params) : forall acc, forallb (fun kv => nonul (fst kv)) l = true ->
  fold_left (fun acc kv => pset (cstr (fst kv)) (snd kv) acc) l acc =
  fold_left (fun a kv => pset (fst kv) (snd kv) a) l acc.
Proof.
  induction l as [|[k v] l IH]; intros acc Hl; [reflexivity|].
  simpl in Hl. apply andb_true_iff in Hl as [H1 H2]. simpl. rewrite (cstr_nonul _ H1). apply IH, H2.
Qed.

Lemma get_params_tail pre verbose m :
  jfind k_parameters pre = None ->
  psorted (m_params m) = true -> forallb (fun kv => nonul (fst kv)) (m_params m) = true ->
  get_params (pre ++ j_tail verbose m) = Ok (m_params m).
Proof.
  intros P3 Hs Hn. unfold get_params. rewrite jfind_app, P3, jfind_tail_params.
  destruct (m_params m) as [|p ps'] eqn:Ep; [destruct verbose; reflexivity|].
  rewrite (map_cstr_id _ Hn), (fold_pset_cstr _ _ Hn).
  rewrite (rebuild_sorted (p :: ps') [] Hs); [reflexivity|]. intros k v _ k' v' [].
Qed.

Lemma get_form_key_tail pre verbose m :
  jfind k_form_key pre = None -> match m_key m with Some k => nonul k | None => true end = true ->
  get_form_key (pre ++ j_tail verbose m) = Ok (m_key m).
Proof.
  intros P4 Hk. unfold get_form_key. rewrite jfind_app, P4, jfind_tail_key.
  destruct (m_key m) as [k|]; [rewrite (cstr_nonul _ Hk); reflexivity|]. destruct verbose; reflexivity.
Qed.

Lemma get_meta_tail pre verbose m :
  jfind k_has_identifier pre = None -> jfind k_has_identities pre = None ->
  jfind k_parameters pre = None -> jfind k_form_key pre = None ->
  meta_wf m = true ->
  get_meta (pre ++ j_tail verbose m) = Ok m.
Proof.
  intros P1 P2 P3 P4 Hwf. unfold meta_wf in Hwf.
  apply andb_true_iff in Hwf as [Hwf Hk]. apply andb_true_iff in Hwf as [Hs Hn].
  unfold get_meta.
  rewrite (get_hid_tail _ _ _ P1 P2), (get_params_tail _ _ _ P3 Hs Hn), (get_form_key_tail _ _ _ P4 Hk).
  destruct m; reflexivity.
Qed.
