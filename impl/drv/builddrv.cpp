// builddrv: drives awkward::ArrayBuilder of /repo's libawkward with command sessions (property C14).
// One session per line on stdin:
//   (id build (opts INITIAL RESIZE_PERCENT) (cmds CMD...))
//   CMD ::= null | (bool 0|1) | (int N) | (real N) | (str B...) | (bytes B...) | beginlist | endlist
//         | (begintuple N) | (index I) | endtuple | (beginrecord NAME|none) | (field NAME) | endrecord
//         | snapshot | clear
// Output: (id ok (events EV...) (final (POS LEN DUMP)...))
//   EV ::= (e POS value|runtime|other)      command number POS threw (the session goes on: every throw site of the
//                                           builders is reached before or without leaving dangling state, see
//                                           Builder.v; ArrayBuilder itself only replaces its root after a normal return)
//        | (s POS LEN DUMP)                 snapshot taken at command POS: ArrayBuilder::length() and the layout dumped AT THAT MOMENT
//   final: every snapshot (all kept alive during the session) dumped AGAIN after the last command, so that a
//   later append that wrote into an earlier snapshot's buffers is visible.
// Only public headers of /repo/include are used.
#include "drv_common.h"
#include "awkward/builder/ArrayBuilder.h"
#include "awkward/builder/ArrayBuilderOptions.h"

using namespace drv;

static std::string bytes_of(const Sx& c) {
  std::string s;
  for (size_t i = 1; i < c.size(); i++) s.push_back((char)(unsigned char)to_i64(c[i]));
  return s;
}

static void apply(ArrayBuilder& b, const Sx& c) {
  if (c.atom) {
    if (c.a == "null") { b.null(); return; }
    if (c.a == "beginlist") { b.beginlist(); return; }
    if (c.a == "endlist") { b.endlist(); return; }
    if (c.a == "endtuple") { b.endtuple(); return; }
    if (c.a == "endrecord") { b.endrecord(); return; }
    if (c.a == "clear") { b.clear(); return; }
    throw std::logic_error("unknown command " + c.a);
  }
  const std::string h = c.head();
  if (h == "bool") { b.boolean(to_i64(c[1]) != 0); return; }
  if (h == "int") { b.integer(to_i64(c[1])); return; }
  if (h == "real") { b.real(to_f64(c[1])); return; }
  if (h == "str") { b.string(bytes_of(c)); return; }
  if (h == "bytes") { b.bytestring(bytes_of(c)); return; }
  if (h == "begintuple") { b.begintuple(to_i64(c[1])); return; }
  if (h == "index") { b.index(to_i64(c[1])); return; }
  if (h == "beginrecord") {
    if (c[1].is("none")) b.beginrecord(); else if (c[1].is("%empty")) b.beginrecord_check(""); else b.beginrecord_check(c[1].a);
    return;
  }
  if (h == "field") { b.field_check(c[1].a); return; }
  throw std::logic_error("unknown command " + c.str());
}

static std::string handle(const Sx& cs) {
  if (cs[1].a != "build") throw std::logic_error("unknown op " + cs[1].a);
  const Sx& opts = cs[2];
  if (opts.head() != "opts") throw std::logic_error("opts expected");
  int64_t initial = to_i64(opts[1]);
  double resize = (double)to_i64(opts[2]) / 100.0;
  const Sx& cmds = cs[3];
  if (cmds.head() != "cmds") throw std::logic_error("cmds expected");
  ArrayBuilder b(ArrayBuilderOptions(initial, resize));
  std::vector<std::pair<size_t, ContentPtr>> snaps;   // kept alive until the end
  std::string ev = "(events";
  for (size_t i = 1; i < cmds.size(); i++) {
    const Sx& c = cmds[i];
    size_t pos = i - 1;
    try {
      if (c.is("snapshot")) {
        ContentPtr s = b.snapshot();
        snaps.push_back(std::make_pair(pos, s));
        ev += " (s " + std::to_string(pos) + " " + std::to_string(b.length()) + " " + dump(s) + ")";
      } else {
        apply(b, c);
      }
    } catch (std::invalid_argument& e) {
      ev += " (e " + std::to_string(pos) + " value)";
    } catch (std::logic_error& e) {
      throw;                                  // bad case syntax: whole line is 'bad'
    } catch (std::runtime_error& e) {
      ev += " (e " + std::to_string(pos) + " runtime)";
    } catch (std::exception& e) {
      ev += " (e " + std::to_string(pos) + " other)";
    }
  }
  ev += ")";
  std::string fin = "(final";
  for (auto& p : snaps)
    fin += " (" + std::to_string(p.first) + " " + std::to_string(p.second->length()) + " " + dump(p.second) + ")";
  fin += ")";
  return ev + " " + fin;
}

int main() { return run_cases(handle); }
