"""C13: role-aware, seeded argument generation for every kernel in kernel-specification.yml.

`generate(spec, rng, view, mode)` returns a kernels.Call whose arguments satisfy the kernel's preconditions
(offsets monotone, parents sorted, starts/stops consistent, indexes in range, masks 0/1, lengths consistent),
or -- mode 'bad', only for kernels whose contract is to *report* errors -- break exactly one condition that the
kernel is documented to detect. mode 'extreme' draws data values from the extremes of the element type (and
shifts offsets next to the top of the type) where values are pure data.

The per-kernel functions below take a context `g` and return {argument: value}. `out` arguments are given
as an extent (int) -> sentinel-filled buffer of that many elements, as a list (initial content: the kernel
reads it), or omitted (extent measured from the Python definition's writes; only possible when it is executable).
"""
import kernels as K

INF = float('inf')
# offsets of 64-bit index types are pushed next to 2^62, not 2^63: several kernels add two offsets in int64_t before
# subtracting (signed overflow = undefined behaviour that no array fitting in memory can reach)
TOP64 = 2 ** 62


class Ctx:
    def __init__(self, rng, spec, view, mode):
        self.r, self.spec, self.view, self.mode = rng, spec, view, mode
        self.view = dict(view)
        self.view.setdefault('offsets', (-2 ** 63, 2 ** 63 - 1, 'i'))
        self.bad = mode == 'bad'
        self.extreme = mode == 'extreme'
        self.badkind = None

    # ---- type views
    def T(self, name):
        return self.view[name]

    def lohi(self, name):
        lo, hi, kind = self.view[name]
        return lo, hi

    def signed(self, name):
        return self.view[name][0] < 0

    # ---- sizes
    def n(self, hi=8, lo=0):
        r = self.r
        x = r.random()
        if lo == 0 and x < 0.10:
            return 0
        if x < 0.2:
            return max(lo, 1)
        if x > 0.93:
            return r.randint(max(lo, 1), hi * 3)
        return r.randint(max(lo, 1), hi)

    def flag(self):
        return self.r.random() < 0.5

    def small(self, lo, hi):
        return self.r.randint(lo, hi)

    # ---- lists
    def clip(self, name, v):
        lo, hi, kind = self.view[name]
        if kind == 'b':
            return 1 if v else 0
        if v < lo:
            return lo
        if v > hi:
            return hi
        return v

    def data(self, name, n, lo=-9, hi=9):
        """pure data values for a list argument"""
        tlo, thi, kind = self.view[name]
        r = self.r
        if kind == 'b':
            return [r.randint(0, 1) for _ in range(n)]
        if kind == 'f':
            if self.extreme:
                pool = [0.0, 1.0, -1.0, 2.0 ** 20, -2.0 ** 20, 255.0, -128.0, 65535.0]
                return [r.choice(pool) for _ in range(n)]
            return [float(r.randint(lo, hi)) for _ in range(n)]
        if self.extreme:
            pool = [tlo, tlo + 1, thi, thi - 1, 0, 1]
            if tlo < 0:
                pool.append(-1)
            return [r.choice(pool) if r.random() < 0.6 else r.randint(max(tlo, lo), min(thi, hi)) for _ in range(n)]
        if lo == -1 and tlo < 0 and n > 0:
            # an option-type index (negative = missing): also all-missing and no-missing arrays, and dense/sparse mixes
            q = r.random()
            if q < 0.12:
                return [-1] * n
            if q < 0.24:
                return [r.randint(0, min(thi, hi)) for _ in range(n)]
            if q < 0.5:
                p = r.choice([0.2, 0.5, 0.8])
                return [-1 if r.random() < p else r.randint(0, min(thi, hi)) for _ in range(n)]
        return [r.randint(max(tlo, lo), min(thi, hi)) for _ in range(n)]

    def mask(self, name, n):
        r = self.r
        p = r.choice([0.0, 0.3, 0.5, 0.8, 1.0])
        return [1 if r.random() < p else 0 for _ in range(n)]

    def offsets(self, name, n, maxc=4, base=None, regular=None):
        """monotone offsets of n lists -> n+1 entries"""
        r = self.r
        tlo, thi, kind = self.view[name]
        if base is None:
            base = 0 if r.random() < 0.6 else r.randint(0, 3)
        out = [base]
        for _ in range(n):
            c = regular if regular is not None else (0 if r.random() < 0.25 else r.randint(0, maxc))
            out.append(out[-1] + c)
        if self.extreme and kind != 'f' and out[-1] - out[0] < 1000:
            sh = min(thi, TOP64) - out[-1] - r.randint(0, 2)
            out = [x + sh for x in out]
        return out

    def startsstops(self, sname, pname, n, lencontent=None, maxc=4, gaps=True):
        """consistent starts/stops (possibly out of order, with gaps and overlaps) inside [0, lencontent]"""
        r = self.r
        if lencontent is None:
            lencontent = r.randint(0, 12)
        style = r.random()
        starts, stops = [], []
        if style < 0.4 or not gaps:
            off = [0]
            for _ in range(n):
                off.append(min(lencontent, off[-1] + (0 if r.random() < 0.25 else r.randint(0, maxc))))
            starts, stops = off[:-1], off[1:]
        else:
            for _ in range(n):
                if lencontent == 0 or r.random() < 0.2:
                    a = r.randint(0, lencontent)
                    starts.append(a)
                    stops.append(a)
                else:
                    a = r.randint(0, lencontent)
                    b = min(lencontent, a + r.randint(0, maxc))
                    starts.append(a)
                    stops.append(b)
        # a zero-length list may sit anywhere, also beyond the content: only lists with start != stop are range-checked
        # by awkward_ListArray_validity, so this is a precondition-satisfying input
        for i in range(len(starts)):
            if starts[i] == stops[i] and r.random() < 0.2:
                starts[i] = stops[i] = lencontent + r.randint(1, 5)
        return starts, stops, lencontent

    def shift_extreme(self, names, lists):
        """shift starts/stops-like lists next to the top of the narrowest type (pure arithmetic kernels only)"""
        hi = min(min(self.view[nm][1] for nm in names), TOP64)
        kind = self.view[names[0]][2]
        mx = max([0] + [x for l in lists for x in l])
        if kind == 'f' or hi is None:
            return lists
        sh = hi - mx - self.r.randint(0, 2)
        return [[x + sh for x in l] for l in lists]

    def index(self, name, n, lencontent, none_p=0.25):
        """index into content of length lencontent; -1 = None when the type is signed and none_p > 0"""
        r = self.r
        neg = self.signed(name) and none_p > 0
        out = []
        for _ in range(n):
            if lencontent == 0 or (neg and r.random() < none_p):
                out.append(-1 if neg else 0)
            else:
                out.append(r.randint(0, lencontent - 1))
        if lencontent == 0 and not neg:
            return None
        return out

    def parents(self, n, maxgap=2):
        """sorted non-decreasing parents; returns (parents, outlength)"""
        r = self.r
        out, p = [], 0 if r.random() < 0.7 else r.randint(0, 2)
        for _ in range(n):
            x = r.random()
            if x < 0.45:
                p += 1 if r.random() < 0.75 else r.randint(1, 1 + maxgap)
            out.append(p)
        outlength = (out[-1] + 1 if out else 0) + (r.randint(0, 2) if r.random() < 0.4 else 0)
        return out, outlength

    def carry(self, n, length):
        r = self.r
        if length == 0:
            return []
        return [r.randint(0, length - 1) for _ in range(n)]


GEN = {}


def gen(*names):
    def deco(f):
        for n in names:
            GEN[n] = f
        return f
    return deco


def errors(f):
    f.reports_errors = True
    return f


def extremes(f):
    f.extremes = True
    return f


# ====================================================================== masks
@gen('awkward_BitMaskedArray_to_ByteMaskedArray')
def _(g):
    n = g.n()
    return dict(tobytemask=n * 8, frombitmask=[g.r.randint(0, 255) for _ in range(n)], bitmasklength=n,
                validwhen=g.flag(), lsb_order=g.flag())


@gen('awkward_BitMaskedArray_to_IndexedOptionArray')
def _(g):
    n = g.n()
    return dict(toindex=n * 8, frombitmask=[g.r.randint(0, 255) for _ in range(n)], bitmasklength=n,
                validwhen=g.flag(), lsb_order=g.flag())


@gen('awkward_ByteMaskedArray_getitem_carry')
@errors
def _(g):
    n = g.n()
    m = g.n(lo=1)
    carry = g.carry(n, m)
    if g.bad and n:
        carry[g.r.randrange(n)] = m + g.r.randint(0, 3)
    return dict(tomask=n, frommask=g.mask('frommask', m), lenmask=m, fromcarry=carry, lencarry=n)


def _nvalid(mask, vw):
    return sum(1 for x in mask if (x != 0) == vw)


def _mask_any(g, name, n):
    # masks are 0/1; other non-zero bytes count as true in every kernel, exercised occasionally
    m = g.mask(name, n)
    if g.signed(name) and g.r.random() < 0.15:
        m = [x if x == 0 or g.r.random() < 0.5 else g.r.choice([-1, 2, 127, -128]) for x in m]
    return m


@gen('awkward_ByteMaskedArray_getitem_nextcarry')
def _(g):
    n = g.n()
    m, vw = _mask_any(g, 'mask', n), g.flag()
    return dict(tocarry=_nvalid(m, vw), mask=m, length=n, validwhen=vw)


@gen('awkward_ByteMaskedArray_getitem_nextcarry_outindex')
def _(g):
    n = g.n()
    m, vw = _mask_any(g, 'mask', n), g.flag()
    return dict(tocarry=_nvalid(m, vw), outindex=n, mask=m, length=n, validwhen=vw)


@gen('awkward_ByteMaskedArray_mask', 'awkward_ByteMaskedArray_toIndexedOptionArray')
def _(g):
    n = g.n()
    a = g.spec.args
    return {a[0].name: n, a[1].name: _mask_any(g, a[1].name, n), 'length': n, 'validwhen': g.flag()}


@gen('awkward_ByteMaskedArray_numnull')
def _(g):
    n = g.n()
    return dict(numnull=1, mask=_mask_any(g, 'mask', n), length=n, validwhen=g.flag())


@gen('awkward_ByteMaskedArray_overlay_mask')
def _(g):
    n = g.n()
    return dict(tomask=n, theirmask=g.mask('theirmask', n), mymask=_mask_any(g, 'mymask', n), length=n,
                validwhen=g.flag())


@gen('awkward_ByteMaskedArray_reduce_next_64')
def _(g):
    n = g.n()
    m, vw = _mask_any(g, 'mask', n), g.flag()
    p, _ol = g.parents(n)
    k = _nvalid(m, vw)
    return dict(nextcarry=k, nextparents=k, outindex=n, mask=m, parents=p, length=n, validwhen=vw)


@gen('awkward_ByteMaskedArray_reduce_next_nonlocal_nextshifts_64')
def _(g):
    n = g.n()
    m, vw = _mask_any(g, 'mask', n), g.flag()
    return dict(nextshifts=_nvalid(m, vw), mask=m, length=n, valid_when=vw)


@gen('awkward_ByteMaskedArray_reduce_next_nonlocal_nextshifts_fromshifts_64')
def _(g):
    n = g.n()
    m, vw = _mask_any(g, 'mask', n), g.flag()
    return dict(nextshifts=_nvalid(m, vw), mask=m, length=n, valid_when=vw, shifts=g.data('shifts', n, 0, 5))


@gen('awkward_one_mask', 'awkward_zero_mask')
def _(g):
    n = g.n()
    return dict(tomask=n, length=n)


@gen('awkward_IndexedOptionArray_rpad_and_clip_mask_axis1')
def _(g):
    n = g.n()
    return dict(toindex=n, frommask=_mask_any(g, 'frommask', n), length=n)


@gen('awkward_slicemissing_check_same')
def _(g):
    n = g.n()
    bm = g.mask('bytemask', n)
    mi = [(-1 if b else g.r.randint(0, 5)) for b in bm]
    if n and g.r.random() < 0.4:
        k = g.r.randrange(n)
        mi[k] = -1 if mi[k] >= 0 else 0
    return dict(same=1, bytemask=bm, missingindex=mi, length=n)


@gen('awkward_Content_getitem_next_missing_jagged_getmaskstartstop')
def _(g):
    n = g.n()
    ix = [(-1 if g.r.random() < 0.3 else g.r.randint(0, 9)) for _ in range(n)]
    nn = sum(1 for x in ix if x >= 0)
    return dict(index_in=ix, offsets_in=g.offsets('offsets_in', nn), mask_out=n, starts_out=n, stops_out=n, length=n)


# ====================================================================== identities
@gen('awkward_Identities32_to_Identities64')
def _(g):
    n, w = g.n(6), g.small(1, 3)
    return dict(toptr=n * w, fromptr=g.data('fromptr', n * w, 0, 20), length=n, width=w)


@gen('awkward_Identities_extend')
def _(g):
    a = g.n(6)
    b = a + g.small(0, 4)
    return dict(toptr=b, fromptr=g.data('fromptr', a, 0, 20), fromlength=a, tolength=b)


@gen('awkward_Identities_from_IndexedArray')
@errors
def _(g):
    fl, w, tl = g.n(6), g.small(1, 3), g.n(6, lo=1)
    ix = [(-1 if g.signed('fromindex') and g.r.random() < 0.2 else g.r.randint(0, tl - 1)) for _ in range(fl)]
    if g.r.random() < 0.5:       # unique targets
        perm = list(range(tl))
        g.r.shuffle(perm)
        ix = [(perm[i] if i < tl else (-1 if g.signed('fromindex') else perm[0])) for i in range(fl)]
    if g.bad and fl:
        ix[g.r.randrange(fl)] = tl + g.r.randint(0, 2)
    return dict(uniquecontents=1, toptr=tl * w, fromptr=g.data('fromptr', fl * w, 0, 20), fromindex=ix, tolength=tl,
                fromlength=fl, fromwidth=w)


@gen('awkward_Identities_from_ListArray')
@errors
def _(g):
    fl, w = g.n(5), g.small(1, 3)
    tl = g.small(1, 10)
    st, sp, _lc = g.startsstops('fromstarts', 'fromstops', fl, tl, maxc=3, gaps=g.flag())
    if g.bad and fl:
        k = g.r.randrange(fl)
        sp[k] = tl + g.r.randint(1, 3)
        st[k] = min(st[k], tl)
        # the kernel reports stop > tolength but not start > stop; keep start <= tolength so no write precedes
        st[k] = sp[k] - 0 if False else st[k]
    return dict(uniquecontents=1, toptr=tl * (w + 1), fromptr=g.data('fromptr', fl * w, 0, 20), fromstarts=st,
                fromstops=sp, tolength=tl, fromlength=fl, fromwidth=w)


@gen('awkward_Identities_from_ListOffsetArray')
@errors
def _(g):
    fl, w = g.n(5), g.small(1, 3)
    off = g.offsets('fromoffsets', fl, 3)
    tl = off[-1] + g.small(0, 3)
    if g.extreme:
        off = [x - off[0] + g.small(0, 2) for x in off]
        off = sorted(off)
        tl = off[-1] + g.small(0, 3)
    return dict(toptr=tl * (w + 1), fromptr=g.data('fromptr', fl * w, 0, 20), fromoffsets=off, tolength=tl,
                fromlength=fl, fromwidth=w)


@gen('awkward_Identities_from_RegularArray')
def _(g):
    fl, w, size = g.n(4), g.small(1, 3), g.small(0, 3)
    tl = (fl + 1) * size + g.small(0, 3)
    return dict(toptr=tl * (w + 1), fromptr=g.data('fromptr', fl * w, 0, 20), size=size, tolength=tl, fromlength=fl,
                fromwidth=w)


@gen('awkward_Identities_from_UnionArray')
@errors
def _(g):
    fl, w, tl = g.n(6), g.small(1, 3), g.n(6, lo=1)
    which = g.small(0, 2)
    tags = [g.r.randint(0, 2) for _ in range(fl)]
    ix = [g.r.randint(0, tl - 1) for _ in range(fl)]
    if g.r.random() < 0.5:
        perm = list(range(tl))
        g.r.shuffle(perm)
        ix = [perm[i % tl] for i in range(fl)]
    if g.bad and fl:
        k = g.r.randrange(fl)
        tags[k] = which
        ix[k] = tl + g.r.randint(0, 2) if (not g.signed('fromindex') or g.flag()) else -1 - g.r.randint(0, 2)
    return dict(uniquecontents=1, toptr=tl * w, fromptr=g.data('fromptr', fl * w, 0, 20), fromtags=tags, fromindex=ix,
                tolength=tl, fromlength=fl, fromwidth=w, which=which)


@gen('awkward_Identities_getitem_carry')
@errors
def _(g):
    n, w, length = g.n(6), g.small(1, 3), g.n(6, lo=1)
    carry = g.carry(n, length)
    if g.bad and n:
        carry[g.r.randrange(n)] = length + g.r.randint(0, 2)
    return dict(newidentitiesptr=n * w, identitiesptr=g.data('identitiesptr', length * w, 0, 20), carryptr=carry,
                lencarry=n, width=w, length=length)


@gen('awkward_new_Identities', 'awkward_carry_arange', 'awkward_localindex', 'awkward_content_reduce_zeroparents_64')
def _(g):
    n = g.n(12)
    return {g.spec.args[0].name: n, 'length': n}


# ====================================================================== Index / IndexedArray
@gen('awkward_Index_iscontiguous')
@extremes
def _(g):
    n = g.n()
    lo, hi = g.lohi('fromindex')
    ix = [min(i, hi) for i in range(n)]
    if n and g.r.random() < 0.4:
        ix[g.r.randrange(n)] = g.r.randint(max(lo, -2), min(hi, n + 2))
    if g.extreme:
        ix = g.data('fromindex', n)
    return dict(result=1, fromindex=ix, length=n)


@gen('awkward_Index_to_Index64')
@extremes
def _(g):
    n = g.n()
    return dict(toptr=n, fromptr=g.data('fromptr', n, -3, 30), length=n)


@gen('awkward_IndexedArray_fill')
def _(g):
    n, off = g.n(), g.small(0, 3)
    return dict(toindex=off + n, toindexoffset=off, fromindex=g.data('fromindex', n, -2, 12), length=n, base=g.small(0, 20))


@gen('awkward_IndexedArray_fill_count')
def _(g):
    n, off = g.n(), g.small(0, 3)
    return dict(toindex=off + n, toindexoffset=off, length=n, base=g.small(0, 20))


@gen('awkward_IndexedArray_flatten_nextcarry')
@errors
def _(g):
    n, lc = g.n(), g.n(8, lo=1)
    ix = g.index('fromindex', n, lc)
    k = sum(1 for x in ix if x >= 0)
    if g.bad and n:
        ix[g.r.randrange(n)] = lc + g.r.randint(0, 2)
    return dict(tocarry=k, fromindex=ix, lenindex=n, lencontent=lc)


@gen('awkward_IndexedArray_flatten_none2empty')
@errors
def _(g):
    n, nl = g.n(), g.n(6, lo=1)
    off = g.offsets('offsets', nl, 3)
    ix = g.index('outindex', n, nl)
    if g.bad and n:
        ix[g.r.randrange(n)] = nl + g.r.randint(0, 2)
    return dict(outoffsets=n + 1, outindex=ix, outindexlength=n, offsets=off, offsetslength=nl + 1)


@gen('awkward_IndexedArray_getitem_adjust_outindex')
def _(g):
    n = g.n()
    ix = [(-1 if g.r.random() < 0.3 else 0) for _ in range(n)]
    k = 0
    nz = []
    for i in range(n):
        if ix[i] >= 0:
            ix[i] = k
            if g.r.random() < 0.7:
                nz.append(k)
            k += 1
    return dict(tomask=n, toindex=n, tononzero=len(nz), fromindex=ix, fromindexlength=n, nonzero=nz, nonzerolength=len(nz))


@gen('awkward_IndexedArray_getitem_carry')
@errors
def _(g):
    n, m = g.n(), g.n(8, lo=1)
    carry = g.carry(n, m)
    if g.bad and n:
        carry[g.r.randrange(n)] = m + g.r.randint(0, 2)
    return dict(toindex=n, fromindex=g.data('fromindex', m, -1, 12), fromcarry=carry, lenindex=m, lencarry=n)


@gen('awkward_IndexedArray_getitem_nextcarry')
@errors
def _(g):
    n, lc = g.n(), g.n(8, lo=1)
    ix = g.index('fromindex', n, lc, none_p=0)
    if g.bad and n:
        ix[g.r.randrange(n)] = lc + g.r.randint(0, 2) if (g.flag() or not g.signed('fromindex')) else -1
    return dict(tocarry=n, fromindex=ix, lenindex=n, lencontent=lc)


@gen('awkward_IndexedArray_getitem_nextcarry_outindex', 'awkward_IndexedArray_getitem_nextcarry_outindex_mask')
@errors
def _(g):
    n, lc = g.n(), g.n(8, lo=1)
    ix = g.index('fromindex', n, lc)
    k = sum(1 for x in ix if x >= 0)
    if g.bad and n:
        ix[g.r.randrange(n)] = lc + g.r.randint(0, 2)
    return dict(tocarry=k, toindex=n, fromindex=ix, lenindex=n, lencontent=lc)


@gen('awkward_IndexedArray_local_preparenext_64')
def _(g):
    n = g.n()
    p, ol = g.parents(n)
    starts = g.data('starts', max(ol, 1), 0, 9)
    keep = [x for x in p if g.r.random() < 0.7]
    return dict(tocarry=n, starts=starts, parents=p, parentslength=n, nextparents=keep, nextlen=len(keep))


@gen('awkward_IndexedArray_mask')
def _(g):
    n = g.n()
    return dict(tomask=n, fromindex=g.data('fromindex', n, -2, 9), length=n)


@gen('awkward_IndexedArray_numnull')
def _(g):
    n = g.n()
    return dict(numnull=1, fromindex=g.data('fromindex', n, -2, 9), lenindex=n)


@gen('awkward_IndexedArray_index_of_nulls')
def _(g):
    n = g.n()
    p, ol = g.parents(n)
    starts = [0] * max(ol, 1)
    seen = set()
    for i, x in enumerate(p):
        if x not in seen:
            seen.add(x)
            starts[x] = i
    ix = g.data('fromindex', n, -2, 9)
    return dict(toindex=sum(1 for x in ix if x < 0), fromindex=ix, lenindex=n, parents=p, starts=starts)


@gen('awkward_IndexedArray_overlay_mask')
def _(g):
    n = g.n()
    return dict(toindex=n, mask=_mask_any(g, 'mask', n), fromindex=g.data('fromindex', n, -1, 12), length=n)


@gen('awkward_IndexedArray_reduce_next_64')
def _(g):
    n = g.n()
    ix = g.data('index', n, -2, 9)
    p, _ol = g.parents(n)
    k = sum(1 for x in ix if x >= 0)
    return dict(nextcarry=k, nextparents=k, outindex=n, index=ix, parents=p, length=n)


@gen('awkward_IndexedArray_reduce_next_fix_offsets_64')
def _(g):
    n = g.n()
    st = g.offsets('starts', n, 3, base=0)[:-1]
    return dict(outoffsets=n + 1, starts=st, startslength=n, outindexlength=(st[-1] if st else 0) + g.small(0, 3))


@gen('awkward_IndexedArray_reduce_next_nonlocal_nextshifts_64')
def _(g):
    n = g.n()
    ix = g.data('index', n, -2, 9)
    return dict(nextshifts=sum(1 for x in ix if x >= 0), index=ix, length=n)


@gen('awkward_IndexedArray_reduce_next_nonlocal_nextshifts_fromshifts_64')
def _(g):
    n = g.n()
    ix = g.data('index', n, -2, 9)
    return dict(nextshifts=sum(1 for x in ix if x >= 0), index=ix, length=n, shifts=g.data('shifts', n, 0, 5))


@gen('awkward_IndexedArray_simplify')
@errors
def _(g):
    n, m = g.n(), g.n(8, lo=1)
    outer = g.index('outerindex', n, m)
    if g.bad and n:
        outer[g.r.randrange(n)] = m + g.r.randint(0, 2)
    return dict(toindex=n, outerindex=outer, outerlength=n, innerindex=g.data('innerindex', m, -1, 12), innerlength=m)


@gen('awkward_IndexedArray_validity')
@errors
def _(g):
    n, lc = g.n(), g.n(8)
    lo, hi = g.lohi('index')
    if g.bad:
        ix = [g.r.randint(max(lo, -2), lc + 1) for _ in range(n)]
    else:
        ix = [g.r.randint(0, lc - 1) if lc else (-1 if lo < 0 else None) for _ in range(n)]
        if None in ix:
            ix, n = [], 0
    isopt = g.flag()
    if isopt and lo < 0:
        ix = [(-1 - g.r.randint(0, 1) if g.r.random() < 0.3 else x) for x in ix]
    return dict(index=ix, length=n, lencontent=lc, isoption=isopt)


def _ranges(g):
    n = g.n(5)
    st, sp, lc = g.startsstops('fromstarts', 'fromstops', n, g.small(0, 10), maxc=3)
    ix = g.data('index', lc, -2, 9)
    return n, st, sp, ix


@gen('awkward_IndexedArray_ranges_next_64')
def _(g):
    n, st, sp, ix = _ranges(g)
    return dict(index=ix, fromstarts=st, fromstops=sp, length=n, tostarts=n, tostops=n, tolength=1)


@gen('awkward_IndexedArray_ranges_carry_next_64')
def _(g):
    n, st, sp, ix = _ranges(g)
    k = sum(1 for a, b in zip(st, sp) for j in range(a, b) if ix[j] >= 0)
    return dict(index=ix, fromstarts=st, fromstops=sp, length=n, tocarry=k)


@gen('awkward_index_carry')
@errors
def _(g):
    n, m = g.n(), g.n(8, lo=1)
    carry = g.carry(n, m)
    if g.bad and n:
        carry[g.r.randrange(n)] = m + g.r.randint(1, 3)      # the kernel reports j > len (j == len is not detected)
    return dict(toindex=n, fromindex=g.data('fromindex', m, -1, 12), carry=carry, lenfromindex=m, length=n)


@gen('awkward_index_carry_nocheck')
def _(g):
    n, m = g.n(), g.n(8, lo=1)
    return dict(toindex=n, fromindex=g.data('fromindex', m, -1, 12), carry=g.carry(n, m), length=n)


@gen('awkward_Index_nones_as_index')
def _(g):
    n = g.n()
    return dict(toindex=g.data('toindex', n, -1, 9), length=n)


@gen('awkward_missing_repeat')
def _(g):
    n, rep = g.n(6), g.small(0, 3)
    return dict(outindex=n * rep, index=g.data('index', n, -1, 9), indexlength=n, repetitions=rep, regularsize=g.small(0, 5))


@gen('awkward_index_rpad_and_clip_axis0')
def _(g):
    t = g.n(8)
    return dict(toindex=t, target=t, length=g.n(8))


@gen('awkward_index_rpad_and_clip_axis1')
def _(g):
    n = g.n()
    return dict(tostarts=n, tostops=n, target=g.small(0, 6), length=n)


@gen('awkward_carry_SliceMissing64_outindex')
def _(g):
    n = g.n()
    return dict(toindex=n, fromindex=g.data('fromindex', n, -2, 9), length=n)


# ====================================================================== ListArray / ListOffsetArray
def _ss(g, n=None, lc=None, maxc=4, sn='fromstarts', pn='fromstops'):
    if n is None:
        n = g.n()
    st, sp, lc = g.startsstops(sn, pn, n, lc, maxc)
    return n, st, sp, lc


@gen('awkward_ListArray_num')
@extremes
def _(g):
    n, st, sp, lc = _ss(g)
    if g.extreme:
        st, sp = g.shift_extreme(['fromstarts', 'fromstops'], [st, sp])
    return dict(tonum=n, fromstarts=st, fromstops=sp, length=n)


@gen('awkward_ListArray_compact_offsets')
@errors
@extremes
def _(g):
    n, st, sp, lc = _ss(g)
    if g.extreme:
        st, sp = g.shift_extreme(['fromstarts', 'fromstops'], [st, sp])
    if g.bad and n:
        k = g.r.randrange(n)
        st[k], sp[k] = sp[k] + 1, st[k]
    return dict(tooffsets=n + 1, fromstarts=st, fromstops=sp, length=n)


@gen('awkward_ListArray_min_range')
@extremes
def _(g):
    n, st, sp, lc = _ss(g, g.n(8, lo=1))
    if g.extreme:
        st, sp = g.shift_extreme(['fromstarts', 'fromstops'], [st, sp])
    return dict(tomin=1, fromstarts=st, fromstops=sp, lenstarts=n)


@gen('awkward_ListArray_rpad_and_clip_length_axis1')
@extremes
def _(g):
    n, st, sp, lc = _ss(g)
    if g.extreme:
        st, sp = g.shift_extreme(['fromstarts', 'fromstops'], [st, sp])
    return dict(tomin=1, fromstarts=st, fromstops=sp, target=g.small(0, 6), lenstarts=n)


@gen('awkward_ListArray_rpad_axis1')
def _(g):
    n, st, sp, lc = _ss(g, g.n(6))
    t = g.small(0, 6)
    tot = sum(max(t, b - a) for a, b in zip(st, sp))
    return dict(toindex=tot, fromstarts=st, fromstops=sp, tostarts=n, tostops=n, target=t, length=n)


@gen('awkward_ListArray_validity')
@errors
def _(g):
    n, st, sp, lc = _ss(g)
    if g.bad and n:
        k = g.r.randrange(n)
        c = g.r.randint(0, 2)
        if c == 0:
            st[k], sp[k] = sp[k] + 1, st[k]
        elif c == 1 and g.signed('starts'):
            st[k] = -1 - g.r.randint(0, 2)
            sp[k] = max(sp[k], 0)
        else:
            sp[k] = lc + g.r.randint(1, 3)
    return dict(starts=st, stops=sp, length=n, lencontent=lc)


@gen('awkward_ListArray_fill')
def _(g):
    n, st, sp, lc = _ss(g)
    o1, o2 = g.small(0, 3), g.small(0, 3)
    return dict(tostarts=o1 + n, tostartsoffset=o1, tostops=o2 + n, tostopsoffset=o2, fromstarts=st, fromstops=sp,
                length=n, base=g.small(0, 20))


@gen('awkward_ListArray_getitem_carry')
@errors
def _(g):
    m, st, sp, lc = _ss(g, g.n(8, lo=1))
    n = g.n()
    carry = g.carry(n, m)
    if g.bad and n:
        carry[g.r.randrange(n)] = m + g.r.randint(0, 2)
    return dict(tostarts=n, tostops=n, fromstarts=st, fromstops=sp, fromcarry=carry, lenstarts=m, lencarry=n)


@gen('awkward_ListArray_broadcast_tooffsets')
@errors
def _(g):
    n = g.n(6)
    off = g.offsets('fromoffsets', n, 3)
    lc = g.small(0, 4) + max([0] + [b - a for a, b in zip(off, off[1:])]) + g.small(0, 6)
    st, sp = [], []
    for a, b in zip(off, off[1:]):
        c = b - a
        s = g.r.randint(0, lc - c)
        if c == 0 and g.r.random() < 0.3:
            s = lc + g.r.randint(1, 5)          # an empty list beyond the content is legal
        st.append(s)
        sp.append(s + c)
    if g.bad and n:
        k = g.r.randrange(n)
        c = g.r.randint(0, 2)
        if c == 0:
            sp[k] += 1 + (lc if g.flag() else 0)
        elif c == 1:
            off = off[:k + 1] + [x - (off[k + 1] - off[k]) - 1 for x in off[k + 1:]]
        else:
            st[k] += 1
            sp[k] += 1 if sp[k] - st[k] > 0 else 2
    tot = sum(max(0, b - a) for a, b in zip(st, sp))
    return dict(tocarry=tot, fromoffsets=off, offsetslength=n + 1, fromstarts=st, fromstops=sp, lencontent=lc)


def _ncomb(size, n, repl):
    if repl:
        size += n - 1
    if n > size:
        return 0
    r = 1
    for j in range(1, n + 1):
        r = r * (size - j + 1) // j
    return r


@gen('awkward_ListArray_combinations_length')
def _(g):
    n, st, sp, lc = _ss(g, g.n(5), maxc=5, sn='starts', pn='stops')
    k = g.small(0, 4)
    return dict(totallen=1, tooffsets=n + 1, n=k, replacement=g.flag(), starts=st, stops=sp, length=n)


@gen('awkward_ListArray_combinations')
def _(g):
    n, st, sp, lc = _ss(g, g.n(4), maxc=4, sn='starts', pn='stops')
    k = g.small(1, 4)
    repl = g.flag()
    tot = sum(_ncomb(b - a, k, repl) for a, b in zip(st, sp))
    return dict(tocarry=[[K.SENT['int64_t']] * tot for _ in range(k)], toindex=k, fromindex=[0] * k, n=k,
                replacement=repl, starts=st, stops=sp, length=n)


@gen('awkward_RegularArray_combinations_64')
def _(g):
    length, size = g.n(4), g.small(0, 5)
    k = g.small(1, 4)
    repl = g.flag()
    tot = length * _ncomb(size, k, repl)
    return dict(tocarry=[[K.SENT['int64_t']] * tot for _ in range(k)], toindex=k, fromindex=[0] * k, n=k,
                replacement=repl, size=size, length=length)


@gen('awkward_combinations')
@errors
def _(g):
    return dict(toindex=g.small(0, 3), n=g.small(0, 3), replacement=g.flag(), singlelen=g.small(0, 5))


@gen('awkward_ListArray_getitem_jagged_apply')
@errors
def _(g):
    n = g.n(5)
    fst, fsp, lc = g.startsstops('fromstarts', 'fromstops', n, g.small(1, 10), maxc=4)
    soff = [0]
    six = []
    for a, b in zip(fst, fsp):
        c = b - a
        m = 0 if c == 0 else g.small(0, 3)
        soff.append(soff[-1] + m)
        six += [g.r.randint(-c, c - 1) for _ in range(m)]
    pad = g.small(0, 2)
    six += [0] * pad
    sst, ssp = soff[:-1], soff[1:]
    inner = len(six)
    if g.bad and n:
        k = g.r.randrange(n)
        c = g.r.randint(0, 3)
        if c == 0 and ssp[k] > sst[k]:
            six[sst[k]] = (fsp[k] - fst[k]) + g.r.randint(0, 2)
        elif c == 1:
            sst[k], ssp[k] = ssp[k] + 1, sst[k]
        elif c == 2:
            ssp[k] = inner + 1 + g.r.randint(0, 2)
        else:
            if ssp[k] == sst[k]:
                sst[k], ssp[k] = 0, min(1, inner)
            fsp[k] = lc + 1 + g.r.randint(0, 2)
    return dict(tooffsets=n + 1, tocarry=max(0, soff[-1]) + 4 if g.bad else soff[-1], slicestarts=sst, slicestops=ssp,
                sliceouterlen=n, sliceindex=six, sliceinnerlen=inner, fromstarts=fst, fromstops=fsp, contentlen=lc)


@gen('awkward_ListArray_getitem_jagged_carrylen')
def _(g):
    n = g.n()
    off = g.offsets('slicestarts', n, 3)
    return dict(carrylen=1, slicestarts=off[:-1], slicestops=off[1:], sliceouterlen=n)


@gen('awkward_ListArray_getitem_jagged_descend')
@errors
def _(g):
    n = g.n()
    off = g.offsets('slicestarts', n, 3)
    fst, fsp = [], []
    for a, b in zip(off, off[1:]):
        s = g.small(0, 5)
        fst.append(s)
        fsp.append(s + b - a)
    if g.bad and n:
        fsp[g.r.randrange(n)] += 1
    return dict(tooffsets=n + 1, slicestarts=off[:-1], slicestops=off[1:], sliceouterlen=n, fromstarts=fst, fromstops=fsp)


@gen('awkward_ListArray_getitem_jagged_expand')
@errors
def _(g):
    n, js = g.n(5), g.small(0, 4)
    so = g.offsets('singleoffsets', js, 3)
    st = [g.small(0, 6) for _ in range(n)]
    sp = [s + js for s in st]
    if g.bad and n:
        k = g.r.randrange(n)
        if g.flag():
            sp[k] += 1
        else:
            st[k], sp[k] = sp[k] + 1, st[k]
    return dict(multistarts=n * js, multistops=n * js, singleoffsets=so, tocarry=n * js, fromstarts=st, fromstops=sp,
                jaggedsize=js, length=n)


@gen('awkward_ListArray_getitem_jagged_numvalid')
@errors
def _(g):
    n = g.n()
    off = g.offsets('slicestarts', n, 3, base=0)
    ml = off[-1] + g.small(0, 2)
    st, sp = off[:-1], off[1:]
    if g.bad and n:
        k = g.r.randrange(n)
        if g.flag():
            st[k], sp[k] = sp[k] + 1, st[k]
        else:
            sp[k] = ml + 1 + g.small(0, 2)
    return dict(numvalid=1, slicestarts=st, slicestops=sp, length=n, missing=g.data('missing', ml, -1, 5), missinglength=ml)


@gen('awkward_ListArray_getitem_jagged_shrink')
def _(g):
    n = g.n()
    off = g.offsets('slicestarts', n, 3)
    miss = g.data('missing', off[-1], -1, 5)
    k = sum(1 for j in range(off[0], off[-1]) if miss[j] >= 0)
    return dict(tocarry=k, tosmalloffsets=n + 1, tolargeoffsets=n + 1, slicestarts=off[:-1], slicestops=off[1:],
                length=n, missing=miss)


def _nextarray_lists(g, nonempty):
    n = g.n(5)
    lc = g.small(1, 10)
    st, sp = [], []
    for _ in range(n):
        c = g.r.randint(1 if nonempty else 0, min(4, lc))
        s = g.r.randint(0, lc - c)
        st.append(s)
        sp.append(s + c)
    return n, st, sp, lc


@gen('awkward_ListArray_getitem_next_array')
@errors
def _(g):
    la = g.n(4)
    n, st, sp, lc = _nextarray_lists(g, la > 0)
    mn = min([b - a for a, b in zip(st, sp)] + [4])
    arr = [g.r.randint(-mn, mn - 1) for _ in range(la)] if mn > 0 else []
    la = len(arr)
    if g.bad and n:
        k = g.r.randrange(n)
        c = g.r.randint(0, 2)
        if c == 0 and la:
            arr[g.r.randrange(la)] = mn + 3 + g.small(0, 2)
        elif c == 1:
            st[k], sp[k] = sp[k] + 1, st[k]
        else:
            sp[k] = lc + 1 + g.small(0, 2)
    return dict(tocarry=n * la, toadvanced=n * la, fromstarts=st, fromstops=sp, fromarray=arr, lenstarts=n, lenarray=la,
                lencontent=lc)


@gen('awkward_ListArray_getitem_next_array_advanced')
@errors
def _(g):
    n, st, sp, lc = _nextarray_lists(g, True)
    la = g.n(4, lo=1)
    adv = [g.r.randrange(la) for _ in range(n)]
    arr = [0] * la
    mn = min([b - a for a, b in zip(st, sp)] + [4])
    arr = [g.r.randint(-mn, mn - 1) for _ in range(la)]
    if g.bad and n:
        k = g.r.randrange(n)
        c = g.r.randint(0, 2)
        if c == 0:
            arr[adv[k]] = 7 + g.small(0, 2)
        elif c == 1:
            st[k], sp[k] = sp[k] + 1, st[k]
        else:
            sp[k] = lc + 1 + g.small(0, 2)
    return dict(tocarry=n, toadvanced=n, fromstarts=st, fromstops=sp, fromarray=arr, fromadvanced=adv, lenstarts=n,
                lenarray=la, lencontent=lc)


@gen('awkward_ListArray_getitem_next_at')
@errors
def _(g):
    n, st, sp, lc = _nextarray_lists(g, True)
    mn = min([b - a for a, b in zip(st, sp)] + [4])
    at = g.r.randint(-mn, mn - 1)
    if g.bad:
        at = g.r.choice([mn + 3, -mn - 4, 9])
    return dict(tocarry=n, fromstarts=st, fromstops=sp, lenstarts=n, at=at)


def regularize_rangeslice(start, stop, posstep, hasstart, hasstop, length):
    """reference transcription used only to size buffers (kernel-utils.cpp: awkward_regularize_rangeslice)"""
    if posstep:
        if not hasstart:
            start = 0
        elif start < 0:
            start += length
        if start < 0:
            start = 0
        if start > length:
            start = length
        if not hasstop:
            stop = length
        elif stop < 0:
            stop += length
        if stop < 0:
            stop = 0
        if stop > length:
            stop = length
        if stop < start:
            stop = start
    else:
        if not hasstart:
            start = length - 1
        elif start < 0:
            start += length
        if start < -1:
            start = -1
        if start > length - 1:
            start = length - 1
        if not hasstop:
            stop = -1
        elif stop < 0:
            stop += length
        if stop < -1:
            stop = -1
        if stop > length - 1:
            stop = length - 1
        if stop > start:
            stop = start
    return start, stop


def _range_args(g):
    n, st, sp, lc = _ss(g, g.n(5))
    step = g.r.choice([1, 1, 2, 3, -1, -1, -2, 5])
    start = K.kSliceNone if g.r.random() < 0.25 else g.r.randint(-7, 7)
    stop = K.kSliceNone if g.r.random() < 0.25 else g.r.randint(-7, 7)
    tot = 0
    for a, b in zip(st, sp):
        s, e = regularize_rangeslice(start, stop, step > 0, start != K.kSliceNone, stop != K.kSliceNone, b - a)
        tot += len(range(s, e, step))
    return n, st, sp, start, stop, step, tot


@gen('awkward_ListArray_getitem_next_range')
def _(g):
    n, st, sp, start, stop, step, tot = _range_args(g)
    return dict(tooffsets=n + 1, tocarry=tot, fromstarts=st, fromstops=sp, lenstarts=n, start=start, stop=stop, step=step)


@gen('awkward_ListArray_getitem_next_range_carrylength')
def _(g):
    n, st, sp, start, stop, step, tot = _range_args(g)
    return dict(carrylength=1, fromstarts=st, fromstops=sp, lenstarts=n, start=start, stop=stop, step=step)


@gen('awkward_ListArray_getitem_next_range_counts')
@extremes
def _(g):
    n = g.n()
    return dict(total=1, fromoffsets=g.offsets('fromoffsets', n), lenstarts=n)


@gen('awkward_ListArray_getitem_next_range_spreadadvanced')
def _(g):
    n = g.n()
    off = g.offsets('fromoffsets', n, 3, base=0)
    return dict(toadvanced=off[-1], fromadvanced=g.data('fromadvanced', n, 0, 9), fromoffsets=off, lenstarts=n)


@gen('awkward_ListArray_localindex')
def _(g):
    n = g.n()
    off = g.offsets('offsets', n, 4)
    if g.extreme:
        off = [x - off[0] for x in off]
    return dict(toindex=off[-1], offsets=off, length=n)


@gen('awkward_ListOffsetArray_compact_offsets')
@extremes
def _(g):
    n = g.n()
    return dict(tooffsets=n + 1, fromoffsets=g.offsets('fromoffsets', n), length=n)


@gen('awkward_ListOffsetArray_flatten_offsets')
def _(g):
    n, m = g.n(), g.n()
    inner = g.offsets('inneroffsets', m, 3)
    outer = g.offsets('outeroffsets', n, 2, base=0)
    outer = [min(x, m) for x in outer]
    return dict(tooffsets=n + 1, outeroffsets=outer, outeroffsetslen=n + 1, inneroffsets=inner, inneroffsetslen=m + 1)


@gen('awkward_ListOffsetArray_getitem_adjust_offsets')
def _(g):
    n = g.n()
    off = g.offsets('fromoffsets', n, 3)
    nz = sorted(x for x in range(off[0], off[-1]) if g.r.random() < 0.6)
    return dict(tooffsets=n + 1, tononzero=len(nz), fromoffsets=off, length=n, nonzero=nz, nonzerolength=len(nz))


@gen('awkward_ListOffsetArray_getitem_adjust_offsets_index')
def _(g):
    n = g.n(5)
    off = g.offsets('fromoffsets', n, 3)
    ml = off[-1] + g.small(0, 2)
    om = g.mask('originalmask', ml)
    nz = sorted(x for x in range(off[0], off[-1]) if not om[x] and g.r.random() < 0.7)
    # index: for each position of the content range, -1 where masked, running count into nonzero otherwise
    ix, k = [], 0
    for x in range(off[0], off[-1]):
        if om[x]:
            ix.append(-1)
        elif k < len(nz) and nz[k] == x:
            ix.append(k)
            k += 1
    return dict(tooffsets=n + 1, tononzero=len(nz), fromoffsets=off, length=n, index=ix, indexlength=len(ix), nonzero=nz,
                nonzerolength=len(nz), originalmask=om, masklength=ml)


@gen('awkward_ListOffsetArray_local_preparenext_64')
def _(g):
    n = g.n()
    v = list(range(n))
    g.r.shuffle(v)             # distinct keys: std::sort's order is then determined
    return dict(tocarry=n, fromindex=v, length=n)


@gen('awkward_ListOffsetArray_rpad_and_clip_axis1')
def _(g):
    n, t = g.n(6), g.small(0, 6)
    return dict(toindex=n * t, fromoffsets=g.offsets('fromoffsets', n), length=n, target=t)


@gen('awkward_ListOffsetArray_rpad_axis1')
def _(g):
    n, t = g.n(6), g.small(0, 6)
    off = g.offsets('fromoffsets', n)
    tot = sum(max(t, b - a) for a, b in zip(off, off[1:]))
    return dict(toindex=tot, fromoffsets=off, fromlength=n, target=t)


@gen('awkward_ListOffsetArray_rpad_length_axis1')
def _(g):
    n, t = g.n(6), g.small(0, 6)
    return dict(tooffsets=n + 1, fromoffsets=g.offsets('fromoffsets', n), fromlength=n, target=t, tolength=1)


@gen('awkward_ListOffsetArray_toRegularArray')
@errors
@extremes
def _(g):
    n = g.n()
    off = g.offsets('fromoffsets', n, regular=g.small(0, 4))
    if g.bad and n >= 1:
        k = g.r.randrange(1, n + 1)
        d = g.r.choice([1, -1, -6])
        off = off[:k] + [x + d for x in off[k:]]
        lo, hi = g.lohi('fromoffsets')
        off = [min(max(x, lo), hi) for x in off]
    return dict(size=1, fromoffsets=off, offsetslength=n + 1)


@gen('awkward_MaskedArray_getitem_next_jagged_project')
def _(g):
    n = g.n()
    ix = g.data('index', n, -2, 5)
    off = g.offsets('starts_in', n, 3)
    k = sum(1 for x in ix if x >= 0)
    return dict(index=ix, starts_in=off[:-1], stops_in=off[1:], starts_out=k, stops_out=k, length=n)


@gen('awkward_SliceVarNewAxis_to_SliceJagged64')
def _(g):
    n = g.n()
    off = g.offsets('fromoffsets', n, 3)
    return dict(tocarry=off[-1], fromoffsets=off, length=n)


@gen('awkward_carry_SliceJagged64_offsets')
def _(g):
    m, n = g.n(6, lo=1), g.n()
    off = g.offsets('fromoffsets', m, 3)
    return dict(tooffsets=n + 1, fromoffsets=off, fromcarry=g.carry(n, m), carrylen=n)


@gen('awkward_carry_SliceJagged64_nextcarry')
def _(g):
    m, n = g.n(6, lo=1), g.n()
    off = g.offsets('fromoffsets', m, 3)
    carry = g.carry(n, m)
    return dict(tocarry=sum(off[c + 1] - off[c] for c in carry), fromoffsets=off, fromcarry=carry, carrylen=n)


# ====================================================================== reducers (structure)
@gen('awkward_ListOffsetArray_reduce_global_startstop_64')
def _(g):
    n = g.n()
    return dict(globalstart=1, globalstop=1, offsets=g.offsets('offsets', n), length=n)


@gen('awkward_ListOffsetArray_reduce_local_nextparents_64')
def _(g):
    n = g.n()
    off = g.offsets('offsets', n)
    return dict(nextparents=off[-1] - off[0], offsets=off, length=n)


@gen('awkward_ListOffsetArray_reduce_local_outoffsets_64')
def _(g):
    n = g.n()
    p, ol = g.parents(n)
    return dict(outoffsets=ol + 1, parents=p, lenparents=n, outlength=ol)


@gen('awkward_ListOffsetArray_reduce_nonlocal_findgaps_64')
def _(g):
    n = g.n()
    p, ol = g.parents(n)
    return dict(gaps=len(set(p)), parents=p, lenparents=n)


@gen('awkward_ListOffsetArray_reduce_nonlocal_maxcount_offsetscopy_64')
def _(g):
    n = g.n()
    return dict(maxcount=1, offsetscopy=n + 1, offsets=g.offsets('offsets', n), length=n)


def _nonlocal(g):
    """coherent state of the non-local reduce pipeline (ListOffsetArray::reduce_next)"""
    n = g.n(6)
    off = g.offsets('offsets', n, 3)
    p, ol = g.parents(n, maxgap=1)
    maxcount = max([0] + [b - a for a, b in zip(off, off[1:])])
    nextlen = off[-1] - off[0]
    # preparenext (transcribed to obtain consistent downstream inputs)
    oc = list(off)
    nextcarry, nextparents = [], []
    distincts = [-1] * (maxcount * ol)
    k = 0
    while k < nextlen:
        j = 0
        for i in range(n):
            if oc[i] < off[i + 1]:
                diff = oc[i] - off[i]
                nextcarry.append(oc[i])
                np_ = p[i] * maxcount + diff
                nextparents.append(np_)
                if distincts[np_] == -1:
                    distincts[np_] = j
                    j += 1
                k += 1
                oc[i] += 1
    return n, off, p, ol, maxcount, nextlen, nextcarry, nextparents, distincts


@gen('awkward_ListOffsetArray_reduce_nonlocal_preparenext_64')
def _(g):
    n, off, p, ol, mc, nl, nc, npar, dist = _nonlocal(g)
    return dict(nextcarry=nl, nextparents=nl, nextlen=nl, maxnextparents=1, distincts=mc * ol, distinctslen=mc * ol,
                offsetscopy=list(off), offsets=off, length=n, parents=p, maxcount=mc)


@gen('awkward_ListOffsetArray_reduce_nonlocal_nextstarts_64')
def _(g):
    n, off, p, ol, mc, nl, nc, npar, dist = _nonlocal(g)
    snp = sorted(npar)
    return dict(nextstarts=mc * ol, nextparents=snp, nextlen=nl)


@gen('awkward_ListOffsetArray_reduce_nonlocal_nextshifts_64')
def _(g):
    n, off, p, ol, mc, nl, nc, npar, dist = _nonlocal(g)
    starts = [0] * max(ol, 1)
    seen = set()
    for i, x in enumerate(p):
        if x not in seen:
            seen.add(x)
            starts[x] = i
    return dict(nummissing=mc, missing=off[-1], nextshifts=nl, offsets=off, length=n, starts=starts, parents=p,
                maxcount=mc, nextlen=nl, nextcarry=nc)


@gen('awkward_ListOffsetArray_reduce_nonlocal_outstartsstops_64')
def _(g):
    n, off, p, ol, mc, nl, nc, npar, dist = _nonlocal(g)
    gaps, last = [], -1
    for x in p:
        if last < x:
            gaps.append(x - last)
            last = x
    return dict(outstarts=ol, outstops=ol, distincts=dist, lendistincts=len(dist), gaps=gaps + [0], outlength=ol)


@gen('awkward_NumpyArray_reduce_adjust_starts_64')
def _(g):
    n = g.n()
    p, ol = g.parents(n)
    starts = g.data('starts', max(ol, 1), 0, 5)
    top = [(-1 if g.r.random() < 0.3 or n == 0 else g.r.randrange(n)) for _ in range(ol)]
    return dict(toptr=top, outlength=ol, parents=p, starts=starts)


@gen('awkward_NumpyArray_reduce_adjust_starts_shifts_64')
def _(g):
    n = g.n()
    p, ol = g.parents(n)
    starts = g.data('starts', max(ol, 1), 0, 5)
    top = [(-1 if g.r.random() < 0.3 or n == 0 else g.r.randrange(n)) for _ in range(ol)]
    return dict(toptr=top, outlength=ol, parents=p, starts=starts, shifts=g.data('shifts', n, 0, 4))


@gen('awkward_NumpyArray_reduce_mask_ByteMaskedArray_64')
def _(g):
    n = g.n()
    p, ol = g.parents(n)
    return dict(toptr=ol, parents=p, lenparents=n, outlength=ol)


@gen('awkward_sorting_ranges')
def _(g):
    n = g.n()
    p, ol = g.parents(n)
    if g.flag():
        p = g.data('parents', n, 0, 3)
    tl = 2 + sum(1 for i in range(1, n) if p[i - 1] != p[i])
    return dict(toindex=tl, tolength=tl, parents=p, parentslength=n)


@gen('awkward_sorting_ranges_length')
def _(g):
    n = g.n()
    p, ol = g.parents(n)
    if g.flag():
        p = g.data('parents', n, 0, 3)
    return dict(tolength=1, parents=p, parentslength=n)


# ====================================================================== reducers (values)
def _red(g, complex_=False):
    n = g.n()
    p, ol = g.parents(n)
    return n, p, ol


@gen('awkward_reduce_count_64')
def _(g):
    n, p, ol = _red(g)
    return dict(toptr=ol, parents=p, lenparents=n, outlength=ol)


@gen('awkward_reduce_countnonzero', 'awkward_reduce_sum_bool', 'awkward_reduce_prod_bool',
     'awkward_reduce_sum_int32_bool_64', 'awkward_reduce_sum_int64_bool_64', 'awkward_reduce_prod_int32_bool_64',
     'awkward_reduce_prod_int64_bool_64', 'awkward_reduce_argmax', 'awkward_reduce_argmin',
     'awkward_reduce_argmax_bool_64', 'awkward_reduce_argmin_bool_64')
@extremes
def _(g):
    n, p, ol = _red(g)
    return dict(toptr=ol, fromptr=g.data('fromptr', n, -3, 3), parents=p, lenparents=n, outlength=ol)


@gen('awkward_reduce_sum', 'awkward_reduce_prod')
@extremes
def _(g):
    n, p, ol = _red(g)
    d = g.data('fromptr', n, -4, 4)
    if g.extreme and g.T('toptr')[0] is not None and g.T('toptr')[0] < 0:
        # signed accumulator: overflow is undefined behaviour in C; keep at most one extreme value per group
        tlo, thi, kind = g.T('fromptr')
        seen = set()
        for i in range(n):
            big = abs(d[i]) > 100
            if big and (p[i] in seen or g.spec.kernel.name.endswith('prod')):
                d[i] = g.r.randint(max(tlo, -2), 2)
            elif big:
                seen.add(p[i])
        if g.spec.kernel.name.endswith('sum'):
            for i in range(n):
                if p[i] in seen and abs(d[i]) <= 100:
                    d[i] = 0
    return dict(toptr=ol, fromptr=d, parents=p, lenparents=n, outlength=ol)


@gen('awkward_reduce_max', 'awkward_reduce_min')
@extremes
def _(g):
    n, p, ol = _red(g)
    lo, hi, kind = g.T('identity')
    if kind == 'f':
        ident = -INF if g.spec.kernel.name.endswith('max') else INF
        if g.flag():
            ident = float(g.small(-3, 3))
    else:
        ident = lo if g.spec.kernel.name.endswith('max') else hi
        if g.flag():
            ident = g.clip('identity', g.small(-3, 3))
    return dict(toptr=ol, fromptr=g.data('fromptr', n, -9, 9), parents=p, lenparents=n, outlength=ol, identity=ident)


@gen('awkward_reduce_sum_complex', 'awkward_reduce_prod_complex')
def _(g):
    n, p, ol = _red(g)
    return dict(toptr=2 * ol, fromptr=g.data('fromptr', 2 * n, -3, 3), parents=p, lenparents=n, outlength=ol)


@gen('awkward_reduce_max_complex', 'awkward_reduce_min_complex')
def _(g):
    n, p, ol = _red(g)
    ident = -INF if g.spec.kernel.name.endswith('max_complex') else INF
    if g.flag():
        ident = -100.0 if g.spec.kernel.name.endswith('max_complex') else 100.0
    return dict(toptr=2 * ol, fromptr=g.data('fromptr', 2 * n, -3, 3), parents=p, lenparents=n, outlength=ol, identity=ident)


@gen('awkward_reduce_argmax_complex', 'awkward_reduce_argmin_complex', 'awkward_reduce_countnonzero_complex',
     'awkward_reduce_sum_bool_complex', 'awkward_reduce_prod_bool_complex')
def _(g):
    n, p, ol = _red(g)
    return dict(toptr=ol, fromptr=g.data('fromptr', 2 * n, -2, 2), parents=p, lenparents=n, outlength=ol)


# ====================================================================== NumpyArray
@gen('awkward_NumpyArray_copy')
def _(g):
    n = g.n(16)
    return dict(toptr=n, fromptr=g.data('fromptr', n, 0, 255), len=n)


@gen('awkward_NumpyArray_contiguous_copy')
def _(g):
    n, stride = g.n(6), g.small(1, 4)
    m = g.small(stride, 24)
    return dict(toptr=n * stride, fromptr=g.data('fromptr', m, 0, 255), len=n, stride=stride,
                pos=[g.r.randint(0, m - stride) for _ in range(n)])


@gen('awkward_NumpyArray_getitem_next_null')
def _(g):
    n, stride = g.n(6), g.small(1, 4)
    m = g.small(1, 6)
    return dict(toptr=n * stride, fromptr=g.data('fromptr', m * stride, 0, 255), len=n, stride=stride,
                pos=[g.r.randrange(m) for _ in range(n)])


@gen('awkward_NumpyArray_contiguous_copy_from_many')
def _(g):
    k, stride = g.small(1, 3), g.small(1, 3)
    lens = [g.small(1, 4) for _ in range(k)]
    rows, pos = [], []
    for L in lens:
        m = g.small(stride, 12)
        rows.append(g.data('fromptrs', m, 0, 255))
        pos.append([g.r.randint(0, m - stride) for _ in range(L)])
    n = sum(lens)
    # pos is indexed by j (restarting at 0 for every source), so all sources share one pos table
    L = max(lens)
    mm = min(len(r) for r in rows)
    shared = [g.r.randint(0, mm - stride) for _ in range(L)]
    return dict(toptr=n * stride, fromptrs=rows + [[0]], fromlens=lens + [1], len=n, stride=stride, pos=shared)


@gen('awkward_NumpyArray_contiguous_init')
def _(g):
    n = g.n()
    return dict(toptr=n, skip=n, stride=g.small(-3, 9))


@gen('awkward_NumpyArray_contiguous_next')
def _(g):
    n, skip = g.n(6), g.small(0, 4)
    return dict(topos=n * skip, frompos=g.data('frompos', n, 0, 30), length=n, skip=skip, stride=g.small(-3, 9))


@gen('awkward_NumpyArray_fill', 'awkward_NumpyArray_fill_frombool', 'awkward_NumpyArray_fill_tobool')
@extremes
def _(g):
    n, off = g.n(), g.small(0, 3)
    d = g.data('fromptr', n, -9, 9)
    tlo, thi, tk = g.T('toptr')
    flo, fhi, fk = g.T('fromptr')
    if fk == 'f' and tk != 'f':
        # float -> integer conversion is defined only when the truncated value is representable
        d = [x for x in d if tk == 'b' or (tlo <= x <= thi)]
        n = len(d)
    return dict(toptr=off + n, tooffset=off, fromptr=d, length=n)


@gen('awkward_NumpyArray_fill_tocomplex')
@extremes
def _(g):
    n = g.n()
    off = 2 * g.small(0, 2)
    return dict(toptr=off + 2 * n, tooffset=off, fromptr=g.data('fromptr', n, -9, 9), length=n)


@gen('awkward_NumpyArray_fill_fromcomplex')
def _(g):
    n, off = g.n(), g.small(0, 3)
    d = g.data('fromptr', 2 * n, -9, 9)
    tlo, thi, tk = g.T('toptr')
    if tk == 'u':
        d = [abs(x) for x in d]
    return dict(toptr=off + n, tooffset=off, fromptr=d, length=n)


@gen('awkward_NumpyArray_fill_scaled')
def _(g):
    n, off = g.n(), g.small(0, 3)
    return dict(toptr=off + n, tooffset=off, fromptr=g.data('fromptr', n, -99, 99), length=n,
                scale=g.r.choice([1.0, 2.0, 0.5, 1000.0, -3.0, 0.25]))


@gen('awkward_NumpyArray_rearrange_shifted')
def _(g):
    n = g.n(6)
    off = g.offsets('fromoffsets', n, 3, base=0)
    length = off[-1]
    # toptr: local argsort results per list; parents/starts of the flat elements; shifts per flat element
    top, par, starts = [], [], []
    for i, (a, b) in enumerate(zip(off, off[1:])):
        perm = list(range(b - a))
        g.r.shuffle(perm)
        top += perm
        par += [i] * (b - a)
        starts.append(a)
    if not starts:
        starts = [0]
    return dict(toptr=top, fromshifts=g.data('fromshifts', length, 0, 3), length=length, fromoffsets=off,
                offsetslength=n + 1, fromparents=par, parentslength=length, fromstarts=starts, startslength=len(starts))


@gen('awkward_NumpyArray_getitem_boolean_nonzero')
def _(g):
    n, stride = g.n(12), g.small(1, 3)
    m = _mask_any(g, 'fromptr', n)
    return dict(toptr=sum(1 for i in range(0, n, stride) if m[i] != 0), fromptr=m, length=n, stride=stride)


@gen('awkward_NumpyArray_getitem_boolean_numtrue')
def _(g):
    n, stride = g.n(12), g.small(1, 3)
    return dict(numtrue=1, fromptr=_mask_any(g, 'fromptr', n), length=n, stride=stride)


@gen('awkward_NumpyArray_getitem_next_array')
def _(g):
    n, m = g.n(5), g.n(5)
    return dict(nextcarryptr=n * m, nextadvancedptr=n * m, carryptr=g.data('carryptr', n, 0, 9),
                flatheadptr=g.data('flatheadptr', m, 0, 9), lencarry=n, lenflathead=m, skip=g.small(0, 9))


@gen('awkward_NumpyArray_getitem_next_array_advanced')
def _(g):
    n, m = g.n(5), g.n(5, lo=1)
    return dict(nextcarryptr=n, carryptr=g.data('carryptr', n, 0, 9), advancedptr=[g.r.randrange(m) for _ in range(n)],
                flatheadptr=g.data('flatheadptr', m, 0, 9), lencarry=n, skip=g.small(0, 9))


@gen('awkward_NumpyArray_getitem_next_at')
def _(g):
    n = g.n()
    return dict(nextcarryptr=n, carryptr=g.data('carryptr', n, 0, 9), lencarry=n, skip=g.small(0, 9), at=g.small(0, 8))


@gen('awkward_NumpyArray_getitem_next_range')
def _(g):
    n, h = g.n(5), g.n(5)
    return dict(nextcarryptr=n * h, carryptr=g.data('carryptr', n, 0, 9), lencarry=n, lenhead=h, skip=g.small(0, 9),
                start=g.small(0, 8), step=g.small(-3, 3))


@gen('awkward_NumpyArray_getitem_next_range_advanced')
def _(g):
    n, h = g.n(5), g.n(5)
    return dict(nextcarryptr=n * h, nextadvancedptr=n * h, carryptr=g.data('carryptr', n, 0, 9),
                advancedptr=g.data('advancedptr', n, 0, 9), lencarry=n, lenhead=h, skip=g.small(0, 9),
                start=g.small(0, 8), step=g.small(-3, 3))


@gen('awkward_regularize_arrayslice')
@errors
def _(g):
    n, length = g.n(), g.small(1, 9)
    d = [g.r.randint(-length, length - 1) for _ in range(n)]
    if g.bad and n:
        d[g.r.randrange(n)] = g.r.choice([length, -length - 1, length + 5])
    return dict(flatheadptr=d, lenflathead=n, length=length)


@gen('awkward_slicearray_ravel')
def _(g):
    nd = g.small(1, 3)
    shape = [g.small(0, 3) for _ in range(nd)]
    # element strides of a C-contiguous array, optionally with padding per axis
    strides = [0] * nd
    acc = 1
    for d in range(nd - 1, -1, -1):
        strides[d] = acc * g.small(1, 2)
        acc = strides[d] * max(shape[d], 1)
    size = 1
    for s in shape:
        size *= s
    need = 1 + sum((s - 1) * st for s, st in zip(shape, strides) if s > 0) if size else 0
    return dict(toptr=size, fromptr=g.data('fromptr', need + g.small(0, 2), -9, 9), ndim=nd, shape=shape, strides=strides)


def _sortdata(g, name, n, distinct):
    if distinct:
        lo, hi, kind = g.T(name)
        if kind == 'b':
            return None
        pool = list(range(max(lo, -20) if lo is not None else -20, min(hi, 40) + 1 if hi is not None else 41))
        if len(pool) < n:
            return None
        v = g.r.sample(pool, n)
        return [float(x) for x in v] if kind == 'f' else v
    return g.data(name, n, -4, 4)


@gen('awkward_sort')
def _(g):
    n = g.n(5)
    off = g.offsets('offsets', n, 4, base=0)
    length = off[-1]
    stable = g.flag()
    d = _sortdata(g, 'fromptr', length, False)
    return dict(toptr=length, fromptr=d, length=length, offsets=off, offsetslength=n + 1, parentslength=length,
                ascending=g.flag(), stable=stable)


@gen('awkward_argsort')
def _(g):
    n = g.n(5)
    off = g.offsets('offsets', n, 4, base=0)
    length = off[-1]
    stable = g.flag()
    d = _sortdata(g, 'fromptr', length, False)
    return dict(toptr=length, fromptr=d, length=length, offsets=off, offsetslength=n + 1, ascending=g.flag(), stable=stable)


@gen('awkward_quick_sort')
def _(g):
    n = g.n(5)
    off = g.offsets('fromstarts', n, 5, base=0)
    length = off[-1]
    ml = 48
    return dict(tmpptr=g.data('tmpptr', length, -4, 4), tmpbeg=[0] * ml, tmpend=[0] * ml, fromstarts=off[:-1],
                fromstops=off[1:], ascending=g.flag(), length=n, maxlevels=ml)


@gen('awkward_quick_argsort')
def _(g):
    n = g.n(5)
    off = g.offsets('offsets', n, 5, base=0)
    length = off[-1]
    ml = 48
    return dict(toptr=length, fromptr=g.data('fromptr', length, -4, 4), length=length, tmpbeg=[0] * ml, tmpend=[0] * ml,
                offsets=off, offsetslength=n + 1, ascending=g.flag(), stable=g.flag(), maxlevels=ml)


@gen('awkward_unique')
def _(g):
    n = g.n(10)
    d = sorted(g.data('toptr', n, -3, 3))
    return dict(toptr=d, length=n, tolength=1)


def _strings(g, n):
    off = [0]
    data = []
    for _ in range(n):
        L = g.small(0, 3)
        data += [g.r.choice([97, 98, 99, 122]) for _ in range(L)]
        off.append(off[-1] + L)
    return off, data


@gen('awkward_NumpyArray_sort_asstrings_uint8')
def _(g):
    n = g.n(6)
    off, data = _strings(g, n)
    return dict(toptr=len(data), fromptr=data, offsets=off, offsetslength=n + 1, outoffsets=n + 1, ascending=g.flag(),
                stable=g.flag())


@gen('awkward_NumpyArray_unique_strings')
def _(g):
    n = g.n(6)
    off, data = _strings(g, n)
    return dict(toptr=data, offsets=off, offsetslength=n + 1, outoffsets=n + 1, tolength=1)


@gen('awkward_ListOffsetArray_argsort_strings')
def _(g):
    n = g.n(8)
    off, data = _strings(g, n)
    p, ol = g.parents(n)
    return dict(tocarry=n, fromparents=p, length=n, stringdata=data + [0], stringstarts=off[:-1], stringstops=off[1:],
                is_stable=g.flag(), is_ascending=True if g.r.random() < 0.7 else False, is_local=g.flag())


@gen('awkward_NumpyArray_subrange_equal')
def _(g):
    n = g.n(5)
    off = g.offsets('fromstarts', n, 3, base=0)
    return dict(tmpptr=g.data('tmpptr', off[-1], 0, 2), fromstarts=off[:-1], fromstops=off[1:], length=n, toequal=1)


# ====================================================================== RegularArray
@gen('awkward_RegularArray_broadcast_tooffsets')
@errors
def _(g):
    n, size = g.n(), g.small(0, 4)
    off = g.offsets('fromoffsets', n, regular=size)
    if g.bad and n:
        k = g.r.randrange(1, n + 1)
        d = g.r.choice([1, -1, -7])
        off = off[:k] + [x + d for x in off[k:]]
    return dict(fromoffsets=off, offsetslength=n + 1, size=size)


@gen('awkward_RegularArray_broadcast_tooffsets_size1')
@errors
def _(g):
    n = g.n()
    off = g.offsets('fromoffsets', n, 3)
    tot = off[-1] - off[0]
    if g.bad and n:
        k = g.r.randrange(1, n + 1)
        off = off[:k] + [x - (off[k] - off[k - 1]) - 1 - g.small(0, 2) for x in off[k:]]
    return dict(tocarry=tot, fromoffsets=off, offsetslength=n + 1)


@gen('awkward_RegularArray_compact_offsets')
def _(g):
    n = g.n()
    return dict(tooffsets=n + 1, length=n, size=g.small(0, 5))


@gen('awkward_RegularArray_getitem_carry')
def _(g):
    n, size = g.n(), g.small(0, 4)
    return dict(tocarry=n * size, fromcarry=g.data('fromcarry', n, 0, 9), lencarry=n, size=size)


@gen('awkward_RegularArray_getitem_jagged_expand')
def _(g):
    n, size = g.n(5), g.small(0, 4)
    return dict(multistarts=n * size, multistops=n * size, singleoffsets=g.offsets('singleoffsets', size, 3),
                regularsize=size, regularlength=n)


@gen('awkward_RegularArray_getitem_next_array')
def _(g):
    n, la, size = g.n(5), g.n(5), g.small(1, 5)
    return dict(tocarry=n * la, toadvanced=n * la, fromarray=[g.r.randrange(size) for _ in range(la)], length=n,
                lenarray=la, size=size)


@gen('awkward_RegularArray_getitem_next_array_advanced')
def _(g):
    n, la, size = g.n(5), g.n(5, lo=1), g.small(1, 5)
    return dict(tocarry=n, toadvanced=n, fromadvanced=[g.r.randrange(la) for _ in range(n)],
                fromarray=[g.r.randrange(size) for _ in range(la)], length=n, lenarray=la, size=size)


@gen('awkward_RegularArray_getitem_next_array_regularize')
@errors
def _(g):
    la, size = g.n(), g.small(1, 5)
    arr = [g.r.randint(-size, size - 1) for _ in range(la)]
    if g.bad and la:
        arr[g.r.randrange(la)] = g.r.choice([size, -size - 1, size + 4])
    return dict(toarray=la, fromarray=arr, lenarray=la, size=size)


@gen('awkward_RegularArray_getitem_next_at')
@errors
def _(g):
    n, size = g.n(), g.small(1, 5)
    at = g.r.randint(-size, size - 1)
    if g.bad:
        at = g.r.choice([size, -size - 1, size + 4])
    return dict(tocarry=n, at=at, length=n, size=size)


@gen('awkward_RegularArray_getitem_next_range')
def _(g):
    n, size, ns = g.n(5), g.small(0, 5), g.small(0, 4)
    return dict(tocarry=n * ns, regular_start=g.small(0, 4), step=g.small(-2, 3), length=n, size=size, nextsize=ns)


@gen('awkward_RegularArray_getitem_next_range_spreadadvanced')
def _(g):
    n, ns = g.n(5), g.small(0, 4)
    return dict(toadvanced=n * ns, fromadvanced=g.data('fromadvanced', n, 0, 9), length=n, nextsize=ns)


@gen('awkward_RegularArray_localindex')
def _(g):
    n, size = g.n(5), g.small(0, 5)
    return dict(toindex=n * size, size=size, length=n)


@gen('awkward_RegularArray_num')
def _(g):
    n = g.n()
    return dict(tonum=n, size=g.small(0, 9) if not g.extreme else g.r.choice([0, 2 ** 31, 2 ** 62]), length=n)


@gen('awkward_RegularArray_rpad_and_clip_axis1')
def _(g):
    n, size, t = g.n(5), g.small(0, 5), g.small(0, 6)
    return dict(toindex=n * t, target=t, size=size, length=n)


# ====================================================================== UnionArray
@gen('awkward_UnionArray_fillindex')
def _(g):
    n, off = g.n(), g.small(0, 3)
    return dict(toindex=off + n, toindexoffset=off, fromindex=g.data('fromindex', n, 0, 12), length=n)


@gen('awkward_UnionArray_fillindex_count')
def _(g):
    n, off = g.n(), g.small(0, 3)
    return dict(toindex=off + n, toindexoffset=off, length=n)


@gen('awkward_UnionArray_fillna')
def _(g):
    n = g.n()
    return dict(toindex=n, fromindex=g.data('fromindex', n, -2, 12), length=n)


@gen('awkward_UnionArray_filltags')
def _(g):
    n, off = g.n(), g.small(0, 3)
    return dict(totags=off + n, totagsoffset=off, fromtags=g.data('fromtags', n, 0, 5), length=n, base=g.small(0, 9))


@gen('awkward_UnionArray_filltags_const')
def _(g):
    n, off = g.n(), g.small(0, 3)
    return dict(totags=off + n, totagsoffset=off, length=n, base=g.small(0, 9))


def _union_raws(g, n):
    nc = g.small(1, 3)
    raws = [g.offsets('offsetsraws', g.small(1, 4), 3) for _ in range(nc)]
    tags = [g.r.randrange(nc) for _ in range(n)]
    ix = [g.r.randrange(len(raws[t]) - 1) for t in tags]
    tot = sum(raws[t][i + 1] - raws[t][i] for t, i in zip(tags, ix))
    return raws, tags, ix, tot


@gen('awkward_UnionArray_flatten_combine')
def _(g):
    n = g.n(6)
    raws, tags, ix, tot = _union_raws(g, n)
    return dict(totags=tot, toindex=tot, tooffsets=n + 1, fromtags=tags, fromindex=ix, length=n, offsetsraws=raws)


@gen('awkward_UnionArray_flatten_length')
def _(g):
    n = g.n(6)
    raws, tags, ix, tot = _union_raws(g, n)
    return dict(total_length=1, fromtags=tags, fromindex=ix, length=n, offsetsraws=raws)


@gen('awkward_UnionArray_nestedfill_tags_index')
def _(g):
    n = g.n(6)
    counts = g.data('fromcounts', n, 0, 3)
    # tmpstarts: non-overlapping slots, each with room for its count (slots may be larger: other tags fill the rest)
    starts, pos = [], 0
    for c in counts:
        pos += g.small(0, 2)
        starts.append(pos)
        pos += c
    return dict(totags=pos, toindex=pos, tmpstarts=starts, tag=g.small(0, 5), fromcounts=counts, length=n)


@gen('awkward_UnionArray_project')
def _(g):
    n = g.n()
    tags = g.data('fromtags', n, 0, 2)
    which = g.small(0, 2)
    return dict(lenout=1, tocarry=sum(1 for t in tags if t == which), fromtags=tags,
                fromindex=g.data('fromindex', n, 0, 12), length=n, which=which)


@gen('awkward_UnionArray_regular_index')
def _(g):
    n = g.n()
    tags = g.data('fromtags', n, 0, 3)
    size = max(tags + [0]) + 1
    return dict(toindex=n, current=size, size=size, fromtags=tags, length=n)


@gen('awkward_UnionArray_regular_index_getsize')
def _(g):
    n = g.n()
    return dict(size=1, fromtags=g.data('fromtags', n, 0, 5), length=n)


@gen('awkward_UnionArray_simplify')
def _(g):
    n, m = g.n(), g.n(6, lo=1)
    return dict(totags=n, toindex=n, outertags=g.data('outertags', n, 0, 2), outerindex=[g.r.randrange(m) for _ in range(n)],
                innertags=g.data('innertags', m, 0, 2), innerindex=g.data('innerindex', m, 0, 12), towhich=g.small(0, 5),
                innerwhich=g.small(0, 2), outerwhich=g.small(0, 2), length=n, base=g.small(0, 9))


@gen('awkward_UnionArray_simplify_one')
def _(g):
    n = g.n()
    return dict(totags=n, toindex=n, fromtags=g.data('fromtags', n, 0, 2), fromindex=g.data('fromindex', n, 0, 12),
                towhich=g.small(0, 5), fromwhich=g.small(0, 2), length=n, base=g.small(0, 9))


@gen('awkward_UnionArray_validity')
@errors
def _(g):
    n, nc = g.n(), g.small(1, 3)
    lens = [g.small(1, 6) for _ in range(nc)]
    tags = [g.r.randrange(nc) for _ in range(n)]
    ix = [g.r.randrange(lens[t]) for t in tags]
    if g.bad and n:
        k = g.r.randrange(n)
        c = g.r.randint(0, 3)
        if c == 0:
            tags[k] = -1 - g.small(0, 2)
        elif c == 1 and g.signed('index'):
            ix[k] = -1 - g.small(0, 2)
        elif c == 2:
            tags[k] = nc + g.small(0, 2)
        else:
            ix[k] = lens[tags[k]] + g.small(0, 2)
    return dict(tags=tags, index=ix, length=n, numcontents=nc, lencontents=lens)


# ====================================================================== driver
def own_view(spec):
    v = {}
    for a in spec.args:
        code, nb, lo, hi, kind = K.PRIM[a.prim]
        v[a.name] = (lo, hi, kind)
    return v


def common_view(kernel):
    """per argument: values representable in every specialization of the kernel"""
    v = {}
    for i, a0 in enumerate(kernel.specs[0].args):
        los, his, kinds = [], [], set()
        for s in kernel.specs:
            code, nb, lo, hi, kind = K.PRIM[s.args[i].prim]
            kinds.add(kind)
            if kind == 'f':
                m = 2 ** 24 if s.args[i].prim == 'float' else 2 ** 53
                lo, hi = -m, m
            los.append(lo)
            his.append(hi)
        if kinds == {'f'}:
            v[a0.name] = (None, None, 'f')
        elif 'b' in kinds:
            v[a0.name] = (0, 1, 'b' if kinds == {'b'} else 'u')
        else:
            lo, hi = max(los), min(his)
            v[a0.name] = (lo, hi, 'i' if lo < 0 else 'u')
    return v


class GenError(Exception):
    pass


def coerce(a, x):
    kind = K.PRIM[a.prim][4]
    if kind == 'f':
        return float(x)
    if kind == 'b':
        return 1 if x else 0
    if isinstance(x, float):
        if x != int(x):
            raise GenError('non-integer value %r for %s' % (x, a.name))
        x = int(x)
    lo, hi = K.PRIM[a.prim][2], K.PRIM[a.prim][3]
    if not (lo <= x <= hi):
        raise GenError('value %r of %s not representable as %s' % (x, a.name, a.prim))
    return x


def generate(spec, rng, view_kind='own', mode='valid'):
    """-> (Call with every `in` argument set; `out` arguments possibly None = to be measured, meta dict)"""
    f = GEN.get(spec.kernel.name)
    if f is None:
        raise GenError('no generator for ' + spec.kernel.name)
    if mode == 'bad' and not getattr(f, 'reports_errors', False):
        mode = 'valid'
    if mode == 'extreme' and not getattr(f, 'extremes', False):
        mode = 'valid'
    view = own_view(spec) if view_kind == 'own' else common_view(spec.kernel)
    g = Ctx(rng, spec, view, mode)
    d = f(g)
    vals = {}
    for a in spec.args:
        if a.name not in d:
            if a.dir == 'out' and a.depth:
                vals[a.name] = None
                continue
            raise GenError('generator of %s gave no value for %s' % (spec.kernel.name, a.name))
        x = d[a.name]
        if a.depth == 0:
            vals[a.name] = coerce(a, x)
        elif a.depth == 1:
            if isinstance(x, int):
                if a.dir != 'out':
                    raise GenError('extent given for input argument ' + a.name)
                vals[a.name] = [K.SENT[a.prim]] * x
            else:
                vals[a.name] = [coerce(a, y) for y in x]
        else:
            vals[a.name] = [[(y if a.dir == 'out' else coerce(a, y)) for y in row] for row in x]
    align = ''.join(rng.choice('01') if rng.random() < 0.3 else '1' for _ in spec.args)
    return K.Call(spec, vals, align), dict(mode=mode, view=view_kind)


def materialize(call):
    """measure the extents of `out` arguments the generator left open from the Python definition's writes.
    returns None if ok, else a reason string"""
    todo = [a for a in call.spec.args if a.depth and call.vals[a.name] is None]
    if not todo:
        return None
    if call.spec.kernel.pyfunc is None:
        return 'no extent rule for %s and the definition is not executable' % ','.join(a.name for a in todo)
    probe = K.Call(call.spec, {k: ([] if v is None else v) for k, v in call.vals.items()}, call.align)
    r = K.run_spec(probe, open_out=True)
    if r['status'] not in ('ok', 'err'):
        return 'could not measure extents: %s %s' % (r['status'], r['msg'])
    for a in todo:
        call.vals[a.name] = [K.SENT[a.prim]] * r['extent'][a.name]
    return None


def coverage():
    names = [k.name for k in K.load_spec()]
    return [n for n in names if n not in GEN], [n for n in GEN if n not in names]


# ====================================================================== order properties (unstable sorts)
def _lt(asc):
    return (lambda a, b: a < b) if asc else (lambda a, b: a > b)


def check_property(call, rc):
    """for kernels whose result is only determined up to the order of equal keys (std::sort), or whose YAML
    definition is a placeholder and the contract is simply 'sorted permutation': returns a problem string or None"""
    if rc.get('status') != 'ok':
        return None
    k = call.spec.kernel.name
    v = call.vals
    if k == 'awkward_sort':
        src, out, off = v['fromptr'], rc['out']['toptr'], v['offsets']
        for a, b in zip(off, off[1:]):
            seg = out[a:b]
            if sorted(seg) != sorted(src[a:b]):
                return 'awkward_sort: segment [%d:%d] is not a permutation of the input' % (a, b)
            exp = sorted(src[a:b], reverse=not v['ascending'])
            if seg != exp:
                return 'awkward_sort: segment [%d:%d] is not sorted: %r' % (a, b, seg)
        return None
    if k in ('awkward_argsort', 'awkward_quick_argsort'):
        src, out, off = v['fromptr'], rc['out']['toptr'], v['offsets']
        for a, b in zip(off, off[1:]):
            seg = out[a:b]
            if sorted(seg) != list(range(b - a)):
                return '%s: segment [%d:%d] is not a permutation of local positions: %r' % (k, a, b, seg)
            keys = [src[a + i] for i in seg]
            if keys != sorted(keys, reverse=not v['ascending']):
                return '%s: segment [%d:%d] does not realise the order: %r' % (k, a, b, keys)
            if k == 'awkward_argsort' and v['stable']:
                for x, y in zip(seg, seg[1:]):
                    if src[a + x] == src[a + y] and x > y:
                        return 'awkward_argsort(stable): equal keys out of input order in segment [%d:%d]' % (a, b)
        return None
    if k == 'awkward_quick_sort':
        src, out = v['tmpptr'], rc['out']['tmpptr']
        for a, b in zip(v['fromstarts'], v['fromstops']):
            if out[a:b] != sorted(src[a:b], reverse=not v['ascending']):
                return 'awkward_quick_sort: segment [%d:%d] not the sorted input: %r' % (a, b, out[a:b])
        return None
    if k == 'awkward_ListOffsetArray_local_preparenext_64':
        src, out = v['fromindex'], rc['out']['tocarry']
        if sorted(out) != list(range(len(src))) or [src[i] for i in out] != sorted(src):
            return 'local_preparenext: not an argsort of fromindex: %r' % (out,)
        return None
    if k == 'awkward_NumpyArray_sort_asstrings_uint8':
        off, data = v['offsets'], v['fromptr']
        words = [bytes(data[a:b]) for a, b in zip(off, off[1:])]
        words.sort(reverse=not v['ascending'])
        exp = [c for w in words for c in w]
        eo = [0]
        for w in words:
            eo.append(eo[-1] + len(w))
        if rc['out']['toptr'] != exp or rc['out']['outoffsets'] != eo:
            return 'sort_asstrings: expected %r %r got %r %r' % (exp, eo, rc['out']['toptr'], rc['out']['outoffsets'])
        return None
    if k == 'awkward_NumpyArray_contiguous_copy_from_many':
        exp = []
        for row, L in zip(v['fromptrs'], v['fromlens'][:-1]):
            for j in range(L):
                exp += row[v['pos'][j]:v['pos'][j] + v['stride']]
        if rc['out']['toptr'] != exp:
            return 'contiguous_copy_from_many: expected %r got %r' % (exp, rc['out']['toptr'])
        return None
    if k == 'awkward_NumpyArray_unique_strings':
        # reference transcription of the in-place compaction (src/cpu-kernels/awkward_NumpyArray_unique_strings_uint8.cpp)
        buf, off = list(v['toptr']), v['offsets']
        slen = index = counter = start = 0
        for i in range(v['offsetslength'] - 1):
            differ = False
            if off[i + 1] - off[i] != slen:
                differ = True
            else:
                kk = 0
                for j in range(off[i], off[i + 1]):
                    if buf[start + kk] != buf[j]:
                        differ = True
                    kk += 1
            if differ:
                for j in range(off[i], off[i + 1]):
                    buf[index] = buf[j]
                    index += 1
                    start = off[i]
                counter += 1
            slen = off[i + 1] - off[i]
        if rc['out']['toptr'] != buf or rc['out']['tolength'] != [counter + 1]:
            return 'unique_strings: expected %r %r got %r %r' % (buf, counter + 1, rc['out']['toptr'], rc['out']['tolength'])
        return None
    if k == 'awkward_ListOffsetArray_argsort_strings':
        off0, off1, data, par = v['stringstarts'], v['stringstops'], v['stringdata'], v['fromparents']
        out = rc['out']['tocarry']
        n = v['length']
        i = 0
        while i < n:
            j = i
            while j < n and par[j] == par[i]:
                j += 1
            seg = out[i:j]
            idx = [x + i for x in seg] if v['is_local'] else seg
            if sorted(idx) != list(range(i, j)):
                return 'argsort_strings: group [%d:%d] is not a permutation: %r' % (i, j, seg)
            keys = [bytes(data[off0[x]:off1[x]]) for x in idx]
            if keys != sorted(keys, reverse=not v['is_ascending']):
                return 'argsort_strings: group [%d:%d] does not realise the order: %r' % (i, j, keys)
            i = j
        return None
    return None
