(** C03, refinement (part 2): [reduce_model] on layouts computes [reduce_spec] on (type, value), for every
    reducer, every axis (local = innermost and non-local), [mask_identity] and [keepdims]:
      obs (reduce_model r axis mask keepdims c) = reduce_spec r axis mask keepdims (type_of c) vs
    for every valid layout [c] with value [vs] whose data buffers hold finite numbers ([fin]).
    Built from [Proofs_Reduce.zl_spec] and the at-axis descent of Proofs_AtAxis. *)
From Coq Require Import ZArith List Bool Lia ZifyBool.
From AwkV Require Import Base Layout LayoutInd Valid Types AtAxis Carry Ops_Reduce Typing Proofs_Typing Proofs_C11
                         Proofs_Lists Proofs_ToList Proofs_Carry Proofs_AtAxis Proofs_AtAxisOps Proofs_Reduce.
Import ListNotations.
Open Scope Z_scope.

(* ---------------------------------------------------------------- a reducible type has a layout in [frag] *)
Lemma reducible_frag c : forall p, Valid p c -> reducible (type_of_p p c) = true -> frag c = true.
Proof.
  induction c as [dt shape data| |w o c IHc|w s e c IHc|c size zl IHc|w ix c IHc|w ix c IHc|m vw c IHc
                 |m vw lsb n c IHc|c IHc|w t ix cs IHcs|cs ks n IHcs|arr rn c IHc] using content_ind';
    intros p HV Hred; pose proof HV as HV0; inversion HV; subst; cbn [type_of_p reducible frag] in *;
    try (apply (IHc None); assumption); try reflexivity.
  - destruct shape; [congruence|reflexivity].
  - destruct (Valid_param p _ HV0) as [-> | Es]; [|destruct p as [[]|]; discriminate].
    apply (IHc None); [auto|exact Hred].
  - destruct (Valid_param p _ HV0) as [-> | Es]; [|destruct p as [[]|]; discriminate].
    apply (IHc None); [auto|exact Hred].
  - destruct (Valid_param p _ HV0) as [-> | Es]; [|destruct p as [[]|]; discriminate].
    apply (IHc None); [auto|exact Hred].
  - discriminate.
  - apply frag_all. apply Forall_forall. intros x Hx. rewrite Forall_forall in IHcs.
    match goal with H : Forall (Valid None) cs |- _ => rewrite Forall_forall in H; pose proof (H x Hx) as HVx end.
    apply (IHcs x Hx None HVx). rewrite forallb_forall in Hred. apply Hred. apply in_map, Hx.
  - apply (IHc arr); assumption.
Qed.

(* ---------------------------------------------------------------- [expand] keeps the data finite *)
Lemma forallb_take {A} (f : A -> bool) k l : forallb f l = true -> forallb f (take k l) = true.
Proof.
  intros H. apply forallb_forall. intros x Hx. rewrite forallb_forall in H. apply H. unfold take in Hx. eapply In_firstn, Hx.
Qed.
Lemma np_fin dt : forall dims n data, forallb is_dz data = true -> fin (np_regular dt n dims data) = true.
Proof.
  induction dims as [|d ds IH]; intros n data H; cbn [np_regular fin]; [apply forallb_take, H|apply IH, H].
Qed.
Lemma fin_expand c : fin c = true -> fin (expand c) = true.
Proof.
  induction c as [dt shape data| |w o c IHc|w s e c IHc|c size zl IHc|w ix c IHc|w ix c IHc|m vw c IHc
                 |m vw lsb n c IHc|c IHc|w t ix cs IHcs|cs ks n IHcs|arr rn c IHc] using content_ind';
    intros H; cbn [expand fin] in *; auto.
  - destruct shape as [|n dims]; [exact H|]. apply np_fin, H.
  - apply fin_all. apply fin_all in H. apply Forall_map. rewrite Forall_forall in *. intros x Hx. apply IHcs; auto.
  - apply fin_all. apply fin_all in H. apply Forall_map. rewrite Forall_forall in *. intros x Hx. apply IHcs; auto.
Qed.

(* ---------------------------------------------------------------- the action at the axis *)
Lemma concat_singletons {A} (l : list A) : concat (map (fun v => [v]) l) = l.
Proof. induction l as [|x l IH]; [reflexivity|]. cbn [map concat app]. rewrite IH. reflexivity. Qed.

Section Red.
  Variable r : reducer.
  Variables mask kd : bool.

  Definition grp (se : Z * Z) : list (Z * Z) := map (fun j => (j, fst se + j)) (iota (snd se - fst se)).
  Definition wrapk (v : value) : value := if kd then VList [v] else v.

  Lemma reduce_g_eq p c :
    reduce_g r mask kd p c =
    do bc <- list_bounds c;
    do out <- zl r mask None (snd bc) (map grp (fst bc));
    Ok (if kd then Regular out 1 (zlen (map grp (fst bc))) else out).
  Proof. reflexivity. Qed.
  Lemma reduce_f_eq t l : reduce_f r mask kd t l = rmap wrapk (zipred r mask t (enum l)).
  Proof. unfold reduce_f. destruct (zipred r mask t (enum l)); reflexivity. Qed.

  (* LOCAL REDUCTION: reducing the lists of one list node *)
  Lemma reduce_g_spec p c cc vs :
    list_content c = Some cc -> Valid None cc -> frag1 cc = true -> fin cc = true -> reducible (type_of cc) = true ->
    to_list c = Ok vs ->
    exists c' ws, reduce_g r mask kd p c = Ok c' /\ to_list c' = Ok ws /\
                  mapM (fun v => match v with VList l => reduce_f r mask kd (type_of cc) l | _ => Err EValue end) vs = Ok ws.
  Proof.
    intros Hc HVc Hfr Hfin Hred Hl.
    destruct (list_bounds_spec c cc vs Hc Hl) as (bs & vs0 & ls & Hb & Hl0 & Hcut & ->).
    assert (Hr : in_range (zlen vs0) (map grp bs)).
    { intros G HG [j pos] Hjp. cbn [snd]. apply in_map_iff in HG as ([s e] & <- & Hse). unfold grp in Hjp. cbn [fst snd] in Hjp.
      apply in_map_iff in Hjp as (j' & Hj' & Hin). inversion Hj'; subst. apply iota_In' in Hin.
      destruct (mapM_Ok_In _ _ _ _ Hcut Hse) as (l & Hl' & _). unfold cut1 in Hl'.
      destruct (s =? e) eqn:Ese; [lia|]. pose proof (slice_inv _ _ _ _ Hl') as (H1 & H2 & H3 & _). lia. }
    destruct (zl_spec r mask cc (map grp bs) vs0 HVc Hfr Hfin Hred Hl0 Hr) as (out & ws & Hzl & Ht & Hs).
    assert (Hws : mapM (fun l => zipred r mask (type_of cc) (enum l)) ls = Ok ws).
    { rewrite (mapM_mapM _ _ _ _ Hcut). rewrite <- Hs. unfold zspec. rewrite mapM_map. apply mapM_ext_in. intros se Hse.
      destruct (mapM_Ok_In _ _ _ _ Hcut Hse) as (l & Hl' & _). rewrite Hl'. cbn [bind].
      unfold grp. rewrite (gatherG_cut _ _ _ Hl'). reflexivity. }
    pose proof (mapM_zlen _ _ _ Hs) as Hz.
    exists (if kd then Regular out 1 (zlen (map grp bs)) else out), (map wrapk ws). split.
    { rewrite reduce_g_eq, Hb. cbn [bind fst snd]. rewrite Hzl. reflexivity. }
    split.
    - unfold wrapk. destruct kd.
      + rewrite to_list_Regular, Ht. cbn [bind]. rewrite <- Hz.
        rewrite <- (concat_singletons ws) at 1. rewrite <- (zlen_map (fun v => [v]) ws).
        rewrite chunks_concat; [|lia|apply Forall_forall; intros l Hl'; apply in_map_iff in Hl' as (v & <- & _); reflexivity].
        cbn [rmap]. rewrite map_map. reflexivity.
      + rewrite map_id. exact Ht.
    - rewrite mapM_map. rewrite (mapM_ext_in _ (fun l => rmap wrapk (zipred r mask (type_of cc) (enum l)))).
      + rewrite mapM_rmap, Hws. reflexivity.
      + intros l _. apply reduce_f_eq.
  Qed.

  (* ---------------------------------------------------------------- the descent to the axis *)
  Notation g := (reduce_g r mask kd).
  Notation f := (reduce_f r mask kd).
  Notation MA := (model_axp g (Err EValue) true).
  Notation CA := (check_ax false reducible true).
  Notation SV := (spec_v f).
  Notation MB := (model_body g (Err EValue) true).
  Notation CB := (check_body false reducible true).
  Notation SB := (spec_body f).

  Lemma at_axis_red c cc sz vs d ax :
    (ax =? d + 1) = true ->
    list_content c = Some cc -> Valid None cc -> frag1 cc = true -> fin cc = true -> reducible (type_of_p None cc) = true ->
    to_list c = Ok vs ->
    refines (gs g true None c)
            (if reducible (type_of_p None cc) && (true || true) then Ok tt else Err EValue)
            (mapM (SB (TList sz None (type_of_p None cc)) d ax) vs).
  Proof.
    intros Eax Hc HVc Hfr Hfin Hred Hl. unfold gs. cbn [is_strk negb andb orb]. rewrite Hred. cbn [andb].
    destruct (reduce_g_spec None c cc vs Hc HVc Hfr Hfin Hred Hl) as (c' & ws & Hg & Ht & Hs).
    rewrite Hg. cbn [refines]. split; [reflexivity|]. exists ws. split; [|exact Ht].
    rewrite <- Hs. apply mapM_ext_in. intros v Hv. rewrite (SB_list_at f _ _ _ _ _ v Eax).
    (* the elements of a list node are lists *)
    destruct (list_bounds_spec c cc vs Hc Hl) as (bs & vs0 & ls & _ & _ & _ & E). rewrite E in Hv.
    apply in_map_iff in Hv as (l & <- & _). reflexivity.
  Qed.

  Definition red_at (c : content) : Prop :=
    forall d axis vs, Valid None c -> frag1 c = true -> fin c = true -> reducible (type_of_p None c) = true ->
      0 <= d -> to_list c = Ok vs ->
      refines (MA None c d axis) (CA (type_of_p None c) d axis) (mapM (SV (type_of_p None c) d axis) vs).

  Lemma red_at_all c : red_at c.
  Proof.
    induction c as [dt shape data| |w o c IHc|w s e c IHc|c size zl IHc|w ix c IHc|w ix c IHc|m vw c IHc
                   |m vw lsb n c IHc|c IHc|w t ix cs IHcs|cs ks n IHcs|arr rn c IHc] using content_ind';
      intros d axis vs HV Hfr Hfin Hred Hd Hl; pose proof HV as HV0; cbn [frag1 fin] in Hfr, Hfin.
    - (* Numpy *)
      destruct shape as [|x [|? ?]]; try discriminate.
      apply refines_resolve. intros ax _. reflexivity.
    - (* Empty *)
      apply refines_resolve. intros ax _. reflexivity.
    - (* ListOffset *)
      inversion HV; subst.
      match goal with H : is_strk None = false -> Valid None c |- _ => specialize (H eq_refl); rename H into HVc end.
      cbn [type_of_p strflag reducible] in Hred.
      apply refines_resolve. intros ax _. cbn [type_of_p strflag model_body check_body].
      destruct (ax =? d + 1) eqn:Eax.
      + eapply at_axis_red; try eassumption; reflexivity.
      + rewrite to_list_ListOffset in Hl. apply bind_Ok in Hl as (vs0 & Hl0 & Hl). apply rmap_Ok in Hl as (ls & Hcut & ->).
        unfold cut in Hcut. destruct o as [|a o]; [discriminate|].
        eapply below_list with (bs := pairs (a :: o)); [|exact Eax|exact Hcut|apply IHc; try assumption; lia].
        intros c' ws0 ls' Hc' _ Hls'. rewrite to_list_ListOffset, Hc'. cbn [bind]. unfold cut. rewrite Hls'. reflexivity.
    - (* ListA *)
      inversion HV; subst.
      match goal with H : is_strk None = false -> Valid None c |- _ => specialize (H eq_refl); rename H into HVc end.
      cbn [type_of_p strflag reducible] in Hred.
      apply refines_resolve. intros ax _. cbn [type_of_p strflag model_body check_body].
      destruct (ax =? d + 1) eqn:Eax.
      + eapply at_axis_red; try eassumption; reflexivity.
      + rewrite to_list_ListA in Hl. apply bind_Ok in Hl as (vs0 & Hl0 & Hl). apply rmap_Ok in Hl as (ls & Hcut & ->).
        unfold cut2 in Hcut. destruct (zlen e <? zlen s) eqn:Ese; [discriminate|].
        eapply below_list with (bs := zip s e); [|exact Eax|exact Hcut|apply IHc; try assumption; lia].
        intros c' ws0 ls' Hc' _ Hls'. rewrite to_list_ListA, Hc'. cbn [bind]. unfold cut2. rewrite Ese, Hls'. reflexivity.
    - (* Regular *)
      inversion HV; subst.
      match goal with H : is_strk None = false -> Valid None c |- _ => specialize (H eq_refl); rename H into HVc end.
      cbn [type_of_p strflag reducible] in Hred.
      apply refines_resolve. intros ax _. cbn [type_of_p strflag model_body check_body].
      destruct (ax =? d + 1) eqn:Eax.
      + eapply at_axis_red; try eassumption; reflexivity.
      + rewrite to_list_Regular in Hl. apply bind_Ok in Hl as (vs0 & Hl0 & Hl). apply rmap_Ok in Hl as (ch & Hch & ->).
        eapply below_list with (bs := map (fun i => (i * size, (i + 1) * size)) (iota (zlen ch)));
          [|exact Eax|apply (chunks_as_cuts _ _ _ _ Hch)|apply IHc; try assumption; lia].
        intros c' ws0 ls' Hc' Hz Hls'. rewrite to_list_Regular, Hc'. cbn [bind].
        destruct (chunks_indep vs0 ws0 size zl ch Hch Hz) as (ch' & Hch' & Hzc).
        rewrite Hch'. cbn [rmap]. pose proof (chunks_as_cuts _ _ _ _ Hch') as Hc2. rewrite Hzc, Hls' in Hc2.
        inversion Hc2; subst. reflexivity.
    - (* Indexed *)
      inversion HV; subst. cbn [type_of_p] in Hred.
      rewrite to_list_Indexed in Hl. apply bind_Ok in Hl as (vs0 & Hl0 & Hl).
      cbn [type_of_p]. eapply refines_transparent with (M := fun ax => rmap (Indexed w ix) (MA None c d ax));
        [exact Hd|reflexivity|reflexivity|].
      intros ax _. eapply refines_rmap; [apply IHc; eassumption|].
      intros c' ws0 Hc' HF.
      destruct (gather_same_len vs0 ws0 ix) as [ws Hws]; [symmetry; apply (mapM_zlen _ _ _ HF)|eauto|].
      exists ws. split.
      + rewrite (mapM_gather_ok _ _ _ _ _ HF Hl). exact Hws.
      + rewrite to_list_Indexed, Hc'. exact Hws.
    - (* IndexedOption *)
      inversion HV; subst. cbn [type_of_p reducible] in Hred.
      rewrite to_list_IndexedOption in Hl. apply bind_Ok in Hl as (vs0 & Hl0 & Hl).
      assert (Hnn : forall x, In x vs0 -> x <> VNone) by (eapply nonone_values; eassumption).
      apply refines_resolve. intros ax _. cbn [type_of_p model_body check_body].
      eapply (below_option f g (Err EValue) false reducible true (IndexedOption w ix) c _ d ax vs0 vs ix (fun i => 0 <=? i) (fun i => i));
        [exact Hnn| |exact Hl|apply IHc; eassumption].
      intros c' ws0 ws Hc' _ Hq. rewrite to_list_IndexedOption, Hc'. exact Hq.
    - (* ByteMasked *)
      inversion HV; subst. cbn [type_of_p reducible] in Hred.
      rewrite to_list_ByteMasked in Hl. apply bind_Ok in Hl as (vs0 & Hl0 & Hl).
      assert (Hnn : forall x, In x vs0 -> x <> VNone) by (eapply nonone_values; eassumption).
      apply refines_resolve. intros ax _. cbn [type_of_p model_body check_body].
      eapply (below_option f g (Err EValue) false reducible true (ByteMasked m vw) c _ d ax vs0 vs (zip (iota (zlen m)) m)
                (fun im : Z * Z => Bool.eqb (negb (snd im =? 0)) vw) (fun im : Z * Z => fst im));
        [exact Hnn| | |apply IHc; eassumption].
      + intros c' ws0 ws Hc' _ Hq. rewrite to_list_ByteMasked, Hc'. cbn [bind]. rewrite <- Hq.
        apply mapM_ext_in. intros [i b] _. reflexivity.
      + rewrite <- Hl. apply mapM_ext_in. intros [i b] _. reflexivity.
    - (* BitMasked *)
      inversion HV; subst. cbn [type_of_p reducible] in Hred.
      rewrite to_list_BitMasked in Hl. apply bind_Ok in Hl as (vs0 & Hl0 & Hl).
      destruct (n <? 0) eqn:En; [discriminate|].
      assert (Hnn : forall x, In x vs0 -> x <> VNone) by (eapply nonone_values; eassumption).
      assert (Hbits : forall i, In i (iota n) -> exists b, bit_at m lsb i = Ok b).
      { intros i Hi. destruct (mapM_Ok_In _ _ _ _ Hl Hi) as (y & Hy & _). destruct (bit_at m lsb i); [eauto|discriminate]. }
      apply refines_resolve. intros ax _. cbn [type_of_p model_body check_body].
      eapply (below_option f g (Err EValue) false reducible true (BitMasked m vw lsb n) c _ d ax vs0 vs (iota n)
                (fun i => match bit_at m lsb i with Ok b => Bool.eqb b vw | Err _ => false end) (fun i => i));
        [exact Hnn| | |apply IHc; eassumption].
      + intros c' ws0 ws Hc' _ Hq. rewrite to_list_BitMasked, Hc'. cbn [bind]. rewrite En, <- Hq.
        apply mapM_ext_in. intros i Hi. destruct (Hbits i Hi) as [b ->]. reflexivity.
      + rewrite <- Hl. apply mapM_ext_in. intros i Hi. destruct (Hbits i Hi) as [b ->]. reflexivity.
    - (* Unmasked *)
      inversion HV; subst. cbn [type_of_p reducible] in Hred. rewrite to_list_Unmasked in Hl.
      assert (Hnn : forall x, In x vs -> x <> VNone) by (eapply nonone_values; eassumption).
      apply refines_resolve. intros ax _. cbn [type_of_p model_body check_body].
      eapply refines_rmap; [apply IHc; eassumption|].
      intros c' ws0 Hc' HF. exists ws0. split; [|rewrite to_list_Unmasked; exact Hc'].
      apply (optF_nonone _ vs ws0 HF Hnn).
    - discriminate.
    - (* Record *)
      inversion HV; subst. cbn [type_of_p reducible] in Hred.
      rewrite to_list_Record in Hl. apply bind_Ok in Hl as (vss & Hvss & Hl). rewrite all_lists_mapM in Hvss.
      destruct (n <? 0) eqn:En; [discriminate|].
      apply frag1_all in Hfr. apply fin_all in Hfin.
      apply refines_resolve. intros ax _. cbn [type_of_p model_body check_body].
      assert (HF : Forall (fun x => forall vs, to_list x = Ok vs ->
                     refines (MA None x d ax) (CA (type_of_p None x) d ax) (mapM (SV (type_of_p None x) d ax) vs)) cs).
      { apply Forall_forall. intros x Hx col Hcol. rewrite Forall_forall in IHcs, Hfr, Hfin.
        match goal with H : Forall (Valid None) cs |- _ => rewrite Forall_forall in H; pose proof (H x Hx) as HVx end.
        apply IHcs; auto. rewrite forallb_forall in Hred. apply Hred. apply in_map, Hx. }
      pose proof (rec_fields f g (Err EValue) false reducible true d ax cs vss HF Hvss) as HR.
      destruct (mapM (fun x => MA None x d ax) cs) as [cs'|[]]; cbn [rmap refines] in *; try contradiction; try exact HR.
      destruct HR as (Hchk & wss & Hwss & Hrel). split; [exact Hchk|].
      destruct (mapM_square (row ks vss) (row ks wss)
                  (recS (map (fun t => SV t d ax) (map (type_of_p None) cs))) (iota n) vs) as (ws & Hq & Hs); [|exact Hl|].
      { intros i v _ Hr. eapply row_commute; eassumption. }
      exists ws. split.
      + rewrite <- Hs. apply mapM_ext_in. intros v _. cbn [spec_body].
        destruct v; try reflexivity; cbn [recS]; rewrite ?rec_go_recF, ?tup_go_tupF; reflexivity.
      + rewrite to_list_Record, all_lists_mapM, Hwss. cbn [bind]. rewrite En. exact Hq.
    - (* Par: a reducible type has no string node *)
      inversion HV; subst. cbn [type_of_p] in Hred.
      match goal with H : Valid arr c |- _ => rename H into HVc end.
      destruct (Valid_param arr c HVc) as [-> | Es].
      + rewrite to_list_Par in Hl. apply bind_Ok in Hl as (vs0 & Hl0 & Hl). inversion Hl; subst.
        cbn [type_of_p]. eapply refines_transparent with (M := fun ax => MA None c d ax); [exact Hd|reflexivity|reflexivity|].
        intros ax _. apply IHc; assumption.
      + exfalso. assert (Hp : ParamOk arr c) by (inversion HVc; subst; try assumption; discriminate).
        destruct (ParamOk_str arr c Hp Es) as (cc & k & rn' & n & dd & Hcc & _ & _).
        destruct arr as [[]|]; try discriminate Es; destruct c; try discriminate Hcc;
          cbn [type_of_p strflag reducible] in Hred; discriminate Hred.
  Qed.
End Red.

(* ---------------------------------------------------------------- the theorem *)
(** [_partial]: the hypothesis [fin c = true] (the used part of every data buffer holds integers, no
    NaN / infinity) is added to the statement "for every valid layout".  It is needed: the reducer model
    answers EOob on a non-finite datum, in buffer order, while the specification checks the type first and
    reads a boolean leaf through [leaf] (see the two [_refuted] examples below).  Nothing else is assumed:
    unions, strings and unknown-type leaves make both sides [Err EValue]. *)
Lemma reduce_refines_cases_partial r axis mask kd c vs :
  Valid None c -> fin c = true -> to_list c = Ok vs ->
  match reduce_model r axis mask kd c with
  | Ok c' => exists ws, to_list c' = Ok ws /\ reduce_spec r axis mask kd (type_of c) vs = Ok ws
  | Err EValue => reduce_spec r axis mask kd (type_of c) vs = Err EValue
  | Err _ => False            (* never EOob / EFuel *)
  end.
Proof.
  intros HV Hfin Hl. unfold reduce_model, reduce_spec.
  destruct (resolve_axis (type_of c) 0 axis) as [ax|e] eqn:Er; [|apply resolve_err in Er; subst e; reflexivity]. cbn [bind].
  destruct (reducible (type_of c)) eqn:Hred; cbn [negb]; [|reflexivity].
  pose proof (reducible_frag c None HV Hred) as Hfr.
  pose proof (expand_valid c HV Hfr) as HVe. pose proof (expand_frag1 c HV Hfr) as Hfe.
  pose proof (expand_to_list c HV Hfr) as Hle. pose proof (expand_type_of c HV Hfr) as Hte.
  pose proof (fin_expand c Hfin) as Hfine. rewrite Hl in Hle. rewrite <- Hte in Hred.
  destruct (ax =? 0) eqn:E0.
  - (* axis 0: the whole array is one group *)
    rewrite <- (to_list_len _ _ Hle).
    destruct (zl_spec r mask (expand c) [map (fun j => (j, j)) (iota (zlen vs))] vs HVe Hfe Hfine Hred Hle) as (c' & ws & Hzl & Ht & Hs).
    { intros G [<-|[]] [j q] Hjq. apply in_map_iff in Hjq as (j' & Hj' & Hin). inversion Hj'; subst. apply iota_In' in Hin. exact Hin. }
    rewrite Hzl. exists ws. split; [exact Ht|]. unfold zspec in Hs. cbn [mapM] in Hs. rewrite gatherG_enum in Hs. cbn [bind] in Hs.
    rewrite Hte in Hs. destruct (zipred r mask (type_of c) (enum vs)) as [v|]; [|discriminate]. cbn [bind] in *. congruence.
  - (* deeper: descend to the list nodes at the axis *)
    unfold model_ax, spec_ax.
    pose proof (red_at_all r mask kd (expand c) 0 ax vs HVe Hfe Hfine Hred (Z.le_refl 0) Hle) as H.
    fold (type_of (expand c)) in H. rewrite Hte in H.
    destruct (model_axp (reduce_g r mask kd) (Err EValue) true None (expand c) 0 ax) as [c'|[]]; cbn [refines] in *; try contradiction.
    + destruct H as (Hc & ws & Hs & Ht). rewrite Hc. cbn [bind]. exists ws. split; [exact Ht|exact Hs].
    + rewrite H. reflexivity.
Qed.

Theorem reduce_refines_spec_partial r axis mask kd c vs :
  Valid None c -> fin c = true -> to_list c = Ok vs ->
  obs (reduce_model r axis mask kd c) = reduce_spec r axis mask kd (type_of c) vs.
Proof.
  intros HV Hfin Hl. pose proof (reduce_refines_cases_partial r axis mask kd c vs HV Hfin Hl) as H.
  destruct (reduce_model r axis mask kd c) as [c'|[]]; cbn [obs]; try contradiction.
  - destruct H as (ws & Ht & Hs). congruence.
  - symmetry. exact H.
Qed.

(* the local case spelled out: axis = -1 reduces the innermost lists *)
Corollary reduce_local_refines_spec_partial r mask kd c vs :
  Valid None c -> fin c = true -> to_list c = Ok vs ->
  obs (reduce_model r (-1) mask kd c) = reduce_spec r (-1) mask kd (type_of c) vs.
Proof. apply reduce_refines_spec_partial. Qed.

(* layout independence (C02): the result depends on (type, value) only *)
Theorem layout_independent_reduce_partial r axis mask kd a b vs :
  Valid None a -> Valid None b -> fin a = true -> fin b = true ->
  to_list a = Ok vs -> to_list b = Ok vs -> type_of a = type_of b ->
  obs (reduce_model r axis mask kd a) = obs (reduce_model r axis mask kd b).
Proof.
  intros HVa HVb Hfa Hfb Hla Hlb Hty.
  rewrite (reduce_refines_spec_partial r axis mask kd a vs), (reduce_refines_spec_partial r axis mask kd b vs), Hty by assumption.
  reflexivity.
Qed.

(* a non-trivial member of the fragment: ListOffset > IndexedOption > Record [ListArray with a gap > 1-d Numpy; 2-d Numpy] *)
Example reduce_refines_ex :
  let c := ListOffset I64 [0; 2; 2; 5]
             (IndexedOption I64 [1; -1; 0; 2; -1]
                (Record [ListA I64 [0; 3; 3] [3; 4; 3] (Numpy DInt64 [5] [DZ 1; DZ 2; DZ 3; DZ 4; DZ 5]);
                         Numpy DFloat64 [3; 2] [DZ 1; DZ 2; DZ 3; DZ 4; DZ 5; DZ 6]] None 3)) in
  let t := fun a b => VTup [a; b] in let l := fun xs => VList (map (fun z => VNum (DZ z)) xs) in let n := fun z => VNum (DZ z) in
  validb None c = true /\ fin c = true /\
  to_list c = Ok [VList [t (l [4]) (l [3; 4]); VNone]; VList [];
                  VList [t (l [1; 2; 3]) (l [1; 2]); t (l []) (l [5; 6]); VNone]] /\
  (* local: innermost lists *)
  obs (reduce_model RSum (-1) false false c) =
    Ok [VList [t (n 4) (n 7); VNone]; VList []; VList [t (n 6) (n 3); t (n 0) (n 11); VNone]] /\
  (* non-local: across the lists of a list node (missing records skipped), and across the whole array *)
  obs (reduce_model RSum 1 true false c) = Ok [t (l [4]) (l [3; 4]); t (l []) (l []); t (l [1; 2; 3]) (l [6; 8])] /\
  obs (reduce_model RArgmax 1 false true c) =
    Ok [VList [t (l [0]) (l [0; 0])]; VList [t (l []) (l [])]; VList [t (l [0; 0; 0]) (l [1; 1])]] /\
  obs (reduce_model RSum 0 false false c) = Ok [VList [t (l [5; 2; 3]) (l [4; 6]); t (l []) (l [5; 6]); t (l []) (l [])]] /\
  obs (reduce_model RSum 3 false false c) = Err EValue.
Proof. vm_compute. repeat split. Qed.

(* without [fin] the statement is false of the model (error status) ... *)
Example reduce_refines_spec_refuted_nan :
  let c := Record [ListOffset I64 [0; 1] (Numpy DFloat64 [1] [DNaN]); Numpy DFloat64 [1] [DZ 1]] None 1 in
  validb None c = true /\ to_list c = Ok [VTup [VList [VNum DNaN]; VNum (DZ 1)]] /\
  obs (reduce_model RSum 1 false false c) = Err EOob /\
  reduce_spec RSum 1 false false (type_of c) [VTup [VList [VNum DNaN]; VNum (DZ 1)]] = Err EValue.
Proof. vm_compute. repeat split. Qed.
(* ... and (value) on a boolean buffer holding a non-number, which [leaf] reads as True *)
Example reduce_refines_spec_refuted_bool :
  let c := Numpy DBool [1] [DNaN] in
  validb None c = true /\ to_list c = Ok [VBool true] /\
  obs (reduce_model RSum 0 false false c) = Err EOob /\
  reduce_spec RSum 0 false false (type_of c) [VBool true] = Ok [VNum (DZ 1)].
Proof. vm_compute. repeat split. Qed.

Print Assumptions reduce_refines_cases_partial.
Print Assumptions reduce_refines_spec_partial.
Print Assumptions layout_independent_reduce_partial.
