"""C13: every compiled CPU kernel computes what its Python specification computes.

Three voters per call: the compiled symbol (ctypes, fenced buffers), the YAML `definition` executed on
width-wrapping typed buffers, and -- for modelled kernels -- the extracted Gallina model (kernelrun).
Runs in isolated worker processes (a kernel that crashes or hangs is reported with its arguments)."""
import collections
import hashlib
import json
import multiprocessing as mp
import os
import random
import subprocess
import sys
import time
import traceback
from multiprocessing.connection import wait as mpwait

sys.path.insert(0, os.path.dirname(os.path.dirname(os.path.abspath(__file__))))
import common as C           # noqa: E402
import kernels as K          # noqa: E402
import kernels_gen as G      # noqa: E402
import kernels_model as M    # noqa: E402

COQ_DIR = os.path.join(C.VERIF, 'c13', 'coq')
COQ_LOGICAL = '-R /verif/coq AwkV -R . AwkKernels'
NEEDS_SAN = False            # the SAN tier is driven from here (LD_PRELOAD of libasan in the workers), see run()
B13 = os.path.join(C.BUILD, 'c13')
KERNELRUN = os.path.join(B13, 'kernelrun')

THEOREMS = M.THEOREMS
PROPS_FILES = M.PROPS_FILES
RULE = ('for each of the 690 specializations: seeded role-aware arguments (offsets monotone, parents sorted, starts/stops '
        'consistent, indexes in range, masks 0/1, lengths consistent; zero lengths; per-width extremes and offsets next '
        'to the top of unsigned types for pure-arithmetic kernels) in three streams: common (values representable in '
        'every specialization of the kernel: also used for the all-specializations-agree check), own-width, extreme; plus '
        'a malformed stream only for kernels that report errors. non-trivial = at least one length argument > 0 and the '
        'call succeeded; distinct by (specialization, argument values)')
ASSUMPTIONS = [
    'the precondition of each kernel is the one encoded in harness/kernels_gen.py (read off the C++ callers and the '
    'YAML roles); inputs outside it (negative carry indexes, stop < start where the kernel does not check, ...) are not generated',
    'kernels whose YAML definition is a placeholder or not executable as written are compared with the Gallina model only '
    '(if modelled) or across their own specializations only; they are listed under spec_not_executable on every run',
    'for kernels marked automatic-tests: false whose definition is executable but disagrees with the compiled code, the '
    'definition is treated as unreliable (listed under spec_disagrees_autotests_false), not as a violation',
    'float specializations are exercised with integer-valued data; IEEE rounding is not modelled in Rocq',
    'extreme offsets of 64-bit index types stay below 2^62 (kernels such as getitem_next_range_counts add two offsets '
    'in int64_t before subtracting: signed overflow there is undefined behaviour that only offsets above 2^62 reach); '
    'signed accumulators of reduce_sum/prod get at most one extreme input per group',
    'error status and message are compared; identity/attempt fields are compiled-only (the Python definitions have none)',
    'unstable std::sort kernels are compared up to: output is a permutation that realises the order',
    'reads outside extents are detected by PROT_NONE guard pages next to every buffer (alignment randomised) and, in the '
    'thorough tier, by the ASan+UBSan build; small under-reads inside the sentinel margin are only detected if they change a result',
]
TRUSTED_BASE = [
    'Rocq kernel: coqc 8.16.1; theorems closed under the global context (parsed from Print Assumptions on this run)',
    'extraction: ExtrOcamlBasic only, Z/positive/nat inductive; OCaml 4.13.1; hand-written reader/printer c13/ocaml/kernelrun.ml',
    'harness: kernels.py (ctypes signatures regenerated from kernel-specification.yml and cross-checked with kernels.h, '
    'fenced buffers, typed-buffer execution of the YAML definitions), kernels_gen.py (argument generators = preconditions)',
    'Gallina kernel models in c13/coq/Kernels.v are hand-written transcriptions of src/cpu-kernels/*.cpp, tied by differential testing',
]

PLAN = {   # cases per specialization: (common, own, bad, extreme)
    'quick': (20, 20, 10, 10),
    'thorough': (150, 150, 100, 100),
}


class Task:
    __slots__ = ('spec', 'cases')

    def __init__(self, spec, cases):
        self.spec, self.cases = spec, cases     # cases: list of (j, seed, view, mode)


CORPUS = os.path.join(C.VERIF, 'corpus', 'C13')


def _calls_of(path):
    tasks = []
    for ln in open(path):
        ln = ln.strip()
        if ln.startswith('CALL '):
            d = json.loads(ln[5:])
            tasks.append(Task(d['spec'], [('replay', ln[5:], 'own', 'replay')]))
    return tasks


def cases(rng, tier):
    nc, no, nb, ne = PLAN[tier]
    tasks = []
    if os.path.isdir(CORPUS):          # minimised past failures first
        for fn in sorted(os.listdir(CORPUS)):
            if fn.endswith('.case'):
                tasks += _calls_of(os.path.join(CORPUS, fn))
    for k in K.load_spec():
        cseeds = [rng.getrandbits(48) for _ in range(nc)]     # shared by all specializations of the kernel
        for s in k.specs:
            cs = [(j, cseeds[j], 'common', 'valid') for j in range(nc)]
            j = nc
            for n, mode in ((no, 'valid'), (nb, 'bad'), (ne, 'extreme')):
                for _ in range(n):
                    cs.append((j, rng.getrandbits(48), 'own', mode))
                    j += 1
            tasks.append(Task(s.name, cs))
    return _Cases(tasks)


class _Cases(list):
    """list of tasks whose len() is the number of calls"""
    def __init__(self, tasks):
        super().__init__(tasks)

    def ncalls(self):
        return sum(len(t.cases) for t in self)


def replay_cases(path):
    return _Cases(_calls_of(path))


def build():
    os.makedirs(B13, exist_ok=True)
    M.build()


def signature(kernel, what):
    return 'kernel-%s-%s' % (kernel, what)


# ---------------------------------------------------------------------------------------------- worker
def canon(call, rc):
    """outputs with unwritten cells as None and integral floats as ints (for cross-specialization comparison)"""
    out = {}
    for a in call.spec.args:
        if a.name in rc['out']:
            s = K.SENT[a.prim]
            isb = K.PRIM[a.prim][4] == 'b'

            def cv(x):
                if isinstance(x, list):
                    return [cv(y) for y in x]
                if x == s:
                    return None
                if isb:
                    return bool(x)
                if isinstance(x, float) and x == x and abs(x) != float('inf') and x == int(x):
                    return int(x)
                return x
            out[a.name] = cv(rc['out'][a.name])
    return [rc['status'], out]


def eval_case(spec, case, san, prog):
    """-> dict(verdict, detail, call(json), canon, nontrivial, model_line, rc)"""
    j, seed, view, mode = case
    if j == 'replay':
        call = K.Call.from_json(seed)
        meta = dict(mode='replay', view='own')
    else:
        rng = random.Random(seed)
        call, meta = G.generate(spec, rng, view, mode)
        why = G.materialize(call)
        if why:
            return dict(verdict='gen', detail=why, call=call.to_json() if all(v is not None for v in call.vals.values()) else '', meta=meta)
    rs = K.run_spec(call)
    if prog is not None:
        prog[1] = 1
        prog[2] = int(time.time())
    rc = K.run_compiled(call, san)
    if prog is not None:
        prog[1] = 0
    v, d = K.compare(call, rc, rs)
    if v in ('out', 'status') and call.spec.kernel.pyfunc_exact is not None:
        v2, d2 = K.compare(call, rc, K.run_spec(call, exact=True))
        if v2 in ('agree', 'agree-err'):
            v, d = 'agree-exactfloat', d
    pv = G.check_property(call, rc) if v in ('agree', 'spec-notexec', 'spec-oob', 'out') else None
    return dict(verdict=v, detail=d, call=call, meta=meta, rc=rc, rs=rs, prop=pv)


def worker_main(wid, tasklist, skip, san, conn, prog):
    """tasklist: [(task_id, Task)]; skip: {task_id: set(j)}; prog: shared [task_id, in_c, t0, case_j]"""
    try:
        byname = K.spec_by_name()
        for tid, t in tasklist:
            prog[0] = tid
            res = dict(tid=tid, spec=t.spec, n=0, verdicts=collections.Counter(), findings=[], canon={}, keys=[],
                       samples=[], model=collections.Counter(), msgdiff=[], modes=collections.Counter())
            mlines, mcalls = [], []
            for case in t.cases:
                j = case[0]
                if j in skip.get(tid, ()):
                    continue
                prog[3] = j if isinstance(j, int) else 0
                spec = byname[t.spec] if t.spec else None
                try:
                    r = eval_case(spec, case, san, prog)
                except Exception:        # noqa: BLE001  harness defect: fail closed
                    res['findings'].append(dict(kind='bad', what='harness error in %s case %s: %s' % (
                        t.spec, j, traceback.format_exc()[-800:]), call='', spec=t.spec or '?'))
                    res['verdicts']['bad'] += 1
                    continue
                res['n'] += 1
                v = r['verdict']
                res['verdicts'][v] += 1
                if v == 'gen':
                    res['findings'].append(dict(kind='bad', what='generator of %s could not produce a call: %s' % (t.spec, r['detail']),
                                                call='', spec=t.spec))
                    continue
                call = r['call']
                sname = call.spec.name
                res['modes'][r['meta']['mode']] += 1
                if v in ('guard', 'inmod', 'status', 'out', 'nosym'):
                    res['findings'].append(dict(kind=v, what=r['detail'], call=call.to_json(), spec=sname,
                                                mode=r['meta']['mode']))
                elif v == 'agree-err' and r['detail']:
                    res['msgdiff'].append(r['detail'])
                if r['prop']:
                    res['findings'].append(dict(kind='property', what=r['prop'], call=call.to_json(), spec=sname,
                                                mode=r['meta']['mode']))
                if v == 'agree-exactfloat':
                    res.setdefault('lossy', []).append((sname, r['detail'], call.to_json()[:400]))
                if v in ('spec-notexec', 'spec-oob', 'spec-timeout'):
                    res.setdefault('specfail', {}).setdefault(v, r['detail'])
                rc = r['rc']
                if case[2] == 'common' and rc.get('status') in ('ok', 'err'):
                    res['canon'][j] = canon(call, rc)
                if rc.get('status') == 'ok' and call.nontrivial_lengths():
                    res['keys'].append(call.key()[:16])
                    if len(res['samples']) < 1 and v == 'agree':
                        res['samples'].append(call.to_json()[:300])
                if M.modelled(call.spec.kernel.name) and rc.get('status') in ('ok', 'err'):
                    ml = M.model_line('m%d' % len(mlines), call)
                    if ml is not None:
                        mlines.append(ml)
                        mcalls.append((call, rc, v, r['meta']['mode']))
            if mlines:
                outs = M.run_model(mlines)
                for i, (call, rc, sv, mode) in enumerate(mcalls):
                    mv, md = M.compare_model(call, rc, None, outs.get('m%d' % i))
                    res['model'][mv] += 1
                    if mv == 'bad':
                        res['findings'].append(dict(kind='bad', what='model of %s: %s' % (call.spec.kernel.name, md),
                                                    call=call.to_json(), spec=call.spec.name, mode=mode))
                    elif mv == 'diff':
                        if sv in ('agree', 'agree-err', 'agree-exactfloat'):
                            # compiled = YAML definition, so the model is the odd one out: correspondence broken
                            res['findings'].append(dict(kind='model-diff', what=md, call=call.to_json(), spec=call.spec.name, mode=mode))
                        elif sv in ('out', 'status'):
                            # compiled != definition is already reported -- except for kernels marked automatic-tests:
                            # false, where a disagreeing definition alone is treated as unreliable; there the model
                            # disagreeing TOO (two specifications against the compiled code) is the violation
                            if not call.spec.kernel.auto:
                                res['findings'].append(dict(kind='modelspec', what=md + ' (the YAML definition disagrees with the compiled kernel as well)',
                                                            call=call.to_json(), spec=call.spec.name, mode=mode))
                        else:
                            # no executable definition: the model is the specification
                            res['findings'].append(dict(kind='modelspec', what=md, call=call.to_json(), spec=call.spec.name, mode=mode))
            conn.send(res)
        conn.send(None)
    except Exception:      # noqa: BLE001
        conn.send(dict(fatal=traceback.format_exc()))
    finally:
        conn.close()


def run_parallel(tasks, san=False, nproc=None, case_timeout=20.0):
    """returns (list of task results, list of crash findings)"""
    nproc = nproc or min(16, os.cpu_count() or 4)
    byname = K.spec_by_name()
    # longest first, then round robin
    indexed = list(enumerate(tasks))
    indexed.sort(key=lambda it: -len(it[1].cases) * (3 if (it[1].spec and byname[it[1].spec].kernel.pyfunc) else 1))
    buckets = [indexed[i::nproc] for i in range(nproc)]
    ctx = mp.get_context('fork')
    results, crashes = [], []
    unconfirmed = []        # workers that died / were killed on a call that returns normally when re-run alone (load)
    workers = {}

    def start(wid, tl, skip):
        if not tl:
            return
        pc, cc = ctx.Pipe(duplex=False)
        prog = ctx.RawArray('q', 4)
        prog[0] = -1
        p = ctx.Process(target=worker_main, args=(wid, tl, skip, san, cc, prog), daemon=True)
        p.start()
        cc.close()
        workers[wid] = dict(p=p, conn=pc, prog=prog, tl=tl, skip=skip, done=set())

    if san:
        os.environ['ASAN_OPTIONS'] = 'detect_leaks=0:abort_on_error=1:allocator_may_return_null=1:verify_asan_link_order=0'
        os.environ['UBSAN_OPTIONS'] = 'halt_on_error=1:abort_on_error=1:print_stacktrace=1'
    for wid, b in enumerate(buckets):
        start(wid, b, {})
    while workers:
        conns = {w['conn']: wid for wid, w in workers.items()}
        ready = mpwait(list(conns), timeout=2.0)
        for c in ready:
            wid = conns[c]
            w = workers[wid]
            try:
                msg = c.recv()
            except (EOFError, OSError):
                msg = 'dead'
            if msg is None:
                w['p'].join()
                del workers[wid]
                continue
            if isinstance(msg, dict) and 'fatal' in msg:
                crashes.append(dict(kind='bad', what='worker failed: ' + msg['fatal'][-800:], call='', spec='?'))
                w['p'].join()
                del workers[wid]
                continue
            if msg == 'dead':
                w['p'].join()
                tid, inc, t0, j = list(w['prog'])
                rest = [(t, tk) for t, tk in w['tl'] if t not in w['done']]
                del workers[wid]
                if tid < 0 or not rest:
                    crashes.append(dict(kind='bad', what='worker %d died outside a task (exit %s)' % (wid, w['p'].exitcode), call='', spec='?'))
                    continue
                tk = dict(rest)[tid]
                case = [cs for cs in tk.cases if (cs[0] if isinstance(cs[0], int) else 0) == j][0]
                cf = _crash_finding(tk, case, 'crash (exit code %s)%s' % (w['p'].exitcode, '' if inc else ' outside the compiled call'), byname)
                if _confirm_crash(cf.get('call'), san):
                    crashes.append(cf)
                else:
                    unconfirmed.append(cf)
                skip = w['skip']
                skip.setdefault(tid, set()).add(case[0])
                start(wid, rest, skip)
                continue
            w['done'].add(msg['tid'])
            results.append(msg)
        # hang detection
        now = int(time.time())
        for wid, w in list(workers.items()):
            tid, inc, t0, j = list(w['prog'])
            if inc and now - t0 > case_timeout:
                w['p'].kill()
    return results, crashes


def _confirm_crash(call_json, san):
    """re-run one call alone in a fresh process (up to 120 s): a worker killed while the machine was merely busy is not a
    crash of the kernel.  True = the call kills / hangs its process again (or cannot be re-run: fail closed)"""
    if not call_json:
        return True
    code = ('import sys; sys.path.insert(0, %r); import kernels as K; '
            'c = K.Call.from_json(sys.stdin.read()); K.run_compiled(c, %r); print("returned")' % (os.path.dirname(os.path.dirname(os.path.abspath(__file__))), bool(san)))
    try:
        p = subprocess.run([sys.executable, '-c', code], input=call_json, stdout=subprocess.PIPE, stderr=subprocess.PIPE,
                           text=True, timeout=120, env=dict(os.environ))
    except subprocess.TimeoutExpired:
        return True
    return not (p.returncode == 0 and 'returned' in p.stdout)


def _crash_finding(tk, case, what, byname):
    call_json = ''
    try:
        if case[0] == 'replay':
            call_json = case[1]
        else:
            call, meta = G.generate(byname[tk.spec], random.Random(case[1]), case[2], case[3])
            G.materialize(call)
            call_json = call.to_json()
    except Exception:      # noqa: BLE001
        pass
    return dict(kind='crash', what=what, call=call_json, spec=tk.spec or json.loads(call_json or '{"spec":"?"}')['spec'],
                mode=case[3])


# ---------------------------------------------------------------------------------------------- verdicts
def run(tasks, tier, rng):
    t0 = time.time()
    specs = K.load_spec()
    byname = K.spec_by_name()
    findings = []
    corr = {}
    # --- inventory obligations
    probs, ndecl = K.header_crosscheck()
    corr['inventory:kernels.h-vs-kernel-specification.yml'] = not probs
    for p in probs[:5]:
        findings.append(dict(kind='inventory', what=p, case_lines=['# ' + p], signature=None, no_input=True))
    missing_gen, extra_gen = G.coverage()
    corr['inventory:generator-for-every-kernel'] = not missing_gen
    for n in missing_gen:
        findings.append(dict(kind='inventory', what='no argument generator for kernel %s (new kernel?)' % n,
                             case_lines=['# ' + n], signature=None, no_input=True))
    mp_probs = M.registry_problems()
    corr['inventory:model-registry'] = not mp_probs
    for p in mp_probs:
        findings.append(dict(kind='inventory', what=p, case_lines=['# ' + p], signature=None, no_input=True))

    results, crashes = run_parallel(tasks, san=False)
    C.log('std run: %d task results, %d crashes, %.1fs' % (len(results), len(crashes), time.time() - t0))
    if tier == 'thorough' and any(c[0] != 'replay' for t in tasks for c in t.cases):
        try:
            C.build_impl(True)
            sub = _Cases([Task(t.spec, t.cases[::5] if len(t.cases) > 1 else t.cases) for t in tasks])
            r2, c2 = run_san(sub)
            for r in r2:
                r['san'] = True
            results += r2
            crashes += c2
            C.log('san run: %d task results, %d crashes' % (len(r2), len(c2)))
        except Exception as e:      # noqa: BLE001
            findings.append(dict(kind='bad', what='sanitizer run could not be performed: %r' % (e,), case_lines=['# san'],
                                 signature=None, no_input=True))

    per = collections.defaultdict(lambda: dict(calls=0, verdicts=collections.Counter(), model=collections.Counter(),
                                                specs=set(), specfail={}, msgdiff=[]))
    keys = set()
    samples = []
    canon_by = collections.defaultdict(dict)     # kernel -> j -> {spec: canon}
    raw = []
    modes = collections.Counter()
    lossy = {}
    for r in results:
        kname = byname[r['spec']].kernel.name if r['spec'] else None
        for f in r['findings']:
            raw.append(f)
        if kname is None:
            for f in r['findings']:
                pass
            kname = '?'
        p = per[kname]
        p['calls'] += r['n']
        p['verdicts'].update(r['verdicts'])
        p['model'].update(r['model'])
        modes.update(r['modes'])
        if r['n']:
            p['specs'].add(r['spec'])
        for k2, v2 in r.get('specfail', {}).items():
            p['specfail'].setdefault(k2, v2)
        p['msgdiff'] += r['msgdiff'][:2]
        for it in r.get('lossy', [])[:1]:
            lossy.setdefault(kname, dict(kernel=kname, spec=it[0], what=it[1][:200], call=it[2]))
        keys.update((r['spec'], k) for k in r['keys'])
        if r['samples'] and len(samples) < 6:
            samples += r['samples']
        if not r.get('san'):
            for j, cn in r['canon'].items():
                canon_by[kname].setdefault(j, {})[r['spec']] = cn
    raw += crashes

    # --- all specializations of one kernel agree
    agree_checked = 0
    for kname, byj in canon_by.items():
        for j, d in byj.items():
            if len(d) < 2:
                continue
            agree_checked += 1
            names = sorted(d)
            ref = d[names[0]]
            for nme in names[1:]:
                if not _canon_eq(ref, d[nme]):
                    tk = [t for t in tasks if t.spec == nme and len(t.cases) > 1][0]
                    case = [c for c in tk.cases if c[0] == j][0]
                    f = _crash_finding(tk, case, '', byname)
                    f.update(kind='specializations', what='specializations %s and %s of %s disagree on a common input: %s vs %s' % (
                        names[0], nme, kname, json.dumps(ref)[:300], json.dumps(d[nme])[:300]))
                    raw.append(f)
                    break

    # --- classify
    spec_not_exec, spec_unreliable, table = [], [], {}
    known = {k.get('signature') for k in C.load_known() if k.get('property') == 'C13' and k.get('status') != 'fixed'}
    for k in specs:
        p = per.get(k.name)
        ok_votes = p['verdicts']['agree'] + p['verdicts']['agree-err'] if p else 0
        if k.pyfunc is None or (p and ok_votes == 0 and p['specfail']):
            why = k.pyerr or '; '.join('%s: %s' % kv for kv in p['specfail'].items())
            spec_not_exec.append(dict(kernel=k.name, why=why[:200], automatic_tests=k.auto))
    sne = {d['kernel'] for d in spec_not_exec}
    grouped = collections.OrderedDict()
    for f in raw:
        sp = f.get('spec')
        kname = byname[sp].kernel.name if sp in byname else '?'
        kern = byname[sp].kernel if sp in byname else None
        kind = f['kind']
        if kind in ('status', 'out') and kern is not None and not kern.auto:
            spec_unreliable.append(dict(kernel=kname, spec=sp, what=f['what'][:300], call=f['call'][:600]))
            continue
        if kind == 'bad':
            sig, what, no_input = None, f['what'], True
        elif kind.startswith('model-'):
            sig = signature(kname, 'model')
            what = 'correspondence corr:%s broken: Gallina model differs from the compiled kernel (%s) [%s]' % (kname, kind, f['what'][:400])
            no_input = True
        elif kind == 'modelspec':
            sig = signature(kname, 'differs-from-model')
            what = '%s: compiled kernel differs from its Gallina model, the only executable specification of this kernel (%s stream): %s' % (
                sp, f.get('mode'), f['what'][:400])
            no_input = False
        elif kind == 'specializations':
            sig, what, no_input = signature(kname, 'specializations-disagree'), f['what'], False
        elif kind == 'crash':
            sig, what, no_input = signature(kname, 'crash'), '%s: compiled kernel %s on precondition-satisfying input (%s stream)' % (
                sp, f['what'], f.get('mode')), False
        elif kind == 'guard':
            sig, what, no_input = signature(kname, 'writes-outside-extent'), '%s: %s' % (sp, f['what']), False
        elif kind == 'inmod':
            sig, what, no_input = signature(kname, 'modifies-const-argument'), '%s: %s' % (sp, f['what']), False
        elif kind == 'property':
            sig, what, no_input = signature(kname, 'order-property'), '%s: %s' % (sp, f['what']), False
        elif kind == 'nosym':
            sig, what, no_input = signature(kname, 'missing-symbol'), f['what'], True
        else:
            sig = signature(kname, 'differs-from-definition-' + kind)
            what = '%s: compiled kernel differs from its Python definition (%s stream): %s' % (sp, f.get('mode'), f['what'][:500])
            no_input = False
        key = (kind.split('-')[0], kname)
        size = len(f.get('call') or '')
        if key not in grouped or size < grouped[key]['size']:
            grouped[key] = dict(kind=kind, what=what, signature=sig, no_input=no_input, size=size,
                                case_lines=(['CALL ' + f['call']] if f.get('call') else ['# no call recorded']))
    for f in grouped.values():
        findings.append(f)

    modelled = sorted(M.MODELS)
    replay_only = all(c[0] == 'replay' for t in tasks for c in t.cases)
    for k in specs:
        p = per.get(k.name)
        bad = [f for (kd, kn), f in grouped.items() if kn == k.name and f['signature'] not in known]
        if replay_only and not (p and p['calls'] > 0):
            continue
        corr['corr:' + k.name] = bool(p and p['calls'] > 0 and not bad)
        if p:
            table[k.name] = dict(calls=p['calls'], specializations=len(p['specs']),
                                 verdicts=dict(p['verdicts']), model=dict(p['model']),
                                 spec='not-executable' if k.name in sne else 'executable',
                                 modelled=k.name in M.MODELS)
    n_specs_called = len({r['spec'] for r in results if r['n'] and r['spec']})
    verd = collections.Counter()
    for p in per.values():
        verd.update(p['verdicts'])
    msg_diffs = sorted({m for p in per.values() for m in p['msgdiff']})
    extra = dict(
        kernels_total=len(specs), specializations_total=sum(len(k.specs) for k in specs),
        specializations_called=n_specs_called, symbols_in_kernels_h=ndecl,
        kernels_with_executable_spec=len(specs) - len(spec_not_exec),
        kernels_modelled=len(modelled), kernels_proved=M.proved_counts(),
        spec_not_executable=spec_not_exec, spec_disagrees_autotests_false=_dedup(spec_unreliable),
        definition_lossy_float_cast=sorted(lossy.values(), key=lambda d: d['kernel']),
        specialization_agreement_inputs=agree_checked, error_message_differences=msg_diffs[:20],
        model_verdicts=dict(sum((collections.Counter(p['model']) for p in per.values()), collections.Counter())),
        per_kernel=table, wall_correspondence_s=round(time.time() - t0, 1),
    )
    extra['spec_not_executable_count'] = len(spec_not_exec)
    extra['spec_disagrees_autotests_false_count'] = len(extra['spec_disagrees_autotests_false'])
    extra['definition_lossy_float_cast_count'] = len(lossy)
    ASSUMPTIONS[:] = [a for a in ASSUMPTIONS if not a.startswith('measured on this run:')]
    ASSUMPTIONS.append('measured on this run: %d kernels with a placeholder / non-executable YAML definition (model or '
                       'cross-specialization voters only): %s; %d kernels marked automatic-tests: false whose executable '
                       'definition disagrees with the compiled code (not flagged): %s; %d kernels whose definition '
                       'disagrees only through its double-precision float() cast (not flagged): %s' % (
                           len(spec_not_exec), ', '.join(d['kernel'] for d in spec_not_exec),
                           len(extra['spec_disagrees_autotests_false']),
                           ', '.join(d['kernel'] for d in extra['spec_disagrees_autotests_false']),
                           len(lossy), ', '.join(sorted(lossy))))
    return dict(findings=findings, corr_obligations=corr, evaluations=sum(r['n'] for r in results),
                distinct_nontrivial=len(keys), samples=samples[:6], distribution=dict(stream=dict(modes)),
                verdicts=dict(verd), extra=extra)


def _canon_eq(x, y):
    if isinstance(x, bool) or isinstance(y, bool):
        if x is None or y is None:
            return x is y
        return bool(x) == bool(y)
    if isinstance(x, list) and isinstance(y, list):
        return len(x) == len(y) and all(_canon_eq(p, q) for p, q in zip(x, y))
    if isinstance(x, dict) and isinstance(y, dict):
        return sorted(x) == sorted(y) and all(_canon_eq(x[k], y[k]) for k in x)
    if isinstance(x, float) and isinstance(y, float) and x != x and y != y:
        return True
    return x == y


def _dedup(lst):
    seen, out = set(), []
    for d in lst:
        if d['kernel'] not in seen:
            seen.add(d['kernel'])
            out.append(d)
    return out


def run_san(tasks):
    """ASan+UBSan build: the workers must start with libasan preloaded -> run this module as a subprocess"""
    path = os.path.join(B13, 'san_tasks.json')
    with open(path, 'w') as f:
        json.dump([[t.spec, t.cases] for t in tasks], f)
    env = dict(os.environ)
    asan = subprocess.run('gcc -print-file-name=libasan.so', shell=True, stdout=subprocess.PIPE, text=True).stdout.strip()
    env['LD_PRELOAD'] = asan
    env['ASAN_OPTIONS'] = 'detect_leaks=0:abort_on_error=1:allocator_may_return_null=1'
    env['UBSAN_OPTIONS'] = 'halt_on_error=1:abort_on_error=1:print_stacktrace=1'
    out = os.path.join(B13, 'san_results.json')
    p = subprocess.run([sys.executable, os.path.abspath(__file__), '--san-child', path, out], env=env,
                       stdout=subprocess.PIPE, stderr=subprocess.STDOUT, text=True, timeout=3000)
    if p.returncode != 0:
        raise RuntimeError('san child failed: ' + p.stdout[-1500:])
    d = json.load(open(out))
    res = d['results']
    for r in res:
        r['verdicts'] = collections.Counter(r['verdicts'])
        r['model'] = collections.Counter(r['model'])
        r['modes'] = collections.Counter(r['modes'])
        r['canon'] = {}
    return res, d['crashes']


if __name__ == '__main__':
    if len(sys.argv) >= 4 and sys.argv[1] == '--san-child':
        tl = [Task(s, [tuple(c) for c in cs]) for s, cs in json.load(open(sys.argv[2]))]
        res, cr = run_parallel(tl, san=True)
        for r in res:
            r['canon'] = {}
        json.dump(dict(results=res, crashes=cr), open(sys.argv[3], 'w'))
