(** Induction principle for [content] that sees through the nested lists of
    Union / Record. *)
From AwkV Require Import Layout.

Section Ind.
  Variable P : content -> Prop.
  Hypothesis HNumpy : forall dt shape data, P (Numpy dt shape data).
  Hypothesis HEmpty : P Empty.
  Hypothesis HListOffset : forall w o c, P c -> P (ListOffset w o c).
  Hypothesis HListA : forall w s e c, P c -> P (ListA w s e c).
  Hypothesis HRegular : forall c size zl, P c -> P (Regular c size zl).
  Hypothesis HIndexed : forall w ix c, P c -> P (Indexed w ix c).
  Hypothesis HIndexedOption : forall w ix c, P c -> P (IndexedOption w ix c).
  Hypothesis HByteMasked : forall m vw c, P c -> P (ByteMasked m vw c).
  Hypothesis HBitMasked : forall m vw lsb n c, P c -> P (BitMasked m vw lsb n c).
  Hypothesis HUnmasked : forall c, P c -> P (Unmasked c).
  Hypothesis HUnion : forall w t ix cs, Forall P cs -> P (Union w t ix cs).
  Hypothesis HRecord : forall cs ks n, Forall P cs -> P (Record cs ks n).
  Hypothesis HPar : forall arr rn c, P c -> P (Par arr rn c).

  Fixpoint content_ind' (c : content) : P c :=
    match c with
    | Numpy dt shape data => HNumpy dt shape data
    | Empty => HEmpty
    | ListOffset w o c' => HListOffset w o c' (content_ind' c')
    | ListA w s e c' => HListA w s e c' (content_ind' c')
    | Regular c' size zl => HRegular c' size zl (content_ind' c')
    | Indexed w ix c' => HIndexed w ix c' (content_ind' c')
    | IndexedOption w ix c' => HIndexedOption w ix c' (content_ind' c')
    | ByteMasked m vw c' => HByteMasked m vw c' (content_ind' c')
    | BitMasked m vw lsb n c' => HBitMasked m vw lsb n c' (content_ind' c')
    | Unmasked c' => HUnmasked c' (content_ind' c')
    | Union w t ix cs =>
        HUnion w t ix cs
          ((fix go (l : list content) : Forall P l :=
              match l with
              | [] => Forall_nil P
              | x :: xs => Forall_cons x (content_ind' x) (go xs)
              end) cs)
    | Record cs ks n =>
        HRecord cs ks n
          ((fix go (l : list content) : Forall P l :=
              match l with
              | [] => Forall_nil P
              | x :: xs => Forall_cons x (content_ind' x) (go xs)
              end) cs)
    | Par arr rn c' => HPar arr rn c' (content_ind' c')
    end.
End Ind.
