(** C17b, extended printing/re-parsing round trip, stage 1: a reference parser for the compact JSON text
    rj::Writer emits ([json_print]) and the proof that it inverts the printer on the fragment [json_ok].
    JDbl (non-integral numbers, carried as the text rj::Writer chose) is in [json_ok] when that text is a number
    token (digits . e E + -) that starts with a digit or '-' and contains '.', 'e' or 'E' (every text rj::Writer
    emits for a finite non-integral double); other texts are excluded: no lexer can delimit them. *)
From Coq Require Import ZArith List Bool Lia ZifyBool DecimalZ DecimalPos.
From AwkV Require Import Base Layout.
From AwkTypes Require Import Json Forms TypeStr Proofs_Json Proofs_Parse.
Import ListNotations.
Open Scope Z_scope.
Ltac Zify.zify_post_hook ::= Z.to_euclidean_division_equations.

(* ---------------------------------------------------------------- the parser *)
Definition w_ull : bytes := [117; 108; 108].
Definition w_rue : bytes := [114; 117; 101].
Definition w_alse : bytes := [97; 108; 115; 101].

Definition isfrac (c : Z) : bool := (c =? 46) || (c =? 101) || (c =? 69).
Definition numchar (c : Z) : bool := is_digit c || isfrac c || (c =? 43) || (c =? 45).
Definition dbl_text_ok (t : bytes) : bool :=
  match t with [] => false | c :: _ => (c =? 45) || is_digit c end && forallb numchar t && existsb isfrac t.

Section JP.
  Variable sub : bytes -> res (json * bytes).

  (* v ("," v)* "]" *)
  Fixpoint jp_elems (fuel : nat) (s : bytes) : res (list json * bytes) :=
    match fuel with
    | O => Err EFuel
    | S fuel' =>
        do vr <- sub s;
        match snd vr with
        | c :: r =>
            if c =? 93 then Ok ([fst vr], r)
            else if c =? 44 then do lr <- jp_elems fuel' r; Ok (fst vr :: fst lr, snd lr)
            else Err EValue
        | [] => Err EValue
        end
    end.

  (* "k":v ("," "k":v)* "}" *)
  Fixpoint jp_members (fuel : nat) (s : bytes) : res (list (bytes * json) * bytes) :=
    match fuel with
    | O => Err EFuel
    | S fuel' =>
        do kr <- unquote s;
        match snd kr with
        | c0 :: s1 =>
            if c0 =? 58 then
              do vr <- sub s1;
              match snd vr with
              | c :: r =>
                  if c =? 125 then Ok ([(fst kr, fst vr)], r)
                  else if c =? 44 then do lr <- jp_members fuel' r; Ok ((fst kr, fst vr) :: fst lr, snd lr)
                  else Err EValue
              | [] => Err EValue
              end
            else Err EValue
        | [] => Err EValue
        end
    end.

  Definition jp_lit (w : bytes) (v : json) (r : bytes) : res (json * bytes) :=
    match strip_prefix w r with Some r' => Ok (v, r') | None => Err EValue end.
  Definition jp_str (s : bytes) : res (json * bytes) := do kr <- unquote s; Ok (JStr (fst kr), snd kr).
  Definition jp_arr (fuel : nat) (r : bytes) : res (json * bytes) :=
    match r with
    | c :: r' => if c =? 93 then Ok (JArr [], r') else do lr <- jp_elems fuel r; Ok (JArr (fst lr), snd lr)
    | [] => Err EValue
    end.
  Definition jp_obj (fuel : nat) (r : bytes) : res (json * bytes) :=
    match r with
    | c :: r' => if c =? 125 then Ok (JObj [], r') else do lr <- jp_members fuel r; Ok (JObj (fst lr), snd lr)
    | [] => Err EValue
    end.
  (* a number token; with '.', 'e' or 'E' it is a double, kept as its text; otherwise -?digits *)
  Definition jp_num (s : bytes) : res (json * bytes) :=
    let (tok, rest) := span numchar s in
    if existsb isfrac tok then Ok (JDbl tok, rest)
    else match tok with
         | c :: ds =>
             if c =? 45 then
               match ds with
               | [] => Err EValue
               | _ => if forallb is_digit ds then Ok (JInt (- Z_of_digits ds), rest) else Err EValue
               end
             else if forallb is_digit tok then Ok (JInt (Z_of_digits tok), rest) else Err EValue
         | [] => Err EValue
         end.

  Definition jp_value (fuel : nat) (s : bytes) : res (json * bytes) :=
    match s with
    | [] => Err EValue
    | c :: r =>
        if c =? 110 then jp_lit w_ull JNull r
        else if c =? 116 then jp_lit w_rue (JBool true) r
        else if c =? 102 then jp_lit w_alse (JBool false) r
        else if c =? 34 then jp_str s
        else if c =? 91 then jp_arr fuel r
        else if c =? 123 then jp_obj fuel r
        else if (c =? 45) || is_digit c then jp_num s
        else Err EValue
    end.
End JP.

Fixpoint json_parse (fuel : nat) (s : bytes) {struct fuel} : res (json * bytes) :=
  match fuel with
  | O => Err EFuel
  | S fuel' => jp_value (json_parse fuel') fuel' s
  end.

(* a value at the head of [s]; the text is never shorter than the value is big *)
Definition json_value (s : bytes) : res (json * bytes) := json_parse (S (length s)) s.

Definition json_parse_top (s : bytes) : res json :=
  do vr <- json_value s; match snd vr with [] => Ok (fst vr) | _ => Err EValue end.

(* ---------------------------------------------------------------- the fragment *)
Fixpoint json_ok (j : json) : bool :=
  match j with
  | JNull | JBool _ | JInt _ => true
  | JDbl t => dbl_text_ok t
  | JStr s => key_ok s
  | JArr l => forallb json_ok l
  | JObj m => (fix go (m : list (bytes * json)) : bool :=
                 match m with [] => true | (k, v) :: r => key_ok k && json_ok v && go r end) m
  end.

Lemma json_ok_obj m : json_ok (JObj m) = forallb (fun kv => key_ok (fst kv) && json_ok (snd kv)) m.
Proof. induction m as [|[k v] m IH]; [reflexivity|]. cbn [forallb fst snd]. rewrite <- IH. reflexivity. Qed.

Fixpoint json_size (j : json) : nat :=
  match j with
  | JArr l => S (fold_right (fun v n => (json_size v + n)%nat) O l)
  | JObj m => S ((fix go (m : list (bytes * json)) : nat :=
                    match m with [] => O | (_, v) :: r => (json_size v + go r)%nat end) m)
  | _ => 1%nat
  end.

Lemma json_size_obj m : json_size (JObj m) = S (fold_right (fun kv n => (json_size (snd kv) + n)%nat) O m).
Proof. induction m as [|[k v] m IH]; [reflexivity|]. cbn [fold_right snd]. injection IH as IH. rewrite <- IH. reflexivity. Qed.

Lemma json_size_pos j : (1 <= json_size j)%nat.
Proof. destruct j; simpl; lia. Qed.

Section JsonInd.
  Variable P : json -> Prop.
  Hypothesis HNull : P JNull.
  Hypothesis HBool : forall b, P (JBool b).
  Hypothesis HInt : forall z, P (JInt z).
  Hypothesis HDbl : forall t, P (JDbl t).
  Hypothesis HStr : forall s, P (JStr s).
  Hypothesis HArr : forall l, Forall P l -> P (JArr l).
  Hypothesis HObj : forall m, Forall (fun kv => P (snd kv)) m -> P (JObj m).
  Fixpoint json_ind' (j : json) : P j :=
    match j with
    | JNull => HNull
    | JBool b => HBool b
    | JInt z => HInt z
    | JDbl t => HDbl t
    | JStr s => HStr s
    | JArr l => HArr l ((fix G (l : list json) : Forall P l :=
                           match l with [] => Forall_nil P | x :: xs => Forall_cons x (json_ind' x) (G xs) end) l)
    | JObj m => HObj m ((fix G (m : list (bytes * json)) : Forall (fun kv => P (snd kv)) m :=
                           match m with
                           | [] => Forall_nil _
                           | (k, v) :: xs => Forall_cons (k, v) (json_ind' v) (G xs)
                           end) m)
    end.
End JsonInd.

(* ---------------------------------------------------------------- the printer, with a named member list *)
Definition jmember_text (kv : bytes * json) : bytes := quote (fst kv) ++ 58 :: json_print (snd kv).

Lemma json_print_obj m : json_print (JObj m) = 123 :: sep_concat [44] (map jmember_text m) ++ [125].
Proof.
  cbn [json_print]. do 3 f_equal.
  induction m as [|[k v] m IH]; [reflexivity|]. cbn [map]. rewrite <- IH. reflexivity.
Qed.
Lemma json_print_arr l : json_print (JArr l) = 91 :: sep_concat [44] (map json_print l) ++ [93].
Proof. reflexivity. Qed.

(* ---------------------------------------------------------------- what may follow a value *)
Definition jfollow_ok (rest : bytes) : Prop :=
  match rest with
  | [] => True
  | c :: _ => c = 44 \/ c = 93 \/ c = 125
  end.

Lemma jfollow_not_digit rest : jfollow_ok rest -> match rest with [] => True | c :: _ => is_digit c = false end.
Proof. destruct rest as [|c r]; [auto|]. intros [->|[->| ->]]; reflexivity. Qed.

(* ---------------------------------------------------------------- integers *)
Lemma Z_of_digits_pos p : Z_of_digits (uint_digits (Pos.to_uint p)) = Zpos p.
Proof.
  unfold Z_of_digits. fold (digits_acc (uint_digits (Pos.to_uint p)) 0). rewrite digits_acc_zero.
  rewrite DecimalPos.Unsigned.of_to. reflexivity.
Qed.

Lemma digit_tests_json c : is_digit c = true ->
  (c =? 110) = false /\ (c =? 116) = false /\ (c =? 102) = false /\ (c =? 34) = false /\
  (c =? 91) = false /\ (c =? 123) = false /\ (c =? 45) = false.
Proof.
  unfold is_digit. intros H. apply andb_true_iff in H as [H1 H2]. apply Z.leb_le in H1, H2.
  repeat split; apply Z.eqb_neq; lia.
Qed.

Lemma dec_of_Z_cases z :
  (exists u, dec_of_Z z = uint_digits u /\ u <> Decimal.Nil /\ Z_of_digits (uint_digits u) = z) \/
  (exists u, dec_of_Z z = 45 :: uint_digits u /\ u <> Decimal.Nil /\ - Z_of_digits (uint_digits u) = z).
Proof.
  destruct (Z_lt_le_dec z 0) as [Hneg|Hpos].
  - right. destruct z as [|p|p]; try lia. exists (Pos.to_uint p). split; [reflexivity|].
    split; [apply DecimalPos.Unsigned.to_uint_nonnil|]. rewrite Z_of_digits_pos. reflexivity.
  - left. apply Z_of_digits_dec. exact Hpos.
Qed.

Lemma jfollow_not_numchar rest : jfollow_ok rest -> match rest with [] => True | c :: _ => numchar c = false end.
Proof. destruct rest as [|c r]; [auto|]. intros [->|[->| ->]]; reflexivity. Qed.

Lemma digits_numchar ds : forallb is_digit ds = true -> forallb numchar ds = true /\ existsb isfrac ds = false.
Proof.
  induction ds as [|c ds IH]; [split; reflexivity|]. simpl. intros H. apply andb_true_iff in H as [Hc H].
  destruct (IH H) as [H1 H2]. rewrite H1, H2.
  assert (numchar c = true /\ isfrac c = false) as [-> ->] by (unfold numchar, isfrac, is_digit in *; split; lia).
  split; reflexivity.
Qed.

Lemma num_head_tests c : (c =? 45) || is_digit c = true ->
  (c =? 110) = false /\ (c =? 116) = false /\ (c =? 102) = false /\ (c =? 34) = false /\
  (c =? 91) = false /\ (c =? 123) = false.
Proof. unfold is_digit. intros H. repeat split; lia. Qed.

Lemma json_parse_num fuel c r : (c =? 45) || is_digit c = true ->
  json_parse (S fuel) (c :: r) = jp_num (c :: r).
Proof.
  intros H. destruct (num_head_tests c H) as (H1 & H2 & H3 & H4 & H5 & H6).
  cbn [json_parse]. unfold jp_value. rewrite H1, H2, H3, H4, H5, H6, H. reflexivity.
Qed.

Lemma json_parse_int fuel z rest : jfollow_ok rest ->
  json_parse (S fuel) (dec_of_Z z ++ rest) = Ok (JInt z, rest).
Proof.
  intros Hr. pose proof (jfollow_not_numchar rest Hr) as Hnn.
  destruct (dec_of_Z_cases z) as [(u & Hu & Hnil & Hval)|(u & Hu & Hnil & Hval)]; rewrite Hu;
    destruct (uint_digits_head u Hnil) as (c & r & Hcr & Hd);
    destruct (digits_numchar _ (uint_digits_digits u)) as [Hnum Hfrac];
    destruct (digit_tests_json c Hd) as (_ & _ & _ & _ & _ & _ & H45).
  - assert (Hj : json_parse (S fuel) (uint_digits u ++ rest) = jp_num (uint_digits u ++ rest)).
    { rewrite Hcr. cbn [app]. apply json_parse_num. rewrite Hd. apply orb_true_r. }
    rewrite Hj. unfold jp_num. rewrite (span_word numchar _ _ Hnum Hnn), Hfrac.
    rewrite (uint_digits_digits u), Hval. rewrite Hcr, H45. reflexivity.
  - assert (Hj : json_parse (S fuel) ((45 :: uint_digits u) ++ rest) = jp_num ((45 :: uint_digits u) ++ rest))
      by (apply json_parse_num; reflexivity).
    rewrite Hj. unfold jp_num.
    rewrite (span_word numchar (45 :: uint_digits u) rest) by (try exact Hnn; cbn [forallb]; rewrite Hnum; reflexivity).
    cbn [existsb]. rewrite Hfrac. change (isfrac 45 || false) with false. cbv iota. change (45 =? 45) with true. cbv iota.
    rewrite (uint_digits_digits u), Hval. rewrite Hcr. reflexivity.
Qed.

Lemma json_parse_dbl fuel t rest : dbl_text_ok t = true -> jfollow_ok rest ->
  json_parse (S fuel) (t ++ rest) = Ok (JDbl t, rest).
Proof.
  unfold dbl_text_ok. intros H Hr. apply andb_true_iff in H as [H Hf]. apply andb_true_iff in H as [Hc Hn].
  destruct t as [|c t']; [discriminate|]. cbn [app]. rewrite (json_parse_num fuel c _ Hc).
  unfold jp_num. change (c :: t' ++ rest) with ((c :: t') ++ rest).
  rewrite (span_word numchar _ _ Hn (jfollow_not_numchar rest Hr)), Hf. reflexivity.
Qed.

(* ---------------------------------------------------------------- lists of values, members *)
Definition jparses (sub : bytes -> res (json * bytes)) (j : json) : Prop :=
  forall rest, jfollow_ok rest -> sub (json_print j ++ rest) = Ok (j, rest).

Lemma jp_elems_ok sub : forall l fuel rest, l <> [] -> Forall (jparses sub) l -> (length l <= fuel)%nat ->
  jp_elems sub fuel (sep_concat [44] (map json_print l) ++ 93 :: rest) = Ok (l, rest).
Proof.
  induction l as [|v l IH]; intros fuel rest Hne HF Hf; [congruence|].
  inversion HF as [|? ? Hv HF']; subst. destruct fuel as [|fuel]; [simpl in Hf; lia|].
  destruct l as [|v2 l].
  - cbn [map sep_concat jp_elems]. rewrite (Hv (93 :: rest)) by (simpl; auto).
    cbn [bind snd fst]. change (93 =? 93) with true. reflexivity.
  - cbn [map]. rewrite sep_concat_cons2.
    change (map json_print (v2 :: l)) with (json_print v2 :: map json_print l) in IH.
    rewrite <- !app_assoc. cbn [jp_elems].
    rewrite (Hv ([44] ++ sep_concat [44] (json_print v2 :: map json_print l) ++ 93 :: rest)) by (simpl; auto).
    cbn [bind snd fst app]. change (44 =? 93) with false. change (44 =? 44) with true. cbv iota.
    rewrite (IH fuel rest); [reflexivity|discriminate|exact HF'|simpl in *; lia].
Qed.

Lemma jp_members_ok sub : forall m fuel rest, m <> [] -> Forall (fun kv => jparses sub (snd kv)) m ->
  forallb key_ok (map fst m) = true -> (length m <= fuel)%nat ->
  jp_members sub fuel (sep_concat [44] (map jmember_text m) ++ 125 :: rest) = Ok (m, rest).
Proof.
  induction m as [|[k v] m IH]; intros fuel rest Hne HF Hk Hf; [congruence|].
  inversion HF as [|? ? Hv HF']; subst. simpl in Hv. simpl in Hk. apply andb_true_iff in Hk as [Hk1 Hk2].
  destruct fuel as [|fuel]; [simpl in Hf; lia|].
  destruct m as [|kv2 m].
  - cbn [map sep_concat]. unfold jmember_text. cbn [fst snd]. rewrite <- !app_assoc. cbn [jp_members].
    rewrite (unquote_quote k _ Hk1). cbn [bind snd fst app]. change (58 =? 58) with true. cbv iota.
    rewrite (Hv (125 :: rest)) by (simpl; auto).
    cbn [bind snd fst]. change (125 =? 125) with true. reflexivity.
  - cbn [map]. rewrite sep_concat_cons2. unfold jmember_text at 1. cbn [fst snd]. rewrite <- !app_assoc. cbn [jp_members].
    rewrite (unquote_quote k _ Hk1). cbn [bind snd fst app]. change (58 =? 58) with true. cbv iota.
    rewrite (Hv (44 :: sep_concat [44] (jmember_text kv2 :: map jmember_text m) ++ 125 :: rest)) by (simpl; auto).
    cbn [bind snd fst app]. change (44 =? 125) with false. change (44 =? 44) with true. cbv iota.
    change (jmember_text kv2 :: map jmember_text m) with (map jmember_text (kv2 :: m)).
    rewrite (IH fuel rest); [reflexivity|discriminate|exact HF'|exact Hk2|simpl in *; lia].
Qed.

Lemma json_sum_ge (l : list json) :
  (length l <= fold_right (fun v n => (json_size v + n)%nat) O l)%nat /\
  forall v, In v l -> (json_size v <= fold_right (fun v n => (json_size v + n)%nat) O l)%nat.
Proof.
  induction l as [|x l [IH1 IH2]]; simpl; [split; [lia|intros v []]|].
  pose proof (json_size_pos x). split; [lia|]. intros v [<-|Hin]; [lia|]. specialize (IH2 v Hin). lia.
Qed.

Lemma json_msum_ge (m : list (bytes * json)) :
  (length m <= fold_right (fun kv n => (json_size (snd kv) + n)%nat) O m)%nat /\
  forall kv, In kv m -> (json_size (snd kv) <= fold_right (fun kv n => (json_size (snd kv) + n)%nat) O m)%nat.
Proof.
  induction m as [|x m [IH1 IH2]]; simpl; [split; [lia|intros v []]|].
  pose proof (json_size_pos (snd x)). split; [lia|]. intros v [<-|Hin]; [lia|]. specialize (IH2 v Hin). lia.
Qed.

(* ---------------------------------------------------------------- the round trip *)
Definition jpp (j : json) : Prop :=
  json_ok j = true -> forall fuel rest, (json_size j <= fuel)%nat -> jfollow_ok rest ->
  json_parse fuel (json_print j ++ rest) = Ok (j, rest).

Theorem json_print_parse_all j : jpp j.
Proof.
  induction j as [|b|z|t|s|l IH|m IH] using json_ind'; intros Hok fuel rest Hf Hr;
    (destruct fuel as [|fuel]; [pose proof (json_size_pos JNull); simpl in Hf; lia|]).
  - reflexivity.
  - destruct b; reflexivity.
  - apply json_parse_int. exact Hr.
  - apply json_parse_dbl; [exact Hok|exact Hr].
  - cbn [json_ok] in Hok. cbn [json_print json_parse]. unfold quote. cbn [app]. unfold jp_value.
    change (34 =? 110) with false. change (34 =? 116) with false. change (34 =? 102) with false.
    change (34 =? 34) with true. cbv iota. unfold jp_str.
    change (34 :: (flat_map escape_char s ++ [34]) ++ rest) with (quote s ++ rest).
    rewrite (unquote_quote s rest Hok). reflexivity.
  - cbn [json_ok] in Hok. simpl json_size in Hf. rewrite json_print_arr.
    destruct (json_sum_ge l) as [Hlen Hsz].
    cbn [app json_parse]. unfold jp_value.
    change (91 =? 110) with false. change (91 =? 116) with false. change (91 =? 102) with false.
    change (91 =? 34) with false. change (91 =? 91) with true. cbv iota. unfold jp_arr.
    destruct l as [|v l]; [reflexivity|].
    assert (Hhead : exists c r', (sep_concat [44] (map json_print (v :: l)) ++ [93]) ++ rest = c :: r' /\ (c =? 93) = false).
    { inversion IH as [|? ? Hv _]; subst. simpl in Hok. apply andb_true_iff in Hok as [Hokv _].
      specialize (Hv Hokv (json_size v) [] (le_n _) I). rewrite app_nil_r in Hv.
      destruct (json_print v) as [|c r] eqn:Ev.
      - destruct (json_size v); discriminate Hv.
      - exists c. cbn [map]. rewrite Ev. destruct (map json_print l); cbn [sep_concat app]; eexists; (split; [reflexivity|]).
        + destruct (c =? 93) eqn:E; [|reflexivity]. apply Z.eqb_eq in E. subst c.
          destruct (json_size v); discriminate Hv.
        + destruct (c =? 93) eqn:E; [|reflexivity]. apply Z.eqb_eq in E. subst c.
          destruct (json_size v); discriminate Hv. }
    destruct Hhead as (c & r' & Hcr & Hc). rewrite Hcr, Hc. rewrite <- Hcr. rewrite <- app_assoc. cbn [app].
    rewrite (jp_elems_ok (json_parse fuel) (v :: l) fuel rest); [reflexivity|discriminate| |lia].
    apply Forall_forall. intros x Hx rest' Hr'. rewrite Forall_forall in IH. rewrite forallb_forall in Hok.
    apply (IH x Hx (Hok x Hx)); [specialize (Hsz x Hx); lia|exact Hr'].
  - rewrite json_ok_obj in Hok. rewrite json_size_obj in Hf. rewrite json_print_obj.
    destruct (json_msum_ge m) as [Hlen Hsz].
    cbn [app json_parse]. unfold jp_value.
    change (123 =? 110) with false. change (123 =? 116) with false. change (123 =? 102) with false.
    change (123 =? 34) with false. change (123 =? 91) with false. change (123 =? 123) with true. cbv iota. unfold jp_obj.
    destruct m as [|[k v] m]; [reflexivity|].
    assert (Hhead : exists r', (sep_concat [44] (map jmember_text ((k, v) :: m)) ++ [125]) ++ rest = 34 :: r').
    { cbn [map]. unfold jmember_text at 1. unfold quote. destruct (map jmember_text m); cbn [sep_concat app]; eexists; reflexivity. }
    destruct Hhead as (r' & Hcr). rewrite Hcr. change (34 =? 125) with false. cbv iota. rewrite <- Hcr.
    rewrite <- app_assoc. cbn [app].
    rewrite (jp_members_ok (json_parse fuel) ((k, v) :: m) fuel rest); [reflexivity|discriminate| | |lia].
    + apply Forall_forall. intros x Hx rest' Hr'. rewrite Forall_forall in IH. rewrite forallb_forall in Hok.
      specialize (Hok x Hx). apply andb_true_iff in Hok as [_ Hokx].
      apply (IH x Hx Hokx); [specialize (Hsz x Hx); lia|exact Hr'].
    + rewrite forallb_forall in Hok. apply forallb_forall. intros x Hx. apply in_map_iff in Hx as (kv & <- & Hin).
      specialize (Hok kv Hin). apply andb_true_iff in Hok as [Hk _]. exact Hk.
Qed.

(* ---------------------------------------------------------------- enough fuel *)
Lemma dec_of_Z_length z : (1 <= length (dec_of_Z z))%nat.
Proof.
  destruct (dec_of_Z_cases z) as [(u & Hu & Hnil & _)|(u & Hu & _)]; rewrite Hu.
  - destruct (uint_digits_head u Hnil) as (c & r & -> & _). simpl. lia.
  - simpl. lia.
Qed.

Lemma json_sum_sizes_le (l : list json) :
  Forall (fun v => json_ok v = true -> (json_size v <= length (json_print v))%nat) l ->
  forallb json_ok l = true ->
  (fold_right (fun v n => (json_size v + n)%nat) O l <=
   fold_right (fun p n => (length p + n)%nat) O (map json_print l))%nat.
Proof.
  induction 1 as [|v l Hv Hl IH]; intros Hp; simpl; [lia|].
  simpl in Hp. apply andb_true_iff in Hp as [H1 H2]. specialize (Hv H1). specialize (IH H2). lia.
Qed.

Lemma json_msum_sizes_le (m : list (bytes * json)) :
  Forall (fun kv => json_ok (snd kv) = true -> (json_size (snd kv) <= length (json_print (snd kv)))%nat) m ->
  forallb (fun kv => key_ok (fst kv) && json_ok (snd kv)) m = true ->
  (fold_right (fun kv n => (json_size (snd kv) + n)%nat) O m <=
   fold_right (fun p n => (length p + n)%nat) O (map jmember_text m))%nat.
Proof.
  induction 1 as [|v l Hv Hl IH]; intros Hp; [simpl; lia|]. cbn [map fold_right].
  simpl in Hp. apply andb_true_iff in Hp as [H1 H2]. apply andb_true_iff in H1 as [_ H1].
  specialize (Hv H1). specialize (IH H2). unfold jmember_text at 1. rewrite app_length. cbn [length]. lia.
Qed.

Lemma json_size_le_print j : json_ok j = true -> (json_size j <= length (json_print j))%nat.
Proof.
  induction j as [|b|z|t|s|l IH|m IH] using json_ind'; intros Hok.
  - simpl. lia.
  - destruct b; simpl; lia.
  - simpl json_size. cbn [json_print]. apply dec_of_Z_length.
  - cbn [json_ok] in Hok. unfold dbl_text_ok in Hok. destruct t; [discriminate Hok|]. simpl. lia.
  - simpl. lia.
  - cbn [json_ok] in Hok. simpl json_size. rewrite json_print_arr. cbn [length]. rewrite app_length. cbn [length].
    pose proof (json_sum_sizes_le l IH Hok). pose proof (sep_concat_length [44] (map json_print l)). lia.
  - rewrite json_ok_obj in Hok. rewrite json_size_obj, json_print_obj. cbn [length]. rewrite app_length. cbn [length].
    pose proof (json_msum_sizes_le m IH Hok). pose proof (sep_concat_length [44] (map jmember_text m)). lia.
Qed.

(* ---------------------------------------------------------------- statements *)
Theorem json_print_parse j : json_ok j = true -> forall fuel rest, (json_size j <= fuel)%nat -> jfollow_ok rest ->
  json_parse fuel (json_print j ++ rest) = Ok (j, rest).
Proof. exact (json_print_parse_all j). Qed.

Theorem json_value_print j rest : json_ok j = true -> jfollow_ok rest ->
  json_value (json_print j ++ rest) = Ok (j, rest).
Proof.
  intros Hok Hr. unfold json_value. apply json_print_parse; [exact Hok| |exact Hr].
  pose proof (json_size_le_print j Hok). rewrite app_length. lia.
Qed.

Theorem json_roundtrip j : json_ok j = true -> json_parse_top (json_print j) = Ok j.
Proof.
  intros Hok. unfold json_parse_top. rewrite <- (app_nil_r (json_print j)).
  rewrite (json_value_print j [] Hok I). reflexivity.
Qed.

(* a nested value in the fragment, and what stays outside *)
Definition json_example : json :=
  JArr [JInt 1; JInt (-20); JNull; JStr [34; 10; 97]; JObj [([97], JBool true); ([98], JArr [])]; JObj []].
Example json_example_ok : json_ok json_example = true /\ json_parse_top (json_print json_example) = Ok json_example.
Proof. split; vm_compute; reflexivity. Qed.
(* a double carried with a text that is an integer token cannot be told from the integer: outside [json_ok] *)
Example json_dbl_refuted : json_print (JDbl [49]) = json_print (JInt 1) /\ JDbl [49] <> JInt 1 /\ json_ok (JDbl [49]) = false.
Proof. split; [reflexivity|split; [discriminate|reflexivity]]. Qed.
(* the texts rj::Writer emits for doubles are inside: 1.5  -0.25  1e-07  2.5E+20 *)
Example json_dbl_ok :
  let j := JArr [JDbl [49; 46; 53]; JDbl [45; 48; 46; 50; 53]; JDbl [49; 101; 45; 48; 55]; JDbl [50; 46; 53; 69; 43; 50; 48]; JInt (-7)] in
  json_ok j = true /\ json_parse_top (json_print j) = Ok j.
Proof. cbv zeta. split; vm_compute; reflexivity. Qed.
