# awkward._ext.fromjson / fromjsonfile / uproot_issue_90 substitutes.
import os

from pyshim import core
from pyshim import content as C
from pyshim.core import hx, e_int, e_optstr, dbl
from pyshim.nodes import FILENAME_SUFFIX


def fromjson(source, nan_string=None, infinity_string=None, minus_infinity_string=None, initial=1024, resize=1.5,
             buffersize=65536):
    if isinstance(source, bytes):
        src = source
    elif isinstance(source, str):
        src = source.encode("utf-8", "surrogateescape")
    else:
        raise TypeError("fromjson(): source must be str")
    if b"\x00" in src:
        src = src[:src.index(b"\x00")]  # const char* semantics
    return C.fromsx(core.request("fromjson %s %s %s %s %s %s" % (
        hx(src), e_optstr(nan_string), e_optstr(infinity_string), e_optstr(minus_infinity_string),
        e_int(initial), dbl(resize))))


def fromjsonfile(source, nan_string=None, infinity_string=None, minus_infinity_string=None, initial=1024, resize=1.5,
                 buffersize=65536):
    if not isinstance(source, str):
        raise TypeError("fromjsonfile(): source must be str")
    return C.fromsx(core.request("fromjsonfile %s %s %s %s %s %s %s" % (
        hx(os.path.abspath(source)), e_optstr(nan_string), e_optstr(infinity_string), e_optstr(minus_infinity_string),
        e_int(initial), dbl(resize), e_int(buffersize))))


def uproot_issue_90(form, array, byteoffsets):
    from pyshim import typesforms
    from pyshim.nodes import Index32

    if not isinstance(form, typesforms.Form):
        raise TypeError("uproot_issue_90: form must be an ak.forms.Form")
    if not isinstance(array, C.NumpyArray):
        raise TypeError("uproot_issue_90: array must be a NumpyArray")
    if not isinstance(byteoffsets, Index32):
        raise TypeError("uproot_issue_90: byteoffsets must be an Index32")
    with core.request_scope():
        return C.fromsx(core.request("uproot_issue_90 %s %s %s" % (hx(form._json()), array._sx(False), byteoffsets._sx())))
