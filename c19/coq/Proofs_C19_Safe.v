(* C19 — fault freedom, part 1: list facts and the transitions of the control invariant. *)
From Coq Require Import ZArith Bool List Lia ZifyBool.
From AwkForth Require Import Forth Proofs_C19 Proofs_C19_SafeDefs.
Import ListNotations.
Open Scope Z_scope.

(* ------------------------------------------------------------------ lists indexed by Z *)
Lemma zlen_cons : forall A (x : A) l, zlen (x :: l) = zlen l + 1.
Proof. intros. unfold zlen. cbn [length]. lia. Qed.
Lemma zlen_nonneg : forall A (l : list A), 0 <= zlen l.
Proof. intros. unfold zlen. lia. Qed.
Lemma zlen_nil : forall A, zlen (@nil A) = 0.
Proof. reflexivity. Qed.

Lemma znth_0 : forall A (x : A) l, znth (x :: l) 0 = Some x.
Proof. reflexivity. Qed.
Lemma znth_cons : forall A (x : A) l i, 0 < i -> znth (x :: l) i = znth l (i - 1).
Proof.
  intros A x l i Hi. unfold znth. destruct (i <? 0) eqn:E1; [lia|]. destruct (i - 1 <? 0) eqn:E2; [lia|].
  replace (Z.to_nat i) with (S (Z.to_nat (i - 1))) by lia. reflexivity.
Qed.
Lemma znth_range : forall A (l : list A) i x, znth l i = Some x -> 0 <= i < zlen l.
Proof.
  intros A l i x H. unfold znth in H. destruct (i <? 0) eqn:E; [discriminate|].
  assert (Hn : nth_error l (Z.to_nat i) <> None) by congruence. apply nth_error_Some in Hn. unfold zlen. lia.
Qed.
Lemma znth_some : forall A (l : list A) i, 0 <= i < zlen l -> exists x, znth l i = Some x.
Proof.
  intros A l i H. unfold znth. destruct (i <? 0) eqn:E; [lia|].
  destruct (nth_error l (Z.to_nat i)) eqn:En; [eexists; reflexivity|].
  apply nth_error_None in En. unfold zlen in H. lia.
Qed.
Lemma znth_In : forall A (l : list A) i x, znth l i = Some x -> In x l.
Proof. intros A l i x H. unfold znth in H. destruct (i <? 0); [discriminate|]. eapply nth_error_In; eassumption. Qed.

Lemma upd_nat_len : forall A (l : list A) n v l', upd_nat l n v = Some l' -> length l' = length l.
Proof.
  induction l as [|h t IH]; intros n v l' H; [destruct n; discriminate|].
  destruct n; cbn [upd_nat] in H; [inv H; reflexivity|].
  destruct (upd_nat t n v) eqn:E; [|discriminate]. inv H. cbn [length]. f_equal. eapply IH; eassumption.
Qed.
Lemma zupd_len : forall A (l : list A) i v l', zupd l i v = Some l' -> zlen l' = zlen l.
Proof. intros A l i v l' H. unfold zupd in H. destruct (i <? 0); [discriminate|]. unfold zlen. f_equal. eapply upd_nat_len; eassumption. Qed.
Lemma upd_nat_some : forall A (l : list A) n v, (n < length l)%nat -> exists l', upd_nat l n v = Some l'.
Proof.
  induction l as [|h t IH]; intros n v H; cbn [length] in H; [lia|].
  destruct n; cbn [upd_nat]; [eexists; reflexivity|].
  destruct (IH n v) as [l' Hl']; [lia|]. rewrite Hl'. eexists; reflexivity.
Qed.
Lemma zupd_some : forall A (l : list A) i v, 0 <= i < zlen l -> exists l', zupd l i v = Some l'.
Proof. intros A l i v H. unfold zupd. destruct (i <? 0) eqn:E; [lia|]. apply upd_nat_some. unfold zlen in H. lia. Qed.
Lemma upd_nat_forallb : forall A (f : A -> bool) (l : list A) n v l', upd_nat l n v = Some l' ->
  forallb f l = true -> f v = true -> forallb f l' = true.
Proof.
  induction l as [|h t IH]; intros n v l' H Hf Hv; [destruct n; discriminate|].
  cbn [forallb] in Hf. apply andb_true_iff in Hf. destruct Hf as [Hh Ht].
  destruct n; cbn [upd_nat] in H.
  - inv H. cbn [forallb]. rewrite Hv, Ht. reflexivity.
  - destruct (upd_nat t n v) eqn:E; [|discriminate]. inv H. cbn [forallb]. rewrite Hh. cbn [andb]. eapply IH; eassumption.
Qed.
Lemma zupd_forallb : forall A (f : A -> bool) (l : list A) i v l', zupd l i v = Some l' ->
  forallb f l = true -> f v = true -> forallb f l' = true.
Proof. intros A f l i v l' H. unfold zupd in H. destruct (i <? 0); [discriminate|]. eapply upd_nat_forallb; eassumption. Qed.

Lemma memz_In : forall x l, memz x l = true <-> In x l.
Proof.
  intros x l. unfold memz. rewrite existsb_exists. split.
  - intros [y [Hy E]]. assert (y = x) by lia. subst. assumption.
  - intro H. exists x. split; [assumption|lia].
Qed.
Lemma forallb_memz : forall (f : Z -> bool) l x, forallb f l = true -> memz x l = true -> f x = true.
Proof. intros f l x Hf Hm. rewrite forallb_forall in Hf. apply Hf. apply memz_In. assumption. Qed.
Lemma memz_cons : forall x y l, memz x (y :: l) = (y =? x) || memz x l.
Proof. reflexivity. Qed.

(* ------------------------------------------------------------------ do-depth lists *)
Lemma below_cons : forall d l k, below (d :: l) k = (if d <? k then 1 else 0) + below l k.
Proof. intros. unfold below. cbn [filter]. destruct (d <? k); [rewrite zlen_cons; lia|lia]. Qed.
Lemma below_nonneg : forall l k, 0 <= below l k.
Proof. intros. unfold below. apply zlen_nonneg. Qed.
Lemma below_mono : forall l k k', k <= k' -> below l k <= below l k'.
Proof.
  induction l as [|d r IH]; intros k k' H; [unfold below; cbn; lia|].
  rewrite !below_cons. specialize (IH k k' H). destruct (d <? k) eqn:E1; destruct (d <? k') eqn:E2; lia.
Qed.
Lemma below_nil : forall k, below [] k = 0.
Proof. reflexivity. Qed.

Lemma chain_ok_mono : forall lo l n n', chain_ok lo l n = true -> n <= n' -> chain_ok lo l n' = true.
Proof. intros lo l n n' H Hn. destruct l as [|d r]; [reflexivity|]. cbn [chain_ok] in *. lia. Qed.
Lemma chain_ok_all : forall lo l n, chain_ok lo l n = true -> forall d, In d l -> lo <= d <= n.
Proof.
  induction l as [|x r IH]; intros n H d Hd; [destruct Hd|].
  cbn [chain_ok] in H. destruct Hd as [Hd|Hd]; [subst; lia|].
  assert (Hr : chain_ok lo r (x - 1) = true) by lia. specialize (IH _ Hr d Hd). lia.
Qed.
Lemma chain_ok_notin : forall lo l n k, chain_ok lo l n = true -> n < k -> memz k l = false.
Proof.
  intros lo l n k H Hk. destruct (memz k l) eqn:E; [|reflexivity].
  apply memz_In in E. pose proof (chain_ok_all _ _ _ H _ E). lia.
Qed.
Lemma chain_ok_shrink : forall lo l n, chain_ok lo l n = true -> memz n l = false -> chain_ok lo l (n - 1) = true.
Proof. intros lo l n H Hm. destruct l as [|d r]; [reflexivity|]. cbn [chain_ok] in *. rewrite memz_cons in Hm. lia. Qed.
Lemma chain_ok_below : forall lo l n k, chain_ok lo l n = true -> n < k -> below l k = zlen l.
Proof.
  induction l as [|d r IH]; intros n k H Hk; [reflexivity|].
  cbn [chain_ok] in H. rewrite below_cons, zlen_cons.
  assert (Hr : chain_ok lo r (d - 1) = true) by lia. rewrite (IH _ k Hr) by lia.
  destruct (d <? k) eqn:E; lia.
Qed.

Lemma ddepths_cons : forall dd a b dos, ddepths ((dd, a, b) :: dos) = abs_depth dd :: ddepths dos.
Proof. reflexivity. Qed.
Lemma ddepths_len : forall dos, zlen (ddepths dos) = zlen dos.
Proof. intro dos. unfold ddepths, zlen. rewrite map_length. reflexivity. Qed.

Ltac bsplit :=
  repeat match goal with
         | H : _ && _ = true |- _ => apply andb_true_iff in H; destruct H
         end.
Ltac bgoal := repeat (apply andb_true_iff; split).

(* ------------------------------------------------------------------ the control invariant, componentwise *)
Section Ctrl.
  Variable c : list sctx.

  Definition CT (fr : list (Z * Z)) (dl ts : list Z) (rdy : bool) : Prop :=
    frames_ok c dl ts fr = true /\ chain_ok 1 dl (zlen fr) = true /\
    chain_ok 0 ts (if rdy then zlen fr else match ts with t :: _ => t | [] => 0 end) = true.

  Lemma ctrl_ok_CT : forall m, ctrl_ok c m = true <-> CT (m_frames m) (ddepths (m_dos m)) (m_targets m) (m_ready m).
  Proof. intro m. unfold ctrl_ok, CT, depth. rewrite !andb_true_iff. tauto. Qed.

  (* frames below the top do not see do-loops opened at or above the top *)
  Lemma frames_ok_dl : forall dl dl' ts fr,
    (forall k, k <= zlen fr -> memz k dl' = memz k dl /\ below dl' k = below dl k) ->
    frames_ok c dl' ts fr = frames_ok c dl ts fr.
  Proof.
    induction fr as [|[w ip] r IH]; intro H; [reflexivity|].
    cbn [frames_ok]. rewrite IH by (intros k Hk; apply H; rewrite zlen_cons; lia). f_equal.
    destruct (H (zlen ((w, ip) :: r))) as [H1 H2]; [lia|]. unfold frame_ok. rewrite H1, H2. reflexivity.
  Qed.

  Lemma frames_ok_skipn : forall dl ts j fr, frames_ok c dl ts fr = true -> frames_ok c dl ts (skipn j fr) = true.
  Proof.
    induction j as [|j IH]; intros fr H; [assumption|]. destruct fr as [|f r]; [reflexivity|].
    cbn [skipn]. apply IH. cbn [frames_ok] in H. apply andb_true_iff in H. tauto.
  Qed.

  Lemma frames_ok_ts_tl : forall dl t ts fr, frames_ok c dl (t :: ts) fr = true -> frames_ok c dl ts fr = true.
  Proof.
    induction fr as [|[w ip] r IH]; intro H; [reflexivity|]. cbn [frames_ok] in *. apply andb_true_iff in H. destruct H as [H1 H2].
    rewrite (IH H2), andb_true_r. unfold frame_ok in *. destruct (znth c w) as [sw|]; [|discriminate].
    cbn [forallb] in H1. bsplit. bgoal; assumption.
  Qed.

  Lemma frames_ok_ts_push : forall dl t ts fr, zlen fr <= t -> frames_ok c dl ts fr = true -> frames_ok c dl (t :: ts) fr = true.
  Proof.
    induction fr as [|[w ip] r IH]; intros Ht H; [reflexivity|]. cbn [frames_ok] in *. apply andb_true_iff in H. destruct H as [H1 H2].
    rewrite zlen_cons in Ht. rewrite (IH ltac:(lia) H2), andb_true_r. unfold frame_ok in *.
    destruct (znth c w) as [sw|]; [|discriminate].
    bsplit. cbn [forallb]. bgoal; try assumption. rewrite zlen_cons. lia.
  Qed.

  (* unpacking the top frame *)
  Lemma frames_ok_top : forall dl ts w ip fr, frames_ok c dl ts ((w, ip) :: fr) = true ->
    exists sw, znth c w = Some sw /\
      (if memz (zlen fr + 1) dl then memz ip (s_D sw) else memz ip (s_B sw)) = true /\
      0 <= s_ed sw < zlen fr + 1 /\ s_dd sw <= below dl (zlen fr + 1) /\
      forallb (fun t => (zlen fr + 1 <=? t) || (s_ed sw <=? zlen fr + 1 - t - 1)) ts = true /\
      (below dl (zlen fr + 1) = 0 \/ s_nx sw = true) /\
      frames_ok c dl ts fr = true.
  Proof.
    intros dl ts w ip fr H. cbn [frames_ok] in H. apply andb_true_iff in H. destruct H as [H1 H2].
    unfold frame_ok in H1. rewrite zlen_cons in H1. destruct (znth c w) as [sw|]; [|discriminate].
    exists sw. bsplit. repeat split; try assumption; try lia.
  Qed.

  Lemma frames_ok_build : forall dl ts w ip fr sw, znth c w = Some sw ->
    (if memz (zlen fr + 1) dl then memz ip (s_D sw) else memz ip (s_B sw)) = true ->
    0 <= s_ed sw < zlen fr + 1 -> s_dd sw <= below dl (zlen fr + 1) ->
    forallb (fun t => (zlen fr + 1 <=? t) || (s_ed sw <=? zlen fr + 1 - t - 1)) ts = true ->
    (below dl (zlen fr + 1) = 0 \/ s_nx sw = true) ->
    frames_ok c dl ts fr = true ->
    frames_ok c dl ts ((w, ip) :: fr) = true.
  Proof.
    intros dl ts w ip fr sw Hw H1 H2 H3 H4 H5 H6. cbn [frames_ok]. rewrite H6, andb_true_r.
    unfold frame_ok. rewrite zlen_cons, Hw. rewrite H1, H4. cbn [andb].
    destruct H5 as [H5|H5]; [rewrite H5|rewrite H5, orb_true_r]; lia.
  Qed.
End Ctrl.
