(** Slicing.  Spec [sg]/[se]: NumPy/Python indexing applied level by level on (type, values).
    Model [gn]/[ge]: getitem_next per node class on layouts (carry-based, explicit fuel).
    Items covered: integer, range, ellipsis, newaxis, integer arrays (1-d, several at once),
    field, fields.  No proofs here. *)
From AwkV Require Export AtAxis Carry.

Inductive item :=
| IAt (i : Z)
| IRange (start stop step : option Z)
| IEllipsis
| INewAxis
| IArray (ix : list Z)
| IField (k : name)
| IFields (ks : list name).

(* ---------------------------------------------------------------- Python slice semantics *)
(* slice(start, stop, step).indices(n), then range(...) *)
Definition py_bounds (n : Z) (start stop : option Z) (step : Z) : Z * Z :=
  if 0 <? step then
    let s := match start with None => 0 | Some x => if x <? 0 then Z.max (x + n) 0 else Z.min x n end in
    let e := match stop with None => n | Some x => if x <? 0 then Z.max (x + n) 0 else Z.min x n end in
    (s, e)
  else
    let s := match start with None => n - 1 | Some x => if x <? 0 then Z.max (x + n) (-1) else Z.min x (n - 1) end in
    let e := match stop with None => -1 | Some x => if x <? 0 then Z.max (x + n) (-1) else Z.min x (n - 1) end in
    (s, e).
Definition py_count (s e step : Z) : Z :=
  if 0 <? step then (if s <? e then (e - s + step - 1) / step else 0)
  else (if e <? s then (s - e + (- step) - 1) / (- step) else 0).
Definition py_indices (n : Z) (start stop : option Z) (step : Z) : list Z :=
  let (s, e) := py_bounds n start stop step in
  map (fun k => s + k * step) (iota (py_count s e step)).

Definition stepof (o : option Z) : Z := match o with None => 1 | Some s => s end.

Definition wrap_at (n i : Z) : res Z :=
  let j := if i <? 0 then i + n else i in
  if (0 <=? j) && (j <? n) then Ok j else Err EValue.

Definition dim_items (items : list item) : Z :=
  zlen (filter (fun it => match it with IAt _ | IRange _ _ _ | IArray _ => true | _ => false end) items).

Fixpoint regroup {A} (counts : list Z) (l : list A) : list (list A) :=
  match counts with
  | [] => []
  | n :: ns => take n l :: regroup ns (drop n l)
  end.

Fixpoint so_ty (t : ty) : ty := match t with TOpt t' => so_ty t' | _ => t end.

Definition name_eqb (a b : name) : bool := list_eqb Z.eqb a b.
Fixpoint index_of (k : name) (ks : list name) (i : Z) : res Z :=
  match ks with
  | [] => Err EValue
  | x :: r => if name_eqb k x then Ok i else index_of k r (i + 1)
  end.
(* field names of a tuple are "0", "1", ... (single decimal digit is enough for the generators) *)
Definition tuple_index (k : name) : res Z :=
  match k with [c] => if (48 <=? c) && (c <=? 57) then Ok (c - 48) else Err EValue | _ => Err EValue end.
(* util::fieldindex: a key that is not a field name may still be a decimal position *)
Definition field_pos (keys : option (list name)) (n : Z) (k : name) : res Z :=
  let positional := do i <- tuple_index k; if i <? n then Ok i else Err EValue in
  match keys with
  | Some ks => match index_of k ks 0 with Ok i => Ok i | Err _ => positional end
  | None => positional
  end.

(* ---------------------------------------------------------------- spec *)
(* type after projecting a field, through lists and options *)
Fixpoint proj_ty (k : name) (t : ty) {struct t} : res ty :=
  match t with
  | TRec keys ts => do i <- field_pos keys (zlen ts) k; get ts i
  | TList sz None t' => rmap (TList sz None) (proj_ty k t')
  | TOpt t' => rmap TOpt (proj_ty k t')
  | _ => Err EValue
  end.
Fixpoint proj_v (k : name) (t : ty) (v : value) {struct t} : res value :=
  match t with
  | TRec keys ts =>
      do i <- field_pos keys (zlen ts) k;
      match v with
      | VRec fs => do kv <- get fs i; Ok (snd kv)
      | VTup vs => get vs i
      | _ => Err EValue
      end
  | TList _ None t' => match v with VList l => rmap VList (mapM (proj_v k t') l) | _ => Err EValue end
  | TOpt t' => match v with VNone => Ok VNone | _ => proj_v k t' v end
  | _ => Err EValue
  end.

Fixpoint projs_ty (ks : list name) (t : ty) {struct t} : res ty :=
  match t with
  | TRec keys ts =>
      do ts' <- mapM (fun k => do i <- field_pos keys (zlen ts) k; get ts i) ks;
      Ok (TRec (match keys with Some _ => Some ks | None => None end) ts')
  | TList sz None t' => rmap (TList sz None) (projs_ty ks t')
  | TOpt t' => rmap TOpt (projs_ty ks t')
  | _ => Err EValue
  end.
Fixpoint projs_v (ks : list name) (t : ty) (v : value) {struct t} : res value :=
  match t with
  | TRec keys ts =>
      do is <- mapM (field_pos keys (zlen ts)) ks;
      match v with
      | VRec fs => do vs <- mapM (fun i => do kv <- get fs i; Ok (snd kv)) is; Ok (VRec (zip ks vs))
      | VTup vs => rmap VTup (mapM (get vs) is)
      | _ => Err EValue
      end
  | TList _ None t' => match v with VList l => rmap VList (mapM (projs_v ks t') l) | _ => Err EValue end
  | TOpt t' => match v with VNone => Ok VNone | _ => projs_v ks t' v end
  | _ => Err EValue
  end.

Definition chars (s : list Z) : list value := map (fun z => VNum (DZ z)) s.
Definition as_list (v : value) : res (option (list value)) :=
  match v with
  | VList l => Ok (Some l)
  | VStr _ s => Ok (Some (chars s))
  | VNone => Ok None
  | _ => Err EValue
  end.
Definition list_elem_ty (t : ty) : res (option Z * ty) :=
  match so_ty t with
  | TList sz None t' => Ok (sz, t')
  | TList sz (Some _) _ => Ok (sz, TNum DUInt8)
  | _ => Err EValue
  end.
Definition str_of_ty (t : ty) : option bool :=
  match so_ty t with TList _ (Some b) _ => Some b | _ => None end.
(* a list of characters selected out of a string is again a string *)
Definition mk_list (str : option bool) (l : list value) : value :=
  match str with
  | None => VList l
  | Some b =>
      match mapM (fun v => match v with VNum (DZ z) => Ok z | _ => Err EValue end) l with
      | Ok zs => VStr b zs
      | Err _ => VList l
      end
  end.
Definition unopt (o : option (list value)) : list value := match o with Some l => l | None => [] end.
(* put results (one per present list) back among the missing lists *)
Fixpoint reinsert (lists : list (option (list value))) (rs : list value) : list value :=
  match lists with
  | [] => []
  | None :: rest => VNone :: reinsert rest rs
  | Some _ :: rest => match rs with r :: rs' => r :: reinsert rest rs' | [] => [] end
  end.
Definition present_adv (lists : list (option (list value))) (adv : option (list Z)) : option (list Z) :=
  match adv with
  | None => None
  | Some av => Some (flat_map (fun oa : option (list value) * Z => match fst oa with Some _ => [snd oa] | None => [] end)
                              (zip lists av))
  end.

(* fuel: each call consumes one unit; [length items + depth] many suffice *)
Fixpoint sg (fuel : nat) (str : option bool) (sz : option Z) (t : ty) (lists : list (option (list value)))
            (items : list item) (adv : option (list Z)) {struct fuel} : res (ty * list value) :=
  match fuel with
  | O => Err EFuel
  | S fuel' =>
      let se (t : ty) (xs : list value) (items : list item) (adv : option (list Z)) : res (ty * list value) :=
        match items with
        | [] => Ok (t, xs)
        | head :: tail =>
            match head, so_ty t with
            | INewAxis, _ =>
                (* a new length-1 dimension around whatever the rest selects from each element *)
                do r <- sg fuel' None None t (map (fun x => Some [x]) xs) (IAt 0 :: tail) adv;
                Ok (TList (Some 1) None (fst r), map (fun v => VList [v]) (snd r))
            | IEllipsis, TList _ None _ =>
                do lt <- list_elem_ty t;
                do ls <- mapM as_list xs;
                sg fuel' (str_of_ty t) (fst lt) (snd lt) ls items adv
            | IEllipsis, _ =>
                (* no list dimension of their own: the ellipsis must stand for nothing *)
                let (mn, mx) := minmax t in
                let d := dim_items tail in
                match tail with
                | [] => Ok (t, xs)
                | _ =>
                    if (mn - 1 =? d) && (mx - 1 =? d)
                    then sg fuel' None None t (map (fun x => Some [x]) xs) (IAt 0 :: tail) adv
                    else Err EValue
                end
            | IField k, _ =>
                do t' <- proj_ty k t; do ys <- mapM (proj_v k t) xs;
                sg fuel' None None t' (map (fun x => Some [x]) ys) (IAt 0 :: tail) adv
            | IFields ks, _ =>
                do t' <- projs_ty ks t; do ys <- mapM (projs_v ks t) xs;
                sg fuel' None None t' (map (fun x => Some [x]) ys) (IAt 0 :: tail) adv
            | _, TRec keys ts =>
                match head with
                | IField _ | IFields _ | IEllipsis | INewAxis => Err EValue
                | _ =>
                    let field (i : Z) (v : value) : res value :=
                      match v with
                      | VRec fs => do kv <- get fs i; Ok (snd kv)
                      | VTup vs => get vs i
                      | VNone => Ok VNone
                      | _ => Err EValue
                      end in
                    do cols <- (fix go (i : Z) (ts : list ty) : res (list (ty * list value)) :=
                                  match ts with
                                  | [] => Ok []
                                  | t1 :: ts' =>
                                      do col <- mapM (field i) xs;
                                      (* the field may itself be a record: go through the generic element path *)
                                      do r <- sg fuel' None None t1 (map (fun x => Some [x]) col) [IAt 0; head] adv;
                                      do rs <- go (i + 1) ts';
                                      Ok (r :: rs)
                                  end) 0 ts;
                    let n := zlen xs in
                    do recs <- mapM (fun j =>
                                       match get xs j with
                                       | Ok VNone => Ok VNone
                                       | _ =>
                                           do vs <- mapM (fun c : ty * list value => get (snd c) j) cols;
                                           Ok (match keys with Some ks => VRec (zip ks vs) | None => VTup vs end)
                                       end) (iota n);
                    (* the rest of the slice continues on the records *)
                    match tail with
                    | [] => Ok (TRec keys (map fst cols), recs)
                    | _ => sg fuel' None None (TRec keys (map fst cols)) (map (fun r => Some [r]) recs) (IAt 0 :: tail) adv
                    end
                end
            | _, _ =>
                do lt <- list_elem_ty t;
                do ls <- mapM as_list xs;
                sg fuel' (str_of_ty t) (fst lt) (snd lt) ls items adv
            end
        end in
      match items with
      | [] => Ok (TList sz str t, map (fun o => match o with Some l => mk_list str l | None => VNone end) lists)
      | IAt i :: tail =>
          (* a missing list met by an integer that will be broadcast with a later index array (no array seen yet):
             where the new dimension goes is not specified (same rule as in the IArray case below) *)
          if (match adv with None => true | Some _ => false end)
             && existsb (fun o : option (list value) => match o with None => true | Some _ => false end) lists
             && existsb (fun it => match it with IArray _ => true | _ => false end) tail
          then Err EFuel else
          do _ <- (match sz with Some n => rmap (fun _ => tt) (wrap_at n i) | None => Ok tt end);
          do xs <- mapM (fun l => do j <- wrap_at (zlen l) i; get l j)
                        (flat_map (fun o : option (list value) => match o with Some l => [l] | None => [] end) lists);
          do r <- se t xs tail (present_adv lists adv);
          Ok (fst r, reinsert lists (snd r))
      | IRange a b s :: tail =>
          let step := stepof s in
          if step =? 0 then Err EValue else
          do picked <- mapM (fun o => match o with
                                      | None => Ok None
                                      | Some l => rmap Some (mapM (get l) (py_indices (zlen l) a b step))
                                      end) lists;
          let counts := map (fun o => zlen (unopt o)) picked in
          let adv' := match adv with
                      | None => None
                      | Some av => Some (concat (map (fun ac : Z * Z => repeat (fst ac) (Z.to_nat (snd ac)))
                                                     (zip av counts)))
                      end in
          do r <- se t (concat (map unopt picked)) tail adv';
          let groups := regroup counts (snd r) in
          Ok (TList None str (fst r),
              map (fun og : option (list value) * list value =>
                     match fst og with Some _ => mk_list str (snd og) | None => VNone end) (zip picked groups))
      | IArray ix :: tail =>
          do _ <- (match sz with Some n => rmap (fun _ => tt) (mapM (wrap_at n) ix) | None => Ok tt end);
          match adv with
          | None =>
              if existsb (fun o : option (list value) => match o with None => true | Some _ => false end) lists
              then Err EFuel else
              do picked <- mapM (fun o => match o with
                                          | None => Ok None
                                          | Some l => rmap Some (mapM (fun i => do j <- wrap_at (zlen l) i; get l j) ix)
                                          end) lists;
              let counts := map (fun o => zlen (unopt o)) picked in
              let adv' := concat (map (fun o => match o with Some _ => iota (zlen ix) | None => [] end) picked) in
              do r <- se t (concat (map unopt picked)) tail (Some adv');
              let groups := regroup counts (snd r) in
              Ok (TList (Some (zlen ix)) str (fst r),
                  map (fun og : option (list value) * list value =>
                         match fst og with Some _ => mk_list str (snd og) | None => VNone end) (zip picked groups))
          | Some av =>
              if negb (zlen av =? zlen lists) then Err EOob else
              do xs <- mapM (fun la : list value * Z =>
                               do i <- get ix (snd la); do j <- wrap_at (zlen (fst la)) i; get (fst la) j)
                            (flat_map (fun oa : option (list value) * Z =>
                                         match fst oa with Some l => [(l, snd oa)] | None => [] end) (zip lists av));
              do r <- se t xs tail (present_adv lists adv);
              Ok (fst r, reinsert lists (snd r))
          end
      | IEllipsis :: tail =>
          let (mn, mx) := minmax t in
          let d := dim_items tail in
          match tail with
          | [] => sg fuel' str sz t lists [] adv
          | _ =>
              if (mn =? d) && (mx =? d) then sg fuel' str sz t lists tail adv
              else if (mn =? d) || (mx =? d) then Err EValue
              else sg fuel' str sz t lists (IRange None None (Some 1) :: IEllipsis :: tail) adv
          end
      | INewAxis :: tail =>
          do r <- sg fuel' str sz t lists tail adv;
          Ok (TList (Some 1) None (fst r), map (fun v => VList [v]) (snd r))
      | IField k :: tail =>
          do t' <- proj_ty k t;
          do ls <- mapM (fun o => match o with
                                  | None => Ok None
                                  | Some l => rmap Some (mapM (proj_v k t) l)
                                  end) lists;
          sg fuel' None sz t' ls tail adv
      | IFields ks :: tail =>
          do t' <- projs_ty ks t;
          do ls <- mapM (fun o => match o with
                                  | None => Ok None
                                  | Some l => rmap Some (mapM (projs_v ks t) l)
                                  end) lists;
          sg fuel' None sz t' ls tail adv
      end
  end.

Definition items_fuel (items : list item) : nat := 4 * (length items + 8).

(* the whole operation: wrap the array in one list, slice, take the single result *)
Definition getitem_spec (items : list item) (t : ty) (vs : list value) : res (list value) :=
  do r <- sg (items_fuel items) None (Some (zlen vs)) t [Some vs] items None;
  Ok (snd r).

(* ---------------------------------------------------------------- model on layouts *)
Definition bounds_len (b : list (Z * Z)) : list Z := map (fun ab : Z * Z => snd ab - fst ab) b.

Fixpoint field_content (k : name) (c : content) {struct c} : res content :=
  match c with
  | Record cs keys n =>
      do i <- field_pos keys (zlen cs) k;
      do f <- get cs i;
      crange f 0 n
  | ListOffset w o c' => rmap (ListOffset w o) (field_content k c')
  | ListA w s e c' => rmap (ListA w s e) (field_content k c')
  | Regular c' size zl => rmap (fun x => Regular x size zl) (field_content k c')
  | Indexed w ix c' => rmap (Indexed w ix) (field_content k c')
  | IndexedOption w ix c' => rmap (IndexedOption w ix) (field_content k c')
  | ByteMasked m vw c' => rmap (ByteMasked m vw) (field_content k c')
  | BitMasked m vw lsb n c' => rmap (BitMasked m vw lsb n) (field_content k c')
  | Unmasked c' => rmap Unmasked (field_content k c')
  | Par None _ c' => field_content k c'
  | _ => Err EValue
  end.
Fixpoint fields_content (ks : list name) (c : content) {struct c} : res content :=
  match c with
  | Record cs keys n =>
      do fs <- mapM (fun k => do i <- field_pos keys (zlen cs) k; get cs i) ks;
      Ok (Record fs (match keys with Some _ => Some ks | None => None end) n)
  | ListOffset w o c' => rmap (ListOffset w o) (fields_content ks c')
  | ListA w s e c' => rmap (ListA w s e) (fields_content ks c')
  | Regular c' size zl => rmap (fun x => Regular x size zl) (fields_content ks c')
  | Indexed w ix c' => rmap (Indexed w ix) (fields_content ks c')
  | IndexedOption w ix c' => rmap (IndexedOption w ix) (fields_content ks c')
  | ByteMasked m vw c' => rmap (ByteMasked m vw) (fields_content ks c')
  | BitMasked m vw lsb n c' => rmap (BitMasked m vw lsb n) (fields_content ks c')
  | Unmasked c' => rmap Unmasked (fields_content ks c')
  | Par None _ c' => fields_content ks c'
  | _ => Err EValue
  end.

(* [gn] : the current node must present its elements as lists (list node, or a node forwarding to one) *)
Fixpoint gn (fuel : nat) (c : content) (items : list item) (adv : option (list Z)) {struct fuel} : res content :=
  match fuel with
  | O => Err EFuel
  | S fuel' =>
      match items with
      | [] => Ok c
      | head :: tail =>
          match head, c with
          | _, Numpy _ (_ :: _ :: _) _ => gn fuel' (expand c) items adv
          (* Content::getitem_next handles these four for every node class *)
          | INewAxis, _ =>
              do r <- gn fuel' c tail adv;
              Ok (Regular r 1 (clen r))
          | IEllipsis, _ =>
              let (mn, mx) := minmax (type_of c) in
              let d := dim_items tail in
              match tail with
              | [] => Ok c
              | _ =>
                  if (mn - 1 =? d) && (mx - 1 =? d) then gn fuel' c tail adv
                  else if (mn - 1 =? d) || (mx - 1 =? d) then Err EValue
                  else gn fuel' c (IRange None None (Some 1) :: IEllipsis :: tail) adv
              end
          | IField k, _ => do f <- field_content k c; gn fuel' f tail adv
          | IFields ks, _ => do f <- fields_content ks c; gn fuel' f tail adv
          | _, _ =>
          match c with
          | Par a rn c' =>
              (* a string is sliced as a list of uint8; a range/array selection of characters is again a string *)
              do r <- gn fuel' c' items adv;
              match head, tail, strflag a with
              | (IRange _ _ _ | IArray _), [], Some _ => Ok (Par a rn r)
              | _, _, _ => Ok r
              end
          | Numpy _ (_ :: _ :: _) _ => gn fuel' (expand c) items adv
          | Numpy _ _ _ | Empty =>
              match head with
              | INewAxis =>
                  do r <- gn fuel' (Regular c 1 (clen c)) (IAt 0 :: tail) adv;
                  Ok (Regular r 1 (clen r))
              | IEllipsis =>
                  if dim_items tail =? 0 then gn fuel' (Regular c 1 (clen c)) (IAt 0 :: tail) adv else Err EValue
              | _ => Err EValue            (* too many indices *)
              end
          | Indexed _ ix c' =>
              do p <- carry c' ix; gn fuel' p items adv
          | IndexedOption _ _ c' | ByteMasked _ _ c' | BitMasked _ _ _ _ c' | Unmasked c' =>
              (* apply to the non-missing elements, re-insert None *)
              do oi <- option_index c;
              let ix := fst oi in
              let present := filter (fun i => 0 <=? i) ix in
              do p <- carry c' present;
              let adv' := match adv with
                          | None => None
                          | Some av => Some (flat_map (fun ia : Z * Z => if 0 <=? fst ia then [snd ia] else [])
                                                      (zip ix av))
                          end in
              do r <- gn fuel' p items adv';
              let outindex := (fix go (ix : list Z) (n : Z) : list Z :=
                                 match ix with
                                 | [] => []
                                 | i :: rest => if 0 <=? i then n :: go rest (n + 1) else -1 :: go rest n
                                 end) ix 0 in
              Ok (IndexedOption I64 outindex r)
          | Record cs keys n =>
              match head with
              | IField k => do f <- field_content k c; gn fuel' f tail adv
              | IFields ks => do f <- fields_content ks c; gn fuel' f tail adv
              | INewAxis =>
                  do r <- gn fuel' (Regular c 1 (clen c)) (IAt 0 :: tail) adv;
                  Ok (Regular r 1 (clen r))
              | IEllipsis =>
                  let (mn, mx) := minmax (type_of c) in
                  let d := dim_items tail in
                  if (mn - 1 =? d) && (mx - 1 =? d) then gn fuel' (Regular c 1 (clen c)) (IAt 0 :: tail) adv
                  else Err EFuel
              | _ =>
                  do cs' <- mapM (fun f => do ft <- crange f 0 n; gn fuel' ft [head] adv) cs;
                  gn fuel' (Record cs' keys n) tail adv
              end
          | Union _ _ _ _ => Err EFuel
          | ListOffset _ _ _ | ListA _ _ _ _ | Regular _ _ _ =>
              do bc <- list_bounds c;
              let b := fst bc in
              let c' := snd bc in
              let rsize := match c with Regular _ size _ => Some size | _ => None end in
              match head with
              | IAt i =>
                  do _ <- (match rsize with Some n => rmap (fun _ => tt) (wrap_at n i) | None => Ok tt end);
                  do nextcarry <- mapM (fun ab : Z * Z => do j <- wrap_at (snd ab - fst ab) i; Ok (fst ab + j)) b;
                  do nc <- carry c' nextcarry;
                  gn fuel' nc tail adv
              | IRange s e st =>
                  let step := stepof st in
                  if step =? 0 then Err EValue else
                  let picked := map (fun ab : Z * Z =>
                                       map (fun j => fst ab + j) (py_indices (snd ab - fst ab) s e step)) b in
                  let counts := map zlen picked in
                  do nc <- carry c' (concat picked);
                  let adv' := match adv with
                              | None => None
                              | Some av => Some (concat (map (fun ac : Z * Z => repeat (fst ac) (Z.to_nat (snd ac)))
                                                             (zip av counts)))
                              end in
                  do r <- gn fuel' nc tail adv';
                  Ok (ListOffset I64 (offsets_from 0 counts) r)
              | IArray ix =>
                  do _ <- (match rsize with Some n => rmap (fun _ => tt) (mapM (wrap_at n) ix) | None => Ok tt end);
                  match adv with
                  | None =>
                      do picked <- mapM (fun ab : Z * Z =>
                                           mapM (fun i => do j <- wrap_at (snd ab - fst ab) i; Ok (fst ab + j)) ix) b;
                      do nc <- carry c' (concat picked);
                      do r <- gn fuel' nc tail (Some (concat (map (fun _ => iota (zlen ix)) b)));
                      Ok (Regular r (zlen ix) (zlen b))
                  | Some av =>
                      if negb (zlen av =? zlen b) then Err EOob else
                      do nextcarry <- mapM (fun aba : (Z * Z) * Z =>
                                              let ab := fst aba in
                                              do i <- get ix (snd aba);
                                              do j <- wrap_at (snd ab - fst ab) i; Ok (fst ab + j)) (zip b av);
                      do nc <- carry c' nextcarry;
                      gn fuel' nc tail (Some av)
                  end
              | IEllipsis =>
                  let (mn, mx) := minmax (type_of c') in
                  let d := dim_items tail in
                  match tail with
                  | [] => Ok c
                  | _ =>
                      if (mn =? d) && (mx =? d) then gn fuel' c tail adv
                      else if (mn =? d) || (mx =? d) then Err EValue
                      else gn fuel' c (IRange None None (Some 1) :: IEllipsis :: tail) adv
                  end
              | INewAxis =>
                  do r <- gn fuel' c tail adv;
                  Ok (Regular r 1 (clen r))
              | IField k => do f <- field_content k c; gn fuel' f tail adv
              | IFields ks => do f <- fields_content ks c; gn fuel' f tail adv
              end
          end
          end
      end
  end.

Definition getitem_model (items : list item) (c : content) : res content :=
  gn (items_fuel items) (Regular c (clen c) 1) items None.
