(** C08 property theorems (statements only; proofs are in Proofs_*.v).
    Model: Merge.v (follows /repo's mergeable / mergemany / merge_as_union / simplify_* / numbers_to_type). *)
From Coq Require Import ZArith List.
From AwkV Require Import Base Layout Valid Types Carry.
From AwkMerge Require Import Merge Proofs_C08 Proofs_MM Proofs_MML Proofs_Concat Proofs_Simplify Proofs_SU.
Import ListNotations.
Open Scope Z_scope.

(* (a) The dtype promotion switch of NumpyArray::mergemany is NumPy's promotion on all 121 pairs
   ([numpy_promote] is additionally compared with the installed numpy.result_type at run time). *)
Theorem promotion_table_is_numpy : forall a b, promote a b = numpy_promote a b.
Proof. exact promotion_table_is_numpy_pf. Qed.
Print Assumptions promotion_table_is_numpy.

(* every source dtype is accepted by the fill switch for the promoted target: the "dtype not in {...}"
   runtime errors of NumpyArray::mergemany are unreachable *)
Theorem fill_ok_promote : forall a b, fill_ok a (promote a b) = true /\ fill_ok b (promote a b) = true.
Proof. exact fill_ok_promote_pf. Qed.
Print Assumptions fill_ok_promote.

(* (b) mergemany = concatenation of the values, on the fragment "all operands share one skeleton":
   1-d NumpyArray of any dtype | ListOffsetArray / ListArray (any width, gaps, any order) / RegularArray
   (size <> 1) of skeleton | IndexedArray / IndexedOptionArray / ByteMasked / BitMasked / UnmaskedArray of
   skeleton ([has_sk], Proofs_MM.v).
   The result exists with the stated fuel (no EOob / EFuel / EValue), and every value is unchanged up to the
   documented cast of booleans to 0/1 when the merged leaf type is a number ([deep_cast]).
   _partial: RegularArray of size 1 (its content goes through a lazy carry), RecordArray, UnionArray,
   EmptyArray operands, n-d NumpyArray, strings / parameters and option-with-non-option mixtures
   (reverse_merge) are not covered by the proof (they are by the tests). *)
Theorem mergemany_app_partial : forall s cs,
  (2 <= length cs)%nat ->
  Forall (fun c => has_sk s c = true) cs -> Forall (fun c => valid_b c = true) cs ->
  exists c, mergemany cs = Ok c /\
            Forall (fun x => to_list x = Ok (vals x)) cs /\
            to_list c = Ok (concat (map (fun x => map (deep_cast (leaf_dt c)) (vals x)) cs)).
Proof. exact mergemany_app_partial_pf. Qed.
Print Assumptions mergemany_app_partial.

(* (e) closure on the same fragment: the merged layout is valid and has the same skeleton *)
Theorem mergemany_valid_partial : forall s cs c,
  (2 <= length cs)%nat ->
  Forall (fun c => has_sk s c = true) cs -> Forall (fun c => valid_b c = true) cs ->
  mergemany cs = Ok c -> valid_b c = true /\ has_sk s c = true.
Proof. exact mergemany_valid_partial_pf. Qed.
Print Assumptions mergemany_valid_partial.

(* ... its leaf dtype is NumPy's promotion of the operands' leaf dtypes (folded left to right) ... *)
Theorem mergemany_dtype_partial : forall s cs c,
  (2 <= length cs)%nat ->
  Forall (fun c => has_sk s c = true) cs -> Forall (fun c => valid_b c = true) cs ->
  mergemany cs = Ok c ->
  leaf_dt c = fold_left numpy_promote (map leaf_dt cs) (leaf_dt (hd Empty cs)).
Proof. exact mergemany_dtype_partial_pf. Qed.
Print Assumptions mergemany_dtype_partial.

(* ... and ak.concatenate(axis=0, mergebool=True) of such operands is that single mergemany: one batch, no
   union, for either value of [merge] *)
Theorem concat_app_partial : forall s merge_ cs,
  (2 <= length cs)%nat ->
  Forall (fun c => has_sk s c = true) cs -> Forall (fun c => valid_b c = true) cs ->
  exists c, concat_model merge_ true cs = Ok c /\ valid_b c = true /\ has_sk s c = true /\
            to_list c = Ok (concat (map (fun x => map (deep_cast (leaf_dt c)) (vals x)) cs)).
Proof. exact concat_app_partial_pf. Qed.
Print Assumptions concat_app_partial.

(* (b)+(e), option with non-option: the first operand has the full skeleton, the later ones may lack option
   levels the first one has ([has_skL]); e.g. [option[list[int16]], list[bool], option[list[int16]]].
   (When the option operand is not the first, the C++ goes through reverse_merge: tests only.) *)
Theorem mergemany_option_mix_partial : forall s a others,
  others <> [] -> has_sk s a = true -> Forall (fun c => has_skL s c = true) others ->
  Forall (fun c => valid_b c = true) (a :: others) ->
  exists c, mergemany (a :: others) = Ok c /\ has_sk s c = true /\ valid_b c = true /\
            Forall (fun x => to_list x = Ok (vals x)) (a :: others) /\
            to_list c = Ok (concat (map (fun x => map (deep_cast (leaf_dt c)) (vals x)) (a :: others))).
Proof. exact mergemany_option_mix_pf. Qed.
Print Assumptions mergemany_option_mix_partial.

(* (c) merge_as_union keeps both operands' values in order, and is valid when neither operand is a union
   (all node classes) *)
Theorem merge_as_union_app : forall a b va vb,
  to_list a = Ok va -> to_list b = Ok vb -> to_list (merge_as_union a b) = Ok (va ++ vb).
Proof. exact merge_as_union_app_pf. Qed.
Print Assumptions merge_as_union_app.

Theorem merge_as_union_valid : forall a b,
  valid_b a = true -> valid_b b = true -> unionlike a = false -> unionlike b = false ->
  valid_b (merge_as_union a b) = true.
Proof. exact merge_as_union_valid_pf. Qed.
Print Assumptions merge_as_union_valid.

(* (d) simplify_optiontype: any of the 5 x 5 nestings of indexed / option nodes (and the un-nested case),
   contents of any class: no value changes ... *)
Theorem simplify_option_value : forall c c' ci vs,
  opt_content c = Some ci -> valid_b ci = true -> is_strk (fst (params c)) = false ->
  to_list c = Ok vs -> simplify_option c = Ok c' -> to_list c' = Ok vs.
Proof. exact simplify_option_value_pf. Qed.
Print Assumptions simplify_option_value.

(* ... and the result has no option / indexed node directly inside an option / indexed node *)
Theorem simplify_option_flat : forall c c' ci,
  opt_content c = Some ci -> valid_b ci = true -> simplify_option c = Ok c' ->
  exists cc, opt_content c' = Some cc /\ optionlike cc = false.
Proof. exact simplify_option_flat_pf. Qed.
Print Assumptions simplify_option_flat.

(* (d) simplify_uniontype(merge = False): a union whose alternatives may themselves be (valid) unions is
   flattened without changing any value, and no union is left directly inside the result.
   _partial: merge = True (alternatives merged by mergemany, booleans cast when mergebool) and the case of a
   single remaining alternative (C++ carries that alternative) are covered by the tests only. *)
Theorem simplify_union_value_partial : forall mb c w tags index cs0 vs c',
  body c = Union w tags index cs0 -> is_strk (fst (params c)) = false ->
  Forall (fun x => valid_b x = true) cs0 -> (2 <= length (flat_alts cs0))%nat ->
  to_list c = Ok vs -> simplify_union false mb c = Ok c' ->
  to_list c' = Ok vs /\
  exists t' i', body c' = Union I64 t' i' (flat_alts cs0) /\ Forall (fun y => unionlike y = false) (flat_alts cs0).
Proof. exact simplify_union_value_pf. Qed.
Print Assumptions simplify_union_value_partial.

(* numbers_to_type on a 1-d NumpyArray is exactly the element-wise cast of the specification, and the
   result has the requested dtype.  _partial: the structural recursion through the other node classes is
   covered by the tests only. *)
Theorem astype_only_casts_partial : forall dt dst n data vs c',
  to_list (Numpy dt [n] data) = Ok vs -> astype_model dst (Numpy dt [n] data) = Ok c' ->
  exists vs', to_list c' = Ok vs' /\ astype_spec dst (type_of (Numpy dt [n] data)) vs = Ok vs' /\
              type_of c' = astype_ty dst (type_of (Numpy dt [n] data)).
Proof. exact astype_numpy_pf. Qed.
Print Assumptions astype_only_casts_partial.
