(** C17b, Form -> JSON -> Form, part 3: the widened fragment [form_wf_loose] (NumpyForm format / itemsize free,
    NUL allowed in form keys): the form that comes back is [form_canon f]; it is well-formed, and it has the same
    type (for every typestr table) and answers the depth / field queries exactly as f does. *)
From Coq Require Import ZArith List Bool Lia.
From AwkV Require Import Base Layout.
From AwkTypes Require Import Json Forms TypeStr Proofs_Json Proofs_C17b_Json.
Import ListNotations.
Open Scope Z_scope.

Definition meta_wf_loose (m : fmeta) : bool :=
  psorted (m_params m) && forallb (fun kv => nonul (fst kv)) (m_params m).

(* form_wf without "itemsize = dtype_to_itemsize dt", "format = dtype_to_format dt" and "no NUL in the form key" *)
Fixpoint form_wf_loose (f : form) : bool :=
  match f with
  | FNumpy m inner _ _ dt => meta_wf_loose m && forallb is_int32 inner && negb (fdtype_eqb dt FNotPrimitive)
  | FEmpty m => meta_wf_loose m
  | FListOffset m o c => meta_wf_loose m && width3 o && form_wf_loose c
  | FList m s e c => meta_wf_loose m && width3 s && iform_eqb s e && form_wf_loose c
  | FRegular m c size => meta_wf_loose m && is_int32 size && form_wf_loose c
  | FIndexed m i c => meta_wf_loose m && width3 i && form_wf_loose c
  | FIndexedOption m i c => meta_wf_loose m && (match i with Fi32 | Fi64 => true | _ => false end) && form_wf_loose c
  | FByteMasked m _ c _ | FBitMasked m _ c _ _ | FUnmasked m c => meta_wf_loose m && form_wf_loose c
  | FUnion m t i cs => meta_wf_loose m && iform_eqb t Fi8 && width3 i && forallb form_wf_loose cs
  | FRecord m ks cs =>
      meta_wf_loose m && forallb form_wf_loose cs &&
      match ks with Some ks => Nat.eqb (length ks) (length cs) && forallb nonul ks | None => true end
  | FVirtual m g _ => meta_wf_loose m && match g with Some g' => form_wf_loose g' | None => true end
  end.

Lemma pcanon_id m : meta_wf_loose m = true -> pcanon (m_params m) = m_params m.
Proof.
  unfold meta_wf_loose. intros H. apply andb_true_iff in H as [Hs Hn]. unfold pcanon.
  rewrite (map_cstr_id _ Hn), (fold_pset_cstr _ _ Hn).
  rewrite (rebuild_sorted (m_params m) [] Hs); [reflexivity|]. intros k v _ k' v' [].
Qed.

Lemma map_cstr_nonul ks : forallb nonul ks = true -> map cstr ks = ks.
Proof.
  induction ks as [|k ks IH]; simpl; [reflexivity|]. intros H. apply andb_true_iff in H as [H1 H2].
  rewrite (cstr_nonul _ H1), (IH H2). reflexivity.
Qed.

Section Queries.
  Variable ts : typestrs.

  Definition same_answers (f' f : form) : Prop :=
    type_of_form ts f' = type_of_form ts f /\
    f_purelist_depth f' = f_purelist_depth f /\
    f_minmax_depth f' = f_minmax_depth f /\
    f_branch_depth f' = f_branch_depth f /\
    f_purelist_isregular f' = f_purelist_isregular f /\
    f_keys f' = f_keys f /\
    f_numfields f' = f_numfields f.

  Definition loose_ok (f : form) : Prop :=
    form_wf_loose f = true -> form_parses f = true /\ same_answers (form_canon f) f.

  Lemma Forall_map_eq {B} (Q : form -> B) cs :
    Forall (fun c => form_wf_loose c = true -> Q (form_canon c) = Q c) cs -> forallb form_wf_loose cs = true ->
    map Q (map form_canon cs) = map Q cs.
  Proof.
    induction 1 as [|c cs Hc Hcs IH]; intros H; [reflexivity|]. simpl in H. apply andb_true_iff in H as [H1 H2].
    simpl. rewrite (Hc H1), (IH H2). reflexivity.
  Qed.

  Lemma Forall_parses cs :
    Forall loose_ok cs -> forallb form_wf_loose cs = true -> forallb (fun b : bool => b) (map form_parses cs) = true.
  Proof.
    induction 1 as [|c cs Hc Hcs IH]; intros H; [reflexivity|]. simpl in H. apply andb_true_iff in H as [H1 H2].
    simpl. rewrite (proj1 (Hc H1)), (IH H2). reflexivity.
  Qed.

  Ltac lists IH Hc :=
    let go Q := (assert (map Q (map form_canon _) = map Q _)
                   by (apply Forall_map_eq; [eapply Forall_impl; [|exact IH]; cbv beta; intros a Ha Hw;
                                             destruct (Ha Hw) as (_ & ? & ? & ? & ? & ? & ? & ?); assumption | exact Hc])) in
    go (type_of_form ts); go f_purelist_depth; go f_minmax_depth; go f_branch_depth; go f_purelist_isregular;
    go f_keys; go f_numfields.

  Ltac splitwf H :=
    repeat match type of H with _ && _ = true => let H' := fresh "W" in apply andb_true_iff in H as [H H'] end.

  Ltac fin :=
    unfold same_answers;
    cbn [form_canon type_of_form f_purelist_depth f_minmax_depth f_branch_depth f_purelist_isregular f_keys f_numfields
         m_params meta_canon];
    repeat match goal with E : _ = _ |- _ => rewrite E; clear E end; repeat split; reflexivity.

  Theorem loose_all f : loose_ok f.
  Proof.
    induction f as [m inner itemsize format dt|m|m o c IH|m s e c IH|m c size IH|m i c IH|m i c IH|m k c vw IH
                   |m k c vw lsb IH|m c IH|m t i cs IH|m ks cs IH|m hl|m g hl IH] using form_ind';
      intros Hwf; cbn [form_wf_loose] in Hwf; splitwf Hwf; pose proof (pcanon_id m Hwf) as Em.
    - split; [cbn [form_parses]; rewrite W, W0; reflexivity|]. clear -Em. fin.
    - split; [reflexivity|]. clear -Em. fin.
    - destruct (IH W) as (Pc & E1 & E2 & E3 & E4 & E5 & E6 & E7).
      split; [cbn [form_parses]; rewrite W0, Pc; reflexivity|]. clear -Em E1 E2 E3 E4 E5 E6 E7. fin.
    - destruct (IH W) as (Pc & E1 & E2 & E3 & E4 & E5 & E6 & E7).
      split; [cbn [form_parses]; rewrite W0, W1, Pc; reflexivity|]. clear -Em E1 E2 E3 E4 E5 E6 E7. fin.
    - destruct (IH W) as (Pc & E1 & E2 & E3 & E4 & E5 & E6 & E7).
      split; [cbn [form_parses]; rewrite W0, Pc; reflexivity|]. clear -Em E1 E2 E3 E4 E5 E6 E7. fin.
    - destruct (IH W) as (Pc & E1 & E2 & E3 & E4 & E5 & E6 & E7).
      split; [cbn [form_parses]; rewrite W0, Pc; reflexivity|]. clear -Em E1 E2 E3 E4 E5 E6 E7. fin.
    - destruct (IH W) as (Pc & E1 & E2 & E3 & E4 & E5 & E6 & E7).
      split; [cbn [form_parses]; rewrite W0, Pc; reflexivity|]. clear -Em E1 E2 E3 E4 E5 E6 E7. fin.
    - destruct (IH W) as (Pc & E1 & E2 & E3 & E4 & E5 & E6 & E7).
      split; [exact Pc|]. clear -Em E1 E2 E3 E4 E5 E6 E7. fin.
    - destruct (IH W) as (Pc & E1 & E2 & E3 & E4 & E5 & E6 & E7).
      split; [exact Pc|]. clear -Em E1 E2 E3 E4 E5 E6 E7. fin.
    - destruct (IH W) as (Pc & E1 & E2 & E3 & E4 & E5 & E6 & E7).
      split; [exact Pc|]. clear -Em E1 E2 E3 E4 E5 E6 E7. fin.
    - split; [cbn [form_parses]; rewrite W0, W1, (Forall_parses cs IH W); reflexivity|].
      lists IH W. clear -Em H H0 H1 H2 H3 H4 H5. fin.
    - assert (Ecanon : form_canon (FRecord m ks cs) = FRecord (meta_canon m) ks (map form_canon cs)).
      { destruct ks as [ks|]; [|reflexivity]. apply andb_true_iff in W as [Wl Wn]. apply Nat.eqb_eq in Wl.
        cbn [form_canon]. rewrite <- Wl, firstn_all, (map_cstr_nonul _ Wn), Wl, firstn_all_map. reflexivity. }
      split.
      + pose proof (Forall_parses cs IH W0) as Pc. destruct ks as [ks|]; cbn [form_parses]; [|exact Pc].
        apply andb_true_iff in W as [Wl Wn]. apply Nat.eqb_eq in Wl.
        rewrite Wl, firstn_all_map. exact Pc.
      + rewrite Ecanon. lists IH W0. assert (El : length (map form_canon cs) = length cs) by apply map_length.
        clear -Em H H0 H1 H2 H3 H4 H5 El. unfold same_answers.
        cbn [type_of_form f_purelist_depth f_minmax_depth f_branch_depth f_purelist_isregular f_keys f_numfields
             m_params meta_canon].
        unfold zlen. rewrite El, Em, H, H1, H2. repeat split; try reflexivity.
        destruct cs; reflexivity.
    - split; [reflexivity|]. clear -Em. fin.
    - destruct (IH W) as (Pc & E1 & E2 & E3 & E4 & E5 & E6 & E7).
      split; [exact Pc|]. clear -Em E1 E2 E3 E4 E5 E6 E7. fin.
  Qed.
End Queries.

(* ---------------------------------------------------------------- form_wf is inside form_wf_loose *)
Lemma meta_wf_is_loose m : meta_wf m = true -> meta_wf_loose m = true.
Proof. unfold meta_wf, meta_wf_loose. intros H. apply andb_true_iff in H as [H _]. exact H. Qed.

Lemma forallb_impl_Forall (cs : list form) :
  Forall (fun c => form_wf c = true -> form_wf_loose c = true) cs -> forallb form_wf cs = true -> forallb form_wf_loose cs = true.
Proof.
  induction 1 as [|c cs Hc Hcs IH]; intros H; [reflexivity|]. simpl in H. apply andb_true_iff in H as [H1 H2].
  simpl. rewrite (Hc H1), (IH H2). reflexivity.
Qed.

Ltac splitwf H :=
  repeat match type of H with _ && _ = true => let H' := fresh "W" in apply andb_true_iff in H as [H H'] end.

Theorem form_wf_is_loose f : form_wf f = true -> form_wf_loose f = true.
Proof.
  induction f as [m inner itemsize format dt|m|m o c IH|m s e c IH|m c size IH|m i c IH|m i c IH|m k c vw IH
                 |m k c vw lsb IH|m c IH|m t i cs IH|m ks cs IH|m hl|m g hl IH] using form_ind';
    intros Hwf; cbn [form_wf] in Hwf; splitwf Hwf; cbn [form_wf_loose]; rewrite (meta_wf_is_loose m Hwf); cbn [andb];
    try solve [ reflexivity | rewrite (IH W), ?W0, ?W1; reflexivity ].
  - rewrite W2, W1. reflexivity.
  - rewrite W0, W1. cbn [andb]. apply forallb_impl_Forall; assumption.
  - rewrite (forallb_impl_Forall cs IH W0). cbn [andb]. exact W.
Qed.

(** 2. the widened fragment: the form that comes back is the canonical form of f, it is well-formed, has the same
    type under every typestr table and answers every depth / field query as f does *)
Theorem form_loose_roundtrip_thm : forall ts f v, form_wf_loose f = true ->
  exists f', form_fromjson (form_tojson v f) = Ok f' /\ f' = form_canon f /\ form_wf f' = true /\
    type_of_form ts f' = type_of_form ts f /\
    f_purelist_depth f' = f_purelist_depth f /\
    f_minmax_depth f' = f_minmax_depth f /\
    f_branch_depth f' = f_branch_depth f /\
    f_purelist_isregular f' = f_purelist_isregular f /\
    f_keys f' = f_keys f /\
    f_numfields f' = f_numfields f.
Proof.
  intros ts f v H. destruct (loose_all ts f H) as [P S]. exists (form_canon f).
  rewrite form_roundtrip_char, P. split; [reflexivity|]. split; [reflexivity|]. split; [exact (form_canon_wf f P)|exact S].
Qed.

Theorem form_type_commutes_with_fromjson_thm : forall ts f v, form_wf f = true ->
  exists f', form_fromjson (form_tojson v f) = Ok f' /\ type_of_form ts f' = type_of_form ts f.
Proof. intros ts f v H. exists f. split; [exact (form_json_roundtrip_thm f v H)|reflexivity]. Qed.

(* on the NumpyForm of the open finding: only format / itemsize are rewritten *)
Lemma form_canon_numpy m inner itemsize format dt : meta_wf m = true ->
  form_canon (FNumpy m inner itemsize format dt) = FNumpy m inner (dtype_to_itemsize dt) (dtype_to_format dt) dt.
Proof.
  intros H. cbn [form_canon]. f_equal. unfold meta_canon. rewrite (pcanon_id m (meta_wf_is_loose m H)).
  unfold meta_wf in H. apply andb_true_iff in H as [_ Hk]. destruct m as [h p [k|]]; cbn [m_key m_hid m_params] in *;
    [rewrite (cstr_nonul _ Hk)|]; reflexivity.
Qed.

(* the fragment named in the finding: format / itemsize that util::format_to_dtype maps to the form's dtype *)
Definition numpy_fmt_ok (f : form) : bool :=
  match f with FNumpy _ _ itemsize format dt => fdtype_eqb (format_to_dtype format itemsize) dt | _ => true end.

(* a record with parameters, NUL in a form key, int64 given as "q", "<l", "=q" and uint8 given as "c" *)
Definition ex_loose : form :=
  FRecord (mkmeta true [(k_record, JStr [80; 116])] (Some [107; 0; 9])) (Some [[97]; [98]; [99]])
    [FListOffset (mkmeta false [(k_array, JStr s_string)] None) Fi64
       (FNumpy (mkmeta false [(k_array, JStr s_char)] None) [] 1 [99] (FD DUInt8));
     FUnion meta0 Fi8 Fu32 [FNumpy meta0 [2; 3] 8 [113] (FD DInt64); FVirtual meta0 (Some (FNumpy meta0 [] 8 [60; 108] (FD DInt64))) true];
     FIndexedOption meta0 Fi32 (FRegular meta0 (FNumpy meta0 [] 8 [61; 113] (FD DInt64)) 4)].

Example ex_loose_wf : form_wf_loose ex_loose = true /\ form_wf ex_loose = false.
Proof. vm_compute. split; reflexivity. Qed.
Example ex_loose_numpy_fmt_ok :
  numpy_fmt_ok (FNumpy meta0 [2; 3] 8 [113] (FD DInt64)) = true /\ numpy_fmt_ok (FNumpy meta0 [] 8 [60; 108] (FD DInt64)) = true /\
  numpy_fmt_ok (FNumpy meta0 [] 8 [61; 113] (FD DInt64)) = true /\ numpy_fmt_ok (FNumpy meta0 [] 1 [99] (FD DUInt8)) = true.
Proof. vm_compute. repeat split; reflexivity. Qed.
Example ex_loose_roundtrip : forall ts v, exists f',
  form_fromjson (form_tojson v ex_loose) = Ok f' /\ f' <> ex_loose /\ form_wf f' = true /\
  type_of_form ts f' = type_of_form ts ex_loose /\ f_minmax_depth f' = f_minmax_depth ex_loose.
Proof.
  intros ts v. destruct (form_loose_roundtrip_thm ts ex_loose v (proj1 ex_loose_wf)) as (f' & R & E & W & T & _ & M & _).
  exists f'. repeat split; try assumption. subst f'. vm_compute. discriminate.
Qed.
From Coq Require Import String.
Example ex_loose_answers :
  rmap type_tostring (type_of_form [(s_string, bytes_of_string "string"%string)] ex_loose) =
    Ok (bytes_of_string "Pt[""a"": string, ""b"": union[2 * 3 * int64, int64], ""c"": option[4 * int64]]"%string) /\
  f_minmax_depth ex_loose = Ok (1, 3).
Proof. vm_compute. split; reflexivity. Qed.
