(** C14 — feeding the from_iter encoding of record/tuple-free values to the builder. *)
From Coq Require Import ZArith List Bool Lia.
From AwkV Require Import Base Layout.
From AwkBuilder Require Import Builder Spec GbLemmas Invariant StepLemmas AtomStep Push OpenClose.
Import ListNotations.
Open Scope Z_scope.

Section PInd.
  Variable P : pyval -> Prop.
  Hypothesis HN : P PNone.
  Hypothesis HB : forall b, P (PBool b).
  Hypothesis HI : forall z, P (PInt z).
  Hypothesis HF : forall z, P (PFloat z).
  Hypothesis HS : forall e s, P (PStr e s).
  Hypothesis HL : forall l, Forall P l -> P (PList l).
  Hypothesis HT : forall l, P (PTup l).
  Hypothesis HR : forall nm fs, P (PRec nm fs).
  Fixpoint pyval_ind' (v : pyval) : P v :=
    match v with
    | PNone => HN
    | PBool b => HB b
    | PInt z => HI z
    | PFloat z => HF z
    | PStr e s => HS e s
    | PList l =>
        HL l ((fix go (l : list pyval) : Forall P l :=
                 match l with [] => Forall_nil P | x :: t => Forall_cons x (pyval_ind' x) (go t) end) l)
    | PTup l => HT l
    | PRec nm fs => HR nm fs
    end.
End PInd.

Section WithOpts.
Variable o : opts.
Hypothesis Ho : good_opts o.

Definition pushes (v : pyval) : Prop :=
  no_struct v = true ->
  forall K c, okctx K -> wf c -> active c = false ->
  exists c', run o (plug K c) (encode v) = Ok (plug K c') /\ pushed c c' (val_of v).

Lemma push_atom v cmd :
  encode v = [cmd] -> atomval cmd = Some (val_of v) -> pushes v.
Proof.
  intros Ee Hv _ K c OK W A. rewrite Ee.
  destruct (atom_step o Ho c cmd (val_of v) W A Hv) as (s & r & Es & P).
  assert (fragcmd cmd = true) as Fc by (destruct cmd; try discriminate; reflexivity).
  assert (cmd = CEndList -> active c = true) as He by (intros ->; discriminate).
  pose proof (step_in o K c cmd s r OK Fc Es He) as E1.
  exists (pick s r). split; [|exact P]. cbn [run]. rewrite E1. reflexivity.
Qed.

Lemma push_many l :
  Forall pushes l -> forallb no_struct l = true ->
  forall K c, okctx K -> wf c -> active c = false ->
  exists c', run o (plug K c) (flat_map encode l) = Ok (plug K c') /\
             wf c' /\ active c' = false /\ bvals c' = bvals c ++ map val_of l.
Proof.
  induction 1 as [|v t Hv Ht IH]; intros Hn K c OK W A.
  - exists c. cbn. rewrite app_nil_r. auto.
  - cbn [forallb] in Hn. apply andb_true_iff in Hn. destruct Hn as [Hn1 Hn2].
    destruct (Hv Hn1 K c OK W A) as (c1 & E1 & (W1 & A1 & V1)).
    destruct (IH Hn2 K c1 OK W1 A1) as (c2 & E2 & W2 & A2 & V2).
    exists c2. cbn [flat_map]. rewrite run_app, E1. cbn [bind]. rewrite E2.
    refine (conj eq_refl (conj W2 (conj A2 _))). rewrite V2, V1, <- app_assoc. reflexivity.
Qed.

Lemma push_all v : pushes v.
Proof.
  induction v using pyval_ind'.
  - apply (push_atom PNone CNull); reflexivity.
  - apply (push_atom (PBool b) (CBool b)); reflexivity.
  - apply (push_atom (PInt z) (CInt z)); reflexivity.
  - apply (push_atom (PFloat z) (CReal z)); reflexivity.
  - apply (push_atom (PStr e s) (CStr e s)); reflexivity.
  - (* list *)
    intros Hn K c OK W A. cbn [no_struct] in Hn. cbn [encode val_of].
    destruct (open_step o Ho c W A) as (s & r & K1 & offs1 & c0 & Es & Ep & (C1 & C2 & C3 & C4)).
    assert (CBeginList = CEndList -> active c = true) as He by discriminate.
    pose proof (step_in o K c CBeginList s r OK eq_refl Es He) as E1.
    set (K2 := K ++ K1 ++ [FList offs1]).
    assert (okctx K2) as OK2 by (right; exists (K ++ K1), offs1; unfold K2; now rewrite app_assoc).
    destruct (push_many l H Hn K2 c0 OK2 C1 C2) as (c0' & E2 & W2 & A2 & V2).
    destruct (C4 c0' (map val_of l) W2 A2 V2) as (c' & E3 & P3).
    assert (plug K2 c0' = plug K (plug K1 (BList offs1 c0' true))) as EK
      by (unfold K2; rewrite !plug_app; reflexivity).
    assert (plug K (pick s r) = plug K2 c0) as EK0
      by (unfold K2; rewrite Ep, !plug_app; reflexivity).
    assert (CEndList = CEndList -> active (plug K1 (BList offs1 c0' true)) = true) as He3
      by (intros _; apply plug_active; reflexivity).
    pose proof (step_in o K _ CEndList c' None OK eq_refl E3 He3) as E4. cbn [pick] in E4.
    exists c'. split; [|exact P3].
    cbn [run]. rewrite E1, EK0. rewrite run_app, E2. cbn [bind run]. rewrite EK, E4. reflexivity.
  - intros Hn; discriminate.
  - intros Hn; discriminate.
Qed.

Theorem feed_values vs :
  forallb no_struct vs = true ->
  exists b, run o ab_init (encode_all vs) = Ok b /\ wf b /\ active b = false /\ bvals b = map val_of vs.
Proof.
  intro Hn.
  assert (Forall pushes vs) as F by (apply Forall_forall; intros; apply push_all).
  destruct (push_many vs F Hn [] ab_init (or_introl eq_refl)) as (b & E & W & A & V); try reflexivity.
  - cbn. lia.
  - exists b. cbn [plug] in E. auto.
Qed.

End WithOpts.
