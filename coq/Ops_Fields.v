(** Record fields at the C++ layer: getitem_field(s) (projection, modelled in Ops_Getitem as
    [field_content]/[proj_v]) and setitem_field (append a field to a RecordArray). *)
From AwkV Require Export Ops_Getitem.

Definition digit_name (i : Z) : name := [48 + i].    (* "0" .. "9": tuples have at most a few fields here *)

Definition setfield_model (k : name) (c what : content) : res content :=
  match c with
  | Record cs keys n =>
      if negb (clen what =? n) then Err EValue else
      let keys' := match keys with
                   | Some ks => ks
                   | None => map digit_name (iota (zlen cs))
                   end in
      Ok (Record (cs ++ [what]) (Some (keys' ++ [k])) n)
  | _ => Err EValue
  end.

Definition setfield_spec (k : name) (t : ty) (vs ws : list value) : res (list value) :=
  match t with
  | TRec _ _ =>
      if negb (zlen vs =? zlen ws) then Err EValue else
      mapM (fun vw : value * value =>
              match fst vw with
              | VRec fs => Ok (VRec (fs ++ [(k, snd vw)]))
              | VTup xs => Ok (VRec (zip (map digit_name (iota (zlen xs))) xs ++ [(k, snd vw)]))
              | _ => Err EValue
              end) (zip vs ws)
  | _ => Err EValue
  end.
