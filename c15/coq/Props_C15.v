(** C15 — property theorems (statements only; proofs are in Proofs_C15.v). *)
From Coq Require Import ZArith List.
From AwkV Require Import Base Layout Valid.
From AwkJson Require Import Json Proofs_C15 Proofs_C15b Proofs_C15c Proofs_C15d Proofs_C15e Proofs_C15f Proofs_C15g Proofs_C15h.
Import ListNotations.
Open Scope Z_scope.

(* the decimal printer and the digit reader are inverse (unbounded integers) *)
Theorem dec_roundtrip : forall n rest, 0 <= n -> no_digit_head rest ->
  read_digits (dec_nat n ++ rest) 0 0 = (n, zlen (dec_nat n), rest).
Proof. exact dec_nat_read. Qed.
Print Assumptions dec_roundtrip.

(* unescaping inverts escaping for every byte string (quote, backslash, \b \f \n \r \t, \u00XX, raw bytes >= 0x20) *)
Theorem string_roundtrip : forall s r, Forall (fun c => 0 <= c) s ->
  lex_str (flat_map esc_byte s ++ 34 :: r) = SOk s r.
Proof. exact lex_str_render. Qed.
Print Assumptions string_roundtrip.

(* (a) every event sequence emitted by to_json is well-formed; no validity hypothesis is needed,
   so this is stronger than the statement with [Valid None c] *)
Theorem events_wellformed : forall o c evs, tojson_events o c = Ok evs -> wf evs = true.
Proof. exact events_wellformed_strong. Qed.
Print Assumptions events_wellformed.

(* (c) the reader inverts the compact writer: int64 integers, integer-valued doubles up to 2^53, booleans,
   null, byte strings and keys, arbitrary nesting *)
Theorem parse_render : forall evs, wf evs = true -> printable evs = true ->
  parse (render evs) = Ok (evs, []).
Proof. exact parse_render_lemma. Qed.
Print Assumptions parse_render.

(* ... also after leading whitespace and before any following text that cannot extend a number
   (kParseStopWhenDoneFlag) *)
Theorem parse_render_ws : forall ws evs rest, wf evs = true -> printable evs = true -> all_ws ws -> num_safe rest ->
  parse (ws ++ render evs ++ rest) = Ok (evs, rest).
Proof. exact parse_render_ws_lemma. Qed.
Print Assumptions parse_render_ws.

(* (d) k documents separated by whitespace give k entries, in order (events as seen after Handler) *)
Theorem concat_docs : forall o w0 dws, all_ws w0 -> Forall doc_ok dws -> seps_ok dws ->
  do_parse o (w0 ++ docs_text dws) = JDocs (map (fun dw => map (handler o) (fst dw)) dws).
Proof. exact concat_docs_lemma. Qed.
Print Assumptions concat_docs.

(* (b) FULL statement: for every valid layout the events of to_json fold back into to_list, up to the
   documented rendering jv (VStr -> string, VTup -> object keyed "0","1",..., nan/inf -> the chosen
   strings, everything else unchanged).  The two data hypotheses: [bytes_ok] (uint8 items are bytes) always
   holds in the implementation and is there only because the model's buffers are unbounded integers;
   [u64ok] (uint64 items below 2^63) cannot be dropped: Example tojson_value_refuted_uint64 in
   Proofs_C15.v is the known finding c15-uint64-wraps. *)
Theorem tojson_value : forall o c vs, Valid None c -> bytes_ok c = true -> u64ok c = true -> to_list c = Ok vs ->
  exists evs, tojson_events o c = Ok evs /\ json_value evs = Ok (VList (map (jv o) vs), []).
Proof. exact tojson_value_full. Qed.
Print Assumptions tojson_value.

(* the same on the syntactic fragment frag15 (every node class; __array__ absent or string/bytestring over a
   1-d uint8 char/byte NumpyArray), without assuming validity of offsets, indexes, masks or tags:
   [to_list c = Ok vs] is enough *)
Theorem tojson_value_partial : forall o c vs, frag15 c = true -> u64ok c = true -> to_list c = Ok vs ->
  exists evs, tojson_events o c = Ok evs /\ json_value evs = Ok (VList (map (jv o) vs), []).
Proof. exact tojson_value_frag. Qed.
Print Assumptions tojson_value_partial.

(* (e) truncation: no strict prefix of the text of an array or object parses (root scalars are excluded by
   necessity: "12" is a valid prefix of "123"; that is the only reason for the suffix _partial) *)
Theorem truncation_errors_partial : forall evs p s, wf evs = true -> printable evs = true ->
  (exists t, evs = ESA :: t \/ evs = ESO :: t) ->
  render evs = p ++ s -> s <> [] -> forall res, parse p <> Ok res.
Proof. exact truncation_lemma. Qed.
Print Assumptions truncation_errors_partial.

(* to_json followed by from_json, at the event level: one document, the same events (after Handler) *)
Theorem roundtrip_events : forall o c evs, tojson_events o c = Ok evs -> printable evs = true ->
  do_parse o (render evs) = JDocs [map (handler o) evs] /\
  unwrap [map (handler o) evs] = One (map (handler o) evs).
Proof. exact roundtrip_events_lemma. Qed.
Print Assumptions roundtrip_events.

(* ====================================================================================================
   Session additions (Proofs_C15b .. Proofs_C15f)
   ==================================================================================================== *)

(* ---- the reader on ARBITRARY input *)
(* the model's fuel is never exhausted: parse is total *)
Theorem parse_total : forall bs, parse bs <> Err EFuel.
Proof. exact parse_total_lemma. Qed.
Print Assumptions parse_total.

(* whatever parse accepts is a well-formed event sequence, read from a non-empty prefix of the input, whose structural
   skeleton (the bytes [ ] { } , : outside strings and one quote per string, found by an independent three-state
   scanner) is the skeleton of the events, and which ends outside any string *)
Theorem parse_sound : forall bs evs rest, parse bs = Ok (evs, rest) ->
  wf evs = true /\ exists u, bs = u ++ rest /\ u <> [] /\ skeleton u = esk PStart evs /\ run Out u = Out.
Proof. exact parse_sound_lemma. Qed.
Print Assumptions parse_sound.

(* ... and the rendering has the same skeleton *)
Theorem render_skeleton : forall evs, printable evs = true -> skeleton (render evs) = esk PStart evs.
Proof. exact skeleton_render. Qed.
Print Assumptions render_skeleton.

(* every entry from_json hands to the builder is ONE complete well-formed value (never a partial array) *)
Theorem do_parse_docs_wellformed : forall o text docs, do_parse o text = JDocs docs -> Forall (fun d => wf d = true) docs.
Proof. exact do_parse_docs_wellformed_lemma. Qed.
Print Assumptions do_parse_docs_wellformed.

(* the loop is total: documents, "incomplete JSON object" or "JSON File error", never the model's out-of-fuel *)
Theorem do_parse_total : forall o text, do_parse o text <> JErr JFuel.
Proof. exact do_parse_total_lemma. Qed.
Print Assumptions do_parse_total.

(* ---- (e) truncation, exact *)
(* a strict prefix of the text of a well-formed document parses ONLY IF the document is a bare number: arrays,
   objects, strings, true / false / null at the root are all covered (supersedes truncation_errors_partial) *)
Theorem truncation_errors : forall evs p s, wf evs = true -> printable evs = true ->
  render evs = p ++ s -> s <> [] -> forall res, parse p = Ok res -> bare_number evs.
Proof. exact truncation_exact_lemma. Qed.
Print Assumptions truncation_errors.

(* the exception, exactly: every strict prefix of the decimal text of an int64 parses, to a DIFFERENT integer,
   except the empty prefix and a lone minus sign *)
Theorem truncation_int_exact : forall z p s, -9223372036854775808 <= z < 9223372036854775808 ->
  dec z = p ++ s -> s <> [] ->
  ((p = [] \/ p = [45]) -> parse p = Err EValue) /\
  (p <> [] -> p <> [45] -> exists z', parse p = Ok ([EInt z'], []) /\ z' <> z).
Proof. exact truncation_int_exact_lemma. Qed.
Print Assumptions truncation_int_exact.

(* "digits.0": the prefix "digits" parses as an INTEGER event (another type), "digits." is an error *)
Theorem truncation_real_exact : forall z, -9007199254740992 <= z <= 9007199254740992 ->
  render [EReal (RZ z)] = dec z ++ [46; 48] /\
  parse (dec z) = Ok ([EInt z], []) /\ parse (dec z ++ [46]) = Err EValue.
Proof. exact truncation_real_exact_lemma. Qed.
Print Assumptions truncation_real_exact.

(* k complete documents followed by a truncated one (non-empty strict prefix of an array, object, string or
   literal): an error; the k complete documents are NOT returned *)
Theorem truncated_last_document : forall o w0 dws evs p s,
  all_ws w0 -> Forall doc_ok dws -> seps_ok dws ->
  wf evs = true -> printable evs = true -> ~ bare_number evs ->
  render evs = p ++ s -> p <> [] -> s <> [] ->
  exists e, do_parse o (w0 ++ docs_text dws ++ p) = JErr e /\ e <> JFuel.
Proof. exact truncated_last_document_lemma. Qed.
Print Assumptions truncated_last_document.

(* ---- corruption of one structural byte ([ ] { } , : outside strings) into another structural byte: the JSON
   error, or a well-formed event sequence different from the original; no third outcome.  _partial: only
   structural -> structural replacements (not quotes, digits or bytes inside strings) *)
Theorem single_byte_corruption_partial : forall evs A b B b',
  wf evs = true -> printable evs = true ->
  render evs = A ++ b :: B -> run Out A = Out -> is_struct b = true -> is_struct b' = true -> b <> b' ->
  parse (A ++ b' :: B) = Err EValue \/
  exists evs' rest, parse (A ++ b' :: B) = Ok (evs', rest) /\ wf evs' = true /\ evs' <> evs.
Proof. exact single_byte_corruption_lemma. Qed.
Print Assumptions single_byte_corruption_partial.

(* ---- from_json = from_iter o json.loads, at the level of builder commands *)
(* from_iter's command sequence determines the Python value *)
Theorem fromiter_encoding_inverse : forall v, json_loads (cmds v) = Ok (v, []).
Proof. exact loads_cmds_lemma. Qed.
Print Assumptions fromiter_encoding_inverse.

(* the commands the reader issues for a document are exactly the from_iter encoding of the value json.loads denotes *)
Theorem fromjson_is_fromiter_doc : forall evs, wf evs = true -> exists v, json_loads evs = Ok (v, []) /\ cmds v = evs.
Proof. exact fromjson_is_fromiter_events. Qed.
Print Assumptions fromjson_is_fromiter_doc.

(* for any text and options: every entry is built by the from_iter commands of json.loads of its events *)
Theorem fromjson_is_fromiter : forall o text docs, do_parse o text = JDocs docs ->
  Forall (fun d => exists v, json_loads d = Ok (v, []) /\ cmds v = d) docs.
Proof. exact fromjson_is_fromiter_lemma. Qed.
Print Assumptions fromjson_is_fromiter.

(* Python dicts keep one item per key: the value is a genuine Python value exactly when no object repeats a key *)
Theorem fromjson_is_fromiter_dict : forall evs, wf evs = true ->
  exists v, json_loads evs = Ok (v, []) /\ (py_nodup v = true -> cmds (py_norm v) = evs).
Proof. exact fromjson_is_fromiter_dict_lemma. Qed.
Print Assumptions fromjson_is_fromiter_dict.

(* a repeated key: field() is issued twice by the reader, once by from_iter(json.loads(text)) *)
Theorem fromjson_is_fromiter_dupkeys_refuted :
  exists text d v, do_parse no_opts text = JDocs [d] /\ json_loads d = Ok (v, []) /\ cmds v = d /\
                   py_nodup v = false /\ cmds (py_norm v) <> d.
Proof. exact fromjson_is_fromiter_dupkeys_refuted_thm. Qed.
Print Assumptions fromjson_is_fromiter_dupkeys_refuted.

(* to_json text read back with the default options: one document whose commands are the from_iter encoding of
   json.loads of the very events to_json emitted *)
Theorem fromjson_of_tojson : forall c evs, tojson_events no_opts c = Ok evs -> printable evs = true ->
  forallb key_nulfree evs = true ->
  exists v, do_parse no_opts (render evs) = JDocs [cmds v] /\ json_loads evs = Ok (v, []) /\ cmds v = evs.
Proof. exact fromjson_of_tojson_lemma. Qed.
Print Assumptions fromjson_of_tojson.

(* ---- to_json *)
(* (a) for every valid layout to_json succeeds and its event stream is well-formed and balanced (brackets match,
   keys only directly inside objects, alternating with values: an independent stack-based checker) *)
Theorem tojson_wellformed : forall o c, Valid None c -> bytes_ok c = true -> u64ok c = true ->
  Proofs_ToList.chars_ok c = true ->
  exists evs, tojson_events o c = Ok evs /\ wf evs = true /\ balanced evs = true.
Proof. exact tojson_wellformed_lemma. Qed.
Print Assumptions tojson_wellformed.

Theorem events_balanced : forall o c evs, tojson_events o c = Ok evs -> balanced evs = true.
Proof. exact events_balanced_lemma. Qed.
Print Assumptions events_balanced.

(* (b) widened: every node class; __array__ absent, "categorical" on any node, or string / bytestring in the shape
   validityerror accepts.  What stays excluded is witnessed below (none of it is a valid layout) *)
Theorem tojson_value_wide : forall o c vs, frag15w c = true -> u64ok c = true -> to_list c = Ok vs ->
  exists evs, tojson_events o c = Ok evs /\ json_value evs = Ok (VList (map (jv o) vs), []).
Proof. exact tojson_value_wide_lemma. Qed.
Print Assumptions tojson_value_wide.

Theorem frag15_in_frag15w : forall c, frag15 c = true -> frag15w c = true.
Proof. exact frag15_frag15w. Qed.
Print Assumptions frag15_in_frag15w.

(* (b)+(c) at the TEXT level: the text parses back completely and folds into to_list up to jv, for leaves the text
   carries exactly (text_exact: int64, integer-valued doubles up to 2^53, non-finite only with a chosen string,
   byte-string keys) *)
Theorem tojson_text_value : forall o c vs, frag15w c = true -> u64ok c = true -> text_exact o c = true ->
  to_list c = Ok vs ->
  exists evs, tojson_events o c = Ok evs /\ parse (render evs) = Ok (evs, []) /\
              json_value evs = Ok (VList (map (jv o) vs), []).
Proof. exact tojson_text_value_wide_lemma. Qed.
Print Assumptions tojson_text_value.

(* NaN / +inf / -inf leaves are written as the chosen strings and parse back to those strings *)
Theorem tojson_nonfinite_strings : forall o d, opts_chosen o = true -> nonfinite d = true ->
  exists s, real_ev o d = EStr s /\ Some s = match d with DNaN => nan_s o | DInf false => inf_s o | _ => minf_s o end /\
            parse (render [real_ev o d]) = Ok ([EStr s], []) /\
            json_value [real_ev o d] = Ok (jv o (VNum d), []).
Proof. exact tojson_nonfinite_strings_lemma. Qed.
Print Assumptions tojson_nonfinite_strings.

(* ... and from_json with the same (NUL-free, pairwise different) strings turns them back into the numbers *)
Theorem fromjson_restores_nonfinite : forall o d, opts_distinct o = true ->
  handler o (real_ev o d) = EReal (rnum_of d).
Proof. exact fromjson_restores_nonfinite_lemma. Qed.
Print Assumptions fromjson_restores_nonfinite.

(* no string chosen (the Python default): the text is not JSON (known finding c15-nonfinite-without-substitution) *)
Theorem tojson_nonfinite_default_refuted :
  exists o c evs, frag15 c = true /\ u64ok c = true /\ text_exact o c = false /\
                  tojson_events o c = Ok evs /\ parse (render evs) = Err EValue.
Proof. exact tojson_nonfinite_default_refuted_thm. Qed.
Print Assumptions tojson_nonfinite_default_refuted.

(* the exclusions of the fragment, witnessed: a char tag outside a string, a string whose content is not tagged
   char, a char tag on an n-d NumpyArray — to_json and to_list disagree on each *)
Theorem tojson_value_char_outside_string_refuted :
  exists c vs v, frag15w c = false /\ to_list c = Ok vs /\
                 (do e <- tojson_events ex_opts c; json_value e) = Ok (v, []) /\ v <> VList (map (jv ex_opts) vs).
Proof. exact tojson_value_char_outside_string_refuted_thm. Qed.
Print Assumptions tojson_value_char_outside_string_refuted.

Theorem tojson_value_string_untagged_refuted :
  exists c vs v, frag15w c = false /\ to_list c = Ok vs /\
                 (do e <- tojson_events ex_opts c; json_value e) = Ok (v, []) /\ v <> VList (map (jv ex_opts) vs).
Proof. exact tojson_value_string_untagged_refuted_thm. Qed.
Print Assumptions tojson_value_string_untagged_refuted.

Theorem tojson_value_char_nd_refuted :
  exists c vs v, frag15w c = false /\ to_list c = Ok vs /\
                 (do e <- tojson_events ex_opts c; json_value e) = Ok (v, []) /\ v <> VList (map (jv ex_opts) vs).
Proof. exact tojson_value_char_nd_refuted_thm. Qed.
Print Assumptions tojson_value_char_nd_refuted.

(* ---- the uint64 exclusion made exact (known finding c15-uint64-wraps) *)
(* to_json does not distinguish a layout from the same layout with its uint64 buffers viewed as int64 ... *)
Theorem tojson_uint64_as_int64 : forall o c, tojson_events o (wrapv c) = tojson_events o c.
Proof. exact tojson_events_wrapv. Qed.
Print Assumptions tojson_uint64_as_int64.

(* ... so, WITHOUT u64ok, the JSON value of an array is the to_list of that reinterpreted array *)
Theorem tojson_value_uint64_exact : forall o c vs, frag15w (wrapv c) = true -> to_list (wrapv c) = Ok vs ->
  exists evs, tojson_events o c = Ok evs /\ json_value evs = Ok (VList (map (jv o) vs), []).
Proof. exact tojson_value_uint64_exact_lemma. Qed.
Print Assumptions tojson_value_uint64_exact.

(* u64ok cannot be dropped from tojson_value / tojson_value_wide *)
Theorem tojson_value_uint64_refuted :
  exists c vs v, frag15 c = true /\ u64ok c = false /\ to_list c = Ok vs /\
                 (do e <- tojson_events ex_opts c; json_value e) = Ok (v, []) /\ v <> VList (map (jv ex_opts) vs).
Proof. exact tojson_value_uint64_refuted_thm. Qed.
Print Assumptions tojson_value_uint64_refuted.

(* ---- corruption, general form: a structural byte replaced by ANY other byte, or deleted *)
Theorem structural_byte_replaced : forall evs A b B b',
  wf evs = true -> printable evs = true ->
  render evs = A ++ b :: B -> run Out A = Out -> is_struct b = true -> b' <> b ->
  parse (A ++ b' :: B) = Err EValue \/
  exists evs' rest, parse (A ++ b' :: B) = Ok (evs', rest) /\ wf evs' = true /\ evs' <> evs.
Proof. exact structural_byte_replaced_lemma. Qed.
Print Assumptions structural_byte_replaced.

Theorem structural_byte_deleted : forall evs A b B,
  wf evs = true -> printable evs = true ->
  render evs = A ++ b :: B -> run Out A = Out -> is_struct b = true ->
  parse (A ++ B) = Err EValue \/
  exists evs' rest, parse (A ++ B) = Ok (evs', rest) /\ wf evs' = true /\ evs' <> evs.
Proof. exact structural_byte_deleted_lemma. Qed.
Print Assumptions structural_byte_deleted.

(* not extensible to non-structural bytes: "[1.0]" with '.' replaced by 'e' is "[1e0]", the same value *)
Theorem nonstructural_byte_corruption_refuted :
  exists evs A b B b', wf evs = true /\ printable evs = true /\ render evs = A ++ b :: B /\ run Out A = Out /\
                       is_struct b = false /\ b' <> b /\ parse (A ++ b' :: B) = Ok (evs, []).
Proof. exact nonstructural_byte_corruption_refuted_thm. Qed.
Print Assumptions nonstructural_byte_corruption_refuted.
