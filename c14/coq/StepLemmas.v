(** C14 — what one command does to a well-formed inactive builder (record/tuple-free fragment). *)
From Coq Require Import ZArith List Bool Lia.
From AwkV Require Import Base Layout.
From AwkBuilder Require Import Builder GbLemmas Invariant.
Import ListNotations.
Open Scope Z_scope.

Definition atomval (c : cmd) : option value :=
  match c with
  | CNull => Some VNone
  | CBool b => Some (VBool b)
  | CInt z | CReal z => Some (VNum (DZ z))
  | CStr e s => Some (VStr e s)
  | _ => None
  end.

Definition fragcmd (c : cmd) : bool :=
  match c with
  | CNull | CBool _ | CInt _ | CReal _ | CStr _ _ | CBeginList | CEndList => true
  | _ => false
  end.

Lemma zlen_zip {A B} (l : list A) (m : list B) : zlen l = zlen m -> zlen (zip l m) = zlen l.
Proof.
  revert m; induction l as [|a t IH]; intros [|b m] H; try reflexivity.
  - unfold zlen in *; cbn [length zip] in *; lia.
  - cbn [zip]. rewrite !zlen_cons in *. rewrite IH; lia.
Qed.

Lemma bvals_len b : wf b -> zlen (bvals b) = blen b.
Proof.
  destruct b; cbn [wf bvals blen]; intro W.
  - rewrite zlen_repeat. lia.
  - rewrite zlen_map. now apply gb_list_len.
  - rewrite zlen_map. now apply gb_list_len.
  - rewrite zlen_map. now apply gb_list_len.
  - destruct W as (W1 & W2 & O & L). rewrite zlen_map, zlen_cuts by (eapply okoff_ne; eauto).
    now rewrite gb_list_len.
  - destruct W as (W1 & W2 & F). rewrite zlen_map. now apply gb_list_len.
  - destruct W as (W1 & W2 & O & L). rewrite zlen_map, zlen_cuts by (eapply okoff_ne; eauto).
    now rewrite gb_list_len.
  - contradiction.
  - contradiction.
  - destruct W as (W1 & W2 & E & _). rewrite zlen_map, zlen_zip; rewrite !gb_list_len; auto.
Qed.

Lemma blen_nonneg b : wf b -> 0 <= blen b.
Proof. intro W. rewrite <- bvals_len by auto. apply zlen_nonneg. Qed.

Section WithOpts.
Variable o : opts.
Hypothesis Ho : good_opts o.

(* ------------------------------------------------------------------ fresh nodes *)
Lemma cuts_two {A} (s : list A) : cuts [0; zlen s] s = [s].
Proof.
  unfold cuts. cbn [pairs map fst snd]. f_equal. unfold drop. cbn [Z.to_nat skipn].
  rewrite Z.sub_0_r. apply take_all. lia.
Qed.

Lemma fresh_atom c v :
  atomval c = Some v -> c <> CNull ->
  exists nb, fresh_after o c = Ok nb /\ wf nb /\ active nb = false /\ bvals nb = [v] /\ blen nb = 1.
Proof.
  intros Hv Hn. destruct c; try discriminate; try congruence; cbn in Hv; inversion Hv; subst v; clear Hv;
    unfold fresh_after.
  - destruct (gb_empty_ok o Ho) as (g & E & W & L & N & _). rewrite E. cbn [bind].
    destruct (gb_append_ok o g (if b then 1 else 0) Ho W) as (g' & E' & W' & L' & N' & _). rewrite E'. cbn [bind].
    eexists; split; [reflexivity|]. cbn [wf active bvals blen]. rewrite L', L, N', N. cbn.
    refine (conj W' (conj eq_refl (conj _ eq_refl))). now destruct b.
  - destruct (gb_empty_ok o Ho) as (g & E & W & L & N & _). rewrite E. cbn [bind].
    destruct (gb_append_ok o g z Ho W) as (g' & E' & W' & L' & N' & _). rewrite E'. cbn [bind].
    eexists; split; [reflexivity|]. cbn [wf active bvals blen]. rewrite L', L, N', N. cbn.
    exact (conj W' (conj eq_refl (conj eq_refl eq_refl))).
  - destruct (gb_empty_ok o Ho) as (g & E & W & L & N & _). rewrite E. cbn [bind].
    destruct (gb_append_ok o g z Ho W) as (g' & E' & W' & L' & N' & _). rewrite E'. cbn [bind].
    eexists; split; [reflexivity|]. cbn [wf active bvals blen]. rewrite L', L, N', N. cbn.
    exact (conj W' (conj eq_refl (conj eq_refl eq_refl))).
  - destruct (gb_empty_ok o Ho) as (g & E & W & L & N & _). rewrite E. cbn [bind].
    destruct (gb_append_ok o g 0 Ho W) as (g0 & E0 & W0 & L0 & N0 & _). rewrite E0. cbn [bind].
    unfold string_after.
    destruct (gb_extend_ok o s g Ho W) as (gc & Ec & Wc & Lc & Nc). rewrite Ec. cbn [bind].
    destruct (gb_append_ok o g0 (glen gc) Ho W0) as (g1 & E1 & W1 & L1 & N1 & _). rewrite E1. cbn [bind].
    eexists; split; [reflexivity|]. cbn [wf active bvals blen].
    rewrite L1, L0, Lc, L, N1, N0, Nc, N. cbn [app]. rewrite !Z.add_0_l.
    assert (okoff [0; zlen s] (zlen s)) as OK.
    { change [0; zlen s] with ([0] ++ [zlen s]). pose proof (zlen_nonneg s).
      apply okoff_snoc with (n := 0); [apply okoff_single| cbn |]; lia. }
    rewrite cuts_two. cbn [last].
    refine (conj (conj W1 (conj Wc (conj OK eq_refl))) (conj eq_refl (conj eq_refl _))). lia.
Qed.

Lemma fresh_list :
  exists offs, fresh_after o CBeginList = Ok (BList offs (BUnknown 0) true) /\ gbwf offs /\ gb_list offs = [0] /\ glen offs = 1.
Proof.
  unfold fresh_after.
  destruct (gb_empty_ok o Ho) as (g & E & W & L & N & _). rewrite E. cbn [bind].
  destruct (gb_append_ok o g 0 Ho W) as (g0 & E0 & W0 & L0 & N0 & _). rewrite E0. cbn [bind].
  exists g0. rewrite L0, L, N0, N. exact (conj eq_refl (conj W0 (conj eq_refl eq_refl))).
Qed.

(* ------------------------------------------------------------------ wrapping into an option / a union *)
Lemma option_null_ok b :
  wf b -> active b = false ->
  exists idx, option_null o b = SOk b (Some (BOption idx b)) /\ pushed b (BOption idx b) VNone.
Proof.
  intros W A. unfold option_null.
  destruct (gb_arange_ok o (blen b) Ho (blen_nonneg b W)) as (g & E & Wg & L & N & _). rewrite E. cbn [withgb].
  destruct (gb_append_ok o g (-1) Ho Wg) as (g' & E' & W' & L' & N' & _). rewrite E'. cbn [withgb].
  exists g'. split; [reflexivity|]. unfold pushed. cbn [wf active bvals]. rewrite L', L.
  split; [|split; [exact A|]].
  - split; [exact W'|split; [exact W|]]. apply Forall_app. split.
    + apply Forall_forall. intros i Hi. unfold iota in Hi.
      assert (forall s n i, In i (iota_nat s n) -> i < s + Z.of_nat n) as G.
      { intros s n; revert s; induction n; intros s j Hj; cbn in Hj; [contradiction|].
        destruct Hj as [<-|Hj]; [lia|]. apply IHn in Hj. lia. }
      apply G in Hi. pose proof (blen_nonneg b W). lia.
    + constructor; [|constructor]. pose proof (blen_nonneg b W). lia.
  - rewrite map_app. rewrite <- (bvals_len b W), map_lookup_iota. reflexivity.
Qed.

Lemma ulookup_pair_iota vs w : forall pre,
  map (ulookup [pre ++ vs; w]) (zip (repeat 0 (length vs)) (iota_nat (zlen pre) (length vs))) = vs.
Proof.
  induction vs as [|v t IH]; intro pre; [reflexivity|].
  cbn [length repeat iota_nat zip map]. f_equal.
  - unfold ulookup. cbn [fst snd Z.to_nat nth]. unfold zlen. rewrite Nat2Z.id.
    rewrite app_nth2 by lia. now rewrite Nat.sub_diag.
  - replace (pre ++ v :: t) with ((pre ++ [v]) ++ t) by now rewrite <- app_assoc.
    replace (zlen pre + 1) with (zlen (pre ++ [v])) by (rewrite zlen_app, zlen_cons, zlen_nil; lia).
    apply IH.
Qed.

Lemma in_iota_nat s n i : In i (iota_nat s n) -> s <= i < s + Z.of_nat n.
Proof.
  revert s; induction n; intros s Hj; cbn in Hj; [contradiction|].
  destruct Hj as [<-|Hj]; [lia|]. apply IHn in Hj. lia.
Qed.

Lemma zip_fill_iota_ok n (b nb : builder) :
  0 <= n -> n = blen b ->
  Forall (fun ti : Z * Z => 0 <= fst ti < zlen [b; nb] /\ 0 <= snd ti < blen (nth (Z.to_nat (fst ti)) [b; nb] (BUnknown 0)))
         (zip (fill 0 n) (iota n)).
Proof.
  intros Hn E. unfold fill, iota.
  assert (forall s k, 0 <= s -> s + Z.of_nat k <= blen b ->
          Forall (fun ti : Z * Z => 0 <= fst ti < zlen [b; nb] /\ 0 <= snd ti < blen (nth (Z.to_nat (fst ti)) [b; nb] (BUnknown 0)))
                 (zip (repeat 0 k) (iota_nat s k))) as G.
  { intros s k; revert s; induction k; intros s Hs Hk; cbn [repeat iota_nat zip]; constructor.
    - cbn [fst snd Z.to_nat nth]. unfold zlen; cbn [length]. lia.
    - apply IHk; lia. }
  apply G; lia.
Qed.

Lemma union_wrap_atom b c v :
  wf b -> active b = false -> atomval c = Some v -> c <> CNull ->
  exists u, union_wrap o b c = SOk b (Some u) /\ pushed b u v.
Proof.
  intros W A Hv Hn. unfold union_wrap.
  pose proof (blen_nonneg b W) as Hb.
  destruct (gb_full_ok o 0 (blen b) Ho Hb) as (gt & Et & Wt & Lt & Nt & _). rewrite Et. cbn [withgb].
  destruct (gb_arange_ok o (blen b) Ho Hb) as (gi & Ei & Wi & Li & Ni & _). rewrite Ei. cbn [withgb].
  destruct (fresh_atom c v Hv Hn) as (nb & En & Wn & An & Vn & Bn). rewrite En. cbn [withb].
  replace (kind_of c) with KAtom by (destruct c; try discriminate; try congruence; reflexivity).
  destruct (gb_append_ok o gt 1 Ho Wt) as (gt' & Et' & Wt' & Lt' & Nt' & _). rewrite Et'. cbn [withgb].
  destruct (gb_append_ok o gi 0 Ho Wi) as (gi' & Ei' & Wi' & Li' & Ni' & _). rewrite Ei'. cbn [withgb].
  eexists; split; [reflexivity|]. unfold pushed. cbn [wf active bvals]. rewrite Lt', Li', Lt, Li.
  assert (length (fill 0 (blen b)) = length (iota (blen b))) as EL.
  { apply Nat2Z.inj. change (zlen (fill 0 (blen b)) = zlen (iota (blen b))). rewrite zlen_fill, zlen_iota; lia. }
  rewrite zip_app by exact EL. split; [|split; [reflexivity|]].
  - split; [exact Wt'|split; [exact Wi'|split; [lia|split; [tauto|split; [|split]]]]].
    + apply Forall_app. split; [now apply zip_fill_iota_ok|].
      constructor; [|constructor]. cbn [fst snd]. change (Z.to_nat 1) with 1%nat. cbn [nth].
      unfold zlen; cbn [length]. rewrite Bn. lia.
    + intros _. constructor; [exact A|constructor; [exact An|constructor]].
    + intros H; exfalso; apply H; reflexivity.
  - rewrite map_app. cbn [map]. rewrite Vn. f_equal.
    unfold fill, iota. rewrite <- (bvals_len b W). unfold zlen. rewrite Nat2Z.id.
    apply (ulookup_pair_iota (bvals b) [v] []).
Qed.

End WithOpts.
