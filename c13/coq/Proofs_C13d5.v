(** Proofs_C13d5.v -- awkward_ListArray_combinations / awkward_RegularArray_combinations_64: the recursive enumeration
    writes exactly as many tuples as its own recursion counts ([comb_emits]), and never leaves its buffers when every
    output row has that capacity. *)
From Coq Require Import ZArith List Bool Lia ZifyBool.
From AwkV Require Import Base.
From AwkKernels Require Import Kernels KLemmas Proofs_C13 Proofs_C13b Proofs_C13c Proofs_C13d.
Import ListNotations.
Open Scope Z_scope.

Ltac Zify.zify_post_hook ::= Z.to_euclidean_division_equations.

(* ================================================================================================ *)
(** * rows *)
Lemma nth_error_set_row_eq rows k r : (k < length rows)%nat -> nth_error (set_row rows k r) k = Some r.
Proof. revert k; induction rows; intros [|k] H; cbn in *; try lia; auto. apply IHrows; lia. Qed.
Lemma nth_error_set_row_neq rows k m r : k <> m -> nth_error (set_row rows k r) m = nth_error rows m.
Proof. revert k m; induction rows; intros [|k] [|m] H; cbn; auto; congruence. Qed.
Lemma length_set_row rows k r : length (set_row rows k r) = length rows.
Proof. revert k; induction rows; intros [|k]; cbn; auto. Qed.

(** the first [n] rows exist and have at least [cap] cells *)
Definition rows_ok (tc : list (list Z)) (n cap : Z) : Prop :=
  forall k, 0 <= k < n -> exists row, nth_error tc (Z.to_nat k) = Some row /\ cap <= zlen row.

Lemma krow_ok tc k row : 0 <= k -> nth_error tc (Z.to_nat k) = Some row -> krow tc k = KOk row.
Proof. intros H N. unfold krow. replace (k <? 0) with false by lia. now rewrite N. Qed.

Lemma rows_ok_set_row tc n cap k row row' :
  rows_ok tc n cap -> 0 <= k -> nth_error tc (Z.to_nat k) = Some row -> cap <= zlen row' ->
  rows_ok (set_row tc (Z.to_nat k) row') n cap.
Proof.
  intros R Hk N C k' Hk'. destruct (Z.eq_dec k' k) as [->|D].
  - exists row'. split; auto. apply nth_error_set_row_eq. apply nth_error_Some. congruence.
  - rewrite nth_error_set_row_neq by lia. auto.
Qed.

(* ================================================================================================ *)
(** * the number of tuples emitted, by the recursion of awkward_ListArray_combinations_step itself *)
Fixpoint comb_loop (inner : Z -> Z) (stop : Z) (f : nat) (x : Z) : Z :=
  match f with
  | O => 0
  | S f' => if x <? stop then inner x + comb_loop inner stop f' (x + 1) else 0
  end.
Fixpoint comb_emits (depth fuel : nat) (j stop n : Z) (repl : bool) (x : Z) : Z :=
  match depth with
  | O => 0
  | S d => comb_loop (fun x => if j + 1 =? n then 1
                               else comb_emits d fuel (j + 1) stop n repl (if repl then x else x + 1)) stop fuel x
  end.

Lemma comb_loop_nonneg inner stop f x : (forall y, 0 <= inner y) -> 0 <= comb_loop inner stop f x.
Proof.
  intros H. revert x; induction f; intros x; cbn [comb_loop]; [lia|].
  destruct (x <? stop); [|lia]. specialize (H x). specialize (IHf (x + 1)). lia.
Qed.
Lemma comb_emits_nonneg depth fuel j stop n repl x : 0 <= comb_emits depth fuel j stop n repl x.
Proof.
  revert j x; induction depth; intros j x; cbn [comb_emits]; [lia|].
  apply comb_loop_nonneg. intros y. destruct (j + 1 =? n); [lia|apply IHdepth].
Qed.

(* ================================================================================================ *)
(** * state invariant and the emit loop *)
Definition cinv (n cap Lti Lfi : Z) (s : cstate) : Prop :=
  let '(tc, ti, fi) := s in rows_ok tc n cap /\ zlen ti = Lti /\ zlen fi = Lfi.

Lemma comb_emit_np n cap Lti Lfi tc ti fi :
  n <= Lti -> n <= Lfi -> cinv n cap Lti Lfi (tc, ti, fi) ->
  (forall k, 0 <= k < n -> 0 <= at_ ti k /\ at_ ti k + 1 <= cap) ->
  noob_post (comb_emit n (tc, ti, fi))
    (fun s => let '(tc', ti', fi') := s in
              cinv n cap Lti Lfi s /\ fi' = fi /\ forall k, 0 <= k < n -> at_ ti' k = at_ ti k + 1).
Proof.
  intros H1 H2 (R & L1 & L2) Hcap. unfold comb_emit.
  destruct (Z_le_gt_dec n 0) as [Hn|Hn].
  { rewrite kfor_empty by lia. apply np_ret. cbn. repeat split; auto. intros; lia. }
  eapply np_weaken.
  - apply (np_kfor _ (fun m (s : cstate) => let '(tc', ti', fi') := s in
             cinv n cap Lti Lfi s /\ fi' = fi /\
             forall k, 0 <= k < n -> at_ ti' k = if k <? m then at_ ti k + 1 else at_ ti k)).
    + cbn. repeat split; auto. intros k Hk. now replace (k <? 0) with false by lia.
    + intros m [[tc' ti'] fi'] Hm ((R' & L1' & L2') & -> & A).
      destruct (R' m Hm) as (row & N & C). rewrite (krow_ok tc' m row) by (auto; lia). cbn [kbind].
      pose proof (A m Hm) as Am. replace (m <? m) with false in Am by lia. destruct (Hcap m Hm) as (T0 & T1).
      np_auto. cbn [cinv]. repeat split; auto.
      * apply (rows_ok_set_row tc' n cap m row); auto; try lia. rewrite zlen_set_nth. lia.
      * now rewrite zlen_set_nth.
      * intros k Hk. rewrite at_set_nth by (unfold zlen in *; lia). rewrite Z2Nat.id by lia.
        destruct (k =? m) eqn:E.
        -- replace (k <? m + 1) with true by lia. replace k with m by lia. lia.
        -- rewrite A by lia. destruct (k <? m) eqn:E2; [replace (k <? m + 1) with true by lia|replace (k <? m + 1) with false by lia]; reflexivity.
  - intros [[tc' ti'] fi'] (I & -> & A). rewrite Z.max_r in A by lia. split; [exact I|]. split; [reflexivity|].
    intros k Hk. rewrite A by lia. now replace (k <? n) with true by lia.
Qed.

(** the loop that resets the deeper counters: fromindex[k] = x (+ k - j) for j < k < n *)
Lemma comb_reset_np j n (repl : bool) x fi :
  0 <= j -> n <= zlen fi ->
  noob_post (kfor (j + 1) n (fun (k : Z) (fi0 : list Z) => kupd fi0 k (if repl then x else x + (k - j))) fi)
    (fun fi1 => zlen fi1 = zlen fi /\ (forall k, 0 <= k <= j -> at_ fi1 k = at_ fi k) /\
                (j + 1 < n -> at_ fi1 (j + 1) = if repl then x else x + 1)).
Proof.
  intros Hj Hn. eapply np_weaken.
  - apply (np_kfor _ (fun m fi1 => zlen fi1 = zlen fi /\ (forall k, 0 <= k <= j -> at_ fi1 k = at_ fi k) /\
                                   (j + 1 < m -> at_ fi1 (j + 1) = if repl then x else x + 1))).
    + repeat split; auto. lia.
    + intros m s Hm (L & A & B). np_auto. rewrite zlen_set_nth. repeat split; auto.
      * intros k Hk. rewrite at_set_nth by (unfold zlen in *; lia). rewrite Z2Nat.id by lia.
        replace (k =? m) with false by lia. auto.
      * intros _. rewrite at_set_nth by (unfold zlen in *; lia). rewrite Z2Nat.id by lia.
        destruct (j + 1 =? m) eqn:E; [|apply B; lia].
        replace m with (j + 1) by lia. destruct repl; auto. f_equal. lia.
  - intros fi1 (L & A & B). repeat split; auto. intros H. apply B. lia.
Qed.

(* ================================================================================================ *)
(** * the recursive step *)
Definition comb_post (n cap Lti Lfi j : Z) (ti fi : list Z) (E : Z) (s : cstate) : Prop :=
  let '(tc', ti', fi') := s in
  cinv n cap Lti Lfi s /\ (forall k, 0 <= k < j -> at_ fi' k = at_ fi k) /\
  (forall k, 0 <= k < n -> at_ ti' k = at_ ti k + E).

Lemma comb_step_np n cap Lti Lfi repl stop :
  n <= Lti -> n <= Lfi ->
  forall depth fuel j tc ti fi,
  0 <= j < n -> cinv n cap Lti Lfi (tc, ti, fi) ->
  (forall k, 0 <= k < n -> 0 <= at_ ti k /\ at_ ti k + comb_emits depth fuel j stop n repl (at_ fi j) <= cap) ->
  noob_post (comb_step depth fuel j stop n repl (tc, ti, fi))
            (comb_post n cap Lti Lfi j ti fi (comb_emits depth fuel j stop n repl (at_ fi j))).
Proof.
  intros H1 H2. induction depth as [|d IH]; intros fuel j tc ti fi Hj I Hcap; cbn [comb_step comb_emits].
  { apply np_err. }
  set (inner := fun x => if j + 1 =? n then 1 else comb_emits d fuel (j + 1) stop n repl (if repl then x else x + 1)).
  assert (InnerNN : forall y, 0 <= inner y).
  { intros y. unfold inner. destruct (j + 1 =? n); [lia|apply comb_emits_nonneg]. }
  cbn [comb_emits] in Hcap. fold inner in Hcap.
  (* generalise the loop fuel and the state *)
  assert (G : forall f tc1 ti1 fi1,
    cinv n cap Lti Lfi (tc1, ti1, fi1) ->
    (forall k, 0 <= k < j -> at_ fi1 k = at_ fi k) ->
    (forall k, 0 <= k < n -> 0 <= at_ ti1 k /\ at_ ti1 k + comb_loop inner stop f (at_ fi1 j) <= cap) ->
    noob_post
      (kwhile f (fun s : cstate => let '(_, _, fi0) := s in match kget fi0 j with KOk x => x <? stop | _ => true end)
         (fun s : cstate => let '(tc0, ti0, fi0) := s in
            let* x := kget fi0 j in
            let* fi2 := kfor (j + 1) n (fun k fi3 => kupd fi3 k (if repl then x else x + (k - j))) fi0 in
            let* st1 := (if j + 1 =? n then comb_emit n (tc0, ti0, fi2)
                         else comb_step d fuel (j + 1) stop n repl (tc0, ti0, fi2)) in
            let '(tc2, ti2, fi3) := st1 in
            let* y := kget fi3 j in let* fi4 := kupd fi3 j (y + 1) in KOk (tc2, ti2, fi4))
         (tc1, ti1, fi1))
      (comb_post n cap Lti Lfi j ti1 fi (comb_loop inner stop f (at_ fi1 j)))).
  { induction f as [|f IHf]; intros tc1 ti1 fi1 I1 Fr Cap1; cbn [kwhile comb_loop].
    - destruct I1 as (R1 & L1 & L2). rewrite (kget_at fi1 j) by lia.
      destruct (at_ fi1 j <? stop); [apply np_err|]. apply np_ret. cbn [comb_post cinv]. repeat split; auto.
      intros k Hk. lia.
    - pose proof I1 as (R1 & L1 & L2). rewrite (kget_at fi1 j) by lia.
      cbn [comb_loop] in Cap1.
      destruct (at_ fi1 j <? stop) eqn:C.
      2:{ apply np_ret. cbn [comb_post cinv]. repeat split; auto. intros k Hk. lia. }
      set (x := at_ fi1 j) in *.
      pose proof (comb_loop_nonneg inner stop f (x + 1) InnerNN) as RestNN.
      (* one pass of the body *)
      apply np_bind with (R := fun s : cstate => let '(tc3, ti3, fi3) := s in
          cinv n cap Lti Lfi s /\ (forall k, 0 <= k < j -> at_ fi3 k = at_ fi k) /\ at_ fi3 j = x + 1 /\
          (forall k, 0 <= k < n -> at_ ti3 k = at_ ti1 k + inner x)).
      + try rewrite (kget_at fi1 j) by lia. cbn [kbind]. fold x.
        eapply np_bind; [apply (comb_reset_np j n repl x fi1); lia|].
        intros fi2 (Lf2 & A2 & B2).
        apply np_bind with (R := fun s : cstate => let '(tc3, ti3, fi3) := s in
            cinv n cap Lti Lfi s /\ (forall k, 0 <= k <= j -> at_ fi3 k = at_ fi1 k) /\
            (forall k, 0 <= k < n -> at_ ti3 k = at_ ti1 k + inner x)).
        * destruct (j + 1 =? n) eqn:Jn.
          -- assert (Ix : inner x = 1) by (unfold inner; rewrite ?Jn; reflexivity). rewrite Ix in *.
             eapply np_weaken.
             ++ apply (comb_emit_np n cap Lti Lfi tc1 ti1 fi2); auto.
                ** cbn [cinv]. repeat split; auto. lia.
                ** intros k Hk. specialize (Cap1 k Hk). lia.
             ++ intros [[tc3 ti3] fi3] (I3 & -> & A3). split; [exact I3|]. split; auto.
          -- assert (Ix : inner x = comb_emits d fuel (j + 1) stop n repl (if repl then x else x + 1))
               by (unfold inner; rewrite ?Jn; reflexivity). rewrite Ix in *.
             eapply np_weaken.
             ++ apply (IH fuel (j + 1) tc1 ti1 fi2); try lia.
                ** cbn [cinv]. repeat split; auto. lia.
                ** intros k Hk. specialize (Cap1 k Hk). rewrite B2 by lia. lia.
             ++ intros [[tc3 ti3] fi3] (I3 & F3 & A3). rewrite B2 in A3 by lia. split; [exact I3|]. split; auto.
                intros k Hk. rewrite F3 by lia. apply A2. lia.
        * intros [[tc3 ti3] fi3] ((R3 & L31 & L32) & F3 & A3). np_auto. cbn [cinv]. rewrite zlen_set_nth.
          repeat split; auto.
          -- intros k Hk. rewrite at_set_nth by (unfold zlen in *; lia). rewrite Z2Nat.id by lia.
             replace (k =? j) with false by lia. rewrite F3 by lia. apply Fr. lia.
          -- rewrite at_set_nth by (unfold zlen in *; lia). rewrite Z2Nat.id by lia. rewrite Z.eqb_refl.
             rewrite F3 by lia. reflexivity.
      + intros [[tc3 ti3] fi3] (I3 & F3 & X3 & A3).
        eapply np_weaken.
        * apply (IHf tc3 ti3 fi3 I3 F3). intros k Hk. rewrite X3. rewrite A3 by lia.
          specialize (Cap1 k Hk). specialize (InnerNN x). lia.
        * intros [[tc4 ti4] fi4] (I4 & F4 & A4). rewrite X3 in A4. cbn [comb_post]. split; [exact I4|]. split; [exact F4|].
          intros k Hk. rewrite A4, A3 by lia. lia. }
  apply (G fuel tc ti fi I); auto.
Qed.

(** one list: set fromindex[0] = start and enumerate *)
Lemma comb_iter_np n cap Lti Lfi repl start stop fuel tc ti fi T :
  1 <= n -> n <= Lti -> n <= Lfi -> cinv n cap Lti Lfi (tc, ti, fi) ->
  (forall k, 0 <= k < n -> at_ ti k = T) -> 0 <= T ->
  T + comb_emits (S (Z.to_nat n)) fuel 0 stop n repl start <= cap ->
  noob_post (let* fi' := kupd fi 0 start in comb_step (S (Z.to_nat n)) fuel 0 stop n repl (tc, ti, fi'))
    (fun s : cstate => let '(tc', ti', fi') := s in
       cinv n cap Lti Lfi s /\ forall k, 0 <= k < n -> at_ ti' k = T + comb_emits (S (Z.to_nat n)) fuel 0 stop n repl start).
Proof.
  intros Hn H1 H2 (R & L1 & L2) HT T0 Hcap. np_step.
  assert (A0 : at_ (set_nth fi (Z.to_nat 0) start) 0 = start).
  { rewrite at_set_nth by (unfold zlen in *; lia). reflexivity. }
  eapply np_weaken.
  - apply (comb_step_np n cap Lti Lfi repl stop H1 H2 (S (Z.to_nat n)) fuel 0 tc ti (set_nth fi (Z.to_nat 0) start)); try lia.
    + cbn [cinv]. rewrite zlen_set_nth. auto.
    + intros k Hk. rewrite A0, (HT k Hk). lia.
  - intros [[tc' ti'] fi'] (I' & _ & A). rewrite A0 in A. split; auto. intros k Hk. rewrite A, (HT k Hk) by lia. reflexivity.
Qed.

Definition comb_done (n cap Lti Lfi T : Z) (s : cstate) : Prop :=
  let '(tc, ti, fi) := s in cinv n cap Lti Lfi s /\ forall k, 0 <= k < n -> at_ ti k = T.

(** toindex[j] = 0 for j < n *)
Lemma comb_zero_np n toindex :
  n <= zlen toindex ->
  noob_post (kfor 0 n (fun j ti => kupd ti j 0) toindex)
            (fun ti0 => zlen ti0 = zlen toindex /\ forall k, 0 <= k < n -> at_ ti0 k = 0).
Proof.
  intros H. eapply np_weaken.
  - apply (np_kfor _ (fun m ti0 => zlen ti0 = zlen toindex /\ forall k, 0 <= k < m -> at_ ti0 k = 0)).
    + split; auto. intros; lia.
    + intros m s Hm (L & A). np_auto. rewrite zlen_set_nth. split; auto.
      intros k Hk. rewrite at_set_nth by (unfold zlen in *; lia). rewrite Z2Nat.id by lia.
      destruct (k =? m) eqn:E; auto. apply A. lia.
  - intros ti0 (L & A). split; auto. intros k Hk. apply A. lia.
Qed.

(* ================================================================================================ *)
(** * awkward_ListArray_combinations *)
Fixpoint lcomb_total (n : Z) (repl : bool) (starts stops : list Z) (k : nat) : Z :=
  match k with
  | O => 0
  | S k' => lcomb_total n repl starts stops k'
            + comb_emits (S (Z.to_nat n)) (S (Z.to_nat (at_ stops (Z.of_nat k') - at_ starts (Z.of_nat k')))) 0
                         (at_ stops (Z.of_nat k')) n repl (at_ starts (Z.of_nat k'))
  end.
Lemma lcomb_total_nonneg n repl starts stops k : 0 <= lcomb_total n repl starts stops k.
Proof.
  induction k; cbn [lcomb_total]; [lia|].
  pose proof (comb_emits_nonneg (S (Z.to_nat n)) (S (Z.to_nat (at_ stops (Z.of_nat k) - at_ starts (Z.of_nat k)))) 0
                (at_ stops (Z.of_nat k)) n repl (at_ starts (Z.of_nat k))). lia.
Qed.
Lemma lcomb_total_mono n repl starts stops k m :
  (k <= m)%nat -> lcomb_total n repl starts stops k <= lcomb_total n repl starts stops m.
Proof.
  induction 1; [lia|]. cbn [lcomb_total].
  pose proof (comb_emits_nonneg (S (Z.to_nat n)) (S (Z.to_nat (at_ stops (Z.of_nat m) - at_ starts (Z.of_nat m)))) 0
                (at_ stops (Z.of_nat m)) n repl (at_ starts (Z.of_nat m))). lia.
Qed.

(** every output row needs as many cells as the enumeration produces tuples; toindex and fromindex need n cells *)
Lemma ListArray_combinations_np tocarry toindex fromindex n replacement starts stops length cap :
  1 <= n -> n <= zlen toindex -> n <= zlen fromindex -> length <= zlen starts -> length <= zlen stops ->
  rows_ok tocarry n cap ->
  lcomb_total n replacement starts stops (Z.to_nat length) <= cap ->
  noob_post (ListArray_combinations tocarry toindex fromindex n replacement starts stops length)
    (comb_done n cap (zlen toindex) (zlen fromindex) (lcomb_total n replacement starts stops (Z.to_nat (Z.max 0 length)))).
Proof.
  intros Hn H1 H2 H3 H4 R Hcap. unfold ListArray_combinations.
  eapply np_bind; [apply comb_zero_np; auto|]. intros ti0 (L0 & A0).
  eapply np_weaken; [|intros [[tc ti] fi] Hs; exact Hs].
  apply (np_kfor _ (fun i (s : cstate) => let '(tc, ti, fi) := s in
           cinv n cap (zlen toindex) (zlen fromindex) s /\
           forall k, 0 <= k < n -> at_ ti k = lcomb_total n replacement starts stops (Z.to_nat i))).
  - cbn [cinv]. repeat split; auto.
  - intros i [[tc ti] fi] Hi (I & A). np_step. np_step.
    assert (TS : lcomb_total n replacement starts stops (Z.to_nat (i + 1))
                 = lcomb_total n replacement starts stops (Z.to_nat i)
                   + comb_emits (S (Z.to_nat n)) (S (Z.to_nat (at_ stops i - at_ starts i))) 0 (at_ stops i) n replacement (at_ starts i)).
    { replace (Z.to_nat (i + 1)) with (S (Z.to_nat i)) by lia. cbn [lcomb_total]. now rewrite Z2Nat.id by lia. }
    pose proof (lcomb_total_mono n replacement starts stops (Z.to_nat (i + 1)) (Z.to_nat length) ltac:(lia)) as TM.
    pose proof (lcomb_total_nonneg n replacement starts stops (Z.to_nat i)) as TN.
    eapply np_weaken.
    + apply (comb_iter_np n cap (zlen toindex) (zlen fromindex) replacement (at_ starts i) (at_ stops i)
               (S (Z.to_nat (at_ stops i - at_ starts i))) tc ti fi (lcomb_total n replacement starts stops (Z.to_nat i)));
        auto; lia.
    + intros [[tc' ti'] fi'] (I' & A'). split; auto. intros k Hk. rewrite A' by lia. lia.
Qed.

Example ListArray_combinations_safe_example :
  rows_ok [[9;9;9;9;9;9]; [9;9;9;9;9;9]] 2 6 /\
  lcomb_total 2 false [0] [4] 1 = 6 /\
  ListArray_combinations [[9;9;9;9;9;9]; [9;9;9;9;9;9]] [9; 9] [9; 9] 2 false [0] [4] 1
  = KOk ([[0;0;0;1;1;2]; [1;2;3;2;3;3]], [6; 6], [4; 4]).
Proof.
  split; [|split; vm_compute; reflexivity].
  intros k Hk. assert (k = 0 \/ k = 1) as [-> | ->] by lia; eexists; split; try reflexivity; vm_compute; congruence.
Qed.

(* ================================================================================================ *)
(** * awkward_RegularArray_combinations_64 *)
Fixpoint rcomb_total (n : Z) (repl : bool) (size : Z) (k : nat) : Z :=
  match k with
  | O => 0
  | S k' => rcomb_total n repl size k'
            + comb_emits (S (Z.to_nat n)) (S (Z.to_nat size)) 0 (size * Z.of_nat k' + size) n repl (size * Z.of_nat k')
  end.
Lemma rcomb_total_nonneg n repl size k : 0 <= rcomb_total n repl size k.
Proof.
  induction k; cbn [rcomb_total]; [lia|].
  pose proof (comb_emits_nonneg (S (Z.to_nat n)) (S (Z.to_nat size)) 0 (size * Z.of_nat k + size) n repl (size * Z.of_nat k)). lia.
Qed.
Lemma rcomb_total_mono n repl size k m : (k <= m)%nat -> rcomb_total n repl size k <= rcomb_total n repl size m.
Proof.
  induction 1; [lia|]. cbn [rcomb_total].
  pose proof (comb_emits_nonneg (S (Z.to_nat n)) (S (Z.to_nat size)) 0 (size * Z.of_nat m + size) n repl (size * Z.of_nat m)). lia.
Qed.

Lemma RegularArray_combinations_np tocarry toindex fromindex n replacement size length cap :
  1 <= n -> n <= zlen toindex -> n <= zlen fromindex ->
  rows_ok tocarry n cap ->
  rcomb_total n replacement size (Z.to_nat length) <= cap ->
  noob_post (RegularArray_combinations tocarry toindex fromindex n replacement size length)
    (comb_done n cap (zlen toindex) (zlen fromindex) (rcomb_total n replacement size (Z.to_nat (Z.max 0 length)))).
Proof.
  intros Hn H1 H2 R Hcap. unfold RegularArray_combinations.
  eapply np_bind; [apply comb_zero_np; auto|]. intros ti0 (L0 & A0).
  eapply np_weaken; [|intros [[tc ti] fi] Hs; exact Hs].
  apply (np_kfor _ (fun i (s : cstate) => let '(tc, ti, fi) := s in
           cinv n cap (zlen toindex) (zlen fromindex) s /\
           forall k, 0 <= k < n -> at_ ti k = rcomb_total n replacement size (Z.to_nat i))).
  - cbn [cinv]. repeat split; auto.
  - intros i [[tc ti] fi] Hi (I & A). cbv zeta.
    assert (TS : rcomb_total n replacement size (Z.to_nat (i + 1))
                 = rcomb_total n replacement size (Z.to_nat i)
                   + comb_emits (S (Z.to_nat n)) (S (Z.to_nat size)) 0 (size * i + size) n replacement (size * i)).
    { replace (Z.to_nat (i + 1)) with (S (Z.to_nat i)) by lia. cbn [rcomb_total]. now rewrite Z2Nat.id by lia. }
    pose proof (rcomb_total_mono n replacement size (Z.to_nat (i + 1)) (Z.to_nat length) ltac:(lia)) as TM.
    pose proof (rcomb_total_nonneg n replacement size (Z.to_nat i)) as TN.
    eapply np_weaken.
    + apply (comb_iter_np n cap (zlen toindex) (zlen fromindex) replacement (size * i) (size * i + size)
               (S (Z.to_nat size)) tc ti fi (rcomb_total n replacement size (Z.to_nat i))); auto; lia.
    + intros [[tc' ti'] fi'] (I' & A'). split; auto. intros k Hk. rewrite A' by lia. lia.
Qed.

Example RegularArray_combinations_64_example :
  RegularArray_combinations [[9;9;9;9;9;9]; [9;9;9;9;9;9]] [9; 9] [9; 9] 2 false 3 2
  = KOk ([[0;0;1;3;3;4]; [1;2;2;4;5;5]], [6; 6], [6; 6]).
Proof. vm_compute. reflexivity. Qed.

(* ================================================================================================ *)
(** * the enumeration emits exactly the number of tuples that awkward_ListArray_combinations_length counts *)

(** a loop whose summand satisfies a Pascal-like recurrence *)
Lemma comb_loop_rec (g h : nat -> Z) inner stop :
  g O = 0 -> (forall N, g (S N) = h (S N) + g N) ->
  forall f x, stop - x <= Z.of_nat f ->
  (forall y, x <= y < stop -> inner y = h (Z.to_nat (stop - y))) ->
  comb_loop inner stop f x = g (Z.to_nat (stop - x)).
Proof.
  intros G0 GS. induction f as [|f IH]; intros x Hf Hin; cbn [comb_loop].
  - replace (Z.to_nat (stop - x)) with O by lia. now rewrite G0.
  - destruct (x <? stop) eqn:C.
    + rewrite IH by (try lia; intros; apply Hin; lia). rewrite Hin by lia.
      replace (Z.to_nat (stop - x)) with (S (Z.to_nat (stop - (x + 1)))) by lia. now rewrite GS.
    + replace (Z.to_nat (stop - x)) with O by lia. now rewrite G0.
Qed.

Definition comb_closed (repl : bool) (N m : nat) : Z :=
  Z.of_nat (if repl then binom (N + m - 1) m else binom N m).

Lemma comb_emits_closed repl stop n fuel :
  forall depth m j x, Z.of_nat m = n - j -> (1 <= m)%nat -> (m <= depth)%nat -> stop - x <= Z.of_nat fuel ->
  comb_emits depth fuel j stop n repl x = comb_closed repl (Z.to_nat (stop - x)) m.
Proof.
  induction depth as [|d IH]; intros m j x Hm M1 Md Hf; [lia|]. cbn [comb_emits].
  destruct (j + 1 =? n) eqn:Jn.
  - assert (m = 1%nat) by lia. subst m.
    rewrite (comb_loop_rec (fun N => Z.of_nat N) (fun _ => 1)); auto; try lia.
    unfold comb_closed. destruct repl; rewrite binom_1_r; f_equal; lia.
  - destruct m as [|m']; [lia|]. assert (M' : (1 <= m')%nat) by lia.
    destruct repl.
    + rewrite (comb_loop_rec (fun N => Z.of_nat (binom (N + m') (S m'))) (fun N => Z.of_nat (binom (N + m' - 1) m'))); auto; try lia.
      * unfold comb_closed. do 2 f_equal. lia.
      * cbn [Nat.add]. rewrite binom_gt by lia. reflexivity.
      * intros N. replace (S N + m')%nat with (S (N + m')) by lia. rewrite binom_S.
        replace (S (N + m') - 1)%nat with (N + m')%nat by lia. lia.
      * intros y Hy. rewrite (IH m' (j + 1) y) by lia. reflexivity.
    + rewrite (comb_loop_rec (fun N => Z.of_nat (binom N (S m'))) (fun N => Z.of_nat (binom (N - 1) m'))); auto; try lia.
      * intros N. rewrite binom_S. replace (S N - 1)%nat with N by lia. lia.
      * intros y Hy. rewrite (IH m' (j + 1) (y + 1)) by lia. unfold comb_closed. do 2 f_equal. lia.
Qed.

Lemma comb_emits_count n repl start stop :
  1 <= n ->
  comb_emits (S (Z.to_nat n)) (S (Z.to_nat (stop - start))) 0 stop n repl start = comb_of n repl start stop.
Proof.
  intros Hn. rewrite (comb_emits_closed repl stop n _ _ (Z.to_nat n)) by lia.
  unfold comb_closed, comb_of. destruct repl.
  - destruct (Z_lt_ge_dec (stop - start) 1) as [Hs|Hs].
    + replace (Z.to_nat (stop - start)) with O by lia. rewrite binom_gt by lia.
      unfold combinations_count. now replace (stop - start + (n - 1) <? n) with true by lia.
    + rewrite combinations_count_binom by lia. do 2 f_equal. lia.
  - destruct (Z_lt_ge_dec (stop - start) 0) as [Hs|Hs].
    + replace (Z.to_nat (stop - start)) with O by lia. rewrite binom_gt by lia.
      unfold combinations_count. now replace (stop - start <? n) with true by lia.
    + rewrite combinations_count_binom by lia. reflexivity.
Qed.

Lemma lcomb_total_comb_sum n repl starts stops k :
  1 <= n -> (k <= length starts)%nat -> (k <= length stops)%nat ->
  lcomb_total n repl starts stops k = comb_sum n repl starts stops k.
Proof.
  intros Hn. induction k; intros H1 H2; [reflexivity|].
  cbn [lcomb_total]. rewrite comb_sum_S by lia. rewrite IHk by lia. now rewrite comb_emits_count.
Qed.

(** k_safe in terms of the caller's allocation: each of the n carry rows has totallen cells, where totallen =
    [comb_sum] is what awkward_ListArray_combinations_length computed (ListArray_combinations_length_spec) *)
Theorem ListArray_combinations_safe tocarry toindex fromindex n replacement starts stops length cap :
  1 <= n -> n <= zlen toindex -> n <= zlen fromindex -> 0 <= length -> length <= zlen starts -> length <= zlen stops ->
  rows_ok tocarry n cap ->
  comb_sum n replacement starts stops (Z.to_nat length) <= cap ->
  ListArray_combinations tocarry toindex fromindex n replacement starts stops length <> KOob.
Proof.
  intros Hn H1 H2 H0 H3 H4 R Hcap. eapply np_noob. apply (ListArray_combinations_np _ _ _ _ _ _ _ _ cap); auto.
  rewrite lcomb_total_comb_sum; auto; unfold zlen in *; lia.
Qed.

(** the fill writes exactly what _combinations_length counted: on success every toindex[k] (the number of tuples
    written to row k) equals totallen = [comb_sum], and the rows keep their extents *)
Theorem ListArray_combinations_spec tocarry toindex fromindex n replacement starts stops length cap :
  1 <= n -> n <= zlen toindex -> n <= zlen fromindex -> 0 <= length -> length <= zlen starts -> length <= zlen stops ->
  rows_ok tocarry n cap ->
  comb_sum n replacement starts stops (Z.to_nat length) <= cap ->
  forall tc ti fi,
  ListArray_combinations tocarry toindex fromindex n replacement starts stops length = KOk (tc, ti, fi) ->
  rows_ok tc n cap /\ zlen ti = zlen toindex /\ zlen fi = zlen fromindex /\
  forall k, 0 <= k < n -> at_ ti k = comb_sum n replacement starts stops (Z.to_nat length).
Proof.
  intros Hn H1 H2 H0 H3 H4 R Hcap tc ti fi E.
  assert (TC : lcomb_total n replacement starts stops (Z.to_nat length) = comb_sum n replacement starts stops (Z.to_nat length))
    by (rewrite lcomb_total_comb_sum; auto; unfold zlen in *; lia).
  destruct (ListArray_combinations_np tocarry toindex fromindex n replacement starts stops length cap) as (_ & P); auto; try lia.
  specialize (P _ E). cbn [comb_done] in P. destruct P as ((R' & L1 & L2) & A). rewrite Z.max_r in A by lia.
  rewrite TC in A. auto.
Qed.

(** RegularArray: every list has [size] items, so the count is length * C(size (+ n - 1), n) *)
Lemma comb_of_shift n repl s e : comb_of n repl s e = comb_of n repl 0 (e - s).
Proof. unfold comb_of. now replace (e - s - 0) with (e - s) by lia. Qed.
Lemma rcomb_total_closed n repl size k :
  1 <= n -> rcomb_total n repl size k = Z.of_nat k * comb_of n repl 0 size.
Proof.
  intros Hn. induction k; [reflexivity|]. cbn [rcomb_total]. rewrite IHk.
  replace (S (Z.to_nat size)) with (S (Z.to_nat (size * Z.of_nat k + size - size * Z.of_nat k))) by (do 2 f_equal; ring).
  rewrite comb_emits_count by lia. rewrite (comb_of_shift n repl (size * Z.of_nat k)).
  replace (size * Z.of_nat k + size - size * Z.of_nat k) with size by ring. lia.
Qed.

Theorem RegularArray_combinations_64_safe tocarry toindex fromindex n replacement size length cap :
  1 <= n -> n <= zlen toindex -> n <= zlen fromindex -> 0 <= length ->
  rows_ok tocarry n cap ->
  length * combinations_count n (if (replacement : bool) then size + (n - 1) else size) <= cap ->
  RegularArray_combinations tocarry toindex fromindex n replacement size length <> KOob.
Proof.
  intros Hn H1 H2 H0 R Hcap. eapply np_noob. apply (RegularArray_combinations_np _ _ _ _ _ _ _ cap); auto.
  rewrite rcomb_total_closed by lia. unfold comb_of. rewrite Z2Nat.id by lia.
  now replace (size - 0) with size by lia.
Qed.

Theorem RegularArray_combinations_64_spec tocarry toindex fromindex n replacement size length cap :
  1 <= n -> n <= zlen toindex -> n <= zlen fromindex -> 0 <= length ->
  rows_ok tocarry n cap ->
  length * combinations_count n (if (replacement : bool) then size + (n - 1) else size) <= cap ->
  forall tc ti fi,
  RegularArray_combinations tocarry toindex fromindex n replacement size length = KOk (tc, ti, fi) ->
  rows_ok tc n cap /\ zlen ti = zlen toindex /\ zlen fi = zlen fromindex /\
  forall k, 0 <= k < n -> at_ ti k = length * combinations_count n (if (replacement : bool) then size + (n - 1) else size).
Proof.
  intros Hn H1 H2 H0 R Hcap tc ti fi E.
  assert (TC : rcomb_total n replacement size (Z.to_nat length)
               = length * combinations_count n (if (replacement : bool) then size + (n - 1) else size)).
  { rewrite rcomb_total_closed by lia. unfold comb_of. rewrite Z2Nat.id by lia. now replace (size - 0) with size by lia. }
  destruct (RegularArray_combinations_np tocarry toindex fromindex n replacement size length cap) as (_ & P); auto; try lia.
  specialize (P _ E). cbn [comb_done] in P. destruct P as ((R' & L1 & L2) & A). rewrite Z.max_r in A by lia.
  rewrite TC in A. auto.
Qed.
