(** C17 property theorems (statements only; the proofs are in Proofs_*.v). *)
From Coq Require Import ZArith List Bool.
From AwkV Require Import Base Layout Valid Types Carry.
From AwkTypes Require Import Json Forms TypeStr Typing Proofs_Depth Proofs_Types Proofs_Typing Proofs_Json Proofs_Parse.
Import ListNotations.
Open Scope Z_scope.

(* (a) The type obtained from the form of a valid layout is the layout's type: Form::type on Content::form, with
   any table of typestrs, erased to the core type language (parameters other than string/bytestring dropped), is
   the core [type_of] used by every other property. *)
Theorem type_of_form_of : forall ts c,
  Valid None c -> rmap erase (type_of_form ts (form_of c)) = Ok (type_of c).
Proof. exact (fun ts c H => type_of_form_of_gen ts c None None H). Qed.
Print Assumptions type_of_form_of.

(* (b) Depth, regularity and field queries answered by a layout (the overrides in the Content subclasses) and by
   its form agree, for every layout whose NumpyArray nodes have at least one dimension (in particular every valid one). *)
Theorem depth_queries_agree : forall c, np_ok c = true ->
  f_purelist_depth (form_of c) = Ok (c_purelist_depth None c) /\
  f_minmax_depth (form_of c) = Ok (c_minmax_depth None c) /\
  f_branch_depth (form_of c) = Ok (c_branch_depth None c) /\
  f_purelist_isregular (form_of c) = Ok (c_purelist_isregular c) /\
  f_keys (form_of c) = Ok (c_keys c) /\
  f_numfields (form_of c) = Ok (c_numfields c).
Proof.
  exact (fun c H => conj (purelist_depth_agree c None None H)
                   (conj (minmax_depth_agree c None None H)
                   (conj (branch_depth_agree c None None H)
                   (conj (purelist_isregular_agree c None None)
                   (conj (keys_agree c None None) (numfields_agree c None None)))))).
Qed.
Print Assumptions depth_queries_agree.

Theorem valid_layouts_have_dimensions : forall c, Valid None c -> np_ok c = true.
Proof. exact (fun c H => valid_np_ok c None H). Qed.
Print Assumptions valid_layouts_have_dimensions.

(* (b') ... and they agree with the nested-list value: every number / boolean / string of every element of a valid
   layout sits at a list depth within minmax_depth (None, empty lists and field-less records have no leaves). *)
Theorem minmax_is_value_depth : forall c vs,
  Valid None c -> to_list c = Ok vs ->
  Forall (fun v => leaf_depth_in (fst (c_minmax_depth None c)) (snd (c_minmax_depth None c)) v = true) vs.
Proof. exact minmax_is_value_depth_thm. Qed.
Print Assumptions minmax_is_value_depth.

(* (e) Every element taken out of a valid array has a type consistent with the item type the array's type
   promises -- all node classes. *)
Theorem to_list_typed : forall c vs,
  Valid None c -> to_list c = Ok vs -> Forall (has_type (type_of c)) vs.
Proof. exact to_list_typed_thm. Qed.
Print Assumptions to_list_typed.

(* (f) Gathering by an index (carry), hence range slicing, never changes the type. *)
Theorem carry_preserves_type_thm : forall c ix c', carry c ix = Ok c' -> type_of c' = type_of c.
Proof. exact (fun c ix c' H => carry_preserves_type c None ix c' H). Qed.
Print Assumptions carry_preserves_type_thm.

Theorem getitem_range_preserves_type : forall c a b c', crange c a b = Ok c' -> type_of c' = type_of c.
Proof. exact (fun c a b c' H => carry_preserves_type c None (range a b) c' H). Qed.
Print Assumptions getitem_range_preserves_type.

(* (c) A form of an existing node class (form_wf: parameters as a std::map, index widths of an existing array class,
   NumpyForm fields consistent with its dtype, sizes within int, no NUL in keys) survives Form -> JSON -> Form, in the
   compact and in the verbose rendering, with parameters holding arbitrary JSON values. *)
Theorem form_json_roundtrip : forall f verbose,
  form_wf f = true -> form_fromjson (form_tojson verbose f) = Ok f.
Proof. exact form_json_roundtrip_thm. Qed.
Print Assumptions form_json_roundtrip.

(* (d) A type of the printable fragment (no parameters / typestrs except: the four types the default typestrs
   abbreviate -- string, bytes, char, byte --, and a record name that is a "name" and not a reserved word; regular
   sizes >= 0; keys byte strings; no empty named tuple) survives printing and re-parsing: lists, regular, option
   (both spellings), unions, records, tuples, named records and tuples, all 18 primitive names, unknown. *)
Theorem type_print_parse_roundtrip : forall t,
  printable t = true -> type_parse (type_tostring t) = Ok t.
Proof. exact type_print_parse_roundtrip_thm. Qed.
Print Assumptions type_print_parse_roundtrip.
