(** C09 property theorems (proofs in Proofs_C09.v): what pad_none / fill_none specifications do,
    and that the option encodings are interchangeable. *)
From AwkV Require Import Layout Ops_Struct Ops_Option Carry Proofs_C09.
From AwkV Require Import Valid Types AtAxis Carry Proofs_Lists Proofs_ToList Proofs_Carry Proofs_AtAxis Proofs_AtAxisOps.

Theorem pad_gives_max_len_target : forall target t l out,
  rpad_f target t l = Ok (VList out) -> zlen out = Z.max (zlen l) target.
Proof. exact rpad_length. Qed.
Print Assumptions pad_gives_max_len_target.

Theorem pad_appends_only_none : forall target t l,
  exists k, rpad_f target t l = Ok (VList (l ++ repeat VNone k)) /\ Z.of_nat k = Z.max 0 (target - zlen l).
Proof. exact rpad_prefix_and_suffix. Qed.
Print Assumptions pad_appends_only_none.

Theorem pad_clip_gives_exactly_target : forall target t l out,
  0 <= target -> rpadclip_f target t l = Ok (VList out) -> zlen out = target.
Proof. exact rpadclip_length. Qed.
Print Assumptions pad_clip_gives_exactly_target.

Theorem pad_clip_is_prefix_then_none : forall target t l,
  0 <= target ->
  rpadclip_f target t l =
  Ok (VList (if target <=? zlen l then firstn (Z.to_nat target) l
             else l ++ repeat VNone (Z.to_nat (target - zlen l)))).
Proof. exact rpadclip_is_prefix_then_none. Qed.
Print Assumptions pad_clip_is_prefix_then_none.

Theorem fill_replaces_exactly_none : forall v0 t,
  fillna_v v0 (TOpt t) VNone = Ok v0 /\ (forall v, v <> VNone -> fillna_v v0 (TOpt t) v = Ok v).
Proof. exact (fun v0 t => conj (fillna_replaces_none v0 t) (fillna_keeps_present v0 t)). Qed.
Print Assumptions fill_replaces_exactly_none.

Theorem fill_keeps_structure : forall v0 sz t l out,
  fillna_v v0 (TList sz None t) (VList l) = Ok (VList out) -> length out = length l.
Proof. exact fillna_keeps_list_lengths. Qed.
Print Assumptions fill_keeps_structure.

(* all encodings of missing values have the value of the IndexedOptionArray64 they convert to *)
Theorem negative_index_values_are_interchangeable : forall w ix c vs,
  to_list c = Ok vs ->
  to_list (IndexedOption w ix c) = to_list (IndexedOption I64 (map (fun i => if i <? 0 then -1 else i) ix) c).
Proof. exact indexedoption_normalised. Qed.
Print Assumptions negative_index_values_are_interchangeable.

Theorem byte_mask_is_index : forall m vw c vs,
  to_list c = Ok vs ->
  to_list (ByteMasked m vw c) =
  to_list (IndexedOption I64
             (map (fun im : Z * Z => let (i, b) := im in if Bool.eqb (negb (b =? 0)) vw then i else -1)
                  (zip (iota (zlen m)) m)) c).
Proof. exact bytemasked_as_indexedoption. Qed.
Print Assumptions byte_mask_is_index.

Theorem unmasked_is_index : forall c vs,
  to_list c = Ok vs -> zlen vs = clen c ->
  to_list (Unmasked c) = to_list (IndexedOption I64 (iota (clen c)) c).
Proof. exact unmasked_as_indexedoption. Qed.
Print Assumptions unmasked_is_index.

(* refinement of the padding models (ListOffset / Regular over an IndexedOptionArray) to the specification *)
Theorem pad_refines_spec : forall target c axis vs,
  Valid None c -> frag c = true -> to_list c = Ok vs ->
  obs (rpad_model target axis c) = rpad_spec target axis (type_of c) vs.
Proof. exact rpad_refines. Qed.
Print Assumptions pad_refines_spec.

Theorem pad_clip_refines_spec : forall target c axis vs,
  Valid None c -> frag c = true -> to_list c = Ok vs ->
  obs (rpadclip_model target axis c) = rpadclip_spec target axis (type_of c) vs.
Proof. exact rpadclip_refines. Qed.
Print Assumptions pad_clip_refines_spec.

(* ---- refinement of fill_none: the layout-level model (an option node becomes the union of its content and the
        one-element value array) computes exactly the value-level specification, values and error status ---- *)
From AwkV Require Import Proofs_Fillna.

(* on the usual fragment [frag] (every node class except UnionArray; strings and n-d NumpyArray included) *)
Theorem fillna_refines_spec : forall value c v0 vs,
  Valid None c -> frag c = true -> to_list c = Ok vs -> to_list value = Ok [v0] ->
  obs (fillna_model value c) = fillna_spec [v0] (type_of c) vs.
Proof. exact Proofs_Fillna.fillna_refines_spec. Qed.
Print Assumptions fillna_refines_spec.

(* on the wider fragment [ffrag] (unions allowed strictly below an option node) and for a value array of any
   length (a length other than 1 is refused by both sides) *)
Theorem fillna_refines_spec_wide : forall value c v0s vs,
  Valid None c -> ffrag c = true -> to_list c = Ok vs -> to_list value = Ok v0s ->
  obs (fillna_model value c) = fillna_spec v0s (type_of c) vs.
Proof. exact fillna_refines_spec_gen. Qed.
Print Assumptions fillna_refines_spec_wide.

Theorem frag_in_fillna_fragment : forall c, frag c = true -> ffrag c = true.
Proof. exact frag_ffrag. Qed.
Print Assumptions frag_in_fillna_fragment.

(* fill_none never fails on the fragment *)
Theorem fillna_never_fails : forall value c v0 vs,
  Valid None c -> ffrag c = true -> to_list c = Ok vs -> to_list value = Ok [v0] ->
  exists c' ws, fillna_model value c = Ok c' /\ to_list c' = Ok ws /\ fillna_spec [v0] (type_of c) vs = Ok ws.
Proof. exact fillna_total. Qed.
Print Assumptions fillna_never_fails.
