(** C08: simplify_uniontype(merge = false): flattening nested unions keeps every value. *)
From Coq Require Import ZArith List Bool Lia ZifyBool.
From AwkV Require Import Base Layout LayoutInd Valid Types Carry Proofs_C11.
From AwkMerge Require Import Merge Lemmas_C08 Proofs_C08 Proofs_MM Proofs_Simplify.
Import ListNotations.
Open Scope Z_scope.

Definition lk (vss : list (list value)) (k j : Z) : res value := do v <- get vss k; get v j.

Lemma place_false mb contents x : place false mb contents x = Ok (zlen contents, 0, contents ++ [x]).
Proof. reflexivity. Qed.

(* what to_list of a union node says, pointwise *)
Lemma union_rows w tags index cs vs :
  to_list (Union w tags index cs) = Ok vs ->
  Forall tl_ok cs /\ zlen tags <= zlen index /\ zlen vs = zlen tags /\
  forall p t ix, get tags p = Ok t -> get index p = Ok ix ->
    exists v, get vs p = Ok v /\ lk (map vals cs) t ix = Ok v.
Proof.
  cbn [to_list]. rewrite all_fix_to_list. intros H.
  apply bind_ok in H. destruct H as (vss & Hvss & H).
  destruct (zlen index <? zlen tags) eqn:E; [discriminate|].
  assert (Htl : Forall tl_ok cs /\ vss = map vals cs).
  { clear -Hvss. apply mapM_ok_Forall2 in Hvss. induction Hvss; cbn; [split; [constructor|reflexivity]|].
    destruct IHHvss as [IH1 IH2]. split; [constructor; [eexists; eauto|exact IH1]|].
    f_equal; [symmetry; apply vals_ok; exact H | exact IH2]. }
  destruct Htl as [Htl ->].
  repeat split; auto; [lia| |].
  - apply mapM_zlen in H. rewrite H. apply zlen_zip_ge. lia.
  - intros p t ix Ht Hix. pose proof (get_zip _ _ _ _ _ Ht Hix) as Hz.
    destruct (get_mapM _ _ _ _ _ H Hz) as (v & Hv & Hg). exists v. split; auto.
Qed.

Section SU.
  Variables (tags index : list Z) (vs : list value).
  Hypothesis Hlen_ix : zlen tags <= zlen index.
  Hypothesis Hlen_vs : zlen vs = zlen tags.

  Definition row (p t ix : Z) (v : value) : Prop := get tags p = Ok t /\ get index p = Ok ix /\ get vs p = Ok v.

  (* [done t ix]: the rows already written *)
  Definition InvG (done : Z -> Z -> bool) (contents : list content) (s : st) : Prop :=
    zlen s = zlen tags /\ Forall tl_ok contents /\
    forall p t ix v, row p t ix v ->
      (done t ix = true -> exists k j, get s p = Ok (Some (k, j)) /\ lk (map vals contents) k j = Ok v) /\
      (done t ix = false -> get s p = Ok None).

  Lemma row_get_s p t ix v (s : st) : zlen s = zlen tags -> row p t ix v -> exists old, get s p = Ok old.
  Proof. intros Hs (Ht & _ & _). apply get_in_range. apply get_lt in Ht. lia. Qed.

  Lemma simp_one_len s k i b : zlen s = zlen tags -> zlen (simp_one s tags index k i b) = zlen tags.
  Proof.
    intros Hs. unfold simp_one. rewrite zlen_map.
    rewrite zlen_zip_ge; rewrite zlen_zip_ge; lia.
  Qed.
  Lemma simp_one_get s k i b p t ix v old :
    row p t ix v -> get s p = Ok old ->
    get (simp_one s tags index k i b) p = Ok (if t =? i then Some (k, ix + b) else old).
  Proof.
    intros (Ht & Hix & _) Hold. unfold simp_one.
    pose proof (get_zip _ _ _ _ _ (get_zip _ _ _ _ _ Ht Hix) Hold) as Hz.
    apply (get_map (fun x : Z * Z * option (Z * Z) =>
                      let '(t0, i0, old0) := x in if t0 =? i then Some (k, i0 + b) else old0)) in Hz.
    exact Hz.
  Qed.

  Lemma simp_in_len s itags iindex k j i b s' :
    zlen s = zlen tags -> simp_in s tags index itags iindex k j i b = Ok s' -> zlen s' = zlen tags.
  Proof.
    intros Hs H. unfold simp_in in H. apply mapM_zlen in H. rewrite H.
    rewrite zlen_zip_ge; rewrite zlen_zip_ge; lia.
  Qed.
  Lemma simp_in_get s itags iindex k j i b s' p t ix v old :
    simp_in s tags index itags iindex k j i b = Ok s' -> row p t ix v -> get s p = Ok old ->
    exists new, get s' p = Ok new /\
      (if t =? i then
         exists it, get itags ix = Ok it /\
           (if it =? j then exists ii, get iindex ix = Ok ii /\ new = Some (k, ii + b) else new = old)
       else new = old).
  Proof.
    intros H (Ht & Hix & _) Hold. unfold simp_in in H.
    pose proof (get_zip _ _ _ _ _ (get_zip _ _ _ _ _ Ht Hix) Hold) as Hz.
    destruct (get_mapM _ _ _ _ _ H Hz) as (new & Hnew & Hg). exists new. split; auto.
    cbn in Hnew. destruct (t =? i); [|inversion Hnew; reflexivity].
    apply bind_ok in Hnew. destruct Hnew as (it & Hit & Hnew). exists it. split; auto.
    destruct (it =? j); [|inversion Hnew; reflexivity].
    apply bind_ok in Hnew. destruct Hnew as (ii & Hii & Hnew). exists ii. split; auto. inversion Hnew; reflexivity.
  Qed.

  Lemma lk_app_l vss extra k j v : lk vss k j = Ok v -> lk (vss ++ extra) k j = Ok v.
  Proof.
    unfold lk. intros H. apply bind_ok in H. destruct H as (l & Hl & H).
    rewrite (get_app_l _ _ _ _ Hl). exact H.
  Qed.
  Lemma lk_snoc (cs : list content) x j : lk (map vals (cs ++ [x])) (zlen cs) j = get (vals x) j.
  Proof.
    unfold lk. rewrite map_app. cbn [map]. rewrite <- (zlen_map vals cs), get_snoc. reflexivity.
  Qed.

  (* ---- a plain (non-union) alternative ---- *)
  Lemma step_plain (cs0 : list content) i x contents s :
    (forall p t ix v, row p t ix v -> lk (map vals cs0) t ix = Ok v) ->
    get cs0 i = Ok x -> tl_ok x ->
    InvG (fun t _ => t <? i) contents s ->
    InvG (fun t _ => t <? i + 1) (contents ++ [x]) (simp_one s tags index (zlen contents) i 0).
  Proof.
    intros Horig Hx Htx (Hs & Htl & Hrows). split; [|split].
    - apply simp_one_len. exact Hs.
    - apply Forall_app. split; [exact Htl|constructor; [exact Htx|constructor]].
    - intros p t ix v Hr. destruct (row_get_s _ _ _ _ _ Hs Hr) as [old Hold].
      rewrite (simp_one_get _ _ _ _ _ _ _ _ _ Hr Hold).
      destruct (Hrows _ _ _ _ Hr) as [Hd Hn].
      destruct (t =? i) eqn:E.
      + assert (t = i) by lia. subst t. split; [|lia]. intros _.
        exists (zlen contents), (ix + 0). split; [reflexivity|].
        rewrite lk_snoc, Z.add_0_r. specialize (Horig _ _ _ _ Hr). unfold lk in Horig.
        rewrite (get_map vals _ _ _ Hx) in Horig. exact Horig.
      + split.
        * intros Hlt. destruct Hd as (k & j & Hk & Hlk); [lia|]. exists k, j. split; [congruence|].
          rewrite map_app. apply lk_app_l. exact Hlk.
        * intros Hge. rewrite Hold. apply Hn. lia.
  Qed.

  (* ---- a nested union: its alternatives one after the other ---- *)
  Definition itag_of (itags : list Z) (ix : Z) : Z := match get itags ix with Ok it => it | Err _ => -1 end.
  Definition done_in (itags : list Z) (i j : Z) (t ix : Z) : bool :=
    (t <? i) || ((t =? i) && (itag_of itags ix <? j)).

  Lemma inner_steps mb itags iindex ics i
        (Hval : forall p ix v, row p i ix v ->
                  exists it ii, get itags ix = Ok it /\ get iindex ix = Ok ii /\ lk (map vals ics) it ii = Ok v) :
    forall il ipre contents s r,
      ics = ipre ++ il -> Forall tl_ok il ->
      InvG (done_in itags i (zlen ipre)) contents s ->
      su_inner false mb tags index itags iindex i (zlen ipre) il contents s = Ok r ->
      InvG (done_in itags i (zlen ics)) (fst r) (snd r) /\ exists added, fst r = contents ++ added /\ added = il.
  Proof.
    induction il as [|y ys IH]; intros ipre contents s r Hics Htl Hinv H.
    - cbn in H. inversion H; subst. cbn [fst snd]. rewrite app_nil_r. split; [exact Hinv|].
      exists []. rewrite app_nil_r. auto.
    - cbn [su_inner] in H. rewrite place_false in H. cbn [bind] in H.
      apply bind_ok in H. destruct H as (s' & Hs' & H).
      inversion Htl as [|? ? Hty Htys]; subst.
      destruct Hinv as (Hs & Htlc & Hrows).
      assert (Hinv' : InvG (done_in itags i (zlen (ipre ++ [y]))) (contents ++ [y]) s').
      { split; [|split].
        - eapply simp_in_len; eauto.
        - apply Forall_app. split; [exact Htlc|constructor; [exact Hty|constructor]].
        - intros p t ix v Hr. destruct (row_get_s _ _ _ _ _ Hs Hr) as [old Hold].
          destruct (simp_in_get _ _ _ _ _ _ _ _ _ _ _ _ _ Hs' Hr Hold) as (new & Hnew & Hcase).
          destruct (Hrows _ _ _ _ Hr) as [Hd Hn].
          rewrite zlen_app. change (zlen [y]) with 1. unfold done_in in *.
          destruct (t =? i) eqn:E.
          + assert (t = i) by lia. subst t.
            destruct Hcase as (it & Hit & Hcase).
            assert (Hio : itag_of itags ix = it) by (unfold itag_of; now rewrite Hit).
            rewrite Hio in *.
            destruct (it =? zlen ipre) eqn:E2.
            * destruct Hcase as (ii & Hii & ->). split; [|lia]. intros _.
              exists (zlen contents), (ii + 0). split; [exact Hnew|].
              rewrite lk_snoc, Z.add_0_r.
              destruct (Hval _ _ _ Hr) as (it' & ii' & Hit' & Hii' & Hlk).
              assert (it' = it) by congruence. assert (ii' = ii) by congruence. subst it' ii'.
              unfold lk in Hlk. assert (Hgy : get (map vals (ipre ++ y :: ys)) it = Ok (vals y)).
              { rewrite map_app. cbn [map]. replace it with (0 + zlen (map vals ipre)) by (rewrite zlen_map; lia).
                apply get_app_r; [lia|]. reflexivity. }
              rewrite Hgy in Hlk. exact Hlk.
            * subst new. split.
              -- intros Hdone. destruct Hd as (k & j & Hk & Hlk); [lia|]. exists k, j. split; [congruence|].
                 rewrite map_app. apply lk_app_l. exact Hlk.
              -- intros Hnd. rewrite Hnew. apply Hn. lia.
          + subst new. split.
            * intros Hdone. destruct Hd as (k & j & Hk & Hlk); [lia|]. exists k, j. split; [congruence|].
              rewrite map_app. apply lk_app_l. exact Hlk.
            * intros Hnd. rewrite Hnew. apply Hn. lia. }
      specialize (IH (ipre ++ [y]) (contents ++ [y]) s' r).
      rewrite zlen_app in IH. change (zlen [y]) with 1 in IH. rewrite <- app_assoc in IH. cbn [app] in IH.
      destruct (IH Hics Htys) as (Hfin & added & Hadd & Hadded).
      { rewrite zlen_app in Hinv'. exact Hinv'. }
      { exact H. }
      split; [exact Hfin|]. exists (y :: ys). rewrite Hadd, Hadded, <- app_assoc. auto.
  Qed.
End SU.
