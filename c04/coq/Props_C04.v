(** C04 property theorems (proofs in Proofs_C04.v).  Model: Broadcast.v (transcription of _util.apply and of the
    C++ normalisers); specification: BroadcastSpec.v. *)
From AwkBroadcast Require Import Broadcast Proofs_C04.

(* (d) a missing value in any argument gives a missing result there *)
Theorem none_propagates : forall op ar fuel args,
  rpad args = args -> existsb badT (map fst args) = false -> none_in args = true ->
  spec_v op ar (S fuel) args = Ok VNone.
Proof. exact none_propagates_step. Qed.
Print Assumptions none_propagates.

(* (e) lists of different lengths at the same position raise an error *)
Theorem length_mismatch_errors : forall op ar fuel args t l n,
  rpad args = args -> existsb badT (map fst args) = false -> existsb is_optT (map fst args) = false ->
  list_target args = Ok n ->
  In (t, VList l) args -> is_listT t = true -> sizeT t <> Some 1 -> zlen l <> n ->
  spec_v op ar (S fuel) args = Err EValue.
Proof. exact length_mismatch_step. Qed.
Print Assumptions length_mismatch_errors.

(* (c) a scalar behaves as the length-1 array of that scalar, which broadcasts *)
Theorem scalar_broadcasts : forall op ar fuel X a,
  is_listT (fst X) = true -> is_leafT (fst a) = true ->
  spec_v op ar fuel [X; a] = spec_v op ar fuel [X; pad1 a].
Proof. exact scalar_is_length1_array. Qed.
Print Assumptions scalar_broadcasts.

(* (f) the result has the list structure the type-level pass announces, and that is as deep as the deepest argument *)
Theorem spec_result_has_deepest_structure : forall op fuel args rt r,
  spec_t op false fuel (map fst args) = Ok rt -> spec_v op false fuel args = Ok r ->
  has_shape rt r = true /\ rdepth rt = maxdepth (map fst args).
Proof. exact (fun op fuel args rt r Ht Hv => conj (spec_shape op fuel args rt r Ht Hv) (spec_t_depth op false fuel _ rt Ht)). Qed.
Print Assumptions spec_result_has_deepest_structure.
