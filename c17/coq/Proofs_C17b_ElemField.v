(** C17b, field projection: the layout produced by [field_content] (array["x"]) / [fields_content]
    (array[["x", "y"]]) has exactly the projected type -- through lists, options, IndexedArray and parameter
    nodes, every node class, no validity needed; together with the core refinement theorem: the projected
    elements are the elements of the result. *)
From Coq Require Import ZArith List Bool Lia ZifyBool String.
From AwkV Require Import Base Layout LayoutInd Valid Types Carry Ops_Getitem Proofs_Lists Proofs_ToList
                         Proofs_Carry Proofs_AtAxis Proofs_Field Proofs_C11.
From AwkTypes Require Import Json Forms TypeStr Typing Proofs_Depth Proofs_Types Proofs_Typing Examples_C17
                             Proofs_C17b_ElemRange.
Import ListNotations.
Open Scope Z_scope.
Ltac Zify.zify_post_hook ::= Z.to_euclidean_division_equations.

Theorem field_content_type_thm k c : forall c',
  field_content k c = Ok c' -> proj_ty k (type_of c) = Ok (type_of c').
Proof.
  unfold type_of.
  induction c as [ | | | | | | | | | | w t ix cs HF | cs ks n HF | ] using content_ind'; intros c' H;
    cbn [field_content] in H; try discriminate H;
    try (apply rmap_Ok in H as (c0 & Hc0 & ->); cbn [type_of_p strflag proj_ty]; rewrite (IHc _ Hc0); reflexivity).
  - (* Record *)
    apply bind_Ok in H as (i & Hi & H). apply bind_Ok in H as (f & Hf & H).
    cbn [type_of_p proj_ty]. rewrite zlen_map, Hi. cbn [bind]. rewrite get_map, Hf. cbn [rmap].
    rewrite (carry_preserves_type f None _ _ H). reflexivity.
  - (* Par *)
    destruct arr; [discriminate H|]. cbn [type_of_p]. exact (IHc _ H).
Qed.

Lemma fields_pick_types (cs : list content) keys ks : forall fs,
  mapM (fun k => do i <- field_pos keys (zlen cs) k; get cs i) ks = Ok fs ->
  mapM (fun k => do i <- field_pos keys (zlen (map (type_of_p None) cs)) k; get (map (type_of_p None) cs) i) ks =
  Ok (map (type_of_p None) fs).
Proof.
  induction ks as [|k ks IH]; intros fs H.
  - inversion H. reflexivity.
  - rewrite mapM_cons in H. apply bind_Ok in H as (f & Hf & H). apply bind_Ok in H as (fs' & Hfs & H). inversion H; subst.
    apply bind_Ok in Hf as (i & Hi & Hf).
    rewrite mapM_cons. rewrite zlen_map, Hi. cbn [bind]. rewrite get_map, Hf. cbn [rmap bind].
    rewrite zlen_map in IH. rewrite (IH _ Hfs). reflexivity.
Qed.

Theorem fields_content_type_thm ks c : forall c',
  fields_content ks c = Ok c' -> projs_ty ks (type_of c) = Ok (type_of c').
Proof.
  unfold type_of.
  induction c as [ | | | | | | | | | | w t ix cs HF | cs keys n HF | ] using content_ind'; intros c' H;
    cbn [fields_content] in H; try discriminate H;
    try (apply rmap_Ok in H as (c0 & Hc0 & ->); cbn [type_of_p strflag projs_ty]; rewrite (IHc _ Hc0); reflexivity).
  - apply bind_Ok in H as (fs & Hfs & H). inversion H; subst.
    cbn [type_of_p projs_ty]. rewrite (fields_pick_types cs keys ks fs Hfs). reflexivity.
  - destruct arr; [discriminate H|]. cbn [type_of_p]. exact (IHc _ H).
Qed.

(* value level + type level together (the first part is the core theorem Proofs_Field.field_refines_spec) *)
Theorem getitem_field_type_thm k c vs c' :
  Valid None c -> to_list c = Ok vs -> field_content k c = Ok c' ->
  proj_ty k (type_of c) = Ok (type_of c') /\
  exists ws, to_list c' = Ok ws /\ mapM (proj_v k (type_of c)) vs = Ok ws.
Proof.
  intros HV Hl H. pose proof (field_content_type_thm k c c' H) as Ht. split; [exact Ht|].
  pose proof (field_refines_spec k c vs HV Hl) as Hr. rewrite H, Ht in Hr. cbn [obs bind] in Hr.
  destruct (to_list c') as [ws|e] eqn:Ews.
  - exists ws. split; [reflexivity|]. symmetry. exact Hr.
  - destruct (field_ok_when_typed k c vs _ HV Hl Ht) as (c2 & ws & Hc2 & Hws & _). congruence.
Qed.

(* the field exists in the type iff the layout-level projection succeeds, and then the types agree *)
Theorem getitem_field_iff_thm k c vs :
  Valid None c -> to_list c = Ok vs ->
  match field_content k c with
  | Ok c' => proj_ty k (type_of c) = Ok (type_of c')
  | Err e => e = EValue /\ proj_ty k (type_of c) = Err EValue
  end.
Proof.
  intros HV Hl. destruct (field_content k c) as [c'|e] eqn:E.
  - exact (field_content_type_thm k c c' E).
  - exact (field_error_is_value_error k c vs e HV Hl E).
Qed.

(* ---------------------------------------------------------------- the projected elements are typed *)
Lemma go_get ts : forall vs i t w,
  (fix go (ts : list ty) (vs : list value) {struct ts} : bool :=
     match ts, vs with
     | [], [] => true
     | t0 :: ts', v0 :: vs' => has_typeb t0 v0 && go ts' vs'
     | _, _ => false
     end) ts vs = true ->
  get ts i = Ok t -> get vs i = Ok w -> has_typeb t w = true.
Proof.
  induction ts as [|t0 ts IH]; intros vs i t w Hgo Ht Hw.
  - rewrite get_nil in Ht. discriminate.
  - destruct vs as [|v0 vs]; [discriminate Hgo|]. apply andb_true_iff in Hgo as [H0 Hgo].
    pose proof (get_range _ _ _ Ht) as Hr. destruct (Z.eq_dec i 0) as [->|Hn].
    + rewrite get_cons_0 in Ht. rewrite get_cons_0 in Hw. inversion Ht; inversion Hw; subst. exact H0.
    + rewrite get_cons_pos in Ht by lia. rewrite get_cons_pos in Hw by lia. exact (IH vs (i - 1) t w Hgo Ht Hw).
Qed.

Lemma proj_v_typed k : forall t t' v w,
  proj_ty k t = Ok t' -> has_typeb t v = true -> proj_v k t v = Ok w -> has_typeb t' w = true.
Proof.
  induction t as [dt | | sz str t1 IH | t1 IH | keys ts | ts]; intros t' v w Ht Hv Hw; cbn [proj_ty] in Ht; try discriminate Ht.
  - (* list *)
    destruct str; [discriminate Ht|]. apply rmap_Ok in Ht as (t1' & Ht1 & ->).
    cbn [has_typeb] in Hv. destruct v; try discriminate Hv. apply andb_true_iff in Hv as [Hall Hsz].
    cbn [proj_v] in Hw. apply rmap_Ok in Hw as (l' & Hl' & ->). cbn [has_typeb].
    apply andb_true_iff. split.
    + apply forallb_forall. intros y Hy. destruct (mapM_In_inv _ _ _ _ Hl' Hy) as (x & Hx & Hxy).
      rewrite forallb_forall in Hall. exact (IH _ _ _ Ht1 (Hall x Hx) Hxy).
    + rewrite (mapM_zlen _ _ _ Hl'). exact Hsz.
  - (* option *)
    apply rmap_Ok in Ht as (t1' & Ht1 & ->). cbn [proj_v] in Hw.
    destruct v; try (inversion Hw; subst; reflexivity);
      cbn [has_typeb] in Hv; pose proof (IH _ _ _ Ht1 Hv Hw) as H; cbn [has_typeb]; destruct w; try reflexivity; exact H.
  - (* record *)
    apply bind_Ok in Ht as (i & Hi & Ht). cbn [proj_v] in Hw. rewrite Hi in Hw. cbn [bind] in Hw.
    destruct keys as [ks|]; cbn [has_typeb] in Hv; destruct v; try discriminate Hv.
    + apply andb_true_iff in Hv as [_ Hgo]. apply bind_Ok in Hw as (kv & Hkv & Hw). inversion Hw; subst.
      apply (go_get ts (map snd fs) i t' (snd kv) Hgo Ht). rewrite get_map, Hkv. reflexivity.
    + exact (go_get ts vs i t' w Hv Ht Hw).
Qed.

(* every element of array["k"] has the item type of the field array -- whatever the layout of the result
   (its validity is only partially proved in the core, C11; this does not need it) *)
Theorem getitem_field_elements_typed_thm k c vs c' :
  Valid None c -> to_list c = Ok vs -> field_content k c = Ok c' ->
  exists ws, to_list c' = Ok ws /\ Forall (has_type (type_of c')) ws.
Proof.
  intros HV Hl H. destruct (getitem_field_type_thm k c vs c' HV Hl H) as (Ht & ws & Hws & Hm).
  exists ws. split; [exact Hws|]. pose proof (to_list_typed_thm c vs HV Hl) as HT. rewrite Forall_forall in HT.
  apply Forall_forall. intros w Hw. destruct (mapM_In_inv _ _ _ _ Hm Hw) as (v & Hv & Hvw).
  exact (proj_v_typed k _ _ v w Ht (HT v Hv) Hvw).
Qed.

(* ---------------------------------------------------------------- field projection on types WITH parameters *)
(* the projected type at the level of Form::type: the field's own type is kept with ALL its parameters and type
   strings; the parameters of the list / option nodes above the record (and of the record itself) are dropped,
   exactly as the getitem_field methods build their results with empty parameters *)
Fixpoint proj_rty (k : name) (t : rty) {struct t} : res rty :=
  match t with
  | RRec _ _ keys l => do i <- field_pos keys (zlen l) k; get l i
  | RList _ _ t' => rmap (RList [] []) (proj_rty k t')
  | RReg _ _ n t' => rmap (RReg [] [] n) (proj_rty k t')
  | ROpt _ _ t' => rmap (ROpt [] []) (proj_rty k t')
  | _ => Err EValue
  end.

Lemma proj_rty_set_params k p t : proj_rty k (rty_set_params p t) = proj_rty k t.
Proof. destruct t; reflexivity. Qed.

Lemma mapM_id_zlen {A} (l : list (res A)) ys : mapM_id l = Ok ys -> zlen ys = zlen l.
Proof.
  revert ys. induction l as [|x l IH]; intros ys H; cbn [mapM_id] in H; [inversion H; reflexivity|].
  apply bind_Ok in H as (y & Hy & H). apply bind_Ok in H as (ys' & Hys & H). inversion H; subst.
  rewrite !zlen_cons, (IH _ Hys). reflexivity.
Qed.

Lemma mapM_id_get' {A B} (F : B -> res A) (fs : list B) ll i f :
  mapM_id (map F fs) = Ok ll -> get fs i = Ok f -> exists l, F f = Ok l /\ get ll i = Ok l.
Proof.
  revert ll i. induction fs as [|f0 fs IH]; intros ll i H Hg; [rewrite get_nil in Hg; discriminate|].
  cbn [map mapM_id] in H. apply bind_Ok in H as (l0 & Hl0 & H). apply bind_Ok in H as (ll' & Hll & H). inversion H; subst.
  pose proof (get_range _ _ _ Hg) as Hr. destruct (Z.eq_dec i 0) as [->|Hn].
  - rewrite get_cons_0 in Hg. inversion Hg; subst. exists l0. split; [exact Hl0|apply get_cons_0].
  - rewrite get_cons_pos in Hg by lia. destruct (IH ll' (i - 1) Hll Hg) as (l & Hl & Hgl).
    exists l. split; [exact Hl|]. rewrite get_cons_pos by lia. exact Hgl.
Qed.

Lemma type_of_form_indexed_proj ts k m w f t0 t :
  type_of_form ts f = Ok t0 -> type_of_form ts (FIndexed m w f) = Ok t -> proj_rty k t = proj_rty k t0.
Proof.
  intros H0 H. cbn [type_of_form] in H. rewrite H0 in H. cbn [bind] in H.
  destruct (rty_params t0), (m_params m); inversion H; subst; try reflexivity; apply proj_rty_set_params.
Qed.

Theorem field_content_rtype_thm ts k c : forall r c' t,
  field_content k c = Ok c' -> type_of_form ts (form_of_p None r c) = Ok t ->
  exists t', proj_rty k t = Ok t' /\ type_of_form ts (form_of c') = Ok t'.
Proof.
  induction c as [ | | | | | | | | | | w tg ix cs HF | cs ks n HF | ] using content_ind'; intros r c' t H Ht;
    cbn [field_content] in H; try discriminate H.
  - (* ListOffset *)
    apply rmap_Ok in H as (c0 & Hc0 & ->). cbn [form_of_p type_of_form] in Ht. apply bind_Ok in Ht as (t0 & Ht0 & Ht).
    inversion Ht; subst. destruct (IHc None _ _ Hc0 Ht0) as (t0' & Hp & Ht0').
    exists (RList [] [] t0'). split; [cbn [proj_rty]; rewrite Hp; reflexivity|].
    unfold form_of in *. cbn [form_of_p type_of_form]. rewrite Ht0'. reflexivity.
  - apply rmap_Ok in H as (c0 & Hc0 & ->). cbn [form_of_p type_of_form] in Ht. apply bind_Ok in Ht as (t0 & Ht0 & Ht).
    inversion Ht; subst. destruct (IHc None _ _ Hc0 Ht0) as (t0' & Hp & Ht0').
    exists (RList [] [] t0'). split; [cbn [proj_rty]; rewrite Hp; reflexivity|].
    unfold form_of in *. cbn [form_of_p type_of_form]. rewrite Ht0'. reflexivity.
  - apply rmap_Ok in H as (c0 & Hc0 & ->). cbn [form_of_p type_of_form] in Ht. apply bind_Ok in Ht as (t0 & Ht0 & Ht).
    inversion Ht; subst. destruct (IHc None _ _ Hc0 Ht0) as (t0' & Hp & Ht0').
    exists (RReg [] [] size t0'). split; [cbn [proj_rty]; rewrite Hp; reflexivity|].
    unfold form_of in *. cbn [form_of_p type_of_form]. rewrite Ht0'. reflexivity.
  - (* Indexed *)
    apply rmap_Ok in H as (c0 & Hc0 & ->). cbn [form_of_p] in Ht.
    destruct (type_of_form ts (form_of_p None None c)) as [t0|] eqn:Ht0; [|cbn [type_of_form] in Ht; rewrite Ht0 in Ht; discriminate Ht].
    rewrite (type_of_form_indexed_proj ts k _ _ _ t0 t Ht0 Ht).
    destruct (IHc None _ _ Hc0 Ht0) as (t0' & Hp & Ht0'). exists t0'. split; [exact Hp|].
    unfold form_of in *. cbn [form_of_p type_of_form]. rewrite Ht0'. cbn [bind meta_of m_params params_of app].
    destruct (rty_params t0'); reflexivity.
  - (* IndexedOption *)
    apply rmap_Ok in H as (c0 & Hc0 & ->). cbn [form_of_p type_of_form] in Ht. apply bind_Ok in Ht as (t0 & Ht0 & Ht).
    inversion Ht; subst. destruct (IHc None _ _ Hc0 Ht0) as (t0' & Hp & Ht0').
    exists (ROpt [] [] t0'). split; [cbn [proj_rty]; rewrite Hp; reflexivity|].
    unfold form_of in *. cbn [form_of_p type_of_form]. rewrite Ht0'. reflexivity.
  - apply rmap_Ok in H as (c0 & Hc0 & ->). cbn [form_of_p type_of_form] in Ht. apply bind_Ok in Ht as (t0 & Ht0 & Ht).
    inversion Ht; subst. destruct (IHc None _ _ Hc0 Ht0) as (t0' & Hp & Ht0').
    exists (ROpt [] [] t0'). split; [cbn [proj_rty]; rewrite Hp; reflexivity|].
    unfold form_of in *. cbn [form_of_p type_of_form]. rewrite Ht0'. reflexivity.
  - apply rmap_Ok in H as (c0 & Hc0 & ->). cbn [form_of_p type_of_form] in Ht. apply bind_Ok in Ht as (t0 & Ht0 & Ht).
    inversion Ht; subst. destruct (IHc None _ _ Hc0 Ht0) as (t0' & Hp & Ht0').
    exists (ROpt [] [] t0'). split; [cbn [proj_rty]; rewrite Hp; reflexivity|].
    unfold form_of in *. cbn [form_of_p type_of_form]. rewrite Ht0'. reflexivity.
  - apply rmap_Ok in H as (c0 & Hc0 & ->). cbn [form_of_p type_of_form] in Ht. apply bind_Ok in Ht as (t0 & Ht0 & Ht).
    inversion Ht; subst. destruct (IHc None _ _ Hc0 Ht0) as (t0' & Hp & Ht0').
    exists (ROpt [] [] t0'). split; [cbn [proj_rty]; rewrite Hp; reflexivity|].
    unfold form_of in *. cbn [form_of_p type_of_form]. rewrite Ht0'. reflexivity.
  - (* Record *)
    apply bind_Ok in H as (i & Hi & H). apply bind_Ok in H as (f & Hf & H).
    cbn [form_of_p type_of_form] in Ht. apply bind_Ok in Ht as (l & Hl & Ht). inversion Ht; subst.
    cbn [proj_rty]. rewrite (mapM_id_zlen _ _ Hl), !zlen_map, Hi. cbn [bind].
    rewrite map_map in Hl. destruct (mapM_id_get' (fun c => type_of_form ts (form_of_p None None c)) cs l i f Hl Hf) as (tf & Htf & Hg).
    exists tf. split; [exact Hg|]. rewrite (crange_preserves_rtype_thm ts f 0 n c' H). exact Htf.
  - (* Par *)
    destruct arr; [discriminate H|]. cbn [form_of_p por] in Ht. exact (IHc _ _ _ H Ht).
Qed.

Theorem getitem_field_rtype_thm ts k c c' t :
  field_content k c = Ok c' -> type_of_form ts (form_of c) = Ok t ->
  exists t', proj_rty k t = Ok t' /\ type_of_form ts (form_of c') = Ok t'.
Proof. apply field_content_rtype_thm. Qed.

(* ---------------------------------------------------------------- examples *)
(* ex_layout = [[{"x": 1, "y": "ab"}, {"x": 2, "y": None}], []] *)
Example ex_field_y :
  exists c', field_content [121] ex_layout = Ok c' /\
    type_of c' = TList None None (TOpt (TList None (Some true) (TNum DUInt8))) /\
    proj_ty [121] (type_of ex_layout) = Ok (type_of c') /\
    to_list c' = Ok [VList [VStr true [97; 98]; VNone]; VList []].
Proof. eexists. split; [vm_compute; reflexivity|]. repeat split. Qed.

Example ex_fields_yx :
  exists c', fields_content [[121]; [120]] ex_layout = Ok c' /\
    projs_ty [[121]; [120]] (type_of ex_layout) = Ok (type_of c') /\
    type_of c' = TList None None (TRec (Some [[121]; [120]]) [TOpt (TList None (Some true) (TNum DUInt8)); TNum DInt64]).
Proof. eexists. split; [vm_compute; reflexivity|]. split; reflexivity. Qed.

(* through IndexedArray, option, regular and a record name; positional fall-back "1" *)
Example ex_field_deep :
  let c := Indexed I64 [1; 0]
             (Regular (ByteMasked [1; 0; 1; 1] true
                         (Par None (Some [80])
                            (Record [Numpy DInt64 [4] [DZ 1; DZ 2; DZ 3; DZ 4];
                                     Numpy DFloat64 [5; 2] [DZ 1; DZ 2; DZ 3; DZ 4; DZ 5; DZ 6; DZ 7; DZ 8; DZ 9; DZ 10]]
                                    (Some [[120]; [121]]) 4))) 2 0) in
  validb None c = true /\
  exists c', field_content [49] c = Ok c' /\
    proj_ty [49] (type_of c) = Ok (type_of c') /\
    type_of c' = TList (Some 2) None (TOpt (TList (Some 2) None (TNum DFloat64))) /\
    to_list c' = Ok [VList [VList [VNum (DZ 5); VNum (DZ 6)]; VList [VNum (DZ 7); VNum (DZ 8)]];
                     VList [VList [VNum (DZ 1); VNum (DZ 2)]; VNone]].
Proof. split; [vm_compute; reflexivity|]. eexists. split; [vm_compute; reflexivity|]. repeat split. Qed.

(* unions are not projected by the model's field_content (it answers Err EValue, and so does proj_ty) *)
Example ex_field_union :
  let c := Union I64 [0] [0] [Record [Numpy DInt64 [1] [DZ 1]] (Some [[120]]) 1] in
  field_content [120] c = Err EValue /\ proj_ty [120] (type_of c) = Err EValue.
Proof. split; reflexivity. Qed.

(* parameters: the record name and the list's own parameters are dropped, the field's string type is kept *)
Example ex_field_rtype :
  (do c' <- field_content [121] ex_param_layout; rmap type_tostring (type_of_form [(s_string, p_string)] (form_of c'))) =
    Ok (bytes_of_string "option[var * string]"%string) /\
  (do t <- type_of_form [(s_string, p_string)] (form_of ex_param_layout); rmap type_tostring (proj_rty [121] t)) =
    Ok (bytes_of_string "option[var * string]"%string).
Proof. split; vm_compute; reflexivity. Qed.
