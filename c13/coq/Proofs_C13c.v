(** Proofs_C13c.v -- memory safety (and some characterisations) of kernels with nested loops *)
From Coq Require Import ZArith List Bool Lia ZifyBool.
From AwkV Require Import Base.
From AwkKernels Require Import Kernels KLemmas Proofs_C13 Proofs_C13b.
Import ListNotations.
Open Scope Z_scope.

(** * loops of indexed writes *)
(** [for j in lo..hi: o[idx j] = val j o] with every index inside the buffer: total, length preserved *)
Lemma kfor_upd_total lo hi (idx : Z -> Z) (val : Z -> list Z -> Z) out :
  (forall j, lo <= j < hi -> 0 <= idx j < zlen out) ->
  exists out', kfor lo hi (fun j o => kupd o (idx j) (val j o)) out = KOk out' /\ zlen out' = zlen out.
Proof.
  intros H. destruct (Z_le_gt_dec lo hi) as [Hle|Hgt].
  - destruct (kfor_inv (fun j o => kupd o (idx j) (val j o)) (fun _ o => zlen o = zlen out) lo hi out)
      as (s' & E & P); auto.
    + intros j s Hj Hs. rewrite kupd_ok by (rewrite Hs; auto). eexists; split; eauto. now rewrite zlen_set_nth.
    + eauto.
  - exists out. rewrite kfor_empty by lia. auto.
Qed.

(** same with a read from a constant buffer first *)
Lemma kfor_get_upd_total lo hi (src : list Z) (ridx idx : Z -> Z) (val : Z -> Z -> Z) out :
  (forall j, lo <= j < hi -> 0 <= ridx j < zlen src) ->
  (forall j, lo <= j < hi -> 0 <= idx j < zlen out) ->
  exists out', kfor lo hi (fun j o => let* x := kget src (ridx j) in kupd o (idx j) (val j x)) out = KOk out'
               /\ zlen out' = zlen out.
Proof.
  intros Hr H. destruct (Z_le_gt_dec lo hi) as [Hle|Hgt].
  - destruct (kfor_inv (fun j o => let* x := kget src (ridx j) in kupd o (idx j) (val j x))
                (fun _ o => zlen o = zlen out) lo hi out) as (s' & E & P); auto.
    + intros j s Hj Hs. rewrite (kget_at src) by auto. cbn [kbind].
      rewrite kupd_ok by (rewrite Hs; auto). eexists; split; eauto. now rewrite zlen_set_nth.
    + eauto.
  - exists out. rewrite kfor_empty by lia. auto.
Qed.

Lemma kupd_len_ok s L i v : zlen s = L -> 0 <= i < L -> exists s', kupd s i v = KOk s' /\ zlen s' = L.
Proof. intros H Hi. rewrite kupd_ok by lia. eexists; split; eauto. now rewrite zlen_set_nth. Qed.

(* ================================================================================================ *)
(** * awkward_RegularArray_localindex:  toindex[i*size + j] = j *)
Theorem RegularArray_localindex_safe toindex size n :
  0 <= size -> 0 <= n -> n * size <= zlen toindex -> RegularArray_localindex toindex size n <> KOob.
Proof.
  intros Hs Hn H. unfold RegularArray_localindex.
  apply (kfor_noob _ (fun _ o => zlen o = zlen toindex) 0 n); auto.
  intros i s Hi Ls.
  destruct (kfor_upd_total 0 size (fun j => i * size + j) (fun j _ => j) s) as (o' & E & L').
  { intros j Hj. rewrite Ls. nia. }
  rewrite E. split; [congruence|]. intros s' Es; inversion Es; subst. lia.
Qed.

(* awkward_RegularArray_getitem_next_range:  tocarry[i*nextsize + j] = i*size + regular_start + j*step *)
Theorem RegularArray_getitem_next_range_safe tocarry rs step n size nextsize :
  0 <= nextsize -> 0 <= n -> n * nextsize <= zlen tocarry ->
  RegularArray_getitem_next_range tocarry rs step n size nextsize <> KOob.
Proof.
  intros Hs Hn H. unfold RegularArray_getitem_next_range.
  apply (kfor_noob _ (fun _ o => zlen o = zlen tocarry) 0 n); auto.
  intros i s Hi Ls.
  destruct (kfor_upd_total 0 nextsize (fun j => i * nextsize + j) (fun j _ => i * size + rs + j * step) s) as (o' & E & L').
  { intros j Hj. rewrite Ls. nia. }
  rewrite E. split; [congruence|]. intros s' Es; inversion Es; subst. lia.
Qed.

(* awkward_RegularArray_getitem_carry:  tocarry[i*size + j] = fromcarry[i]*size + j *)
Theorem RegularArray_getitem_carry_safe tocarry fromcarry n size :
  0 <= size -> 0 <= n -> n <= zlen fromcarry -> n * size <= zlen tocarry ->
  RegularArray_getitem_carry tocarry fromcarry n size <> KOob.
Proof.
  intros Hs Hn Hc H. unfold RegularArray_getitem_carry.
  apply (kfor_noob _ (fun _ o => zlen o = zlen tocarry) 0 n); auto.
  intros i s Hi Ls. rewrite (kget_at fromcarry) by lia. cbn [kbind].
  destruct (kfor_upd_total 0 size (fun j => i * size + j) (fun j _ => at_ fromcarry i * size + j) s) as (o' & E & L').
  { intros j Hj. rewrite Ls. nia. }
  rewrite E. split; [congruence|]. intros s' Es; inversion Es; subst. lia.
Qed.

(* awkward_RegularArray_rpad_and_clip_axis1 *)
Theorem RegularArray_rpad_and_clip_axis1_safe toindex target size n :
  0 <= target -> 0 <= size -> 0 <= n -> n * target <= zlen toindex ->
  RegularArray_rpad_and_clip_axis1 toindex target size n <> KOob.
Proof.
  intros Ht Hs Hn H. unfold RegularArray_rpad_and_clip_axis1.
  set (shorter := if target <? size then target else size).
  assert (Sh : 0 <= shorter <= target) by (unfold shorter; destruct (target <? size) eqn:E; lia).
  apply (kfor_noob _ (fun _ o => zlen o = zlen toindex) 0 n); auto.
  intros i s Hi Ls.
  destruct (kfor_upd_total 0 shorter (fun j => i * target + j) (fun j _ => i * size + j) s) as (o1 & E1 & L1).
  { intros j Hj. rewrite Ls. nia. }
  rewrite E1. cbn [kbind].
  destruct (kfor_upd_total shorter target (fun j => i * target + j) (fun _ _ => -1) o1) as (o2 & E2 & L2).
  { intros j Hj. rewrite L1, Ls. nia. }
  rewrite E2. split; [congruence|]. intros s' Es; inversion Es; subst. lia.
Qed.

(* awkward_index_rpad_and_clip_axis0 *)
Theorem index_rpad_and_clip_axis0_safe toindex target n :
  0 <= n -> target <= zlen toindex -> index_rpad_and_clip_axis0 toindex target n <> KOob.
Proof.
  intros Hn H. unfold index_rpad_and_clip_axis0.
  set (shorter := if target <? n then target else n).
  assert (Sh : shorter <= target /\ (0 <= target -> 0 <= shorter) /\ (target < 0 -> shorter = target)) by (unfold shorter; destruct (target <? n) eqn:E; lia).
  destruct (kfor_upd_total 0 shorter (fun i => i) (fun i _ => i) toindex) as (o1 & E1 & L1).
  { intros j Hj. lia. }
  rewrite E1. cbn [kbind].
  destruct (kfor_upd_total shorter target (fun i => i) (fun _ _ => -1) o1) as (o2 & E2 & L2).
  { intros j Hj. rewrite L1. destruct (Z_lt_ge_dec target 0); lia. }
  rewrite E2. congruence.
Qed.

(** clipped/padded identity index: 0..min(target,n)-1 followed by -1 up to target *)
Theorem index_rpad_and_clip_axis0_spec toindex target n :
  0 <= n -> 0 <= target -> zlen toindex = target ->
  index_rpad_and_clip_axis0 toindex target n
  = KOk (iota (Z.min target n) ++ repeat (-1) (Z.to_nat (target - Z.min target n))).
Proof.
  intros Hn Ht Hl. unfold index_rpad_and_clip_axis0.
  replace (if target <? n then target else n) with (Z.min target n) by (destruct (target <? n) eqn:E; lia).
  set (m := Z.min target n).
  assert (K1 : kfor 0 m (fun i out => kupd out i i) toindex = kfill 0 m (fun i => KOk i) toindex).
  { unfold kfill. apply kfor_ext. intros; reflexivity. }
  rewrite K1. rewrite (kfill_spec 0 m _ (fun i => i)); auto; try lia. cbn [kbind]. rewrite Z.max_r by lia.
  rewrite filled_0_prefix by lia. rewrite map_id.
  set (o1 := iota m ++ skipn (Z.to_nat m) toindex).
  assert (L1 : zlen o1 = target).
  { unfold o1. rewrite zlen_app. unfold zlen in *. rewrite iota_length, skipn_length. lia. }
  assert (K2 : kfor m target (fun i out => kupd out i (-1)) o1
               = KOk (firstn (Z.to_nat m) o1 ++ repeat (-1) (Z.to_nat (target - m)))).
  { destruct (kfor_inv (fun i out => kupd out i (-1))
                (fun j o => o = firstn (Z.to_nat m) o1 ++ repeat (-1) (Z.to_nat (j - m)) ++ skipn (Z.to_nat j) o1)
                m target o1) as (s' & E & P); try lia.
    - rewrite Z.sub_diag. cbn [Z.to_nat repeat app]. now rewrite firstn_skipn.
    - intros j s Hj ->.
      assert (Lf : length (firstn (Z.to_nat m) o1) = Z.to_nat m) by (apply firstn_length_le; unfold zlen in L1; lia).
      rewrite kupd_ok.
      2:{ rewrite !zlen_app. unfold zlen in *. rewrite Lf, repeat_length, skipn_length. lia. }
      eexists; split; eauto.
      rewrite set_nth_app_r by lia. rewrite Lf.
      rewrite set_nth_app_r by (rewrite repeat_length; lia). rewrite repeat_length.
      replace (Z.to_nat j - Z.to_nat m - Z.to_nat (j - m))%nat with O by lia.
      rewrite set_nth_skipn_0 by (unfold zlen in L1; lia).
      replace (Z.to_nat (j + 1 - m)) with (Z.to_nat (j - m) + 1)%nat by lia.
      rewrite repeat_app. cbn [repeat]. rewrite <- !app_assoc. cbn [app].
      replace (Z.to_nat (j + 1)) with (S (Z.to_nat j)) by lia. reflexivity.
    - rewrite E, P. rewrite skipn_all2 by (unfold zlen in L1; lia). now rewrite app_nil_r. }
  rewrite K2. f_equal. f_equal. unfold o1. rewrite firstn_app.
  rewrite iota_length. rewrite Nat.sub_diag. cbn [firstn]. rewrite app_nil_r.
  apply firstn_all2. rewrite iota_length. lia.
Qed.

(* awkward_index_rpad_and_clip_axis1 *)
Theorem index_rpad_and_clip_axis1_safe tostarts tostops target n :
  n <= zlen tostarts -> n <= zlen tostops -> index_rpad_and_clip_axis1 tostarts tostops target n <> KOob.
Proof.
  intros H1 H2. unfold index_rpad_and_clip_axis1.
  pose proof (kfor_noob (fun i (st : list Z * list Z * Z) =>
      let '(ts, tp, offset) := st in
      let* ts' := kupd ts i offset in let* tp' := kupd tp i (offset + target) in KOk (ts', tp', offset + target))
    (fun _ st => zlen (fst (fst st)) = zlen tostarts /\ zlen (snd (fst st)) = zlen tostops) 0 n (tostarts, tostops, 0)) as K.
  destruct K as (N & _); [cbn; auto| |].
  - intros j [[ts tp] off] Hj (L1 & L2). cbn [fst snd] in *.
    rewrite kupd_ok by lia. cbn [kbind]. rewrite kupd_ok by lia. cbn [kbind]. split; [congruence|].
    intros s' E; inversion E; subst. cbn [fst snd]. rewrite !zlen_set_nth. auto.
  - destruct (kfor 0 n _ (tostarts, tostops, 0)); cbn [kbind]; congruence.
Qed.

(* awkward_ListArray_localindex: every list's cells lie inside toindex *)
Theorem ListArray_localindex_safe toindex offsets n :
  n + 1 <= zlen offsets ->
  (forall i, 0 <= i < n -> 0 <= at_ offsets i /\ at_ offsets (i + 1) <= zlen toindex) ->
  ListArray_localindex toindex offsets n <> KOob.
Proof.
  intros H1 Hr. unfold ListArray_localindex.
  apply (kfor_noob _ (fun _ o => zlen o = zlen toindex) 0 n); auto.
  intros i s Hi Ls. rewrite (kget_at offsets i), (kget_at offsets (i + 1)) by lia. cbn [kbind].
  destruct (kfor_upd_total (at_ offsets i) (at_ offsets (i + 1)) (fun j => j) (fun j _ => j - at_ offsets i) s) as (o' & E & L').
  { intros j Hj. rewrite Ls. specialize (Hr i Hi). lia. }
  rewrite E. split; [congruence|]. intros s' Es; inversion Es; subst. lia.
Qed.

(* awkward_ListArray_getitem_carry *)
Theorem ListArray_getitem_carry_safe tC tostarts tostops starts stops carry lenstarts n :
  n <= zlen carry -> n <= zlen tostarts -> n <= zlen tostops ->
  lenstarts <= zlen starts -> lenstarts <= zlen stops ->
  (forall i, 0 <= i < n -> 0 <= at_ carry i) ->
  ListArray_getitem_carry tC tostarts tostops starts stops carry lenstarts n <> KOob.
Proof.
  intros H1 H2 H3 H4 H5 Hc. unfold ListArray_getitem_carry.
  apply (kfor_noob _ (fun _ (st : list Z * list Z) => zlen (fst st) = zlen tostarts /\ zlen (snd st) = zlen tostops) 0 n).
  - cbn; auto.
  - intros j [ts tp] Hj (L1 & L2). cbn [fst snd] in *.
    rewrite (kget_at carry) by lia. cbn [kbind]. unfold kcheck.
    destruct (lenstarts <=? at_ carry j) eqn:E; cbn [kbind]; [split; congruence|].
    specialize (Hc j Hj).
    rewrite (kget_at starts), (kget_at stops) by lia. cbn [kbind].
    rewrite kupd_ok by lia. cbn [kbind]. rewrite kupd_ok by lia. cbn [kbind]. split; [congruence|].
    intros s' Es; inversion Es; subst. cbn [fst snd]. rewrite !zlen_set_nth. auto.
Qed.

(* awkward_IndexedArray_numnull *)
Theorem IndexedArray_numnull_safe numnull index n :
  n <= zlen index -> 1 <= zlen numnull -> IndexedArray_numnull numnull index n <> KOob.
Proof.
  intros H1 H2. unfold IndexedArray_numnull. rewrite kupd_ok by lia. cbn [kbind].
  apply (kfor_noob _ (fun _ o => zlen o = zlen numnull) 0 n).
  - apply zlen_set_nth.
  - intros j s Hj Ls. rewrite (kget_at index) by lia. cbn [kbind].
    destruct (at_ index j <? 0); [|split; [congruence|intros s' E; inversion E; subst; auto]].
    rewrite (kget_at s) by lia. cbn [kbind]. rewrite kupd_ok by lia. split; [congruence|].
    intros s' E; inversion E; subst. now rewrite zlen_set_nth.
Qed.

(** the counter ends at the number of negative entries *)
Theorem IndexedArray_numnull_spec numnull index :
  1 <= zlen numnull ->
  exists out, IndexedArray_numnull numnull index (zlen index) = KOk out /\ zlen out = zlen numnull /\
    at_ out 0 = zlen (filter (fun x => x <? 0) index) /\ forall q, 1 <= q -> at_ out q = at_ numnull q.
Proof.
  intros H2. pose proof (zlen_nonneg index) as Hn. unfold IndexedArray_numnull.
  destruct (kupd numnull 0 0) as [n0| |] eqn:U0.
  2:{ exfalso; eapply kupd_not_err; eauto. } 2:{ apply kupd_oob in U0; lia. }
  cbn [kbind]. destruct (kupd_at _ _ _ _ U0) as (L0 & A0).
  destruct (kfor_inv
    (fun i n => let* x := kget index i in if x <? 0 then let* c := kget n 0 in kupd n 0 (c + 1) else KOk n)
    (fun j o => zlen o = zlen numnull /\ at_ o 0 = zlen (filter (fun x => x <? 0) (firstn (Z.to_nat j) index))
                /\ forall q, 1 <= q -> at_ o q = at_ numnull q) 0 (zlen index) n0) as (s' & E & P); auto.
  - split; [lia|]. split.
    + rewrite A0 by lia. reflexivity.
    + intros q Hq. rewrite A0 by lia. replace (q =? 0) with false by lia. reflexivity.
  - intros j s Hj (L & A & R). rewrite (kget_at index) by lia. cbn [kbind].
    assert (F : firstn (Z.to_nat (j + 1)) index = firstn (Z.to_nat j) index ++ [at_ index j]).
    { replace (Z.to_nat (j + 1)) with (S (Z.to_nat j)) by lia. unfold at_.
      assert (G : forall (l : list Z) k, (k < length l)%nat -> firstn (S k) l = firstn k l ++ [nth k l 0]).
      { induction l; intros [|k] Hk; cbn [length] in *; try lia; auto. cbn [firstn nth app]. f_equal. apply IHl. lia. }
      apply G. unfold zlen in Hj. lia. }
    rewrite F, filter_app, zlen_app. cbn [filter].
    destruct (at_ index j <? 0) eqn:E.
    + rewrite (kget_at s) by lia. cbn [kbind].
      destruct (kupd s 0 (at_ s 0 + 1)) as [s1| |] eqn:U.
      2:{ exfalso; eapply kupd_not_err; eauto. } 2:{ apply kupd_oob in U; lia. }
      exists s1. split; auto. destruct (kupd_at _ _ _ _ U) as (L1 & A1). split; [lia|]. split.
      * rewrite A1 by lia. cbn. rewrite A. unfold zlen. cbn [length]. lia.
      * intros q Hq. rewrite A1 by lia. replace (q =? 0) with false by lia. auto.
    + exists s. split; auto. split; auto. split; auto. rewrite A. unfold zlen. cbn [length]. lia.
  - exists s'. destruct P as (L & A & R). split; auto. split; auto. split; auto.
    rewrite A. unfold zlen at 2. rewrite Nat2Z.id, firstn_all. reflexivity.
Qed.

(* awkward_ListArray_min_range *)
Theorem ListArray_min_range_safe tC tomin starts stops n :
  1 <= zlen starts -> 1 <= zlen stops -> n <= zlen starts -> n <= zlen stops -> 1 <= zlen tomin ->
  ListArray_min_range tC tomin starts stops n <> KOob.
Proof.
  intros H1 H2 H3 H4 H5. unfold ListArray_min_range.
  rewrite (kget_at starts 0), (kget_at stops 0) by lia. cbn [kbind].
  pose proof (kfor_noob (fun i shorter => let* s := kget starts i in let* e := kget stops i in
                 KOk (if shorter <? wrap tC (e - s) then shorter else wrap tC (e - s)))
                (fun _ _ => True) 1 n (wrap tC (at_ stops 0 - at_ starts 0)) I) as K.
  destruct K as (N & _).
  - intros j s Hj _. rewrite (kget_at starts), (kget_at stops) by lia. cbn [kbind]. split; [congruence|auto].
  - destruct (kfor 1 n _ _); cbn [kbind]; try congruence. intros C. apply kupd_oob in C. lia.
Qed.

(* awkward_ListArray_rpad_and_clip_length_axis1 *)
Theorem ListArray_rpad_and_clip_length_axis1_safe tC tomin starts stops target n :
  n <= zlen starts -> n <= zlen stops -> 1 <= zlen tomin ->
  ListArray_rpad_and_clip_length_axis1 tC tomin starts stops target n <> KOob.
Proof.
  intros H3 H4 H5. unfold ListArray_rpad_and_clip_length_axis1.
  pose proof (kfor_noob (fun i length => let* s := kget starts i in let* e := kget stops i in
                 KOk (length + (if wrap tC (e - s) <? target then target else wrap tC (e - s))))
                (fun _ _ => True) 0 n 0 I) as K.
  destruct K as (N & _).
  - intros j s Hj _. rewrite (kget_at starts), (kget_at stops) by lia. cbn [kbind]. split; [congruence|auto].
  - destruct (kfor 0 n _ _); cbn [kbind]; try congruence. intros C. apply kupd_oob in C. lia.
Qed.

(* awkward_sorting_ranges_length *)
Theorem sorting_ranges_length_safe tolength parents n :
  n <= zlen parents -> 1 <= zlen tolength -> sorting_ranges_length tolength parents n <> KOob.
Proof.
  intros H1 H2. unfold sorting_ranges_length.
  pose proof (kfor_noob (fun i length => let* a := kget parents (i - 1) in let* b := kget parents i in
                 KOk (if negb (a =? b) then length + 1 else length)) (fun _ _ => True) 1 n 2 I) as K.
  destruct K as (N & _).
  - intros j s Hj _. rewrite (kget_at parents (j - 1)), (kget_at parents j) by lia. cbn [kbind]. split; [congruence|auto].
  - destruct (kfor 1 n _ _); cbn [kbind]; try congruence. intros C. apply kupd_oob in C. lia.
Qed.

(* awkward_ListOffsetArray_reduce_local_nextparents_64 *)
Theorem reduce_local_nextparents_safe nextparents offsets n :
  1 <= zlen offsets -> n + 1 <= zlen offsets ->
  (forall i, 0 <= i < n -> at_ offsets 0 <= at_ offsets i /\ at_ offsets (i + 1) - at_ offsets 0 <= zlen nextparents) ->
  reduce_local_nextparents nextparents offsets n <> KOob.
Proof.
  intros H0 H1 Hr. unfold reduce_local_nextparents. rewrite (kget_at offsets 0) by lia. cbn [kbind].
  apply (kfor_noob _ (fun _ o => zlen o = zlen nextparents) 0 n); auto.
  intros i s Hi Ls. rewrite (kget_at offsets i), (kget_at offsets (i + 1)) by lia. cbn [kbind].
  destruct (kfor_upd_total (at_ offsets i - at_ offsets 0) (at_ offsets (i + 1) - at_ offsets 0) (fun j => j) (fun _ _ => i) s)
    as (o' & E & L').
  { intros j Hj. rewrite Ls. specialize (Hr i Hi). lia. }
  rewrite E. split; [congruence|]. intros s' Es; inversion Es; subst. lia.
Qed.

(* awkward_NumpyArray_copy and awkward_content_reduce_zeroparents_64 *)
Theorem NumpyArray_copy_safe toptr fromptr n :
  n <= zlen fromptr -> n <= zlen toptr -> NumpyArray_copy toptr fromptr n <> KOob.
Proof.
  intros H1 H2. unfold NumpyArray_copy. apply kfill_safe; try lia.
  intros i Hi. rewrite (kget_at fromptr) by lia. congruence.
Qed.
Theorem NumpyArray_copy_spec toptr fromptr :
  zlen fromptr <= zlen toptr ->
  NumpyArray_copy toptr fromptr (zlen fromptr) = KOk (fromptr ++ skipn (length fromptr) toptr).
Proof.
  intros H. pose proof (zlen_nonneg fromptr). unfold NumpyArray_copy.
  rewrite (kfill_spec 0 (zlen fromptr) _ (at_ fromptr)); try lia.
  - rewrite Z.max_r by lia. rewrite filled_0_prefix by lia. f_equal. f_equal.
    + rewrite (map_iota_list (fun x => x)). apply map_id.
    + f_equal. unfold zlen; lia.
  - intros i Hi. now rewrite (kget_at fromptr) by lia.
Qed.

(* ================================================================================================ *)
(** * awkward_ListArray_combinations_length: offsets are the running sums of C(len_i (+ n - 1), n) *)

Definition comb_of (n : Z) (replacement : bool) (s e : Z) : Z :=
  combinations_count n (if replacement then (e - s) + (n - 1) else e - s).

Definition comb_sum (n : Z) (replacement : bool) (starts stops : list Z) (k : nat) : Z :=
  sumZ (map (fun p => comb_of n replacement (fst p) (snd p)) (zip (firstn k starts) (firstn k stops))).

Lemma comb_sum_S n r starts stops k :
  (k < length starts)%nat -> (k < length stops)%nat ->
  comb_sum n r starts stops (S k)
  = comb_sum n r starts stops k + comb_of n r (at_ starts (Z.of_nat k)) (at_ stops (Z.of_nat k)).
Proof.
  intros H1 H2. unfold comb_sum. rewrite zip_firstn_snoc by lia. rewrite map_app, sumZ_app.
  unfold at_. rewrite Nat2Z.id. unfold sumZ. cbn [map fst snd fold_right]. lia.
Qed.

Theorem ListArray_combinations_length_spec totallen tooffsets n replacement starts stops :
  zlen stops = zlen starts -> 1 <= zlen totallen -> zlen starts + 1 <= zlen tooffsets ->
  exists tl to, ListArray_combinations_length TIdeal totallen tooffsets n replacement starts stops (zlen starts) = KOk (tl, to) /\
    at_ tl 0 = comb_sum n replacement starts stops (length starts) /\
    zlen to = zlen tooffsets /\
    forall q, 0 <= q -> at_ to q = if q <=? zlen starts then comb_sum n replacement starts stops (Z.to_nat q)
                                   else at_ tooffsets q.
Proof.
  intros Hl H1 Ht. pose proof (zlen_nonneg starts) as Hn. unfold ListArray_combinations_length.
  destruct (kupd totallen 0 0) as [tl0| |] eqn:U0.
  2:{ exfalso; eapply kupd_not_err; eauto. } 2:{ apply kupd_oob in U0; lia. }
  cbn [kbind]. destruct (kupd_at _ _ _ _ U0) as (Lt0 & At0).
  destruct (kupd tooffsets 0 0) as [to0| |] eqn:U1.
  2:{ exfalso; eapply kupd_not_err; eauto. } 2:{ apply kupd_oob in U1; lia. }
  cbn [kbind]. destruct (kupd_at _ _ _ _ U1) as (Lo0 & Ao0).
  destruct (kfor_inv
    (fun i (st : list Z * list Z) =>
       let '(tl, to) := st in
       let* s := kget starts i in let* e := kget stops i in
       let size := wrap TIdeal (e - s) in
       let size := if replacement then size + (n - 1) else size in
       let c := combinations_count n size in
       let* t := kget tl 0 in let* tl' := kupd tl 0 (t + c) in
       let* prev := kget to i in let* to' := kupd to (i + 1) (prev + c) in KOk (tl', to'))
    (fun j st => zlen (fst st) = zlen totallen /\ zlen (snd st) = zlen tooffsets /\
       at_ (fst st) 0 = comb_sum n replacement starts stops (Z.to_nat j) /\
       forall q, 0 <= q -> at_ (snd st) q = if q <=? j then comb_sum n replacement starts stops (Z.to_nat q)
                                            else at_ tooffsets q)
    0 (zlen starts) (tl0, to0)) as ([tl to] & E & P); auto.
  - cbn [fst snd]. split; [lia|]. split; [lia|]. split.
    + rewrite At0 by lia. reflexivity.
    + intros q Hq. rewrite Ao0 by lia. destruct (q =? 0) eqn:E.
      * replace (q <=? 0) with true by lia. replace q with 0 by lia. reflexivity.
      * replace (q <=? 0) with false by lia. reflexivity.
  - intros j [tl to] Hj (L1 & L2 & A1 & A2). cbn [fst snd] in *.
    rewrite (kget_at starts), (kget_at stops) by lia. cbn [kbind wrap].
    rewrite (kget_at tl) by lia. cbn [kbind].
    destruct (kupd tl 0 _) as [tl'| |] eqn:Ua.
    2:{ exfalso; eapply kupd_not_err; eauto. } 2:{ apply kupd_oob in Ua; lia. }
    cbn [kbind]. rewrite (kget_at to) by lia. cbn [kbind].
    destruct (kupd to (j + 1) _) as [to'| |] eqn:Ub.
    2:{ exfalso; eapply kupd_not_err; eauto. } 2:{ apply kupd_oob in Ub; lia. }
    exists (tl', to'). split; auto. cbn [fst snd].
    destruct (kupd_at _ _ _ _ Ua) as (La & Aa). destruct (kupd_at _ _ _ _ Ub) as (Lb & Ab).
    assert (CS : comb_sum n replacement starts stops (Z.to_nat (j + 1))
                 = comb_sum n replacement starts stops (Z.to_nat j)
                   + combinations_count n (if replacement then at_ stops j - at_ starts j + (n - 1) else at_ stops j - at_ starts j)).
    { replace (Z.to_nat (j + 1)) with (S (Z.to_nat j)) by lia.
      rewrite comb_sum_S by (unfold zlen in *; lia). replace (Z.of_nat (Z.to_nat j)) with j by lia. reflexivity. }
    split; [lia|]. split; [lia|]. split.
    + rewrite Aa by lia. cbn. rewrite A1. rewrite CS. reflexivity.
    + intros q Hq. rewrite Ab by lia. destruct (q =? j + 1) eqn:E.
      * replace (q <=? j + 1) with true by lia. rewrite A2 by lia. replace (j <=? j) with true by lia.
        replace q with (j + 1) by lia. rewrite CS. reflexivity.
      * rewrite A2 by lia. destruct (q <=? j) eqn:E2.
        -- replace (q <=? j + 1) with true by lia. reflexivity.
        -- replace (q <=? j + 1) with false by lia. reflexivity.
  - exists tl, to. cbn [fst snd] in P. destruct P as (L1 & L2 & A1 & A2). split; auto. split.
    + rewrite A1. unfold zlen. now rewrite Nat2Z.id.
    + split; auto.
Qed.

(** a test (not a theorem): the enumeration kernel on [[0,1,2,3]] with n = 2 gives itertools.combinations order *)
Example ListArray_combinations_example :
  ListArray_combinations [[9;9;9;9;9;9]; [9;9;9;9;9;9]] [9; 9] [9; 9] 2 false [0] [4] 1
  = KOk ([[0;0;0;1;1;2]; [1;2;3;2;3;3]], [6; 6], [4; 4]).
Proof. vm_compute. reflexivity. Qed.
