(* S-expression reader shared with the C++ driver's syntax *)
type t = A of string | L of t list

exception Parse of string

let parse (s : string) : t =
  let n = String.length s in
  let p = ref 0 in
  let is_space c = c = ' ' || c = '\t' || c = '\n' || c = '\r' in
  let rec skip () = if !p < n && is_space s.[!p] then (incr p; skip ()) in
  let rec go () : t =
    skip ();
    if !p >= n then raise (Parse "unexpected end");
    if s.[!p] = '(' then begin
      incr p;
      let items = ref [] in
      let fin = ref false in
      while not !fin do
        skip ();
        if !p >= n then raise (Parse "missing )");
        if s.[!p] = ')' then (incr p; fin := true)
        else items := go () :: !items
      done;
      L (List.rev !items)
    end else if s.[!p] = ')' then raise (Parse "unexpected )")
    else begin
      let q = ref !p in
      while !q < n && not (is_space s.[!q]) && s.[!q] <> '(' && s.[!q] <> ')' do incr q done;
      let a = String.sub s !p (!q - !p) in
      p := !q; A a
    end
  in
  go ()

let rec to_string = function
  | A a -> a
  | L l -> "(" ^ String.concat " " (List.map to_string l) ^ ")"

let head = function L (A h :: _) -> h | _ -> ""
