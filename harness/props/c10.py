"""C10: record fields — projection commutes with positional slicing; setitem_field (C++ half of with_field)."""
import common as C
import gen as G

THEOREMS = ['field_commutes_with_integer', 'field_commutes_with_positional', 'projection_keeps_list_structure',
            'projection_keeps_none', 'record_to_value_order', 'unnamed_fields_give_tuples', 'field_refines_spec',
            'field_fails_only_for_missing_field', 'field_succeeds_when_typed']
PY_HALF = True     # harness/pyhalves.py: the Python-layer functions of this property under pyshim
RULE = ('record-bearing random layouts (records under lists, options, indexed nodes; tuples; zero fields; contents longer than '
        'the record length) x {field, fields} placed before / between / after positional items; every positional+field slice is '
        'also run with the field moved to the front and to the end and the three implementation results must agree '
        '(commutation on the implementation itself); setitem_field on top-level RecordArrays. non-trivial = >= 1 record and '
        '>= 1 positional item; distinct by case text')
ASSUMPTIONS = ['ak.zip / unzip / with_field (broadcasting into nested records) are Python-layer and not executable here; '
               'only RecordArray::setitem_field is tied', 'types containing unions are skipped']


def rec_type(rng, depth):
    t = G.gen_type(rng, depth, allow_union=False)
    tries = 0
    while not G.has_kind(t, 'rec') and tries < 20:
        t = G.gen_type(rng, depth, allow_union=False)
        tries += 1
    return t


def optionalise_fields(rng, t, p=0.5):
    """some record fields become option-type (option-encoded field contents below an indexed record node are where
    simplify_optiontype's index-width cases are reached by a projection)"""
    k = t[0]
    if k in ('list', 'opt'):
        return (k, optionalise_fields(rng, t[1], p))
    if k == 'rec':
        fs = []
        for name, ft in t[1]:
            ft = optionalise_fields(rng, ft, p)
            if ft[0] != 'opt' and rng.random() < p:
                ft = ('opt', ft)
            fs.append((name, ft))
        return ('rec', fs, t[2])
    return t


def fields_of(t):
    """names reachable by projecting through lists/options from the top"""
    k = t[0]
    if k == 'rec':
        return [n for n, _ in t[1]] if not t[2] else [str(i) for i in range(len(t[1]))]
    if k in ('list', 'opt'):
        return fields_of(t[1])
    return []


def cases(rng, tier):
    n = 12000 if tier == 'quick' else 200000
    out = []
    for i in range(n):
        t = rec_type(rng, rng.choice([1, 2, 3]))
        if rng.random() < 0.3:
            t = optionalise_fields(rng, t)
        vals = G.rectangularise(rng, t, [G.gen_value(rng, t, 4) for _ in range(rng.choice([0, 1, 2, 3, 4]))], p=0.3)
        enc = G.Enc(rng)
        lay = G.encode_plain(enc, t, vals, False) if t[0] == 'rec' else G.encode(enc, t, vals)
        names = fields_of(t)
        r = rng.random()
        if r < 0.2 and t[0] == 'rec':
            # setitem_field on a top-level RecordArray
            w = G.gen_array(rng, depth=rng.choice([1, 2]), toplen=len(vals) if rng.random() < 0.9 else len(vals) + 1,
                            canonical_too=False, type_kw=dict(allow_union=False))
            if rng.random() < 0.4:
                # the position variant setitem_field(where:int, what): before the first, between, at and beyond the last field
                where = rng.choice([0, 0, 1, 1, 2, 3, 5, -1])
                out.append(C.Case('c%d' % i, 'setfieldat', [str(where)], [G.sx(lay), G.sx(w['layout'])],
                                  dict(nontrivial=len(vals) > 0, tags=dict(op='setfieldat', where=where))))
                continue
            out.append(C.Case('c%d' % i, 'setfield', ['z'], [G.sx(lay), G.sx(w['layout'])],
                              dict(nontrivial=len(vals) > 0, tags=dict(op='setfield'))))
            continue
        key = rng.choice(names) if names and rng.random() < 0.9 else rng.choice(['a', 'q', '7'])
        fitem = '(fld %s)' % key
        if names and rng.random() < 0.25:
            ks = rng.sample(names, rng.choice([1, min(2, len(names))]))
            fitem = '(flds %s)' % ' '.join(ks)
        # positional items that stay above the record (so that the field can move freely)
        depth_to_rec = 0
        tt = t
        while tt[0] in ('list', 'opt'):
            if tt[0] == 'list':
                depth_to_rec += 1
            tt = tt[1]
        npos = rng.randint(0, min(depth_to_rec + 1, 3))
        pos = []
        L = len(vals)
        for _ in range(npos):
            if rng.random() < 0.45:
                pos.append('(at %d)' % rng.randint(-L - 1, L))
            else:
                def b():
                    return 'none' if rng.random() < 0.3 else str(rng.randint(-L - 2, L + 2))
                pos.append('(rng %s %s %s)' % (b(), b(), rng.choice(['none', '1', '2', '-1', '-2'])))
            L = rng.choice([0, 1, 2, 3, 4])
        where = rng.randint(0, len(pos))
        items = pos[:where] + [fitem] + pos[where:]
        variants = {'m': items, 'f': [fitem] + pos, 'e': pos + [fitem]}
        for tag, its in variants.items():
            out.append(C.Case('c%d%s' % (i, tag), 'getitem', ['(' + ' '.join(its) + ')'], [G.sx(lay)],
                              dict(nontrivial=bool(pos) and len(vals) > 0, tags=dict(op='field', variant=tag), group='c%d' % i)))
        if not pos:
            # the projection alone: array["x"] / array[["x", "y"]] reach Content::getitem_field(key) / getitem_fields(keys)
            # directly (not the only_fields overloads used inside a slice tuple); same group: same value demanded
            if fitem.startswith('(fld '):
                out.append(C.Case('c%dd' % i, 'field', [fitem[5:-1]], [G.sx(lay)],
                                  dict(nontrivial=len(vals) > 0, tags=dict(op='field', variant='direct'), group='c%d' % i)))
            else:
                out.append(C.Case('c%dd' % i, 'fields', ['(' + fitem[6:-1] + ')'], [G.sx(lay)],
                                  dict(nontrivial=len(vals) > 0, tags=dict(op='field', variant='direct'), group='c%d' % i)))
    return out


def signature(c, impl, v):
    return None


def run(cases, tier, rng):
    import check
    import sys
    mod = sys.modules[__name__]
    s = check.default_run(mod, cases, tier)
    # commutation on the implementation itself: the three placements of the field give the same value
    groups = {}
    dumps = {}
    for c, impl in C.last_impl_results:
        g = c.meta.get('group')
        if g:
            groups.setdefault(g, []).append((c, impl))
            dumps[c.id] = impl
    vals = C.values_of(dumps)
    ok = True
    ncomp = 0
    for g, lst in groups.items():
        vs = set(vals.get(c.id) for c, _ in lst)
        ncomp += 1
        if len(vs) > 1 and None not in vs:
            ok = False
            s['findings'].insert(0, dict(kind='viol', what='field projection does not commute with positional slicing on the implementation',
                                         case_lines=[c.line() for c, _ in lst] + ['# impl: %s' % i[:300] for _, i in lst],
                                         signature=None, size=sum(len(c.line()) for c, _ in lst)))
    s['corr_obligations']['impl:field-commutes'] = ok
    s.setdefault('extra', {})['commutation_groups_compared'] = ncomp
    return s
