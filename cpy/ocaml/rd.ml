(* readers (text -> extracted Coq types) and printers *)
open Pymodel
open Sx

exception Bad of string
let bad s = raise (Bad s)

(* ---- Z <-> decimal strings, using the extracted arithmetic only ---- *)
let rec pos_of_int (n : int) : positive =
  if n = 1 then XH else if n land 1 = 0 then XO (pos_of_int (n lsr 1)) else XI (pos_of_int (n lsr 1))
let z_of_int (n : int) : z = if n = 0 then Z0 else if n > 0 then Zpos (pos_of_int n) else Zneg (pos_of_int (-n))
let ten = z_of_int 10
let z_of_string (s : string) : z =
  let n = String.length s in
  if n = 0 then bad "empty integer";
  let neg = s.[0] = '-' in
  let start = if neg || s.[0] = '+' then 1 else 0 in
  if start >= n then bad ("bad integer " ^ s);
  let acc = ref Z0 in
  for i = start to n - 1 do
    let c = s.[i] in
    if c < '0' || c > '9' then bad ("bad integer " ^ s);
    acc := Z.add (Z.mul !acc ten) (z_of_int (Char.code c - 48))
  done;
  if neg then Z.opp !acc else !acc
let rec int_of_pos = function XH -> 1 | XO p -> 2 * int_of_pos p | XI p -> 2 * int_of_pos p + 1
let small_int_of_z = function Z0 -> 0 | Zpos p -> int_of_pos p | Zneg p -> - (int_of_pos p)
let rec string_of_z (x : z) : string =
  match x with
  | Z0 -> "0"
  | Zneg p -> "-" ^ string_of_z (Zpos p)
  | Zpos _ ->
    let buf = Buffer.create 20 in
    let rec go x acc =
      if x = Z0 then acc
      else go (Z.div x ten) (string_of_int (small_int_of_z (Z.modulo x ten)) :: acc) in
    List.iter (Buffer.add_string buf) (go x []); Buffer.contents buf

let z_of_sx = function
  | A "true" -> z_of_int 1 | A "false" -> z_of_int 0
  | A a -> z_of_string a
  | x -> bad ("integer expected: " ^ Sx.to_string x)
let zs_of_sx = function L l -> List.map z_of_sx l | x -> bad ("list expected: " ^ Sx.to_string x)
let bool_of_sx x = z_of_sx x <> Z0
let name_of_string (s : string) : z list = List.init (String.length s) (fun i -> z_of_int (Char.code s.[i]))
let string_of_name (n : z list) : string =
  String.concat "" (List.map (fun c -> String.make 1 (Char.chr (small_int_of_z c land 255))) n)

let datum_of_sx = function
  | A "nan" -> DNaN | A "inf" -> DInf false | A "-inf" -> DInf true
  | A a when String.length a > 2 && a.[0] = 'f' && a.[1] = ':' -> bad "non-integral float"
  | x -> DZ (z_of_sx x)

let width_of = function "i32" -> I32 | "u32" -> U32 | "i64" -> I64 | w -> bad ("width " ^ w)
let dtype_of = function
  | "bool" -> DBool | "int8" -> DInt8 | "int16" -> DInt16 | "int32" -> DInt32 | "int64" -> DInt64
  | "uint8" -> DUInt8 | "uint16" -> DUInt16 | "uint32" -> DUInt32 | "uint64" -> DUInt64
  | "float32" -> DFloat32 | "float64" -> DFloat64 | d -> bad ("dtype " ^ d)
let akind_of = function
  | "none" -> None | "string" -> Some AString | "bytestring" -> Some ABytestring | "char" -> Some AChar
  | "byte" -> Some AByte | "categorical" -> Some ACategorical | k -> bad ("akind " ^ k)

let rec content_of_sx (x : Sx.t) : content =
  match x with
  | L [A "np"; A dt; sh; L data] -> Numpy (dtype_of dt, zs_of_sx sh, List.map datum_of_sx data)
  | L [A "empty"] -> Empty
  | L [A "lo"; A w; o; c] -> ListOffset (width_of w, zs_of_sx o, content_of_sx c)
  | L [A "la"; A w; s; e; c] -> ListA (width_of w, zs_of_sx s, zs_of_sx e, content_of_sx c)
  | L [A "reg"; size; zl; c] -> Regular (content_of_sx c, z_of_sx size, z_of_sx zl)
  | L [A "ix"; A w; ix; c] -> Indexed (width_of w, zs_of_sx ix, content_of_sx c)
  | L [A "ixo"; A w; ix; c] -> IndexedOption (width_of w, zs_of_sx ix, content_of_sx c)
  | L [A "bym"; m; vw; c] -> ByteMasked (zs_of_sx m, bool_of_sx vw, content_of_sx c)
  | L [A "bim"; m; vw; lsb; n; c] -> BitMasked (zs_of_sx m, bool_of_sx vw, bool_of_sx lsb, z_of_sx n, content_of_sx c)
  | L [A "unm"; c] -> Unmasked (content_of_sx c)
  | L (A "un" :: A w :: t :: ix :: cs) -> Union (width_of w, zs_of_sx t, zs_of_sx ix, List.map content_of_sx cs)
  | L (A "rec" :: n :: ks :: cs) ->
    let keys = match ks with
      | A "tuple" -> None
      | L l -> Some (List.map (function A k -> name_of_string k | _ -> bad "key") l)
      | _ -> bad "keys" in
    Record (List.map content_of_sx cs, keys, z_of_sx n)
  | L [A "par"; A arr; A rn; c] ->
    Par (akind_of arr, (if rn = "none" then None else Some (name_of_string (if rn = "%empty" then "" else rn))), content_of_sx c)
  | _ -> bad ("layout: " ^ Sx.to_string x)

(* ---- values ---- *)
let string_of_datum = function
  | DZ z -> string_of_z z | DNaN -> "nan" | DInf false -> "inf" | DInf true -> "-inf"
let rec string_of_value (v : value) : string =
  match v with
  | VNum d -> string_of_datum d
  | VBool b -> if b then "true" else "false"
  | VStr (isstr, s) -> "(" ^ (if isstr then "s" else "b") ^ String.concat "" (List.map (fun c -> " " ^ string_of_z c) s) ^ ")"
  | VNone -> "none"
  | VList l -> "(l" ^ String.concat "" (List.map (fun x -> " " ^ string_of_value x) l) ^ ")"
  | VRec fs -> "(r" ^ String.concat "" (List.map (fun (k, x) -> " (" ^ string_of_name k ^ " " ^ string_of_value x ^ ")") fs) ^ ")"
  | VTup l -> "(t" ^ String.concat "" (List.map (fun x -> " " ^ string_of_value x) l) ^ ")"

(* observation of a result *)
type obs = OVal of value | OErr | OBad of string
let string_of_obs = function
  | OVal v -> string_of_value v | OErr -> "err" | OBad s -> "(bad " ^ s ^ ")"
let obs_eq a b = match a, b with
  | OVal x, OVal y -> value_eqb x y
  | OErr, OErr -> true
  | _ -> false
let obs_of_res (r : value res) : obs =
  match r with Ok v -> OVal v | Err EValue -> OErr | Err EOob -> OBad "oob" | Err EFuel -> OBad "fuel"
let obs_of_list (r : value list res) : obs =
  match r with Ok v -> OVal (VList v) | Err EValue -> OErr | Err EOob -> OBad "oob" | Err EFuel -> OBad "fuel"
let obs_of_content (r : content res) : obs =
  match r with Ok c -> obs_of_list (to_list c) | Err EValue -> OErr | Err EOob -> OBad "oob" | Err EFuel -> OBad "fuel"

(* implementation result: a dumped layout, scalar, record, none, or a raw atom/list *)
type impl = IOk of Sx.t | IErr of string | ICrash of string
let impl_of_sx = function
  | L [A "impl"; A "ok"; r] -> IOk r
  | L [A "impl"; A "err"; A c] -> IErr c
  | L (A "impl" :: A "crash" :: _) -> ICrash "crash"
  | L (A "impl" :: A "timeout" :: _) -> ICrash "timeout"
  | x -> bad ("impl: " ^ Sx.to_string x)
let leafv dt d = match dt with DBool -> (match d with DZ z -> VBool (z <> Z0) | _ -> VBool true) | _ -> VNum d
let obs_of_dump (r : Sx.t) : obs =
  match r with
  | L [A "scalar"; A dt; v] -> (try OVal (leafv (dtype_of dt) (datum_of_sx v)) with Bad s -> OBad s)
  | L [A "none"] -> OVal VNone
  | L [A "par"; A (("char" | "byte") as k); _; L [A "np"; A "uint8"; L [_]; L data]] ->
    (* a bare char/byte array is how the C++ layer hands out one string *)
    (try OVal (VStr (k = "char", List.map z_of_sx data)) with Bad s -> OBad s)
  | L [A "record"; at; arr] ->
    (try
       match to_list (content_of_sx arr) with
       | Ok vs -> (match List.nth_opt vs (small_int_of_z (z_of_sx at)) with Some v -> OVal v | None -> OBad "record at")
       | Err _ -> OBad "record array invalid"
     with Bad s -> OBad s)
  | _ -> (try obs_of_list (to_list (content_of_sx r)) with Bad s -> OBad s)
let is_layout_dump (r : Sx.t) = match Sx.head r with
  | "scalar" | "none" | "record" -> false | "" -> false | _ -> true

(* ---- VALUE syntax (what py_halves prints for ak.to_list) -> value ---- *)
let rec value_of_sx (x : Sx.t) : value =
  match x with
  | A "none" -> VNone
  | A "true" -> VBool true
  | A "false" -> VBool false
  | A _ -> VNum (datum_of_sx x)
  | L (A "l" :: r) -> VList (List.map value_of_sx r)
  | L (A "t" :: r) -> VTup (List.map value_of_sx r)
  | L (A "s" :: r) -> VStr (true, List.map z_of_sx r)
  | L (A "b" :: r) -> VStr (false, List.map z_of_sx r)
  | L (A "r" :: r) ->
    VRec (List.map (function L [A k; v] -> (name_of_string k, value_of_sx v) | _ -> bad "record field") r)
  | _ -> bad ("value: " ^ Sx.to_string x)
