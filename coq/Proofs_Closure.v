(** C11 (closure): the layout produced by a structure operation from a valid layout is valid.
    Part 1: the generic "apply at an axis" descent [model_ax] preserves [Valid] whenever the action [g] on the
    list nodes at the axis does; instances num / local_index / pad_none (rpad, rpad_and_clip) / combinations.
    Unions and n-d NumpyArray leaves are inside the fragment. *)
From Coq Require Import ZArith List Bool Lia ZifyBool.
From AwkV Require Import Base Layout LayoutInd Valid Types AtAxis Ops_Struct Typing Proofs_Typing Proofs_C11
                         Proofs_Lists Proofs_ToList Proofs_Carry Proofs_AtAxis Proofs_AtAxisOps.
Import ListNotations.
Open Scope Z_scope.

(* ---------------------------------------------------------------- small list facts *)
Lemma mapM_Forall2_P {A B} (f : A -> res B) (R : A -> B -> Prop) l ys :
  mapM f l = Ok ys -> (forall x y, In x l -> f x = Ok y -> R x y) -> Forall2 R l ys.
Proof.
  revert ys. induction l as [|x l IH]; intros ys H HR; cbn [mapM] in H.
  - inversion H. constructor.
  - apply bind_Ok in H as (y & Hy & H). apply bind_Ok in H as (ys' & Hys & H). inversion H; subst.
    constructor; [apply HR; [left; reflexivity|exact Hy]|]. apply IH; [exact Hys|]. intros x0 y0 Hin. apply HR. right. exact Hin.
Qed.
Lemma Forall2_get {A B} (R : A -> B -> Prop) l l' : Forall2 R l l' -> forall i x,
  get l i = Ok x -> exists y, get l' i = Ok y /\ R x y.
Proof.
  induction 1 as [|a b l l' Hab HF IH]; intros i x Hg; [rewrite get_nil in Hg; discriminate|].
  pose proof (get_range _ _ _ Hg) as Hr. destruct (Z.eq_dec i 0) as [->|Hn].
  - rewrite get_cons_0 in Hg. inversion Hg; subst. exists b. rewrite get_cons_0. auto.
  - rewrite get_cons_pos in Hg by lia. destruct (IH _ _ Hg) as (y & Hy & HR). exists y. rewrite get_cons_pos by lia. auto.
Qed.
Lemma Forall2_Forall_r {A B} (R : A -> B -> Prop) (P : B -> Prop) l l' :
  Forall2 R l l' -> (forall x y, In x l -> R x y -> P y) -> Forall P l'.
Proof.
  induction 1 as [|a b l l' Hab HF IH]; intros HP; constructor.
  - eapply HP; [left; reflexivity|exact Hab].
  - apply IH. intros x y Hx. apply HP. right. exact Hx.
Qed.
Lemma Forall2_length {A B} (R : A -> B -> Prop) l l' : Forall2 R l l' -> length l' = length l.
Proof. induction 1; cbn [length]; congruence. Qed.

(* ---------------------------------------------------------------- [expand] preserves validity (unions included) *)
Lemma expand_valid_p c : forall p, Valid p c -> Valid p (expand c).
Proof.
  induction c as [dt shape data| |w o c IHc|w s e c IHc|c size zl IHc|w ix c IHc|w ix c IHc|m vw c IHc
                 |m vw lsb n c IHc|c IHc|w t ix cs IHcs|cs ks n IHcs|arr rn c IHc] using content_ind';
    intros p HV; inversion HV; subst;
    try (match goal with Hp : ParamOk p _ |- _ => pose proof (ParamOk_expand _ _ Hp) as Hpe end); cbn [expand].
  - match goal with Hp : ParamOk p _ |- _ => pose proof (ParamOk_nonlist _ _ Hp eq_refl); subst p end.
    destruct shape as [|n dims]; [congruence|].
    match goal with H : Forall _ (n :: dims) |- _ => rename H into Hs end. inversion Hs as [|? ? Hn Hds]; subst.
    apply np_valid; [assumption..|]. rewrite zlen_take; [apply prodZ_cons|]. split; [apply prodZ_nonneg, Hs|assumption].
  - assumption.
  - constructor; [exact Hpe|assumption|rewrite clen_expand; assumption|auto].
  - constructor; [exact Hpe|assumption|rewrite clen_expand; assumption|auto].
  - constructor; [exact Hpe|assumption|assumption|auto].
  - destruct (strip_expand_class c) as [Ho _].
    constructor; [exact Hpe|rewrite clen_expand; assumption|rewrite Ho; assumption|auto].
  - destruct (strip_expand_class c) as [Ho _].
    constructor; [exact Hpe|rewrite clen_expand; assumption|rewrite Ho; assumption|auto].
  - destruct (strip_expand_class c) as [Ho _].
    constructor; [exact Hpe|rewrite clen_expand; assumption|rewrite Ho; assumption|auto].
  - destruct (strip_expand_class c) as [Ho _].
    constructor; [exact Hpe|assumption|assumption|rewrite clen_expand; assumption|rewrite Ho; assumption|auto].
  - destruct (strip_expand_class c) as [Ho _]. constructor; [exact Hpe|rewrite Ho; assumption|auto].
  - (* Union *)
    match goal with H : Forall (Valid None) cs |- _ => rename H into HVs end.
    constructor; [exact Hpe| |assumption| |].
    + apply Forall_map. match goal with H : Forall (fun x => unionlike x = false) cs |- _ => eapply Forall_impl; [|exact H] end.
      cbv beta. intros x Hx. destruct (strip_expand_class x) as [_ Hu]. rewrite Hu. exact Hx.
    + rewrite map_map. rewrite (map_ext (fun x => clen (expand x)) clen) by apply clen_expand. assumption.
    + apply Forall_map. rewrite Forall_forall in IHcs, HVs |- *. intros x Hx. apply IHcs; auto.
  - (* Record *)
    match goal with H : Forall (Valid None) cs |- _ => rename H into HVs end.
    constructor; [exact Hpe|assumption| | |].
    + apply Forall_map. match goal with H : Forall (fun x => n <= clen x) cs |- _ => eapply Forall_impl; [|exact H] end.
      cbv beta. intros x Hx. rewrite clen_expand. exact Hx.
    + intros k Hk. rewrite map_length. auto.
    + apply Forall_map. rewrite Forall_forall in IHcs, HVs |- *. intros x Hx. apply IHcs; auto.
  - constructor; [apply expand_not_par; assumption|auto].
Qed.

(* ---------------------------------------------------------------- the list nodes an axis points at *)
(* [ax_all Q u p c d axis]: every list node reached by the at-axis descent satisfies [Q] (true where the descent
   fails).  This is the form in which per-operation fragments are stated: a boolean predicate of layout and axis. *)
Fixpoint ax_all (Q : bool -> option akind -> content -> bool) (u : bool) (p : option akind) (c : content) (d axis : Z)
                {struct c} : bool :=
  match resolve_axis (type_of_p p c) d axis with
  | Err _ => true
  | Ok ax =>
      match c with
      | Numpy _ _ _ | Empty => true
      | ListOffset _ _ c' | ListA _ _ _ c' | Regular c' _ _ =>
          if ax =? d + 1 then Q u p c else ax_all Q false None c' (d + 1) ax
      | Indexed _ _ c' | IndexedOption _ _ c' | ByteMasked _ _ c' | BitMasked _ _ _ _ c' | Unmasked c' =>
          ax_all Q true None c' d ax
      | Union _ _ _ cs | Record cs _ _ =>
          (fix all (l : list content) : bool :=
             match l with [] => true | x :: xs => ax_all Q false None x d ax && all xs end) cs
      | Par a _ c' => ax_all Q u a c' d ax
      end
  end.
Definition ax_frag (Q : bool -> option akind -> content -> bool) (c : content) (axis : Z) : bool :=
  ax_all Q false None (expand c) 0 axis.

Definition ax_body (Q : bool -> option akind -> content -> bool) (u : bool) (p : option akind) (c : content) (d ax : Z) : bool :=
  match c with
  | Numpy _ _ _ | Empty => true
  | ListOffset _ _ c' | ListA _ _ _ c' | Regular c' _ _ =>
      if ax =? d + 1 then Q u p c else ax_all Q false None c' (d + 1) ax
  | Indexed _ _ c' | IndexedOption _ _ c' | ByteMasked _ _ c' | BitMasked _ _ _ _ c' | Unmasked c' =>
      ax_all Q true None c' d ax
  | Union _ _ _ cs | Record cs _ _ => forallb (fun x => ax_all Q false None x d ax) cs
  | Par a _ c' => ax_all Q u a c' d ax
  end.
Lemma ax_all_eq Q u p c d axis :
  ax_all Q u p c d axis = match resolve_axis (type_of_p p c) d axis with Err _ => true | Ok ax => ax_body Q u p c d ax end.
Proof.
  destruct c; try reflexivity; cbn [ax_all ax_body]; destruct (resolve_axis _ d axis) as [ax|]; try reflexivity;
    induction cs as [|x xs IH]; try reflexivity; cbn [forallb]; rewrite <- IH; reflexivity.
Qed.

(* the characters of a string are leaves: the descent cannot go below them *)
Lemma model_axp_chars g unk str_ok k rn dt sh data d axis c' :
  model_axp g unk str_ok None (Par (Some k) rn (Numpy dt sh data)) d axis = Ok c' -> False.
Proof.
  rewrite model_axp_eq. intros H. apply bind_Ok in H as (ax & _ & H). cbn [model_body] in H.
  rewrite model_axp_eq in H. apply bind_Ok in H as (ax' & _ & H). discriminate.
Qed.

(* ---------------------------------------------------------------- the generic closure statement *)
(* what the descent needs from a rebuilt sub-layout: valid, not shorter, and of a node class that may sit where
   the original sat *)
(* [u] = "directly below an option-type / indexed node": only there must the class stay non-option *)
Definition fits (u : bool) (c c' : content) : Prop :=
  Valid None c' /\ clen c <= clen c' /\
  (u = true -> optionlike c = false -> optionlike c' = false) /\ (unionlike c = false -> unionlike c' = false).
Definition plain (c' : content) : Prop := optionlike c' = false /\ unionlike c' = false.
Definition uplain (u : bool) (c' : content) : Prop := (u = true -> optionlike c' = false) /\ unionlike c' = false.
Lemma plain_uplain u c' : plain c' -> uplain u c'.
Proof. intros [A B]. split; auto. Qed.

Lemma pair_ok_mono lc lc' ab : lc <= lc' -> pair_ok lc ab -> pair_ok lc' ab.
Proof. unfold pair_ok. lia. Qed.

Section ClosureAx.
  Variable g : option akind -> content -> res content.
  Variable unk : res content.
  Variable str_ok : bool.
  Variable Q : bool -> option akind -> content -> bool.
  Hypothesis Hg : forall u p c cc c',
    Valid p c -> list_content c = Some cc -> Q u p c = true -> (is_strk p = true -> str_ok = true) ->
    g p c = Ok c' -> Valid None c' /\ clen c <= clen c' /\ uplain u c'.
  Hypothesis Hunk : forall c', unk = Ok c' -> Valid None c' /\ 0 <= clen c' /\ plain c'.

  Let MA := model_axp g unk str_ok.

  Lemma gs_fits u p c cc c' :
    Valid p c -> list_content c = Some cc -> Q u p c = true -> gs g str_ok p c = Ok c' -> fits u c c'.
  Proof.
    intros HV Hc HQ H. unfold gs in H. destruct (is_strk p && negb str_ok) eqn:E; [discriminate|].
    destruct (Hg u p c cc c' HV Hc HQ) as (H1 & H2 & H3 & H4); [destruct (is_strk p), str_ok; auto; discriminate|exact H|].
    repeat split; auto.
  Qed.

  (* the recursive call below a list node that is not at the axis *)
  Lemma below_list p c cc d ax c'' :
    ParamOk p c -> list_content c = Some cc -> (is_strk p = false -> Valid None cc) ->
    MA None cc d ax = Ok c'' -> p = None /\ Valid None cc.
  Proof.
    intros Hp Hc Hv H. destruct (is_strk p) eqn:Es.
    - destruct (ParamOk_str _ _ Hp Es) as (c0 & k & rn & n & dd & Hc0 & -> & _). rewrite Hc in Hc0. inversion Hc0; subst.
      exfalso. unfold MA in H. exact (model_axp_chars g unk str_ok _ _ _ _ _ _ _ _ H).
    - split; [eapply ParamOk_nostr; eassumption|auto].
  Qed.

  Lemma model_axp_valid_all c : forall u p d axis c',
    Valid p c -> ax_all Q u p c d axis = true -> MA p c d axis = Ok c' -> fits u c c'.
  Proof.
    induction c as [dt shape data| |w o c IHc|w s e c IHc|c size zl IHc|w ix c IHc|w ix c IHc|m vw c IHc
                   |m vw lsb n c IHc|c IHc|w t ix cs IHcs|cs ks n IHcs|arr rn c IHc] using content_ind';
      intros u p d axis c' HV HQ H; pose proof HV as HV0; inversion HV; subst;
      unfold MA in H; rewrite model_axp_eq in H; apply bind_Ok in H as (ax & Hax & H);
      rewrite ax_all_eq, Hax in HQ; cbn [model_body] in H; cbn [ax_body] in HQ.
    - discriminate.
    - destruct (Hunk _ H) as (H1 & H2 & H3 & H4). repeat split; auto.
    - (* ListOffset *)
      destruct (ax =? d + 1) eqn:E; [eapply gs_fits; [exact HV0|reflexivity|exact HQ|exact H]|].
      apply rmap_Ok in H as (c'' & Hc'' & ->).
      match goal with Hp : ParamOk p _, Hs : _ -> Valid None c |- _ =>
        destruct (below_list p _ c _ _ _ Hp eq_refl Hs Hc'') as [-> HVc] end.
      destruct (IHc _ None _ _ _ HVc HQ Hc'') as (X1 & X2 & X3 & X4).
      split; [|split; [cbn [clen]; lia|split; reflexivity]].
      constructor; [exact I|assumption| |intros _; exact X1].
      match goal with Hf : Forall (pair_ok (clen c)) _ |- _ => eapply Forall_impl; [|exact Hf] end.
      intros ab. apply pair_ok_mono. exact X2.
    - (* ListA *)
      destruct (ax =? d + 1) eqn:E; [eapply gs_fits; [exact HV0|reflexivity|exact HQ|exact H]|].
      apply rmap_Ok in H as (c'' & Hc'' & ->).
      match goal with Hp : ParamOk p _, Hs : _ -> Valid None c |- _ =>
        destruct (below_list p _ c _ _ _ Hp eq_refl Hs Hc'') as [-> HVc] end.
      destruct (IHc _ None _ _ _ HVc HQ Hc'') as (X1 & X2 & X3 & X4).
      split; [|split; [cbn [clen]; lia|split; reflexivity]].
      constructor; [exact I|assumption| |intros _; exact X1].
      match goal with Hf : Forall (pair_ok (clen c)) _ |- _ => eapply Forall_impl; [|exact Hf] end.
      intros ab. apply pair_ok_mono. exact X2.
    - (* Regular *)
      destruct (ax =? d + 1) eqn:E; [eapply gs_fits; [exact HV0|reflexivity|exact HQ|exact H]|].
      apply rmap_Ok in H as (c'' & Hc'' & ->).
      match goal with Hp : ParamOk p _, Hs : _ -> Valid None c |- _ =>
        destruct (below_list p _ c _ _ _ Hp eq_refl Hs Hc'') as [-> HVc] end.
      destruct (IHc _ None _ _ _ HVc HQ Hc'') as (X1 & X2 & X3 & X4).
      split; [constructor; [exact I|assumption|assumption|intros _; exact X1]|].
      split; [|split; reflexivity].
      cbn [clen]. destruct (size =? 0) eqn:Ez; [lia|]. apply Z.div_le_mono; lia.
    - (* Indexed *)
      match goal with Hp : ParamOk p _ |- _ => pose proof (ParamOk_nonlist _ _ Hp eq_refl); subst p end.
      apply rmap_Ok in H as (c'' & Hc'' & ->).
      match goal with HVc : Valid None c |- _ => destruct (IHc _ None _ _ _ HVc HQ Hc'') as (X1 & X2 & X3 & X4) end.
      split; [|split; [cbn [clen]; lia|split; [discriminate|reflexivity]]].
      constructor; [exact I| |auto|exact X1].
      match goal with Hf : Forall _ ix |- _ => eapply Forall_impl; [|exact Hf] end. cbv beta. intros i Hi. lia.
    - (* IndexedOption *)
      match goal with Hp : ParamOk p _ |- _ => pose proof (ParamOk_nonlist _ _ Hp eq_refl); subst p end.
      apply rmap_Ok in H as (c'' & Hc'' & ->).
      match goal with HVc : Valid None c |- _ => destruct (IHc _ None _ _ _ HVc HQ Hc'') as (X1 & X2 & X3 & X4) end.
      split; [|split; [cbn [clen]; lia|split; [discriminate|reflexivity]]].
      constructor; [exact I| |auto|exact X1].
      match goal with Hf : Forall _ ix |- _ => eapply Forall_impl; [|exact Hf] end. cbv beta. intros i Hi. lia.
    - (* ByteMasked *)
      match goal with Hp : ParamOk p _ |- _ => pose proof (ParamOk_nonlist _ _ Hp eq_refl); subst p end.
      apply rmap_Ok in H as (c'' & Hc'' & ->).
      match goal with HVc : Valid None c |- _ => destruct (IHc _ None _ _ _ HVc HQ Hc'') as (X1 & X2 & X3 & X4) end.
      split; [|split; [cbn [clen]; lia|split; [discriminate|reflexivity]]].
      constructor; [exact I|lia|auto|exact X1].
    - (* BitMasked *)
      match goal with Hp : ParamOk p _ |- _ => pose proof (ParamOk_nonlist _ _ Hp eq_refl); subst p end.
      apply rmap_Ok in H as (c'' & Hc'' & ->).
      match goal with HVc : Valid None c |- _ => destruct (IHc _ None _ _ _ HVc HQ Hc'') as (X1 & X2 & X3 & X4) end.
      split; [|split; [cbn [clen]; lia|split; [discriminate|reflexivity]]].
      constructor; [exact I|assumption|assumption|lia|auto|exact X1].
    - (* Unmasked *)
      match goal with Hp : ParamOk p _ |- _ => pose proof (ParamOk_nonlist _ _ Hp eq_refl); subst p end.
      apply rmap_Ok in H as (c'' & Hc'' & ->).
      match goal with HVc : Valid None c |- _ => destruct (IHc _ None _ _ _ HVc HQ Hc'') as (X1 & X2 & X3 & X4) end.
      split; [|split; [cbn [clen]; lia|split; [discriminate|reflexivity]]].
      constructor; [exact I|auto|exact X1].
    - (* Union *)
      match goal with Hp : ParamOk p _ |- _ => pose proof (ParamOk_nonlist _ _ Hp eq_refl); subst p end.
      apply rmap_Ok in H as (cs' & Hcs' & ->).
      match goal with HVs : Forall (Valid None) cs |- _ => rename HVs into HVs0 end.
      assert (HF : Forall2 (fits false) cs cs').
      { eapply mapM_Forall2_P; [exact Hcs'|]. intros x y Hx Hy. rewrite Forall_forall in IHcs, HVs0.
        rewrite forallb_forall in HQ. eapply (IHcs x Hx false None); [auto|apply HQ, Hx|exact Hy]. }
      split; [|split; [cbn [clen]; lia|split; [reflexivity|discriminate]]].
      constructor; [exact I| |assumption| |].
      + match goal with Hu : Forall (fun x => unionlike x = false) cs |- _ => rewrite Forall_forall in Hu; rename Hu into Hu0 end.
        eapply Forall2_Forall_r; [exact HF|]. cbv beta. intros x y Hx (_ & _ & _ & X4). apply X4, Hu0, Hx.
      + match goal with Hz : Forall _ (zip t ix) |- _ => eapply Forall_impl; [|exact Hz] end.
        cbv beta. intros ti (Ht & Hi & lc & Hlc & Hlt). split; [exact Ht|]. split; [exact Hi|].
        destruct (get_clen_map _ _ _ Hlc) as (x & Hx & ->).
        destruct (Forall2_get _ _ _ HF _ _ Hx) as (y & Hy & (_ & Y2 & _)).
        exists (clen y). split; [rewrite get_map, Hy; reflexivity|lia].
      + eapply Forall2_Forall_r; [exact HF|]. cbv beta. intros x y _ (X1 & _). exact X1.
    - (* Record *)
      match goal with Hp : ParamOk p _ |- _ => pose proof (ParamOk_nonlist _ _ Hp eq_refl); subst p end.
      apply rmap_Ok in H as (cs' & Hcs' & ->).
      match goal with HVs : Forall (Valid None) cs |- _ => rename HVs into HVs0 end.
      assert (HF : Forall2 (fits false) cs cs').
      { eapply mapM_Forall2_P; [exact Hcs'|]. intros x y Hx Hy. rewrite Forall_forall in IHcs, HVs0.
        rewrite forallb_forall in HQ. eapply (IHcs x Hx false None); [auto|apply HQ, Hx|exact Hy]. }
      split; [|split; [cbn [clen]; lia|split; reflexivity]].
      constructor; [exact I|assumption| | |].
      + match goal with Hn : Forall (fun x => n <= clen x) cs |- _ => rewrite Forall_forall in Hn; rename Hn into Hn0 end.
        eapply Forall2_Forall_r; [exact HF|]. cbv beta. intros x y Hx (_ & X2 & _). specialize (Hn0 x Hx). lia.
      + intros k Hk. rewrite (Forall2_length _ _ _ HF). auto.
      + eapply Forall2_Forall_r; [exact HF|]. cbv beta. intros x y _ (X1 & _). exact X1.
    - (* Par *)
      match goal with HVc : Valid arr c |- _ => destruct (IHc u arr _ _ _ HVc HQ H) as (X1 & X2 & X3 & X4) end.
      split; [exact X1|]. split; [cbn [clen]; exact X2|]. split.
      + rewrite optionlike_Par. exact X3.
      + unfold unionlike at 1. cbn [strip]. exact X4.
  Qed.

  Theorem model_ax_valid c axis c' :
    Valid None c -> ax_frag Q c axis = true -> model_ax g unk str_ok c axis = Ok c' ->
    Valid None c' /\ clen c <= clen c'.
  Proof.
    intros HV HQ H. unfold model_ax in H.
    destruct (model_axp_valid_all (expand c) false None 0 axis c' (expand_valid_p c None HV) HQ H) as (X1 & X2 & _).
    rewrite clen_expand in X2. auto.
  Qed.
End ClosureAx.

(* ---------------------------------------------------------------- the pieces the actions are built from *)
Lemma iota_neg n : n <= 0 -> iota n = [].
Proof. intros H. unfold iota. replace (Z.to_nat n) with O by lia. reflexivity. Qed.
Lemma zlen_iota_max n : zlen (iota n) = Z.max 0 n.
Proof. destruct (Z_le_gt_dec 0 n); [rewrite zlen_iota; lia|rewrite iota_neg by lia; rewrite zlen_nil; lia]. Qed.

Lemma list_bounds_valid p c bs cc :
  Valid p c -> list_bounds c = Ok (bs, cc) ->
  list_content c = Some cc /\ clen c <= zlen bs /\ Forall (pair_ok (clen cc)) bs /\ (is_strk p = false -> Valid None cc).
Proof.
  intros HV Hb. inversion HV; subst; cbn [list_bounds] in Hb; try discriminate.
  - destruct o as [|a o']; [discriminate|]. remember (pairs (a :: o')) as P eqn:EP. inversion Hb; subst. split; [reflexivity|].
    split; [cbn [clen]; rewrite zlen_pairs by discriminate; lia|]. split; assumption.
  - destruct (zlen e <? zlen s) eqn:E; [discriminate|]. inversion Hb; subst. split; [reflexivity|].
    split; [cbn [clen]; rewrite zlen_zip; lia|]. split; assumption.
  - destruct (size <? 0) eqn:E; [discriminate|]. inversion Hb; subst. split; [reflexivity|].
    split; [cbn [clen]; rewrite zlen_map, zlen_iota_max; lia|]. split; [|assumption].
    apply Forall_forall. intros ab Hab. apply in_map_iff in Hab as (i & <- & Hi). apply iota_In' in Hi.
    unfold pair_ok. cbn [fst snd]. destruct (size =? 0) eqn:Ez; [left; lia|]. right.
    assert (size * (clen cc / size) <= clen cc) by (apply Z.mul_div_le; lia). nia.
Qed.

Lemma np64_valid l : Valid None (np64 l) /\ clen (np64 l) = zlen l /\ plain (np64 l).
Proof.
  unfold np64. split; [|split; [reflexivity|split; reflexivity]].
  constructor; [exact I|discriminate|constructor; [apply zlen_nonneg|constructor]|].
  cbn [prodZ fold_right]. rewrite zlen_map. lia.
Qed.

Lemma zlen_offsets_from lens : forall s, zlen (offsets_from s lens) = zlen lens + 1.
Proof. induction lens as [|n ns IH]; intros s; cbn [offsets_from]; [reflexivity|]. rewrite !zlen_cons, IH. reflexivity. Qed.
Lemma offsets_pairs lens : Forall (fun n => 0 <= n) lens -> forall s,
  Forall (fun ab : Z * Z => s <= fst ab /\ fst ab <= snd ab /\ snd ab <= s + sumZ lens) (pairs (offsets_from s lens)).
Proof.
  induction 1 as [|n ns Hn Hns IH]; intros s; [constructor|].
  cbn [offsets_from]. rewrite pairs_offsets. unfold sumZ in *. cbn [fold_right].
  pose proof (IH (s + n)) as IH'. assert (0 <= fold_right Z.add 0 ns).
  { clear -Hns. induction Hns; cbn [fold_right]; lia. }
  constructor; [cbn [fst snd]; lia|]. eapply Forall_impl; [|exact IH']. cbv beta. intros ab. lia.
Qed.
(* a ListOffsetArray64 built from per-list lengths over a content of the total length *)
Lemma offsets_valid lens cc :
  Forall (fun n => 0 <= n) lens -> sumZ lens <= clen cc -> Valid None cc ->
  Valid None (ListOffset I64 (offsets_from 0 lens) cc).
Proof.
  intros Hl Hs HV. constructor; [exact I|rewrite zlen_offsets_from; pose proof (zlen_nonneg lens); lia| |intros _; exact HV].
  eapply Forall_impl; [|apply (offsets_pairs lens Hl 0)]. cbv beta. intros ab Hab. right. lia.
Qed.
Lemma sumZ_zlen_concat {A} (Ls : list (list A)) : sumZ (map zlen Ls) = zlen (concat Ls).
Proof.
  induction Ls as [|L Ls IH]; [reflexivity|]. cbn [map concat]. unfold sumZ in *. cbn [fold_right]. rewrite zlen_app, IH. reflexivity.
Qed.
Lemma zlens_nonneg {A} (Ls : list (list A)) : Forall (fun n => 0 <= n) (map zlen Ls).
Proof. apply Forall_map. apply Forall_forall. intros L _. apply zlen_nonneg. Qed.

Lemma lens_of_nonneg lc bs : Forall (pair_ok lc) bs -> Forall (fun n => 0 <= n) (lens_of bs).
Proof. intros H. apply Forall_map. eapply Forall_impl; [|exact H]. unfold pair_ok. intros ab. lia. Qed.

(* ---------------------------------------------------------------- num *)
Definition Qtrue (_ : bool) (_ : option akind) (_ : content) : bool := true.

Lemma num_Hgv u p c cc c' :
  Valid p c -> list_content c = Some cc -> Qtrue u p c = true -> (is_strk p = true -> true = true) ->
  num_g p c = Ok c' -> Valid None c' /\ clen c <= clen c' /\ uplain u c'.
Proof.
  intros HV _ _ _ H. unfold num_g in H. apply bind_Ok in H as ([bs cc0] & Hb & H). inversion H; subst.
  destruct (list_bounds_valid _ _ _ _ HV Hb) as (_ & Hn & _). destruct (np64_valid (lens_of bs)) as (X1 & X2 & X3).
  split; [exact X1|]. split; [|apply plain_uplain, X3]. rewrite X2. cbn [fst]. unfold lens_of. rewrite zlen_map. exact Hn.
Qed.
Lemma unk_np64 c' : Ok (np64 []) = Ok c' -> Valid None c' /\ 0 <= clen c' /\ plain c'.
Proof. intros H. inversion H; subst. destruct (np64_valid []) as (X1 & X2 & X3).
  split; [exact X1|split; [rewrite X2; apply zlen_nonneg|exact X3]].
Qed.

Lemma ax_all_Qtrue c : forall u p d axis, ax_all Qtrue u p c d axis = true.
Proof.
  induction c using content_ind'; intros u p d axis; rewrite ax_all_eq; destruct (resolve_axis _ d axis) as [ax|]; try reflexivity;
    cbn [ax_body]; auto; try (destruct (ax =? d + 1); [reflexivity|auto]);
    apply forallb_forall; intros x Hx; rewrite Forall_forall in H; apply H, Hx.
Qed.

(* no fragment hypothesis at all: every valid layout (unions, strings, n-d leaves included) *)
Theorem num_preserves_valid : forall axis c c',
  Valid None c -> num_model axis c = Ok c' -> Valid None c'.
Proof.
  intros axis c c' HV H.
  exact (proj1 (model_ax_valid num_g (Ok (np64 [])) true Qtrue num_Hgv unk_np64 c axis c' HV (ax_all_Qtrue _ _ _ _ _) H)).
Qed.

(* ---------------------------------------------------------------- local_index *)
Lemma zlen_iotas lens : Forall (fun n => 0 <= n) lens -> map zlen (map iota lens) = lens.
Proof. induction 1 as [|n ns Hn _ IH]; [reflexivity|]. cbn [map]. rewrite IH, zlen_iota by exact Hn. reflexivity. Qed.

Lemma localindex_Hgv u p c cc c' :
  Valid p c -> list_content c = Some cc -> Qtrue u p c = true -> (is_strk p = true -> true = true) ->
  localindex_g p c = Ok c' -> Valid None c' /\ clen c <= clen c' /\ uplain u c'.
Proof.
  intros HV _ _ _ H. unfold localindex_g in H. apply bind_Ok in H as ([bs cc0] & Hb & H). cbn [fst] in H. inversion H; subst.
  destruct (list_bounds_valid _ _ _ _ HV Hb) as (_ & Hn & Hp & _). pose proof (lens_of_nonneg _ _ Hp) as Hl.
  destruct (np64_valid (concat (map iota (lens_of bs)))) as (X1 & X2 & X3).
  split; [|split; [|split; reflexivity]].
  - apply offsets_valid; [exact Hl| |exact X1]. rewrite X2, <- sumZ_zlen_concat, zlen_iotas by exact Hl. lia.
  - cbn [clen]. rewrite zlen_offsets_from. unfold lens_of. rewrite zlen_map. lia.
Qed.

Theorem localindex_preserves_valid : forall axis c c',
  Valid None c -> localindex_model axis c = Ok c' -> Valid None c'.
Proof.
  intros axis c c' HV H.
  exact (proj1 (model_ax_valid localindex_g (Ok (np64 [])) true Qtrue localindex_Hgv unk_np64 c axis c' HV (ax_all_Qtrue _ _ _ _ _) H)).
Qed.

(* ---------------------------------------------------------------- pad_none *)
(* The model (unlike the C++, which calls simplify_optiontype) wraps the content of the list at the axis in an
   IndexedOptionArray as it is: the result is invalid when that content is already option-type, and when the list is a
   string (its characters are tagged "char", which is only legal directly below a string node).  [Qpad] excludes both,
   and degenerate negative-length contents (possible only through unchecked character buffers). *)
Definition Qpad (_ : bool) (p : option akind) (c : content) : bool :=
  negb (is_strk p) &&
  match list_content c with Some cc => negb (optionlike cc) && (0 <=? clen cc) | None => false end.

Lemma pad_index_In clip target lc ab x :
  pair_ok lc ab -> In x (pad_index clip target ab) -> x = -1 \/ (0 <= x < lc).
Proof.
  destruct ab as [a b]. unfold pair_ok, pad_index. cbn [fst snd]. intros Hp Hx.
  assert (Hx' : In x (range a b ++ repeatZ (-1) (target - (b - a)))).
  { destruct clip; [eapply In_firstn; exact Hx|exact Hx]. }
  apply in_app_or in Hx' as [Hr|Hr].
  - apply range_In in Hr. right. lia.
  - left. unfold repeatZ in Hr. eapply repeat_spec, Hr.
Qed.

Lemma pad_content_valid clip target cc bs :
  Valid None cc -> optionlike cc = false -> 0 <= clen cc -> Forall (pair_ok (clen cc)) bs ->
  Valid None (IndexedOption I64 (concat (map (pad_index clip target) bs)) cc).
Proof.
  intros HV Ho Hn Hp. constructor; [exact I| |exact Ho|exact HV].
  apply Forall_forall. intros x Hx. apply in_concat in Hx as (l & Hl & Hx). apply in_map_iff in Hl as (ab & <- & Hab).
  rewrite Forall_forall in Hp. destruct (pad_index_In _ _ _ _ _ (Hp ab Hab) Hx); lia.
Qed.

Lemma Qpad_inv u p c cc : Valid p c -> list_content c = Some cc -> Qpad u p c = true ->
  p = None /\ optionlike cc = false /\ 0 <= clen cc.
Proof.
  intros HV Hc HQ. unfold Qpad in HQ. rewrite Hc in HQ.
  destruct (Valid_param _ _ HV) as [->|Hs]; [|rewrite Hs in HQ; discriminate]. split; [reflexivity|]. lia.
Qed.

Lemma rpad_Hgv target u p c cc c' :
  Valid p c -> list_content c = Some cc -> Qpad u p c = true -> (is_strk p = true -> true = true) ->
  rpad_g target p c = Ok c' -> Valid None c' /\ clen c <= clen c' /\ uplain u c'.
Proof.
  intros HV Hc HQ _ H. unfold rpad_g in H. apply bind_Ok in H as ([bs cc0] & Hb & H). cbn [fst snd] in H. inversion H; subst.
  destruct (list_bounds_valid _ _ _ _ HV Hb) as (Hc0 & Hn & Hp & Hvc). rewrite Hc in Hc0. inversion Hc0; subst cc0.
  destruct (Qpad_inv _ _ _ _ HV Hc HQ) as (-> & Ho & Hcc).
  split; [|split; [|split; reflexivity]].
  - apply offsets_valid; [apply zlens_nonneg|rewrite sumZ_zlen_concat; cbn [clen]; lia|].
    apply pad_content_valid; auto.
  - cbn [clen]. rewrite zlen_offsets_from, !zlen_map. lia.
Qed.

Lemma unk_err c' : @Err content EValue = Ok c' -> Valid None c' /\ 0 <= clen c' /\ plain c'.
Proof. discriminate. Qed.

Theorem rpad_preserves_valid_partial : forall target axis c c',
  Valid None c -> ax_frag Qpad c axis = true -> rpad_model target axis c = Ok c' -> Valid None c'.
Proof.
  intros target axis c c' HV HQ H.
  exact (proj1 (model_ax_valid (rpad_g target) (Err EValue) true Qpad (rpad_Hgv target) unk_err c axis c' HV HQ H)).
Qed.

Lemma pad_index_clip_zlen target lc ab : 0 <= target -> pair_ok lc ab -> zlen (pad_index true target ab) = target.
Proof.
  destruct ab as [a b]. unfold pair_ok, pad_index. cbn [fst snd]. intros Ht Hp.
  apply zlen_take. rewrite zlen_app, zlen_repeatZ, zlen_range by lia. lia.
Qed.

Lemma rpadclip_Hgv target : 0 <= target -> forall u p c cc c',
  Valid p c -> list_content c = Some cc -> Qpad u p c = true -> (is_strk p = true -> true = true) ->
  rpadclip_g target p c = Ok c' -> Valid None c' /\ clen c <= clen c' /\ uplain u c'.
Proof.
  intros Ht u p c cc c' HV Hc HQ _ H. unfold rpadclip_g in H. apply bind_Ok in H as ([bs cc0] & Hb & H). cbn [fst snd] in H.
  inversion H; subst.
  destruct (list_bounds_valid _ _ _ _ HV Hb) as (Hc0 & Hn & Hp & Hvc). rewrite Hc in Hc0. inversion Hc0; subst cc0.
  destruct (Qpad_inv _ _ _ _ HV Hc HQ) as (-> & Ho & Hcc).
  split; [|split; [|split; reflexivity]].
  - constructor; [exact I|exact Ht|apply zlen_nonneg|intros _; apply pad_content_valid; auto].
  - cbn [clen]. rewrite !zlen_map. destruct (target =? 0) eqn:E; [exact Hn|].
    rewrite (zlen_concat_const _ target).
    + rewrite zlen_map, Z.div_mul by lia. exact Hn.
    + apply Forall_forall. intros l Hl. apply in_map_iff in Hl as (ab & <- & Hab). rewrite Forall_forall in Hp.
      eapply pad_index_clip_zlen; [exact Ht|apply Hp, Hab].
Qed.

Theorem rpadclip_preserves_valid_partial : forall target axis c c',
  Valid None c -> ax_frag Qpad c axis = true -> rpadclip_model target axis c = Ok c' -> Valid None c'.
Proof.
  intros target axis c c' HV HQ H. unfold rpadclip_model in H. destruct (target <? 0) eqn:E; [discriminate|].
  assert (Ht : 0 <= target) by lia.
  exact (proj1 (model_ax_valid (rpadclip_g target) (Err EValue) true Qpad (rpadclip_Hgv target Ht) unk_err c axis c' HV HQ H)).
Qed.

(* ---------------------------------------------------------------- combinations *)
(* The model represents the k-th tuple field as an IndexedArray over the content of the list at the axis (the C++
   carries the content instead): invalid when that content is option-type, which [Qcomb] excludes. *)
Definition Qcomb (_ : bool) (_ : option akind) (c : content) : bool :=
  match list_content c with Some cc => negb (optionlike cc) | None => false end.

Lemma combs_cons {A} k (a : A) l : combs (S k) (a :: l) = map (cons a) (combs k l) ++ combs (S k) l.
Proof. reflexivity. Qed.
Lemma combs_r_cons {A} k (a : A) l : combs_r (S k) (a :: l) = map (cons a) (combs_r k (a :: l)) ++ combs_r (S k) l.
Proof. reflexivity. Qed.
Lemma combs_In {A} k : forall (l t : list A) x, In t (combs k l) -> In x t -> In x l.
Proof.
  induction k as [|k IHk]; intros l t x Ht Hx.
  - destruct Ht as [<-|[]]. contradiction.
  - induction l as [|a l IHl]; [contradiction|]. rewrite combs_cons in Ht. apply in_app_or in Ht as [Ht|Ht].
    + apply in_map_iff in Ht as (t' & <- & Ht'). destruct Hx as [<-|Hx]; [left; reflexivity|right; eapply IHk; eassumption].
    + right. apply IHl, Ht.
Qed.
Lemma combs_r_In {A} k : forall (l t : list A) x, In t (combs_r k l) -> In x t -> In x l.
Proof.
  induction k as [|k IHk]; intros l t x Ht Hx.
  - destruct Ht as [<-|[]]. contradiction.
  - induction l as [|a l IHl]; [contradiction|]. rewrite combs_r_cons in Ht. apply in_app_or in Ht as [Ht|Ht].
    + apply in_map_iff in Ht as (t' & <- & Ht'). destruct Hx as [<-|Hx]; [left; reflexivity|eapply IHk; eassumption].
    + right. apply IHl, Ht.
Qed.
Lemma combos_In {A} repl n (l t : list A) x : In t (combos repl n l) -> In x t -> In x l.
Proof. unfold combos. destruct repl; [apply combs_r_In|apply combs_In]. Qed.

Lemma columns_zlen k : forall tuples col, In col (columns k tuples) -> zlen col = zlen tuples.
Proof.
  induction k as [|k IH]; intros tuples col Hc; [contradiction|]. cbn [columns] in Hc. destruct Hc as [<-|Hc].
  - apply zlen_map.
  - rewrite (IH _ _ Hc). apply zlen_map.
Qed.

Lemma comb_Hgv n repl u p c cc c' :
  Valid p c -> list_content c = Some cc -> Qcomb u p c = true -> (is_strk p = true -> false = true) ->
  comb_g n repl p c = Ok c' -> Valid None c' /\ clen c <= clen c' /\ uplain u c'.
Proof.
  intros HV Hc HQ Hs H. unfold comb_g in H. apply bind_Ok in H as ([bs cc0] & Hb & H). cbn [fst snd] in H. inversion H; subst.
  destruct (list_bounds_valid _ _ _ _ HV Hb) as (Hc0 & Hn & Hp & Hvc). rewrite Hc in Hc0. inversion Hc0; subst cc0.
  unfold Qcomb in HQ. rewrite Hc in HQ.
  assert (Hstr : is_strk p = false) by (destruct (is_strk p); [discriminate (Hs eq_refl)|reflexivity]).
  specialize (Hvc Hstr).
  set (per_list := map (fun ab : Z * Z => combos repl n (range (fst ab) (snd ab))) bs) in *.
  assert (Hlen : Forall (fun t : list Z => length t = Z.to_nat n) (concat per_list)).
  { apply Forall_forall. intros t Ht. apply in_concat in Ht as (L & HL & Ht). unfold per_list in HL.
    apply in_map_iff in HL as (ab & <- & _). eapply combos_tuple_length, Ht. }
  split; [|split; [|split; reflexivity]].
  - apply offsets_valid; [apply zlens_nonneg|rewrite sumZ_zlen_concat; cbn [clen]; lia|].
    constructor; [exact I|apply zlen_nonneg| |discriminate|].
    + apply Forall_map. apply Forall_forall. intros col Hcol. cbn [clen]. rewrite (columns_zlen _ _ _ Hcol). lia.
    + apply Forall_map. apply Forall_forall. intros col Hcol. constructor; [exact I| |lia|exact Hvc].
      apply Forall_forall. intros x Hx. destruct (columns_In _ _ _ _ Hlen Hcol Hx) as (t & Ht & Hxt).
      apply in_concat in Ht as (L & HL & Ht). unfold per_list in HL. apply in_map_iff in HL as (ab & <- & Hab).
      pose proof (combos_In _ _ _ _ _ Ht Hxt) as Hr. apply range_In in Hr.
      rewrite Forall_forall in Hp. specialize (Hp ab Hab). unfold pair_ok in Hp. lia.
  - cbn [clen]. rewrite zlen_offsets_from. unfold per_list. rewrite !zlen_map. lia.
Qed.

Lemma unk_empty c' : Ok Empty = Ok c' -> Valid None c' /\ 0 <= clen c' /\ plain c'.
Proof.
  intros H. inversion H; subst. split; [constructor; exact I|]. split; [cbn [clen]; lia|split; reflexivity].
Qed.

Theorem comb_preserves_valid_partial : forall n repl axis c c',
  Valid None c -> ax_frag Qcomb c axis = true -> comb_model n repl axis c = Ok c' -> Valid None c'.
Proof.
  intros n repl axis c c' HV HQ H. unfold comb_model in H. destruct (n <? 1); [discriminate|].
  exact (proj1 (model_ax_valid (comb_g n repl) (Ok Empty) false Qcomb (comb_Hgv n repl) unk_empty c axis c' HV HQ H)).
Qed.

(* ---------------------------------------------------------------- the added hypotheses are needed *)
(* smallest witnesses: a valid input, a non-error result, an invalid output *)
Example rpad_preserves_valid_refuted_option :
  let c := ListOffset I64 [0; 1] (IndexedOption I64 [-1] Empty) in
  valid_b c = true /\ rpad_model 1 1 c = Ok (ListOffset I64 [0; 1] (IndexedOption I64 [0] (IndexedOption I64 [-1] Empty))) /\
  valid_b (ListOffset I64 [0; 1] (IndexedOption I64 [0] (IndexedOption I64 [-1] Empty))) = false /\
  ax_frag Qpad c 1 = false.
Proof. vm_compute. repeat split. Qed.
(* the characters of a string padded along the character axis: here the C++ result is invalid as well (it keeps
   __array__ = "string" on a list whose content is now an IndexedOptionArray) *)
Example rpad_preserves_valid_refuted_string :
  let c := Par (Some AString) None (ListOffset I64 [0; 2] (Par (Some AChar) None (Numpy DUInt8 [2] [DZ 97; DZ 98]))) in
  let r := ListOffset I64 [0; 3] (IndexedOption I64 [0; 1; -1] (Par (Some AChar) None (Numpy DUInt8 [2] [DZ 97; DZ 98]))) in
  valid_b c = true /\ rpad_model 3 1 c = Ok r /\ valid_b r = false /\ ax_frag Qpad c 1 = false.
Proof. vm_compute. repeat split. Qed.
Example rpadclip_preserves_valid_refuted_string :
  let c := Par (Some AString) None (ListOffset I64 [0; 2] (Par (Some AChar) None (Numpy DUInt8 [2] [DZ 97; DZ 98]))) in
  let r := Regular (IndexedOption I64 [0; 1; -1] (Par (Some AChar) None (Numpy DUInt8 [2] [DZ 97; DZ 98]))) 3 1 in
  valid_b c = true /\ rpadclip_model 3 1 c = Ok r /\ valid_b r = false /\ ax_frag Qpad c 1 = false.
Proof. vm_compute. repeat split. Qed.
Example rpadclip_preserves_valid_refuted_option :
  let c := ListOffset I64 [0; 1] (IndexedOption I64 [-1] Empty) in
  let r := Regular (IndexedOption I64 [0] (IndexedOption I64 [-1] Empty)) 1 1 in
  valid_b c = true /\ rpadclip_model 1 1 c = Ok r /\ valid_b r = false /\ ax_frag Qpad c 1 = false.
Proof. vm_compute. repeat split. Qed.
(* a "valid" string whose (unchecked) character buffer has a negative length, as the content of a list *)
Example rpad_preserves_valid_refuted_neglen :
  let s := Par (Some AString) None (Regular (Par (Some AChar) None (Numpy DUInt8 [-5] [])) 2 0) in
  let c := ListOffset I64 [0; 0] s in
  valid_b c = true /\ rpad_model 1 1 c = Ok (ListOffset I64 [0; 1] (IndexedOption I64 [-1] s)) /\
  valid_b (ListOffset I64 [0; 1] (IndexedOption I64 [-1] s)) = false /\ ax_frag Qpad c 1 = false.
Proof. vm_compute. repeat split. Qed.
Example comb_preserves_valid_refuted :
  let c := ListOffset I64 [0; 1] (IndexedOption I64 [-1] Empty) in
  let r := ListOffset I64 [0; 1] (Record [Indexed I64 [0] (IndexedOption I64 [-1] Empty)] None 1) in
  valid_b c = true /\ comb_model 1 false 1 c = Ok r /\ valid_b r = false /\ ax_frag Qcomb c 1 = false.
Proof. vm_compute. repeat split. Qed.

(* the fragments are inhabited by non-trivial layouts: union of (nested lists + option + record) and an n-d leaf *)
Definition closure_ex : content :=
  Union I64 [0; 1; 0] [0; 0; 1]
    [ListOffset I64 [0; 2; 3]
       (ByteMasked [1; 0; 1] true
          (Record [Regular (Numpy DInt64 [6] [DZ 1; DZ 2; DZ 3; DZ 4; DZ 5; DZ 6]) 2 3;
                   ListOffset I64 [0; 1; 1; 3] (Numpy DFloat64 [3] [DZ 7; DNaN; DZ 9])] (Some [[120]; [121]]) 3));
     Numpy DInt32 [1; 2; 2] [DZ 1; DZ 2; DZ 3; DZ 4]].
Example closure_ex_ok :
  valid_b closure_ex = true /\
  ax_frag Qpad closure_ex 2 = true /\ ax_frag Qcomb closure_ex 2 = true /\ ax_frag Qpad closure_ex 1 = false /\
  (do r <- num_model 2 closure_ex; Ok (valid_b r)) = Ok true /\
  (do r <- localindex_model 2 closure_ex; Ok (valid_b r)) = Ok true /\
  (do r <- rpad_model 3 2 closure_ex; Ok (valid_b r)) = Ok true /\
  (do r <- rpadclip_model 1 2 closure_ex; Ok (valid_b r)) = Ok true /\
  (do r <- comb_model 2 true 2 closure_ex; Ok (valid_b r)) = Ok true.
Proof. vm_compute. repeat split. Qed.
