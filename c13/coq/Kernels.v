(** Kernels.v -- MODEL ONLY (no proofs): Gallina models of the CPU kernels in /repo/src/cpu-kernels.

    Each model is a total function in the error monad [kres], written to follow the C loop of the kernel of
    the same name: [for] loops are [kfor] over the same index range, data-dependent [while] loops carry explicit
    fuel ([KErr MFuel] when exhausted), sequential writes [out[k++] = v] are a checked push, indexed writes
    [out[k] = v] a checked [kupd], every read a checked [kget]; both return [KOob] outside the extent of the list
    passed in (= the allocation size of the buffer).  Buffers are [list Z]; an output buffer is passed in with its
    initial content and returned with the cells the kernel wrote replaced.  Stores into a buffer of C type [t]
    go through [wrap t] (two's complement / modulo 2^bits / bool normalisation); [TIdeal] is the unbounded
    version (also used for float specialisations on integer-valued data). *)
From Coq Require Import ZArith List Bool.
From AwkV Require Import Base.
Import ListNotations.
Open Scope Z_scope.

(** * Error monad *)
Inductive msg :=
| MIndexOutOfRange          (* "index out of range" *)
| MStopsLtStarts            (* "stops[i] < starts[i]" *)
| MStopsGtLen               (* "stops[i] > len(content)" *)
| MOffsetsNotMonotone       (* "broadcast's offsets must be monotonically increasing" *)
| MCannotBroadcast          (* "cannot broadcast nested list" *)
| MStartGtStop              (* "start[i] > stop[i]" *)
| MStartLt0                 (* "start[i] < 0" *)
| MStopGtLen                (* "stop[i] > len(content)" *)
| MIndexLt0                 (* "index[i] < 0" *)
| MIndexGeLen               (* "index[i] >= len(content)" *)
| MTagsLt0                  (* "tags[i] < 0" *)
| MTagsGeLen                (* "tags[i] >= len(contents)" *)
| MIndexGeLenTag            (* "index[i] >= len(content[tags[i]])" *)
| MFlatteningOffset         (* "flattening offset out of range" *)
| MFuel                     (* model only: loop fuel exhausted *)
| MBadArgs.                 (* model only: argument list does not match the kernel's signature *)

Inductive kres (A : Type) := KOk (a : A) | KErr (m : msg) | KOob.
Arguments KOk {A} a.
Arguments KErr {A} m.
Arguments KOob {A}.

Definition kbind {A B} (r : kres A) (f : A -> kres B) : kres B :=
  match r with KOk a => f a | KErr m => KErr m | KOob => KOob end.
Notation "'let*' x ':=' r 'in' k" := (kbind r (fun x => k))
  (at level 200, x pattern, r at level 100, k at level 200).
Definition kmap {A B} (f : A -> B) (r : kres A) : kres B :=
  match r with KOk a => KOk (f a) | KErr m => KErr m | KOob => KOob end.
Definition kcheck (b : bool) (m : msg) : kres unit := if b then KErr m else KOk tt.

(** * Checked buffer access *)
Definition kget (l : list Z) (i : Z) : kres Z :=
  match get l i with Ok x => KOk x | Err _ => KOob end.

Fixpoint set_nth (l : list Z) (n : nat) (v : Z) : list Z :=
  match l, n with
  | [], _ => []
  | _ :: t, O => v :: t
  | h :: t, S n' => h :: set_nth t n' v
  end.

Definition kupd (l : list Z) (i v : Z) : kres (list Z) :=
  if (0 <=? i) && (i <? zlen l) then KOk (set_nth l (Z.to_nat i) v) else KOob.

(** * C integer types *)
Inductive ity := TB | TI (bits : Z) | TU (bits : Z) | TIdeal.

Definition wrap (t : ity) (v : Z) : Z :=
  match t with
  | TIdeal => v
  | TB => if v =? 0 then 0 else 1
  | TU b => v mod 2 ^ b
  | TI b => (v + 2 ^ (b - 1)) mod 2 ^ b - 2 ^ (b - 1)
  end.
Definition fits (t : ity) (v : Z) : Prop := wrap t v = v.
Definition i64 := TI 64.

(** * Loops *)
Fixpoint kfor_nat {S} (n : nat) (i : Z) (body : Z -> S -> kres S) (s : S) : kres S :=
  match n with
  | O => KOk s
  | S n' => let* s' := body i s in kfor_nat n' (i + 1) body s'
  end.
(** [for (i = lo; i < hi; i++) s = body i s] *)
Definition kfor {S} (lo hi : Z) (body : Z -> S -> kres S) (s : S) : kres S :=
  kfor_nat (Z.to_nat (hi - lo)) lo body s.

(** [while (cond s) s = body s] with explicit fuel *)
Fixpoint kwhile {S} (fuel : nat) (cond : S -> bool) (body : S -> kres S) (s : S) : kres S :=
  match fuel with
  | O => if cond s then KErr MFuel else KOk s
  | S f => if cond s then let* s' := body s in kwhile f cond body s' else KOk s
  end.

(** [for (i = 0; i < n; i++) out[off + i] = f i] *)
Definition kfill (off n : Z) (f : Z -> kres Z) (out : list Z) : kres (list Z) :=
  kfor 0 n (fun i out => let* v := f i in kupd out (off + i) v) out.

(** [for (i = 0; i < n; i++) check i] -- loops that only validate *)
Definition kchecks (n : Z) (check : Z -> kres unit) : kres unit :=
  kfor 0 n (fun i _ => check i) tt.

(** [for (i..) if (sel i = Some v) out[k++] = v]; state = (out, k) *)
Definition kpush (st : list Z * Z) (v : Z) : kres (list Z * Z) :=
  let '(out, k) := st in let* out' := kupd out k v in KOk (out', k + 1).

(* ------------------------------------------------------------------------------------------------ *)
(** * num / offsets *)

(* awkward_ListArray_num<T, C>:  tonum[i] = (T)(stop - start)  with C start, stop *)
Definition ListArray_num (tT tC : ity) (tonum starts stops : list Z) (length : Z) : kres (list Z) :=
  kfill 0 length (fun i =>
    let* start := kget starts i in
    let* stop := kget stops i in
    KOk (wrap tT (wrap tC (stop - start)))) tonum.

(* awkward_RegularArray_num<T>:  tonum[i] = size *)
Definition RegularArray_num (tT : ity) (tonum : list Z) (size length : Z) : kres (list Z) :=
  kfill 0 length (fun _ => KOk (wrap tT size)) tonum.

(* awkward_ListOffsetArray_flatten_offsets<T, C>:  tooffsets[i] = inneroffsets[outeroffsets[i]] *)
Definition ListOffsetArray_flatten_offsets (tT : ity) (tooffsets outer : list Z) (outerlen : Z) (inner : list Z)
  : kres (list Z) :=
  kfill 0 outerlen (fun i => let* o := kget outer i in let* v := kget inner o in KOk (wrap tT v)) tooffsets.

(* awkward_ListArray_compact_offsets<C, T> *)
Definition ListArray_compact_offsets (tT tC : ity) (tooffsets starts stops : list Z) (length : Z) : kres (list Z) :=
  let* out0 := kupd tooffsets 0 0 in
  kfor 0 length (fun i out =>
    let* start := kget starts i in
    let* stop := kget stops i in
    let* _ := kcheck (stop <? start) MStopsLtStarts in
    let* prev := kget out i in
    kupd out (i + 1) (wrap tT (prev + wrap tC (stop - start)))) out0.

(* awkward_ListOffsetArray_compact_offsets<C, T>:  diff = fromoffsets[0]; tooffsets[i+1] = fromoffsets[i+1] - diff *)
Definition ListOffsetArray_compact_offsets (tT : ity) (tooffsets fromoffsets : list Z) (length : Z) : kres (list Z) :=
  let* diff := kget fromoffsets 0 in
  let* out0 := kupd tooffsets 0 0 in
  kfill 1 length (fun i => let* o := kget fromoffsets (i + 1) in KOk (wrap tT (o - diff))) out0.

(* awkward_RegularArray_compact_offsets<T>:  tooffsets[i+1] = (i+1)*size *)
Definition RegularArray_compact_offsets (tT : ity) (tooffsets : list Z) (length size : Z) : kres (list Z) :=
  let* out0 := kupd tooffsets 0 0 in
  kfill 1 length (fun i => KOk (wrap tT ((i + 1) * size))) out0.

(* awkward_ListArray_broadcast_tooffsets<C, T> *)
Definition ListArray_broadcast_tooffsets (tT : ity) (tocarry fromoffsets : list Z) (offsetslength : Z)
    (starts stops : list Z) (lencontent : Z) : kres (list Z) :=
  let* r := kfor 0 (offsetslength - 1) (fun i st =>
    let* start := kget starts i in
    let* stop := kget stops i in
    let* _ := kcheck (negb (start =? stop) && (lencontent <? stop)) MStopsGtLen in
    let* o1 := kget fromoffsets (i + 1) in
    let* o0 := kget fromoffsets i in
    let count := wrap tT (o1 - o0) in
    let* _ := kcheck (count <? 0) MOffsetsNotMonotone in
    let* _ := kcheck (negb (stop - start =? count)) MCannotBroadcast in
    kfor start stop (fun j st => kpush st (wrap tT j)) st) (tocarry, 0) in
  KOk (fst r).

(* awkward_RegularArray_broadcast_tooffsets<T> (no output) *)
Definition RegularArray_broadcast_tooffsets (tT : ity) (fromoffsets : list Z) (offsetslength size : Z) : kres unit :=
  kchecks (offsetslength - 1) (fun i =>
    let* o1 := kget fromoffsets (i + 1) in
    let* o0 := kget fromoffsets i in
    let count := wrap tT (o1 - o0) in
    let* _ := kcheck (count <? 0) MOffsetsNotMonotone in
    kcheck (negb (size =? count)) MCannotBroadcast).

(* awkward_RegularArray_broadcast_tooffsets_size1<T> *)
Definition RegularArray_broadcast_tooffsets_size1 (tT : ity) (tocarry fromoffsets : list Z) (offsetslength : Z)
  : kres (list Z) :=
  let* r := kfor 0 (offsetslength - 1) (fun i st =>
    let* o1 := kget fromoffsets (i + 1) in
    let* o0 := kget fromoffsets i in
    let count := wrap tT (o1 - o0) in
    let* _ := kcheck (count <? 0) MOffsetsNotMonotone in
    kfor 0 count (fun _ st => kpush st (wrap tT i)) st) (tocarry, 0) in
  KOk (fst r).

(* ------------------------------------------------------------------------------------------------ *)
(** * validity *)

Definition ListArray_validity (starts stops : list Z) (length lencontent : Z) : kres unit :=
  kchecks length (fun i =>
    let* start := kget starts i in
    let* stop := kget stops i in
    if start =? stop then KOk tt else
    let* _ := kcheck (stop <? start) MStartGtStop in
    let* _ := kcheck (start <? 0) MStartLt0 in
    kcheck (lencontent <? stop) MStopGtLen).

Definition IndexedArray_validity (index : list Z) (length lencontent : Z) (isoption : bool) : kres unit :=
  kchecks length (fun i =>
    let* idx := kget index i in
    let* _ := kcheck (negb isoption && (idx <? 0)) MIndexLt0 in
    kcheck (lencontent <=? idx) MIndexGeLen).

Definition UnionArray_validity (tags index : list Z) (length numcontents : Z) (lencontents : list Z) : kres unit :=
  kchecks length (fun i =>
    let* tag := kget tags i in
    let* idx := kget index i in
    let* _ := kcheck (tag <? 0) MTagsLt0 in
    let* _ := kcheck (idx <? 0) MIndexLt0 in
    let* _ := kcheck (numcontents <=? tag) MTagsGeLen in
    let* lencontent := kget lencontents tag in
    kcheck (lencontent <=? idx) MIndexGeLenTag).

(* ------------------------------------------------------------------------------------------------ *)
(** * slice regularisation *)

(* kernel-utils.cpp: awkward_regularize_rangeslice(&start, &stop, posstep, hasstart, hasstop, length) *)
Definition regularize_rangeslice (start stop : Z) (posstep hasstart hasstop : bool) (length : Z) : Z * Z :=
  if posstep then
    let s := if negb hasstart then 0 else if start <? 0 then start + length else start in
    let s := if s <? 0 then 0 else s in
    let s := if length <? s then length else s in
    let e := if negb hasstop then length else if stop <? 0 then stop + length else stop in
    let e := if e <? 0 then 0 else e in
    let e := if length <? e then length else e in
    let e := if e <? s then s else e in
    (s, e)
  else
    let s := if negb hasstart then length - 1 else if start <? 0 then start + length else start in
    let s := if s <? -1 then -1 else s in
    let s := if length - 1 <? s then length - 1 else s in
    let e := if negb hasstop then -1 else if stop <? 0 then stop + length else stop in
    let e := if e <? -1 then -1 else e in
    let e := if length - 1 <? e then length - 1 else e in
    let e := if s <? e then s else e in
    (s, e).

Definition kSliceNone : Z := 9223372036854775807.

(* awkward_regularize_arrayslice<T>: in place *)
Definition regularize_arrayslice (tT : ity) (flathead : list Z) (lenflathead length : Z) : kres (list Z) :=
  kfor 0 lenflathead (fun i buf =>
    let* x := kget buf i in
    let* buf := (if x <? 0 then kupd buf i (wrap tT (x + length)) else KOk buf) in
    let* y := kget buf i in
    let* _ := kcheck ((y <? 0) || (length <=? y)) MIndexOutOfRange in
    KOk buf) flathead.

(* ------------------------------------------------------------------------------------------------ *)
(** * getitem_next on lists *)

(* awkward_ListArray_getitem_next_at<C, T> *)
Definition ListArray_getitem_next_at (tT tC : ity) (tocarry starts stops : list Z) (lenstarts at_ : Z) : kres (list Z) :=
  kfill 0 lenstarts (fun i =>
    let* start := kget starts i in
    let* stop := kget stops i in
    let length := wrap tC (stop - start) in
    let ra := if at_ <? 0 then at_ + length else at_ in
    let* _ := kcheck (negb ((0 <=? ra) && (ra <? length))) MIndexOutOfRange in
    KOk (wrap tT (start + ra))) tocarry.

(* number of iterations of  for (j = s; j < e; j += step)  (step > 0) or  for (j = s; j > e; j += step)  (step < 0) *)
Definition range_fuel (s e : Z) : nat := Z.to_nat (Z.abs (e - s)).

(* awkward_ListArray_getitem_next_range<C, T> *)
Definition ListArray_getitem_next_range (tC tT : ity) (tooffsets tocarry starts stops : list Z)
    (lenstarts start stop step : Z) : kres (list Z * list Z) :=
  let* off0 := kupd tooffsets 0 0 in
  let* r := kfor 0 lenstarts (fun i st =>
    let '(off, ck) := st in
    let* fstart := kget starts i in
    let* fstop := kget stops i in
    let length := wrap tC (fstop - fstart) in
    let '(rs, re) := regularize_rangeslice start stop (0 <? step) (negb (start =? kSliceNone))
                                           (negb (stop =? kSliceNone)) length in
    let* r := kwhile (range_fuel rs re)
                 (fun s => if 0 <? step then snd s <? re else re <? snd s)
                 (fun s => let '(ck, j) := s in
                           let* ck' := kpush ck (wrap tT (fstart + j)) in KOk (ck', j + step))
                 (ck, rs) in
    let ck' := fst r in
    let* off' := kupd off (i + 1) (wrap tC (snd ck')) in
    KOk (off', ck')) (off0, (tocarry, 0)) in
  KOk (fst r, fst (snd r)).

(* awkward_ListArray_getitem_next_range_carrylength<C> *)
Definition ListArray_getitem_next_range_carrylength (tC : ity) (carrylength starts stops : list Z)
    (lenstarts start stop step : Z) : kres (list Z) :=
  let* c0 := kupd carrylength 0 0 in
  kfor 0 lenstarts (fun i cl =>
    let* fstart := kget starts i in
    let* fstop := kget stops i in
    let length := wrap tC (fstop - fstart) in
    let '(rs, re) := regularize_rangeslice start stop (0 <? step) (negb (start =? kSliceNone))
                                           (negb (stop =? kSliceNone)) length in
    let* r := kwhile (range_fuel rs re)
                 (fun s => if 0 <? step then snd s <? re else re <? snd s)
                 (fun s => let '(cl, j) := s in
                           let* c := kget cl 0 in
                           let* cl' := kupd cl 0 (c + 1) in KOk (cl', j + step))
                 (cl, rs) in
    KOk (fst r)) c0.

(* awkward_ListArray_getitem_next_range_counts<C>:  *total = *total + fromoffsets[i+1] - fromoffsets[i] *)
Definition ListArray_getitem_next_range_counts (tC : ity) (total fromoffsets : list Z) (lenstarts : Z) : kres (list Z) :=
  let* t0 := kupd total 0 0 in
  kfor 0 lenstarts (fun i t =>
    let* o1 := kget fromoffsets (i + 1) in
    let* o0 := kget fromoffsets i in
    let* c := kget t 0 in
    kupd t 0 (wrap i64 (c + o1 - o0))) t0.

(* awkward_ListArray_getitem_next_range_spreadadvanced<C, T>:  toadvanced[fromoffsets[i] + j] = fromadvanced[i] *)
Definition ListArray_getitem_next_range_spreadadvanced (tC : ity) (toadvanced fromadvanced fromoffsets : list Z)
    (lenstarts : Z) : kres (list Z) :=
  kfor 0 lenstarts (fun i out =>
    let* o1 := kget fromoffsets (i + 1) in
    let* o0 := kget fromoffsets i in
    let count := wrap tC (o1 - o0) in
    let* a := kget fromadvanced i in
    kfor 0 count (fun j out => kupd out (o0 + j) a) out) toadvanced.

(* awkward_ListArray_getitem_next_array<C, T> *)
Definition ListArray_getitem_next_array (tocarry toadvanced starts stops fromarray : list Z)
    (lenstarts lenarray lencontent : Z) : kres (list Z * list Z) :=
  kfor 0 lenstarts (fun i st =>
    let* start := kget starts i in
    let* stop := kget stops i in
    let* _ := kcheck (stop <? start) MStopsLtStarts in
    let* _ := kcheck (negb (start =? stop) && (lencontent <? stop)) MStopsGtLen in
    let length := stop - start in
    kfor 0 lenarray (fun j st =>
      let '(tc, ta) := st in
      let* a := kget fromarray j in
      let ra := if a <? 0 then a + length else a in
      let* _ := kcheck (negb ((0 <=? ra) && (ra <? length))) MIndexOutOfRange in
      let* tc' := kupd tc (i * lenarray + j) (start + ra) in
      let* ta' := kupd ta (i * lenarray + j) j in
      KOk (tc', ta')) st) (tocarry, toadvanced).

(* awkward_ListArray_getitem_next_array_advanced<C, T> *)
Definition ListArray_getitem_next_array_advanced (tocarry toadvanced starts stops fromarray fromadvanced : list Z)
    (lenstarts lenarray lencontent : Z) : kres (list Z * list Z) :=
  kfor 0 lenstarts (fun i st =>
    let '(tc, ta) := st in
    let* start := kget starts i in
    let* stop := kget stops i in
    let* _ := kcheck (stop <? start) MStopsLtStarts in
    let* _ := kcheck (negb (start =? stop) && (lencontent <? stop)) MStopsGtLen in
    let length := stop - start in
    let* adv := kget fromadvanced i in
    let* a := kget fromarray adv in
    let ra := if a <? 0 then a + length else a in
    let* _ := kcheck (negb ((0 <=? ra) && (ra <? length))) MIndexOutOfRange in
    let* tc' := kupd tc i (start + ra) in
    let* ta' := kupd ta i adv in      (* toadvanced[i] = fromadvanced[i] (repaired in /repo; it was i) *)
    KOk (tc', ta')) (tocarry, toadvanced).

(* awkward_ListArray_getitem_carry<C, T> *)
Definition ListArray_getitem_carry (tC : ity) (tostarts tostops starts stops fromcarry : list Z)
    (lenstarts lencarry : Z) : kres (list Z * list Z) :=
  kfor 0 lencarry (fun i st =>
    let '(ts, tp) := st in
    let* c := kget fromcarry i in
    let* _ := kcheck (lenstarts <=? c) MIndexOutOfRange in
    let* a := kget starts c in
    let* b := kget stops c in
    let* ts' := kupd ts i (wrap tC a) in
    let* tp' := kupd tp i (wrap tC b) in
    KOk (ts', tp')) (tostarts, tostops).

(* ------------------------------------------------------------------------------------------------ *)
(** * getitem_next on regular arrays *)

Definition RegularArray_getitem_next_at (tocarry : list Z) (at_ length size : Z) : kres (list Z) :=
  let ra := if at_ <? 0 then at_ + size else at_ in
  let* _ := kcheck (negb ((0 <=? ra) && (ra <? size))) MIndexOutOfRange in
  kfill 0 length (fun i => KOk (i * size + ra)) tocarry.

Definition RegularArray_getitem_next_range (tocarry : list Z) (regular_start step length size nextsize : Z)
  : kres (list Z) :=
  kfor 0 length (fun i out =>
    kfor 0 nextsize (fun j out => kupd out (i * nextsize + j) (i * size + regular_start + j * step)) out) tocarry.

Definition RegularArray_getitem_next_range_spreadadvanced (toadvanced fromadvanced : list Z) (length nextsize : Z)
  : kres (list Z) :=
  kfor 0 length (fun i out =>
    let* a := kget fromadvanced i in
    kfor 0 nextsize (fun j out => kupd out (i * nextsize + j) a) out) toadvanced.

Definition RegularArray_getitem_next_array (tocarry toadvanced fromarray : list Z) (length lenarray size : Z)
  : kres (list Z * list Z) :=
  kfor 0 length (fun i st =>
    kfor 0 lenarray (fun j st =>
      let '(tc, ta) := st in
      let* a := kget fromarray j in
      let* tc' := kupd tc (i * lenarray + j) (i * size + a) in
      let* ta' := kupd ta (i * lenarray + j) j in
      KOk (tc', ta')) st) (tocarry, toadvanced).

Definition RegularArray_getitem_next_array_advanced (tocarry toadvanced fromadvanced fromarray : list Z)
    (length lenarray size : Z) : kres (list Z * list Z) :=
  kfor 0 length (fun i st =>
    let '(tc, ta) := st in
    let* adv := kget fromadvanced i in
    let* a := kget fromarray adv in
    let* tc' := kupd tc i (i * size + a) in
    let* ta' := kupd ta i adv in      (* toadvanced[i] = fromadvanced[i] (repaired in /repo; it was i) *)
    KOk (tc', ta')) (tocarry, toadvanced).

Definition RegularArray_getitem_next_array_regularize (toarray fromarray : list Z) (lenarray size : Z) : kres (list Z) :=
  kfor 0 lenarray (fun j out =>
    let* a := kget fromarray j in
    let* out := kupd out j a in
    let* out := (if a <? 0 then kupd out j (a + size) else KOk out) in
    let* y := kget out j in
    let* _ := kcheck (negb ((0 <=? y) && (y <? size))) MIndexOutOfRange in
    KOk out) toarray.

Definition RegularArray_getitem_carry (tocarry fromcarry : list Z) (lencarry size : Z) : kres (list Z) :=
  kfor 0 lencarry (fun i out =>
    let* c := kget fromcarry i in
    kfor 0 size (fun j out => kupd out (i * size + j) (c * size + j)) out) tocarry.

(* ------------------------------------------------------------------------------------------------ *)
(** * option / indexed kernels *)

(* awkward_IndexedArray_getitem_nextcarry<C, T> *)
Definition IndexedArray_getitem_nextcarry (tocarry fromindex : list Z) (lenindex lencontent : Z) : kres (list Z) :=
  let* r := kfor 0 lenindex (fun i st =>
    let* j := kget fromindex i in
    let* _ := kcheck ((j <? 0) || (lencontent <=? j)) MIndexOutOfRange in
    kpush st j) (tocarry, 0) in
  KOk (fst r).

(* awkward_IndexedArray_getitem_nextcarry_outindex<C, T> *)
Definition IndexedArray_getitem_nextcarry_outindex (tC : ity) (tocarry toindex fromindex : list Z)
    (lenindex lencontent : Z) : kres (list Z * list Z) :=
  let* r := kfor 0 lenindex (fun i st =>
    let '(ck, ti) := st in
    let* j := kget fromindex i in
    let* _ := kcheck (lencontent <=? j) MIndexOutOfRange in
    if j <? 0 then let* ti' := kupd ti i (wrap tC (-1)) in KOk (ck, ti')
    else
      let* ck' := kpush ck j in
      let* ti' := kupd ti i (wrap tC (snd ck)) in
      KOk (ck', ti')) ((tocarry, 0), toindex) in
  KOk (fst (fst r), snd r).

(* awkward_IndexedArray_flatten_nextcarry<C, T> *)
Definition IndexedArray_flatten_nextcarry (tocarry fromindex : list Z) (lenindex lencontent : Z) : kres (list Z) :=
  let* r := kfor 0 lenindex (fun i st =>
    let* j := kget fromindex i in
    let* _ := kcheck (lencontent <=? j) MIndexOutOfRange in
    if 0 <=? j then kpush st j else KOk st) (tocarry, 0) in
  KOk (fst r).

(* awkward_IndexedArray_flatten_none2empty<C, T> *)
Definition IndexedArray_flatten_none2empty (tT : ity) (outoffsets outindex : list Z) (outindexlength : Z)
    (offsets : list Z) (offsetslength : Z) : kres (list Z) :=
  let* o0 := kget offsets 0 in
  let* out0 := kupd outoffsets 0 (wrap tT o0) in
  let* r := kfor 0 outindexlength (fun i st =>
    let '(out, k) := st in
    let* idx := kget outindex i in
    if idx <? 0 then
      let* prev := kget out (k - 1) in
      let* out' := kupd out k prev in KOk (out', k + 1)
    else
      let* _ := kcheck (offsetslength <=? idx + 1) MFlatteningOffset in
      let* a := kget offsets (idx + 1) in
      let* b := kget offsets idx in
      let count := wrap tT (a - b) in
      let* prev := kget out (k - 1) in
      let* out' := kupd out k (wrap tT (prev + count)) in KOk (out', k + 1)) (out0, 1) in
  KOk (fst r).

(* awkward_IndexedArray_numnull<C> *)
Definition IndexedArray_numnull (numnull fromindex : list Z) (lenindex : Z) : kres (list Z) :=
  let* n0 := kupd numnull 0 0 in
  kfor 0 lenindex (fun i n =>
    let* x := kget fromindex i in
    if x <? 0 then let* c := kget n 0 in kupd n 0 (c + 1) else KOk n) n0.

(* awkward_ByteMaskedArray_getitem_nextcarry *)
Definition ByteMaskedArray_getitem_nextcarry (tocarry mask : list Z) (length : Z) (validwhen : bool) : kres (list Z) :=
  let* r := kfor 0 length (fun i st =>
    let* m := kget mask i in
    if Bool.eqb (negb (m =? 0)) validwhen then kpush st i else KOk st) (tocarry, 0) in
  KOk (fst r).

(* awkward_ByteMaskedArray_getitem_nextcarry_outindex *)
Definition ByteMaskedArray_getitem_nextcarry_outindex (tocarry outindex mask : list Z) (length : Z) (validwhen : bool)
  : kres (list Z * list Z) :=
  let* r := kfor 0 length (fun i st =>
    let '(ck, oi) := st in
    let* m := kget mask i in
    if Bool.eqb (negb (m =? 0)) validwhen then
      let* ck' := kpush ck i in
      let* oi' := kupd oi i (snd ck) in KOk (ck', oi')
    else let* oi' := kupd oi i (-1) in KOk (ck, oi')) ((tocarry, 0), outindex) in
  KOk (fst (fst r), snd r).

(* awkward_ByteMaskedArray_toIndexedOptionArray *)
Definition ByteMaskedArray_toIndexedOptionArray (toindex mask : list Z) (length : Z) (validwhen : bool) : kres (list Z) :=
  kfill 0 length (fun i => let* m := kget mask i in
                           KOk (if Bool.eqb (negb (m =? 0)) validwhen then i else -1)) toindex.

(* bit k (0 = least significant) of a byte *)
Definition bit (byte k : Z) : bool := Z.odd (byte / 2 ^ k).

(* awkward_BitMaskedArray_to_ByteMaskedArray: eight stores per byte *)
Definition BitMaskedArray_to_ByteMaskedArray (tobytemask frombitmask : list Z) (bitmasklength : Z)
    (validwhen lsb_order : bool) : kres (list Z) :=
  kfor 0 bitmasklength (fun i out =>
    let* byte := kget frombitmask i in
    kfor 0 8 (fun s out =>
      let b := bit byte (if lsb_order then s else 7 - s) in
      kupd out (i * 8 + s) (if Bool.eqb b validwhen then 0 else 1)) out) tobytemask.

(* awkward_BitMaskedArray_to_IndexedOptionArray *)
Definition BitMaskedArray_to_IndexedOptionArray (toindex frombitmask : list Z) (bitmasklength : Z)
    (validwhen lsb_order : bool) : kres (list Z) :=
  kfor 0 bitmasklength (fun i out =>
    let* byte := kget frombitmask i in
    kfor 0 8 (fun s out =>
      let b := bit byte (if lsb_order then s else 7 - s) in
      kupd out (i * 8 + s) (if Bool.eqb b validwhen then i * 8 + s else -1)) out) toindex.

(* awkward_UnionArray_fillna<T, C> *)
Definition UnionArray_fillna (tT : ity) (toindex fromindex : list Z) (length : Z) : kres (list Z) :=
  kfill 0 length (fun i => let* x := kget fromindex i in KOk (wrap tT (if 0 <=? x then x else 0))) toindex.

(* awkward_IndexedArray_local_preparenext_64 *)
Definition IndexedArray_local_preparenext (tocarry starts parents : list Z) (parentslength : Z)
    (nextparents : list Z) (nextlen : Z) : kres (list Z) :=
  let* r := kfor 0 parentslength (fun i st =>
    let '(out, j) := st in
    let* parent := kget parents i in
    let* _start := kget starts parent in
    if j <? nextlen then
      let* np := kget nextparents j in
      if parent =? np then let* out' := kupd out i j in KOk (out', j + 1)
      else let* out' := kupd out i (-1) in KOk (out', j)
    else let* out' := kupd out i (-1) in KOk (out', j)) (tocarry, 0) in
  KOk (fst r).

(* ------------------------------------------------------------------------------------------------ *)
(** * local index / rpad *)

Definition ListArray_localindex (toindex offsets : list Z) (length : Z) : kres (list Z) :=
  kfor 0 length (fun i out =>
    let* start := kget offsets i in
    let* stop := kget offsets (i + 1) in
    kfor start stop (fun j out => kupd out j (j - start)) out) toindex.

Definition localindex (tT : ity) (toindex : list Z) (length : Z) : kres (list Z) :=
  kfill 0 length (fun i => KOk (wrap tT i)) toindex.

Definition RegularArray_localindex (toindex : list Z) (size length : Z) : kres (list Z) :=
  kfor 0 length (fun i out => kfor 0 size (fun j out => kupd out (i * size + j) j) out) toindex.

(* awkward_ListArray_min_range<C>: reads element 0 unconditionally *)
Definition ListArray_min_range (tC : ity) (tomin starts stops : list Z) (lenstarts : Z) : kres (list Z) :=
  let* s0 := kget starts 0 in
  let* e0 := kget stops 0 in
  let* shorter := kfor 1 lenstarts (fun i shorter =>
    let* s := kget starts i in
    let* e := kget stops i in
    let rangeval := wrap tC (e - s) in
    KOk (if shorter <? rangeval then shorter else rangeval)) (wrap tC (e0 - s0)) in
  kupd tomin 0 shorter.

(* awkward_ListArray_rpad_and_clip_length_axis1<C> *)
Definition ListArray_rpad_and_clip_length_axis1 (tC : ity) (tomin starts stops : list Z) (target lenstarts : Z)
  : kres (list Z) :=
  let* length := kfor 0 lenstarts (fun i length =>
    let* s := kget starts i in
    let* e := kget stops i in
    let rangeval := wrap tC (e - s) in
    KOk (length + (if rangeval <? target then target else rangeval))) 0 in
  kupd tomin 0 (wrap i64 length).

(* awkward_ListArray_rpad_axis1<T, C> *)
Definition ListArray_rpad_axis1 (tC : ity) (toindex starts stops tostarts tostops : list Z) (target length : Z)
  : kres (list Z * list Z * list Z) :=
  let* r := kfor 0 length (fun i st =>
    let '(ti, ts, tp, offset) := st in
    let* ts' := kupd ts i (wrap tC offset) in
    let* s := kget starts i in
    let* e := kget stops i in
    let rangeval := wrap tC (e - s) in
    let* ti1 := kfor 0 rangeval (fun j ti => kupd ti (offset + j) (s + j)) ti in
    let* ti2 := kfor rangeval target (fun j ti => kupd ti (offset + j) (-1)) ti1 in
    let* b := kget ts' i in
    let offset' := if rangeval <? target then b + target else b + rangeval in
    let* tp' := kupd tp i (wrap tC offset') in
    KOk (ti2, ts', tp', offset')) (toindex, tostarts, tostops, 0) in
  let '(ti, ts, tp, _) := r in KOk (ti, ts, tp).

(* awkward_ListOffsetArray_rpad_length_axis1<C> *)
Definition ListOffsetArray_rpad_length_axis1 (tC : ity) (tooffsets fromoffsets : list Z) (fromlength target : Z)
    (tolength : list Z) : kres (list Z * list Z) :=
  let* out0 := kupd tooffsets 0 0 in
  let* r := kfor 0 fromlength (fun i st =>
    let '(out, length) := st in
    let* a := kget fromoffsets (i + 1) in
    let* b := kget fromoffsets i in
    let rangeval := wrap tC (a - b) in
    let longer := if target <? rangeval then rangeval else target in
    let* prev := kget out i in
    let* out' := kupd out (i + 1) (wrap tC (prev + longer)) in
    KOk (out', length + longer)) (out0, 0) in
  let* tl := kupd tolength 0 (wrap i64 (snd r)) in
  KOk (fst r, tl).

(* awkward_ListOffsetArray_rpad_axis1<T, C> *)
Definition ListOffsetArray_rpad_axis1 (toindex fromoffsets : list Z) (fromlength target : Z) : kres (list Z) :=
  let* r := kfor 0 fromlength (fun i st =>
    let* a := kget fromoffsets (i + 1) in
    let* b := kget fromoffsets i in
    let rangeval := a - b in
    let* st1 := kfor 0 rangeval (fun j st => kpush st (b + j)) st in
    kfor rangeval target (fun _ st => kpush st (-1)) st1) (toindex, 0) in
  KOk (fst r).

(* awkward_ListOffsetArray_rpad_and_clip_axis1<T, C> *)
Definition ListOffsetArray_rpad_and_clip_axis1 (toindex fromoffsets : list Z) (length target : Z) : kres (list Z) :=
  kfor 0 length (fun i out =>
    let* a := kget fromoffsets (i + 1) in
    let* b := kget fromoffsets i in
    let rangeval := a - b in
    let shorter := if target <? rangeval then target else rangeval in
    let* out1 := kfor 0 shorter (fun j out => kupd out (i * target + j) (b + j)) out in
    kfor shorter target (fun j out => kupd out (i * target + j) (-1)) out1) toindex.

(* awkward_RegularArray_rpad_and_clip_axis1<T> *)
Definition RegularArray_rpad_and_clip_axis1 (toindex : list Z) (target size length : Z) : kres (list Z) :=
  let shorter := if target <? size then target else size in
  kfor 0 length (fun i out =>
    let* out1 := kfor 0 shorter (fun j out => kupd out (i * target + j) (i * size + j)) out in
    kfor shorter target (fun j out => kupd out (i * target + j) (-1)) out1) toindex.

(* awkward_index_rpad_and_clip_axis0<T> *)
Definition index_rpad_and_clip_axis0 (toindex : list Z) (target length : Z) : kres (list Z) :=
  let shorter := if target <? length then target else length in
  let* out1 := kfor 0 shorter (fun i out => kupd out i i) toindex in
  kfor shorter target (fun i out => kupd out i (-1)) out1.

(* awkward_index_rpad_and_clip_axis1<T> *)
Definition index_rpad_and_clip_axis1 (tostarts tostops : list Z) (target length : Z) : kres (list Z * list Z) :=
  let* r := kfor 0 length (fun i st =>
    let '(ts, tp, offset) := st in
    let* ts' := kupd ts i offset in
    let* tp' := kupd tp i (offset + target) in
    KOk (ts', tp', offset + target)) (tostarts, tostops, 0) in
  KOk (fst r).

(* ------------------------------------------------------------------------------------------------ *)
(** * combinations *)

(* the binomial loop of awkward_ListArray_combinations_length: number of n-combinations of [size] items *)
Definition combinations_count (n size : Z) : Z :=
  if size <? n then 0
  else if n =? size then 1
  else
    let thisn := if size <? n * 2 then size - n else n in
    fst (fold_left (fun (acc : Z * Z) (_ : Z) =>
                      let '(c, j) := acc in ((c * (size - j + 1)) / j, j + 1))
                   (iota (thisn - 1)) (size, 2)).

(* awkward_ListArray_combinations_length<C> *)
Definition ListArray_combinations_length (tC : ity) (totallen tooffsets : list Z) (n : Z) (replacement : bool)
    (starts stops : list Z) (length : Z) : kres (list Z * list Z) :=
  let* tl0 := kupd totallen 0 0 in
  let* to0 := kupd tooffsets 0 0 in
  kfor 0 length (fun i st =>
    let '(tl, to) := st in
    let* s := kget starts i in
    let* e := kget stops i in
    let size := wrap tC (e - s) in
    let size := if replacement then size + (n - 1) else size in
    let c := combinations_count n size in
    let* t := kget tl 0 in
    let* tl' := kupd tl 0 (t + c) in
    let* prev := kget to i in
    let* to' := kupd to (i + 1) (prev + c) in
    KOk (tl', to')) (tl0, to0).

(* state of awkward_ListArray_combinations_step: the n carry buffers, toindex[n], fromindex[n] *)
Definition cstate := (list (list Z) * list Z * list Z)%type.

Fixpoint set_row (rows : list (list Z)) (k : nat) (r : list Z) : list (list Z) :=
  match rows, k with
  | [], _ => []
  | _ :: t, O => r :: t
  | h :: t, S k' => h :: set_row t k' r
  end.
Definition krow (rows : list (list Z)) (k : Z) : kres (list Z) :=
  if k <? 0 then KOob else match nth_error rows (Z.to_nat k) with Some r => KOk r | None => KOob end.

(* for (k = 0; k < n; k++) { tocarry[k][toindex[k]] = fromindex[k]; toindex[k]++; } *)
Definition comb_emit (n : Z) (st : cstate) : kres cstate :=
  kfor 0 n (fun k st =>
    let '(tc, ti, fi) := st in
    let* row := krow tc k in
    let* pos := kget ti k in
    let* v := kget fi k in
    let* row' := kupd row pos v in
    let* ti' := kupd ti k (pos + 1) in
    KOk (set_row tc (Z.to_nat k) row', ti', fi)) st.

(* kernel-utils.cpp: awkward_ListArray_combinations_step (recursion depth n - j: structural on [depth]) *)
Fixpoint comb_step (depth : nat) (fuel : nat) (j stop n : Z) (replacement : bool) (st : cstate) : kres cstate :=
  match depth with
  | O => KErr MFuel
  | S depth' =>
    kwhile fuel
      (fun s : cstate => let '(_, _, fi) := s in
                         match kget fi j with KOk x => x <? stop | _ => true end)
      (fun s =>
         let '(tc, ti, fi) := s in
         let* x := kget fi j in
         let* fi1 := kfor (j + 1) n (fun k fi => kupd fi k (if replacement then x else x + (k - j))) fi in
         let* st1 := (if j + 1 =? n then comb_emit n (tc, ti, fi1)
                      else comb_step depth' fuel (j + 1) stop n replacement (tc, ti, fi1)) in
         let '(tc2, ti2, fi2) := st1 in
         let* y := kget fi2 j in
         let* fi3 := kupd fi2 j (y + 1) in
         KOk (tc2, ti2, fi3))
      st
  end.

(* awkward_ListArray_combinations<C> *)
Definition ListArray_combinations (tocarry : list (list Z)) (toindex fromindex : list Z) (n : Z) (replacement : bool)
    (starts stops : list Z) (length : Z) : kres cstate :=
  let* ti0 := kfor 0 n (fun j ti => kupd ti j 0) toindex in
  kfor 0 length (fun i st =>
    let '(tc, ti, fi) := st in
    let* start := kget starts i in
    let* stop := kget stops i in
    let* fi' := kupd fi 0 start in
    comb_step (S (Z.to_nat n)) (S (Z.to_nat (stop - start))) 0 stop n replacement (tc, ti, fi'))
    (tocarry, ti0, fromindex).

(* awkward_RegularArray_combinations_64 *)
Definition RegularArray_combinations (tocarry : list (list Z)) (toindex fromindex : list Z) (n : Z) (replacement : bool)
    (size length : Z) : kres cstate :=
  let* ti0 := kfor 0 n (fun j ti => kupd ti j 0) toindex in
  kfor 0 length (fun i st =>
    let '(tc, ti, fi) := st in
    let start := size * i in
    let stop := start + size in
    let* fi' := kupd fi 0 start in
    comb_step (S (Z.to_nat n)) (S (Z.to_nat size)) 0 stop n replacement (tc, ti, fi'))
    (tocarry, ti0, fromindex).

(* ------------------------------------------------------------------------------------------------ *)
(** * reducers: structure *)

(* awkward_ListOffsetArray_reduce_local_nextparents_64 *)
Definition reduce_local_nextparents (nextparents offsets : list Z) (length : Z) : kres (list Z) :=
  let* o0 := kget offsets 0 in
  kfor 0 length (fun i out =>
    let* a := kget offsets i in
    let* b := kget offsets (i + 1) in
    kfor (a - o0) (b - o0) (fun j out => kupd out j i) out) nextparents.

(* awkward_ListOffsetArray_reduce_local_outoffsets_64 *)
Definition reduce_local_outoffsets (outoffsets parents : list Z) (lenparents outlength : Z) : kres (list Z) :=
  let* r := kfor 0 lenparents (fun i st =>
    let* p := kget parents i in
    kwhile (Z.to_nat (p + 1))
      (fun s : list Z * Z * Z => let '(_, _, last) := s in last <? p)
      (fun s => let '(out, k, last) := s in
                let* out' := kupd out k i in KOk (out', k + 1, last + 1))
      st) (outoffsets, 0, -1) in
  let '(out, k, _) := r in
  kfor k (outlength + 1) (fun k out => kupd out k lenparents) out.

(* awkward_ListOffsetArray_reduce_nonlocal_maxcount_offsetscopy_64 *)
Definition reduce_nonlocal_maxcount_offsetscopy (maxcount offsetscopy offsets : list Z) (length : Z)
  : kres (list Z * list Z) :=
  let* m0 := kupd maxcount 0 0 in
  let* o0 := kget offsets 0 in
  let* c0 := kupd offsetscopy 0 o0 in
  kfor 0 length (fun i st =>
    let '(m, c) := st in
    let* a := kget offsets (i + 1) in
    let* b := kget offsets i in
    let count := a - b in
    let* cur := kget m 0 in
    let* m' := (if cur <? count then kupd m 0 count else KOk m) in
    let* c' := kupd c (i + 1) a in
    KOk (m', c')) (m0, c0).

(* awkward_ListOffsetArray_reduce_nonlocal_preparenext_64; the outer while(k < nextlen) needs fuel:
   every pass that does not advance k would loop forever in C as well (precondition: nextlen = offsets[length]-offsets[0]) *)
Definition reduce_nonlocal_preparenext (nextcarry nextparents : list Z) (nextlen : Z) (maxnextparents distincts : list Z)
    (distinctslen : Z) (offsetscopy offsets : list Z) (length : Z) (parents : list Z) (maxcount : Z)
  : kres (list Z * list Z * list Z * list Z * list Z) :=
  let* mx0 := kupd maxnextparents 0 0 in
  let* d0 := kfor 0 distinctslen (fun i d => kupd d i (-1)) distincts in
  let* r := kwhile (Z.to_nat nextlen)
    (fun s : (list Z * list Z * list Z * list Z * list Z) * Z => snd s <? nextlen)
    (fun s =>
       let* r := kfor 0 length (fun i st =>
         let '(nc, np, mx, d, oc, k, j) := st in
         let* c := kget oc i in
         let* o1 := kget offsets (i + 1) in
         if c <? o1 then
           let* o0 := kget offsets i in
           let diff := c - o0 in
           let* parent := kget parents i in
           let* nc' := kupd nc k c in
           let v := parent * maxcount + diff in
           let* np' := kupd np k v in
           let* curmx := kget mx 0 in
           let* mx' := (if curmx <? v then kupd mx 0 v else KOk mx) in
           let* dv := kget d v in
           let* dj := (if dv =? -1 then let* d' := kupd d v j in KOk (d', j + 1) else KOk (d, j)) in
           let* oc' := kupd oc i (c + 1) in
           KOk (nc', np', mx', fst dj, oc', k + 1, snd dj)
         else KOk st)
         (let '(nc, np, mx, d, oc) := fst s in (nc, np, mx, d, oc, snd s, 0)) in
       let '(nc, np, mx, d, oc, k, _) := r in KOk ((nc, np, mx, d, oc), k))
    ((nextcarry, nextparents, mx0, d0, offsetscopy), 0) in
  KOk (fst r).

(* awkward_ListOffsetArray_reduce_nonlocal_nextstarts_64 *)
Definition reduce_nonlocal_nextstarts (nextstarts nextparents : list Z) (nextlen : Z) : kres (list Z) :=
  let* r := kfor 0 nextlen (fun i st =>
    let '(out, last) := st in
    let* p := kget nextparents i in
    let* out' := (if negb (p =? last) then kupd out p i else KOk out) in
    KOk (out', p)) (nextstarts, -1) in
  KOk (fst r).

(* awkward_ListOffsetArray_reduce_nonlocal_findgaps_64 *)
Definition reduce_nonlocal_findgaps (gaps parents : list Z) (lenparents : Z) : kres (list Z) :=
  let* r := kfor 0 lenparents (fun i st =>
    let '(gk, last) := st in
    let* parent := kget parents i in
    if last <? parent then let* gk' := kpush gk (parent - last) in KOk (gk', parent) else KOk st)
    ((gaps, 0), -1) in
  KOk (fst (fst r)).

(* awkward_ListOffsetArray_reduce_nonlocal_nextshifts_64 *)
Definition reduce_nonlocal_nextshifts (nummissing missing nextshifts offsets : list Z) (length : Z)
    (starts parents : list Z) (maxcount nextlen : Z) (nextcarry : list Z) : kres (list Z * list Z * list Z) :=
  let* r := kfor 0 length (fun i st =>
    let '(nm, ms) := st in
    let* start := kget offsets i in
    let* stop := kget offsets (i + 1) in
    let count := stop - start in
    let* p := kget parents i in
    let* sp := kget starts p in
    let* nm1 := (if sp =? i then kfor 0 maxcount (fun k nm => kupd nm k 0) nm else KOk nm) in
    let* nm2 := kfor count maxcount (fun k nm => let* c := kget nm k in kupd nm k (c + 1)) nm1 in
    let* ms' := kfor 0 count (fun j ms => let* c := kget nm2 j in kupd ms (start + j) c) ms in
    KOk (nm2, ms')) (nummissing, missing) in
  let '(nm, ms) := r in
  let* ns := kfill 0 nextlen (fun j => let* c := kget nextcarry j in kget ms c) nextshifts in
  KOk (nm, ms, ns).

(* awkward_sorting_ranges_length *)
Definition sorting_ranges_length (tolength parents : list Z) (parentslength : Z) : kres (list Z) :=
  let* length := kfor 1 parentslength (fun i length =>
    let* a := kget parents (i - 1) in
    let* b := kget parents i in
    KOk (if negb (a =? b) then length + 1 else length)) 2 in
  kupd tolength 0 length.

(* awkward_sorting_ranges *)
Definition sorting_ranges (toindex : list Z) (tolength : Z) (parents : list Z) (parentslength : Z) : kres (list Z) :=
  let* out0 := kupd toindex 0 0 in
  let* r := kfor 1 parentslength (fun i st =>
    let '(out, j, k) := st in
    let* a := kget parents (i - 1) in
    let* b := kget parents i in
    let* st' := (if negb (a =? b) then let* out' := kupd out j k in KOk (out', j + 1) else KOk (out, j)) in
    KOk (fst st', snd st', k + 1)) (out0, 1, 1) in
  let '(out, _, _) := r in
  kupd out (tolength - 1) parentslength.

(* ------------------------------------------------------------------------------------------------ *)
(** * reducers: values.  toptr is initialised for outlength cells, then updated at parents[i]. *)

Definition reduce_generic (tO : ity) (init : Z) (step : Z -> Z -> Z -> Z) (toptr fromptr parents : list Z)
    (lenparents outlength : Z) : kres (list Z) :=
  let* out0 := kfill 0 outlength (fun _ => KOk (wrap tO init)) toptr in
  kfor 0 lenparents (fun i out =>
    let* p := kget parents i in
    let* x := kget fromptr i in
    let* cur := kget out p in
    kupd out p (wrap tO (step i cur x))) out0.

Definition reduce_count (toptr parents : list Z) (lenparents outlength : Z) : kres (list Z) :=
  let* out0 := kfill 0 outlength (fun _ => KOk 0) toptr in
  kfor 0 lenparents (fun i out =>
    let* p := kget parents i in
    let* cur := kget out p in
    kupd out p (cur + 1)) out0.

Definition reduce_sum (tO : ity) := reduce_generic tO 0 (fun _ cur x => cur + wrap tO x).
Definition reduce_prod (tO : ity) := reduce_generic tO 1 (fun _ cur x => cur * wrap tO x).
Definition reduce_countnonzero := reduce_generic i64 0 (fun _ cur x => cur + (if x =? 0 then 0 else 1)).
Definition reduce_sum_bool := reduce_generic TB 0 (fun _ cur x => if (cur =? 0) && (x =? 0) then 0 else 1).
Definition reduce_prod_bool := reduce_generic TB 1 (fun _ cur x => if (cur =? 0) || (x =? 0) then 0 else 1).
Definition reduce_min (tO : ity) (identity : Z) := reduce_generic tO identity (fun _ cur x => if x <? cur then x else cur).
Definition reduce_max (tO : ity) (identity : Z) := reduce_generic tO identity (fun _ cur x => if cur <? x then x else cur).

(* awkward_reduce_argmin / argmax: toptr[parent] = i if unset or fromptr[i] strictly better than fromptr[toptr[parent]] *)
Definition reduce_arg (better : Z -> Z -> bool) (toptr fromptr parents : list Z) (lenparents outlength : Z)
  : kres (list Z) :=
  let* out0 := kfill 0 outlength (fun _ => KOk (-1)) toptr in
  kfor 0 lenparents (fun i out =>
    let* p := kget parents i in
    let* cur := kget out p in
    if cur =? -1 then kupd out p i
    else
      let* x := kget fromptr i in
      let* y := kget fromptr cur in
      if better x y then kupd out p i else KOk out) out0.
Definition reduce_argmin := reduce_arg (fun x y => x <? y).
Definition reduce_argmax := reduce_arg (fun x y => y <? x).

(* ------------------------------------------------------------------------------------------------ *)
(** * fill *)

(* awkward_NumpyArray_fill<FROM, TO>:  toptr[tooffset + i] = (TO)fromptr[i] *)
Definition NumpyArray_fill (tTO : ity) (toptr : list Z) (tooffset : Z) (fromptr : list Z) (length : Z) : kres (list Z) :=
  kfill tooffset length (fun i => let* x := kget fromptr i in KOk (wrap tTO x)) toptr.

(* awkward_IndexedArray_fill<FROM, TO> *)
Definition IndexedArray_fill (tTO : ity) (toindex : list Z) (toindexoffset : Z) (fromindex : list Z) (length base : Z)
  : kres (list Z) :=
  kfill toindexoffset length (fun i => let* x := kget fromindex i in
                                       KOk (if x <? 0 then wrap tTO (-1) else wrap tTO (x + base))) toindex.

(* awkward_UnionArray_filltags<FROM, TO> *)
Definition UnionArray_filltags (tTO : ity) (totags : list Z) (totagsoffset : Z) (fromtags : list Z) (length base : Z)
  : kres (list Z) :=
  kfill totagsoffset length (fun i => let* x := kget fromtags i in KOk (wrap tTO (x + base))) totags.

(* awkward_UnionArray_fillindex<FROM, TO> *)
Definition UnionArray_fillindex (tTO : ity) (toindex : list Z) (toindexoffset : Z) (fromindex : list Z) (length : Z)
  : kres (list Z) :=
  kfill toindexoffset length (fun i => let* x := kget fromindex i in KOk (wrap tTO x)) toindex.

(* awkward_ListArray_fill<FROM, TO>: both buffers in one loop *)
Definition ListArray_fill (tTO : ity) (tostarts : list Z) (tostartsoffset : Z) (tostops : list Z) (tostopsoffset : Z)
    (fromstarts fromstops : list Z) (length base : Z) : kres (list Z * list Z) :=
  kfor 0 length (fun i st =>
    let '(ts, tp) := st in
    let* a := kget fromstarts i in
    let* b := kget fromstops i in
    let* ts' := kupd ts (tostartsoffset + i) (wrap tTO (a + base)) in
    let* tp' := kupd tp (tostopsoffset + i) (wrap tTO (b + base)) in
    KOk (ts', tp')) (tostarts, tostops).

(* awkward_unique<T>: in place; tolength = j + 1 *)
Definition unique (toptr : list Z) (length : Z) (tolength : list Z) : kres (list Z * list Z) :=
  let* r := kfor 1 length (fun i st =>
    let '(buf, j) := st in
    let* a := kget buf j in
    let* b := kget buf i in
    if negb (a =? b) then let* buf' := kupd buf (j + 1) b in KOk (buf', j + 1) else KOk st) (toptr, 0) in
  let* tl := kupd tolength 0 (snd r + 1) in
  KOk (fst r, tl).

(* ------------------------------------------------------------------------------------------------ *)
(** * kernels whose YAML definition is a placeholder: the model is the only executable specification *)

(* awkward_ListOffsetArray_reduce_nonlocal_outstartsstops_64 (after the fix of the pinned tree): distincts is
   outlength blocks of maxcount slots; the used slots (<> -1) of a block are contiguous from its beginning *)
Definition reduce_nonlocal_outstartsstops (outstarts outstops distincts : list Z) (lendistincts : Z) (outlength : Z)
  : kres (list Z * list Z) :=
  let maxcount := if outlength =? 0 then 0 else lendistincts / outlength in
  kfor 0 outlength (fun k st =>
    let '(os, op) := st in
    let start := k * maxcount in
    let* stop := kwhile (Z.to_nat maxcount)
        (fun stop => (stop <? start + maxcount) &&
                     match kget distincts stop with KOk d => negb (d =? -1) | _ => true end)
        (fun stop => let* _ := kget distincts stop in KOk (stop + 1)) start in
    let '(a, b) := if stop =? start then (0, 0) else (start, stop) in
    let* os' := kupd os k a in
    let* op' := kupd op k b in
    KOk (os', op')) (outstarts, outstops).

(* awkward_NumpyArray_copy: memcpy(toptr, fromptr, len) on bytes *)
Definition NumpyArray_copy (toptr fromptr : list Z) (len : Z) : kres (list Z) :=
  kfill 0 len (fun i => kget fromptr i) toptr.

(* awkward_NumpyArray_contiguous_copy_64: memcpy(&toptr[i*stride], &fromptr[pos[i]], stride) *)
Definition NumpyArray_contiguous_copy (toptr fromptr : list Z) (len stride : Z) (pos : list Z) : kres (list Z) :=
  kfor 0 len (fun i out =>
    let* p := kget pos i in
    kfor 0 stride (fun b out => let* x := kget fromptr (p + b) in kupd out (i * stride + b) x) out) toptr.

(* awkward_NumpyArray_getitem_next_null_64: memcpy(&toptr[i*stride], &fromptr[pos[i]*stride], stride) *)
Definition NumpyArray_getitem_next_null (toptr fromptr : list Z) (len stride : Z) (pos : list Z) : kres (list Z) :=
  kfor 0 len (fun i out =>
    let* p := kget pos i in
    kfor 0 stride (fun b out => let* x := kget fromptr (p * stride + b) in kupd out (i * stride + b) x) out) toptr.

(* awkward_NumpyArray_fill_tocomplex<FROM, TO>: real part = value, imaginary part = 0 *)
Definition NumpyArray_fill_tocomplex (toptr : list Z) (tooffset : Z) (fromptr : list Z) (length : Z) : kres (list Z) :=
  kfor 0 length (fun i out =>
    let* x := kget fromptr i in
    let* out := kupd out (tooffset + 2 * i) x in
    kupd out (tooffset + 2 * i + 1) 0) toptr.

(* awkward_NumpyArray_fill_fromcomplex<FROM, TO>: real part only *)
Definition NumpyArray_fill_fromcomplex (tTO : ity) (toptr : list Z) (tooffset : Z) (fromptr : list Z) (length : Z)
  : kres (list Z) :=
  kfill tooffset length (fun i => let* x := kget fromptr (i * 2) in KOk (wrap tTO x)) toptr.

(* awkward_NumpyArray_rearrange_shifted_toint64_fromint64 *)
Definition NumpyArray_rearrange_shifted (toptr shifts : list Z) (length : Z) (offsets : list Z) (offsetslength : Z)
    (parents starts : list Z) : kres (list Z) :=
  let* r := kfor 0 (offsetslength - 1) (fun i st =>
    let* o1 := kget offsets (i + 1) in
    let* o0 := kget offsets i in
    kfor 0 (o1 - o0) (fun _ st =>
      let '(out, k) := st in
      let* cur := kget out k in
      let* out' := kupd out k (cur + o0) in KOk (out', k + 1)) st) (toptr, 0) in
  kfor 0 length (fun i out =>
    let* parent := kget parents i in
    let* start := kget starts parent in
    let* cur := kget out i in
    let* sh := kget shifts cur in
    kupd out i (cur + sh - start)) (fst r).

(* awkward_NumpyArray_subrange_equal<T> *)
Definition NumpyArray_subrange_equal (tmpptr fromstarts fromstops : list Z) (length : Z) (toequal : list Z)
  : kres (list Z) :=
  let* differ := kfor 0 (length - 1) (fun i differ =>
    let* si := kget fromstarts i in
    let* ei := kget fromstops i in
    let leftlen := ei - si in
    kfor (i + 1) (length - 1) (fun ii differ =>
      let* sii := kget fromstarts ii in
      let* eii := kget fromstops ii in
      let rightlen := eii - sii in
      if leftlen =? rightlen then
        (* differ = false; for j: if differs then differ = true, break *)
        kmap fst (kwhile (Z.to_nat leftlen)
          (fun s : bool * Z => negb (fst s) && (snd s <? leftlen))
          (fun s => let j := snd s in
                    let* a := kget tmpptr (si + j) in
                    let* b := kget tmpptr (sii + j) in
                    KOk (negb (a =? b), j + 1))
          (false, 0))
      else KOk differ) differ) true in
  kupd toequal 0 (if differ then 0 else 1).

(* complex reducers: fromptr holds (re, im) pairs *)
Definition reduce_sum_complex (toptr fromptr parents : list Z) (lenparents outlength : Z) : kres (list Z) :=
  let* out0 := kfor 0 outlength (fun i out => let* out := kupd out (i * 2) 0 in kupd out (i * 2 + 1) 0) toptr in
  kfor 0 lenparents (fun i out =>
    let* p := kget parents i in
    let* re := kget fromptr (i * 2) in
    let* im := kget fromptr (i * 2 + 1) in
    let* a := kget out (p * 2) in
    let* out := kupd out (p * 2) (a + re) in
    let* b := kget out (p * 2 + 1) in
    kupd out (p * 2 + 1) (b + im)) out0.

Definition reduce_prod_complex (toptr fromptr parents : list Z) (lenparents outlength : Z) : kres (list Z) :=
  let* out0 := kfor 0 outlength (fun i out => let* out := kupd out (i * 2) 1 in kupd out (i * 2 + 1) 0) toptr in
  kfor 0 lenparents (fun i out =>
    let* p := kget parents i in
    let* re := kget fromptr (i * 2) in
    let* im := kget fromptr (i * 2 + 1) in
    let* a := kget out (p * 2) in
    let* b := kget out (p * 2 + 1) in
    let* out := kupd out (p * 2) (a * re - b * im) in
    kupd out (p * 2 + 1) (a * im + b * re)) out0.

(* lexicographic (re, im) comparison; [lt = true]: min, else max *)
Definition reduce_minmax_complex (lt : bool) (identity : Z) (toptr fromptr parents : list Z) (lenparents outlength : Z)
  : kres (list Z) :=
  let better (x y a b : Z) := if lt then (x <? a) || ((x =? a) && (y <? b)) else (a <? x) || ((x =? a) && (b <? y)) in
  let* out0 := kfor 0 outlength (fun i out => let* out := kupd out (i * 2) identity in kupd out (i * 2 + 1) 0) toptr in
  kfor 0 lenparents (fun i out =>
    let* p := kget parents i in
    let* x := kget fromptr (i * 2) in
    let* y := kget fromptr (i * 2 + 1) in
    let* a := kget out (p * 2) in
    let* b := kget out (p * 2 + 1) in
    if better x y a b then let* out := kupd out (p * 2) x in kupd out (p * 2 + 1) y else KOk out) out0.

Definition reduce_arg_complex (lt : bool) (toptr fromptr parents : list Z) (lenparents outlength : Z) : kres (list Z) :=
  let better (x y a b : Z) := if lt then (x <? a) || ((x =? a) && (y <? b)) else (a <? x) || ((x =? a) && (b <? y)) in
  let* out0 := kfill 0 outlength (fun _ => KOk (-1)) toptr in
  kfor 0 lenparents (fun i out =>
    let* p := kget parents i in
    let* cur := kget out p in
    if cur =? -1 then kupd out p i
    else
      let* x := kget fromptr (i * 2) in
      let* a := kget fromptr (cur * 2) in
      if (if lt then x <? a else a <? x) then kupd out p i
      else if x =? a then
        let* y := kget fromptr (i * 2 + 1) in
        let* b := kget fromptr (cur * 2 + 1) in
        if (if lt then y <? b else b <? y) then kupd out p i else KOk out
      else KOk out) out0.

(* countnonzero / any / all on complex input *)
Definition reduce_bool_complex (tO : ity) (init : Z) (step : Z -> bool -> Z) (toptr fromptr parents : list Z)
    (lenparents outlength : Z) : kres (list Z) :=
  let* out0 := kfill 0 outlength (fun _ => KOk (wrap tO init)) toptr in
  kfor 0 lenparents (fun i out =>
    let* p := kget parents i in
    let* re := kget fromptr (i * 2) in
    let* im := kget fromptr (i * 2 + 1) in
    let* cur := kget out p in
    kupd out p (wrap tO (step cur (negb (re =? 0) || negb (im =? 0))))) out0.
Definition reduce_countnonzero_complex := reduce_bool_complex i64 0 (fun cur nz => cur + (if nz then 1 else 0)).
Definition reduce_sum_bool_complex := reduce_bool_complex TB 0 (fun cur nz => if (cur =? 0) && negb nz then 0 else 1).
Definition reduce_prod_bool_complex := reduce_bool_complex TB 1 (fun cur nz => if (cur =? 0) || negb nz then 0 else 1).

(* awkward_content_reduce_zeroparents_64 *)
Definition content_reduce_zeroparents (toparents : list Z) (length : Z) : kres (list Z) :=
  kfill 0 length (fun _ => KOk 0) toparents.

(* ------------------------------------------------------------------------------------------------ *)
(** * Uniform entry point for the runner: arguments in the order of kernel-specification.yml *)
Inductive val := VI (z : Z) | VL (l : list Z) | VLL (l : list (list Z)).

Inductive kname :=
| K_ListArray_num | K_RegularArray_num | K_ListOffsetArray_flatten_offsets | K_ListArray_compact_offsets
| K_ListOffsetArray_compact_offsets | K_RegularArray_compact_offsets | K_ListArray_broadcast_tooffsets
| K_RegularArray_broadcast_tooffsets | K_RegularArray_broadcast_tooffsets_size1 | K_ListArray_validity
| K_IndexedArray_validity | K_UnionArray_validity | K_regularize_arrayslice | K_ListArray_getitem_next_at
| K_ListArray_getitem_next_range | K_ListArray_getitem_next_range_carrylength | K_ListArray_getitem_next_range_counts
| K_ListArray_getitem_next_range_spreadadvanced | K_ListArray_getitem_next_array | K_ListArray_getitem_next_array_advanced
| K_ListArray_getitem_carry | K_RegularArray_getitem_next_at | K_RegularArray_getitem_next_range
| K_RegularArray_getitem_next_range_spreadadvanced | K_RegularArray_getitem_next_array
| K_RegularArray_getitem_next_array_advanced | K_RegularArray_getitem_next_array_regularize | K_RegularArray_getitem_carry
| K_IndexedArray_getitem_nextcarry | K_IndexedArray_getitem_nextcarry_outindex | K_IndexedArray_flatten_nextcarry
| K_IndexedArray_flatten_none2empty | K_IndexedArray_numnull | K_ByteMaskedArray_getitem_nextcarry
| K_ByteMaskedArray_getitem_nextcarry_outindex | K_ByteMaskedArray_toIndexedOptionArray
| K_BitMaskedArray_to_ByteMaskedArray | K_BitMaskedArray_to_IndexedOptionArray | K_UnionArray_fillna
| K_IndexedArray_local_preparenext | K_ListArray_localindex | K_localindex | K_RegularArray_localindex
| K_ListArray_min_range | K_ListArray_rpad_and_clip_length_axis1 | K_ListArray_rpad_axis1
| K_ListOffsetArray_rpad_length_axis1 | K_ListOffsetArray_rpad_axis1 | K_ListOffsetArray_rpad_and_clip_axis1
| K_RegularArray_rpad_and_clip_axis1 | K_index_rpad_and_clip_axis0 | K_index_rpad_and_clip_axis1
| K_ListArray_combinations_length | K_ListArray_combinations | K_RegularArray_combinations
| K_reduce_local_nextparents | K_reduce_local_outoffsets | K_reduce_nonlocal_maxcount_offsetscopy
| K_reduce_nonlocal_preparenext | K_reduce_nonlocal_nextstarts | K_reduce_nonlocal_findgaps | K_reduce_nonlocal_nextshifts
| K_sorting_ranges | K_sorting_ranges_length | K_reduce_count | K_reduce_sum | K_reduce_prod | K_reduce_countnonzero
| K_reduce_sum_bool | K_reduce_prod_bool | K_reduce_min | K_reduce_max | K_reduce_argmin | K_reduce_argmax
| K_NumpyArray_fill | K_IndexedArray_fill | K_UnionArray_filltags | K_UnionArray_fillindex | K_ListArray_fill | K_unique
| K_reduce_nonlocal_outstartsstops | K_NumpyArray_copy | K_NumpyArray_contiguous_copy | K_NumpyArray_getitem_next_null
| K_NumpyArray_fill_tocomplex | K_NumpyArray_fill_fromcomplex | K_NumpyArray_rearrange_shifted | K_NumpyArray_subrange_equal
| K_reduce_sum_complex | K_reduce_prod_complex | K_reduce_min_complex | K_reduce_max_complex | K_reduce_argmin_complex
| K_reduce_argmax_complex | K_reduce_countnonzero_complex | K_reduce_sum_bool_complex | K_reduce_prod_bool_complex
| K_content_reduce_zeroparents.

Definition ty (ts : list ity) (k : nat) : ity := nth k ts TIdeal.
Definition vb (z : Z) : bool := negb (z =? 0).
Definition o1 (r : kres (list Z)) : kres (list val) := kmap (fun a => [VL a]) r.
Definition o2 (r : kres (list Z * list Z)) : kres (list val) := kmap (fun p => [VL (fst p); VL (snd p)]) r.
Definition o0 (r : kres unit) : kres (list val) := kmap (fun _ => []) r.

Definition run (k : kname) (ts : list ity) (a : list val) : kres (list val) :=
  match k with
  | K_ListArray_num =>
      match a with [VL x; VL s; VL e; VI n] => o1 (ListArray_num (ty ts 0) (ty ts 1) x s e n) | _ => KErr MBadArgs end
  | K_RegularArray_num =>
      match a with [VL x; VI size; VI n] => o1 (RegularArray_num (ty ts 0) x size n) | _ => KErr MBadArgs end
  | K_ListOffsetArray_flatten_offsets =>
      match a with [VL x; VL outer; VI ol; VL inner; VI _] => o1 (ListOffsetArray_flatten_offsets (ty ts 0) x outer ol inner)
      | _ => KErr MBadArgs end
  | K_ListArray_compact_offsets =>
      match a with [VL x; VL s; VL e; VI n] => o1 (ListArray_compact_offsets (ty ts 0) (ty ts 1) x s e n) | _ => KErr MBadArgs end
  | K_ListOffsetArray_compact_offsets =>
      match a with [VL x; VL f; VI n] => o1 (ListOffsetArray_compact_offsets (ty ts 0) x f n) | _ => KErr MBadArgs end
  | K_RegularArray_compact_offsets =>
      match a with [VL x; VI n; VI size] => o1 (RegularArray_compact_offsets (ty ts 0) x n size) | _ => KErr MBadArgs end
  | K_ListArray_broadcast_tooffsets =>
      match a with [VL x; VL f; VI ol; VL s; VL e; VI lc] => o1 (ListArray_broadcast_tooffsets (ty ts 0) x f ol s e lc)
      | _ => KErr MBadArgs end
  | K_RegularArray_broadcast_tooffsets =>
      match a with [VL f; VI ol; VI size] => o0 (RegularArray_broadcast_tooffsets (ty ts 0) f ol size) | _ => KErr MBadArgs end
  | K_RegularArray_broadcast_tooffsets_size1 =>
      match a with [VL x; VL f; VI ol] => o1 (RegularArray_broadcast_tooffsets_size1 (ty ts 0) x f ol) | _ => KErr MBadArgs end
  | K_ListArray_validity =>
      match a with [VL s; VL e; VI n; VI lc] => o0 (ListArray_validity s e n lc) | _ => KErr MBadArgs end
  | K_IndexedArray_validity =>
      match a with [VL ix; VI n; VI lc; VI opt] => o0 (IndexedArray_validity ix n lc (vb opt)) | _ => KErr MBadArgs end
  | K_UnionArray_validity =>
      match a with [VL tg; VL ix; VI n; VI nc; VL lens] => o0 (UnionArray_validity tg ix n nc lens) | _ => KErr MBadArgs end
  | K_regularize_arrayslice =>
      match a with [VL f; VI lf; VI n] => o1 (regularize_arrayslice (ty ts 0) f lf n) | _ => KErr MBadArgs end
  | K_ListArray_getitem_next_at =>
      match a with [VL x; VL s; VL e; VI n; VI at_] => o1 (ListArray_getitem_next_at (ty ts 0) (ty ts 1) x s e n at_)
      | _ => KErr MBadArgs end
  | K_ListArray_getitem_next_range =>
      match a with [VL off; VL c; VL s; VL e; VI n; VI start; VI stop; VI step] =>
        o2 (ListArray_getitem_next_range (ty ts 0) (ty ts 1) off c s e n start stop step) | _ => KErr MBadArgs end
  | K_ListArray_getitem_next_range_carrylength =>
      match a with [VL c; VL s; VL e; VI n; VI start; VI stop; VI step] =>
        o1 (ListArray_getitem_next_range_carrylength (ty ts 1) c s e n start stop step) | _ => KErr MBadArgs end
  | K_ListArray_getitem_next_range_counts =>
      match a with [VL t; VL f; VI n] => o1 (ListArray_getitem_next_range_counts (ty ts 1) t f n) | _ => KErr MBadArgs end
  | K_ListArray_getitem_next_range_spreadadvanced =>
      match a with [VL x; VL fa; VL fo; VI n] => o1 (ListArray_getitem_next_range_spreadadvanced (ty ts 2) x fa fo n)
      | _ => KErr MBadArgs end
  | K_ListArray_getitem_next_array =>
      match a with [VL c; VL ad; VL s; VL e; VL arr; VI n; VI la; VI lc] => o2 (ListArray_getitem_next_array c ad s e arr n la lc)
      | _ => KErr MBadArgs end
  | K_ListArray_getitem_next_array_advanced =>
      match a with [VL c; VL ad; VL s; VL e; VL arr; VL fadv; VI n; VI la; VI lc] =>
        o2 (ListArray_getitem_next_array_advanced c ad s e arr fadv n la lc) | _ => KErr MBadArgs end
  | K_ListArray_getitem_carry =>
      match a with [VL ts_; VL tp; VL s; VL e; VL c; VI ls; VI lc] => o2 (ListArray_getitem_carry (ty ts 0) ts_ tp s e c ls lc)
      | _ => KErr MBadArgs end
  | K_RegularArray_getitem_next_at =>
      match a with [VL c; VI at_; VI n; VI size] => o1 (RegularArray_getitem_next_at c at_ n size) | _ => KErr MBadArgs end
  | K_RegularArray_getitem_next_range =>
      match a with [VL c; VI rs; VI step; VI n; VI size; VI ns] => o1 (RegularArray_getitem_next_range c rs step n size ns)
      | _ => KErr MBadArgs end
  | K_RegularArray_getitem_next_range_spreadadvanced =>
      match a with [VL x; VL fa; VI n; VI ns] => o1 (RegularArray_getitem_next_range_spreadadvanced x fa n ns) | _ => KErr MBadArgs end
  | K_RegularArray_getitem_next_array =>
      match a with [VL c; VL ad; VL arr; VI n; VI la; VI size] => o2 (RegularArray_getitem_next_array c ad arr n la size)
      | _ => KErr MBadArgs end
  | K_RegularArray_getitem_next_array_advanced =>
      match a with [VL c; VL ad; VL fadv; VL arr; VI n; VI la; VI size] =>
        o2 (RegularArray_getitem_next_array_advanced c ad fadv arr n la size) | _ => KErr MBadArgs end
  | K_RegularArray_getitem_next_array_regularize =>
      match a with [VL x; VL arr; VI la; VI size] => o1 (RegularArray_getitem_next_array_regularize x arr la size) | _ => KErr MBadArgs end
  | K_RegularArray_getitem_carry =>
      match a with [VL x; VL c; VI lc; VI size] => o1 (RegularArray_getitem_carry x c lc size) | _ => KErr MBadArgs end
  | K_IndexedArray_getitem_nextcarry =>
      match a with [VL x; VL ix; VI n; VI lc] => o1 (IndexedArray_getitem_nextcarry x ix n lc) | _ => KErr MBadArgs end
  | K_IndexedArray_getitem_nextcarry_outindex =>
      match a with [VL x; VL ti; VL ix; VI n; VI lc] => o2 (IndexedArray_getitem_nextcarry_outindex (ty ts 1) x ti ix n lc)
      | _ => KErr MBadArgs end
  | K_IndexedArray_flatten_nextcarry =>
      match a with [VL x; VL ix; VI n; VI lc] => o1 (IndexedArray_flatten_nextcarry x ix n lc) | _ => KErr MBadArgs end
  | K_IndexedArray_flatten_none2empty =>
      match a with [VL x; VL oi; VI ol; VL off; VI offl] => o1 (IndexedArray_flatten_none2empty (ty ts 0) x oi ol off offl)
      | _ => KErr MBadArgs end
  | K_IndexedArray_numnull =>
      match a with [VL x; VL ix; VI n] => o1 (IndexedArray_numnull x ix n) | _ => KErr MBadArgs end
  | K_ByteMaskedArray_getitem_nextcarry =>
      match a with [VL x; VL m; VI n; VI vw] => o1 (ByteMaskedArray_getitem_nextcarry x m n (vb vw)) | _ => KErr MBadArgs end
  | K_ByteMaskedArray_getitem_nextcarry_outindex =>
      match a with [VL x; VL oi; VL m; VI n; VI vw] => o2 (ByteMaskedArray_getitem_nextcarry_outindex x oi m n (vb vw))
      | _ => KErr MBadArgs end
  | K_ByteMaskedArray_toIndexedOptionArray =>
      match a with [VL x; VL m; VI n; VI vw] => o1 (ByteMaskedArray_toIndexedOptionArray x m n (vb vw)) | _ => KErr MBadArgs end
  | K_BitMaskedArray_to_ByteMaskedArray =>
      match a with [VL x; VL m; VI n; VI vw; VI lsb] => o1 (BitMaskedArray_to_ByteMaskedArray x m n (vb vw) (vb lsb))
      | _ => KErr MBadArgs end
  | K_BitMaskedArray_to_IndexedOptionArray =>
      match a with [VL x; VL m; VI n; VI vw; VI lsb] => o1 (BitMaskedArray_to_IndexedOptionArray x m n (vb vw) (vb lsb))
      | _ => KErr MBadArgs end
  | K_UnionArray_fillna =>
      match a with [VL x; VL ix; VI n] => o1 (UnionArray_fillna (ty ts 0) x ix n) | _ => KErr MBadArgs end
  | K_IndexedArray_local_preparenext =>
      match a with [VL x; VL st; VL p; VI pl; VL np; VI nl] => o1 (IndexedArray_local_preparenext x st p pl np nl) | _ => KErr MBadArgs end
  | K_ListArray_localindex =>
      match a with [VL x; VL off; VI n] => o1 (ListArray_localindex x off n) | _ => KErr MBadArgs end
  | K_localindex =>
      match a with [VL x; VI n] => o1 (localindex (ty ts 0) x n) | _ => KErr MBadArgs end
  | K_RegularArray_localindex =>
      match a with [VL x; VI size; VI n] => o1 (RegularArray_localindex x size n) | _ => KErr MBadArgs end
  | K_ListArray_min_range =>
      match a with [VL x; VL s; VL e; VI n] => o1 (ListArray_min_range (ty ts 1) x s e n) | _ => KErr MBadArgs end
  | K_ListArray_rpad_and_clip_length_axis1 =>
      match a with [VL x; VL s; VL e; VI t; VI n] => o1 (ListArray_rpad_and_clip_length_axis1 (ty ts 1) x s e t n) | _ => KErr MBadArgs end
  | K_ListArray_rpad_axis1 =>
      match a with [VL ti; VL s; VL e; VL ts_; VL tp; VI t; VI n] =>
        kmap (fun r => let '(a1, a2, a3) := r in [VL a1; VL a2; VL a3]) (ListArray_rpad_axis1 (ty ts 1) ti s e ts_ tp t n)
      | _ => KErr MBadArgs end
  | K_ListOffsetArray_rpad_length_axis1 =>
      match a with [VL x; VL f; VI n; VI t; VL tl] => o2 (ListOffsetArray_rpad_length_axis1 (ty ts 0) x f n t tl) | _ => KErr MBadArgs end
  | K_ListOffsetArray_rpad_axis1 =>
      match a with [VL x; VL f; VI n; VI t] => o1 (ListOffsetArray_rpad_axis1 x f n t) | _ => KErr MBadArgs end
  | K_ListOffsetArray_rpad_and_clip_axis1 =>
      match a with [VL x; VL f; VI n; VI t] => o1 (ListOffsetArray_rpad_and_clip_axis1 x f n t) | _ => KErr MBadArgs end
  | K_RegularArray_rpad_and_clip_axis1 =>
      match a with [VL x; VI t; VI size; VI n] => o1 (RegularArray_rpad_and_clip_axis1 x t size n) | _ => KErr MBadArgs end
  | K_index_rpad_and_clip_axis0 =>
      match a with [VL x; VI t; VI n] => o1 (index_rpad_and_clip_axis0 x t n) | _ => KErr MBadArgs end
  | K_index_rpad_and_clip_axis1 =>
      match a with [VL s; VL e; VI t; VI n] => o2 (index_rpad_and_clip_axis1 s e t n) | _ => KErr MBadArgs end
  | K_ListArray_combinations_length =>
      match a with [VL tl; VL to; VI n; VI r; VL s; VL e; VI len] =>
        o2 (ListArray_combinations_length (ty ts 4) tl to n (vb r) s e len) | _ => KErr MBadArgs end
  | K_ListArray_combinations =>
      match a with [VLL tc; VL ti; VL fi; VI n; VI r; VL s; VL e; VI len] =>
        kmap (fun st => let '(a1, a2, a3) := st in [VLL a1; VL a2; VL a3]) (ListArray_combinations tc ti fi n (vb r) s e len)
      | _ => KErr MBadArgs end
  | K_RegularArray_combinations =>
      match a with [VLL tc; VL ti; VL fi; VI n; VI r; VI size; VI len] =>
        kmap (fun st => let '(a1, a2, a3) := st in [VLL a1; VL a2; VL a3]) (RegularArray_combinations tc ti fi n (vb r) size len)
      | _ => KErr MBadArgs end
  | K_reduce_local_nextparents =>
      match a with [VL x; VL off; VI n] => o1 (reduce_local_nextparents x off n) | _ => KErr MBadArgs end
  | K_reduce_local_outoffsets =>
      match a with [VL x; VL p; VI lp; VI ol] => o1 (reduce_local_outoffsets x p lp ol) | _ => KErr MBadArgs end
  | K_reduce_nonlocal_maxcount_offsetscopy =>
      match a with [VL m; VL c; VL off; VI n] => o2 (reduce_nonlocal_maxcount_offsetscopy m c off n) | _ => KErr MBadArgs end
  | K_reduce_nonlocal_preparenext =>
      match a with [VL nc; VL np; VI nl; VL mx; VL d; VI dl; VL oc; VL off; VI n; VL p; VI mc] =>
        kmap (fun r => let '(a1, a2, a3, a4, a5) := r in [VL a1; VL a2; VL a3; VL a4; VL a5])
             (reduce_nonlocal_preparenext nc np nl mx d dl oc off n p mc)
      | _ => KErr MBadArgs end
  | K_reduce_nonlocal_nextstarts =>
      match a with [VL x; VL np; VI nl] => o1 (reduce_nonlocal_nextstarts x np nl) | _ => KErr MBadArgs end
  | K_reduce_nonlocal_findgaps =>
      match a with [VL x; VL p; VI lp] => o1 (reduce_nonlocal_findgaps x p lp) | _ => KErr MBadArgs end
  | K_reduce_nonlocal_nextshifts =>
      match a with [VL nm; VL ms; VL ns; VL off; VI n; VL st; VL p; VI mc; VI nl; VL nc] =>
        kmap (fun r => let '(a1, a2, a3) := r in [VL a1; VL a2; VL a3]) (reduce_nonlocal_nextshifts nm ms ns off n st p mc nl nc)
      | _ => KErr MBadArgs end
  | K_sorting_ranges =>
      match a with [VL x; VI tl; VL p; VI pl] => o1 (sorting_ranges x tl p pl) | _ => KErr MBadArgs end
  | K_sorting_ranges_length =>
      match a with [VL x; VL p; VI pl] => o1 (sorting_ranges_length x p pl) | _ => KErr MBadArgs end
  | K_reduce_count =>
      match a with [VL x; VL p; VI lp; VI ol] => o1 (reduce_count x p lp ol) | _ => KErr MBadArgs end
  | K_reduce_sum =>
      match a with [VL x; VL f; VL p; VI lp; VI ol] => o1 (reduce_sum (ty ts 0) x f p lp ol) | _ => KErr MBadArgs end
  | K_reduce_prod =>
      match a with [VL x; VL f; VL p; VI lp; VI ol] => o1 (reduce_prod (ty ts 0) x f p lp ol) | _ => KErr MBadArgs end
  | K_reduce_countnonzero =>
      match a with [VL x; VL f; VL p; VI lp; VI ol] => o1 (reduce_countnonzero x f p lp ol) | _ => KErr MBadArgs end
  | K_reduce_sum_bool =>
      match a with [VL x; VL f; VL p; VI lp; VI ol] => o1 (reduce_sum_bool x f p lp ol) | _ => KErr MBadArgs end
  | K_reduce_prod_bool =>
      match a with [VL x; VL f; VL p; VI lp; VI ol] => o1 (reduce_prod_bool x f p lp ol) | _ => KErr MBadArgs end
  | K_reduce_min =>
      match a with [VL x; VL f; VL p; VI lp; VI ol; VI idn] => o1 (reduce_min (ty ts 0) idn x f p lp ol) | _ => KErr MBadArgs end
  | K_reduce_max =>
      match a with [VL x; VL f; VL p; VI lp; VI ol; VI idn] => o1 (reduce_max (ty ts 0) idn x f p lp ol) | _ => KErr MBadArgs end
  | K_reduce_argmin =>
      match a with [VL x; VL f; VL p; VI lp; VI ol] => o1 (reduce_argmin x f p lp ol) | _ => KErr MBadArgs end
  | K_reduce_argmax =>
      match a with [VL x; VL f; VL p; VI lp; VI ol] => o1 (reduce_argmax x f p lp ol) | _ => KErr MBadArgs end
  | K_NumpyArray_fill =>
      match a with [VL x; VI off; VL f; VI n] => o1 (NumpyArray_fill (ty ts 0) x off f n) | _ => KErr MBadArgs end
  | K_IndexedArray_fill =>
      match a with [VL x; VI off; VL f; VI n; VI base] => o1 (IndexedArray_fill (ty ts 0) x off f n base) | _ => KErr MBadArgs end
  | K_UnionArray_filltags =>
      match a with [VL x; VI off; VL f; VI n; VI base] => o1 (UnionArray_filltags (ty ts 0) x off f n base) | _ => KErr MBadArgs end
  | K_UnionArray_fillindex =>
      match a with [VL x; VI off; VL f; VI n] => o1 (UnionArray_fillindex (ty ts 0) x off f n) | _ => KErr MBadArgs end
  | K_ListArray_fill =>
      match a with [VL s; VI so; VL e; VI eo; VL fs; VL fe; VI n; VI base] => o2 (ListArray_fill (ty ts 0) s so e eo fs fe n base)
      | _ => KErr MBadArgs end
  | K_unique =>
      match a with [VL x; VI n; VL tl] => o2 (unique x n tl) | _ => KErr MBadArgs end
  | K_reduce_nonlocal_outstartsstops =>
      match a with [VL os; VL op; VL d; VI ld; VL _; VI ol] => o2 (reduce_nonlocal_outstartsstops os op d ld ol) | _ => KErr MBadArgs end
  | K_NumpyArray_copy =>
      match a with [VL x; VL f; VI n] => o1 (NumpyArray_copy x f n) | _ => KErr MBadArgs end
  | K_NumpyArray_contiguous_copy =>
      match a with [VL x; VL f; VI n; VI st; VL pos] => o1 (NumpyArray_contiguous_copy x f n st pos) | _ => KErr MBadArgs end
  | K_NumpyArray_getitem_next_null =>
      match a with [VL x; VL f; VI n; VI st; VL pos] => o1 (NumpyArray_getitem_next_null x f n st pos) | _ => KErr MBadArgs end
  | K_NumpyArray_fill_tocomplex =>
      match a with [VL x; VI off; VL f; VI n] => o1 (NumpyArray_fill_tocomplex x off f n) | _ => KErr MBadArgs end
  | K_NumpyArray_fill_fromcomplex =>
      match a with [VL x; VI off; VL f; VI n] => o1 (NumpyArray_fill_fromcomplex (ty ts 0) x off f n) | _ => KErr MBadArgs end
  | K_NumpyArray_rearrange_shifted =>
      match a with [VL x; VL sh; VI n; VL off; VI ol; VL p; VI _; VL st; VI _] => o1 (NumpyArray_rearrange_shifted x sh n off ol p st)
      | _ => KErr MBadArgs end
  | K_NumpyArray_subrange_equal =>
      match a with [VL t; VL s; VL e; VI n; VL eq] => o2 (kmap (fun r => (t, r)) (NumpyArray_subrange_equal t s e n eq)) | _ => KErr MBadArgs end
  | K_reduce_sum_complex =>
      match a with [VL x; VL f; VL p; VI lp; VI ol] => o1 (reduce_sum_complex x f p lp ol) | _ => KErr MBadArgs end
  | K_reduce_prod_complex =>
      match a with [VL x; VL f; VL p; VI lp; VI ol] => o1 (reduce_prod_complex x f p lp ol) | _ => KErr MBadArgs end
  | K_reduce_min_complex =>
      match a with [VL x; VL f; VL p; VI lp; VI ol; VI idn] => o1 (reduce_minmax_complex true idn x f p lp ol) | _ => KErr MBadArgs end
  | K_reduce_max_complex =>
      match a with [VL x; VL f; VL p; VI lp; VI ol; VI idn] => o1 (reduce_minmax_complex false idn x f p lp ol) | _ => KErr MBadArgs end
  | K_reduce_argmin_complex =>
      match a with [VL x; VL f; VL p; VI lp; VI ol] => o1 (reduce_arg_complex true x f p lp ol) | _ => KErr MBadArgs end
  | K_reduce_argmax_complex =>
      match a with [VL x; VL f; VL p; VI lp; VI ol] => o1 (reduce_arg_complex false x f p lp ol) | _ => KErr MBadArgs end
  | K_reduce_countnonzero_complex =>
      match a with [VL x; VL f; VL p; VI lp; VI ol] => o1 (reduce_countnonzero_complex x f p lp ol) | _ => KErr MBadArgs end
  | K_reduce_sum_bool_complex =>
      match a with [VL x; VL f; VL p; VI lp; VI ol] => o1 (reduce_sum_bool_complex x f p lp ol) | _ => KErr MBadArgs end
  | K_reduce_prod_bool_complex =>
      match a with [VL x; VL f; VL p; VI lp; VI ol] => o1 (reduce_prod_bool_complex x f p lp ol) | _ => KErr MBadArgs end
  | K_content_reduce_zeroparents =>
      match a with [VL x; VI n] => o1 (content_reduce_zeroparents x n) | _ => KErr MBadArgs end
  end.
