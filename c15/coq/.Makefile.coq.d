Json.vo Json.glob Json.v.beautified Json.required_vo: Json.v /verif/coq/Base.vo /verif/coq/Layout.vo /verif/coq/Valid.vo
Json.vio: Json.v /verif/coq/Base.vio /verif/coq/Layout.vio /verif/coq/Valid.vio
Json.vos Json.vok Json.required_vos: Json.v /verif/coq/Base.vos /verif/coq/Layout.vos /verif/coq/Valid.vos
Proofs_C15.vo Proofs_C15.glob Proofs_C15.v.beautified Proofs_C15.required_vo: Proofs_C15.v /verif/coq/Base.vo /verif/coq/Layout.vo /verif/coq/LayoutInd.vo /verif/coq/Valid.vo Json.vo /verif/coq/Proofs_C11.vo
Proofs_C15.vio: Proofs_C15.v /verif/coq/Base.vio /verif/coq/Layout.vio /verif/coq/LayoutInd.vio /verif/coq/Valid.vio Json.vio /verif/coq/Proofs_C11.vio
Proofs_C15.vos Proofs_C15.vok Proofs_C15.required_vos: Proofs_C15.v /verif/coq/Base.vos /verif/coq/Layout.vos /verif/coq/LayoutInd.vos /verif/coq/Valid.vos Json.vos /verif/coq/Proofs_C11.vos
Props_C15.vo Props_C15.glob Props_C15.v.beautified Props_C15.required_vo: Props_C15.v /verif/coq/Base.vo /verif/coq/Layout.vo /verif/coq/Valid.vo Json.vo Proofs_C15.vo
Props_C15.vio: Props_C15.v /verif/coq/Base.vio /verif/coq/Layout.vio /verif/coq/Valid.vio Json.vio Proofs_C15.vio
Props_C15.vos Props_C15.vok Props_C15.required_vos: Props_C15.v /verif/coq/Base.vos /verif/coq/Layout.vos /verif/coq/Valid.vos Json.vos Proofs_C15.vos
Extract_C15.vo Extract_C15.glob Extract_C15.v.beautified Extract_C15.required_vo: Extract_C15.v /verif/coq/Layout.vo /verif/coq/Valid.vo Json.vo
Extract_C15.vio: Extract_C15.v /verif/coq/Layout.vio /verif/coq/Valid.vio Json.vio
Extract_C15.vos Extract_C15.vok Extract_C15.required_vos: Extract_C15.v /verif/coq/Layout.vos /verif/coq/Valid.vos Json.vos
