(** C17b, where the element of each node class comes from, and which item it is:
    option nodes -> None exactly where the option index is negative, else the content's element and one of the
    content's items; IndexedArray -> the content's element at index[i], same items; UnionArray -> the element
    index[i] of the alternative tags[i], one of THAT alternative's items (which are among the union's);
    RecordArray -> the record of the i-th elements of the fields, the single item IRecord of the record type. *)
From Coq Require Import ZArith List Bool Lia ZifyBool String.
From AwkV Require Import Base Layout LayoutInd Valid Types Carry AtAxis Proofs_Lists Proofs_ToList
                         Proofs_Carry Proofs_Fillna Proofs_C11.
From AwkTypes Require Import Json Forms TypeStr Typing Proofs_Depth Proofs_Types Proofs_Typing Examples_C17
                             Proofs_C17b_Elem.
Import ListNotations.
Open Scope Z_scope.
Ltac Zify.zify_post_hook ::= Z.to_euclidean_division_equations.

(* ---------------------------------------------------------------- option nodes (all four encodings) *)
Lemma option_content_valid c : is_option_node c = true -> Valid None c -> Valid None (option_content c).
Proof. intros Hc HV. destruct c; try discriminate Hc; inversion HV; subst; assumption. Qed.

Lemma option_items ts c : is_option_node c = true ->
  item_types ts (form_of c) = do l <- item_types ts (form_of (option_content c)); Ok (INone :: l).
Proof. intros Hc. destruct c; try discriminate Hc; reflexivity. Qed.

Theorem option_element_thm c vs i v :
  is_option_node c = true -> Valid None c -> to_list c = Ok vs -> get vs i = Ok v ->
  exists ix vs0 j, option_index c = Ok (ix, option_content c) /\ get ix i = Ok j /\
    to_list (option_content c) = Ok vs0 /\
    (if j <? 0 then v = VNone
     else get vs0 j = Ok v /\ has_type (type_of (option_content c)) v /\
          forall ts l, item_types ts (form_of (option_content c)) = Ok l -> existsb (fun it => item_matches it v) l = true) /\
    (forall ts, item_types ts (form_of c) = do l <- item_types ts (form_of (option_content c)); Ok (INone :: l)).
Proof.
  intros Hc HV Hl Hg. destruct (option_index_spec c vs Hc Hl) as (ix & vs0 & Hoi & Hl0 & Hpick).
  rewrite (mapM_get _ _ _ i Hpick) in Hg. apply bind_Ok in Hg as (j & Hj & Hp).
  exists ix, vs0, j. split; [exact Hoi|]. split; [exact Hj|]. split; [exact Hl0|]. split; [|intros ts; exact (option_items ts c Hc)].
  pose proof (option_content_valid c Hc HV) as HV0.
  unfold pick_opt in Hp. destruct (j <? 0) eqn:E.
  - destruct (0 <=? j) eqn:E2; [lia|]. inversion Hp. reflexivity.
  - destruct (0 <=? j) eqn:E2; [|lia]. split; [exact Hp|].
    pose proof (to_list_typed_thm _ _ HV0 Hl0) as HT. rewrite Forall_forall in HT.
    split; [exact (HT v (get_In _ _ _ Hp))|].
    intros ts l Hit. exact (getitem_at_type_thm _ vs0 j v ts l HV0 Hl0 Hp Hit).
Qed.

(* ---------------------------------------------------------------- IndexedArray *)
Theorem indexed_element_thm w ix c0 vs i v :
  Valid None (Indexed w ix c0) -> to_list (Indexed w ix c0) = Ok vs -> get vs i = Ok v ->
  exists j vs0, get ix i = Ok j /\ to_list c0 = Ok vs0 /\ get vs0 j = Ok v /\ has_type (type_of c0) v /\
    type_of (Indexed w ix c0) = type_of c0 /\
    forall ts, item_types ts (form_of (Indexed w ix c0)) = item_types ts (form_of c0).
Proof.
  intros HV Hl Hg. inversion HV; subst. rewrite to_list_Indexed in Hl. apply bind_Ok in Hl as (vs0 & Hl0 & Hm).
  rewrite (mapM_get _ _ _ i Hm) in Hg. apply bind_Ok in Hg as (j & Hj & Hv).
  exists j, vs0. split; [exact Hj|]. split; [exact Hl0|]. split; [exact Hv|].
  match goal with H0 : Valid None c0 |- _ => pose proof (to_list_typed_thm _ _ H0 Hl0) as HT end.
  rewrite Forall_forall in HT. split; [exact (HT v (get_In _ _ _ Hv))|]. split; reflexivity.
Qed.

(* ---------------------------------------------------------------- UnionArray *)
Lemma mapM_id_get {A} (F : form -> res A) (fs : list form) ll tg f :
  mapM_id (map F fs) = Ok ll -> get fs tg = Ok f -> exists l, F f = Ok l /\ get ll tg = Ok l.
Proof.
  revert ll tg. induction fs as [|f0 fs IH]; intros ll tg H Hg; [rewrite get_nil in Hg; discriminate|].
  cbn [map mapM_id] in H. apply bind_Ok in H as (l0 & Hl0 & H). apply bind_Ok in H as (ll' & Hll & H). inversion H; subst.
  pose proof (get_range _ _ _ Hg) as Hr. destruct (Z.eq_dec tg 0) as [->|Hn].
  - rewrite get_cons_0 in Hg. inversion Hg; subst. exists l0. split; [exact Hl0|apply get_cons_0].
  - rewrite get_cons_pos in Hg by lia. destruct (IH ll' (tg - 1) Hll Hg) as (l & Hl & Hgl).
    exists l. split; [exact Hl|]. rewrite get_cons_pos by lia. exact Hgl.
Qed.

Lemma In_concat_get {A} (ll : list (list A)) tg l x : get ll tg = Ok l -> In x l -> In x (concat ll).
Proof. intros Hg Hx. apply in_concat. exists l. split; [exact (get_In _ _ _ Hg)|exact Hx]. Qed.

Theorem union_element_thm w t ix cs vs i v :
  Valid None (Union w t ix cs) -> to_list (Union w t ix cs) = Ok vs -> get vs i = Ok v ->
  exists tg j ci vsi, get t i = Ok tg /\ get ix i = Ok j /\ get cs tg = Ok ci /\ Valid None ci /\
    to_list ci = Ok vsi /\ get vsi j = Ok v /\ has_type (type_of ci) v /\
    (forall ts l, item_types ts (form_of ci) = Ok l -> existsb (fun it => item_matches it v) l = true) /\
    (forall ts l lu, item_types ts (form_of ci) = Ok l -> item_types ts (form_of (Union w t ix cs)) = Ok lu -> incl l lu).
Proof.
  intros HV Hl Hg. inversion HV; subst. rewrite to_list_Union in Hl. apply bind_Ok in Hl as (vss & Hvss & Hl).
  destruct (zlen ix <? zlen t); [discriminate|]. rewrite all_lists_mapM in Hvss.
  rewrite (mapM_get _ _ _ i Hl) in Hg. apply bind_Ok in Hg as ([tg j] & Hz & Hg).
  rewrite get_zip in Hz. apply bind_Ok in Hz as (tg' & Htg & Hz). apply bind_Ok in Hz as (j' & Hj & Hz). inversion Hz; subst tg' j'.
  apply bind_Ok in Hg as (vsi & Hvsi & Hv).
  rewrite (mapM_get _ _ _ tg Hvss) in Hvsi. apply bind_Ok in Hvsi as (ci & Hci & Hlci).
  match goal with HF : Forall (Valid None) cs |- _ => rewrite Forall_forall in HF; pose proof (HF ci (get_In _ _ _ Hci)) as HVi end.
  exists tg, j, ci, vsi. split; [exact Htg|]. split; [exact Hj|]. split; [exact Hci|]. split; [exact HVi|].
  split; [exact Hlci|]. split; [exact Hv|].
  pose proof (to_list_typed_thm _ _ HVi Hlci) as HT. rewrite Forall_forall in HT.
  split; [exact (HT v (get_In _ _ _ Hv))|].
  split; [intros ts l Hit; exact (getitem_at_type_thm ci vsi j v ts l HVi Hlci Hv Hit)|].
  intros ts l lu Hit Hu. unfold form_of in Hu. cbn [form_of_p item_types] in Hu. apply bind_Ok in Hu as (ll & Hll & Hu).
  inversion Hu; subst lu.
  assert (Hgf : get (map (form_of_p None None) cs) tg = Ok (form_of ci)) by (rewrite get_map, Hci; reflexivity).
  destruct (mapM_id_get (item_types ts) _ ll tg _ Hll Hgf) as (l' & Hl' & Hgl). rewrite Hit in Hl'. inversion Hl'; subst l'.
  intros x Hx. exact (In_concat_get ll tg l x Hgl Hx).
Qed.

(* ---------------------------------------------------------------- RecordArray *)
Theorem record_element_thm cs ks n vs i v :
  Valid None (Record cs ks n) -> to_list (Record cs ks n) = Ok vs -> get vs i = Ok v ->
  0 <= i < n /\
  exists ws, mapM (fun c => do col <- to_list c; get col i) cs = Ok ws /\
    v = match ks with Some k => VRec (zip k ws) | None => VTup ws end /\
    has_type (type_of (Record cs ks n)) v /\
    forall ts, item_types ts (form_of (Record cs ks n)) = do t <- type_of_form ts (form_of (Record cs ks n)); Ok [IRecord t].
Proof.
  intros HV Hl Hg. pose proof (to_list_typed_thm _ _ HV Hl) as HT. rewrite Forall_forall in HT.
  pose proof (HT v (get_In _ _ _ Hg)) as Hty.
  pose proof (get_range _ _ _ Hg) as Hr. rewrite (to_list_len _ _ Hl) in Hr. cbn [clen] in Hr. split; [exact Hr|].
  rewrite to_list_Record in Hl. apply bind_Ok in Hl as (vss & Hvss & Hl). destruct (n <? 0); [discriminate|].
  rewrite all_lists_mapM in Hvss.
  rewrite (mapM_get _ _ _ i Hl) in Hg. rewrite get_iota in Hg by exact Hr. cbn [bind] in Hg.
  unfold row in Hg. apply bind_Ok in Hg as (ws & Hws & Hg).
  exists ws. split.
  - rewrite <- Hws. rewrite (mapM_mapM _ _ _ _ Hvss). reflexivity.
  - split; [|split; [exact Hty|intros ts; reflexivity]].
    destruct ks as [k|]; [|inversion Hg; reflexivity].
    destruct (Nat.eqb (length k) (length ws)); [inversion Hg; reflexivity|discriminate].
Qed.

(* ---------------------------------------------------------------- strings and bytestrings *)
(* an array of strings: every element is a string unit of the right kind; the single item is the uint8 leaf type
   carrying __array__ = "char" (resp. "byte"), with the leaf node's own record name if any *)
Definition char_kind (k : akind) : akind := match k with AString => AChar | _ => AByte end.

Theorem string_element_thm k r c0 vs i v :
  is_strk (Some k) = true -> Valid None (Par (Some k) r c0) -> to_list (Par (Some k) r c0) = Ok vs -> get vs i = Ok v ->
  exists s rn, v = VStr (match k with AString => true | _ => false end) s /\
    forall ts, item_types ts (form_of (Par (Some k) r c0)) =
      Ok [TypeStr.IArray (RNum (params_of (Some (char_kind k)) rn) (gettypestr (params_of (Some (char_kind k)) rn) ts) (FD DUInt8))].
Proof.
  intros Hk HV Hl Hg. pose proof (to_list_typed_thm _ _ HV Hl) as HT. rewrite Forall_forall in HT.
  pose proof (HT v (get_In _ _ _ Hg)) as Hty. unfold has_type, type_of in Hty. cbn [type_of_p] in Hty.
  inversion HV as [? ? ? _ HVc| | | | | | | | | | | |]; subst.
  assert (Hp : ParamOk (Some k) c0) by (inversion HVc; subst; assumption).
  destruct k; try discriminate Hk; cbn [ParamOk] in Hp; destruct Hp as (cc & rn & n & d & Hcc & ->);
    destruct c0; try discriminate Hcc; cbn [list_content] in Hcc; inversion Hcc; subst;
    cbn [type_of_p strflag has_typeb] in Hty; destruct v; try discriminate Hty;
    apply andb_true_iff in Hty as [Hi _]; destruct isstr; try discriminate Hi;
    exists s, rn; (split; [reflexivity|]); intros ts; reflexivity.
Qed.

(* ---------------------------------------------------------------- examples *)
(* ex_items_layout: union of (option of 2-d numbers), (tuples), (strings), (booleans through an IndexedArray) *)
Example ex_union_element : forall i v,
  get [VList [VNum (DZ 1); VNum (DZ 2)]; VTup [VNum (DZ 7)]; VStr true [104; 105]; VBool false; VNone] i = Ok v ->
  exists tg j ci vsi, get [0; 1; 2; 3; 0] i = Ok tg /\ get [0; 0; 0; 1; 1] i = Ok j /\
    to_list ci = Ok vsi /\ get vsi j = Ok v /\ has_type (type_of ci) v.
Proof.
  intros i v Hg.
  destruct (union_element_thm I64 [0; 1; 2; 3; 0] [0; 0; 0; 1; 1] _ _ i v ex_items_valid (proj1 ex_items_list) Hg)
    as (tg & j & ci & vsi & H1 & H2 & _ & _ & H5 & H6 & H7 & _).
  exists tg, j, ci, vsi. auto.
Qed.

Example ex_option_element :
  let c := BitMasked [5] true true 3 (Numpy DInt64 [3; 2] [DZ 1; DZ 2; DZ 3; DZ 4; DZ 5; DZ 6]) in
  validb None c = true /\ option_index c = Ok ([0; -1; 2], Numpy DInt64 [3; 2] [DZ 1; DZ 2; DZ 3; DZ 4; DZ 5; DZ 6]) /\
  to_list c = Ok [VList [VNum (DZ 1); VNum (DZ 2)]; VNone; VList [VNum (DZ 5); VNum (DZ 6)]] /\
  exists t, item_types [] (form_of c) = Ok [INone; TypeStr.IArray t] /\ erase t = TNum DInt64.
Proof. split; [reflexivity|]. split; [reflexivity|]. split; [reflexivity|]. eexists. split; reflexivity. Qed.

Example ex_string_element :
  let c := Par (Some ABytestring) None (ListA I64 [1; 0] [3; 1] (Par (Some AByte) (Some [66]) (Numpy DUInt8 [3] [DZ 1; DZ 2; DZ 3]))) in
  validb None c = true /\ to_list c = Ok [VStr false [2; 3]; VStr false [1]] /\
  item_types [] (form_of c) = Ok [TypeStr.IArray (RNum [(k_array, JStr s_byte); (k_record, JStr [66])] [] (FD DUInt8))].
Proof. split; [reflexivity|]. split; reflexivity. Qed.
