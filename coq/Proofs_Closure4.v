(** C11 (closure), part 4: sort / argsort (innermost axis, as far as the model goes) and the reducers produce valid
    layouts from valid layouts. *)
From Coq Require Import ZArith List Bool Lia ZifyBool.
From AwkV Require Import Base Layout LayoutInd Valid Types AtAxis Carry Ops_Struct Ops_Sort Ops_Reduce
                         Typing Proofs_Typing Proofs_C11 Proofs_Lists Proofs_ToList Proofs_Carry Proofs_CarryValid
                         Proofs_AtAxis Proofs_AtAxisOps Proofs_Closure.
Import ListNotations.
Open Scope Z_scope.

(* ---------------------------------------------------------------- content_of_keys *)
Definition valid_keys (ks : list (option key)) : list key :=
  flat_map (fun o => match o with Some k => [k] | None => [] end) ks.
Fixpoint ck_index (ks : list (option key)) (n : Z) : list Z :=
  match ks with
  | [] => []
  | Some _ :: r => n :: ck_index r (n + 1)
  | None :: r => -1 :: ck_index r n
  end.
Definition has_none (ks : list (option key)) : bool :=
  existsb (fun o => match o with None => true | Some _ => false end) ks.
Definition ck_inner (dt : dtype) (valid : list key) : content :=
  let isstr := existsb (fun k => match k with KStr _ _ => true | _ => false end) valid in
  if isstr then
    let strs := map (fun k => match k with KStr _ s => s | _ => [] end) valid in
    let i := match valid with KStr i _ :: _ => i | _ => true end in
    Par (Some (if i then AString else ABytestring)) None
      (ListOffset I64 (offsets_from 0 (map zlen strs))
         (Par (Some (if i then AChar else AByte)) None
            (Numpy DUInt8 [zlen (concat strs)] (map DZ (concat strs)))))
  else
    Numpy dt [zlen valid]
      (map (fun k => match k with KNum d => d | KBool b => DZ (if b then 1 else 0) | _ => DZ 0 end) valid).
Lemma content_of_keys_eq dt ks :
  content_of_keys dt ks =
  if has_none ks then IndexedOption I64 (ck_index ks 0) (ck_inner dt (valid_keys ks)) else ck_inner dt (valid_keys ks).
Proof. reflexivity. Qed.

Lemma ck_index_spec ks : forall n, 0 <= n ->
  Forall (fun i => i < n + zlen (valid_keys ks)) (ck_index ks n) /\ zlen (ck_index ks n) = zlen ks.
Proof.
  induction ks as [|[k|] ks IH]; intros n Hn; cbn [ck_index valid_keys flat_map app].
  - split; [constructor|reflexivity].
  - destruct (IH (n + 1)) as [A B]; [lia|]. fold (valid_keys ks) in *. rewrite !zlen_cons. pose proof (zlen_nonneg (valid_keys ks)). split; [|lia].
    constructor; [lia|]. eapply Forall_impl; [|exact A]. cbv beta. intros i Hi. lia.
  - destruct (IH n Hn) as [A B]. fold (valid_keys ks) in *. rewrite !zlen_cons. pose proof (zlen_nonneg (valid_keys ks)). split; [|lia].
    constructor; [lia|exact A].
Qed.
Lemma no_none_valid ks : has_none ks = false -> zlen (valid_keys ks) = zlen ks.
Proof.
  unfold has_none. induction ks as [|[k|] ks IH]; cbn [existsb valid_keys flat_map app]; intros H; [reflexivity| |discriminate].
  fold (valid_keys ks). rewrite !zlen_cons, IH by exact H. reflexivity.
Qed.

Lemma ck_inner_valid dt valid :
  Valid None (ck_inner dt valid) /\ clen (ck_inner dt valid) = zlen valid /\ plain (ck_inner dt valid).
Proof.
  unfold ck_inner. destruct (existsb _ valid).
  - set (strs := map (fun k => match k with KStr _ s => s | _ => [] end) valid).
    set (i := match valid with KStr i _ :: _ => i | _ => true end).
    split; [|split; [cbn [clen]; rewrite zlen_offsets_from; unfold strs; rewrite !zlen_map; lia|split; reflexivity]].
    constructor; [discriminate|]. constructor.
    + destruct i; cbn [ParamOk list_content]; do 4 eexists; split; reflexivity.
    + rewrite zlen_offsets_from. pose proof (zlen_nonneg (map zlen strs)). lia.
    + eapply Forall_impl; [|apply (offsets_pairs (map zlen strs) (zlens_nonneg strs) 0)]. cbv beta. intros ab Hab. right.
      cbn [clen]. rewrite sumZ_zlen_concat in Hab. lia.
    + intros Hs. destruct i; discriminate.
  - split; [|split; [reflexivity|split; reflexivity]].
    constructor; [exact I|discriminate|constructor; [apply zlen_nonneg|constructor]|].
    cbn [prodZ fold_right]. rewrite zlen_map. lia.
Qed.

Lemma content_of_keys_valid dt ks :
  Valid None (content_of_keys dt ks) /\ clen (content_of_keys dt ks) = zlen ks /\ unionlike (content_of_keys dt ks) = false.
Proof.
  rewrite content_of_keys_eq. destruct (ck_inner_valid dt (valid_keys ks)) as (A & B & C & D). destruct (ck_index_spec ks 0 ltac:(lia)) as [E F].
  destruct (has_none ks) eqn:Hn.
  - split; [|split; [cbn [clen]; exact F|reflexivity]].
    constructor; [exact I| |exact C|exact A]. eapply Forall_impl; [|exact E]. cbv beta. intros i Hi. lia.
  - split; [exact A|]. split; [rewrite B; apply no_none_valid, Hn|exact D].
Qed.

(* ---------------------------------------------------------------- sort *)
Lemma sort_Hgv asc argsort u p c cc c' :
  Valid p c -> list_content c = Some cc -> Qtrue u p c = true -> (is_strk p = true -> true = true) ->
  sort_g asc argsort p c = Ok c' -> Valid None c' /\ clen c <= clen c' /\ uplain u c'.
Proof.
  intros HV _ _ _ H. unfold sort_g in H. apply bind_Ok in H as ([bs cc0] & Hb & H). cbn [fst snd] in H.
  apply bind_Ok in H as (ks & _ & H). apply bind_Ok in H as (per & Hper & H). inversion H; subst.
  destruct (list_bounds_valid _ _ _ _ HV Hb) as (_ & Hn & _).
  match goal with |- context [content_of_keys ?dt ?l] => destruct (content_of_keys_valid dt l) as (A & B & C) end.
  split; [|split; [|split; reflexivity]].
  - apply offsets_valid; [apply zlens_nonneg|rewrite sumZ_zlen_concat, B; lia|exact A].
  - cbn [clen]. rewrite zlen_offsets_from, zlen_map, (mapM_zlen _ _ _ Hper). lia.
Qed.

(* every valid layout, every axis the model handles *)
Theorem sort_preserves_valid : forall asc argsort axis c c',
  Valid None c -> sort_model asc argsort axis c = Ok c' -> Valid None c'.
Proof.
  intros asc argsort axis c c' HV H. unfold sort_model in H. apply bind_Ok in H as (ax & _ & H).
  destruct (negb (sortable (type_of c))); [discriminate|]. destruct (ax =? 0).
  - destruct (is_leaf_ty (type_of c)); [|discriminate]. apply bind_Ok in H as (ks & _ & H). inversion H; subst.
    apply content_of_keys_valid.
  - destruct (model_ax (sort_g asc argsort) (Ok Empty) true c ax) as [r|e] eqn:E.
    + inversion H; subst.
      exact (proj1 (model_ax_valid (sort_g asc argsort) (Ok Empty) true Qtrue (sort_Hgv asc argsort) unk_empty c ax c' HV
                      (ax_all_Qtrue _ _ _ _ _) E)).
    + destruct e; try discriminate. destruct (check_ax _ _ _ _ _ _); [discriminate|]. destruct (check_ax _ _ _ _ _ _); discriminate.
Qed.

Example sort_preserves_valid_ex :
  let c := IndexedOption I64 [1; -1; 0]
             (ListOffset I64 [0; 2; 5]
                (ByteMasked [1; 0; 1; 1; 1] true (Numpy DFloat64 [5] [DZ 3; DZ 0; DNaN; DZ 1; DInf true]))) in
  valid_b c = true /\
  (do r <- sort_model true false 1 c; Ok (valid_b r)) = Ok true /\
  (do r <- sort_model false true (-1) c; Ok (valid_b r)) = Ok true.
Proof. vm_compute. repeat split. Qed.

(* ---------------------------------------------------------------- reducers: the leaf level *)
Definition zl_ok (mask : bool) (n : Z) (c' : content) : Prop :=
  Valid None c' /\ clen c' = n /\ unionlike c' = false /\ (mask = false -> optionlike c' = false).

Lemma leaves_ok r mask dt outs : zl_ok mask (zlen outs) (leaves r mask dt outs).
Proof.
  unfold leaves.
  set (data := map (fun o => match o with Some v => datum_of_value v | None => DZ 0 end) outs).
  assert (HN : Valid None (Numpy (result_dtype r dt) [zlen outs] data)).
  { constructor; [exact I|discriminate|constructor; [apply zlen_nonneg|constructor]|].
    cbn [prodZ fold_right]. unfold data. rewrite zlen_map. lia. }
  destruct mask.
  - split; [|split; [|split; [reflexivity|discriminate]]].
    + constructor; [exact I| |reflexivity|exact HN]. apply Forall_map. apply Forall_forall. intros [i o] Hio.
      apply zip_In in Hio as [Hi _]. apply iota_In' in Hi. cbn [fst snd clen]. destruct o; lia.
    + cbn [clen]. rewrite zlen_map, zlen_zip, zlen_iota by apply zlen_nonneg. lia.
  - split; [exact HN|]. split; [reflexivity|]. split; reflexivity.
Qed.

Lemma zl_numpy r mask p dt shape data groups c' :
  zl r mask p (Numpy dt shape data) groups = Ok c' -> zl_ok mask (zlen groups) c'.
Proof.
  cbn [zl]. destruct shape as [|n [|? ?]]; try discriminate. intros H. apply bind_Ok in H as (outs & Houts & H). inversion H; subst.
  rewrite <- (mapM_zlen _ _ _ Houts). apply leaves_ok.
Qed.

(* ---------------------------------------------------------------- reducers: unfolding [zl] *)
Definition zl_maxlen (sub : list (Z * (Z * Z))) : Z :=
  fold_left Z.max (map (fun jse : Z * (Z * Z) => snd (snd jse) - fst (snd jse)) sub) 0.
Definition zl_cols (sub : list (Z * (Z * Z))) : list (list (Z * Z)) :=
  map (fun q => flat_map (fun jse : Z * (Z * Z) =>
                            let s := fst (snd jse) in let e := snd (snd jse) in
                            if s + q <? e then [(fst jse, s + q)] else []) sub)
      (iota (zl_maxlen sub)).
Lemma zl_list r mask p c c' groups : list_content c = Some c' ->
  zl r mask p c groups =
  if is_strk p then Err EValue else
  do bc <- list_bounds c;
  do subs <- mapM (fun G => mapM (fun jp : Z * Z => do se <- get (fst bc) (snd jp); Ok (fst jp, se)) G) groups;
  do inner <- zl r mask None c' (concat (map zl_cols subs));
  Ok (ListOffset I64 (offsets_from 0 (map zl_maxlen subs)) inner).
Proof. destruct c; try discriminate; intros H; inversion H; subst; reflexivity. Qed.
Lemma zl_Record r mask p cs ks n groups :
  zl r mask p (Record cs ks n) groups =
  do cs' <- mapM (fun x => zl r mask None x groups) cs; Ok (Record cs' ks (zlen groups)).
Proof.
  cbn [zl]. f_equal. induction cs as [|x xs IH]; [reflexivity|]. cbn [mapM]. rewrite <- IH. reflexivity.
Qed.

Lemma zl_Par r mask p a rn c groups : zl r mask p (Par a rn c) groups = zl r mask a c groups.
Proof. reflexivity. Qed.
Lemma fold_max_ge l : forall a, a <= fold_left Z.max l a.
Proof. induction l as [|x l IH]; intros a; cbn [fold_left]; [lia|]. specialize (IH (Z.max a x)). lia. Qed.
Lemma zl_cols_lens subs : map zlen (map zl_cols subs) = map zl_maxlen subs.
Proof.
  rewrite map_map. apply map_ext. intros sub. unfold zl_cols. rewrite zlen_map, zlen_iota; [reflexivity|].
  unfold zl_maxlen. apply fold_max_ge.
Qed.
Lemma zl_maxlens_nonneg subs : Forall (fun n => 0 <= n) (map zl_maxlen subs).
Proof. apply Forall_map. apply Forall_forall. intros sub _. unfold zl_maxlen. apply fold_max_ge. Qed.

Lemma zl_valid_all r mask c : forall p groups c',
  Valid p c -> zl r mask p c groups = Ok c' -> zl_ok mask (zlen groups) c'.
Proof.
  induction c as [dt shape data| |w o c IHc|w s e c IHc|c size zl0 IHc|w ix c IHc|w ix c IHc|m vw c IHc
                 |m vw lsb n c IHc|c IHc|w t ix cs IHcs|cs ks n IHcs|arr rn c IHc] using content_ind';
    intros p groups c' HV H.
  - eapply zl_numpy, H.
  - cbn [zl] in H. destruct (forallb _ groups); [|discriminate]. inversion H; subst.
    rewrite <- (zlen_map (fun _ => leaf_reduce r mask DFloat64 []) groups). apply leaves_ok.
  - (* ListOffset *)
    rewrite (zl_list r mask p (ListOffset w o c) c groups eq_refl) in H. destruct (is_strk p) eqn:Es; [discriminate|].
    apply bind_Ok in H as (bc & _ & H). apply bind_Ok in H as (subs & Hsubs & H). apply bind_Ok in H as (inner & Hin & H). inversion H; subst.
    inversion HV; subst. match goal with Hs : _ -> Valid None c |- _ => specialize (Hs Es) as HVc end.
    destruct (IHc None _ _ HVc Hin) as (A & B & _).
    split; [|split; [cbn [clen]; rewrite zlen_offsets_from, zlen_map, <- (mapM_zlen _ _ _ Hsubs); lia|split; reflexivity]].
    apply offsets_valid; [apply zl_maxlens_nonneg|rewrite B, <- sumZ_zlen_concat, zl_cols_lens; lia|exact A].
  - (* ListA *)
    rewrite (zl_list r mask p (ListA w s e c) c groups eq_refl) in H. destruct (is_strk p) eqn:Es; [discriminate|].
    apply bind_Ok in H as (bc & _ & H). apply bind_Ok in H as (subs & Hsubs & H). apply bind_Ok in H as (inner & Hin & H). inversion H; subst.
    inversion HV; subst. match goal with Hs : _ -> Valid None c |- _ => specialize (Hs Es) as HVc end.
    destruct (IHc None _ _ HVc Hin) as (A & B & _).
    split; [|split; [cbn [clen]; rewrite zlen_offsets_from, zlen_map, <- (mapM_zlen _ _ _ Hsubs); lia|split; reflexivity]].
    apply offsets_valid; [apply zl_maxlens_nonneg|rewrite B, <- sumZ_zlen_concat, zl_cols_lens; lia|exact A].
  - (* Regular *)
    rewrite (zl_list r mask p (Regular c size zl0) c groups eq_refl) in H. destruct (is_strk p) eqn:Es; [discriminate|].
    apply bind_Ok in H as (bc & _ & H). apply bind_Ok in H as (subs & Hsubs & H). apply bind_Ok in H as (inner & Hin & H). inversion H; subst.
    inversion HV; subst. match goal with Hs : _ -> Valid None c |- _ => specialize (Hs Es) as HVc end.
    destruct (IHc None _ _ HVc Hin) as (A & B & _).
    split; [|split; [cbn [clen]; rewrite zlen_offsets_from, zlen_map, <- (mapM_zlen _ _ _ Hsubs); lia|split; reflexivity]].
    apply offsets_valid; [apply zl_maxlens_nonneg|rewrite B, <- sumZ_zlen_concat, zl_cols_lens; lia|exact A].
  - (* Indexed *)
    cbn [zl] in H. apply bind_Ok in H as (gs & Hgs & H). inversion HV; subst.
    rewrite <- (mapM_zlen _ _ _ Hgs). eapply (IHc None); eassumption.
  - cbn [zl] in H. apply bind_Ok in H as (oi & _ & H). apply bind_Ok in H as (gs & Hgs & H). inversion HV; subst.
    rewrite <- (mapM_zlen _ _ _ Hgs). eapply (IHc None); eassumption.
  - cbn [zl] in H. apply bind_Ok in H as (oi & _ & H). apply bind_Ok in H as (gs & Hgs & H). inversion HV; subst.
    rewrite <- (mapM_zlen _ _ _ Hgs). eapply (IHc None); eassumption.
  - cbn [zl] in H. apply bind_Ok in H as (oi & _ & H). apply bind_Ok in H as (gs & Hgs & H). inversion HV; subst.
    rewrite <- (mapM_zlen _ _ _ Hgs). eapply (IHc None); eassumption.
  - cbn [zl] in H. apply bind_Ok in H as (oi & _ & H). apply bind_Ok in H as (gs & Hgs & H). inversion HV; subst.
    rewrite <- (mapM_zlen _ _ _ Hgs). eapply (IHc None); eassumption.
  - discriminate.
  - (* Record *)
    rewrite zl_Record in H. apply bind_Ok in H as (cs' & Hcs' & H). inversion H; subst. inversion HV; subst.
    match goal with HVs : Forall (Valid None) cs |- _ => rename HVs into HVs0 end.
    assert (HF : Forall (zl_ok mask (zlen groups)) cs').
    { eapply mapM_Forall; [exact Hcs'|]. intros x y Hx Hy. rewrite Forall_forall in IHcs, HVs0. eapply (IHcs x Hx None); eauto. }
    split; [|split; [reflexivity|split; reflexivity]].
    constructor; [exact I|apply zlen_nonneg| | |].
    + eapply Forall_impl; [|exact HF]. cbv beta. intros y (_ & B & _). lia.
    + intros k Hk. rewrite (mapM_length _ _ _ Hcs'). auto.
    + eapply Forall_impl; [|exact HF]. cbv beta. intros y (A & _). exact A.
  - (* Par *)
    cbn [zl] in H. inversion HV; subst. eapply IHc; eassumption.
Qed.

(* ---------------------------------------------------------------- reduce *)
(* With mask_identity and without keepdims the reduced leaves are an IndexedOptionArray; the model (unlike the C++,
   which simplifies) puts it directly below an option-type / indexed node that sat above the reduced list: [Qred]
   excludes exactly that situation. *)
Definition Qred (mask keepdims : bool) (u : bool) (_ : option akind) (_ : content) : bool :=
  keepdims || negb mask || negb u.

Lemma Valid_list_ParamOk p c cc : Valid p c -> list_content c = Some cc -> ParamOk p c.
Proof. intros HV Hc. inversion HV; subst; try discriminate Hc; assumption. Qed.

Lemma reduce_Hgv r mask keepdims u p c cc c' :
  Valid p c -> list_content c = Some cc -> Qred mask keepdims u p c = true -> (is_strk p = true -> true = true) ->
  reduce_g r mask keepdims p c = Ok c' -> Valid None c' /\ clen c <= clen c' /\ uplain u c'.
Proof.
  intros HV Hc HQ _ H. unfold reduce_g in H. apply bind_Ok in H as ([bs cc0] & Hb & H). cbn [fst snd] in H.
  apply bind_Ok in H as (out & Hout & H). inversion H; subst.
  destruct (list_bounds_valid _ _ _ _ HV Hb) as (Hc0 & Hn & _ & Hvc). rewrite Hc in Hc0. inversion Hc0; subst cc0.
  assert (Hok : zl_ok mask (zlen bs) out).
  { rewrite <- (zlen_map (fun se : Z * Z => map (fun j => (j, fst se + j)) (iota (snd se - fst se))) bs).
    destruct (is_strk p) eqn:Es.
    - destruct (ParamOk_str _ _ (Valid_list_ParamOk _ _ _ HV Hc) Es) as (c0 & k & rn & n & dd & Hc1 & Hc2 & _).
      rewrite Hc in Hc1. inversion Hc1; subst. rewrite zl_Par in Hout. exact (zl_numpy r mask (Some k) _ _ _ _ _ Hout).
    - eapply zl_valid_all; [apply Hvc; reflexivity|exact Hout]. }
  destruct Hok as (A & B & C & D). rewrite zlen_map. destruct keepdims.
  - split; [constructor; [exact I|lia|apply zlen_nonneg|intros _; exact A]|]. split; [|split; reflexivity].
    cbn [clen]. change (1 =? 0) with false. cbv iota. rewrite B, Z.div_1_r. exact Hn.
  - split; [exact A|]. split; [lia|]. split; [|exact C]. intros ->. unfold Qred in HQ. destruct mask; [discriminate|auto].
Qed.

Definition red_frag (mask keepdims : bool) (c : content) (axis : Z) : bool :=
  match resolve_axis (type_of c) 0 axis with
  | Ok ax => ax_frag (Qred mask keepdims) c ax
  | Err _ => true
  end.

Theorem reduce_preserves_valid_partial : forall r axis mask keepdims c c',
  Valid None c -> red_frag mask keepdims c axis = true -> reduce_model r axis mask keepdims c = Ok c' -> Valid None c'.
Proof.
  intros r axis mask keepdims c c' HV HQ H. unfold reduce_model in H. unfold red_frag in HQ.
  destruct (resolve_axis (type_of c) 0 axis) as [ax|]; [|discriminate]. cbn [bind] in H.
  destruct (negb (reducible (type_of c))); [discriminate|]. destruct (ax =? 0).
  - apply (zl_valid_all r mask (expand c) None _ c' (expand_valid_p c None HV) H).
  - exact (proj1 (model_ax_valid (reduce_g r mask keepdims) (Err EValue) true (Qred mask keepdims)
                    (reduce_Hgv r mask keepdims) unk_err c ax c' HV HQ H)).
Qed.

(* the fragment is everything when the identity is not masked or the dimension is kept *)
Lemma ax_all_Qred mask keepdims c : keepdims || negb mask = true ->
  forall u p d axis, ax_all (Qred mask keepdims) u p c d axis = true.
Proof.
  intros Hk. induction c using content_ind'; intros u p d axis; rewrite ax_all_eq; destruct (resolve_axis _ d axis) as [ax|]; try reflexivity;
    cbn [ax_body]; auto; try (destruct (ax =? d + 1); [unfold Qred; rewrite Hk; reflexivity|auto]);
    apply forallb_forall; intros x Hx; rewrite Forall_forall in H; apply H, Hx.
Qed.
Corollary reduce_preserves_valid_nomask : forall r axis mask keepdims c c',
  Valid None c -> keepdims || negb mask = true -> reduce_model r axis mask keepdims c = Ok c' -> Valid None c'.
Proof.
  intros r axis mask keepdims c c' HV Hk H. eapply reduce_preserves_valid_partial; [exact HV| |exact H].
  unfold red_frag. destruct (resolve_axis _ 0 axis); [|reflexivity]. apply ax_all_Qred, Hk.
Qed.

Example reduce_preserves_valid_refuted :
  let c := IndexedOption I64 [0; -1] (ListOffset I64 [0; 1] (Numpy DInt64 [1] [DZ 5])) in
  let r := IndexedOption I64 [0; -1] (IndexedOption I64 [0] (Numpy DInt64 [1] [DZ 5])) in
  valid_b c = true /\ reduce_model RMin 1 true false c = Ok r /\ valid_b r = false /\ red_frag true false c 1 = false.
Proof. vm_compute. repeat split. Qed.

Example reduce_preserves_valid_ex :
  let c := ListOffset I64 [0; 2; 3]
             (ByteMasked [1; 0; 1] true
                (Record [Regular (Numpy DInt64 [6] [DZ 1; DZ 2; DZ 3; DZ 4; DZ 5; DZ 6]) 2 3;
                         ListOffset I64 [0; 1; 1; 3] (Numpy DInt32 [3] [DZ 7; DZ 8; DZ 9])] (Some [[120]; [121]]) 3)) in
  valid_b c = true /\ red_frag true false c 1 = true /\ red_frag true false c (-1) = true /\
  (do r <- reduce_model RSum 1 true false c; Ok (valid_b r)) = Ok true /\
  (do r <- reduce_model RMax (-1) true false c; Ok (valid_b r)) = Ok true /\
  (do r <- reduce_model RArgmin 0 true true c; Ok (valid_b r)) = Ok true.
Proof. vm_compute. repeat split. Qed.
