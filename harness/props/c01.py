"""C01: slicing selects exactly the elements Python/NumPy indexing would select."""
import common as C
import gen as G

THEOREMS = ['range_loop_is_python_slice', 'range_is_progression', 'range_never_out_of_bounds',
            'range_bounds_are_clamped', 'full_range_selects_everything', 'integer_index_wraps',
            'out_of_range_is_error', 'carry_selects_indexed_elements', 'range_slice_is_list_slice',
            'getitem_refines_spec_partial', 'getitem_never_out_of_fuel', 'getitem_fuel_independent',
            'getitem_fuel_enough_without_ellipsis', 'getitem_fuel_enough_shallow', 'getitem_refines_spec_norecords',
            'field_projection_refines', 'fields_projection_refines', 'field_commutes_with_positional',
            'getitem_array_alone']
RULE = ('value-first random layouts x slice tuples of length 0-4 over {integer, range (bounds in [-len-2, len+2] or None, '
        'steps +-1..3), ellipsis, newaxis, 1-d integer arrays (boolean arrays as nonzero), field, fields}, incl. '
        'out-of-range indexes; non-trivial = slice has >= 1 dimension-consuming item and the input has >= 1 non-empty '
        'list; distinct by case text')
ASSUMPTIONS = ['multi-dimensional index arrays, index arrays with missing values and jagged index arrays are not yet specified',
               'toslice()/asslice() conversion of Python objects (src/python/content.cpp) cannot be built here',
               'on record-containing types integers are not combined with index arrays (both are advanced indexes that merge into one '
               'dimension; whether the records end up inside or outside the merged dimension is not specified)',
               'types containing unions are skipped; positional slicing below a record followed by further items is compared '
               'without a specification (verdict nomodel)']


def rand_items(rng, t, vals):
    """a slice tuple; dimension-consuming items never exceed the minimum depth (so 'too many indices' on an empty
    selection, where the library is lenient, is not generated), and integer arrays are adjacent (NumPy moves
    separated advanced dimensions to the front; the library documents that it refuses/does not support this)"""
    mn, mx = G.list_depth(t)
    hasrec = G.has_kind(t, 'rec')   # ellipsis/newaxis are pushed into the fields of records: not specified
    n = rng.choice([0, 1, 1, 2, 2, 3, 4])
    items = []
    used_ell = False
    has_arrays = rng.random() < 0.4   # with arrays present, integers are advanced too: all of them must be adjacent
    arr_state = 0          # 0 none yet, 1 in a run of advanced items, 2 run finished
    arr_len = None
    ndim = 0
    toplen = len(vals)
    for _ in range(n):
        r = rng.random()
        L = rng.choice([toplen, 0, 1, 2, 3, 4])
        dim_ok = ndim < mn
        if r < 0.28 and dim_ok and not (has_arrays and arr_state == 2) and not (has_arrays and hasrec):
            items.append('(at %d)' % rng.randint(-L - 1, L))
            ndim += 1
            if has_arrays:
                arr_state = 1
        elif r < 0.62 and dim_ok:
            def b():
                return 'none' if rng.random() < 0.3 else str(rng.randint(-L - 2, L + 2))
            step = rng.choice(['none', '1', '1', '2', '3', '-1', '-1', '-2', '-3'])
            items.append('(rng %s %s %s)' % (b(), b(), step))
            ndim += 1
            arr_state = 2 if arr_state == 1 else arr_state
        elif r < 0.70 and not used_ell and not hasrec:
            items.append('ell')
            used_ell = True
            arr_state = 2 if arr_state == 1 else arr_state
        elif r < 0.76 and not hasrec:
            items.append('newaxis')
            arr_state = 2 if arr_state == 1 else arr_state
        elif r < 0.93 and dim_ok and has_arrays and arr_state != 2:
            if arr_len is None:
                arr_len = rng.choice([0, 1, 2, 3])
            ix = [rng.randint(-L, L - 1) if L > 0 else rng.choice([0, -1]) for _ in range(arr_len)]
            if rng.random() < 0.08 and ix:
                ix[rng.randrange(len(ix))] = L + 1
            items.append('(arr (%d) (%s))' % (len(ix), ' '.join(map(str, ix))))
            ndim += 1
            arr_state = 1
        elif r >= 0.93:
            names = ['a', 'b', 'c', 'x', 'y', 'pt', '0', '1']
            arr_state = 2 if arr_state == 1 else arr_state
            if rng.random() < 0.7:
                items.append('(fld %s)' % rng.choice(names))
            else:
                items.append('(flds %s)' % ' '.join(rng.sample(names[:6], rng.choice([1, 2]))))
    return items


def cases(rng, tier):
    n = 15000 if tier == 'quick' else 400000
    out = []
    for i in range(n):
        a = G.gen_array(rng, depth=rng.choice([1, 2, 3, 3, 4]), canonical_too=False,
                        type_kw=dict(allow_union=rng.random() < 0.05, allow_rec=rng.random() < 0.5),
                        enc_kw=dict(weird_empty=0.08, strided=0.08))
        t = a['type']
        items = rand_items(rng, t, a['vals'])
        if G.has_empty_rec(t):
            items = [it for it in items if not it.startswith(('(at', '(rng', '(arr'))][:1] or items[:1]
        nontriv = any(it.startswith(('(at', '(rng', '(arr')) for it in items) and \
            any(isinstance(v, list) and v for v in a['vals'])
        tags = dict(nitems=len(items), kinds=' '.join(sorted(set(it.split(' ')[0].strip('(') for it in items))))
        out.append(C.Case('c%d' % i, 'getitem', ['(' + ' '.join(items) + ')'], [G.sx(a['layout'])],
                          dict(nontrivial=nontriv, tags=tags, type=t)))
    return out


def signature(c, impl, v):
    body = c.body()
    if '(arr (0) ())' in body and ('bad oob' in v or 'viol closure' in v or 'viol value' in v):
        return 'empty-index-array-zero-length-regular'
    if ('(par string' in body or '(par bytestring' in body) and '(np uint8 (0) ())' in impl:
        return 'string-empty-selection'
    return None
