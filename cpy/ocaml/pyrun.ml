(* pyrun: evaluates the extracted Python-layer specifications (AwkPy.PySpec) on the cases the real
   Python layer ran (through pyshim), and compares observations.
   input : (id FUNC args... (arr LAYOUT)... (impl ok DUMP | err CLASS | crash | env-skip RULE))
   output: (id VERDICT ...) with VERDICT in  agree | viol | skip | crash | bad                    *)
open Pymodel
open Sx
open Rd

let z = z_of_sx

type argv = Arr of content | Val of Sx.t

let rec split (l : Sx.t list) : Sx.t list * argv list =
  match l with
  | [] -> ([], [])
  | L [A "arr"; c] :: r -> let (p, a) = split r in (p, Arr (content_of_sx c) :: a)
  | (L (A "val" :: _) as v) :: r -> let (p, a) = split r in (p, Val v :: a)
  | x :: r -> let (p, a) = split r in (x :: p, a)

let opt_z = function A "none" -> None | x -> Some (z x)
let names_of = function
  | L l -> List.map (function A k -> name_of_string k | _ -> bad "name") l
  | _ -> bad "names"
let opt_names = function A "none" | A "tuple" -> None | x -> Some (names_of x)

let reducer_of = function
  | "count" -> RCount | "count_nonzero" -> RCountNonzero | "sum" -> RSum | "prod" -> RProd
  | "any" -> RAny | "all" -> RAll | "min" -> RMin | "max" -> RMax | "argmin" -> RArgmin | "argmax" -> RArgmax
  | r -> bad ("reducer " ^ r)

let nested_of = function
  | A "none" | A "false" -> NNone
  | A "true" -> NAll
  | L l -> NList (List.map z l)
  | _ -> bad "nested"

(* observation of a result: a value, an error, or something the runner cannot interpret *)
let obs_of_vres (r : value res) : obs = obs_of_res r

let arr_of (c : content) : (ty * value list) res =
  match to_list c with Ok vs -> Ok (type_of c, vs) | Err e -> Err e

let scalar_value (v : Sx.t) : value * ty =
  match v with
  | L [A "val"; A "int"; n] -> (VNum (DZ (z n)), TNum DInt64)
  | L [A "val"; A "bool"; n] -> (VBool (z n <> Z0), TNum DBool)
  | _ -> bad ("scalar " ^ Sx.to_string v)

type outcome = {
  spec : obs;
  valid_inputs : bool;
  unsupported : string;
  extra_check : (Sx.t -> string option);    (* further check on the implementation's dump: Some msg = violation *)
}

let no_extra _ = None

let contents (avs : argv list) = List.filter_map (function Arr c -> Some c | Val _ -> None) avs

let with_arrs (avs : argv list) (k : (ty * value list) list -> obs) : obs =
  let rec go acc = function
    | [] -> k (List.rev acc)
    | c :: r -> (match arr_of c with Ok a -> go (a :: acc) r | Err _ -> OBad "input-to_list") in
  go [] (contents avs)

let run_func (func : string) (plain : Sx.t list) (avs : argv list) : outcome =
  let cs = contents avs in
  let valid = List.for_all valid_b cs in
  let unsup = if List.exists (fun c -> has_union (type_of c)) cs then "union" else "" in
  (* is_none is specified through a union at the top (levels counted on the values): PySpec.spec_is_none_union *)
  let unsup = (match func, cs with
      | "is_none", [c] -> (match type_of c with TUnion ts when not (List.exists has_union ts) -> "" | _ -> unsup)
      | _ -> unsup) in
  let mk ?(extra = no_extra) spec = { spec; valid_inputs = valid; unsupported = unsup; extra_check = extra } in
  let one k = with_arrs avs (function [(t, vs)] -> obs_of_vres (k t vs) | _ -> OBad "arity") in
  match func, plain with
  | "flatten", [a] -> mk (one (spec_flatten (opt_z a)))
  | "ravel", [] -> mk (one (spec_flatten None))
  | "num", [a] -> mk (one (spec_num (z a)))
  | "local_index", [a] -> mk (one (spec_local_index (z a)))
  | "unflatten", [a] ->
    (match avs with
     | [Arr _; Arr _] ->
       mk (with_arrs avs (function
           | [(t, vs); (tc, cvs)] -> obs_of_vres (spec_unflatten (z a) t vs (CArr (tc, cvs)))
           | _ -> OBad "arity"))
     | [Arr _; Val (L [A "val"; A "int"; n])] ->
       mk (with_arrs avs (function
           | [(t, vs)] -> obs_of_vres (spec_unflatten (z a) t vs (CInt (z n)))
           | _ -> OBad "arity"))
     | _ -> bad "unflatten args")
  | "rt_unflatten", [a] -> mk (one (spec_rt_unflatten (z a)))
  | "reduce", [A rn; a; mk_; kd] ->
    let mask = (match mk_ with A "default" -> None | x -> Some (bool_of_sx x)) in
    mk (one (spec_reduce_py (reducer_of rn) (opt_z a) mask (bool_of_sx kd)))
  | ("cartesian" | "argcartesian"), (a :: n :: rest) ->
    let fields = (match rest with [L (A "keys" :: ks)] -> Some (names_of (L ks)) | [] -> None | _ -> bad "cartesian keys") in
    let f = if func = "cartesian" then spec_cartesian else spec_argcartesian in
    mk (with_arrs avs (fun arrs -> obs_of_vres (f (z a) (nested_of n) fields arrs)))
  | ("combinations" | "argcombinations"), [n; r; a; fl] ->
    let f = if func = "combinations" then spec_combinations else spec_argcombinations in
    mk (one (f (z n) (bool_of_sx r) (z a) (opt_names fl)))
  | "concatenate", [a] ->
    let tys = List.map type_of cs in
    let extra d =
      (match (try Some (content_of_sx d) with Bad _ -> None) with
       | Some rc -> if concat_type_ok tys (type_of rc) then None else Some "type: union although all inputs have one type"
       | None -> None) in
    mk ~extra (with_arrs avs (fun arrs -> obs_of_vres (spec_concat_axis (z a) arrs)))
  | "values_astype", [A dt] -> mk (one (spec_values_astype (dtype_of dt)))
  | "pad_none", [tg; a; cl] -> mk (one (spec_pad_none (z tg) (z a) (bool_of_sx cl)))
  | "is_none", [a] -> mk (one (spec_is_none (z a)))
  | "fill_none", [a] ->
    let fa = (match a with A "none" -> FAll | A "default" -> FDefault | x -> FAxis (z x)) in
    (match avs with
     | [Arr _; Val v] ->
       let (v0, tv) = scalar_value v in
       ignore tv;
       mk (one (spec_fill_none fa v0))
     | _ -> bad "fill_none args")
  | "mask", [vw] ->
    mk (with_arrs avs (function
        | [(ta, avs_); (tm, ms)] -> obs_of_vres (spec_mask (bool_of_sx vw) ta avs_ tm ms)
        | _ -> OBad "arity"))
  | "firsts", [a] -> mk (one (spec_firsts (z a)))
  | "singletons", [] -> mk (one spec_singletons)
  | "firsts_singletons", [] -> mk (one spec_firsts_singletons)
  | ("zip" | "unzip_zip"), [dl; ks] ->
    let f = if func = "zip" then spec_zip else spec_unzip_zip in
    mk (with_arrs avs (fun arrs -> obs_of_vres (f (opt_z dl) (opt_names ks) arrs)))
  | "unzip", [] -> mk (one spec_unzip)
  | ("with_field" | "get_with_field"), [w] ->
    let path = (match w with A "none" -> [] | x -> names_of x) in
    let f = if func = "with_field" then spec_with_field else spec_get_with_field in
    (match avs with
     | [Arr _; Arr _] ->
       mk (with_arrs avs (function
           | [(tb, bs); (tw, ws)] -> obs_of_vres (f path tb bs (WArr (tw, ws)))
           | _ -> OBad "arity"))
     | [Arr _; Val v] ->
       let (v0, tv) = scalar_value v in
       mk (with_arrs avs (function
           | [(tb, bs)] -> obs_of_vres (f path tb bs (WScalar (tv, v0)))
           | _ -> OBad "arity"))
     | _ -> bad "with_field args")
  | "fields", [] ->
    (* compared as a tuple of strings *)
    (match cs with
     | [c] ->
       mk (match spec_fields (type_of c) with
           | Ok ks -> OVal (VTup (List.map (fun k -> VStr (true, k)) ks))
           | Err EValue -> OErr | Err EOob -> OBad "oob" | Err EFuel -> OBad "fuel")
     | _ -> bad "fields args")
  | "with_name", [A nm] ->
    let name = if nm = "none" then None else Some (name_of_string nm) in
    let extra d =
      (match (try Some (content_of_sx d) with Bad _ -> None) with
       | Some rc -> if with_name_ok name rc then None else Some "name: an outermost record does not carry the new name"
       | None -> Some "name: result is not a layout") in
    (match cs with
     | [c] -> mk ~extra (obs_of_list (to_list c))
     | _ -> bad "with_name args")
  | "to_list", [] ->
    (match cs with
     | [c] -> mk (obs_of_list (to_list c))
     | _ -> bad "to_list args")
  | _ -> bad ("unknown function or arguments: " ^ func)

(* observation of what the implementation returned *)
let rec obs_of_impl (d : Sx.t) : obs * bool =
  match d with
  | L (A "tuple" :: ds) ->
    let os = List.map obs_of_impl ds in
    let closure = List.for_all snd os in
    let rec collect acc = function
      | [] -> OVal (VTup (List.rev acc))
      | (OVal v, _) :: r -> collect (v :: acc) r
      | (o, _) :: _ -> o in
    (collect [] os, closure)
  | L (A "names" :: ks) ->
    (OVal (VTup (List.map (function A k -> VStr (true, name_of_string k) | _ -> bad "names") ks)), true)
  | L [A "value"; v] -> ((try OVal (value_of_sx v) with Bad s -> OBad s), true)
  | L [A "typestr"; _] -> (OBad "typestr", true)
  | _ ->
    let o = obs_of_dump d in
    let bare_chars = (match d with L [A "par"; A ("char" | "byte"); _; L (A "np" :: _)] -> true | _ -> false) in
    let closure =
      if is_layout_dump d && not bare_chars then (try valid_b (content_of_sx d) with Bad _ -> false)
      else (match d with
          | L [A "record"; _; a] -> (try valid_b (content_of_sx a) with Bad _ -> false)
          | _ -> true) in
    (o, closure)

type impl2 = IOk2 of Sx.t | IErr2 of string | ICrash2 | IEnv of string

let impl_of = function
  | L [A "impl"; A "ok"; r] -> IOk2 r
  | L (A "impl" :: A "err" :: A c :: _) -> IErr2 c
  | L (A "impl" :: A "crash" :: _) -> ICrash2
  | L (A "impl" :: A "timeout" :: _) -> ICrash2
  | L (A "impl" :: A "env-skip" :: A r :: _) -> IEnv r
  | x -> bad ("impl: " ^ Sx.to_string x)

let split_last l =
  match List.rev l with
  | last :: rest -> (List.rev rest, last)
  | [] -> bad "empty case"

let verdict id func rest =
  let args, impl_sx = split_last rest in
  let impl = impl_of impl_sx in
  match impl with
  | IEnv r -> Printf.sprintf "(%s skip env-skip-%s)" id r
  | _ when func = "part" ->
    (* C18, partitioned arrays: the same call on the array as it is and on the array split into partitions;
       the two outcomes (plain values / error status) must be the same *)
    (match impl with
     | IOk2 (L [A "pair"; e; p]) ->
       (match e, p with
        | L (A "err" :: _), L (A "err" :: _) -> Printf.sprintf "(%s agree err)" id
        | L [A "ok"; ve], L [A "ok"; vp] ->
          if ve = vp then Printf.sprintf "(%s agree ok)" id
          else Printf.sprintf "(%s viol value (partitioned %s) (eager %s))" id (Sx.to_string vp) (Sx.to_string ve)
        | _ -> Printf.sprintf "(%s viol value (partitioned %s) (eager %s))" id (Sx.to_string p) (Sx.to_string e))
     | ICrash2 -> Printf.sprintf "(%s crash (part))" id
     | IErr2 c -> Printf.sprintf "(%s viol value (partitioning-failed %s))" id c
     | _ -> bad "part result")
  | _ ->
    let plain, avs = split args in
    let r = run_func func plain avs in
    if not r.valid_inputs then Printf.sprintf "(%s skip invalid-input)" id
    else if r.unsupported <> "" then Printf.sprintf "(%s skip unspecified-%s)" id r.unsupported
    else if r.spec = OBad "fuel" then
      Printf.sprintf "(%s skip unspecified%s)" id (if r.unsupported <> "" then "-" ^ r.unsupported else "")
    else begin
      match impl with
      | ICrash2 -> Printf.sprintf "(%s crash (spec %s))" id (string_of_obs r.spec)
      | IEnv _ -> assert false
      | IErr2 c ->
        let i = (match c with "value" | "runtime" -> OErr | c -> OBad ("impl-exception-" ^ c)) in
        if obs_eq i r.spec then Printf.sprintf "(%s agree err)" id
        else Printf.sprintf "(%s viol value (impl %s) (spec %s))" id (string_of_obs i) (string_of_obs r.spec)
      | IOk2 d ->
        let (i, closure) = obs_of_impl d in
        if i = OBad "non-integral float" then Printf.sprintf "(%s skip float-inexact)" id
        else if not (obs_eq i r.spec) then
          Printf.sprintf "(%s viol value (impl %s) (spec %s))" id (string_of_obs i) (string_of_obs r.spec)
        else if not closure then Printf.sprintf "(%s viol closure (impl %s))" id (string_of_obs i)
        else (match r.extra_check d with
            | Some msg -> Printf.sprintf "(%s viol extra (%s) (impl %s))" id msg (string_of_obs i)
            | None -> Printf.sprintf "(%s agree ok)" id)
    end

let () =
  try
    while true do
      let line = input_line stdin in
      if String.length line > 0 && line.[0] <> '#' then begin
        let id = ref "?" in
        (try
           match Sx.parse line with
           | L (A i :: A func :: rest) ->
             id := i;
             print_endline (verdict i func rest)
           | _ -> bad "case syntax"
         with
         | Bad s -> Printf.printf "(%s bad (%s))\n" !id s
         | Sx.Parse s -> Printf.printf "(%s bad (parse %s))\n" !id s
         | Stack_overflow -> Printf.printf "(%s bad (stack overflow))\n" !id
         | Not_found -> Printf.printf "(%s bad (not found))\n" !id
         | Failure s -> Printf.printf "(%s bad (failure %s))\n" !id s)
      end
    done
  with End_of_file -> ()
