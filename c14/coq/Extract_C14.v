(** Extraction of the executable builder model and specification (ExtrOcamlBasic only; Z stays inductive). *)
From Coq Require Import Extraction ExtrOcamlBasic.
From AwkV Require Import Layout Valid Types.
From AwkBuilder Require Import Builder Spec.
Extraction Language OCaml.
Extraction "c14model.ml" Z.add Z.mul Z.sub Z.div Z.modulo Z.eqb Z.ltb Z.leb Z.of_nat Z.to_nat Z.opp
  to_list value_eqb valid_b clen type_of
  run_session ab_init encode_all val_of unify pywf no_struct.
