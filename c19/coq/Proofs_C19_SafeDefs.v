(* C19 — fault freedom, definitions: a static well-formedness check of bytecode programs (`check_prog`, a boolean
   checker over a certificate `sctx` per segment, with an untrusted inference function `infer` that produces the
   certificate for compiled programs) and the run-time invariant `inv` of machine states.  Proofs: Proofs_C19_Safe.v *)
From Coq Require Import ZArith Bool List Lia ZifyBool.
From AwkForth Require Import Forth Proofs_C19.
Import ListNotations.
Open Scope Z_scope.

(* ------------------------------------------------------------------ the certificate *)
Record sctx := mkS {
  s_B : list Z;     (* instruction boundaries of the segment (positions where an ordinary instruction starts, and its length) *)
  s_D : list Z;     (* positions of do-loop bodies: the cell after CODE_DO / CODE_DO_STEP, where ip rests while the loop runs *)
  s_ed : Z;         (* lexical exit depth: number of nested segments between this one and the body of its word *)
  s_dd : Z;         (* lexical do depth: number of enclosing do-loops inside the word *)
  s_nx : bool       (* no-exit zone: the segment may run while a do-loop of an enclosing / calling segment is active *)
}.

Definition memz (x : Z) (l : list Z) : bool := existsb (fun y => y =? x) l.

Section Check.
  Variables (c : list sctx) (p : prog).

  Definition n_vars := zlen (p_vars p).
  Definition n_ins := zlen (p_ins p).
  Definition n_outs := zlen (p_outs p).
  Definition in_range (x n : Z) : bool := (0 <=? x) && (x <? n).

  (* segment t may be entered from segment w: as a word (exit depth 0, do depth 0) or as a nested segment *)
  Definition callable (sw : sctx) (t : Z) : bool :=
    match znth c t with
    | None => false
    | Some st => (negb (s_nx sw) || s_nx st) &&
                 (((s_ed st =? 0) && (s_dd st =? 0)) || ((s_ed st =? s_ed sw + 1) && (s_dd st =? s_dd sw)))
    end.
  (* segment t is the body of a do-loop of segment w *)
  Definition do_child (sw : sctx) (t : Z) : bool :=
    match znth c t with
    | None => false
    | Some st => s_nx st && (s_ed st =? s_ed sw + 1) && (s_dd st =? s_dd sw + 1)
    end.

  Definition cell_is (seg : list Z) (i : Z) (f : Z -> bool) : bool :=
    match znth seg i with Some x => f x | None => false end.

  (* the instruction starting at boundary b of segment `seg` (certificate sw) is well formed: its argument cells
     exist and name existing variables / inputs / outputs / segments, and every position where ip can be afterwards is
     again a boundary.  Same case order as `exec_op` / `exec_builtin`. *)
  Definition check_instr (sw : sctx) (seg : list Z) (b : Z) (bc : Z) : bool :=
    let isB x := memz x (s_B sw) in
    if bc <? 0 then
      let flags := - bc - 1 in
      let repeated := negb (Z.land flags READ_REPEATED =? 0) in
      let is_direct := negb (Z.land flags READ_DIRECT =? 0) in
      let fmt := Z.land flags READ_MASK in
      let nb := if fmt =? READ_NBIT then 1 else 0 in
      let nd := if is_direct then 1 else 0 in
      cell_is seg (b + 1) (fun i => in_range i n_ins) &&
      (if fmt =? READ_NBIT then cell_is seg (b + 2) (fun bw => (1 <=? bw) && (bw <=? 31)) else true) &&
      (if is_direct then cell_is seg (b + 2 + nb) (fun o => in_range o n_outs) else true) &&
      ((fmt =? READ_VARINT) || (fmt =? READ_ZIGZAG) || (fmt =? READ_NBIT) ||
       match fixed_format fmt with Some _ => true | None => false end) &&
      isB (b + 2 + nb + nd)
    else if BOUND_DICTIONARY <=? bc then callable sw (bc - BOUND_DICTIONARY) && isB (b + 1)
    else if bc =? CODE_EXIT then cell_is seg (b + 1) (fun k => k =? s_ed sw) && negb (s_nx sw) && (0 <=? s_ed sw)
    else if bc =? CODE_LITERAL then cell_is seg (b + 1) (fun _ => true) && isB (b + 2)
    else if bc =? CODE_HALT then true
    else if bc =? CODE_PAUSE then isB (b + 1)
    else if bc =? CODE_IF then isB (b + 1) && isB (b + 2)
    else if bc =? CODE_IF_ELSE then
      cell_is seg (b + 1) (fun t => callable sw (t - BOUND_DICTIONARY)) && isB (b + 2) && isB (b + 3)
    else if (bc =? CODE_DO) || (bc =? CODE_DO_STEP) then memz (b + 1) (s_D sw)
    else if bc =? CODE_AGAIN then isB (b - 1)
    else if bc =? CODE_UNTIL then isB (b - 1) && isB (b + 1)
    else if bc =? CODE_WHILE then
      cell_is seg (b + 1) (fun t => callable sw (t - BOUND_DICTIONARY)) && isB (b - 1) && isB (b + 2)
    else if (bc =? CODE_PUT) || (bc =? CODE_INC) || (bc =? CODE_GET) then
      cell_is seg (b + 1) (fun i => in_range i n_vars) && isB (b + 2)
    else if (bc =? CODE_LEN_INPUT) || (bc =? CODE_POS) || (bc =? CODE_END) || (bc =? CODE_SEEK) || (bc =? CODE_SKIP) then
      cell_is seg (b + 1) (fun i => in_range i n_ins) && isB (b + 2)
    else if (bc =? CODE_WRITE) || (bc =? CODE_WRITE_ADD) || (bc =? CODE_WRITE_DUP) || (bc =? CODE_LEN_OUTPUT)
            || (bc =? CODE_REWIND) then
      cell_is seg (b + 1) (fun i => in_range i n_outs) && isB (b + 2)
    else if bc =? CODE_I then (1 <=? s_dd sw) && isB (b + 1)
    else if bc =? CODE_J then (2 <=? s_dd sw) && isB (b + 1)
    else if bc =? CODE_K then (3 <=? s_dd sw) && isB (b + 1)
    else if (CODE_DUP <=? bc) && (bc <=? CODE_TRUE) then isB (b + 1)
    else false.       (* string / print opcodes: outside the model *)

  Definition check_seg (sw : sctx) (seg : list Z) : bool :=
    memz 0 (s_B sw) &&
    forallb (fun b => (0 <=? b) && (b <=? zlen seg) &&
                      match znth seg b with Some bc => check_instr sw seg b bc | None => true end) (s_B sw) &&
    forallb (fun d => cell_is seg d (fun bc => (BOUND_DICTIONARY <=? bc) && do_child sw (bc - BOUND_DICTIONARY)) &&
                      memz (d + 1) (s_B sw)) (s_D sw).

  Fixpoint check_segs (cs : list sctx) (segs : list (list Z)) : bool :=
    match cs, segs with
    | [], [] => true
    | sw :: cs', seg :: segs' => check_seg sw seg && check_segs cs' segs'
    | _, _ => false
    end.

  Definition check_prog : bool :=
    check_segs c (p_segs p) &&
    match c with s0 :: _ => (s_ed s0 =? 0) && (s_dd s0 =? 0) | [] => false end &&     (* segment 0 = main *)
    (1 <=? p_rec_max p).

  (* a word that call() may enter *)
  Definition is_word_seg (t : Z) : bool :=
    match znth c t with Some st => (s_ed st =? 0) && (s_dd st =? 0) | None => false end.
End Check.

(* ------------------------------------------------------------------ the run-time invariant *)
Definition ddepths (dos : list (Z * Z * Z)) : list Z := map (fun d => abs_depth (fst (fst d))) dos.

(* number of active do-loops opened by frames strictly below depth k *)
Definition below (dl : list Z) (k : Z) : Z := zlen (filter (fun d => d <? k) dl).

(* dl (innermost first) strictly decreasing, within 1..n *)
Fixpoint chain_ok (lo : Z) (l : list Z) (n : Z) : bool :=
  match l with
  | [] => true
  | d :: r => (lo <=? d) && (d <=? n) && chain_ok lo r (d - 1)
  end.

Definition frame_ok (c : list sctx) (dl ts : list Z) (k : Z) (f : Z * Z) : bool :=
  let '(w, ip) := f in
  match znth c w with
  | None => false
  | Some sw =>
    (if memz k dl then memz ip (s_D sw) else memz ip (s_B sw)) &&
    (0 <=? s_ed sw) && (s_ed sw <? k) && (s_dd sw <=? below dl k) &&
    forallb (fun t => (k <=? t) || (s_ed sw <=? k - t - 1)) ts &&
    ((below dl k =? 0) || s_nx sw)
  end.

Fixpoint frames_ok (c : list sctx) (dl ts : list Z) (fr : list (Z * Z)) : bool :=
  match fr with
  | [] => true
  | f :: r => frame_ok c dl ts (zlen fr) f && frames_ok c dl ts r
  end.

(* the control part: frames, do-stack depths, targets *)
Definition ctrl_ok (c : list sctx) (m : machine) : bool :=
  frames_ok c (ddepths (m_dos m)) (m_targets m) (m_frames m) &&
  chain_ok 1 (ddepths (m_dos m)) (depth m) &&
  chain_ok 0 (m_targets m) (if m_ready m then depth m else match m_targets m with t :: _ => t | [] => 0 end).

(* the data part: the attached variables / inputs / outputs are those the program declares *)
Definition shape_ok (p : prog) (e : env) (m : machine) : bool :=
  (zlen (m_vars m) =? zlen (p_vars p)) && (zlen (m_inpos m) =? zlen (p_ins p)) && (zlen (e_inputs e) =? zlen (p_ins p)) &&
  (zlen (m_outs m) =? zlen (p_outs p)) && forallb (fun x => 0 <=? x) (m_inpos m).

Definition inv (c : list sctx) (p : prog) (e : env) (m : machine) : bool := shape_ok p e m && ctrl_ok c m.

(* every target lies strictly below the current depth: holds between API calls and whenever an instruction executes *)
Definition below_depth (m : machine) : bool := forallb (fun t => t <? depth m) (m_targets m).

(* ------------------------------------------------------------------ untrusted inference of the certificate *)
Definition instr_size (seg : list Z) (b bc : Z) : Z :=
  if bc <? 0 then
    let flags := - bc - 1 in
    2 + (if Z.land flags READ_MASK =? READ_NBIT then 1 else 0) + (if Z.land flags READ_DIRECT =? 0 then 0 else 1)
  else if BOUND_DICTIONARY <=? bc then 1
  else if (bc =? CODE_LITERAL) || (bc =? CODE_EXIT) || ((CODE_PUT <=? bc) && (bc <=? CODE_REWIND)) then 2
  else if (bc =? CODE_IF_ELSE) || (bc =? CODE_DO) || (bc =? CODE_DO_STEP) || (bc =? CODE_WHILE) then 2
  else 1.

(* linear scan: boundaries, do-body positions, references (is_do, segment) *)
Fixpoint scan_seg (fuel : nat) (seg : list Z) (b : Z) (B D : list Z) (refs : list (bool * Z))
  : list Z * list Z * list (bool * Z) :=
  match fuel with
  | O => (B, D, refs)
  | S f =>
    match znth seg b with
    | None => (b :: B, D, refs)
    | Some bc =>
      let arg := match znth seg (b + 1) with Some t => t - BOUND_DICTIONARY | None => -1 end in
      let D' := if (bc =? CODE_DO) || (bc =? CODE_DO_STEP) then (b + 1) :: D else D in
      let refs' :=
        if (0 <=? bc) && (bc <? BOUND_DICTIONARY) then
          if (bc =? CODE_DO) || (bc =? CODE_DO_STEP) then (true, arg) :: refs
          else if (bc =? CODE_IF_ELSE) || (bc =? CODE_WHILE) then (false, arg) :: refs
          else refs
        else if BOUND_DICTIONARY <=? bc then (false, bc - BOUND_DICTIONARY) :: refs
        else refs in
      scan_seg f seg (b + instr_size seg b bc) (b :: B) D' refs'
    end
  end.

Definition scan_all (p : prog) : list (list Z * list Z * list (bool * Z)) :=
  map (fun seg => scan_seg (S (length seg)) seg 0 [] [] []) (p_segs p).

Definition is_root (p : prog) (t : Z) : bool := (t =? 0) || memz (t + BOUND_DICTIONARY) (map snd (p_words p)).

(* exit / do depths by descending from the roots *)
Fixpoint assign (fuel : nat) (p : prog) (sc : list (list Z * list Z * list (bool * Z))) (w ed dd : Z)
         (acc : list (Z * Z)) : list (Z * Z) :=
  match fuel with
  | O => acc
  | S f =>
    let acc1 := match zupd acc w (ed, dd) with Some a => a | None => acc end in
    match znth sc w with
    | None => acc1
    | Some (_, _, refs) =>
      fold_left (fun a (r : bool * Z) =>
                   let '(isdo, t) := r in
                   if is_root p t then a else assign f p sc t (ed + 1) (if isdo then dd + 1 else dd) a) refs acc1
    end
  end.

Fixpoint nx_iter (fuel : nat) (sc : list (list Z * list Z * list (bool * Z))) (nx : list bool) : list bool :=
  match fuel with
  | O => nx
  | S f =>
    let step (nx : list bool) (wi : Z * (list Z * list Z * list (bool * Z))) :=
      let '(w, (_, _, refs)) := wi in
      fold_left (fun (a : list bool) (r : bool * Z) =>
                   let '(isdo, t) := r in
                   if isdo || match znth nx w with Some true => true | _ => false end
                   then match zupd a t true with Some a' => a' | None => a end else a) refs nx in
    let idx := map Z.of_nat (seq 0 (length sc)) in
    nx_iter f sc (fold_left step (combine idx sc) nx)
  end.

Definition infer (p : prog) : list sctx :=
  let sc := scan_all p in
  let n := length (p_segs p) in
  let roots := filter (is_root p) (map Z.of_nat (seq 0 n)) in
  let eds := fold_left (fun a r => assign (S n) p sc r 0 0 a) roots (map (fun _ => (0, 0)) sc) in
  let nx := nx_iter (S n) sc (map (fun _ => false) sc) in
  map (fun x : (list Z * list Z * list (bool * Z)) * (Z * Z) * bool =>
         let '((B, D, _), (ed, dd), nxw) := x in mkS B D ed dd nxw)
      (combine (combine sc eds) nx).

(* the program is accepted with the inferred certificate *)
Definition wf_prog (p : prog) : bool := check_prog (infer p) p.

(* dynamic hazard: the next instruction is `exit` while a do-loop is active *)
Definition next_is_exit (p : prog) (m : machine) : bool :=
  match m_frames m with
  | (w, ip) :: _ => match znth (p_segs p) w with
                    | Some seg => match znth seg ip with Some bc => bc =? CODE_EXIT | None => false end
                    | None => false
                    end
  | [] => false
  end.
