(** C04 — model = specification beyond two arrays, part 1: ONE array of the fragment [jag] and ANY NUMBER of Python scalars,
    at any positions (e.g. [x + 1], [2 * x], [np.clip(x, 0, 10)]): inputs, rows of the specification, the specification
    steps (leaf, option, list), the leaf engine (NumPy on one buffer and 0-d scalars). *)
From AwkV Require Import LayoutInd Proofs_Lists Proofs_ToList Proofs_Typing Proofs_Carry Proofs_AtAxisOps Proofs_C05 Ops_Struct.
From AwkBroadcast Require Import Broadcast Proofs_C04 Proofs_C04_Model1 Proofs_C04_Model2 Proofs_C04_Model3 Proofs_C04_Model4
  Proofs_C04_Model5 Proofs_C04_Model6.
From Coq Require Import Lia ZifyBool.

(* a Python scalar: (is-boolean, value) *)
Definition sc : Type := (bool * Z)%type.
Definition msc (s : sc) : minput := MS (fst s) (snd s).
Definition ssc (s : sc) : sarg := (TNum (if fst s then DBool else DInt64), mk_leaf (fst s) (snd s)).
Definition sinp (s : sc) : sinput := SScalar (fst s) (snd s).
(* Python's True / False are the integers 1 / 0 *)
Definition sc_ok (s : sc) : bool := negb (fst s) || (snd s =? 0) || (snd s =? 1).

(* the inputs of the model: scalars, the array, scalars *)
Definition ins (pre : list sc) (c : content) (post : list sc) : list minput := map msc pre ++ MC c :: map msc post.
(* one row of the specification: the scalars and one element of the array *)
Definition row1 (pre post : list sc) (t : ty) (v : value) : list sarg := map ssc pre ++ (t, v) :: map ssc post.
Definition rows1 (pre post : list sc) (t : ty) (vs : list value) : list (list sarg) := map (row1 pre post t) vs.

Lemma pack_s_sinp s : pack_s (sinp s) = ssc s.
Proof. reflexivity. Qed.

(* ------------------------------------------------------------------ the inputs *)
Lemma contents_of_msc l : contents_of (map msc l) = [].
Proof. induction l as [|s l IH]; [reflexivity|]. exact IH. Qed.
Lemma contents_of_app a b : contents_of (a ++ b) = contents_of a ++ contents_of b.
Proof. unfold contents_of. apply flat_map_app. Qed.
Lemma contents_of_ins pre c post : contents_of (ins pre c post) = [c].
Proof.
  unfold ins. rewrite contents_of_app, contents_of_msc. cbn [app].
  change (contents_of (MC c :: map msc post)) with (c :: contents_of (map msc post)). now rewrite contents_of_msc.
Qed.

Lemma mapM_msc (F : content -> res content) l :
  mapM (fun i => match i with MC c => rmap MC (F c) | MS _ _ => Ok i end) (map msc l) = Ok (map msc l).
Proof. induction l as [|s l IH]; [reflexivity|]. cbn [map mapM msc]. rewrite IH. reflexivity. Qed.
Lemma map_c_ins (F : content -> res content) pre c post :
  map_c F (ins pre c post) = do n <- F c; Ok (ins pre n post).
Proof.
  unfold map_c, ins. rewrite mapM_app, mapM_msc. cbn [bind]. rewrite mapM_cons, mapM_msc.
  destruct (F c); reflexivity.
Qed.

Lemma ins_has_array pre c post : existsb (fun i => match i with MC _ => true | _ => false end) (ins pre c post) = true.
Proof. unfold ins. rewrite existsb_app. cbn [existsb]. apply orb_true_r. Qed.
Lemma map_pack_ins pre c post : map pack (ins pre c post) = ins pre (packC c) post.
Proof.
  unfold ins. rewrite map_app. cbn [map pack]. fold (packC c).
  assert (H : forall l, map pack (map msc l) = map msc l) by (induction l as [|s l IH]; [reflexivity|]; cbn [map]; now rewrite IH).
  now rewrite !H.
Qed.

(* a single array never takes the "implicit right-broadcasting" step *)
Lemma single_rcond c :
  (let cs := [c] in
   let md := fold_right Z.max (-1) (map pl_depth cs) in
   existsb is_list_node cs && (0 <? md) && forallb pl_isreg cs && existsb (fun c => pl_depth c <? md) cs) = false.
Proof.
  cbv zeta. cbn [map fold_right existsb]. rewrite !orb_false_r.
  destruct (0 <? Z.max (pl_depth c) (-1)) eqn:E; [|now rewrite andb_false_r].
  assert (H : (pl_depth c <? Z.max (pl_depth c) (-1)) = false) by lia. rewrite H. apply andb_false_r.
Qed.

(* ------------------------------------------------------------------ predicates on a row *)
Lemma existsb_row1 (P : sarg -> bool) pre post t v :
  (forall s, P (ssc s) = false) -> existsb P (row1 pre post t v) = P (t, v).
Proof.
  intros H. unfold row1. rewrite existsb_app. cbn [existsb].
  assert (E : forall l, existsb P (map ssc l) = false).
  { induction l as [|s l IH]; [reflexivity|]. cbn [map existsb]. now rewrite H, IH. }
  rewrite !E. cbn [orb]. apply orb_false_r.
Qed.
Lemma existsb_row1_t (P : ty -> bool) pre post t v :
  (forall dt, P (TNum dt) = false) -> existsb P (map fst (row1 pre post t v)) = P t.
Proof.
  intros H. transitivity (existsb (fun a : sarg => P (fst a)) (row1 pre post t v)).
  - induction (row1 pre post t v) as [|a l IH]; [reflexivity|]. cbn [map existsb]. now rewrite IH.
  - apply (existsb_row1 (fun a : sarg => P (fst a))). intros s. apply H.
Qed.
