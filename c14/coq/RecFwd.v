(** C14 — records and tuples: forwarding a command through the open (active) frames above the node it is for. *)
From Coq Require Import ZArith List Bool Lia.
From AwkV Require Import Base Layout.
From AwkBuilder Require Import Builder Spec GbLemmas Invariant StepLemmas AtomStep Push OpenClose RecInv.
Import ListNotations.
Open Scope Z_scope.

Lemma xplug_active K b : active b = true -> active (xplug K b) = true.
Proof.
  induction K as [|f K IH]; intro H; [exact H|]. destruct f; cbn [xplug active]; auto.
  pose proof (zlen_nonneg pre). apply negb_true_iff. apply Z.eqb_neq. lia.
Qed.

Lemma xplug_blen K b b' : K <> [] -> blen (xplug K b) = blen (xplug K b').
Proof. destruct K as [|f K]; [congruence|]. intros _. destruct f; reflexivity. Qed.

(* begin_tuple with a negative arity throws wherever it arrives *)
Definition cmdok (c : cmd) : Prop := match c with CBeginTuple n => 0 <= n | _ => True end.
(* the commands that start a value *)
Definition vstart (c : cmd) : Prop :=
  match c with
  | CNull | CBool _ | CInt _ | CReal _ | CStr _ _ | CBeginList | CBeginRecord _ => True
  | CBeginTuple n => 0 <= n
  | _ => False
  end.

Lemma vstart_cmdok c : vstart c -> cmdok c.
Proof. destruct c; cbn; auto. Qed.

Lemma zlen_neq_m1 {A} (l : list A) : (zlen l =? -1) = false.
Proof. pose proof (zlen_nonneg l). apply Z.eqb_neq. lia. Qed.

Lemma neg_ltb n : 0 <= n -> (n <? 0) = false.
Proof. intro. apply Z.ltb_ge. lia. Qed.

Lemma nonneg_neq_m1 n : 0 <= n -> (n =? -1) = false.
Proof. intro. apply Z.eqb_neq. lia. Qed.

Section WithOpts.
Variable o : opts.

(* ------------------------------------------------------------------ one active frame *)
Lemma xfwd1 f b b' cmd :
  fok f -> cmdok cmd -> active b = true -> step o b cmd = SOk b' None -> active b' = true -> blen b' = blen b ->
  step o (xplug [f] b) cmd = SOk (xplug [f] b') None.
Proof.
  intros Fk Ck AX E AX' BX. destruct f; cbn [xplug].
  - (* list *)
    cbn [step negb]. destruct cmd; rewrite ?AX; cbn [negb]; rewrite E; reflexivity.
  - (* option *)
    cbn [step]. rewrite AX. cbn [negb].
    destruct cmd; cbn [kind_of]; rewrite E; cbn [dr]; cbv beta iota; try reflexivity; rewrite BX, Z.eqb_refl; reflexivity.
  - (* union *)
    cbn [step]. rewrite zlen_neq_m1. cbn [negb].
    rewrite nth_z_app, to_nat_zlen, at_nth_app, E.
    destruct cmd; cbn [kind_of dr]; cbv beta iota; rewrite ?BX, ?Z.eqb_refl, ?upd_nth_app; reflexivity.
  - (* tuple *)
    cbn [fok] in Fk.
    destruct cmd; cbn [step negb andb orb]; rewrite ?zlen_neq_m1; cbv iota;
      try (rewrite nth_z_app, to_nat_zlen, at_nth_app, E, ?AX; cbn [negb orb dr]; cbv beta iota;
           rewrite ?upd_nth_app; reflexivity).
    cbn [cmdok] in Ck. rewrite (neg_ltb n Ck), (nonneg_neq_m1 len Fk). cbv iota beta. cbn [negb andb].
    rewrite ?zlen_neq_m1. cbv iota.
    rewrite nth_z_app, to_nat_zlen, at_nth_app, E, AX. cbn [dr]. rewrite upd_nth_app. reflexivity.
  - (* record *)
    cbn [fok] in Fk.
    destruct cmd; cbn [step negb andb orb]; rewrite ?zlen_neq_m1; cbv iota;
      try (rewrite nth_z_app, to_nat_zlen, at_nth_app, E, ?AX; cbn [negb orb dr]; cbv beta iota;
           rewrite ?upd_nth_app; reflexivity).
    rewrite (nonneg_neq_m1 len Fk). cbv iota beta. cbn [negb andb].
    rewrite ?zlen_neq_m1. cbv iota.
    rewrite nth_z_app, to_nat_zlen, at_nth_app, E, AX. cbn [dr]. rewrite upd_nth_app. reflexivity.
Qed.

Lemma xfwd K : Forall fok K -> forall b b' cmd,
  cmdok cmd -> active b = true -> step o b cmd = SOk b' None -> active b' = true -> blen b' = blen b ->
  step o (xplug K b) cmd = SOk (xplug K b') None.
Proof.
  induction K as [|f K IH]; intros FK b b' cmd Ck Ab E Ab' Bl; [exact E|].
  inversion FK as [|? ? Ff FK']; subst.
  specialize (IH FK' b b' cmd Ck Ab E Ab' Bl).
  assert (blen (xplug K b') = blen (xplug K b)) as BX.
  { destruct K; [exact Bl|]. apply xplug_blen. congruence. }
  apply (xfwd1 f (xplug K b) (xplug K b') cmd Ff Ck (xplug_active K b Ab) IH (xplug_active K b' Ab') BX).
Qed.

(* ------------------------------------------------------------------ the innermost frame: a value starts in its child *)
Lemma xsite1 f c cmd s r :
  fok f -> site f -> vstart cmd -> active c = false -> step o c cmd = SOk s r ->
  step o (xplug [f] c) cmd = SOk (xplug [f] (pick s r)) None.
Proof.
  intros Fk Sf Vc Ac E. destruct f; cbn [site] in Sf; try contradiction; cbn [xplug].
  - cbn [step negb]. destruct cmd; cbn [vstart] in Vc; try contradiction; rewrite E; reflexivity.
  - cbn [fok] in Fk.
    destruct cmd; cbn [vstart] in Vc; try contradiction; cbn [step negb andb orb]; rewrite ?zlen_neq_m1; cbv iota;
      try (rewrite nth_z_app, to_nat_zlen, at_nth_app, E, ?Ac; cbn [negb orb mu]; cbv beta iota;
           rewrite ?upd_nth_app; reflexivity).
    rewrite (neg_ltb n Vc), (nonneg_neq_m1 len Fk). cbv iota beta. cbn [negb andb].
    rewrite ?zlen_neq_m1. cbv iota.
    rewrite nth_z_app, to_nat_zlen, at_nth_app, E, Ac. cbn [mu]. rewrite upd_nth_app. reflexivity.
  - cbn [fok] in Fk.
    destruct cmd; cbn [vstart] in Vc; try contradiction; cbn [step negb andb orb]; rewrite ?zlen_neq_m1; cbv iota;
      try (rewrite nth_z_app, to_nat_zlen, at_nth_app, E, ?Ac; cbn [negb orb mu]; cbv beta iota;
           rewrite ?upd_nth_app; reflexivity).
    rewrite (nonneg_neq_m1 len Fk). cbv iota beta. cbn [negb andb].
    rewrite ?zlen_neq_m1. cbv iota.
    rewrite nth_z_app, to_nat_zlen, at_nth_app, E, Ac. cbn [mu]. rewrite upd_nth_app. reflexivity.
Qed.

Lemma site_active f c : site f -> active (xplug [f] c) = true.
Proof. destruct f; cbn; intro H; try contradiction; reflexivity. Qed.
Lemma site_blen f c c' : site f -> blen (xplug [f] c) = blen (xplug [f] c').
Proof. destruct f; cbn; intro H; try contradiction; reflexivity. Qed.

Lemma xstep_in K c cmd s r :
  xokctx K -> vstart cmd -> active c = false -> step o c cmd = SOk s r ->
  ab_step o (xplug K c) cmd = (xplug K (pick s r), None).
Proof.
  intros [FK [->|(K' & f & -> & Sf)]] Vc Ac E.
  - cbn [xplug]. unfold ab_step. now rewrite E.
  - apply Forall_app in FK. destruct FK as [FK' Ff]. inversion Ff as [|? ? Ff' _]; subst.
    rewrite !xplug_app. unfold ab_step.
    rewrite (xfwd K' FK' (xplug [f] c) (xplug [f] (pick s r)) cmd (vstart_cmdok _ Vc) (site_active f c Sf)
               (xsite1 f c cmd s r Ff' Sf Vc Ac E) (site_active f _ Sf) (site_blen f _ _ Sf)).
    reflexivity.
Qed.

(* a command handled by an open node itself *)
Lemma xnode_in K b b' cmd :
  Forall fok K -> cmdok cmd -> active b = true -> step o b cmd = SOk b' None -> active b' = true -> blen b' = blen b ->
  ab_step o (xplug K b) cmd = (xplug K b', None).
Proof. intros. unfold ab_step. now rewrite (xfwd K H b b' cmd). Qed.

(* the innermost frame when the value that was open in its child is closed *)
Lemma xsite_end f X c' endc :
  fok f -> site f -> kind_of endc = KEnd -> active X = true -> step o X endc = SOk c' None ->
  step o (xplug [f] X) endc = SOk (xplug [f] c') None.
Proof.
  intros Fk Sf Ke AX E. destruct f; cbn [site] in Sf; try contradiction; cbn [xplug].
  - cbn [step negb]. destruct endc; try discriminate Ke; rewrite ?AX; cbn [negb]; rewrite E; reflexivity.
  - cbn [fok] in Fk.
    destruct endc; try discriminate Ke; cbn [step negb andb orb]; rewrite ?zlen_neq_m1; cbv iota;
      rewrite nth_z_app, to_nat_zlen, at_nth_app, E, ?AX; cbn [negb orb dr]; cbv beta iota;
      rewrite ?upd_nth_app; reflexivity.
  - cbn [fok] in Fk.
    destruct endc; try discriminate Ke; cbn [step negb andb orb]; rewrite ?zlen_neq_m1; cbv iota;
      rewrite nth_z_app, to_nat_zlen, at_nth_app, E, ?AX; cbn [negb orb dr]; cbv beta iota;
      rewrite ?upd_nth_app; reflexivity.
Qed.

Lemma kend_cmdok c : kind_of c = KEnd -> cmdok c.
Proof. destruct c; cbn; intro H; try discriminate H; exact I. Qed.

Lemma xend_in K X c' endc :
  xokctx K -> kind_of endc = KEnd -> active X = true -> step o X endc = SOk c' None ->
  ab_step o (xplug K X) endc = (xplug K c', None).
Proof.
  intros [FK [->|(K' & f & -> & Sf)]] Ke AX E.
  - cbn [xplug]. unfold ab_step. now rewrite E.
  - apply Forall_app in FK. destruct FK as [FK' Ff]. inversion Ff as [|? ? Ff' _]; subst.
    rewrite !xplug_app. unfold ab_step.
    rewrite (xfwd K' FK' (xplug [f] X) (xplug [f] c') endc (kend_cmdok _ Ke) (site_active f X Sf)
               (xsite_end f X c' endc Ff' Sf Ke AX E) (site_active f _ Sf) (site_blen f _ _ Sf)).
    reflexivity.
Qed.

End WithOpts.
