(** C17b, elements: every element taken out of a valid array matches one of the item types that
    [item_types] (the model of what Content::getitem_at may return for an array of that Form) lists;
    [item_types] never fails on the form of a layout whose NumpyArray nodes have a dimension; an array whose
    (element) type is unknown has no elements.  All node classes. *)
From Coq Require Import ZArith List Bool Lia ZifyBool.
From AwkV Require Import Base Layout LayoutInd Valid Types Carry Proofs_Lists Proofs_ToList Proofs_C11.
From AwkTypes Require Import Json Forms TypeStr Typing Proofs_Depth Proofs_Types Proofs_Typing Examples_C17.
Import ListNotations.
Open Scope Z_scope.
Ltac Zify.zify_post_hook ::= Z.to_euclidean_division_equations.

(* ---------------------------------------------------------------- the specification-level relation
   [item_matches it v]: the nested-list value v is what ak.to_list shows for an element that getitem_at
   returned as the item [it]:
   - INone: exactly None;
   - IScalar dt: a boolean iff dt = bool, a number otherwise (dtypes outside the core model: nothing);
   - IRecord t: a record / tuple value of the (erased) record type t -- keys in order, fields typed;
   - IArray t: a list ALL of whose elements have the (erased) type t (the length of the item is not part of
     the item type: it is the regular size or the list's own count), or a string / bytestring unit, in which case
     t must be the uint8 leaf type carrying __array__ = "char" (string) resp. "byte" (bytestring). *)
Definition item_matches (it : TypeStr.item) (v : value) : bool :=
  match it with
  | INone => match v with VNone => true | _ => false end
  | IScalar (FD dt) => has_typeb (TNum dt) v
  | IScalar _ => false
  | IRecord t => match v with VRec _ | VTup _ => has_typeb (erase t) v | _ => false end
  | TypeStr.IArray t =>
      match v with
      | VList l => forallb (has_typeb (erase t)) l
      | VStr isstr _ =>
          match t with
          | RNum p _ (FD DUInt8) => param_is_str p k_array (if isstr then s_char else s_byte)
          | _ => false
          end
      | _ => false
      end
  end.

Definition some_item_matches (l : list TypeStr.item) (v : value) : bool := existsb (fun it => item_matches it v) l.

(* [covers]: the item list of the form exists and covers every value of the layout's type *)
Definition covers (ts : typestrs) (p : option akind) (r : option name) (c : content) : Prop :=
  exists l, item_types ts (form_of_p p r c) = Ok l /\
            forall v, has_typeb (type_of_p p c) v = true -> some_item_matches l v = true.

Lemma rerase_inv ts f t0 : rerase (type_of_form ts f) = Ok t0 -> exists t, type_of_form ts f = Ok t /\ erase t = t0.
Proof.
  unfold rerase, rmap. destruct (type_of_form ts f) as [t|e]; intros H; [|discriminate].
  inversion H; subst. eauto.
Qed.

(* the three list node classes: item = the content's type; strings as a unit *)
Lemma cover_list ts p c0 cc sz :
  ParamOk p c0 -> list_content c0 = Some cc -> (is_strk p = false -> Valid None cc) ->
  exists l, (do t <- type_of_form ts (form_of_p None None cc); Ok [TypeStr.IArray t]) = Ok l /\
            forall v, has_typeb (TList sz (strflag p) (type_of_p None cc)) v = true -> some_item_matches l v = true.
Proof.
  intros Hp Hlc HV. destruct (is_strk p) eqn:Es.
  - destruct p as [[]|]; try discriminate Es; cbn [ParamOk] in Hp; destruct Hp as (cc' & rn & n & d & Hcc & ->);
      rewrite Hlc in Hcc; inversion Hcc; subst cc; cbn [form_of_p por type_of_form meta_of m_params bind];
      (eexists; split; [reflexivity|]); intros v Hv; destruct v; try discriminate Hv;
      cbn [strflag type_of_p has_typeb] in Hv; apply andb_true_iff in Hv as [Hi _];
      destruct isstr; try discriminate Hi; destruct rn; reflexivity.
  - specialize (HV eq_refl). rewrite (ParamOk_nostr p c0 Hp Es).
    destruct (rerase_inv _ _ _ (type_of_form_of_gen ts cc None None HV)) as (t & Ht & He).
    rewrite Ht. cbn [bind]. eexists. split; [reflexivity|]. intros v Hv. cbn [strflag has_typeb] in Hv.
    destruct v; try discriminate Hv. apply andb_true_iff in Hv as [Hv _].
    unfold some_item_matches. cbn [existsb item_matches]. rewrite He, Hv. reflexivity.
Qed.

Lemma cover_opt l v t :
  (forall v, has_typeb t v = true -> some_item_matches l v = true) ->
  has_typeb (TOpt t) v = true -> some_item_matches (INone :: l) v = true.
Proof.
  intros H Hv. unfold some_item_matches in *. cbn [existsb item_matches].
  destruct v; cbn [has_typeb] in Hv; try reflexivity; rewrite (H _ Hv); reflexivity.
Qed.

Lemma some_item_matches_app l1 l2 v :
  some_item_matches (l1 ++ l2) v = some_item_matches l1 v || some_item_matches l2 v.
Proof. apply existsb_app. Qed.

Lemma cover_union ts (cs : list content) :
  Forall (covers ts None None) cs ->
  exists ll, mapM_id (map (item_types ts) (map (form_of_p None None) cs)) = Ok ll /\
             forall v, has_typeb (TUnion (map (type_of_p None) cs)) v = true -> some_item_matches (concat ll) v = true.
Proof.
  induction 1 as [|c cs (l & Hl & Hc) _ (ll & Hll & Hcs)].
  - exists []. split; [reflexivity|]. intros v Hv. discriminate Hv.
  - exists (l :: ll). split.
    + cbn [map mapM_id]. rewrite Hl. cbn [bind]. rewrite Hll. reflexivity.
    + intros v Hv. cbn [concat]. rewrite some_item_matches_app. cbn [map has_typeb] in Hv.
      apply orb_true_iff in Hv as [Hv|Hv]; [rewrite (Hc _ Hv); reflexivity|].
      rewrite (Hcs v Hv). apply orb_true_r.
Qed.

Lemma no_param_nonlist p c : ParamOk p c -> list_content c = None -> p = None.
Proof. apply ParamOk_nonlist. Qed.

Theorem item_types_cover ts c : forall p r, Valid p c -> covers ts p r c.
Proof.
  induction c as [ | | | | | | | | | | w t ix cs HF | cs ks n HF | ] using content_ind'; intros p r HV; inversion HV; subst;
    unfold covers.
  - (* Numpy *)
    match goal with Hp : ParamOk p _ |- _ => pose proof (no_param_nonlist _ _ Hp eq_refl) as -> end.
    destruct shape as [|n [|d rest]]; [congruence| |].
    + cbn [form_of_p tl item_types]. eexists. split; [reflexivity|]. intros v Hv.
      cbn [type_of_p tl numpy_ty] in Hv. unfold some_item_matches. cbn [existsb item_matches]. rewrite Hv. reflexivity.
    + cbn [form_of_p tl item_types type_of_form bind]. eexists. split; [reflexivity|]. intros v Hv.
      cbn [type_of_p tl numpy_ty has_typeb] in Hv. destruct v; try discriminate Hv.
      apply andb_true_iff in Hv as [Hv _]. unfold some_item_matches. cbn [existsb item_matches].
      rewrite erase_numpy_fold, Hv. reflexivity.
  - (* Empty *)
    eexists. split; [reflexivity|]. intros v Hv. cbn [type_of_p has_typeb] in Hv. discriminate Hv.
  - (* ListOffset *)
    cbn [form_of_p item_types type_of_p]. eapply cover_list; [eassumption|reflexivity|assumption].
  - cbn [form_of_p item_types type_of_p]. eapply cover_list; [eassumption|reflexivity|assumption].
  - cbn [form_of_p item_types type_of_p]. eapply cover_list; [eassumption|reflexivity|assumption].
  - (* Indexed *)
    match goal with Hv : Valid None c |- _ => destruct (IHc None None Hv) as (l & Hl & Hc) end.
    cbn [form_of_p item_types type_of_p]. exists l. split; assumption.
  - match goal with Hv : Valid None c |- _ => destruct (IHc None None Hv) as (l & Hl & Hc) end.
    cbn [form_of_p item_types type_of_p]. rewrite Hl. cbn [bind]. eexists. split; [reflexivity|].
    intros v. apply cover_opt. exact Hc.
  - match goal with Hv : Valid None c |- _ => destruct (IHc None None Hv) as (l & Hl & Hc) end.
    cbn [form_of_p item_types type_of_p]. rewrite Hl. cbn [bind]. eexists. split; [reflexivity|].
    intros v. apply cover_opt. exact Hc.
  - match goal with Hv : Valid None c |- _ => destruct (IHc None None Hv) as (l & Hl & Hc) end.
    cbn [form_of_p item_types type_of_p]. rewrite Hl. cbn [bind]. eexists. split; [reflexivity|].
    intros v. apply cover_opt. exact Hc.
  - match goal with Hv : Valid None c |- _ => destruct (IHc None None Hv) as (l & Hl & Hc) end.
    cbn [form_of_p item_types type_of_p]. rewrite Hl. cbn [bind]. eexists. split; [reflexivity|].
    intros v. apply cover_opt. exact Hc.
  - (* Union *)
    destruct (cover_union ts cs) as (ll & Hll & Hc).
    { match goal with HVs : Forall (Valid None) cs |- _ =>
        eapply Forall_impl2; [|exact HF|exact HVs]; intros x Hx Hv; apply (Hx None None Hv) end. }
    cbn [form_of_p item_types type_of_p]. rewrite Hll. cbn [bind]. eexists. split; [reflexivity|]. exact Hc.
  - (* Record *)
    destruct (rerase_inv _ _ _ (type_of_form_of_gen ts (Record cs ks n) p r HV)) as (t & Ht & He).
    cbn [form_of_p] in Ht. cbn [form_of_p item_types]. rewrite Ht. cbn [bind]. eexists. split; [reflexivity|].
    intros v Hv. unfold some_item_matches. cbn [existsb item_matches]. rewrite He, Hv.
    destruct v; try reflexivity; cbn [type_of_p has_typeb] in Hv; destruct ks; discriminate Hv.
  - (* Par *)
    cbn [form_of_p type_of_p por]. eapply IHc. eassumption.
Qed.

(* ---------------------------------------------------------------- the theorems *)
(* (1) the element at any position of a valid array matches one of the item types of its form *)
Theorem getitem_at_type_thm c vs i v ts l :
  Valid None c -> to_list c = Ok vs -> get vs i = Ok v -> item_types ts (form_of c) = Ok l ->
  existsb (fun it => item_matches it v) l = true.
Proof.
  intros HV Hl Hg Hit. destruct (item_types_cover ts c None None HV) as (l' & Hl' & Hc).
  unfold form_of in Hit. rewrite Hit in Hl'. inversion Hl'; subst l'.
  apply Hc. pose proof (to_list_typed_thm c vs HV Hl) as HF. rewrite Forall_forall in HF.
  apply HF. eapply get_In. exact Hg.
Qed.

(* the same for every element at once *)
Theorem elements_match_items_thm c vs ts :
  Valid None c -> to_list c = Ok vs ->
  exists l, item_types ts (form_of c) = Ok l /\ Forall (fun v => existsb (fun it => item_matches it v) l = true) vs.
Proof.
  intros HV Hl. destruct (item_types_cover ts c None None HV) as (l & Hit & Hc). exists l. split; [exact Hit|].
  pose proof (to_list_typed_thm c vs HV Hl) as HF. eapply Forall_impl; [|exact HF]. intros v Hv. apply Hc. exact Hv.
Qed.

(* (1') [item_types] never fails on the form of a layout whose NumpyArray nodes have at least one dimension
   (no validity needed: Form::type can only fail on a VirtualForm without a form or a non-primitive dtype) *)
Lemma type_of_form_total ts c : forall a r, np_ok c = true -> exists t, type_of_form ts (form_of_p a r c) = Ok t.
Proof.
  induction c as [ | | | | | | | | | | w t ix cs HF | cs ks n HF | ] using content_ind'; intros a r Hn;
    cbn [np_ok] in Hn; cbn [form_of_p type_of_form];
    try (destruct (IHc None None Hn) as (t0 & Ht0); rewrite Ht0; cbn [bind]);
    try (eexists; reflexivity).
  - (* Indexed *)
    destruct (rty_params t0), (m_params (meta_of a r)); eexists; reflexivity.
  - (* Union *)
    assert (H : exists l, mapM_id (map (type_of_form ts) (map (form_of_p None None) cs)) = Ok l).
    { induction HF as [|c cs Hc _ IH]; [exists []; reflexivity|]. cbn [forallb] in Hn.
      apply andb_true_iff in Hn as [Hn1 Hn2]. destruct (Hc None None Hn1) as (t0 & Ht0). destruct (IH Hn2) as (l & Hl).
      cbn [map mapM_id]. rewrite Ht0. cbn [bind]. rewrite Hl. eexists. reflexivity. }
    destruct H as (l & Hl). rewrite Hl. eexists. reflexivity.
  - assert (H : exists l, mapM_id (map (type_of_form ts) (map (form_of_p None None) cs)) = Ok l).
    { induction HF as [|c cs Hc _ IH]; [exists []; reflexivity|]. cbn [forallb] in Hn.
      apply andb_true_iff in Hn as [Hn1 Hn2]. destruct (Hc None None Hn1) as (t0 & Ht0). destruct (IH Hn2) as (l & Hl).
      cbn [map mapM_id]. rewrite Ht0. cbn [bind]. rewrite Hl. eexists. reflexivity. }
    destruct H as (l & Hl). rewrite Hl. eexists. reflexivity.
  - (* Par *) apply IHc. exact Hn.
Qed.

Theorem item_types_total_thm ts c : np_ok c = true -> exists l, item_types ts (form_of c) = Ok l.
Proof.
  unfold form_of. generalize (@None akind) at 1. generalize (@None name).
  induction c as [ | | | | | | | | | | w t ix cs HF | cs ks n HF | ] using content_ind'; intros r a Hn;
    cbn [np_ok] in Hn; cbn [form_of_p item_types].
  - destruct shape as [|n [|d rest]]; [discriminate| |]; cbn [tl type_of_form bind]; eexists; reflexivity.
  - eexists; reflexivity.
  - destruct (type_of_form_total ts c None None Hn) as (t & ->). eexists; reflexivity.
  - destruct (type_of_form_total ts c None None Hn) as (t & ->). eexists; reflexivity.
  - destruct (type_of_form_total ts c None None Hn) as (t & ->). eexists; reflexivity.
  - apply IHc. exact Hn.
  - destruct (IHc None None Hn) as (l & ->). eexists; reflexivity.
  - destruct (IHc None None Hn) as (l & ->). eexists; reflexivity.
  - destruct (IHc None None Hn) as (l & ->). eexists; reflexivity.
  - destruct (IHc None None Hn) as (l & ->). eexists; reflexivity.
  - assert (H : exists ll, mapM_id (map (item_types ts) (map (form_of_p None None) cs)) = Ok ll).
    { induction HF as [|c cs Hc _ IH]; [exists []; reflexivity|]. cbn [forallb] in Hn.
      apply andb_true_iff in Hn as [Hn1 Hn2]. destruct (Hc None None Hn1) as (t0 & Ht0). destruct (IH Hn2) as (l & Hl).
      cbn [map mapM_id]. rewrite Ht0. cbn [bind]. rewrite Hl. eexists. reflexivity. }
    destruct H as (ll & ->). eexists; reflexivity.
  - destruct (type_of_form_total ts (Record cs ks n) a r Hn) as (t & Ht). cbn [form_of_p] in Ht.
    rewrite Ht. eexists; reflexivity.
  - apply IHc. exact Hn.
Qed.

(* (1'') EmptyArray: no items and no elements -- also below Indexed / Par nodes: whenever the item list is empty *)
Theorem no_items_no_elements_thm c vs ts :
  Valid None c -> to_list c = Ok vs -> item_types ts (form_of c) = Ok [] -> vs = [].
Proof.
  intros HV Hl Hit. destruct vs as [|v vs]; [reflexivity|exfalso].
  assert (Hg : get (v :: vs) 0 = Ok v) by apply get_cons_0.
  pose proof (getitem_at_type_thm c _ 0 v ts [] HV Hl Hg Hit) as H. discriminate H.
Qed.

Theorem empty_array_items_thm ts : item_types ts (form_of Empty) = Ok [] /\ to_list Empty = Ok [].
Proof. split; reflexivity. Qed.

(* (4) nothing has the unknown type: an array whose item type is unknown has no elements; a list whose element
   type is unknown is empty; an option of unknown holds only None *)
Lemma has_type_unknown v : has_typeb TUnk v = false.
Proof. reflexivity. Qed.

Theorem unknown_type_no_elements_thm c vs :
  Valid None c -> to_list c = Ok vs -> type_of c = TUnk -> vs = [].
Proof.
  intros HV Hl Ht. pose proof (to_list_typed_thm c vs HV Hl) as HF. rewrite Ht in HF.
  destruct vs as [|v vs]; [reflexivity|]. inversion HF as [|? ? Hv _]. discriminate Hv.
Qed.

Theorem list_of_unknown_all_empty_thm c vs sz :
  Valid None c -> to_list c = Ok vs -> type_of c = TList sz None TUnk -> Forall (fun v => v = VList []) vs.
Proof.
  intros HV Hl Ht. pose proof (to_list_typed_thm c vs HV Hl) as HF. rewrite Ht in HF.
  eapply Forall_impl; [|exact HF]. intros v Hv. unfold has_type in Hv. cbn [has_typeb] in Hv.
  destruct v; try discriminate Hv. destruct l as [|x l]; [reflexivity|]. discriminate Hv.
Qed.

Theorem option_of_unknown_all_none_thm c vs :
  Valid None c -> to_list c = Ok vs -> type_of c = TOpt TUnk -> Forall (fun v => v = VNone) vs.
Proof.
  intros HV Hl Ht. pose proof (to_list_typed_thm c vs HV Hl) as HF. rewrite Ht in HF.
  eapply Forall_impl; [|exact HF]. intros v Hv. unfold has_type in Hv. destruct v; try discriminate Hv. reflexivity.
Qed.

(* ---------------------------------------------------------------- examples *)
(* ex_layout = [[{"x": 1, "y": "ab"}, {"x": 2, "y": None}], []]: the one item type is an array of records *)
Example ex_items : exists t, item_types [] (form_of ex_layout) = Ok [TypeStr.IArray t] /\
  erase t = TRec (Some [[120]; [121]]) [TNum DInt64; TOpt (TList None (Some true) (TNum DUInt8))].
Proof. eexists. split; vm_compute; reflexivity. Qed.

Example ex_getitem_at_type : forall i v l, get [VList [VRec [([120], VNum (DZ 1)); ([121], VStr true [97; 98])];
             VRec [([120], VNum (DZ 2)); ([121], VNone)]]; VList []] i = Ok v ->
  item_types [] (form_of ex_layout) = Ok l -> existsb (fun it => item_matches it v) l = true.
Proof. intros i v l. exact (getitem_at_type_thm ex_layout _ i v [] l ex_valid ex_to_list). Qed.

(* a layout using every item kind: union of (option of 2-d numbers -> INone, IArray), (records -> IRecord),
   (strings -> IArray char), (booleans through an IndexedArray -> IScalar bool) *)
Definition ex_items_layout : content :=
  Union I64 [0; 1; 2; 3; 0] [0; 0; 0; 1; 1]
    [ByteMasked [1; 0] true (Numpy DFloat64 [2; 2] [DZ 1; DZ 2; DZ 3; DZ 4]);
     Record [Numpy DInt64 [1] [DZ 7]] None 1;
     Par (Some AString) None (ListOffset I64 [0; 2] (Par (Some AChar) None (Numpy DUInt8 [2] [DZ 104; DZ 105])));
     Indexed I64 [1; 0] (Numpy DBool [2] [DZ 0; DZ 1])].

Example ex_items_valid : Valid None ex_items_layout.
Proof. apply (validity_exact_gen ex_items_layout None). vm_compute. reflexivity. Qed.

Example ex_items_list :
  to_list ex_items_layout = Ok [VList [VNum (DZ 1); VNum (DZ 2)]; VTup [VNum (DZ 7)]; VStr true [104; 105]; VBool false; VNone] /\
  exists t1 t2 t3, item_types [] (form_of ex_items_layout) =
     Ok [INone; TypeStr.IArray t1; IRecord t2; TypeStr.IArray t3; IScalar (FD DBool)] /\
     erase t1 = TNum DFloat64 /\ erase t2 = TRec None [TNum DInt64] /\ erase t3 = TNum DUInt8 /\
     map (fun v => map (fun it => item_matches it v) [INone; TypeStr.IArray t1; IRecord t2; TypeStr.IArray t3; IScalar (FD DBool)])
         [VList [VNum (DZ 1); VNum (DZ 2)]; VTup [VNum (DZ 7)]; VStr true [104; 105]; VBool false; VNone] =
     [[false; true; false; true; false]; [false; false; true; false; false]; [false; false; false; true; false];
      [false; false; false; false; true]; [true; false; false; false; false]].
Proof. split; [vm_compute; reflexivity|]. do 3 eexists. vm_compute. repeat split. Qed.

(* tightness of [item_matches]: a bytestring does not match the char item, a number does not match bool *)
Example item_matches_tight :
  item_matches (TypeStr.IArray t_char) (VStr false [104]) = false /\
  item_matches (TypeStr.IArray t_char) (VStr true [104]) = true /\
  item_matches (IScalar (FD DBool)) (VNum (DZ 1)) = false /\
  item_matches (IScalar FComplex128) (VNum (DZ 1)) = false /\
  item_matches (TypeStr.IArray (RNum [] [] (FD DInt64))) (VList [VNum (DZ 1); VNone]) = false.
Proof. vm_compute. repeat split. Qed.

Example ex_unknown : to_list (ListOffset I64 [0; 0; 0] Empty) = Ok [VList []; VList []] /\
  type_of (ListOffset I64 [0; 0; 0] Empty) = TList None None TUnk.
Proof. split; reflexivity. Qed.
